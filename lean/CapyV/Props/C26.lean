import CapyV.Proofs.Topo
import CapyV.Proofs.Sched
/-!
# C26 — inference scheduling offers exactly the ready work and detects true cycles

Only property theorems and non-vacuity examples live here. Vocabulary:
* `CapyV.Topo` — the model of `topo::TopoSort` (`run [] ops` = the state after the mutating
  calls `ops`, `none` = the `num_children -= 1` underflow panic);
* `CapyV.SchedSpec` — the property's own reading of a history (`after Abs.empty ops = some a`:
  the history follows the usage protocol and `a` is its abstract state: pending items,
  completed items, every registration ever made; `ready`, `waits`, `cyclic`);
* `CapyV.Sched` — the round loop of `InferenceCtx::finish`.
All statements are for every history, with no bound on items or rounds.
-/
namespace CapyV.C26
open CapyV.Topo CapyV.SchedSpec CapyV.Sched

/-- On every protocol-following history the real arithmetic never underflows (`remove`
never panics), and the state satisfies the counting invariant. -/
theorem no_underflow (ops : List Op) (a : Abs) (h : after Abs.empty ops = some a) :
    ∃ s, run [] ops = some s ∧ Inv a s :=
  inv_run inv_empty ops h

/-- **Headline.** After every protocol-following history, `peek_all` reports a cycle
exactly when the specification says so, and otherwise offers exactly — in registration
order — the pending items all of whose registered dependencies have completed. -/
theorem peekAll_exact (ops : List Op) (a : Abs) (s : Topo)
    (h : after Abs.empty ops = some a) (hs : run [] ops = some s) :
    peekAll s = (if cyclic a then .cycle else .ok (readyList a)) ∧
    (∀ x, x ∈ readyList a ↔ (x ∈ a.pend ∧ ∀ c, (x, c) ∈ a.regs → c ∈ a.done)) := by
  obtain ⟨s', hs', hi⟩ := no_underflow ops a h
  rw [hs] at hs'; cases hs'
  refine ⟨by rw [peekAll_eq, cyclic_iff hi, leaves_eq hi], fun x => ?_⟩
  simp only [readyList, List.mem_filter, depsDone, List.all_eq_true, Bool.or_eq_true,
    decide_eq_true_eq, Prod.forall]
  constructor
  · rintro ⟨hx, hall⟩
    refine ⟨hx, fun c hr => ?_⟩
    rcases hall x c hr with h1 | h1
    · simp at h1
    · exact h1
  · rintro ⟨hx, hall⟩
    refine ⟨hx, fun p c hr => ?_⟩
    by_cases hp : p = x
    · subst hp; exact Or.inr (hall c hr)
    · left; simpa using hp

/-- `in_cycle` / `peek_all_cyclic` agree with the specification's cycle verdict, and a
cycle-breaking round offers exactly the pending items. -/
theorem inCycle_iff (ops : List Op) (a : Abs) (s : Topo)
    (h : after Abs.empty ops = some a) (hs : run [] ops = some s) :
    inCycle s = cyclic a ∧ peekAllCyclic s = (if cyclic a then some a.pend else none) := by
  obtain ⟨s', hs', hi⟩ := no_underflow ops a h
  rw [hs] at hs'; cases hs'
  simp [peekAllCyclic, cyclic_iff hi, hi.keys_eq]

/-- A cycle is reported only when something is pending and every pending item still waits
on a pending item (and then nothing at all is ready). -/
theorem cycle_only_when_all_wait (ops : List Op) (a : Abs) (s : Topo)
    (h : after Abs.empty ops = some a) (hs : run [] ops = some s) (hc : peekAll s = .cycle) :
    a.pend ≠ [] ∧ ∀ x ∈ a.pend, ∃ c, (x, c) ∈ a.regs ∧ c ∈ a.pend := by
  have := (peekAll_exact ops a s h hs).1
  rw [hc] at this
  by_cases hcy : cyclic a = true
  · simp only [cyclic, Bool.and_eq_true, Bool.not_eq_true', List.isEmpty_eq_false_iff,
      List.all_eq_true] at hcy
    refine ⟨hcy.1, fun x hx => ?_⟩
    have := hcy.2 x hx
    simp only [waits, List.any_eq_true, Bool.and_eq_true, decide_eq_true_eq, Prod.exists] at this
    obtain ⟨p, c, hr, hp, hcp⟩ := this
    exact ⟨c, by simpa [← hp] using hr, hcp⟩
  · simp [hcy] at this

/-- Whatever is offered (by `peek_all` or by a cycle-breaking `peek_all_cyclic`) is
pending: registered and not completed since. -/
theorem offered_only_if_pending (ops : List Op) (a : Abs) (s : Topo)
    (h : after Abs.empty ops = some a) (hs : run [] ops = some s) :
    (∀ l, peekAll s = .ok l → ∀ x ∈ l, x ∈ a.pend ∧ x ∉ a.done) ∧
    (∀ l, peekAllCyclic s = some l → ∀ x ∈ l, x ∈ a.pend ∧ x ∉ a.done) := by
  obtain ⟨s', hs', hi⟩ := no_underflow ops a h
  rw [hs] at hs'; cases hs'
  constructor
  · intro l hl x hx
    rw [peekAll_eq] at hl
    by_cases hc : inCycle s = true
    · simp [hc] at hl
    · simp only [hc, Bool.false_eq_true, if_false, Peek.ok.injEq] at hl
      have := leaves_sub_keys s x (hl ▸ hx)
      rw [hi.keys_eq] at this
      exact ⟨this, hi.disj x this⟩
  · intro l hl x hx
    simp only [peekAllCyclic] at hl
    by_cases hc : inCycle s = true
    · simp only [hc, if_true, Option.some.injEq] at hl
      have : x ∈ a.pend := by rw [← hi.keys_eq, hl]; exact hx
      exact ⟨this, hi.disj x this⟩
    · simp [hc] at hl

/-- An item is offered again only after it was re-registered: `remove` takes the item out
of the map (whatever the state), and only items in the map are ever offered. -/
theorem removed_not_offered (s s' : Topo) (x : Nat) (b : Bool) (h : remove s x = some (s', b)) :
    x ∉ keys s' ∧ (∀ l, peekAll s' = .ok l → x ∉ l) ∧ (∀ l, peekAllCyclic s' = some l → x ∉ l) := by
  have hk : x ∉ keys s' := by rw [remove_keys h]; simp
  refine ⟨hk, ?_, ?_⟩
  · intro l hl hx
    rw [peekAll_eq] at hl
    by_cases hc : inCycle s' = true
    · simp [hc] at hl
    · simp only [hc, Bool.false_eq_true, if_false, Peek.ok.injEq] at hl
      exact hk (leaves_sub_keys s' x (hl ▸ hx))
  · intro l hl hx
    simp only [peekAllCyclic] at hl
    by_cases hc : inCycle s' = true
    · simp only [hc, if_true, Option.some.injEq] at hl
      exact hk (hl ▸ hx)
    · simp [hc] at hl

/-- The schedule is empty exactly when nothing is pending: once every item has completed,
`is_empty()` holds and the loop of `finish` stops. -/
theorem empties_when_all_complete (ops : List Op) (a : Abs) (s : Topo)
    (h : after Abs.empty ops = some a) (hs : run [] ops = some s) :
    s.isEmpty = a.pend.isEmpty ∧ s.length = a.pend.length := by
  obtain ⟨s', hs', hi⟩ := no_underflow ops a h
  rw [hs] at hs'; cases hs'
  rw [← hi.keys_eq]
  cases s <;> simp [keys]

/-- Outside the protocol the model (like the code in an overflow-checked build) does
underflow: re-inserting a completed parent while a child that still lists it is pending.
This is exactly the hypothesis the proof of `no_underflow` uses. -/
theorem underflow_outside_protocol :
    run [] [.dep 1 2, .remove 1, .insert 1, .remove 2] = none ∧
    after Abs.empty [.dep 1 2, .remove 1, .insert 1, .remove 2] = none := by
  decide

/-- Outside the protocol work can also be lost without a panic: a completed parent that
registers the same dependency again hits the "already registered" early return (the stale
edge is still in the child's parent set) and is never scheduled again. -/
theorem lost_item_outside_protocol :
    (run [] [.dep 1 2, .remove 1, .dep 1 2]).map keys = some [2] ∧
    after Abs.empty [.dep 1 2, .remove 1, .dep 1 2] = none := by
  decide

/-- **The round loop of `InferenceCtx::finish`.** Start from `extend` of distinct items;
let `infer` answer anything, as long as the checker's protocol holds (`scriptFresh`: each
round processes exactly the offered items, each completes or registers dependencies on
not-yet-completed items, possibly brand-new ones; cycle-breaking rounds may complete items
that have pending dependencies). Then the loop never panics (`peek_all_cyclic().unwrap()`,
`assert!(!leaves.is_empty())`, `num_children -= 1`), and in every round — for any number of
items and rounds — what it takes as `leaves` is exactly what the specification computes
from the history alone: the ready items, or all pending items when a cycle is to be reported. -/
theorem finish_offers_exact (items : List Nat) (hn : items.Nodup) (rs : List RoundScript)
    (hp : scriptFresh (step Abs.empty (.extend items)) rs) :
    (finish items rs).ok = true ∧
    (items ≠ [] → offers (extend [] items) rs = expectedOffers (step Abs.empty (.extend items)) rs) := by
  have hl : legal Abs.empty (.extend items) = true := by
    simp [legal, Abs.empty, hn]
  obtain ⟨s, hs, hi⟩ := inv_step inv_empty (.extend items) hl
  simp only [apply, Option.some.injEq] at hs
  subst hs
  unfold finish
  by_cases he : (extend [] items).isEmpty = true
  · refine ⟨by simp [he, Result.ok], fun hne => ?_⟩
    have : (step Abs.empty (.extend items)).pend = [] := by
      rw [← hi.keys_eq]; cases h : extend [] items <;> simp_all [keys]
    have h2 := (isEmpty_iff hi).2 this
    cases items with
    | nil => exact absurd rfl hne
    | cons x xs =>
      exfalso
      have hx : x ∈ (step Abs.empty (.extend (x :: xs))).pend := by
        simp only [step, addAll]
        have : ∀ (ys : List Nat) (a : Abs), x ∈ a.pend → x ∈ (addAll a ys).pend := by
          intro ys; induction ys with
          | nil => intro a h; exact h
          | cons y ys ih => intro a h; exact ih _ (mem_addPend.2 (Or.inl h))
        exact this xs _ (mem_addPend.2 (Or.inr rfl))
      rw [this] at hx; cases hx
  · have hne : extend [] items ≠ [] := by intro h0; simp [h0] at he
    obtain ⟨h1, h2⟩ := finishLoop_spec rs 0 hi hne hp
    simp only [he, Bool.false_eq_true, if_false]
    exact ⟨h1, fun _ => h2⟩

/-- A round that processes distinct pending items and names only not-yet-completed
dependencies is a protocol-following history in the sense of the theorems above (so the
checker's per-round protocol is an instance of `after … = some _`). -/
theorem checker_round_is_legal (r : RoundScript) (a : Abs) (s : Topo) (hi : Inv a s)
    (hn : (r.map (·.1)).Nodup) (hp : ∀ x ∈ r.map (·.1), x ∈ a.pend) (hf : depsFresh a.done r) :
    ∃ a', after a (roundOps r) = some a' :=
  script_legal r hi hn hp hf

/-! ### non-vacuity -/

/-- a protocol-following history with a real cycle, a cycle-breaking round and a late item -/
example : (after Abs.empty [.extend [1, 2, 3], .deps 1 [2], .deps 2 [1, 4], .remove 3, .remove 4,
    .remove 1, .remove 2]).isSome = true := by decide

example : (run [] [.extend [1, 2, 3], .deps 1 [2], .deps 2 [1, 4], .remove 3, .remove 4]).map peekAll
    = some .cycle := by decide

example : (after Abs.empty [.extend [1, 2, 3], .deps 1 [2], .deps 2 [1, 4], .remove 3, .remove 4]).map cyclic
    = some true := by decide

example : (run [] [.extend [1, 2, 3], .deps 1 [2, 3], .remove 3]).map peekAll = some (.ok [2]) := by
  decide

/-- `a :: b; b :: a; c :: 5` as the checker runs it: round 1 offers everything, `a` and `b`
register each other; round 2 is a cycle-breaking round that completes both. -/
example : finish [1, 2, 3] [[(1, .needs [2]), (2, .needs [1]), (3, .complete)],
    [(1, .complete), (2, .complete)]] = .finished 2 := by decide

example : offers (extend [] [1, 2, 3]) [[(1, .needs [2]), (2, .needs [1]), (3, .complete)],
    [(1, .complete), (2, .complete)]] = [([1, 2, 3], false), ([1, 2], true)] := by decide

/-- the hypothesis `scriptFresh` is satisfiable by that run (with a brand-new item 4) -/
example : scriptFresh (step Abs.empty (.extend [1, 2])) [[(1, .needs [4]), (2, .complete)],
    [(4, .complete)], [(1, .complete)]] := by
  simp [scriptFresh, depsFresh, expectedOffer, step, addAll, addPend, Abs.empty, cyclic, readyList,
    depsDone, waits, after, legal, roundOps, regAll, regOne]
  decide

end CapyV.C26
