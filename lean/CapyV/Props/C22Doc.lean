import CapyV.Props.C22
/-!
C22 — the token table says what the language documents. `lex_kind_agrees` proves that every token's
kind agrees with its text *relative to the rule table regenerated from `tokenizer.txt`*; if the table
itself is corrupted (seeded change C22_2 turned the rule of the non-breaking space into a 77-character
literal that no input contains) that theorem keeps holding. These obligations pin the regenerated
table to the documented spellings: every keyword, operator and punctuation kind is the literal the
README shows, and the one-character texts of the remaining classes lex to their documented kind.
New kinds may be added freely; the listed ones may not change their spelling.
-/
namespace CapyV.C22Doc
open CapyV CapyV.Regex CapyV.Tokens CapyV.Lexer

/-- documented fixed spellings (README "Tokens" / tokenizer.txt at the pin) -/
def documented : List (String × String) :=
  [("As", "as"), ("If", "if"), ("Else", "else"), ("While", "while"), ("Loop", "loop"), ("Switch", "switch"),
   ("In", "in"), ("Distinct", "distinct"), ("Mut", "mut"), ("Extern", "extern"), ("Struct", "struct"),
   ("Enum", "enum"), ("Comptime", "comptime"), ("Return", "return"), ("Break", "break"),
   ("Continue", "continue"), ("Defer", "defer"), ("Try", "try"), ("Catch", "catch"), ("Plus", "+"),
   ("Hyphen", "-"), ("Asterisk", "*"), ("Slash", "/"), ("Percent", "%"), ("Left", "<"), ("DoubleLeft", "<<"),
   ("LeftEquals", "<="), ("Right", ">"), ("DoubleRight", ">>"), ("RightEquals", ">="), ("Bang", "!"),
   ("BangEquals", "!="), ("And", "&"), ("DoubleAnd", "&&"), ("Pipe", "|"), ("DoublePipe", "||"),
   ("Equals", "="), ("DoubleEquals", "=="), ("Tilde", "~"), ("Comma", ","), ("Dot", "."), ("Ellipsis", "..."),
   ("Question", "?"), ("Arrow", "->"), ("FatArrow", "=>"), ("Caret", "^"), ("Backtick", "`"), ("LParen", "("),
   ("RParen", ")"), ("LBrack", "["), ("RBrack", "]"), ("LBrace", "{"), ("RBrace", "}"), ("Colon", ":"),
   ("Semicolon", ";"), ("Hash", "#")]

/-- every documented fixed-text kind exists in the regenerated table with exactly that spelling -/
theorem documented_spellings :
    ∀ p ∈ documented, ∃ k ∈ TokenKind.all, k.toString = p.1 ∧ k.literal? = some p.2 := by
  decide +kernel

/-- one-token texts of the pattern-defined classes lex, alone, to their documented kind
(U+00A0 is the non-breaking space; `\t`, identifiers, numbers, an unknown character) -/
theorem documented_classes :
    lex [Char.ofNat 160] = .ok ⟨[.NonBreakingSpace], [0, 2]⟩ ∧
    lex [' ', '\t', '\n'] = .ok ⟨[.Whitespace], [0, 3]⟩ ∧
    lex ['x', '_', '1'] = .ok ⟨[.Ident], [0, 3]⟩ ∧
    lex ['1', '_', '0'] = .ok ⟨[.Int], [0, 3]⟩ ∧
    lex ['0', 'x', 'F', 'f'] = .ok ⟨[.Hex], [0, 4]⟩ ∧
    lex ['0', 'b', '1', '0'] = .ok ⟨[.Bin], [0, 4]⟩ ∧
    lex ['1', '.', '5'] = .ok ⟨[.Float], [0, 3]⟩ ∧
    lex ['t', 'r', 'u', 'e'] = .ok ⟨[.Bool], [0, 4]⟩ ∧
    lex ['@'] = .ok ⟨[.Error], [0, 1]⟩ := by
  refine ⟨?_, ?_, ?_, ?_, ?_, ?_, ?_, ?_, ?_⟩ <;> exact isOk_iff.mp (by decide +kernel)

/-- the documented shape of a float literal (the comment above the number rules of `tokenizer.txt`:
every digit group starts with a DIGIT, also the one of the exponent): an exponent is part of the
literal only if a digit follows the `e` / sign; `1.5e_` is the float `1.5` and the identifier `e_`
(seeded change C22_3 let the exponent group start with `_`, so `1.5e_` became one Float token that
is not a float). -/
theorem documented_float_shape :
    lex ['1', '.', '5', 'e', '3'] = .ok ⟨[.Float], [0, 5]⟩ ∧
    lex ['1', '.', '5', 'e', '+', '3'] = .ok ⟨[.Float], [0, 6]⟩ ∧
    lex ['1', '_', '0', '.', '2', '_', '5', 'e', '1', '_', '0'] = .ok ⟨[.Float], [0, 11]⟩ ∧
    lex ['1', '.', '5', 'e', '_'] = .ok ⟨[.Float, .Ident], [0, 3, 5]⟩ ∧
    lex ['1', '.', '5', 'e', '_', '3'] = .ok ⟨[.Float, .Ident], [0, 3, 6]⟩ ∧
    lex ['.', '1', 'e', '_'] = .ok ⟨[.Float, .Ident], [0, 2, 4]⟩ ∧
    lex ['1', '.', '5', 'e', '+', '_'] = .ok ⟨[.Float, .Ident, .Plus, .Ident], [0, 3, 4, 5, 6]⟩ ∧
    lex ['1', '.', '5', 'e'] = .ok ⟨[.Float, .Ident], [0, 3, 4]⟩ := by
  refine ⟨?_, ?_, ?_, ?_, ?_, ?_, ?_, ?_⟩ <;> exact isOk_iff.mp (by decide +kernel)

end CapyV.C22Doc
