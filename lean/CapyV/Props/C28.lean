import CapyV.Proofs.Imports
/-!
# C28 — imports resolve to the right files and each file is compiled once

Only property theorems and non-vacuity examples live here. The model is
`CapyV/Model/Imports.lean` (+ `ImportsCli.lean`); the file system is a parameter
(`FS = Path → Option Kind`, any function), the import graph is induced by the directives.
-/
namespace CapyV.C28
open CapyV.Imports

/-! ## `#import("p")` -/

/-- **What `lower_import` checks, exactly.** `#import(arg)` in file `importer` is accepted
with target `p` iff the argument (after `\` → `/`) ends in `.capy`, `p` is the cleaned
`cwd/importer/../arg`, `p` is a regular file, and `p` has the module directory or the working
directory as a component-wise prefix. -/
theorem import_accept_iff (env : Env) (importer : Path) (arg : List Char) (p : Path) :
    lowerImport env importer arg = .ok p ↔
      endsCapy (fixSep arg) = true ∧ p = importTarget env importer arg ∧
      env.fs p = some .file ∧ (isSubDirOf p env.modDir = true ∨ isSubDirOf p env.cwd = true) :=
  lowerImport_ok_iff env importer arg p

/-- The rejections, in the order of the code, with their diagnostic kinds: not `.capy`;
missing (or not a regular file); outside both directories. Together with
`import_accept_iff` this covers every case. -/
theorem import_reject_kinds (env : Env) (importer : Path) (arg : List Char) :
    (endsCapy (fixSep arg) = false →
      lowerImport env importer arg = .err .importMustEndInDotCapy) ∧
    (endsCapy (fixSep arg) = true → env.fs (importTarget env importer arg) ≠ some .file →
      lowerImport env importer arg = .err (.importDoesNotExist (importTarget env importer arg))) ∧
    (endsCapy (fixSep arg) = true → env.fs (importTarget env importer arg) = some .file →
      isSubDirOf (importTarget env importer arg) env.modDir = false →
      isSubDirOf (importTarget env importer arg) env.cwd = false →
      lowerImport env importer arg = .err (.importOutsideCWD (importTarget env importer arg))) := by
  refine ⟨?_, ?_, ?_⟩
  · intro h; simp [lowerImport, h]
  · intro h1 h2; simp [lowerImport, isFile, h1, h2]
  · intro h1 h2 h3 h4; simp [lowerImport, isFile, h1, h2, h3, h4]

/-- **Resolved relative to the importing file's directory.** For an importing file with a
cleaned absolute name (every `FileName` is one, see `parsed_files_clean_inside`) and a
relative argument, the target is the absolute path reached by walking the argument's
components from the directory that contains the importing file (`..` goes up and stays at
`/`, `.` stays); the working directory plays no role. -/
theorem import_resolves_relative_to_importing_dir (env : Env) (importer : Path) (arg : List Char)
    (hi : IsCleanAbs importer) (ha : hasRoot (fixSep arg) = false) :
    importTarget env importer arg =
      Comp.root :: (walkFrom (walk importer).dropLast (parse (fixSep arg))).map Comp.normal :=
  importTarget_rel env importer arg hi ha

/-- An absolute argument denotes itself (cleaned). -/
theorem import_absolute_arg (env : Env) (importer : Path) (arg : List Char)
    (ha : hasRoot (fixSep arg) = true) :
    importTarget env importer arg = Comp.root :: (walk (parse (fixSep arg))).map Comp.normal :=
  importTarget_abs env importer arg ha

/-- `path_clean::clean` on an absolute path removes every `.` and `..`. -/
theorem clean_has_no_dotdot (p : Path) (h : IsAbs p) :
    Comp.parent ∉ clean p ∧ Comp.cur ∉ clean p :=
  CapyV.Imports.clean_has_no_dotdot p h

/-- … and yields exactly the place the walk of the path ends at. -/
theorem clean_is_the_walk (p : Path) (h : IsAbs p) :
    clean p = Comp.root :: (walk p).map Comp.normal :=
  clean_abs_eq_walk p h

/-- **The prefix test after cleaning is real containment**: a cleaned absolute path passes
`is_sub_dir_of base` iff the place it denotes is `base` or below it — no `..` can escape. -/
theorem subdir_after_clean_is_real (p base : Path) (hp : IsAbs p) (hb : IsCleanAbs base) :
    isSubDirOf (clean p) base = true ↔ ∃ rel : List (List Char), walk p = walk base ++ rel := by
  constructor
  · exact CapyV.Imports.subdir_after_clean_is_real p base hp hb
  · rintro ⟨rel, h⟩; exact subdir_after_clean_complete p base hp hb rel h

/-- Without the `clean()` the same test would be wrong (`/w/../etc` has prefix `/w`). -/
theorem subdir_without_clean_unsound :
    ∃ p base : Path, IsAbs p ∧ IsCleanAbs base ∧ isSubDirOf p base = true ∧
      ¬ ∃ rel, walk p = walk base ++ rel :=
  CapyV.Imports.subdir_without_clean_unsound

/-- An accepted import really lies in (or below) the module directory or the working
directory, and its name's last component ends in `.capy`. -/
theorem import_accepted_really_inside (env : Env) (importer : Path) (arg : List Char) (p : Path)
    (hc : IsCleanAbs env.cwd) (hm : IsCleanAbs env.modDir) (hi : IsCleanAbs importer)
    (h : lowerImport env importer arg = .ok p) :
    IsCleanAbs p ∧ env.fs p = some .file ∧
    ((∃ rel, walk p = walk env.modDir ++ rel) ∨ (∃ rel, walk p = walk env.cwd ++ rel)) ∧
    (∃ n, (parse (fixSep arg)).getLast? = some (Comp.normal n) ∧ endsCapy n = true) := by
  obtain ⟨h1, h2, h3, h4⟩ := (import_accept_iff env importer arg p).mp h
  have hp : IsCleanAbs p := h2 ▸ importTarget_isCleanAbs env importer arg hi
  have hcl : clean p = p := clean_of_isCleanAbs p hp
  refine ⟨hp, h3, ?_, endsCapy_last_comp _ h1⟩
  rcases h4 with h4 | h4
  · left; exact CapyV.Imports.subdir_after_clean_is_real p _ hp.isAbs hm (by rw [hcl]; exact h4)
  · right; exact CapyV.Imports.subdir_after_clean_is_real p _ hp.isAbs hc (by rw [hcl]; exact h4)

/-! ## `#mod("m")` -/

/-- **What `lower_import(is_mod)` checks, exactly.** -/
theorem mod_accept_iff (env : Env) (m : List Char) (p : Path) :
    lowerMod env m = .ok p ↔
      (fixSep m).all isAsciiAlnum = true ∧ env.fs (modFolder env m) = some .dir ∧
      env.fs (modTarget env m) = some .file ∧ p = modTarget env m :=
  lowerMod_ok_iff env m p

theorem mod_reject_kinds (env : Env) (m : List Char) :
    ((fixSep m).all isAsciiAlnum = false → lowerMod env m = .err .modMustBeAlphanumeric) ∧
    ((fixSep m).all isAsciiAlnum = true → env.fs (modFolder env m) ≠ some .dir →
      lowerMod env m = .err .modDoesNotExist) ∧
    ((fixSep m).all isAsciiAlnum = true → env.fs (modFolder env m) = some .dir →
      env.fs (modTarget env m) ≠ some .file → lowerMod env m = .err .modDoesNotContainModFile) := by
  refine ⟨?_, ?_, ?_⟩
  · intro h; simp [lowerMod, h]
  · intro h1 h2; simp [lowerMod, isDir, h1, h2]
  · intro h1 h2 h3; simp [lowerMod, isDir, isFile, h1, h2, h3]

/-- in a file system where whatever exists lives in a directory -/
def FSWF (fs : FS) : Prop :=
  ∀ (d : Path) (c : Comp) (k : Kind), fs (d ++ [c]) = some k → fs d = some .dir

/-- **The property's wording**: for a non-empty name, `#mod("m")` is accepted iff `m` is
ASCII-alphanumeric and `<mod-dir>/m/src/mod.capy` is a file; the target is that file. -/
theorem mod_accept_iff_property (env : Env) (m : List Char) (hne : m ≠ [])
    (hmd : IsCleanAbs env.modDir) (hfs : FSWF env.fs) :
    (∃ p, lowerMod env m = .ok p) ↔
      m.all isAsciiAlnum = true ∧
      env.fs (env.modDir ++ [Comp.normal m, Comp.normal srcName, Comp.normal modCapy]) = some .file := by
  constructor
  · rintro ⟨p, h⟩
    obtain ⟨h1, _, h3, _⟩ := (mod_accept_iff env m p).mp h
    have hal := (fixSep_all_alnum_iff m).mp h1
    rw [(modPaths_nonempty env m hal hne hmd).2] at h3
    exact ⟨hal, h3⟩
  · rintro ⟨hal, hf⟩
    obtain ⟨e1, e2⟩ := modPaths_nonempty env m hal hne hmd
    refine ⟨modTarget env m, (mod_accept_iff env m _).mpr ⟨(fixSep_all_alnum_iff m).mpr hal, ?_, ?_, rfl⟩⟩
    · rw [e1]
      have := hfs (env.modDir ++ [Comp.normal m, Comp.normal srcName]) (Comp.normal modCapy) .file
        (by simpa using hf)
      exact this
    · rw [e2]; exact hf

/-- accepted module target: `<mod-dir>/m/src/mod.capy`, literally -/
theorem mod_target_is_mod_capy (env : Env) (m : List Char) (p : Path) (hne : m ≠ [])
    (hmd : IsCleanAbs env.modDir) (h : lowerMod env m = .ok p) :
    p = env.modDir ++ [Comp.normal m, Comp.normal srcName, Comp.normal modCapy] := by
  obtain ⟨h1, _, _, h4⟩ := (mod_accept_iff env m p).mp h
  rw [h4, (modPaths_nonempty env m ((fixSep_all_alnum_iff m).mp h1) hne hmd).2]

/-- **The alphanumeric check is vacuous for the empty name**: `#mod("")` is accepted exactly
when `<mod-dir>/src` is a directory and `<mod-dir>/src/mod.capy` is a file (the path
`<mod-dir>//src/mod.capy` of the property's wording). -/
theorem mod_empty_name (env : Env) (hmd : IsCleanAbs env.modDir) :
    (∃ p, lowerMod env [] = .ok p) ↔
      env.fs (env.modDir ++ [Comp.normal srcName]) = some .dir ∧
      env.fs (env.modDir ++ [Comp.normal srcName, Comp.normal modCapy]) = some .file := by
  obtain ⟨e1, e2⟩ := modPaths_empty env hmd
  constructor
  · rintro ⟨p, h⟩
    obtain ⟨_, h2, h3, _⟩ := (mod_accept_iff env [] p).mp h
    rw [e1] at h2; rw [e2] at h3; exact ⟨h2, h3⟩
  · rintro ⟨h2, h3⟩
    exact ⟨modTarget env [], (mod_accept_iff env [] _).mpr ⟨by decide, by rw [e1]; exact h2, by rw [e2]; exact h3, rfl⟩⟩

/-! ## the worklist of `compile_file` -/

/-- **Every reachable file is parsed, nothing else, nothing twice** — for every import graph
over a finite set of files `U` (closed under imports), with cycles and self-imports, and for
every iteration order `ord` of the `current_imports` hash set. The entry file comes first. -/
theorem worklist_parses_each_reachable_once (env : Env) (src : Path → List Directive)
    (ord : List Path → List Path) (hord : ∀ l x, x ∈ ord l ↔ x ∈ l)
    (U : List Path) (entry : Path) (hU : entry ∈ U)
    (hclosed : ∀ a ∈ U, ∀ b ∈ importsOf env src a, b ∈ U)
    (fuel : Nat) (hfuel : U.length + 1 ≤ fuel) :
    ∃ res, compileFile env src ord fuel entry = some res ∧ res.Nodup ∧
      res.head? = some entry ∧ ∀ f, f ∈ res ↔ Reach (importsOf env src) entry f :=
  worklist_spec (importsOf env src) ord hord U entry hU hclosed fuel hfuel

/-- **Termination**: `|U| + 1` iterations of the `while` loop always suffice (each round
parses a new file or empties `current_imports`), and more fuel does not change the answer. -/
theorem worklist_terminates (env : Env) (src : Path → List Directive)
    (ord : List Path → List Path) (hord : ∀ l x, x ∈ ord l ↔ x ∈ l)
    (U : List Path) (entry : Path) (hU : entry ∈ U)
    (hclosed : ∀ a ∈ U, ∀ b ∈ importsOf env src a, b ∈ U)
    (f1 f2 : Nat) (h1 : U.length + 1 ≤ f1) (h2 : U.length + 1 ≤ f2) :
    (compileFile env src ord f1 entry).isSome ∧
    compileFile env src ord f1 entry = compileFile env src ord f2 entry := by
  obtain ⟨res, h, _⟩ := worklist_spec (importsOf env src) ord hord U entry hU hclosed f1 h1
  exact ⟨by unfold compileFile; rw [h]; rfl,
    worklist_fuel_irrelevant (importsOf env src) ord hord U entry hU hclosed f1 f2 h1 h2⟩

/-- whenever the loop finishes: each reachable file exactly once, every other file never -/
theorem each_file_compiled_exactly_once (env : Env) (src : Path → List Directive)
    (ord : List Path → List Path) (hord : ∀ l x, x ∈ ord l ↔ x ∈ l)
    (entry : Path) (fuel : Nat) (res : List Path)
    (h : compileFile env src ord fuel entry = some res) :
    (∀ f, Reach (importsOf env src) entry f → res.countP (fun x => decide (x = f)) = 1) ∧
    (∀ f, ¬ Reach (importsOf env src) entry f → res.countP (fun x => decide (x = f)) = 0) := by
  have := worklist_count_one (importsOf env src) ord hord entry fuel res h
  exact ⟨fun f hf => this.1 f hf, fun f hf => this.2 f hf⟩

/-- the import edges are exactly the accepted directives -/
theorem import_edge_iff (env : Env) (src : Path → List Directive) (f p : Path) :
    p ∈ importsOf env src f ↔ ∃ d ∈ src f, lower env f d = .ok p :=
  mem_importsOf env src f p

/-- Every parsed file has a cleaned absolute name, and every parsed file except possibly
the entry file lies inside the working or the module directory. -/
theorem parsed_files_clean_inside (env : Env) (src : Path → List Directive) (entry f : Path)
    (hmd : IsCleanAbs env.modDir) (he : IsCleanAbs entry)
    (h : Reach (importsOf env src) entry f) :
    IsCleanAbs f ∧ (f = entry ∨ insideCwdOrMod env f = true) :=
  reach_inside env src entry f hmd he h

/-- **The `unreachable!()` of `FileName::get_components` is reached iff the entry file itself
is outside** both directories (imports can never bring such a file in). -/
theorem cli_panics_iff_entry_outside (env : Env) (src : Path → List Directive)
    (ord : List Path → List Path) (hord : ∀ l x, x ∈ ord l ↔ x ∈ l)
    (U : List Path) (entry : Path) (hU : entry ∈ U)
    (hclosed : ∀ a ∈ U, ∀ b ∈ importsOf env src a, b ∈ U)
    (fuel : Nat) (hfuel : U.length + 1 ≤ fuel)
    (hmd : IsCleanAbs env.modDir) (he : IsCleanAbs entry) :
    ∃ res, compileFile env src ord fuel entry = some res ∧
      cli env src ord fuel entry =
        (if insideCwdOrMod env entry then .parsed res else .panicOutside entry res) := by
  obtain ⟨res, h, _, _, hmem⟩ := worklist_spec (importsOf env src) ord hord U entry hU hclosed fuel hfuel
  have h' : compileFile env src ord fuel entry = some res := h
  refine ⟨res, h', ?_⟩
  unfold cli
  rw [h']
  by_cases hin : insideCwdOrMod env entry = true
  · have : res.find? (fun f => !insideCwdOrMod env f) = none := by
      rw [List.find?_eq_none]
      intro f hf
      rcases (reach_inside env src entry f hmd he ((hmem f).mp hf)).2 with e | e
      · subst e; simp [hin]
      · simp [e]
    simp [this, hin]
  · cases hfind : res.find? (fun f => !insideCwdOrMod env f) with
    | none =>
      rw [List.find?_eq_none] at hfind
      have := hfind entry ((hmem entry).mpr .refl)
      simp at this; exact absurd this hin
    | some f =>
      have hf := List.mem_of_find?_eq_some hfind
      have hp := List.find?_some hfind
      rcases (reach_inside env src entry f hmd he ((hmem f).mp hf)).2 with e | e
      · simp [hfind, e, hin]
      · simp [e] at hp

/-! ## `file.name` -/

/-- **`file.name` refers to that file's own definition**: in the world built from the parsed
files, the entry for a file is that file's own definitions — for every parsed file, and there
is no entry for any other file. -/
theorem file_name_refers_to_own_definition {δ : Type} (defs : Path → δ) (parsed : List Path)
    (f : Path) :
    (world defs parsed).lookup f = if f ∈ parsed then some (defs f) else none :=
  world_lookup defs parsed f

/-- An accepted `alias :: #import(..)` / `#mod(..)` written in a reachable file denotes,
via `alias.name`, the definitions of the directive's target file. -/
theorem alias_refers_to_target_definition {δ : Type} (defs : Path → δ) (env : Env)
    (src : Path → List Directive) (ord : List Path → List Path)
    (hord : ∀ l x, x ∈ ord l ↔ x ∈ l) (entry : Path) (fuel : Nat) (res : List Path)
    (h : compileFile env src ord fuel entry = some res)
    (g : Path) (hg : g ∈ res) (d : Directive) (hd : d ∈ src g) (t : Path)
    (ht : lower env g d = .ok t) :
    aliasLookup env (world defs res) g d = some (defs t) := by
  obtain ⟨_, _, hmem⟩ := worklist_sound (importsOf env src) ord hord entry fuel res h
  have hgr := (hmem g).mp hg
  have htr : t ∈ res := (hmem t).mpr (.step hgr ((mem_importsOf env src g t).mpr ⟨d, hd, ht⟩))
  unfold aliasLookup
  rw [ht]
  simp [world_lookup, htr]

/-! ## Non-vacuity: a concrete tree

`/r/w` is the working directory, `/r/mods` the module directory.
`/r/w/main.capy` imports `d/a.capy`, `./d/../b.capy`, itself, `../x.capy` (outside),
`nope.capy` (missing), `t.txt`, `#mod("m")`, `#mod("")`, `#mod("a-b")`;
`/r/w/d/a.capy` imports `../main.capy` (cycle) and `a.capy` (self); `/r/w/b.capy` imports `d/a.capy`. -/

def exFs : FS := fun p =>
  if p = parse "/r/w/main.capy".toList ∨ p = parse "/r/w/d/a.capy".toList ∨
     p = parse "/r/w/b.capy".toList ∨ p = parse "/r/x.capy".toList ∨
     p = parse "/r/w/t.txt".toList ∨ p = parse "/r/mods/m/src/mod.capy".toList then some .file
  else if p = parse "/r/mods/m/src".toList ∨ p = parse "/r/w".toList ∨ p = parse "/r/w/d".toList then some .dir
  else none

def exEnv : Env := mkEnv (parse "/r/w".toList) "../mods".toList exFs

def exSrc : Path → List Directive := fun p =>
  if p = parse "/r/w/main.capy".toList then
    [.imp "d/a.capy".toList, .imp "./d/../b.capy".toList, .imp "main.capy".toList,
     .imp "../x.capy".toList, .imp "nope.capy".toList, .imp "t.txt".toList,
     .mod "m".toList, .mod "".toList, .mod "a-b".toList]
  else if p = parse "/r/w/d/a.capy".toList then [.imp "../main.capy".toList, .imp "a.capy".toList]
  else if p = parse "/r/w/b.capy".toList then [.imp "d/a.capy".toList]
  else []

example : exEnv.modDir = parse "/r/mods".toList := by decide
example : (exSrc (parse "/r/w/main.capy".toList)).map (lower exEnv (parse "/r/w/main.capy".toList)) =
    [.ok (parse "/r/w/d/a.capy".toList), .ok (parse "/r/w/b.capy".toList),
     .ok (parse "/r/w/main.capy".toList), .err (.importOutsideCWD (parse "/r/x.capy".toList)),
     .err (.importDoesNotExist (parse "/r/w/nope.capy".toList)), .err .importMustEndInDotCapy,
     .ok (parse "/r/mods/m/src/mod.capy".toList), .err .modDoesNotExist,
     .err .modMustBeAlphanumeric] := by decide
example : compileFile exEnv exSrc id 8 (entryOf exEnv.cwd "main.capy".toList) =
    some [parse "/r/w/main.capy".toList, parse "/r/w/d/a.capy".toList, parse "/r/w/b.capy".toList,
          parse "/r/mods/m/src/mod.capy".toList] := by decide
example : cli exEnv exSrc id 8 (entryOf exEnv.cwd "../x.capy".toList) =
    .panicOutside (parse "/r/x.capy".toList) [parse "/r/x.capy".toList] := by decide
example : IsCleanAbs exEnv.cwd ∧ IsCleanAbs exEnv.modDir :=
  ⟨⟨["r".toList, "w".toList], by decide⟩, ⟨["r".toList, "mods".toList], by decide⟩⟩

end CapyV.C28
