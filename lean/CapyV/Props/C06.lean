import CapyV.Props.C22
import CapyV.Props.C23
import CapyV.Props.C25
import CapyV.Props.C26
import CapyV.Props.C03
import CapyV.Props.C05
import CapyV.Props.C09
/-!
# C06 — the compiler never crashes or hangs: the panic-freedom obligations of the modelled stages

C06 quantifies over every input of a 60 kLoC compiler; no model here covers `hir_ty` or the
code generator as a whole, and the unchanged tree violates the property in many places (see
`known_findings.json`). What IS proved are the no-panic / termination obligations of the stages
that have a model; they are collected here (re-stated, proved by the theorems of the owning
property) so that a change which breaks one of them breaks C06's obligations too. Everything
else is decided by search on the real CLI (`harness/src/c06.rs`).
-/
namespace CapyV.C06

/-- lexing: for every text the lexer returns (fuel suffices, no invalid transmute, no failing
assertion), and a complete `Tokens::iter()` traversal does not panic -/
theorem lexer_total (s : List Char) : ∃ t, CapyV.Lexer.lex s = .ok t ∧ t.iterAll = .ok t.items := by
  obtain ⟨t, ht⟩ := CapyV.C22.lex_total s
  exact ⟨t, ht, CapyV.C22.iter_traversal_total s t ht⟩

/-- parsing: for every event trace with one `AddToken` per non-trivia token the sink never indexes
past the tokens (and is lossless) -/
theorem sink_never_out_of_bounds (ck : Nat) (toks : List CapyV.ParserKernel.Cls)
    (evs : List CapyV.ParserKernel.Ev) (hs : CapyV.ParserKernel.RootShape evs)
    (h : CapyV.ParserKernel.countAdd evs = CapyV.ParserKernel.countOther toks) :
    ∃ out, CapyV.ParserKernel.sinkFinish ck toks evs = some (out, toks.length) := by
  obtain ⟨out, h1, _⟩ := CapyV.C23.sink_lossless ck toks evs hs h
  exact ⟨out, h1⟩

/-- diagnostics positions: `line_col` never panics for an offset inside the text -/
theorem line_col_total (t : List Nat) (off : Nat) (h : off ≤ t.length) :
    (CapyV.LineIndex.lineCol t off).isSome := CapyV.C25.lineCol_total t off h

/-- code generation of defers never hits `expect("block didn't add to defer stack")` /
`expect("we just pushed this")` and does not re-enter `run_defers_up_to` without end, for
every body HIR label resolution accepts (no jump leaves a deferred expression) -/
theorem defer_codegen_total (body : CapyV.Defer.Stmts)
    (h : CapyV.Defer.wellScoped body [(0, false)] = true) :
    (CapyV.Defer.compileProgram body).isSome = true :=
  CapyV.C03.compile_total body h

end CapyV.C06
