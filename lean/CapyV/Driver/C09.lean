import CapyV.Model.Literal
import CapyV.Driver.Util
/-! Line protocol for C09 (trusted glue: parsing of requests, rendering of answers). -/
namespace CapyV.Driver
open CapyV.Literal

def c09Lowered : Lowered → String
  | .ok n => s!"ok:{n}"
  | .outOfRange => "oor"
  | .panic => "panic"

/-- token text → structured spelling (split at the first `e`/`E` for decimals) -/
def c09Spelling (kind : String) (text : List Char) : Option Spelling :=
  match kind with
  | "dec" =>
    let m := text.takeWhile (fun c => !(isE c))
    match text.dropWhile (fun c => !(isE c)) with
    | [] => some (.dec m none)
    | e :: x => some (.dec m (some (e = 'E', x)))
  | "hex" => match stripPrefix ['0', 'x'] text with
    | some ds => some (.hex ds)
    | none => none
  | "bin" => match stripPrefix ['0', 'b'] text with
    | some ds => some (.bin ds)
    | none => none
  | _ => none

/-- the spelled value as text; astronomically large powers are not computed -/
def c09Value (s : Spelling) : String :=
  match s with
  | .dec m (some (_, x)) =>
    let k := positional 10 (decDigits x)
    if k > 400 then (if positional 10 (decDigits m) = 0 then "0" else "huge") else toString (value s)
  | _ => toString (value s)

def c09Kind : String → Option Kind
  | "dec" => some .dec
  | "hex" => some .hex
  | "bin" => some .bin
  | _ => none

def c09Ty (sg w : String) : Option ITy :=
  match w.toNat? with
  | some w => some ⟨sg = "1", w⟩
  | none => none

def c09TyStr (t : ITy) : String := (if t.signed then "i" else "u") ++ toString t.width

def c09Nats (s : String) : List Nat :=
  if s = "-" then [] else (s.splitOn ",").filterMap String.toNat?

def c09NatsStr (xs : List Nat) : String :=
  if xs.isEmpty then "-" else ",".intercalate (xs.map toString)

def c09Diag : Diag → String
  | .invalidEscape => "InvalidEscape"
  | .emptyChar => "EmptyCharLiteral"
  | .tooManyChars => "TooManyCharsInCharLiteral"
  | .nonU8 => "NonU8CharLiteral"

def c09DiagsStr (ds : List Diag) : String :=
  if ds.isEmpty then "-" else ",".intercalate (ds.map c09Diag)

/-- `e<cp>` = escape, `c<cp>,<cp>,…` = contents -/
def c09Comps (toks : List String) : Option (List Component) :=
  toks.mapM fun t =>
    match t.toList with
    | 'e' :: r => (String.ofList r).toNat?.map Component.escape
    | 'c' :: r => some (.contents (c09Nats (String.ofList r)))
    | _ => none

def c09SpecStr : Option (List Nat) → String
  | none => "none"
  | some t => "some:" ++ c09NatsStr t

def c09 (args : List String) : String :=
  match args with
  | ["int", kind, text] =>
    match c09Kind kind with
    | none => "bad-op"
    | some k =>
      let cs := text.toList
      let low := c09Lowered (lowerInt k cs)
      match c09Spelling kind cs with
      | none => s!"{low} wf=0 ztp=0 value=?"
      | some s => s!"{low} wf={if s.wf then 1 else 0} ztp={if s.zeroTimesHugePower then 1 else 0} value={c09Value s}"
  | ["accept", sg, w, n] =>
    match c09Ty sg w, n.toNat? with
    | some t, some n =>
      s!"acc={if acceptsAt t n then 1 else 0} fits={if decide (fits t n) then 1 else 0} final={finalValue t n}"
    | _, _ => "bad-op"
  | ["default", g, n] =>
    match n.toNat? with
    | some n =>
      match defaultTy (g = "1") n with
      | none => "rej"
      | some t => s!"ty={c09TyStr t} final={finalValue t n}"
    | none => "bad-op"
  | ["defneg", n] =>
    match n.toNat? with
    | some n => let t := defaultTyNeg n; s!"ty={c09TyStr t} final={finalValue t n}"
    | none => "bad-op"
  | "str" :: toks =>
    match c09Comps toks with
    | none => "bad-op"
    | some comps =>
      let r := lowerString comps
      s!"text={c09NatsStr r.1} diags={c09DiagsStr r.2} spec={c09SpecStr (specString comps)}"
  | "chr" :: toks =>
    match c09Comps toks with
    | none => "bad-op"
    | some comps =>
      let r := lowerChar comps
      s!"val={r.1} diags={c09DiagsStr r.2} spec={c09SpecStr (specString comps)}"
  | _ => "bad-op"

end CapyV.Driver
