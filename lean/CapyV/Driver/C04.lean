import CapyV.Model.Comptime
import CapyV.Model.ComptimeWiden
import CapyV.Driver.TyCodec
/-! Line protocol for C04 (trusted glue). -/
namespace CapyV.Driver
open CapyV CapyV.Layout CapyV.Comptime

/-- the host's `f32 as f64` / `f64 as f32` on bit patterns -/
def hostFloatConv : FloatConv where
  promote b := (Float32.ofBits b.toUInt32).toFloat.toBits.toNat
  demote b := (Float.ofBits b.toUInt64).toFloat32.toBits.toNat

def showObserved : Option Observed → String
  | none => "panic"
  | some (.scalar bits v) => s!"scalar:{bits}:{v}"
  | some (.bytes bs) => s!"bytes:{toHexBytes bs}"
  | some (.cstring bs) => s!"cstr:{toHexBytes bs}"
  | some .unit => "unit"

/-- ids of the harness's stand-in type table: position in the table -/
def c04Table : List (Ty × Nat) :=
  [(.iint 32, 0), (.uint 8, 1), (.bool, 2), (.float 64, 3), (.concreteArray 3 (.uint 16), 4)]

def c04IdOf (t : Ty) : Nat :=
  match c04Table.find? (fun p => p.1 == t) with
  | some p => p.2 + 100
  | none => 99

/-- `accept <ty>` → `accept|reject <label> old=accept|reject`
`path <pw> <ty>` → branch label of the capture
`rt <pw> <r0> <r1> <f0> <buf-hex> <cstr-hex> <ty>` → `path=… code=… global=… block=…` -/
def c04 (args : List String) : String :=
  match args with
  -- `widen <signed 0|1> <fromBits> <toBits> <raw value>` → what a load of the wider global yields
  | ["widen", sg, f, t, v] =>
    match sg.toNat?, f.toNat?, t.toNat?, v.toNat? with
    | some sg, some f, some t, some v =>
      let bs := widenIntBytes .little (sg == 1) f t (encode .little (f / 8) (v % 2 ^ f))
      s!"scalar:{t}:{loadBits .little t (bs ++ [0xAA, 0xBB, 0xCC, 0xDD, 0xEE, 0xFF, 0x11, 0x22])}"
    | _, _, _, _ => "bad-op"
  -- `widenf <f32 bit pattern>` → the f64 bit pattern stored for an `f64` global
  | ["widenf", v] =>
    match v.toNat? with
    | some v => s!"scalar:64:{loadBits .little 64 (widenFloatBytes hostFloatConv .little (encode .little 4 v) ++ [0xAA])}"
    | none => "bad-op"
  | "accept" :: rest =>
    match parseTy (" ".intercalate rest) with
    | some t =>
      let a := if accepts t then "accept" else "reject"
      let o := if acceptsOld t then "accept" else "reject"
      s!"{a} {acceptLabel t} old={o}"
    | none => "bad-op"
  | "path" :: pw :: rest =>
    match pw.toNat?, parseTy (" ".intercalate rest) with
    | some pw, some t => captureLabel pw t
    | _, _ => "bad-op"
  | "rt" :: pw :: r0 :: r1 :: f0 :: buf :: cstr :: rest =>
    match pw.toNat?, r0.toNat?, r1.toNat?, f0.toNat?, parseHexBytes buf, parseHexBytes cstr,
        parseTy (" ".intercalate rest) with
    | some pw, some r0, some r1, some f0, some buf, some cstr, some t =>
      let m : Machine := { r0, r1, f0, buf, cstr }
      let r := capture hostFloatConv pw c04Table t m
      let code := r.bind (embedCode hostFloatConv pw .little c04IdOf t)
      let glob := (r.bind (intoBytes hostFloatConv c04IdOf .little)).bind (readGlobal pw .little t)
      let blk := blockValue pw c04IdOf c04Table t m
      s!"path={captureLabel pw t} code={showObserved code} global={showObserved glob} block={showObserved blk}"
    | _, _, _, _, _, _, _ => "bad-op"
  | _ => "bad-op"

end CapyV.Driver
