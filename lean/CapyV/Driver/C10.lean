import CapyV.Model.Checks
import CapyV.Driver.Util
namespace CapyV.Driver
open CapyV.Checks

def showOutcome : Outcome → String
  | .abort acc => s!"abort {acc}"
  | .ok acc => s!"ok {acc}"

/-- `index <bits> <base> <len> <stride> <size> <addrOnly> <pattern>` ;
`slice <bits> <hdr> <ptrBytes> <len> <dataPtr> <stride> <size> <addrOnly> <pattern>` ;
`unwrap tagged <discOff> <wanted> <value> <tag>` ; `unwrap nullsome|nullnil _ _ <value> _` ;
`literal <isLiteral> <index> <size>` -/
def c10 (args : List String) : String :=
  match args with
  | ["index", b, base, len, st, sz, ao, pat] =>
    match b.toNat?, base.toNat?, len.toNat?, st.toNat?, sz.toNat?, pat.toNat? with
    | some b, some base, some len, some st, some sz, some pat =>
      showOutcome (runIndex ⟨b, base, len, st, sz, ao == "1"⟩ pat)
    | _, _, _, _, _, _ => "bad-op"
  | ["slice", b, hdr, pb, len, dp, st, sz, ao, pat] =>
    match b.toNat?, hdr.toNat?, pb.toNat?, len.toNat?, dp.toNat?, st.toNat?, sz.toNat?, pat.toNat? with
    | some b, some hdr, some pb, some len, some dp, some st, some sz, some pat =>
      showOutcome (runSliceIndex ⟨b, hdr, pb, len, dp, st, sz, ao == "1"⟩ pat)
    | _, _, _, _, _, _, _, _ => "bad-op"
  | ["unwrap", kind, d, w, v, t] =>
    match d.toNat?, w.toNat?, v.toNat?, t.toNat? with
    | some d, some w, some v, some t =>
      let k := if kind == "tagged" then UnwrapKind.tagged d w
        else if kind == "nullsome" then .nullableSome else .nullableNil
      showOutcome (runUnwrap ⟨k, v, t⟩).1
    | _, _, _, _ => "bad-op"
  | ["literal", isLit, i, n] =>
    match i.toNat?, n.toNat? with
    | some i, some n => if literalIndexRejected (isLit == "1") i n then "rejected" else "accepted"
    | _, _ => "bad-op"
  | _ => "bad-op"

end CapyV.Driver
