import CapyV.Model.LineIndex
import CapyV.Driver.Util
namespace CapyV.Driver
open CapyV.LineIndex

def optPair : Option (Nat × Nat) → String
  | none => "PANIC"
  | some (a, b) => s!"{a} {b}"

/-- `linecol <hex> <off>` → `line col` ; `header <hex> <start>` → `L C` ; `starts <hex>` -/
def c25 (args : List String) : String :=
  match args with
  | ["linecol", hex, off] =>
    match parseHexBytes hex, off.toNat? with
    | some t, some o => optPair (lineCol t o)
    | _, _ => "bad-op"
  | ["header", hex, off] =>
    match parseHexBytes hex, off.toNat? with
    | some t, some o => optPair (header t o)
    | _, _ => "bad-op"
  | ["all", hex] =>
    match parseHexBytes hex with
    | some t => " ".intercalate ((List.range (t.length + 1)).map fun o =>
        match lineCol t o with
        | none => "PANIC"
        | some (l, c) => s!"{l}:{c}")
    | none => "bad-op"
  | ["some", hex, offs] =>
    match parseHexBytes hex with
    | some t => " ".intercalate (((offs.splitOn ",").filterMap String.toNat?).map fun o =>
        match lineCol t o with
        | none => "PANIC"
        | some (l, c) => s!"{l}:{c}")
    | none => "bad-op"
  | ["starts", hex] =>
    match parseHexBytes hex with
    | some t => " ".intercalate ((lineStarts t).map toString)
    | none => "bad-op"
  | _ => "bad-op"

end CapyV.Driver
