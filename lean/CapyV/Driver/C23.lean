import CapyV.Model.ParserKernel
import CapyV.Driver.Util
namespace CapyV.Driver
open CapyV.ParserKernel CapyV.Tokens

def parseEv (s : String) : Option Ev :=
  if s = "F" then some .finish
  else if s = "A" then some .add
  else if s.startsWith "S" then ((s.drop 1).toString.toNat?).map .start
  else none

def showOut : Out → String
  | .start k => s!"S{k}"
  | .finish => "F"
  | .tok i => s!"T{i}"

/-- `sink <commentKind> <kind names, comma separated | -> <events, comma separated>` →
the builder calls (`S<kind> F T<idx>`), or `PANIC` -/
def c23 (args : List String) : String :=
  match args with
  | ["sink", ck, kinds, evs] =>
    let ks : Option (List Cls) :=
      if kinds = "-" then some [] else
        (kinds.splitOn ",").mapM fun n => (TokenKind.ofString? n).map classify
    let es := (evs.splitOn ",").mapM parseEv
    match ck.toNat?, ks, es with
    | some ck, some ks, some es =>
      match sinkFinish ck ks es with
      | some (out, _) => " ".intercalate (out.map showOut)
      | none => "PANIC"
    | _, _, _ => "bad-op"
  | _ => "bad-op"

end CapyV.Driver
