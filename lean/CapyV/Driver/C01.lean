import CapyV.Model.AggEq
import CapyV.Model.EvalOrder
import CapyV.Driver.Util
import CapyV.Driver.TyCodec
/-! Line protocol for C01's aggregate-equality stream (trusted glue). -/
namespace CapyV.Driver
open CapyV.AggEq

/-- `(i 5)`, `nil`, `(t k v)`, `(a v1 v2 …)` -/
partial def sexpToV : Sexp → Option V
  | .atom "nil" => some .nil
  | .list [.atom "i", .atom z] => z.toInt?.map V.int
  | .list [.atom "t", .atom k, v] =>
    match k.toNat?, sexpToV v with
    | some k, some v => some (.tag k v)
    | _, _ => none
  | .list (.atom "a" :: vs) => (vs.mapM sexpToV).map V.agg
  | _ => none

/-- `(t 7)` = tick with tag 7, `(n e1 e2 …)` = node with children in written order -/
partial def sexpToE : Sexp → Option EvalOrder.E
  | .list [.atom "t", .atom k] => k.toNat?.map EvalOrder.E.tick
  | .list (.atom "n" :: ks) => (ks.mapM sexpToE).map EvalOrder.E.node
  | _ => none

/-- `aggeq <value> | <value>` → `true` / `false`;
`order <expr>` → `<tags,comma separated> ; <leaf values, comma separated>` -/
def c01 (args : List String) : String :=
  match args with
  | "aggeq" :: rest =>
    match splitBar (" ".intercalate rest) with
    | [a, b] =>
      match (parseSexp a).bind sexpToV, (parseSexp b).bind sexpToV with
      | some a, some b => toString (veq a b)
      | _, _ => "bad-op"
    | _ => "bad-op"
  | "order" :: rest =>
    match (parseSexp (" ".intercalate rest)).bind sexpToE with
    | some e =>
      let r := EvalOrder.run e 0
      ",".intercalate (r.1.map toString) ++ " ; " ++ ",".intercalate (r.2.1.map toString)
    | none => "bad-op"
  | _ => "bad-op"

end CapyV.Driver
