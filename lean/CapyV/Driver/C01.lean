import CapyV.Model.AggEq
import CapyV.Driver.Util
import CapyV.Driver.TyCodec
/-! Line protocol for C01's aggregate-equality stream (trusted glue). -/
namespace CapyV.Driver
open CapyV.AggEq

/-- `(i 5)`, `nil`, `(t k v)`, `(a v1 v2 …)` -/
partial def sexpToV : Sexp → Option V
  | .atom "nil" => some .nil
  | .list [.atom "i", .atom z] => z.toInt?.map V.int
  | .list [.atom "t", .atom k, v] =>
    match k.toNat?, sexpToV v with
    | some k, some v => some (.tag k v)
    | _, _ => none
  | .list (.atom "a" :: vs) => (vs.mapM sexpToV).map V.agg
  | _ => none

/-- `aggeq <value> | <value>` → `true` / `false` -/
def c01 (args : List String) : String :=
  match args with
  | "aggeq" :: rest =>
    match splitBar (" ".intercalate rest) with
    | [a, b] =>
      match (parseSexp a).bind sexpToV, (parseSexp b).bind sexpToV with
      | some a, some b => toString (veq a b)
      | _, _ => "bad-op"
    | _ => "bad-op"
  | _ => "bad-op"

end CapyV.Driver
