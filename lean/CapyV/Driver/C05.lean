import CapyV.Spec.Scope
import CapyV.Model.ScopeGuard
import CapyV.Driver.Util
namespace CapyV.Driver
open CapyV.Scope

mutual
partial def scExprOfSexp : Sexp → Option Expr
  | .atom "l" => some .lit
  | .list [.atom "u", .atom x] => x.toNat?.map .use
  | .list (.atom "q" :: es) => do some (.seq (← scExprsOfSexp es))
  | .list [.atom "b", .list ss, tail] => do some (.block (← scStmtsOfSexp ss) (← scExprOfSexp tail))
  | .list (.atom "s" :: .atom a :: scrut :: arms) => do
      let arg : Option Nat := if a = "-" then none else a.toNat?
      some (.switch arg (← scExprOfSexp scrut) (← scArmsOfSexp arms))
  | .list [.atom "f", .list ps, ret, .list ss, tail] => do
      some (.lambda (← scParamsOfSexp ps) (← scExprOfSexp ret) (← scStmtsOfSexp ss) (← scExprOfSexp tail))
  | .list [.atom "c", e] => do some (.comptime (← scExprOfSexp e))
  | _ => none
partial def scExprsOfSexp : List Sexp → Option Exprs
  | [] => some .nil
  | e :: rest => do some (.cons (← scExprOfSexp e) (← scExprsOfSexp rest))
partial def scStmtsOfSexp : List Sexp → Option Stmts
  | [] => some .nil
  | .list [.atom "d", .atom x, .atom tag, ty, val] :: rest => do
      some (.defn (← x.toNat?) (← tag.toNat?) (← scExprOfSexp ty) (← scExprOfSexp val) (← scStmtsOfSexp rest))
  | .list [.atom "e", e] :: rest => do some (.expr (← scExprOfSexp e) (← scStmtsOfSexp rest))
  | _ => none
partial def scArmsOfSexp : List Sexp → Option Arms
  | [] => some .nil
  | .list [.atom "a", .atom tag, v, b] :: rest => do
      some (.cons (← tag.toNat?) (← scExprOfSexp v) (← scExprOfSexp b) (← scArmsOfSexp rest))
  | _ => none
partial def scParamsOfSexp : List Sexp → Option Params
  | [] => some .nil
  | .list [.atom "p", .atom x, .atom tag, .atom ct, ty] :: rest => do
      some (.cons (← x.toNat?) (← tag.toNat?) (ct = "1") (← scExprOfSexp ty) (← scParamsOfSexp rest))
  | _ => none
end

def scGlobalsOfSexp : List Sexp → Option (List Global)
  | [] => some []
  | .list [.atom "g", .atom n, ty, val] :: rest => do
      some ({ name := (← n.toNat?), ty := (← scExprOfSexp ty), val := (← scExprOfSexp val) } :: (← scGlobalsOfSexp rest))
  | _ => none

def resStr : Res → String
  | .local t => s!"L{t}"
  | .switchArg t => s!"S{t}"
  | .param t i => s!"P{t}.{i}"
  | .comptimeParam t i c => s!"C{t}.{i}.{c}"
  | .inlineParam t i c => s!"I{t}.{i}.{c}"
  | .inlineNotComptime x => s!"N{x}"
  | .global x => s!"G{x}"
  | .prim x => s!"T{x}"
  | .nil => "nil"
  | .undefined x => s!"U{x}"

def resListStr (l : List Res) : String :=
  if l.isEmpty then "-" else ",".intercalate (l.map resStr)

def resOptStr : Option (List Res) → String
  | some l => resListStr l
  | none => "PANIC"

/-- `resolve <globals csv|-> <(global …)>` → `spec=<…> model=<…|PANIC> old=<…|PANIC> ok=<0|1>` (`ok` = the guard `okGlobals`);
names: a=0 b=1 c=2 i32=3 nil=4, so `prims = [3]`, `nilKey = 4`. -/
def c05 (args : List String) : String :=
  match args with
  | "resolve" :: gl :: rest =>
    match parseSexp (" ".intercalate rest) with
    | some (.list gs) =>
      match scGlobalsOfSexp gs with
      | some gs =>
        let globals := if gl = "-" then [] else (gl.splitOn ",").filterMap (·.toNat?)
        let env : Env := { globals := globals, prims := [3], nilKey := 4 }
        s!"spec={resListStr (spec env gs)} model={resOptStr (resolve env gs)} old={resOptStr (resolveOld env gs)} ok={if okGlobals gs then 1 else 0}"
      | none => "bad-op"
    | _ => "bad-op"
  | _ => "bad-op"

end CapyV.Driver
