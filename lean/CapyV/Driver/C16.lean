import CapyV.Model.Generics
import CapyV.Driver.Util
/-! Line protocol of C16's instance-identity model. Trusted glue. -/
namespace CapyV.Driver
open CapyV.Generics

/-- `alloc <site>:<k> …` — visits of generic call sites in order (site = an integer naming the
(caller instance, call expression) pair, k = number of named comptime parameters of the callee;
a repeated site is a stage-2 revisit) → the range of every visit `start-stop`, then the arena
length. -/
def c16 (args : List String) : String :=
  match args with
  | "alloc" :: visits =>
    let parsed : List (Option (Nat × Nat)) := visits.map fun v =>
      match v.splitOn ":" with
      | [a, b] => match a.toNat?, b.toNat? with
        | some a, some b => some (a, b)
        | _, _ => none
      | _ => none
    if parsed.any Option.isNone then "bad-op" else
    let vs := parsed.filterMap id
    let rec go (st : State) (l : List (Nat × Nat)) (acc : List String) : List String × State :=
      match l with
      | [] => (acc.reverse, st)
      | (site, k) :: rest =>
        let (st', r) := step st ⟨0, site⟩ (List.replicate k (CVal.other 0))
        go st' rest (s!"{r.start}-{r.stop}" :: acc)
    let (rs, st) := go State.empty vs []
    " ".intercalate rs ++ s!" len={st.arena.length}"
  | _ => "bad-op"

end CapyV.Driver
