import CapyV.Model.Const
import CapyV.Driver.Util
/-! Line protocol for C15 (trusted glue: decoding only).
`C15 <site> <fuel> <e> <args> <nodes>` with `site` ∈ len | disc | ctarg | global | builtin,
`args` = `-` or vals joined by `:`, `nodes` = nodes joined by `;`, fields joined by `,`:
`I,n` `F,b` `T,m` `C,safe,val` `N,b|s|l|i|m` `A,isArr,items` `G,ext,fin,body` `L,mut,value`
`M,prevIsFile,prev,exist,ext,fin,body` `P,idx` `O,kind,cls,meta`; val = `i5` `f7` `t3` `d2`;
optional nat = `-` or the number; bool = 0/1; lists joined by `:`.
Answer: `gc=<..> diag=<..> eval=<0|1> res=<..>`. -/
namespace CapyV.Driver
open CapyV.Const

namespace C15

def bool? : String → Option Bool
  | "0" => some false
  | "1" => some true
  | _ => none

def optNat? (s : String) : Option (Option Nat) :=
  if s = "-" then some none else s.toNat?.map some

def val? (s : String) : Option Val :=
  match s.toList with
  | 'i' :: r => (String.ofList r).toNat?.map .int
  | 'f' :: r => (String.ofList r).toNat?.map .float
  | 't' :: r => (String.ofList r).toNat?.map .ty
  | 'd' :: r => (String.ofList r).toNat?.map .data
  | _ => none

def natList? (s : String) : Option (List Nat) :=
  if s = "-" then some [] else (s.splitOn ":").mapM String.toNat?

def valList? (s : String) : Option (List Val) :=
  if s = "-" then some [] else (s.splitOn ":").mapM val?

def kind? : String → Option OtherKind
  | "char" => some .charLit | "tyexpr" => some .typeExpr | "paren" => some .paren
  | "arith" => some .arith | "call" => some .call | "block" => some .block
  | "cast" => some .cast | "field" => some .fieldOf | "param" => some .param
  | _ => none

def cls? : String → Option TyClass
  | "t" => some .type | "f" => some .file | "v" => some .value
  | _ => none

def noData? : String → Option NoData
  | "b" => some .boolLit | "s" => some .strLit | "l" => some .lambda
  | "i" => some .import | "m" => some .missing
  | _ => none

def node? (s : String) : Option Node :=
  match s.splitOn "," with
  | ["I", n] => n.toNat?.map fun n => .atom (.intLit n)
  | ["F", n] => n.toNat?.map fun n => .atom (.floatLit n)
  | ["T", m] => (optNat? m).map fun m => .atom (.tyLit m)
  | ["C", s, v] => do let s ← bool? s; let v ← val? v; pure (.atom (.comptime s v))
  | ["N", k] => (noData? k).map fun k => .atom (.noData k)
  | ["A", a, items] => do let a ← bool? a; let is ← natList? items; pure (.arrayLit a is)
  | ["G", x, f, b] => do let x ← bool? x; let f ← bool? f; let b ← b.toNat?; pure (.localGlobal x f b)
  | ["L", m, v] => do let m ← bool? m; let v ← optNat? v; pure (.local m v)
  | ["M", pf, pv, ex, x, f, b] => do
      let pf ← bool? pf; let pv ← pv.toNat?; let ex ← bool? ex; let x ← bool? x
      let f ← bool? f; let b ← b.toNat?
      pure (.member pf pv ex x f b)
  | ["P", i] => i.toNat?.map .comptimeParam
  | ["O", k, c, m] => do let k ← kind? k; let c ← cls? c; let m ← optNat? m; pure (.other k c m)
  | _ => none

def showIsC : IsC → String
  | .const => "const" | .runtime => "runtime" | .unknown => "unknown"

def showOut : Out → String
  | .done r => showIsC r | .outOfFuel => "outOfFuel" | .dangling => "dangling"

def showVal : Val → String
  | .int n => s!"i{n}" | .float n => s!"f{n}" | .ty n => s!"t{n}" | .data n => s!"d{n}"

def showDiag : Option Diag → String
  | none => "-"
  | some .arraySizeNotConst => "ArraySizeNotConst"
  | some .discriminantNotConst => "DiscriminantNotConst"
  | some .comptimeArgNotConst => "ComptimeArgNotConst"
  | some .globalNotConst => "GlobalNotConst"

def showRes : SiteRes → String
  | .accepted v => s!"accepted:{showVal v}" | .rejected => "rejected" | .panic => "panic" | .stuck => "stuck"

end C15

def c15 (args : List String) : String :=
  match args with
  | [site, fuel, e, cargs, nodes] =>
    match fuel.toNat?, e.toNat?, C15.valList? cargs, (nodes.splitOn ";").mapM C15.node? with
    | some fuel, some e, some cargs, some nodes =>
      let p : Prog := ⟨nodes, cargs⟩
      let out? : Option SiteOut :=
        match site with
        | "len" => some (arrayLenSite p fuel e)
        | "disc" => some (discriminantSite p fuel e)
        | "ctarg" => some (comptimeArgSite p fuel e)
        | "global" => some (globalSite false p fuel e)
        | "builtin" => some (globalSite true p fuel e)
        | _ => none
      match out? with
      | some o =>
        s!"gc={C15.showOut (getConst p fuel e)} diag={C15.showDiag o.diag} eval={if o.evaluated then 1 else 0} res={C15.showRes o.result}"
      | none => "bad-op"
    | _, _, _, _ => "bad-op"
  | _ => "bad-op"

end CapyV.Driver
