import CapyV.Spec.CapyCore
import CapyV.Driver.Util
/-! S-expression → CapyCore program (wire format of `harness/src/core.rs`). Trusted glue. -/
namespace CapyV.Driver
open CapyV.Core

def atomInt? : Sexp → Option Int
  | .atom s => s.toInt?
  | _ => none

def atomN? : Sexp → Option Nat
  | .atom s => s.toNat?
  | _ => none

partial def coreTy : Sexp → Option Ty
  | .atom "bool" => some .bool
  | .atom "void" => some .void
  | .atom s =>
    let cs := s.toList
    match cs with
    | 'i' :: r => (String.ofList r).toNat?.map (Ty.int true)
    | 'u' :: r => (String.ofList r).toNat?.map (Ty.int false)
    | _ => none
  | .list [.atom "arr", n, t] => do some (.arr (← atomN? n) (← coreTy t))
  | .list [.atom "opt", t] => do some (.opt (← coreTy t))
  | .list [.atom "struct", n] => do some (.struct (← atomN? n))
  | .list [.atom "enum", n] => do some (.enum (← atomN? n))
  | .list [.atom "eu", e, p] => do some (.errUnion (← coreTy e) (← coreTy p))
  | _ => none

def coreBinOp : String → Option BinOp
  | "add" => some .add | "sub" => some .sub | "mul" => some .mul | "div" => some .div
  | "rem" => some .rem | "band" => some .band | "bor" => some .bor | "bxor" => some .bxor
  | "shl" => some .shl | "shr" => some .shr | _ => none

def coreCmpOp : String → Option CmpOp
  | "eq" => some .eq | "ne" => some .ne | "lt" => some .lt | "le" => some .le
  | "gt" => some .gt | "ge" => some .ge | _ => none

mutual
partial def coreExpr : Sexp → Option Expr
  | .atom "nil" => some .nilE
  | .list [.atom "lit", t, z] => do some (.lit (← coreTy t) (← atomInt? z))
  | .list [.atom "blit", .atom b] => some (.blit (b == "1"))
  | .list [.atom "var", x] => do some (.var (← atomN? x))
  | .list [.atom "bin", .atom op, t, a, b] => do
      some (.bin (← coreBinOp op) (← coreTy t) (← coreExpr a) (← coreExpr b))
  | .list [.atom "cmp", .atom op, t, a, b] => do
      some (.cmp (← coreCmpOp op) (← coreTy t) (← coreExpr a) (← coreExpr b))
  | .list [.atom "land", a, b] => do some (.land (← coreExpr a) (← coreExpr b))
  | .list [.atom "lor", a, b] => do some (.lor (← coreExpr a) (← coreExpr b))
  | .list [.atom "lnot", a] => do some (.lnot (← coreExpr a))
  | .list [.atom "neg", t, a] => do some (.neg (← coreTy t) (← coreExpr a))
  | .list [.atom "bnot", t, a] => do some (.bnot (← coreTy t) (← coreExpr a))
  | .list [.atom "cast", s, d, a] => do some (.cast (← coreTy s) (← coreTy d) (← coreExpr a))
  | .list (.atom "call" :: f :: args) => do some (.call (← atomN? f) (← coreExprs args))
  | .list [.atom "index", a, i] => do some (.index (← coreExpr a) (← coreExpr i))
  | .list [.atom "field", a, k] => do some (.field (← coreExpr a) (← atomN? k))
  | .list (.atom "arrlit" :: es) => do some (.arrLit (← coreExprs es))
  | .list (.atom "structlit" :: id :: es) => do some (.structLit (← atomN? id) (← coreExprs es))
  | .list [.atom "some", a] => do some (.someE (← coreExpr a))
  | .list [.atom "unwrap", a] => do some (.unwrap (← coreExpr a))
  | .list [.atom "issome", a] => do some (.isSome (← coreExpr a))
  | .list [.atom "ite", c, a, b] => do some (.ite (← coreExpr c) (← coreExpr a) (← coreExpr b))
  | .list [.atom "variant", k] => do some (.variantLit (← atomN? k) none)
  | .list [.atom "variant", k, a] => do some (.variantLit (← atomN? k) (some (← coreExpr a)))
  | .list [.atom "isvariant", k, a] => do some (.isVariant (← atomN? k) (← coreExpr a))
  | .list [.atom "unwrapv", k, a] => do some (.unwrapVariant (← atomN? k) (← coreExpr a))
  | .list [.atom "eulit", .atom b, a] => do some (.euLit (b == "1") (← coreExpr a))
  | .list [.atom "euisok", a] => do some (.euIsOk (← coreExpr a))
  | .list [.atom "euunwrap", .atom b, a] => do some (.euUnwrap (b == "1") (← coreExpr a))
  | .list [.atom "try", a] => do some (.tryE (← coreExpr a))
  | _ => none
partial def coreExprs : List Sexp → Option (List Expr)
  | [] => some []
  | e :: r => do some ((← coreExpr e) :: (← coreExprs r))
end

partial def corePlace : Sexp → Option Place
  | .list [.atom "pvar", x] => do some (.var (← atomN? x))
  | .list [.atom "pindex", p, i] => do some (.index (← corePlace p) (← coreExpr i))
  | .list [.atom "pfield", p, k] => do some (.field (← corePlace p) (← atomN? k))
  | _ => none

mutual
partial def coreStmt : Sexp → Option Stmt
  | .list [.atom "let", x, e] => do some (.letS (← atomN? x) (← coreExpr e))
  | .list [.atom "assign", p, e] => do some (.assign (← corePlace p) (← coreExpr e))
  | .list [.atom "opassign", .atom op, t, p, e] => do
      some (.opAssign (← coreBinOp op) (← coreTy t) (← corePlace p) (← coreExpr e))
  | .list [.atom "print", e] => do some (.print (← coreExpr e))
  | .list [.atom "if", c, .list (.atom "then" :: a), .list (.atom "else" :: b)] => do
      some (.ifS (← coreExpr c) (← coreStmts a) (← coreStmts b))
  | .list (.atom "while" :: l :: c :: body) => do
      some (.whileS (← atomN? l) (← coreExpr c) (← coreStmts body))
  | .list (.atom "block" :: .atom l :: body) => do
      some (.block (if l = "-" then none else l.toNat?) (← coreStmts body))
  | .list [.atom "brk", l] => do some (.brk (← atomN? l))
  | .list [.atom "cont", l] => do some (.cont (← atomN? l))
  | .list [.atom "ret"] => some (.ret none)
  | .list [.atom "ret", e] => do some (.ret (some (← coreExpr e)))
  | .list [.atom "defer", s] => do some (.deferS (← coreStmt s))
  | .list [.atom "expr", e] => do some (.exprS (← coreExpr e))
  | .list (.atom "switch" :: scrut :: .atom arg :: rest) => do
      let a : Option Nat := if arg = "-" then none else arg.toNat?
      let (arms, dflt) ← coreArms rest
      some (.switchS (← coreExpr scrut) a arms dflt)
  | _ => none
partial def coreArms : List Sexp → Option (List (Nat × List Stmt) × Option (List Stmt))
  | [] => some ([], none)
  | .list (.atom "arm" :: k :: body) :: rest => do
      let (arms, d) ← coreArms rest
      some ((← atomN? k, ← coreStmts body) :: arms, d)
  | .list (.atom "default" :: body) :: rest => do
      let (arms, _) ← coreArms rest
      some (arms, some (← coreStmts body))
  | _ => none
partial def coreStmts : List Sexp → Option (List Stmt)
  | [] => some []
  | s :: r => do some ((← coreStmt s) :: (← coreStmts r))
end

def coreFn : Sexp → Option Fn
  | .list (.atom "fn" :: .list ps :: ret :: body) => do
      some { params := ← ps.mapM atomN?, retTy := ← coreTy ret, body := ← coreStmts body }
  | _ => none

def coreProgram : Sexp → Option Program
  | .list (.atom "prog" :: fns) => do some { fns := ← fns.mapM coreFn }
  | _ => none

/-- `run <fuel> <(prog …)>` → `<status>|line;line;…` -/
def core (args : List String) : String :=
  match args with
  | "run" :: fuel :: rest =>
    match fuel.toNat?, (parseSexp (" ".intercalate rest)).bind coreProgram with
    | some fuel, some p =>
      let o := run p fuel
      s!"{o.status}|{";".intercalate o.lines}"
    | _, _ => "bad-op"
  | _ => "bad-op"

end CapyV.Driver
