import CapyV.Spec.CapyCoreMem
import CapyV.Driver.Core
/-! S-expression → CapyCoreMem program (wire format of `harness/src/core.rs`): the format of
`Driver/Core.lean` plus pointers and slices. Trusted glue. `CORE run` evaluates with
`CapyV.CoreMem.run`; `CORE xcheck` additionally decodes the same text with the decoder of the
value-only `CapyV.Core` (which rejects every new construct) and compares the two interpreters. -/
namespace CapyV.Driver.Mem
open CapyV.Driver CapyV.CoreMem

partial def mCoreTy : Sexp → Option Ty
  | .atom "bool" => some .bool
  | .atom "void" => some .void
  | .atom "char" => some .char
  | .atom s =>
    let cs := s.toList
    match cs with
    | 'i' :: r => (String.ofList r).toNat?.map (Ty.int true)
    | 'u' :: r => (String.ofList r).toNat?.map (Ty.int false)
    | _ => none
  | .list [.atom "arr", n, t] => do some (.arr (← atomN? n) (← mCoreTy t))
  | .list [.atom "opt", t] => do some (.opt (← mCoreTy t))
  | .list [.atom "struct", n] => do some (.struct (← atomN? n))
  | .list [.atom "enum", n] => do some (.enum (← atomN? n))
  | .list [.atom "eu", e, p] => do some (.errUnion (← mCoreTy e) (← mCoreTy p))
  | .list [.atom "ptr", .atom m, t] => do some (.ptr (m == "1") (← mCoreTy t))
  | .list [.atom "slice", t] => do some (.slice (← mCoreTy t))
  | _ => none

mutual
partial def mCoreExpr : Sexp → Option Expr
  | .atom "nil" => some .nilE
  | .list [.atom "lit", t, z] => do some (.lit (← mCoreTy t) (← atomInt? z))
  | .list [.atom "blit", .atom b] => some (.blit (b == "1"))
  | .list [.atom "var", x] => do some (.var (← atomN? x))
  | .list [.atom "bin", .atom op, t, a, b] => do
      some (.bin (← coreBinOp op) (← mCoreTy t) (← mCoreExpr a) (← mCoreExpr b))
  | .list [.atom "cmp", .atom op, t, a, b] => do
      some (.cmp (← coreCmpOp op) (← mCoreTy t) (← mCoreExpr a) (← mCoreExpr b))
  | .list [.atom "land", a, b] => do some (.land (← mCoreExpr a) (← mCoreExpr b))
  | .list [.atom "lor", a, b] => do some (.lor (← mCoreExpr a) (← mCoreExpr b))
  | .list [.atom "lnot", a] => do some (.lnot (← mCoreExpr a))
  | .list [.atom "neg", t, a] => do some (.neg (← mCoreTy t) (← mCoreExpr a))
  | .list [.atom "bnot", t, a] => do some (.bnot (← mCoreTy t) (← mCoreExpr a))
  | .list [.atom "cast", s, d, a] => do some (.cast (← mCoreTy s) (← mCoreTy d) (← mCoreExpr a))
  | .list (.atom "call" :: f :: args) => do some (.call (← atomN? f) (← mCoreExprs args))
  | .list [.atom "index", a, i] => do some (.index (← mCoreExpr a) (← mCoreExpr i))
  | .list [.atom "field", a, k] => do some (.field (← mCoreExpr a) (← atomN? k))
  | .list (.atom "arrlit" :: es) => do some (.arrLit (← mCoreExprs es))
  | .list (.atom "structlit" :: id :: es) => do some (.structLit (← atomN? id) (← mCoreExprs es))
  | .list [.atom "some", a] => do some (.someE (← mCoreExpr a))
  | .list [.atom "unwrap", a] => do some (.unwrap (← mCoreExpr a))
  | .list [.atom "issome", a] => do some (.isSome (← mCoreExpr a))
  | .list [.atom "ite", c, a, b] => do some (.ite (← mCoreExpr c) (← mCoreExpr a) (← mCoreExpr b))
  | .list [.atom "variant", k] => do some (.variantLit (← atomN? k) none)
  | .list [.atom "variant", k, a] => do some (.variantLit (← atomN? k) (some (← mCoreExpr a)))
  | .list [.atom "isvariant", k, a] => do some (.isVariant (← atomN? k) (← mCoreExpr a))
  | .list [.atom "unwrapv", k, a] => do some (.unwrapVariant (← atomN? k) (← mCoreExpr a))
  | .list [.atom "eulit", .atom b, a] => do some (.euLit (b == "1") (← mCoreExpr a))
  | .list [.atom "euisok", a] => do some (.euIsOk (← mCoreExpr a))
  | .list [.atom "euunwrap", .atom b, a] => do some (.euUnwrap (b == "1") (← mCoreExpr a))
  | .list [.atom "try", a] => do some (.tryE (← mCoreExpr a))
  | .list [.atom "addr", a] => do some (.addrOf (← mCoreExpr a))
  | .list [.atom "deref", a] => do some (.deref (← mCoreExpr a))
  | .list [.atom "sliceof", a] => do some (.sliceOf (← mCoreExpr a))
  | .list [.atom "len", a] => do some (.len (← mCoreExpr a))
  | .list [.atom "s2a", n, a] => do some (.sliceToArr (← atomN? n) (← mCoreExpr a))
  | .list [.atom "fnref", f] => do some (.fnRef (← atomN? f))
  | .list [.atom "clit", n] => do some (.clit (← atomN? n))
  | .list (.atom "callv" :: c :: args) => do some (.callV (← mCoreExpr c) (← mCoreExprs args))
  | _ => none
partial def mCoreExprs : List Sexp → Option (List Expr)
  | [] => some []
  | e :: r => do some ((← mCoreExpr e) :: (← mCoreExprs r))
end

partial def mCorePlace : Sexp → Option Place
  | .list [.atom "pvar", x] => do some (.var (← atomN? x))
  | .list [.atom "pindex", p, i] => do some (.index (← mCorePlace p) (← mCoreExpr i))
  | .list [.atom "pfield", p, k] => do some (.field (← mCorePlace p) (← atomN? k))
  | .list [.atom "pderef", e] => do some (.deref (← mCoreExpr e))
  | _ => none

mutual
partial def mCoreStmt : Sexp → Option Stmt
  | .list [.atom "let", x, e] => do some (.letS (← atomN? x) (← mCoreExpr e))
  | .list [.atom "assign", p, e] => do some (.assign (← mCorePlace p) (← mCoreExpr e))
  | .list [.atom "opassign", .atom op, t, p, e] => do
      some (.opAssign (← coreBinOp op) (← mCoreTy t) (← mCorePlace p) (← mCoreExpr e))
  | .list [.atom "print", e] => do some (.print (← mCoreExpr e))
  | .list [.atom "if", c, .list (.atom "then" :: a), .list (.atom "else" :: b)] => do
      some (.ifS (← mCoreExpr c) (← mCoreStmts a) (← mCoreStmts b))
  | .list (.atom "while" :: l :: c :: body) => do
      some (.whileS (← atomN? l) (← mCoreExpr c) (← mCoreStmts body))
  | .list (.atom "block" :: .atom l :: body) => do
      some (.block (if l = "-" then none else l.toNat?) (← mCoreStmts body))
  | .list [.atom "brk", l] => do some (.brk (← atomN? l))
  | .list [.atom "cont", l] => do some (.cont (← atomN? l))
  | .list [.atom "ret"] => some (.ret none)
  | .list [.atom "ret", e] => do some (.ret (some (← mCoreExpr e)))
  | .list [.atom "defer", s] => do some (.deferS (← mCoreStmt s))
  | .list [.atom "expr", e] => do some (.exprS (← mCoreExpr e))
  | .list (.atom "switch" :: scrut :: .atom arg :: rest) => do
      let a : Option Nat := if arg = "-" then none else arg.toNat?
      let (arms, dflt) ← mCoreArms rest
      some (.switchS (← mCoreExpr scrut) a arms dflt)
  | _ => none
partial def mCoreArms : List Sexp → Option (List (Nat × List Stmt) × Option (List Stmt))
  | [] => some ([], none)
  | .list (.atom "arm" :: k :: body) :: rest => do
      let (arms, d) ← mCoreArms rest
      some ((← atomN? k, ← mCoreStmts body) :: arms, d)
  | .list (.atom "default" :: body) :: rest => do
      let (arms, _) ← mCoreArms rest
      some (arms, some (← mCoreStmts body))
  | _ => none
partial def mCoreStmts : List Sexp → Option (List Stmt)
  | [] => some []
  | s :: r => do some ((← mCoreStmt s) :: (← mCoreStmts r))
end

def mCoreFn : Sexp → Option Fn
  | .list (.atom "fn" :: .list ps :: ret :: body) => do
      some { params := ← ps.mapM atomN?, retTy := ← mCoreTy ret, body := ← mCoreStmts body }
  | _ => none

def mCoreProgram : Sexp → Option Program
  | .list (.atom "prog" :: fns) => do some { fns := ← fns.mapM mCoreFn }
  | _ => none


end CapyV.Driver.Mem

namespace CapyV.Driver

/-- `run <fuel> <(prog …)>` → `<status>|line;line;…` (the store-based interpreter);
`xcheck <fuel> <(prog …)>` → `n/a` (outside `CapyV.Core`'s fragment), `agree`, or `differ:<answer of CapyV.Core>` -/
def coreMem (args : List String) : String :=
  match args with
  | "run" :: fuel :: rest =>
    match fuel.toNat?, (parseSexp (" ".intercalate rest)).bind Mem.mCoreProgram with
    | some fuel, some p =>
      let o := CoreMem.run p fuel
      s!"{o.status}|{";".intercalate o.lines}"
    | _, _ => "bad-op"
  | "xcheck" :: fuel :: rest =>
    let sx := parseSexp (" ".intercalate rest)
    match fuel.toNat?, sx.bind Mem.mCoreProgram, sx.bind coreProgram with
    | some fuel, some p, some p1 =>
      let o := CoreMem.run p fuel
      let o1 := Core.run p1 fuel
      if o == o1 then "agree" else s!"differ:{o1.status}|{";".intercalate o1.lines}"
    | some _, some _, none => "n/a"
    | _, _, _ => "bad-op"
  | _ => "bad-op"

end CapyV.Driver
