import CapyV.Model.Switch
import CapyV.Driver.TyCodec
import CapyV.Driver.C12
import CapyV.Driver.C17
/-! Driver ops of C11 (switch acceptance / discriminants / dispatch). Trusted glue. -/
namespace CapyV.Driver
open CapyV CapyV.Switch

def armOfSexp : Sexp → Option Arm
  | .list [.atom "s", n] => (atomNat? n).map .shorthand
  | .list [.atom "q", t] => (tyOfSexp t).map .qualified
  | _ => none

def parseArm (s : String) : Option Arm := (parseSexp s).bind armOfSexp

def diagStr : Diag → String
  | .mismatchSumType => "MismatchSum"
  | .mismatchEnum => "MismatchEnum"
  | .notAVariant t => s!"NotAVariant:{tyToSexp t}"
  | .notAShorthandVariant n => s!"NotAShorthand:{n}"
  | .alreadyCovers t => s!"Already:{tyToSexp t}"
  | .doesNotCover t => s!"Missing:{tyToSexp t}"

def outcomeStr : Outcome → String
  | .panic => "panic"
  | .diags [] => "ok"
  | .diags ds => ";".intercalate (ds.map diagStr)

def targetStr : Target → String
  | .arm i => s!"arm{i}"
  | .default => "default"
  | .trap => "trap"

def bindingStr : Option Binding → String
  | none => "-"
  | some (.payload t) => s!"payload:{tyToSexp t}"
  | some (.whole t) => s!"whole:{tyToSexp t}"

/-- scrutinee and arms: `<scrut> | <arm> | <arm> …` -/
def parseSwitch (s : String) : Option (Ty × List Arm) :=
  match splitBar s with
  | [] => none
  | t :: arms =>
    match parseTy t, (arms.filter (· ≠ "")).mapM parseArm with
    | some t, some as => some (t, as)
    | _, _ => none

def specStr (scrut : Ty) (arms : List Arm) (dflt : Bool) : String :=
  match variantTys scrut.absoluteTy with
  | none => "not-a-sum-type"
  | some vts => if decide (Accepts (isEnum scrut) vts arms dflt) then "accept" else "reject"

def dispatchStr (fixed : Bool) (scrut : Ty) (arms : List Arm) (dflt : Bool) : String :=
  match variantTys scrut.absoluteTy with
  | none => "not-a-sum-type"
  | some vts =>
    -- the front end runs first: its panic is the compiler's panic
    let front := if fixed then checkSwitch scrut arms dflt else checkSwitchPinned scrut arms dflt
    if front = .panic then "panic" else
    match compileSwitch fixed scrut arms dflt true with
    | none => "panic"
    | some c =>
      ";".intercalate (vts.map fun v =>
        match reprDiscr scrut v with
        | none => "norepr"
        | some d =>
          match dispatch c d with
          | none => "stuck"
          | some t => s!"{targetStr t}={bindingStr (binding fixed scrut arms t)}")

/--
* `check <pinned|fixed> <0|1 default> <scrut> | <arm> | …` → `<outcome> spec=<accept|reject>`
* `dispatch <pinned|fixed> <0|1> <scrut> | <arm> | …` → per variant `<target>=<binding>` (`;`-separated) or `panic`
* `discr <m0> <m1> …` (`-` = automatic) → `dups=[…] discr=[…]`
-/
def c11 (args : List String) : String :=
  match args with
  | "check" :: mode :: d :: rest =>
    match parseSwitch (" ".intercalate rest) with
    | none => "bad-parse"
    | some (t, arms) =>
      let dflt := d == "1"
      let o := if mode == "pinned" then checkSwitchPinned t arms dflt else checkSwitch t arms dflt
      s!"{outcomeStr o} spec={specStr t arms dflt}"
  | "dispatch" :: mode :: d :: rest =>
    match parseSwitch (" ".intercalate rest) with
    | none => "bad-parse"
    | some (t, arms) => dispatchStr (mode != "pinned") t arms (d == "1")
  | "discr" :: ms =>
    let manual := ms.map fun s => s.toNat?
    let (dups, ds) := assignDiscriminants manual
    s!"dups={natList dups} discr={natList ds}"
  | _ => "bad-op"

end CapyV.Driver
