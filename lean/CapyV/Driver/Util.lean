/-! Shared helpers for the line-protocol driver (no proofs here; trusted glue). -/
namespace CapyV.Driver

def hexVal (c : Char) : Option Nat :=
  if '0' ≤ c ∧ c ≤ '9' then some (c.toNat - '0'.toNat)
  else if 'a' ≤ c ∧ c ≤ 'f' then some (c.toNat - 'a'.toNat + 10)
  else if 'A' ≤ c ∧ c ≤ 'F' then some (c.toNat - 'A'.toNat + 10)
  else none

/-- "0a1f" ↦ [10, 31]; "-" ↦ [] -/
def parseHexBytes (s : String) : Option (List Nat) :=
  if s = "-" then some [] else
  let rec go : List Char → List Nat → Option (List Nat)
    | [], acc => some acc.reverse
    | [_], _ => none
    | a :: b :: rest, acc =>
      match hexVal a, hexVal b with
      | some x, some y => go rest ((x * 16 + y) :: acc)
      | _, _ => none
  go s.toList []

def hexDigit (n : Nat) : Char :=
  if n < 10 then Char.ofNat (n + '0'.toNat) else Char.ofNat (n - 10 + 'a'.toNat)

def toHexBytes (bs : List Nat) : String :=
  if bs.isEmpty then "-" else
  String.ofList (bs.flatMap fun b => [hexDigit (b / 16 % 16), hexDigit (b % 16)])

def words (line : String) : List String :=
  (line.trimAscii.toString.splitOn " ").filter (· ≠ "")

/-- S-expressions for structured arguments. -/
inductive Sexp where
  | atom : String → Sexp
  | list : List Sexp → Sexp
  deriving Repr, Inhabited

partial def Sexp.toString : Sexp → String
  | .atom s => s
  | .list xs => "(" ++ " ".intercalate (xs.map Sexp.toString) ++ ")"

def tokenizeSexp (s : String) : List String :=
  let rec go : List Char → List Char → List String → List String
    | [], cur, acc => (if cur.isEmpty then acc else String.ofList cur.reverse :: acc).reverse
    | c :: cs, cur, acc =>
      let flush := if cur.isEmpty then acc else String.ofList cur.reverse :: acc
      if c = '(' then go cs [] ("(" :: flush)
      else if c = ')' then go cs [] (")" :: flush)
      else if c = ' ' ∨ c = '\t' then go cs [] flush
      else go cs (c :: cur) acc
  go s.toList [] []

/-- Parse one S-expression from a token list (fuel = token count). -/
def parseSexpAux : Nat → List String → Option (Sexp × List String)
  | 0, _ => none
  | _, [] => none
  | fuel + 1, tok :: rest =>
    if tok = "(" then
      let rec items (f : Nat) (ts : List String) (acc : List Sexp) : Option (Sexp × List String) :=
        match f with
        | 0 => none
        | f + 1 =>
          match ts with
          | [] => none
          | ")" :: ts' => some (.list acc.reverse, ts')
          | _ =>
            match parseSexpAux fuel ts with
            | none => none
            | some (x, ts') => items f ts' (x :: acc)
      items (rest.length + 1) rest []
    else if tok = ")" then none
    else some (.atom tok, rest)

def parseSexp (s : String) : Option Sexp :=
  let toks := tokenizeSexp s
  match parseSexpAux (toks.length + 1) toks with
  | some (x, []) => some x
  | _ => none

end CapyV.Driver
