import CapyV.Model.Num
import CapyV.Driver.TyCodec
namespace CapyV.Driver
open CapyV CapyV.Num

def binOpOf : String → Option BinOp
  | "add" => some .add | "sub" => some .sub | "mul" => some .mul | "div" => some .div
  | "mod" => some .mod | "lt" => some .lt | "gt" => some .gt | "le" => some .le
  | "ge" => some .ge | "eq" => some .eq | "ne" => some .ne | "band" => some .band
  | "bor" => some .bor | "xor" => some .xor | "shl" => some .shl | "shr" => some .shr
  | _ => none

def unOpOf : String → Option UnOp
  | "pos" => some .pos | "neg" => some .neg | "bnot" => some .bnot | "lnot" => some .lnot
  | _ => none

def boolOf : String → Option Bool
  | "0" => some false | "1" => some true | _ => none

def b01 (b : Bool) : String := if b then "1" else "0"

def c08ResStr : Res w → String
  | .val v => s!"val {v.toNat}"
  | .flag b => s!"flag {b01 b}"
  | .trap => "trap"
  | .unreachable => "unreachable"
  | .floatOp => "float"

def fvalStr : FVal → String
  | .fin z => s!"fin {z}"
  | .nan => "nan"
  | .pinf => "pinf"
  | .ninf => "ninf"

def castResStr : CastRes → String
  | .ok (.i w v) => s!"i {w} {v.toNat}"
  | .ok (.f x) => s!"f {fvalStr x}"
  | .illTyped => "illtyped"
  | .unreachable => "unreachable"
  | .notModelled => "notmodelled"

def numTyOf (b f s : String) : Option NumTy := do
  some ⟨← b.toNat?, ← boolOf f, ← boolOf s⟩

/-- `fin <m> <e>`: the integer `trunc(m * 2^e)` (m decimal, possibly negative; e may be
negative) -/
def fvalOf : List String → Option FVal
  | ["nan"] => some .nan
  | ["pinf"] => some .pinf
  | ["ninf"] => some .ninf
  | ["fin", m, e] => do
    let m ← m.toInt?
    let e ← e.toInt?
    if e ≥ 0 then some (.fin (m * 2 ^ e.toNat)) else some (.fin (Int.tdiv m (2 ^ (-e).toNat)))
  | _ => none

def finalStr : Option FinalTy → String
  | some (.number t) => s!"num {t.bits} {b01 t.float} {b01 t.signed}"
  | some .other => "other"
  | none => "unreachable"

/-- `bin <op> <bits> <signed> <a> <b>` · `un <op> <bits> <signed> <a>` ·
`cast|castp <fb> <ff> <fs> <tb> <tf> <ts> (i <n> | f nan|pinf|ninf|fin <m> <e>)` ·
`final <ptr bits> <ty-sexp>` -/
def c08 (args : List String) : String :=
  match args with
  | ["bin", op, bits, s, a, b] =>
    match binOpOf op, bits.toNat?, boolOf s, a.toNat?, b.toNat? with
    | some op, some w, some s, some a, some b =>
      c08ResStr (numBinary op ⟨w, false, s⟩ (BitVec.ofNat w a) (BitVec.ofNat w b))
    | _, _, _, _, _ => "bad-op"
  | ["un", op, bits, s, a] =>
    match unOpOf op, bits.toNat?, boolOf s, a.toNat? with
    | some op, some w, some s, some a => c08ResStr (numUnary op ⟨w, false, s⟩ (BitVec.ofNat w a))
    | _, _, _, _ => "bad-op"
  | "final" :: pw :: rest =>
    match pw.toNat?, parseTy (" ".intercalate rest) with
    | some pw, some t => finalStr (finalTy pw t)
    | _, _ => "bad-op"
  | which :: fb :: ff :: fs :: tb :: tf :: ts :: kind :: rest =>
    if which ≠ "cast" ∧ which ≠ "castp" then "bad-op" else
    match numTyOf fb ff fs, numTyOf tb tf ts with
    | some cf, some ct =>
      let v : Option Val :=
        match kind, rest with
        | "i", [n] => n.toNat?.map fun n => Val.i cf.bits (BitVec.ofNat cf.bits n)
        | "f", r => (fvalOf r).map Val.f
        | _, _ => none
      match v with
      | some v => castResStr (if which = "cast" then castNum cf ct v else castNumPinned cf ct v)
      | none => "bad-op"
    | _, _ => "bad-op"
  | _ => "bad-op"

end CapyV.Driver
