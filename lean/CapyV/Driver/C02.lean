import CapyV.Model.Stores
import CapyV.Driver.TyCodec
namespace CapyV.Driver
open CapyV CapyV.Stores

/-- merge a footprint into sorted, maximal byte intervals `a-b` (b exclusive) -/
def mergeIntervals (fp : List Store) : List (Nat × Nat) :=
  let sorted := (fp.map fun s => (s.1, s.1 + s.2)).mergeSort (fun a b => a.1 ≤ b.1)
  let rec go : List (Nat × Nat) → List (Nat × Nat) → List (Nat × Nat)
    | [], acc => acc.reverse
    | (a, b) :: r, [] => go r [(a, b)]
    | (a, b) :: r, (c, d) :: acc => if a ≤ d then go r ((c, max b d) :: acc) else go r ((a, b) :: (c, d) :: acc)
  go (sorted.filter fun p => p.1 < p.2) []

def showIntervals (l : List (Nat × Nat)) : String :=
  if l.isEmpty then "-" else ",".intercalate (l.map fun p => s!"{p.1}-{p.2}")

/-- `fp <pw> <fieldOffset> <same|variant|payload|nil> <dst-ty> | <payload-ty or void>` → merged
byte intervals written, relative to the enclosing object -/
def c02 (args : List String) : String :=
  match args with
  | "fp" :: pw :: off :: kind :: rest =>
    match pw.toNat?, off.toNat?, (splitBar (" ".intercalate rest)) with
    | some pw, some off, [d, p] =>
      match parseTy d, parseTy p with
      | some d, some p =>
        let src : Option Source := match kind with
          | "same" => some .same | "variant" => some (.variant p)
          | "payload" => some (.payload p) | "nil" => some .nilValue | _ => none
        match src with
        | some src => showIntervals (mergeIntervals (shift off (footprint pw d src)))
        | none => "bad-op"
      | _, _ => "bad-op"
    | _, _, _ => "bad-op"
  | _ => "bad-op"

end CapyV.Driver
