import CapyV.Model.Stores
import CapyV.Model.CopyLang
import CapyV.Driver.TyCodec
namespace CapyV.Driver
open CapyV CapyV.Stores

/-- merge a footprint into sorted, maximal byte intervals `a-b` (b exclusive) -/
def mergeIntervals (fp : List Store) : List (Nat × Nat) :=
  let sorted := (fp.map fun s => (s.1, s.1 + s.2)).mergeSort (fun a b => a.1 ≤ b.1)
  let rec go : List (Nat × Nat) → List (Nat × Nat) → List (Nat × Nat)
    | [], acc => acc.reverse
    | (a, b) :: r, [] => go r [(a, b)]
    | (a, b) :: r, (c, d) :: acc => if a ≤ d then go r ((c, max b d) :: acc) else go r ((a, b) :: (c, d) :: acc)
  go (sorted.filter fun p => p.1 < p.2) []

def showIntervals (l : List (Nat × Nat)) : String :=
  if l.isEmpty then "-" else ",".intercalate (l.map fun p => s!"{p.1}-{p.2}")

/-- one CopyLang operation: `i x v1,v2,..` | `d form dst srcvar off len` | `s x off v` |
`a dvar doff svar soff len` | `o x off` -/
def parseCopyOp (ws : List String) : Option Copy.Op :=
  match ws with
  | ["i", x, cells] =>
    match x.toNat?, (cells.splitOn ",").mapM String.toInt? with
    | some x, some cs => some (.init x cs)
    | _, _ => none
  -- `l x k7 c0.1 c2.0 …`: literal assignment, members are constants (`k<int>`) or cells (`c<var>.<off>`)
  | "l" :: x :: srcs =>
    let parse (t : String) : Option Copy.Src :=
      if t.startsWith "k" then (t.drop 1).toString.toInt?.map Copy.Src.const
      else if t.startsWith "c" then
        match (t.drop 1).toString.splitOn "." with
        | [v, o] => match v.toNat?, o.toNat? with
          | some v, some o => some (.cell v o)
          | _, _ => none
        | _ => none
      else none
    match x.toNat?, srcs.mapM parse with
    | some x, some ss => some (.lit x ss)
    | _, _ => none
  | ["d", f, dst, sv, off, len] =>
    match f.toNat?, dst.toNat?, sv.toNat?, off.toNat?, len.toNat? with
    | some f, some dst, some sv, some off, some len => some (.defn f dst ⟨sv, off, len⟩)
    | _, _, _, _, _ => none
  | ["s", x, off, v] =>
    match x.toNat?, off.toNat?, v.toInt? with
    | some x, some off, some v => some (.set x off v)
    | _, _, _ => none
  | ["a", dv, doff, sv, soff, len] =>
    match dv.toNat?, doff.toNat?, sv.toNat?, soff.toNat?, len.toNat? with
    | some dv, some doff, some sv, some soff, some len => some (.assign ⟨dv, doff, len⟩ ⟨sv, soff, len⟩)
    | _, _, _, _, _ => none
  | ["o", x, off] =>
    match x.toNat?, off.toNat? with
    | some x, some off => some (.obs x off)
    | _, _ => none
  | _ => none

/-- `copy <op> ; <op> ; …` → the printed cells, comma separated (`stuck` if the program is not
inside the model's domain, `bad-op` if it does not parse) -/
def c02copy (rest : List String) : String :=
  let groups := (" ".intercalate rest).splitOn ";" |>.map (fun g => words g) |>.filter (· ≠ [])
  match groups.mapM parseCopyOp with
  | none => "bad-op"
  | some ops =>
    match Copy.run ops with
    | none => "stuck"
    | some out => ",".intercalate (out.map toString)

/-- `fp <pw> <fieldOffset> <same|variant|payload|nil> <dst-ty> | <payload-ty or void>` → merged
byte intervals written, relative to the enclosing object -/
def c02 (args : List String) : String :=
  match args with
  | "copy" :: rest => c02copy rest
  | "fp" :: pw :: off :: kind :: rest =>
    match pw.toNat?, off.toNat?, (splitBar (" ".intercalate rest)) with
    | some pw, some off, [d, p] =>
      match parseTy d, parseTy p with
      | some d, some p =>
        let src : Option Source := match kind with
          | "same" => some .same | "variant" => some (.variant p)
          | "payload" => some (.payload p) | "nil" => some .nilValue | _ => none
        match src with
        | some src => showIntervals (mergeIntervals (shift off (footprint pw d src)))
        | none => "bad-op"
      | _, _ => "bad-op"
    | _, _, _ => "bad-op"
  | _ => "bad-op"

end CapyV.Driver
