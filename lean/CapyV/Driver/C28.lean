import CapyV.Model.ImportsCli
import CapyV.Driver.Util
namespace CapyV.Driver
open CapyV.Imports

namespace C28

/-- strings travel as `=<text>` (so that the empty string is a token) -/
def str (s : String) : Option (List Char) :=
  match s.toList with
  | '=' :: cs => some cs
  | _ => none

def showComp : Comp → String
  | .root => "/"
  | .cur => "."
  | .parent => ".."
  | .normal s => "n:" ++ String.ofList s

def showComps (p : Path) : String :=
  if p.isEmpty then "-" else " ".intercalate (p.map showComp)

def compText : Comp → String
  | .root => "/"
  | .cur => "."
  | .parent => ".."
  | .normal s => String.ofList s

/-- `PathBuf::from_iter(components).to_string_lossy()` -/
def render (p : Path) : String :=
  match p with
  | .root :: rest => "/" ++ "/".intercalate (rest.map compText)
  | _ => "/".intercalate (p.map compText)

def showRes (names : Path → Option Nat) : Res → String
  | .ok p => "ok@" ++ render p ++ "#" ++ (match names p with | some n => toString n | none => "-")
  | .err .modMustBeAlphanumeric => "ModMustBeAlphanumeric"
  | .err .modDoesNotExist => "ModDoesNotExist"
  | .err .modDoesNotContainModFile => "ModDoesNotContainModFile"
  | .err .importMustEndInDotCapy => "ImportMustEndInDotCapy"
  | .err (.importDoesNotExist p) => "ImportDoesNotExist@" ++ render p
  | .err (.importOutsideCWD p) => "ImportOutsideCWD@" ++ render p

structure FileDesc where
  path : Path
  name : Nat
  dirs : List Directive

def parseDirective : Sexp → Option Directive
  | .list [.atom "i", .atom a] => (str a).map .imp
  | .list [.atom "m", .atom a] => (str a).map .mod
  | _ => none

def parseFile : Sexp → Option FileDesc
  | .list (.atom p :: .atom n :: ds) =>
    match str p, n.toNat?, ds.mapM parseDirective with
    | some p, some n, some ds => some { path := parse p, name := n, dirs := ds }
    | _, _, _ => none
  | _ => none

def parseFsEntry : Sexp → Option (Path × Kind)
  | .list [.atom "f", .atom p] => (str p).map fun p => (parse p, .file)
  | .list [.atom "d", .atom p] => (str p).map fun p => (parse p, .dir)
  | _ => none

def field (k : String) : List Sexp → Option (List Sexp)
  | [] => none
  | .list (.atom k' :: rest) :: more => if k = k' then some rest else field k more
  | _ :: more => field k more

def atom1 : List Sexp → Option (List Char)
  | [.atom a] => str a
  | _ => none

def tree (x : Sexp) : String :=
  match x with
  | .list fs =>
    match (field "cwd" fs).bind atom1, (field "mod" fs).bind atom1, (field "entry" fs).bind atom1,
          (field "fs" fs).bind (·.mapM parseFsEntry), (field "files" fs).bind (·.mapM parseFile) with
    | some cwd, some md, some entry, some fsl, some files =>
      let cwd := parse cwd
      let env := mkEnv cwd md (fun p => fsl.lookup p)
      let src : Path → List Directive := fun p =>
        match files.find? (·.path == p) with
        | some f => f.dirs
        | none => []
      let entryP := entryOf cwd entry
      let parsed := compileFile env src id (fsl.length + files.length + 2) entryP
      let w := world (fun p => (files.find? (·.path == p)).map (·.name)) (parsed.getD [])
      let names : Path → Option Nat := fun p => (w.lookup p).join
      let decs := files.map fun f =>
        "[" ++ " ".intercalate (f.dirs.map fun d => showRes names (lower env f.path d)) ++ "]"
      let ps := match cli env src id (fsl.length + files.length + 2) entryP with
        | .parsed l => " ".intercalate (l.map render)
        | .panicOutside _ l => "PANIC-ENTRY-OUTSIDE " ++ " ".intercalate (l.map render)
        | .outOfFuel => "FUEL"
      s!"mod={render env.modDir} entry={render entryP} D {" ".intercalate decs} P {ps}"
    | _, _, _, _, _ => "bad-op"
  | _ => "bad-op"

end C28

/-- `comps =s` · `clean =s` · `subdir =a =b` · `join =a =b` · `tree <sexp>` -/
def c28 (args : List String) : String :=
  match args with
  | ["comps", s] =>
    match C28.str s with
    | some s => C28.showComps (parse s)
    | none => "bad-op"
  | ["clean", s] =>
    match C28.str s with
    | some s => C28.render (clean (parse s))
    | none => "bad-op"
  | ["subdir", a, b] =>
    match C28.str a, C28.str b with
    | some a, some b => if isSubDirOf (parse a) (parse b) then "true" else "false"
    | _, _ => "bad-op"
  | ["join", a, b] =>
    match C28.str a, C28.str b with
    | some a, some b =>
      -- `Path::components` never yields a `CurDir` that is not leading: the comparison is
      -- modulo inner `.` (which `clean` ignores: `cleanStep out .cur = out`)
      let j := join (parse a) (parse b)
      C28.render (match j with
        | c :: rest => c :: rest.filter (· != Comp.cur)
        | [] => [])
    | _, _ => "bad-op"
  | "tree" :: rest =>
    match parseSexp (" ".intercalate rest) with
    | some x => C28.tree x
    | none => "bad-op"
  | _ => "bad-op"

end CapyV.Driver
