import CapyV.Model.ExprCore
import CapyV.Driver.Util
namespace CapyV.Driver
open CapyV.ExprCore CapyV.Generated.BP

namespace C24

def binOps : List BinOp :=
  [.lor, .land, .lt, .le, .gt, .ge, .eq, .ne, .add, .sub, .bor, .xor, .mul, .div, .mod, .band, .shl, .shr]

def binOpOfName (s : String) : Option BinOp := binOps.find? (fun b => b.kind.name = s)

def unOpName : UnOp → String
  | .neg => "Hyphen" | .pos => "Plus" | .not => "Bang" | .bnot => "Tilde"

def unOpOfName : String → Option UnOp
  | "Hyphen" => some .neg | "Plus" => some .pos | "Bang" => some .not | "Tilde" => some .bnot
  | _ => none

mutual
  partial def treeToString : Tree → String
    | .ident n => s!"(id {n})"
    | .int n => s!"(int {n})"
    | .bin b l r => s!"(bin {b.kind.name} {treeToString l} {treeToString r})"
    | .un u e => s!"(un {unOpName u} {treeToString e})"
    | .ref true e => s!"(refmut {treeToString e})"
    | .ref false e => s!"(ref {treeToString e})"
    | .deref e => s!"(deref {treeToString e})"
    | .try_ e => s!"(try {treeToString e})"
    | .field e n => s!"(field {treeToString e} {n})"
    | .index e i => s!"(index {treeToString e} {treeToString i})"
    | .cast e v => s!"(cast {treeToString e} {treeToString v})"
    | .call g as => s!"(call {treeToString g}{argsToString as})"
  partial def argsToString : Args → String
    | .nil => ""
    | .cons a r => " " ++ treeToString a ++ argsToString r
end

mutual
  partial def treeOfSexp : Sexp → Option Tree
    | .list [.atom "id", .atom n] => n.toNat?.map .ident
    | .list [.atom "int", .atom n] => n.toNat?.map .int
    | .list [.atom "bin", .atom op, l, r] => do
      let b ← binOpOfName op
      let l ← treeOfSexp l
      let r ← treeOfSexp r
      pure (.bin b l r)
    | .list [.atom "un", .atom op, e] => do
      let u ← unOpOfName op
      let e ← treeOfSexp e
      pure (.un u e)
    | .list [.atom "ref", e] => (treeOfSexp e).map (.ref false)
    | .list [.atom "refmut", e] => (treeOfSexp e).map (.ref true)
    | .list [.atom "deref", e] => (treeOfSexp e).map .deref
    | .list [.atom "try", e] => (treeOfSexp e).map .try_
    | .list [.atom "field", e, .atom n] => do
      let e ← treeOfSexp e
      let n ← n.toNat?
      pure (.field e n)
    | .list [.atom "index", e, i] => do
      let e ← treeOfSexp e
      let i ← treeOfSexp i
      pure (.index e i)
    | .list [.atom "cast", e, v] => do
      let e ← treeOfSexp e
      let v ← treeOfSexp v
      pure (.cast e v)
    | .list (.atom "call" :: g :: as) => do
      let g ← treeOfSexp g
      let as ← argsOfSexps as
      pure (.call g as)
    | _ => none
  partial def argsOfSexps : List Sexp → Option Args
    | [] => some .nil
    | a :: r => do
      let a ← treeOfSexp a
      let r ← argsOfSexps r
      pure (.cons a r)
end

def tokToString : Tok → String
  | .ident n => s!"Ident:{n}"
  | .int n => s!"Int:{n}"
  | t => t.kind.name

def fixedToks : List Tok :=
  binOps.map .bop ++ [.bang, .caret, .mut, .dot, .try_, .lparen, .rparen, .lbrack, .rbrack, .comma, .equals]

def tokOfString (s : String) : Option Tok :=
  match s.splitOn ":" with
  | ["Ident", n] => n.toNat?.map .ident
  | ["Int", n] => n.toNat?.map .int
  | [k] => fixedToks.find? (fun t => t.kind.name = k)
  | _ => none

def toksOfStrings : List String → Option (List Tok)
  | [] => some []
  | s :: r => do
    let t ← tokOfString s
    let r ← toksOfStrings r
    pure (t :: r)

mutual
  partial def treeHash : Tree → Nat
    | .ident n => 3 + n
    | .int n => 5 + 2 * n
    | .bin b l r => (7 + 11 * (binOps.idxOf b) + 31 * treeHash l + 17 * treeHash r) % 1000003
    | .un u e => (13 + 3 * (unOpName u).length + 29 * treeHash e) % 1000003
    | .ref m e => (19 + (if m then 1 else 0) + 37 * treeHash e) % 1000003
    | .deref e => (23 + 41 * treeHash e) % 1000003
    | .try_ e => (27 + 43 * treeHash e) % 1000003
    | .field e n => (33 + n + 47 * treeHash e) % 1000003
    | .index e i => (39 + 53 * treeHash e + 59 * treeHash i) % 1000003
    | .cast e v => (45 + 61 * treeHash e + 67 * treeHash v) % 1000003
    | .call g as => (51 + 71 * treeHash g + 73 * argsHash as) % 1000003
  partial def argsHash : Args → Nat
    | .nil => 1
    | .cons a r => (2 + 79 * treeHash a + 83 * argsHash r) % 1000003
end

def ctxCode : Ctx → Nat
  | .expr m => m
  | .preOp false => 20
  | .preOp true => 21
  | .postOp => 22

/-- seeded choice of 0, 1 or 2 redundant parenthesis pairs per (context, subtree) -/
def hashDeco (seed : Nat) (c : Ctx) (t : Tree) : Nat :=
  let h := (treeHash t * 31 + ctxCode c * 101 + seed * 7919) % 7
  if h < 3 then 0 else if h < 6 then 1 else 2

def decoOf (mode : String) : Option (Ctx → Tree → Nat) :=
  if mode = "min" then some (fun _ _ => 0)
  else if mode = "full" then some (fun _ t => match t with | .ident _ => 0 | .int _ => 0 | _ => 1)
  else match mode.splitOn ":" with
    | ["hash", s] => s.toNat?.map hashDeco
    | _ => none

end C24

/-- `print <mode> <sexp…>` → token names; `parse <tok>*` → tree or `none`;
`parseraw <tok|WS>*` → tree or `none` (trivia-level model);
`table` → the regenerated binding-power table -/
def c24 (args : List String) : String :=
  match args with
  | "print" :: mode :: rest =>
    match C24.decoOf mode, (parseSexp (" ".intercalate rest)).bind C24.treeOfSexp with
    | some d, some t => " ".intercalate ((printWith d t).map C24.tokToString)
    | _, _ => "bad-op"
  | "parse" :: toks =>
    match C24.toksOfStrings toks with
    | some ts =>
      match parse ts with
      | some t => C24.treeToString t
      | none => "none"
    | none => "bad-op"
  | "parseraw" :: toks =>
    -- tokens as for `parse`, plus `WS` for a run of trivia
    let rec go : List String → Option (List RawTok)
      | [] => some []
      | "WS" :: r => (go r).map (RawTok.ws :: ·)
      | s :: r => do
        let t ← C24.tokOfString s
        let r ← go r
        pure (RawTok.tok t :: r)
    match go toks with
    | some raw =>
      match parseRaw raw with
      | .ok t => C24.treeToString t
      | .reject => "none"
    | none => "bad-op"
  | ["table"] =>
    " ".intercalate (binaryTable.map fun (k, l, r) => s!"{k.name}:{l}:{r}")
  | _ => "bad-op"

end CapyV.Driver
