import CapyV.Model.Abi
import CapyV.Spec.SysV
import CapyV.Driver.TyCodec
/-! Line protocol of C19 (trusted glue).

* `C19 sig <ret> | <p0> | <p1> …`  → `<FnAbi of the model (FIX.patch applied)> ; <Cranelift assignment of it> ; <psABI assignment>`
* `C19 sig0 …` the same with the classifier of the pinned tree (function pointers NO_CLASS)
* `C19 classify <ty>` → `<model classes> ; <psABI classes>`
* `C19 cast <ty>` → `<split_aggregate component types> ; size ; slot ; accesses`
-/
namespace CapyV.Driver
open CapyV CapyV.Abi

def c19IrName : IrTy → String
  | .i8 => "i8" | .i16 => "i16" | .i32 => "i32" | .i64 => "i64" | .i128 => "i128"
  | .f32 => "f32" | .f64 => "f64"

def c19PmStr : PassMode → String
  | .cast tys => "cast[" ++ ",".intercalate (tys.map c19IrName) ++ "]"
  | .direct ty => "direct(" ++ c19IrName ty ++ ")"
  | .indirect (some n) => s!"indirect({n})"
  | .indirect none => "indirect(-)"

def c19AbiStr : Option FnAbi → String
  | none => "PANIC"
  | some a =>
    let r := match a.ret with
      | none => "none"
      | some pm => c19PmStr pm
    "ret=" ++ r ++ " args=[" ++ " ".intercalate (a.args.map fun (pm, i) => s!"{c19PmStr pm}@{i}") ++ "]"

def locStrA : Abi.Loc → String
  | .gpr n => s!"g{n}" | .xmm n => s!"x{n}" | .stack n => s!"s{n}"
def locStrS : SysV.Loc → String
  | .gpr n => s!"g{n}" | .xmm n => s!"x{n}" | .stack n => s!"s{n}"

def c19ArgsStr (f : α → String) (l : List (Nat × List α)) : String :=
  "[" ++ " ".intercalate (l.map fun (i, ls) => s!"{i}:" ++ ",".intercalate (ls.map f)) ++ "]"

def assignStrA : Option Abi.Assignment → String
  | none => "PANIC"
  | some a =>
    let r := match a.ret with
      | .none => "none" | .sret => "sret"
      | .regs l => "regs[" ++ ",".intercalate (l.map locStrA) ++ "]"
    "ret=" ++ r ++ " args=" ++ c19ArgsStr locStrA a.args

def assignStrS (a : SysV.Assignment) : String :=
  let r := match a.ret with
    | .none => "none" | .sret => "sret"
    | .regs l => "regs[" ++ ",".intercalate (l.map locStrS) ++ "]"
  "ret=" ++ r ++ " args=" ++ c19ArgsStr locStrS a.args

def c19ClsStr : Class → String
  | .int => "I" | .sse => "S" | .sseUp => "U" | .noClass => "N"
def pclsStr : SysV.PClass → String
  | .integer => "I" | .sse => "S" | .noClass => "N" | .memory => "M"

def c19SigLine (fix : Bool) (tys : List Ty) : String :=
  match tys with
  | [] => "bad-op"
  | ret :: params =>
    let abi := fnTyToAbiG fix 64 params ret
    let specRet := if ret.isZeroSized then none else some ret
    c19AbiStr abi ++ " ; " ++ assignStrA (abi.map clAssign) ++ " ; " ++ assignStrS (SysV.assign params specRet)

def c19ParseTys (rest : List String) : Option (List Ty) :=
  (splitBar (" ".intercalate rest)).mapM parseTy

def c19 (args : List String) : String :=
  match args with
  | "sig" :: rest => match c19ParseTys rest with
    | some tys => c19SigLine true tys
    | none => "bad-op"
  | "sig0" :: rest => match c19ParseTys rest with
    | some tys => c19SigLine false tys
    | none => "bad-op"
  | "classify" :: rest =>
    match parseTy (" ".intercalate rest) with
    | some t =>
      let m := match classifyArg 64 t with
        | .memory => "MEMORY" | .panic => "PANIC"
        | .classes cls => "".intercalate (cls.map c19ClsStr)
      let s := match SysV.classify t with
        | none => "MEMORY"
        | some cs => "".intercalate (cs.map pclsStr)
      m ++ " ; " ++ s
    | none => "bad-op"
  | "cast" :: rest =>
    match parseTy (" ".intercalate rest) with
    | some t =>
      match classifyArg 64 t with
      | .classes cls =>
        match splitAggregate 64 t cls with
        | some tys =>
          let acc := castAccesses tys 0
          ",".intercalate (tys.map c19IrName) ++ s!" ; size={Layout.size 64 t} slot={castSlotSize 64 t tys} oldslot={castSlotSizeOld 64 t tys} acc=" ++
            ",".intercalate (acc.map fun (o, w) => s!"{o}+{w}")
        | none => "PANIC"
      | .memory => "MEMORY"
      | .panic => "PANIC"
    | none => "bad-op"
  | _ => "bad-op"

end CapyV.Driver
