import CapyV.Model.TypeId
import CapyV.Driver.TyCodec
import CapyV.Driver.C17
/-! Line protocol for C18 (trusted glue: parsing and printing only). -/
namespace CapyV.Driver
open CapyV CapyV.TypeId

def c18parseTys (s : String) : Option (List Ty) :=
  (splitBar s).foldr (fun x acc => match parseTy x, acc with
    | some t, some l => some (t :: l)
    | _, _ => none) (some [])

def c18b (b : Bool) : String := if b then "1" else "0"

/-- index of the first program type with this id (`#?`: id not among them) -/
def c18refOf (progIds : List Nat) (sub : Option Nat) : String :=
  match sub with
  | none => "#?"
  | some id =>
    match progIds.findIdx? (· == id) with
    | some j => s!"#{j}"
    | none => "#?"

def c18infoStr (progIds : List Nat) : Info → String
  | .int w s => s!"Int({w},{c18b s})"
  | .float w => s!"Float({w})"
  | .plain n => n
  | .rawPtr m => s!"Raw_Ptr({c18b m})"
  | .array n sub => s!"Array({n},{c18refOf progIds sub})"
  | .slice sub => s!"Slice({c18refOf progIds sub})"
  | .pointer sub m => s!"Pointer({c18refOf progIds sub},{c18b m})"
  | .distinct sub => s!"Distinct({c18refOf progIds sub})"
  | .struct ms => "Struct(" ++ ",".intercalate (ms.map fun (n, t, o) => s!"n{n}@{o}:{c18refOf progIds t}") ++ ")"
  | .enum vs off => s!"Enum({off};" ++ ",".intercalate (vs.map (c18refOf progIds)) ++ ")"
  | .variant sub d => s!"Variant({c18refOf progIds sub},{d})"
  | .optional sub nz off => s!"Optional({c18refOf progIds sub},{c18b nz},{off})"
  | .errorUnion e p off => s!"Error_Union({c18refOf progIds e},{c18refOf progIds p},{off})"
  | .unreachable => "UNREACHABLE"

def c18optNat : Option Nat → String
  | some n => toString n
  | none => "ABORT"

def c18 (args : List String) : String :=
  match args with
  | "ids" :: pw :: rest =>
    match pw.toNat?, c18parseTys (" ".intercalate rest) with
    | some pw, some ts =>
      match typeIdsFrom pw ts St.empty with
      | some (ids, st) => s!"ids={natList ids} table={natList (st.ids.map (·.2))}"
      | none => "PANIC"
    | _, _ => "bad-op"
  | "program" :: pw :: rest =>
    match pw.toNat?, c18parseTys (" ".intercalate rest) with
    | some pw, some ts =>
      match typeIdsFrom pw ts St.empty with
      | some (ids, st) =>
        let rows := (ts.zip ids).map fun (t, id) =>
          let sz := metaSizeOf pw st id
          let al := metaAlignOf pw st id
          let stride := match sz, al with
            | some s, some a => toString (metaStride s a)
            | _, _ => "ABORT"
          s!"disc={decDisc id} size={c18optNat sz} align={c18optNat al} stride={stride} info={c18infoStr ids (infoOf pw st t id)}"
        let eqs := ids.map fun a => String.join (ids.map fun b => c18b (a == b))
        " ;; ".intercalate rows ++ " ## " ++ " ".intercalate eqs
      | none => "PANIC"
    | _, _ => "bad-op"
  | ["simple", d, s, a, sg] =>
    match d.toNat?, s.toNat?, a.toNat? with
    | some d, some s, some a =>
      match simpleIdWithAlign d s a (sg == "1") with
      | some id => s!"{id} {decDisc id} {decSize id} {decAlign id} {c18b (decSign id)}"
      | none => "PANIC"
    | _, _, _ => "bad-op"
  | _ => "bad-op"

end CapyV.Driver
