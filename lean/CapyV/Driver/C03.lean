import CapyV.Spec.Defer
import CapyV.Driver.Util
namespace CapyV.Driver
open CapyV.Defer

mutual
partial def stmtOfSexp : Sexp → Option Stmt
  | .list [.atom "print", .atom c] => c.toNat?.map .print
  -- `(defer 7)` = `defer print(7)`; `(defer <stmt> ...)` = `defer { ... }`
  | .list [.atom "defer", .atom c] => c.toNat?.map Stmt.deferP
  | .list (.atom "defer" :: body) => do some (.defer (← stmtsOfSexp body))
  | .list (.atom "block" :: .atom l :: body) => do
      let lab : Option Nat := if l = "-" then none else l.toNat?
      some (.block lab (← stmtsOfSexp body))
  | .list (.atom "loop" :: .atom l :: body) => do some (.loop (← l.toNat?) (← stmtsOfSexp body))
  -- `(loopc <label> (<cond stmt> ...) (<body stmt> ...))` = `label: while { cond; ? } { body }`
  | .list [.atom "loopc", .atom l, .list cond, .list body] => do
      some (.loopC (← l.toNat?) (← stmtsOfSexp cond) (← stmtsOfSexp body))
  | .list (.atom "if" :: body) => do some (.ifS (← stmtsOfSexp body))
  | .list [.atom "brk", .atom l] => l.toNat?.map .brk
  | .list [.atom "cont", .atom l] => l.toNat?.map .cont
  | .list [.atom "try", .atom l] => l.toNat?.map .tryS
  | _ => none
partial def stmtsOfSexp : List Sexp → Option Stmts
  | [] => some .nil
  | s :: rest => do some (.cons (← stmtOfSexp s) (← stmtsOfSexp rest))
end

def traceStr (l : List Nat) : String := ",".intercalate (l.map toString)

/-- `run <fuel> <oracle bits e.g. 1011 or -> <(stmt ...)>` →
`compiled=<trace>|PANIC spec=<trace>` -/
def c03 (args : List String) : String :=
  match args with
  | "run" :: fuel :: bits :: rest =>
    match fuel.toNat?, parseSexp (" ".intercalate rest) with
    | some fuel, some (.list body) =>
      match stmtsOfSexp body with
      | some p =>
        let oracle := if bits = "-" then [] else bits.toList.map (· == '1')
        let c := match runCompiled fuel p oracle with
          | some t => traceStr t
          | none => "PANIC"
        s!"compiled={c} spec={traceStr (runSpec fuel p oracle)}"
      | none => "bad-op"
    | _, _ => "bad-op"
  | _ => "bad-op"

end CapyV.Driver
