import CapyV.Model.Gate
import CapyV.Driver.Util
namespace CapyV.Driver
open CapyV.Gate

def resultName : Result → String
  | .rejected => "rejected" | .assertPanic => "assertPanic" | .entryPointError => "entryPointError"
  | .codegenErrorExit0 => "codegenErrorExit0" | .objectOnlyLinkFailed => "objectOnlyLinkFailed"
  | .objectOnly => "objectOnly" | .built => "built"

/-- `gate <frontErrors> <anyUnsafe> <mainCount> <codegenErr> <linkFail> <noExec>` -/
def c07 (args : List String) : String :=
  match args with
  | ["gate", fe, au, mc, ce, lf, ne] =>
    match mc.toNat? with
    | some mc => resultName (gate ⟨fe == "1", au == "1", mc, ce == "1", lf == "1", ne == "1"⟩)
    | none => "bad-op"
  | _ => "bad-op"

end CapyV.Driver
