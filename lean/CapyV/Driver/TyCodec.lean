import CapyV.Model.Ty
import CapyV.Driver.Util
/-! S-expression → `Ty` (wire format written by `harness/src/ty.rs`). Trusted glue. -/
namespace CapyV.Driver
open CapyV

def atomNat? : Sexp → Option Nat
  | .atom s => s.toNat?
  | _ => none

def atomBool? : Sexp → Option Bool
  | .atom "1" => some true
  | .atom "0" => some false
  | _ => none

mutual
partial def tyOfSexp : Sexp → Option Ty
  | .atom "nyr" => some .notYetResolved
  | .atom "unk" => some .unknown
  | .atom "bool" => some .bool
  | .atom "str" => some .string
  | .atom "char" => some .char
  | .atom "type" => some .type
  | .atom "any" => some .any
  | .atom "rawslice" => some .rawSlice
  | .atom "nil" => some .nil
  | .atom "void" => some .void
  | .atom "jumps" => some .alwaysJumps
  | .list [.atom "i", w] => (atomNat? w).map .iint
  | .list [.atom "u", w] => (atomNat? w).map .uint
  | .list [.atom "f", w] => (atomNat? w).map .float
  | .list [.atom "aarr", n, t] => do some (.anonArray (← atomNat? n) (← tyOfSexp t))
  | .list [.atom "arr", n, t] => do some (.concreteArray (← atomNat? n) (← tyOfSexp t))
  | .list [.atom "slice", t] => do some (.slice (← tyOfSexp t))
  | .list [.atom "ptr", m, t] => do some (.pointer (← atomBool? m) (← tyOfSexp t))
  | .list [.atom "dist", u, t] => do some (.distinct (← atomNat? u) (← tyOfSexp t))
  | .list [.atom "rawptr", m] => do some (.rawPtr (← atomBool? m))
  | .list [.atom "file", n] => do some (.file (← atomNat? n))
  | .list [.atom "npf", n] => do some (.naivePolyFn (← atomNat? n))
  | .list [.atom "cfn", .list ps, r, l] => do
      some (.concreteFn (← paramsOfSexp ps) (← tyOfSexp r) (← atomNat? l))
  | .list [.atom "fnptr", .list ps, r] => do some (.fnPointer (← paramsOfSexp ps) (← tyOfSexp r))
  | .list (.atom "astruct" :: ms) => do some (.anonStruct (← membersOfSexp ms))
  | .list (.atom "struct" :: u :: ms) => do some (.concreteStruct (← atomNat? u) (← membersOfSexp ms))
  | .list (.atom "enum" :: u :: vs) => do some (.enum (← atomNat? u) (← tysOfSexp vs))
  | .list [.atom "variant", eu, n, u, t, d] => do
      some (.enumVariant (← atomNat? eu) (← atomNat? n) (← atomNat? u) (← tyOfSexp t) (← atomNat? d))
  | .list [.atom "opt", t] => do some (.optional (← tyOfSexp t))
  | .list [.atom "eu", e, p] => do some (.errorUnion (← tyOfSexp e) (← tyOfSexp p))
  | _ => none
partial def membersOfSexp : List Sexp → Option Members
  | [] => some .nil
  | .list [n, t] :: rest => do some (.cons (← atomNat? n) (← tyOfSexp t) (← membersOfSexp rest))
  | _ => none
partial def paramsOfSexp : List Sexp → Option Params
  | [] => some .nil
  | .list [.atom "p", t, c, v, i] :: rest => do
      let c' : Option Nat := match c with
        | .atom s => s.toNat?
        | _ => none
      some (.cons (← tyOfSexp t) c' (← atomBool? v) (← atomBool? i) (← paramsOfSexp rest))
  | _ => none
partial def tysOfSexp : List Sexp → Option Tys
  | [] => some .nil
  | t :: rest => do some (.cons (← tyOfSexp t) (← tysOfSexp rest))
end

def parseTy (s : String) : Option Ty := (parseSexp s).bind tyOfSexp

/-- split "a | b | c" into sexp strings -/
def splitBar (s : String) : List String :=
  (s.splitOn "|").map (·.trimAscii.toString)

end CapyV.Driver
