import CapyV.Model.Layout
import CapyV.Driver.TyCodec
namespace CapyV.Driver
open CapyV CapyV.Layout

def natList (l : List Nat) : String := "[" ++ ",".intercalate (l.map toString) ++ "]"

def layoutLine (pw : Nat) (t : Ty) : String :=
  let offs := match structOffsetsOf pw t with
    | some l => natList l
    | none => "-"
  let disc := match discriminantOffsetOf pw t with
    | some d => toString d
    | none => "-"
  s!"{size pw t} {align pw t} {strideOf pw t} {offs} {disc}"

/-- `layout <pw> <ty-sexp>` → `size align stride offsets|- disc|-` -/
def c17 (args : List String) : String :=
  match args with
  | "layout" :: pw :: rest =>
    match pw.toNat?, parseTy (" ".intercalate rest) with
    | some pw, some t => layoutLine pw t
    | _, _ => "bad-op"
  | _ => "bad-op"

end CapyV.Driver
