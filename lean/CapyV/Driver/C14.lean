import CapyV.Spec.Mutability
import CapyV.Driver.Util
namespace CapyV.Driver
open CapyV.Mutability

partial def tyOfSexp14 : Sexp → Option Ty
  | .atom "i" => some .int
  | .atom "f" => some .file
  | .atom "x" => some .other
  | .list [.atom "p", .atom m, t] => do some (.ptr (m == "1") (← tyOfSexp14 t))
  | .list [.atom "a", t] => do some (.arr (← tyOfSexp14 t))
  | .list [.atom "o", t] => do some (.opt (← tyOfSexp14 t))
  | .list [.atom "s", .atom n] => n.toNat?.map .struct
  | _ => none

partial def exprOfSexp14 : Sexp → Option Expr
  | .atom "missing" => some .missing
  | .list [.atom "al", t] => do some (.arrayLit (← tyOfSexp14 t))
  | .list [.atom "sl", t] => do some (.structLit (← tyOfSexp14 t))
  | .list [.atom "ref", .atom m, e] => do some (.ref (m == "1") (← exprOfSexp14 e))
  | .list [.atom "deref", e] => do some (.deref (← exprOfSexp14 e))
  | .list [.atom "index", e] => do some (.index (← exprOfSexp14 e))
  | .list [.atom "block", e] => do some (.blockTail (← exprOfSexp14 e))
  | .list [.atom "loc", .atom m, t, e] => do
      some (.loc (m == "1") (← tyOfSexp14 t) (← exprOfSexp14 e))
  | .list [.atom "locn", .atom m, t] => do some (.locNoInit (m == "1") (← tyOfSexp14 t))
  | .list [.atom "param", t] => do some (.param (← tyOfSexp14 t))
  | .list [.atom "global", t] => do some (.global (← tyOfSexp14 t))
  | .list [.atom "member", e, t] => do some (.member (← exprOfSexp14 e) (← tyOfSexp14 t))
  | .list [.atom "call", t] => do some (.call (← tyOfSexp14 t))
  | .list [.atom "cast", t] => do some (.cast (← tyOfSexp14 t))
  | .list [.atom "paren", e] => do some (.paren (← exprOfSexp14 e))
  | .list [.atom "unwrap", e] => do some (.unwrap (← exprOfSexp14 e))
  | .list [.atom "other", t] => do some (.other (← tyOfSexp14 t))
  | _ => none

def c14MutStr : Mut → String
  | .mutable => "Mutable"
  | .immutableBinding => "ImmutableBinding"
  | .notMutatingRefThroughDeref => "NotMutatingRefThroughDeref"
  | .immutableRef => "ImmutableRef"
  | .immutableParam a => if a then "ImmutableParam1" else "ImmutableParam0"
  | .immutableGlobal => "ImmutableGlobal"
  | .cannotMutateExpr => "CannotMutateExpr"

def c14RootStr : Root → String
  | .mutLocal => "mutLocal" | .immLocal => "immLocal" | .param => "param"
  | .global => "global" | .temp => "temp"

def c14VerdictStr : Verdict → String
  | .writable => "w" | .readonly => "r" | .unspecified => "u"

def c14Bit (b : Bool) : String := if b then "1" else "0"

/-- `gm <expr>` → `wt=. old_a=. old_r=. new_a=. new_r=. place=<root>:<hops> verdict=. sure=.`
(`_a`: the assignment call site, `_r`: the `^mut` call site) -/
def c14 (args : List String) : String :=
  match args with
  | "gm" :: rest =>
    match parseSexp (" ".intercalate rest) with
    | some sx =>
      match exprOfSexp14 sx with
      | some e =>
        let pl := place e
        let hops := if pl.hops.isEmpty then "-" else String.join (pl.hops.map c14Bit)
        s!"wt={c14Bit (typeOf e).isSome} old_a={c14MutStr (getMutability false e true false)} " ++
        s!"old_r={c14MutStr (getMutability false e false false)} " ++
        s!"new_a={c14MutStr (getMutability true e true false)} " ++
        s!"new_r={c14MutStr (getMutability true e false false)} " ++
        s!"place={c14RootStr pl.root}:{hops} verdict={c14VerdictStr pl.verdict} sure={c14Bit pl.surelyWritable}"
      | none => "bad-op"
    | none => "bad-op"
  | _ => "bad-op"

end CapyV.Driver
