import CapyV.Model.TyRel
import CapyV.Driver.TyCodec
/-! Driver ops shared by C12 and C13 (the type relations of `ty.rs`). Trusted glue. -/
namespace CapyV.Driver
open CapyV CapyV.Ty

def bit (b : Bool) : String := if b then "1" else "0"

mutual
/-- `Ty` → the S-expression written by `harness/src/ty.rs::sexp` (byte for byte). -/
partial def tyToSexp : Ty → String
  | .notYetResolved => "nyr"
  | .unknown => "unk"
  | .iint w => s!"(i {w})"
  | .uint w => s!"(u {w})"
  | .float w => s!"(f {w})"
  | .bool => "bool"
  | .string => "str"
  | .char => "char"
  | .anonArray n t => s!"(aarr {n} {tyToSexp t})"
  | .concreteArray n t => s!"(arr {n} {tyToSexp t})"
  | .slice t => s!"(slice {tyToSexp t})"
  | .pointer m t => s!"(ptr {bit m} {tyToSexp t})"
  | .distinct u t => s!"(dist {u} {tyToSexp t})"
  | .type => "type"
  | .any => "any"
  | .rawPtr m => s!"(rawptr {bit m})"
  | .rawSlice => "rawslice"
  | .file n => s!"(file {n})"
  | .naivePolyFn n => s!"(npf {n})"
  | .concreteFn ps r l => s!"(cfn ({paramsToSexp ps}) {tyToSexp r} {l})"
  | .fnPointer ps r => s!"(fnptr ({paramsToSexp ps}) {tyToSexp r})"
  | .anonStruct ms => s!"(astruct{membersToSexp ms})"
  | .concreteStruct u ms => s!"(struct {u}{membersToSexp ms})"
  | .enum u vs => s!"(enum {u}{tysToSexp vs})"
  | .enumVariant eu n u t d => s!"(variant {eu} {n} {u} {tyToSexp t} {d})"
  | .nil => "nil"
  | .optional t => s!"(opt {tyToSexp t})"
  | .errorUnion e p => s!"(eu {tyToSexp e} {tyToSexp p})"
  | .void => "void"
  | .alwaysJumps => "jumps"
partial def membersToSexp : Members → String
  | .nil => ""
  | .cons n t r => s!" ({n} {tyToSexp t})" ++ membersToSexp r
partial def paramsToSexp : Params → String
  | .nil => ""
  | .cons t c v i r =>
    let c' := match c with
      | some k => toString k
      | none => "-1"
    let rest := match r with
      | .nil => ""
      | _ => " " ++ paramsToSexp r
    s!"(p {tyToSexp t} {c'} {bit v} {bit i})" ++ rest
partial def tysToSexp : Tys → String
  | .nil => ""
  | .cons t r => s!" {tyToSexp t}" ++ tysToSexp r
end

/-- the explicit `ENUM_MAP`: the first listed enum with that uid -/
def enumTable (enums : List Ty) (uid : Nat) : Option Ty :=
  enums.find? fun e =>
    match e with
    | .enum u _ => u == uid
    | _ => false

def maxCode (tbl : Nat → Option Ty) (a b : Ty) : String :=
  match Ty.maxTy tbl a b with
  | .panic => "P"
  | .ok none => "N"
  | .ok (some m) => if m = a then "A" else if m = b then "B" else tyToSexp m

/-- `<fit><cast><weak><fe0><fe1><sem><mightBeWeak a><isZeroSized a> <max>` -/
def relCode (tbl : Nat → Option Ty) (a b : Ty) : String :=
  bit (canFitInto a b) ++ bit (canCastTo a b) ++ bit (isWeakReplaceableBy a b)
    ++ bit (isFuncEquiv a b false) ++ bit (isFuncEquiv a b true) ++ bit (hasSemanticsOf a b)
    ++ bit a.mightBeWeak ++ bit a.isZeroSized ++ " " ++ maxCode tbl a b

def parseTys (s : String) : Option (List Ty) :=
  if s.trimAscii.toString = "" then some [] else (splitBar s).mapM parseTy

/-- split on a separator character into exactly one or two parts -/
def splitTwo (s : String) (sep : String) : String × String :=
  match s.splitOn sep with
  | [a] => (a, "")
  | [a, b] => (a, b)
  | _ => ("", "")

/--
Every request ends with ` @ <enum> | <enum> ...` (the explicit `ENUM_MAP`).
* `rel <a> | <b> @ …` → `relCode a b`
* `cross <a1> | … | <an> # <b1> | … | <bm> @ …` → `relCode ai bj` for all i, j (row major), `;`-separated
* `max3 <a> | <b> | <c> @ …` → `max (max a b) c` as `P`/`N`/sexp
-/
def c12 (args : List String) : String :=
  match args with
  | op :: rest =>
    let (main, es) := splitTwo (" ".intercalate rest) "@"
    let (ls, rs) := splitTwo main "#"
    match parseTys ls, parseTys rs, parseTys es with
    | some tys, some cols, some enums =>
      let tbl := enumTable enums
      match op, tys with
      | "rel", [a, b] => relCode tbl a b
      | "cross", _ =>
        ";".intercalate (tys.flatMap fun a => cols.map fun b => relCode tbl a b)
      | "max3", [a, b, c] =>
        match Ty.maxTy tbl a b with
        | .panic => "P"
        | .ok none => "N"
        | .ok (some m) =>
          match Ty.maxTy tbl m c with
          | .panic => "P"
          | .ok none => "N"
          | .ok (some r) => tyToSexp r
      | _, _ => "bad-op"
    | _, _, _ => "bad-parse"
  | _ => "bad-op"

end CapyV.Driver
