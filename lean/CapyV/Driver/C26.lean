import CapyV.Model.Topo
import CapyV.Model.Sched
import CapyV.Spec.Sched
import CapyV.Driver.Util
namespace CapyV.Driver
open CapyV.Topo CapyV.Sched

namespace C26

def nums (s : String) : Option (List Nat) :=
  if s = "" then some [] else (s.splitOn ".").mapM String.toNat?

def fmtList (l : List Nat) : String := "[" ++ ",".intercalate (l.map toString) ++ "]"
def fmtBool (b : Bool) : String := if b then "t" else "f"
def fmtPeek : Peek → String
  | .ok l => "ok" ++ fmtList l
  | .cycle => "cyc"
def fmtPeek1 : Option (Option Nat) → String
  | none => "none"
  | some (some k) => s!"ok{k}"
  | some none => "cyc"
def fmtOptList : Option (List Nat) → String
  | none => "none"
  | some l => "some" ++ fmtList l
def fmtOptNat : Option Nat → String
  | none => "none"
  | some k => s!"some{k}"
def fmtState (s : Topo) : String :=
  "{" ++ ";".intercalate (s.map fun e => s!"{e.1}:{e.2.numChildren}:{fmtList e.2.parents}") ++ "}"

/-- one call: `some (state', printed result)`, `none` = underflow, or bad token -/
def call (s : Topo) (tok : String) : Except String (Option (Topo × String)) :=
  match tok with
  | "pa" => .ok (some (s, fmtPeek (peekAll s)))
  | "pk" => .ok (some (s, fmtPeek1 (peek s)))
  | "ic" => .ok (some (s, fmtBool (inCycle s)))
  | "pc" => .ok (some (s, fmtOptList (peekAllCyclic s)))
  | "pkc" => .ok (some (s, fmtOptNat (peekCyclic s)))
  | "ln" => .ok (some (s, toString s.length))
  | "em" => .ok (some (s, fmtBool s.isEmpty))
  | "cl" => .ok (some ([], "-"))
  | "po" => .ok ((popAll s).map fun r => (r.1, fmtPeek r.2))
  | "pp" => .ok ((pop s).map fun r => (r.1, fmtPeek1 r.2))
  | "poc" => .ok ((popCyclic s).map fun r => (r.1, fmtOptNat r.2))
  | "pac" => let r := popAllCyclic s; .ok (some (r.1, fmtOptList r.2))
  | _ =>
    match tok.toList with
    | c :: rest =>
      match nums (String.ofList rest) with
      | none => .error "bad-op"
      | some ns =>
        match c, ns with
        | 'i', [x] => let r := insert s x; .ok (some (r.1, fmtBool r.2))
        | 'd', [p, k] => .ok (some (insertDep s p k, "-"))
        | 'D', p :: cs => .ok (some (insertDeps s p cs, "-"))
        | 'e', xs => .ok (some (extend s xs, "-"))
        | 'r', [x] => .ok ((remove s x).map fun r => (r.1, fmtBool r.2))
        | _, _ => .error "bad-op"
    | [] => .error "bad-op"

def runToks (s : Topo) (acc : List String) : List String → String
  | [] => " ".intercalate acc.reverse
  | t :: ts =>
    match call s t with
    | .error e => e
    | .ok none => " ".intercalate ("UNDERFLOW" :: acc).reverse
    | .ok (some (s', r)) => runToks s' (s!"{r}@{fmtState s'}" :: acc) ts

/-- `{k:n:[p,p];k:n:[]}` → state (inverse of `fmtState`) -/
def parseState (str : String) : Option Topo :=
  let inner := ((str.drop 1).dropRight 1).toString
  if inner = "" then some [] else
  (inner.splitOn ";").mapM fun ent =>
    match ent.splitOn ":" with
    | [k, n, ps] =>
      let psInner := ((ps.drop 1).dropRight 1).toString
      match k.toNat?, n.toNat?, (if psInner = "" then some [] else (psInner.splitOn ",").mapM String.toNat?) with
      | some k, some n, some ps => some (k, ⟨n, ps⟩)
      | _, _, _ => none
    | _ => none

/-- every token applied independently to the same state -/
def fanToks (s : Topo) (toks : List String) : String :=
  " ".intercalate (toks.map fun t =>
    match call s t with
    | .error e => e
    | .ok none => "UNDERFLOW"
    | .ok (some (s', r)) => s!"{r}@{fmtState s'}")

def parseOp (tok : String) : Option Op :=
  match tok.toList with
  | c :: rest =>
    match nums (String.ofList rest) with
    | none => none
    | some ns =>
      match c, ns with
      | 'i', [x] => some (.insert x)
      | 'd', [p, k] => some (.dep p k)
      | 'D', p :: cs => some (.deps p cs)
      | 'e', xs => some (.extend xs)
      | 'r', [x] => some (.remove x)
      | _, _ => none
  | [] => none

open CapyV.SchedSpec in
def specToks (a : Abs) (acc : List String) : List String → String
  | [] => " ".intercalate acc.reverse
  | t :: ts =>
    match parseOp t with
    | none => "bad-op"
    | some op =>
      if legal a op then
        let a' := step a op
        specToks a' (s!"L@{fmtList (readyList a')}@{fmtBool (cyclic a')}@{fmtList a'.pend}" :: acc) ts
      else " ".intercalate (s!"ILLEGAL" :: acc).reverse

def parseDecision (s : String) : Option (Nat × Decision) :=
  match s.splitOn "=" with
  | [x, d] =>
    match x.toNat?, d.toList with
    | some x, ['c'] => some (x, .complete)
    | some x, 'n' :: rest => (nums (String.ofList rest)).map fun ds => (x, .needs ds)
    | _, _ => none
  | _ => none

def parseRound (s : String) : Option RoundScript :=
  if s = "-" then some [] else (s.splitOn ",").mapM parseDecision

def fmtResult : Result → String
  | .finished n => s!"finished:{n}"
  | .more s => s!"more:{fmtState s}"
  | .badScript n => s!"bad-script:{n}"
  | .panicUnwrap n => s!"PANIC-unwrap:{n}"
  | .panicAssert n => s!"PANIC-assert:{n}"
  | .panicUnderflow n => s!"UNDERFLOW:{n}"

end C26

open C26 in
/-- `run <tok>*` → per call `result@state`; `spec <tok>*` → per mutating call
`L@ready@cyclic@pending` (or `ILLEGAL`); `finish <items> <round>*` → result and what each
round offered. -/
def c26 (args : List String) : String :=
  match args with
  | "run" :: toks => runToks [] [] toks
  | "from" :: st :: toks =>
    match parseState st with
    | some s => runToks s [] toks
    | none => "bad-op"
  | "fan" :: st :: toks =>
    match parseState st with
    | some s => fanToks s toks
    | none => "bad-op"
  | "spec" :: toks => specToks CapyV.SchedSpec.Abs.empty [] toks
  | "finish" :: items :: rounds =>
    match nums (if items = "-" then "" else items), rounds.mapM parseRound with
    | some xs, some rs =>
      let s0 := extend [] xs
      let off := if s0.isEmpty then [] else offers s0 rs
      fmtResult (finish xs rs) ++ " " ++
        " ".intercalate (off.map fun lc => fmtList lc.1 ++ (if lc.2 then "C" else "L"))
    | _, _ => "bad-op"
  | _ => "bad-op"

end CapyV.Driver
