import CapyV.Model.Mangle
import CapyV.Driver.Util
namespace CapyV.Driver
open CapyV.Mangle

namespace C27

def parseRoot : String → Option Root
  | "m" => some .mod
  | "c" => some .cwd
  | "o" => some .outside
  | _ => none

def parseComps (s : String) : Option (List (List Nat)) :=
  if s = "_" then some [] else (s.splitOn ",").mapM parseHexBytes

def parseBase (s : String) : Option Base :=
  match s.splitOn ":" with
  | ["g", h] => (parseHexBytes h).map .global
  | ["l", n] => n.toNat?.map fun i => .lambda i none
  | ["b", n, h] =>
    match n.toNat?, parseHexBytes h with
    | some i, some g => some (.lambda i (some g))
    | _, _ => none
  | _ => none

def parseGeneric (s : String) : Option (Option Nat) :=
  if s = "n" then some none else s.toNat?.map some

def parseExtra (s : String) : Option Extra :=
  match s.splitOn ":" with
  | ["f"] => some .code
  | ["z", n] => n.toNat?.map .comptime
  | ["d", n, h] =>
    match n.toNat?, parseHexBytes h with
    | some i, some d => some (.comptimeData i d)
    | _, _ => none
  | _ => none

def parseEntity : List String → Option Entity
  | [r, cs, b, g, x] =>
    match parseRoot r, parseComps cs, parseBase b, parseGeneric g, parseExtra x with
    | some r, some cs, some b, some g, some x =>
      some { file := { root := r, comps := cs }, base := b, generic := g, extra := x }
    | _, _, _, _, _ => none
  | _ => none

end C27

/-- `m <root> <comps> <base> <generic> <extra>` → `<hex|PANIC> <wf>`;
`internal <hex>` → hex; `digits <n>` → hex -/
def c27 (args : List String) : String :=
  match args with
  | "m" :: rest =>
    match C27.parseEntity rest with
    | some e =>
      let out := match mangle e with
        | some s => toHexBytes s
        | none => "PANIC"
      s!"{out} {if WF e then 1 else 0}"
    | none => "bad-op"
  | ["internal", h] =>
    match parseHexBytes h with
    | some n => toHexBytes (mangleInternal n)
    | none => "bad-op"
  | ["digits", n] =>
    match n.toNat? with
    | some n => toHexBytes (natDigits n)
    | none => "bad-op"
  | _ => "bad-op"

end CapyV.Driver
