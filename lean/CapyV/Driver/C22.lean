import CapyV.Model.Lexer
import CapyV.Spec.Lexer
import CapyV.Driver.Util
namespace CapyV.Driver
open CapyV CapyV.Tokens CapyV.Lexer

def decodeUtf8Hex (hex : String) : Option (List Char) :=
  match parseHexBytes hex with
  | none => none
  | some bs =>
    match String.fromUTF8? (ByteArray.mk (bs.map UInt8.ofNat).toArray) with
    | some s => some s.toList
    | none => none

def faultName : Fault → String
  | .transmuteInvalid d => s!"PANIC transmute-invalid-discriminant {d}"
  | .debugAssertNames d => s!"PANIC debug-assert-names {d}"
  | .emptyMatch => "HANG empty-match"
  | .fuel => "MODEL-OUT-OF-FUEL"
  | .newAssert => "PANIC tokens-new-assert"
  | .index => "PANIC index"
  | .zipEq => "PANIC zip_eq"
  | .rangeOrder => "PANIC text-range-order"

def showTokens (t : Lexer.Tokens) : String :=
  let ks := if t.kinds.isEmpty then "-" else ",".intercalate (t.kinds.map TokenKind.toString)
  let ss := ",".intercalate (t.starts.map toString)
  s!"{ks} {ss}"

def showItems (xs : List (TokenKind × Nat × Nat)) : String :=
  if xs.isEmpty then "-" else
  ",".intercalate (xs.map fun (k, a, b) => s!"{k.toString}@{a}..{b}")

def parseKinds (s : String) : Option (List TokenKind) :=
  if s = "-" then some [] else (s.splitOn ",").mapM TokenKind.ofString?

def parseNats (s : String) : Option (List Nat) :=
  if s = "-" then some [] else (s.splitOn ",").mapM String.toNat?

def showCheck : CheckResult → String
  | .ok => "ok"
  | .fail l i => s!"fail {l} token={i}"

/-- ops:
* `lex <hex>`                         → `<kinds> <starts>` | fault
* `check <hex> <kinds> <starts>`      → `ok` | `fail <label> token=<i>` (the spec checker on given tokens)
* `both <hex> <kinds> <starts>`       → `<lex answer> | <check answer> | iter=<ok:n|fault> take_len=<ok:n|fault>`
* `iter <hex>` / `itertake <hex> <k>` / `iterfixed <hex>` → items or fault
* `kinds`                             → TokenKind names in discriminant order
* `lexerkinds`                        → LexerTokenKind names in discriminant order -/
def c22 (args : List String) : String :=
  match args with
  | ["lex", hex] =>
    match decodeUtf8Hex hex with
    | none => "bad-op"
    | some s =>
      match lex s with
      | .ok t => showTokens t
      | .error f => faultName f
  | ["check", hex, ks, ss] =>
    match decodeUtf8Hex hex, parseKinds ks, parseNats ss with
    | some s, some kinds, some starts => showCheck (checkLex s ⟨kinds, starts⟩)
    | _, _, _ => "bad-op"
  | ["both", hex, ks, ss] =>
    match decodeUtf8Hex hex, parseKinds ks, parseNats ss with
    | some s, some kinds, some starts =>
      let m := match lex s with
        | .ok t => showTokens t
        | .error f => faultName f
      let it := match lex s with
        | .error f => faultName f
        | .ok t =>
          let full := match t.iterAll with
            | .ok xs => s!"ok:{xs.length}"
            | .error f => faultName f
          let part := match t.iterTake t.len with
            | .ok xs => s!"ok:{xs.length}"
            | .error f => faultName f
          s!"iter={full} take_len={part}"
      s!"{m} | {showCheck (checkLex s ⟨kinds, starts⟩)} | {it}"
    | _, _, _ => "bad-op"
  | ["iter", hex] =>
    match decodeUtf8Hex hex with
    | none => "bad-op"
    | some s =>
      match lex s with
      | .error f => faultName f
      | .ok t => match t.iterAll with
        | .ok xs => showItems xs
        | .error f => faultName f
  | ["itertake", hex, k] =>
    match decodeUtf8Hex hex, k.toNat? with
    | some s, some k =>
      match lex s with
      | .error f => faultName f
      | .ok t => match t.iterTake k with
        | .ok xs => showItems xs
        | .error f => faultName f
    | _, _ => "bad-op"
  | ["iterfixed", hex] =>
    match decodeUtf8Hex hex with
    | none => "bad-op"
    | some s =>
      match lex s with
      | .error f => faultName f
      | .ok t => match t.iterAll with
        | .ok xs => showItems xs
        | .error f => faultName f
  | ["kinds"] => ",".intercalate tokenKindNames
  | ["lexerkinds"] => ",".intercalate lexerKindNames
  | _ => "bad-op"

end CapyV.Driver
