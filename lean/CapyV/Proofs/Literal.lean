import CapyV.Model.Literal
/-! Helper lemmas for C09 (no Mathlib needed). -/
namespace CapyV.Literal
open CapyV.Generated

theorem toDigit_dec {c : Char} (h : isDecDigit c = true) : toDigit 10 c = some (digitVal c) := by
  simp only [isDecDigit, Bool.and_eq_true, decide_eq_true_eq] at h
  simp only [toDigit, digitVal]
  have h1 : 48 ≤ c.toNat ∧ c.toNat ≤ 57 := h
  simp only [h1, and_self, if_true]
  have : c.toNat - 48 < 10 := by omega
  simp [this]

theorem toDigit_hex {c : Char} (h : isHexDigit c = true) : toDigit 16 c = some (digitVal c) := by
  simp only [isHexDigit, Bool.or_eq_true, Bool.and_eq_true, decide_eq_true_eq] at h
  simp only [toDigit, digitVal]
  rcases h with (h | h) | h
  · have h1 : 48 ≤ c.toNat ∧ c.toNat ≤ 57 := h
    simp only [h1, and_self, if_true]
    have : c.toNat - 48 < 16 := by omega
    simp [this]
  · have h0 : ¬ (48 ≤ c.toNat ∧ c.toNat ≤ 57) := by omega
    have h1 : 97 ≤ c.toNat ∧ c.toNat ≤ 122 := by omega
    simp only [h0, h1, and_self, if_true, if_false]
    have : c.toNat - 97 + 10 < 16 := by omega
    simp [this]
  · have h0 : ¬ (48 ≤ c.toNat ∧ c.toNat ≤ 57) := by omega
    have h1 : ¬ (97 ≤ c.toNat ∧ c.toNat ≤ 122) := by omega
    have h2 : 65 ≤ c.toNat ∧ c.toNat ≤ 90 := by omega
    simp only [h0, h1, h2, and_self, if_true, if_false]
    have : c.toNat - 65 + 10 < 16 := by omega
    simp [this]

theorem toDigit_bin {c : Char} (h : isBinDigit c = true) : toDigit 2 c = some (digitVal c) := by
  simp only [isBinDigit, Bool.or_eq_true, decide_eq_true_eq] at h
  simp only [toDigit, digitVal]
  have h1 : 48 ≤ c.toNat ∧ c.toNat ≤ 57 := by omega
  simp only [h1, and_self, if_true]
  have : c.toNat - 48 < 2 := by omega
  simp [this]

/-- the checked digit loop computes positional notation, and fails exactly on overflow -/
theorem parseDigits_spec (radix bound : Nat) (hr : 1 ≤ radix) :
    ∀ (cs : List Char) (acc : Nat), acc < bound →
      (∀ c ∈ cs, toDigit radix c = some (digitVal c)) →
      parseDigits radix bound acc cs =
        if acc * radix ^ cs.length + positional radix (cs.map digitVal) < bound
        then some (acc * radix ^ cs.length + positional radix (cs.map digitVal)) else none := by
  intro cs
  induction cs with
  | nil => intro acc h _; simp [parseDigits, positional, h]
  | cons c cs ih =>
    intro acc hacc hd
    have hc : toDigit radix c = some (digitVal c) := hd c (by simp)
    have hcs : ∀ c ∈ cs, toDigit radix c = some (digitVal c) := fun x hx => hd x (by simp [hx])
    have hpow : 1 ≤ radix ^ cs.length := Nat.one_le_pow _ _ hr
    have hexp : acc * radix ^ (cs.length + 1) + (digitVal c * radix ^ cs.length + positional radix (cs.map digitVal))
        = (acc * radix + digitVal c) * radix ^ cs.length + positional radix (cs.map digitVal) := by
      rw [Nat.pow_succ, Nat.add_mul, Nat.mul_assoc, Nat.mul_comm (radix ^ cs.length) radix, Nat.add_assoc]
    have hge : acc * radix + digitVal c ≤ (acc * radix + digitVal c) * radix ^ cs.length :=
      Nat.le_mul_of_pos_right _ hpow
    simp only [parseDigits, hc, List.length_cons, List.map_cons, positional, List.length_map]
    rw [hexp]
    by_cases h1 : acc * radix < bound
    · by_cases h2 : acc * radix + digitVal c < bound
      · simp only [h1, h2, if_true]
        exact ih _ h2 hcs
      · simp only [h1, h2, if_true, if_false]
        have : ¬ ((acc * radix + digitVal c) * radix ^ cs.length + positional radix (cs.map digitVal) < bound) := by
          omega
        simp [this]
    · simp only [h1, if_false]
      have : ¬ ((acc * radix + digitVal c) * radix ^ cs.length + positional radix (cs.map digitVal) < bound) := by
        omega
      simp [this]

/-! ### decimal parts: separators, the split at `e` -/

/-- the characters of a decimal part that remain after `replace('_', "")` -/
def strip (m : List Char) : List Char := m.filter (· ≠ '_')

theorem isDecDigit_not_us {c : Char} (h : isDecDigit c = true) : c ≠ '_' := by
  intro hc; subst hc; revert h; decide

theorem isDecDigit_not_E {c : Char} (h : isDecDigit c = true) : isE c = false := by
  simp only [isDecDigit, Bool.and_eq_true, decide_eq_true_eq] at h
  simp only [isE, Bool.or_eq_false_iff, decide_eq_false_iff_not]
  constructor <;> (intro hc; subst hc; revert h; decide)

theorem isDecDigit_not_sign {c : Char} (h : isDecDigit c = true) : c ≠ '+' ∧ c ≠ '-' := by
  constructor <;> (intro hc; subst hc; revert h; decide)

theorem strip_all_digits : ∀ (cs : List Char), cs.all (fun c => isDecDigit c || c = '_') = true →
    ∀ c ∈ strip cs, isDecDigit c = true := by
  intro cs h c hc
  simp only [strip, List.mem_filter, decide_eq_true_eq] at hc
  have := (List.all_eq_true.mp h) c hc.1
  simp only [Bool.or_eq_true, decide_eq_true_eq] at this
  rcases this with h | h
  · exact h
  · exact absurd h (by simpa using hc.2)

/-- a decimal part, stripped: a digit followed by digits -/
theorem strip_decPart {m : List Char} (h : decPart m = true) :
    ∃ c cs, strip m = c :: cs ∧ isDecDigit c = true ∧ ∀ x ∈ cs, isDecDigit x = true := by
  cases m with
  | nil => simp [decPart] at h
  | cons c cs =>
    simp only [decPart, Bool.and_eq_true] at h
    refine ⟨c, strip cs, ?_, h.1, strip_all_digits cs h.2⟩
    simp [strip, isDecDigit_not_us h.1]

theorem untilE_noE : ∀ (b : List Char), (∀ c ∈ b, isE c = false) → untilE b = b := by
  intro b
  induction b with
  | nil => intro _; rfl
  | cons c cs ih =>
    intro h
    have hc : isE c = false := h c (by simp)
    simp [untilE, hc, ih (fun x hx => h x (by simp [hx]))]

theorem splitE_noE : ∀ (a : List Char), (∀ c ∈ a, isE c = false) → splitE a = (a, none) := by
  intro a
  induction a with
  | nil => intro _; rfl
  | cons c cs ih =>
    intro h
    have hc : isE c = false := h c (by simp)
    simp [splitE, hc, ih (fun x hx => h x (by simp [hx]))]

theorem splitE_append : ∀ (a : List Char) (e : Char) (b : List Char), (∀ c ∈ a, isE c = false) →
    isE e = true → (∀ c ∈ b, isE c = false) → splitE (a ++ e :: b) = (a, some b) := by
  intro a
  induction a with
  | nil => intro e b _ he hb; simp [splitE, he, untilE_noE b hb]
  | cons c cs ih =>
    intro e b h he hb
    have hc : isE c = false := h c (by simp)
    simp [splitE, hc, ih e b (fun x hx => h x (by simp [hx])) he hb]

/-- `parse::<uN>()` of a stripped decimal part: positional value, `none` exactly on overflow -/
theorem fromStrRadix_dec {m : List Char} (bound : Nat) (hb : 0 < bound) (h : decPart m = true) :
    fromStrRadix 10 bound (strip m) =
      if positional 10 (decDigits m) < bound then some (positional 10 (decDigits m)) else none := by
  obtain ⟨c, cs, hs, hc, hcs⟩ := strip_decPart h
  have hall : ∀ x ∈ c :: cs, toDigit 10 x = some (digitVal x) := by
    intro x hx
    rcases List.mem_cons.mp hx with rfl | hx
    · exact toDigit_dec hc
    · exact toDigit_dec (hcs x hx)
  have hsign := isDecDigit_not_sign hc
  have hdd : decDigits m = (c :: cs).map digitVal := by
    show (strip m).map digitVal = _
    rw [hs]
  have := parseDigits_spec 10 bound (by decide) (c :: cs) 0 hb hall
  rw [hs, hdd]
  simp only [fromStrRadix, hsign.1, hsign.2, false_or, false_and, if_false]
  simpa using this

theorem pow10_ge_U64 {k : Nat} (h : 20 ≤ k) : U64 ≤ 10 ^ k := by
  have h1 : (10:Nat) ^ 20 ≤ 10 ^ k := Nat.pow_le_pow_right (by decide) h
  have h2 : U64 ≤ 10 ^ 20 := by decide
  exact Nat.le_trans h2 h1

/-- the std contract of `10_u64.checked_pow`, against which `checkedPow10` is written -/
theorem checkedPow10_contract (e : Nat) :
    checkedPow10 e = if 10 ^ e < U64 then some (10 ^ e) else none := by
  unfold checkedPow10
  by_cases h : e ≤ 19
  · have : 10 ^ e < U64 := by
      have h1 : (10:Nat) ^ e ≤ 10 ^ 19 := Nat.pow_le_pow_right (by decide) h
      have h2 : 10 ^ 19 < U64 := by decide
      omega
    simp [h, this]
  · have : ¬ (10 ^ e < U64) := by
      have := pow10_ge_U64 (k := e) (by omega)
      omega
    simp [h, this]

/-- the checked arithmetic of the exponent branch, on numbers -/
theorem decExp_arith (M K : Nat) :
    (match (if M < U64 then some M else none : Option Nat) with
      | none => Lowered.outOfRange
      | some base =>
        if base = 0 then Lowered.ok 0 else
        match (if K < U32 then some K else none : Option Nat) with
        | none => Lowered.outOfRange
        | some e =>
          match checkedPow10 e with
          | none => Lowered.outOfRange
          | some p =>
            match checkedMul base p with
            | none => Lowered.outOfRange
            | some r => Lowered.ok r) =
      if M * 10 ^ K < U64 then Lowered.ok (M * 10 ^ K) else Lowered.outOfRange := by
  by_cases hM : M < U64
  · simp only [hM, if_true]
    by_cases hM00 : M = 0
    · subst hM00; simp [U64]
    simp only [hM00, if_false]
    by_cases hK : K < U32
    · simp only [hK, if_true, checkedPow10]
      by_cases hK19 : K ≤ 19
      · have hz : ¬ (20 ≤ K) := by omega
        simp only [hK19, if_true, checkedMul]
        by_cases hv : M * 10 ^ K < U64 <;> simp [hv, hz]
      · simp only [hK19, if_false]
        have hge := pow10_ge_U64 (k := K) (by omega)
        by_cases hM0 : M = 0
        · exact absurd hM0 hM00
        · have hpos : 1 ≤ M := by omega
          have : U64 ≤ M * 10 ^ K := Nat.le_trans hge (Nat.le_mul_of_pos_left _ hpos)
          have hv : ¬ (M * 10 ^ K < U64) := by omega
          simp [hM0, hv]
    · simp only [hK, if_false]
      have hK20 : 20 ≤ K := by simp only [U32] at hK; omega
      have hge := pow10_ge_U64 (k := K) hK20
      by_cases hM0 : M = 0
      · exact absurd hM0 hM00
      · have hpos : 1 ≤ M := by omega
        have : U64 ≤ M * 10 ^ K := Nat.le_trans hge (Nat.le_mul_of_pos_left _ hpos)
        have hv : ¬ (M * 10 ^ K < U64) := by omega
        simp [hM0, hv]
  · simp only [hM, if_false]
    have hM0 : M ≠ 0 := by simp only [U64] at hM; omega
    have hpow : 1 ≤ 10 ^ K := Nat.one_le_pow _ _ (by decide)
    have : M ≤ M * 10 ^ K := Nat.le_mul_of_pos_right _ hpow
    have hv : ¬ (M * 10 ^ K < U64) := by omega
    simp [hM0, hv]

/-- **the lowering, characterised**: on every well-formed spelling the lowering answers the
spelled value when it is below 2^64 and `OutOfRange` otherwise (since the `0eN` fix without
exception). It never panics. -/
theorem lowerInt_spec (s : Spelling) (hwf : s.wf = true) :
    lowerInt s.kind s.text =
      if value s < U64 then .ok (value s) else .outOfRange := by
  cases s with
  | dec m e =>
    cases e with
    | none =>
      have hm : decPart m = true := hwf
      obtain ⟨c, cs, hs, hc, hcs⟩ := strip_decPart hm
      have hnoE : ∀ x ∈ strip m, isE x = false := by
        intro x hx; rw [hs] at hx
        rcases List.mem_cons.mp hx with rfl | hx
        · exact isDecDigit_not_E hc
        · exact isDecDigit_not_E (hcs x hx)
      have h1 := fromStrRadix_dec U64 (by decide) hm
      simp only [Spelling.kind, Spelling.text, lowerInt, Spelling.zeroTimesHugePower, value]
      rw [show m.filter (· ≠ '_') = strip m from rfl, splitE_noE _ hnoE]
      simp only [h1]
      by_cases hv : positional 10 (decDigits m) < U64 <;> simp [hv]
    | some ux =>
      obtain ⟨up, x⟩ := ux
      have hwf' : decPart m = true ∧ decPart x = true := by
        simpa [Spelling.wf, Bool.and_eq_true] using hwf
      obtain ⟨hm, hx⟩ := hwf'
      obtain ⟨c, cs, hs, hc, hcs⟩ := strip_decPart hm
      obtain ⟨c', cs', hs', hc', hcs'⟩ := strip_decPart hx
      have hnoE : ∀ y ∈ strip m, isE y = false := by
        intro y hy; rw [hs] at hy
        rcases List.mem_cons.mp hy with rfl | hy
        · exact isDecDigit_not_E hc
        · exact isDecDigit_not_E (hcs y hy)
      have hnoE' : ∀ y ∈ strip x, isE y = false := by
        intro y hy; rw [hs'] at hy
        rcases List.mem_cons.mp hy with rfl | hy
        · exact isDecDigit_not_E hc'
        · exact isDecDigit_not_E (hcs' y hy)
      have hE : isE (if up then 'E' else 'e') = true := by cases up <;> decide
      have hEus : (if up then 'E' else 'e') ≠ '_' := by cases up <;> decide
      have hfilter : (m ++ (if up then 'E' else 'e') :: x).filter (· ≠ '_')
          = strip m ++ (if up then 'E' else 'e') :: strip x := by
        simp [strip, List.filter_append, hEus]
      have h1 := fromStrRadix_dec U64 (by decide) hm
      have h2 := fromStrRadix_dec U32 (by decide) hx
      simp only [Spelling.kind, Spelling.text, lowerInt, Spelling.zeroTimesHugePower, value]
      rw [hfilter, splitE_append _ _ _ hnoE hE hnoE']
      simp only [h1, h2]
      exact decExp_arith _ _
  | hex ds =>
    have hwf' : ds ≠ [] ∧ ∀ c ∈ ds, isHexDigit c = true := by
      simpa [Spelling.wf, Bool.and_eq_true, List.all_eq_true] using hwf
    obtain ⟨hne, hall⟩ := hwf'
    cases ds with
    | nil => exact absurd rfl hne
    | cons c cs =>
      have hd : ∀ x ∈ c :: cs, toDigit 16 x = some (digitVal x) := fun x hx => toDigit_hex (hall x hx)
      have hc := hall c (by simp)
      have hsign : c ≠ '+' ∧ c ≠ '-' := by
        constructor <;> (intro h; subst h; revert hc; decide)
      have h0 := parseDigits_spec 16 U64 (by decide) (c :: cs) 0 (by decide) hd
      have this : parseDigits 16 U64 0 (c :: cs) =
          if positional 16 (List.map digitVal (c :: cs)) < U64
          then some (positional 16 (List.map digitVal (c :: cs))) else none := by
        simpa using h0
      simp only [Spelling.kind, Spelling.text, lowerInt, stripPrefix, if_true, fromStrRadix,
        hsign.1, hsign.2, false_or, false_and, if_false, Spelling.zeroTimesHugePower, value, this]
      by_cases hv : positional 16 (digitVal c :: List.map digitVal cs) < U64 <;> simp [hv]
  | bin ds =>
    have hwf' : ds ≠ [] ∧ ∀ c ∈ ds, isBinDigit c = true := by
      simpa [Spelling.wf, Bool.and_eq_true, List.all_eq_true] using hwf
    obtain ⟨hne, hall⟩ := hwf'
    cases ds with
    | nil => exact absurd rfl hne
    | cons c cs =>
      have hd : ∀ x ∈ c :: cs, toDigit 2 x = some (digitVal x) := fun x hx => toDigit_bin (hall x hx)
      have hc := hall c (by simp)
      have hsign : c ≠ '+' ∧ c ≠ '-' := by
        constructor <;> (intro h; subst h; revert hc; decide)
      have h0 := parseDigits_spec 2 U64 (by decide) (c :: cs) 0 (by decide) hd
      have this : parseDigits 2 U64 0 (c :: cs) =
          if positional 2 (List.map digitVal (c :: cs)) < U64
          then some (positional 2 (List.map digitVal (c :: cs))) else none := by
        simpa using h0
      simp only [Spelling.kind, Spelling.text, lowerInt, stripPrefix, if_true, fromStrRadix,
        hsign.1, hsign.2, false_or, false_and, if_false, Spelling.zeroTimesHugePower, value, this]
      by_cases hv : positional 2 (digitVal c :: List.map digitVal cs) < U64 <;> simp [hv]

/-! ### strings and chars -/

theorem lowerString_of_spec : ∀ (comps : List Component) (t : List Nat),
    specString comps = some t → (∀ c, escapeString c = specEscape c) → lowerString comps = (t, []) := by
  intro comps
  induction comps with
  | nil => intro t h _; simp [specString] at h; simp [lowerString, h]
  | cons c rest ih =>
    intro t h htab
    cases c with
    | escape e =>
      simp only [specString] at h
      cases hv : specEscape e with
      | none => simp [hv] at h
      | some v =>
        cases hr : specString rest with
        | none => simp [hv, hr] at h
        | some r =>
          simp only [hv, hr, Option.some.injEq] at h
          simp [lowerString, htab, hv, ih r hr htab, ← h]
    | contents cs =>
      simp only [specString] at h
      cases hr : specString rest with
      | none => simp [hr] at h
      | some r =>
        simp only [hr, Option.some.injEq] at h
        simp [lowerString, ih r hr htab, ← h]

theorem lowerString_invalid : ∀ (comps : List Component),
    specString comps = none → (∀ c, escapeString c = specEscape c) →
      Diag.invalidEscape ∈ (lowerString comps).2 := by
  intro comps
  induction comps with
  | nil => intro h _; simp [specString] at h
  | cons c rest ih =>
    intro h htab
    cases c with
    | escape e =>
      cases hv : specEscape e with
      | none => simp [lowerString, htab, hv]
      | some v =>
        cases hr : specString rest with
        | none => simp [lowerString, htab, hv, ih hr htab]
        | some r => simp [specString, hv, hr] at h
    | contents cs =>
      cases hr : specString rest with
      | none => simp [lowerString, ih hr htab]
      | some r => simp [specString, hr] at h

theorem charLoop_of_spec : ∀ (comps : List Component) (t : List Nat),
    specString comps = some t → (∀ c, escapeChar c = specEscape c) →
      charLoop comps = (t, t.length, []) := by
  intro comps
  induction comps with
  | nil => intro t h _; simp [specString] at h; subst h; simp [charLoop]
  | cons c rest ih =>
    intro t h htab
    cases c with
    | escape e =>
      simp only [specString] at h
      cases hv : specEscape e with
      | none => simp [hv] at h
      | some v =>
        cases hr : specString rest with
        | none => simp [hv, hr] at h
        | some r =>
          simp only [hv, hr, Option.some.injEq] at h
          simp [charLoop, htab, hv, ih r hr htab, ← h]
    | contents cs =>
      simp only [specString] at h
      cases hr : specString rest with
      | none => simp [hr] at h
      | some r =>
        simp only [hr, Option.some.injEq] at h
        simp [charLoop, ih r hr htab, ← h, Nat.add_comm]

theorem charLoop_invalid : ∀ (comps : List Component),
    specString comps = none → (∀ c, escapeChar c = specEscape c) →
      Diag.invalidEscape ∈ (charLoop comps).2.2 := by
  intro comps
  induction comps with
  | nil => intro h _; simp [specString] at h
  | cons c rest ih =>
    intro h htab
    cases c with
    | escape e =>
      cases hv : specEscape e with
      | none => simp [charLoop, htab, hv]
      | some v =>
        cases hr : specString rest with
        | none => simp [charLoop, htab, hv, ih hr htab]
        | some r => simp [specString, hv, hr] at h
    | contents cs =>
      cases hr : specString rest with
      | none => simp [charLoop, ih hr htab]
      | some r => simp [specString, hr] at h

end CapyV.Literal
