import CapyV.Model.Generics
namespace CapyV.Generics

/-- separation of the recorded ranges: every entry starts where all older ones have ended, and
sites are pairwise different -/
def Sep : List (Site × Range) → Prop
  | [] => True
  | a :: rest => (∀ b ∈ rest, a.1 ≠ b.1 ∧ b.2.stop ≤ a.2.start) ∧ Sep rest

def Inv (st : State) : Prop :=
  (∀ e ∈ st.assoc, e.2.start ≤ e.2.stop ∧ e.2.stop ≤ st.arena.length) ∧ Sep st.assoc

theorem lookupSite_none {s : Site} {l : List (Site × Range)} (h : lookupSite s l = none) :
    ∀ b ∈ l, s ≠ b.1 := by
  induction l with
  | nil => intro b hb; cases hb
  | cons a rest ih =>
    obtain ⟨k, r⟩ := a
    simp only [lookupSite] at h
    split at h
    · cases h
    · intro b hb
      cases hb with
      | head => assumption
      | tail _ hb => exact ih h b hb

theorem lookupSite_mem {s : Site} {r : Range} {l : List (Site × Range)}
    (h : lookupSite s l = some r) : (s, r) ∈ l := by
  induction l with
  | nil => cases h
  | cons a rest ih =>
    obtain ⟨k, r'⟩ := a
    simp only [lookupSite] at h
    split at h
    · next hk => cases h; subst hk; exact List.mem_cons_self
    · exact List.mem_cons_of_mem _ (ih h)

theorem inv_empty : Inv State.empty :=
  ⟨(by intro e he; cases he), trivial⟩

theorem step_inv (st : State) (site : Site) (vals : List CVal) (h : Inv st) :
    Inv (step st site vals).1 := by
  unfold step
  cases hl : lookupSite site st.assoc with
  | some r => simpa using h
  | none =>
    obtain ⟨h1, h2⟩ := h
    refine ⟨?_, ?_⟩
    · intro e he
      simp only [List.mem_cons] at he
      cases he with
      | inl he => subst he; simp
      | inr he => have := h1 e he; simp only [List.length_append]; omega
    · refine ⟨?_, h2⟩
      intro b hb
      exact ⟨lookupSite_none hl b hb, (h1 b hb).2⟩

theorem runAll_inv (hist : List (Site × List CVal)) : ∀ st, Inv st → Inv (runAll st hist) := by
  induction hist with
  | nil => intro st h; exact h
  | cons a rest ih =>
    obtain ⟨s, v⟩ := a
    intro st h
    exact ih _ (step_inv st s v h)

/-- two different entries of a separated list have disjoint ranges -/
theorem sep_disjoint {l : List (Site × Range)} (h : Sep l) {a b : Site × Range}
    (ha : a ∈ l) (hb : b ∈ l) (hne : a.1 ≠ b.1) :
    b.2.stop ≤ a.2.start ∨ a.2.stop ≤ b.2.start := by
  induction l with
  | nil => cases ha
  | cons c rest ih =>
    obtain ⟨hc, hrest⟩ := h
    cases ha with
    | head =>
      cases hb with
      | head => exact absurd rfl hne
      | tail _ hb => exact Or.inl (hc b hb).2
    | tail _ ha =>
      cases hb with
      | head => exact Or.inr (hc a ha).2
      | tail _ hb => exact ih hrest ha hb

/-- the association of a site never changes once made -/
theorem step_assoc_stable (st : State) (site : Site) (vals : List CVal) (s : Site) (r : Range)
    (h : lookupSite s st.assoc = some r) : lookupSite s (step st site vals).1.assoc = some r := by
  unfold step
  cases hl : lookupSite site st.assoc with
  | some r' => simpa using h
  | none =>
    have : s ≠ site := by intro e; subst e; rw [hl] at h; cases h
    simp [lookupSite, this, h]

theorem step_assoc_self (st : State) (site : Site) (vals : List CVal) :
    lookupSite site (step st site vals).1.assoc = some (step st site vals).2 := by
  unfold step
  cases hl : lookupSite site st.assoc with
  | some r' => simpa using hl
  | none => simp [lookupSite]

/-- the arena only grows at its end: what a recorded range denotes never changes -/
theorem step_readArgs_stable (st : State) (site : Site) (vals : List CVal) (r : Range)
    (hr : r.start ≤ r.stop ∧ r.stop ≤ st.arena.length) :
    readArgs (step st site vals).1 r = readArgs st r := by
  unfold step
  cases hl : lookupSite site st.assoc with
  | some r' => rfl
  | none =>
    simp only [readArgs]
    rw [List.drop_append_of_le_length (by omega)]
    rw [List.take_append_of_le_length (by simp; omega)]

/-- a fresh (stage 1) range denotes exactly the values the call passed -/
theorem step_readArgs_fresh (st : State) (site : Site) (vals : List CVal)
    (hl : lookupSite site st.assoc = none) :
    readArgs (step st site vals).1 (step st site vals).2 = vals := by
  unfold step
  simp only [hl, readArgs]
  simp

end CapyV.Generics

namespace CapyV.Generics

theorem runAll_stable (hist : List (Site × List CVal)) :
    ∀ st, Inv st → ∀ s r, lookupSite s st.assoc = some r →
      readArgs (runAll st hist) r = readArgs st r ∧ lookupSite s (runAll st hist).assoc = some r := by
  induction hist with
  | nil => intro st _ s r h; exact ⟨rfl, h⟩
  | cons a rest ih =>
    obtain ⟨s', v⟩ := a
    intro st hinv s r h
    have h1 := step_assoc_stable st s' v s r h
    have hb := hinv.1 (s, r) (lookupSite_mem h)
    obtain ⟨e1, e2⟩ := ih _ (step_inv st s' v hinv) s r h1
    exact ⟨by simp only [runAll]; rw [e1, step_readArgs_stable st s' v r hb], by simpa [runAll] using e2⟩

end CapyV.Generics
