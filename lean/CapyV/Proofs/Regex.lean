import CapyV.Spec.Lexer
/-!
# Derivative matcher = denotation; longest-match scan is sound and maximal
-/
namespace CapyV.Lexer
open CapyV CapyV.Regex

theorem not_matches_empty {w : List Char} : ¬ Matches .empty w := by
  intro h; cases h

theorem matches_eps_iff {w : List Char} : Matches .eps w ↔ w = [] := by
  constructor
  · intro h; cases h; rfl
  · rintro rfl; exact .eps

theorem matches_cat_iff {a b : Regex} {w : List Char} :
    Matches (.cat a b) w ↔ ∃ u v, w = u ++ v ∧ Matches a u ∧ Matches b v := by
  constructor
  · intro h; cases h with
    | cat h1 h2 => exact ⟨_, _, rfl, h1, h2⟩
  · rintro ⟨u, v, rfl, h1, h2⟩; exact .cat h1 h2

theorem matches_alt_iff {a b : Regex} {w : List Char} :
    Matches (.alt a b) w ↔ Matches a w ∨ Matches b w := by
  constructor
  · intro h; cases h with
    | altL h => exact .inl h
    | altR h => exact .inr h
  · rintro (h | h)
    · exact .altL h
    · exact .altR h

theorem matches_opt_iff {a : Regex} {w : List Char} :
    Matches (.opt a) w ↔ w = [] ∨ Matches a w := by
  constructor
  · intro h; cases h with
    | optNone => exact .inl rfl
    | optSome h => exact .inr h
  · rintro (rfl | h)
    · exact .optNone
    · exact .optSome h

theorem matches_plus_iff {a : Regex} {w : List Char} :
    Matches (.plus a) w ↔ ∃ u v, w = u ++ v ∧ Matches a u ∧ Matches (.star a) v := by
  constructor
  · intro h; cases h with
    | plus h1 h2 => exact ⟨_, _, rfl, h1, h2⟩
  · rintro ⟨u, v, rfl, h1, h2⟩; exact .plus h1 h2

theorem matches_cls_iff {neg : Bool} {rs : List (Nat × Nat)} {w : List Char} :
    Matches (.cls neg rs) w ↔ ∃ c, w = [c] ∧ clsMatch neg rs c = true := by
  constructor
  · intro h; cases h with
    | cls h => exact ⟨_, rfl, h⟩
  · rintro ⟨c, rfl, h⟩; exact .cls h

/-- a non-empty word of `a*` splits into a non-empty first iteration and the rest -/
theorem star_cons_aux {r : Regex} {s : List Char} (h : Matches r s) :
    ∀ a c w, r = .star a → s = c :: w →
      ∃ u v, w = u ++ v ∧ Matches a (c :: u) ∧ Matches (.star a) v := by
  induction h with
  | @starCons a' u v hu hv _ ihv =>
    intro a c w hr hs
    cases hr
    cases u with
    | nil => exact ihv _ c w rfl (by simpa using hs)
    | cons x u' =>
      simp only [List.cons_append, List.cons.injEq] at hs
      obtain ⟨rfl, rfl⟩ := hs
      exact ⟨u', v, rfl, hu, hv⟩
  | starNil => intro a c w _ hs; cases hs
  | eps => intro a c w hr; cases hr
  | cls _ => intro a c w hr; cases hr
  | cat _ _ _ _ => intro a c w hr; cases hr
  | altL _ _ => intro a c w hr; cases hr
  | altR _ _ => intro a c w hr; cases hr
  | plus _ _ _ _ => intro a c w hr; cases hr
  | optNone => intro a c w hr; cases hr
  | optSome _ _ => intro a c w hr; cases hr

theorem matches_star_cons_iff {a : Regex} {c : Char} {w : List Char} :
    Matches (.star a) (c :: w) ↔
      ∃ u v, w = u ++ v ∧ Matches a (c :: u) ∧ Matches (.star a) v := by
  constructor
  · intro h; exact star_cons_aux h a c w rfl rfl
  · rintro ⟨u, v, rfl, h1, h2⟩
    have := Matches.starCons h1 h2
    simpa using this

theorem matches_nil_aux {r : Regex} {s : List Char} (h : Matches r s) :
    s = [] → nullable r = true := by
  induction h with
  | eps => intro _; rfl
  | cls _ => intro hs; cases hs
  | cat _ _ ih1 ih2 =>
    intro hs
    simp only [List.append_eq_nil_iff] at hs
    simp [nullable, ih1 hs.1, ih2 hs.2]
  | altL _ ih => intro hs; simp [nullable, ih hs]
  | altR _ ih => intro hs; simp [nullable, ih hs]
  | starNil => intro _; rfl
  | starCons _ _ _ _ => intro _; rfl
  | plus _ _ ih1 _ =>
    intro hs
    simp only [List.append_eq_nil_iff] at hs
    simp [nullable, ih1 hs.1]
  | optNone => intro _; rfl
  | optSome _ _ => intro _; rfl

theorem nullable_iff {r : Regex} : nullable r = true ↔ Matches r [] := by
  constructor
  · induction r with
    | empty => intro h; cases h
    | eps => intro _; exact .eps
    | cls _ _ => intro h; cases h
    | cat a b iha ihb =>
      intro h
      simp only [nullable, Bool.and_eq_true] at h
      have := Matches.cat (iha h.1) (ihb h.2)
      simpa using this
    | alt a b iha ihb =>
      intro h
      simp only [nullable, Bool.or_eq_true] at h
      rcases h with h | h
      · exact .altL (iha h)
      · exact .altR (ihb h)
    | star a _ => intro _; exact .starNil
    | plus a iha =>
      intro h
      have := Matches.plus (iha h) (Matches.starNil (a := a))
      simpa using this
    | opt a _ => intro _; exact .optNone
  · intro h; exact matches_nil_aux h rfl

theorem mkCat_iff {a b : Regex} {w : List Char} :
    Matches (mkCat a b) w ↔ Matches (.cat a b) w := by
  unfold mkCat
  split
  · subst_vars
    constructor
    · intro h; exact absurd h not_matches_empty
    · intro h; obtain ⟨u, v, _, h1, _⟩ := matches_cat_iff.mp h; exact absurd h1 not_matches_empty
  · split
    · subst_vars
      constructor
      · intro h; exact absurd h not_matches_empty
      · intro h; obtain ⟨u, v, _, _, h2⟩ := matches_cat_iff.mp h; exact absurd h2 not_matches_empty
    · split
      · subst_vars
        constructor
        · intro h
          have := Matches.cat Matches.eps h
          simpa using this
        · intro h
          obtain ⟨u, v, rfl, h1, h2⟩ := matches_cat_iff.mp h
          cases h1
          simpa using h2
      · exact Iff.rfl

theorem mkAlt_iff {a b : Regex} {w : List Char} :
    Matches (mkAlt a b) w ↔ Matches a w ∨ Matches b w := by
  unfold mkAlt
  split
  · subst_vars
    constructor
    · intro h; exact .inr h
    · rintro (h | h)
      · exact absurd h not_matches_empty
      · exact h
  · split
    · subst_vars
      constructor
      · intro h; exact .inl h
      · rintro (h | h)
        · exact h
        · exact absurd h not_matches_empty
    · split
      · subst_vars
        constructor
        · intro h; exact .inl h
        · rintro (h | h) <;> exact h
      · exact matches_alt_iff

/-- the derivative denotes the left quotient -/
theorem deriv_iff {c : Char} {r : Regex} : ∀ {w : List Char},
    Matches (deriv c r) w ↔ Matches r (c :: w) := by
  induction r with
  | empty => intro w; simp [deriv]; exact ⟨fun h => absurd h not_matches_empty, fun h => absurd h not_matches_empty⟩
  | eps =>
    intro w
    simp only [deriv]
    constructor
    · intro h; exact absurd h not_matches_empty
    · intro h; cases h
  | cls neg rs =>
    intro w
    simp only [deriv]
    constructor
    · intro h
      split at h
      · rename_i hc
        cases h
        exact .cls hc
      · exact absurd h not_matches_empty
    · intro h
      obtain ⟨c', hw, hc⟩ := matches_cls_iff.mp h
      simp only [List.cons.injEq] at hw
      obtain ⟨rfl, rfl⟩ := hw
      simp [hc, Matches.eps]
  | cat a b iha ihb =>
    intro w
    have key : Matches (.cat a b) (c :: w) ↔
        (∃ u v, w = u ++ v ∧ Matches a (c :: u) ∧ Matches b v) ∨
          (nullable a = true ∧ Matches b (c :: w)) := by
      constructor
      · intro h
        obtain ⟨u, v, huv, h1, h2⟩ := matches_cat_iff.mp h
        cases u with
        | nil =>
          simp only [List.nil_append] at huv
          subst huv
          exact .inr ⟨nullable_iff.mpr h1, h2⟩
        | cons x u' =>
          simp only [List.cons_append, List.cons.injEq] at huv
          obtain ⟨rfl, rfl⟩ := huv
          exact .inl ⟨u', v, rfl, h1, h2⟩
      · rintro (⟨u, v, rfl, h1, h2⟩ | ⟨hn, h2⟩)
        · have := Matches.cat h1 h2
          simpa using this
        · have := Matches.cat (nullable_iff.mp hn) h2
          simpa using this
    have hleft : Matches (mkCat (deriv c a) b) w ↔
        ∃ u v, w = u ++ v ∧ Matches a (c :: u) ∧ Matches b v := by
      rw [mkCat_iff, matches_cat_iff]
      constructor
      · rintro ⟨u, v, rfl, h1, h2⟩; exact ⟨u, v, rfl, iha.mp h1, h2⟩
      · rintro ⟨u, v, rfl, h1, h2⟩; exact ⟨u, v, rfl, iha.mpr h1, h2⟩
    simp only [deriv]
    split
    · rename_i hn
      rw [mkAlt_iff, hleft, key, ihb]
      simp [hn]
    · rename_i hn
      rw [hleft, key]
      simp [hn]
  | alt a b iha ihb =>
    intro w
    simp only [deriv]
    rw [mkAlt_iff, iha, ihb, matches_alt_iff]
  | star a iha =>
    intro w
    simp only [deriv]
    rw [mkCat_iff, matches_cat_iff, matches_star_cons_iff]
    constructor
    · rintro ⟨u, v, rfl, h1, h2⟩; exact ⟨u, v, rfl, iha.mp h1, h2⟩
    · rintro ⟨u, v, rfl, h1, h2⟩; exact ⟨u, v, rfl, iha.mpr h1, h2⟩
  | plus a iha =>
    intro w
    simp only [deriv]
    rw [mkCat_iff, matches_cat_iff, matches_plus_iff]
    constructor
    · rintro ⟨u, v, rfl, h1, h2⟩
      exact ⟨c :: u, v, rfl, iha.mp h1, h2⟩
    · rintro ⟨u, v, huv, h1, h2⟩
      cases u with
      | nil =>
        simp only [List.nil_append] at huv
        subst huv
        obtain ⟨u', v', rfl, h1', h2'⟩ := matches_star_cons_iff.mp h2
        exact ⟨u', v', rfl, iha.mpr h1', h2'⟩
      | cons x u' =>
        simp only [List.cons_append, List.cons.injEq] at huv
        obtain ⟨rfl, rfl⟩ := huv
        exact ⟨u', v, rfl, iha.mpr h1, h2⟩
  | opt a iha =>
    intro w
    simp only [deriv]
    rw [iha, matches_opt_iff]
    simp

theorem derivs_iff {u : List Char} : ∀ {r : Regex} {w : List Char},
    Matches (derivs r u) w ↔ Matches r (u ++ w) := by
  induction u with
  | nil => intro r w; simp [derivs]
  | cons c cs ih => intro r w; simp only [derivs, List.cons_append]; rw [ih, deriv_iff]

/-- **`deriv_correct`**: the derivative matcher decides the denotation. -/
theorem rmatch_iff {r : Regex} {w : List Char} : rmatch r w = true ↔ Matches r w := by
  unfold rmatch
  rw [nullable_iff, derivs_iff]
  simp

/-! ## longest match -/

theorem longestAux_ge_best : ∀ (s : List Char) (r : Regex) (n : Nat) (best : Option Nat) (b : Nat),
    best = some b → b ≤ n → ∃ m, longestAux r s n best = some m ∧ b ≤ m := by
  intro s
  induction s with
  | nil =>
    intro r n best b hb hbn
    simp only [longestAux]
    split
    · exact ⟨n, rfl, hbn⟩
    · exact ⟨b, hb, Nat.le_refl _⟩
  | cons c cs ih =>
    intro r n best b hb hbn
    simp only [longestAux]
    have hb' : ∃ b', (if nullable r = true then some n else best) = some b' ∧ b ≤ b' ∧ b' ≤ n := by
      split
      · exact ⟨n, rfl, hbn, Nat.le_refl _⟩
      · exact ⟨b, hb, Nat.le_refl _, hbn⟩
    obtain ⟨b', hb'e, hbb', hb'n⟩ := hb'
    split
    · exact ⟨b', hb'e, hbb'⟩
    · obtain ⟨m, hm, hle⟩ := ih (deriv c r) (n + 1) _ b' hb'e (by omega)
      exact ⟨m, hm, by omega⟩

theorem longestAux_sound : ∀ (s : List Char) (r : Regex) (n : Nat) (best : Option Nat) (m : Nat),
    longestAux r s n best = some m →
      best = some m ∨ ∃ k, m = n + k ∧ k ≤ s.length ∧ Matches r (s.take k) := by
  intro s
  induction s with
  | nil =>
    intro r n best m h
    simp only [longestAux] at h
    split at h
    · rename_i hn
      cases h
      exact .inr ⟨0, rfl, Nat.le_refl _, nullable_iff.mp hn⟩
    · exact .inl h
  | cons c cs ih =>
    intro r n best m h
    simp only [longestAux] at h
    have hbest' : ∀ m', (if nullable r = true then some n else best) = some m' →
        best = some m' ∨ ∃ k, m' = n + k ∧ k ≤ (c :: cs).length ∧ Matches r ((c :: cs).take k) := by
      intro m' h'
      split at h'
      · rename_i hn
        cases h'
        exact .inr ⟨0, rfl, Nat.zero_le _, by simpa using nullable_iff.mp hn⟩
      · exact .inl h'
    split at h
    · exact hbest' m h
    · rcases ih (deriv c r) (n + 1) _ m h with h' | ⟨k, rfl, hk, hm⟩
      · exact hbest' m h'
      · refine .inr ⟨k + 1, by omega, by simp; omega, ?_⟩
        simpa using deriv_iff.mp hm

theorem longestAux_max : ∀ (s : List Char) (r : Regex) (n : Nat) (best : Option Nat) (k : Nat),
    k ≤ s.length → Matches r (s.take k) → (∀ b, best = some b → b ≤ n) →
      ∃ m, longestAux r s n best = some m ∧ n + k ≤ m := by
  intro s
  induction s with
  | nil =>
    intro r n best k hk hm _
    have : k = 0 := by simpa using hk
    subst this
    simp only [List.take_nil] at hm
    simp only [longestAux, nullable_iff.mpr hm, if_true]
    exact ⟨n, rfl, by omega⟩
  | cons c cs ih =>
    intro r n best k hk hm hb
    have hne : r ≠ .empty := by
      rintro rfl; exact not_matches_empty hm
    simp only [longestAux, hne, if_false]
    cases k with
    | zero =>
      simp only [List.take_zero] at hm
      simp only [nullable_iff.mpr hm, if_true]
      obtain ⟨m, hm', hle⟩ := longestAux_ge_best cs (deriv c r) (n + 1) (some n) n rfl (by omega)
      exact ⟨m, hm', by omega⟩
    | succ k' =>
      simp only [List.take_succ_cons] at hm
      have hk' : k' ≤ cs.length := by simpa using hk
      have hb' : ∀ b, (if nullable r = true then some n else best) = some b → b ≤ n + 1 := by
        intro b h'
        split at h'
        · cases h'; omega
        · have := hb b h'; omega
      obtain ⟨m, hm', hle⟩ := ih (deriv c r) (n + 1) _ k' hk' (deriv_iff.mpr hm) hb'
      exact ⟨m, hm', by omega⟩

theorem longest_sound {r : Regex} {s : List Char} {m : Nat} (h : longest r s = some m) :
    m ≤ s.length ∧ Matches r (s.take m) := by
  rcases longestAux_sound s r 0 none m h with h' | ⟨k, rfl, hk, hm⟩
  · cases h'
  · simpa using ⟨hk, hm⟩

theorem longest_max {r : Regex} {s : List Char} {k : Nat} (hk : k ≤ s.length)
    (hm : Matches r (s.take k)) : ∃ m, longest r s = some m ∧ k ≤ m := by
  obtain ⟨m, h, hle⟩ := longestAux_max s r 0 none k hk hm (by intro b h; cases h)
  exact ⟨m, h, by omega⟩

theorem longest_pos {r : Regex} {s : List Char} {m : Nat} (hn : nullable r = false)
    (h : longest r s = some m) : 0 < m := by
  rcases Nat.eq_zero_or_pos m with rfl | hp
  · have := (longest_sound h).2
    simp only [List.take_zero] at this
    rw [nullable_iff.mpr this] at hn
    cases hn
  · exact hp

/-- literal rules denote exactly their text -/
theorem matches_ofChars_iff {l w : List Char} : Matches (ofChars l) w ↔ w = l := by
  induction l generalizing w with
  | nil => simp [ofChars, matches_eps_iff]
  | cons c cs ih =>
    simp only [ofChars, matches_cat_iff, single, matches_cls_iff]
    constructor
    · rintro ⟨u, v, rfl, ⟨c', rfl, hc⟩, hv⟩
      rw [ih] at hv
      subst hv
      simp only [clsMatch, inRanges, List.any_cons, List.any_nil, Bool.or_false, bne_iff_ne, ne_eq,
        Bool.not_eq_false, Bool.and_eq_true, decide_eq_true_eq] at hc
      have : c'.toNat = c.toNat := by omega
      rw [Char.toNat_inj.mp this]
      rfl
    · rintro rfl
      refine ⟨[c], cs, rfl, ⟨c, rfl, ?_⟩, ih.mpr rfl⟩
      simp [clsMatch, inRanges]

end CapyV.Lexer
