import CapyV.Model.LineIndex
/-! Helper lemmas for C25. -/
namespace CapyV.LineIndex

theorem lineStartsFrom_gt (pos : Nat) (t : List Nat) :
    ∀ x ∈ lineStartsFrom pos t, pos < x := by
  induction t generalizing pos with
  | nil => simp [lineStartsFrom]
  | cons b bs ih =>
    intro x hx
    unfold lineStartsFrom at hx
    split at hx
    · rcases List.mem_cons.mp hx with h | h
      · omega
      · have := ih (pos + 1) x h; omega
    · have := ih (pos + 1) x hx; omega

/-- The precondition of `partition_point`: the table is strictly increasing, hence
partitioned by `· ≤ off` for every `off`. -/
theorem lineStartsFrom_sorted (pos : Nat) (t : List Nat) :
    (lineStartsFrom pos t).Pairwise (· < ·) := by
  induction t generalizing pos with
  | nil => simp [lineStartsFrom]
  | cons b bs ih =>
    unfold lineStartsFrom
    split
    · refine List.pairwise_cons.mpr ⟨?_, ih _⟩
      intro x hx
      exact lineStartsFrom_gt _ _ x hx
    · exact ih _

theorem lineStarts_sorted (t : List Nat) : (lineStarts t).Pairwise (· < ·) := by
  unfold lineStarts
  refine List.pairwise_cons.mpr ⟨?_, lineStartsFrom_sorted _ _⟩
  intro x hx
  exact lineStartsFrom_gt _ _ x hx

theorem takeWhile_nil_of_gt (off : Nat) (l : List Nat) (h : ∀ x ∈ l, off < x) :
    l.takeWhile (fun x => decide (x ≤ off)) = [] := by
  cases l with
  | nil => rfl
  | cons a as =>
    have := h a (by simp)
    have hd : decide (a ≤ off) = false := by simp; omega
    simp [List.takeWhile, hd]

/-- Number of table entries `≤ pos + k` = number of newlines among the first `k` bytes. -/
theorem pp_from (pos : Nat) (t : List Nat) (k : Nat) :
    ((lineStartsFrom pos t).takeWhile (fun x => decide (x ≤ pos + k))).length
      = (t.take k).count NL := by
  induction t generalizing pos k with
  | nil => simp [lineStartsFrom]
  | cons b bs ih =>
    cases k with
    | zero =>
      have h := takeWhile_nil_of_gt pos (lineStartsFrom pos (b :: bs)) (lineStartsFrom_gt pos _)
      simp at h ⊢
      simp [h]
    | succ k =>
      unfold lineStartsFrom
      split
      · rename_i hb
        have e : pos + (k + 1) = (pos + 1) + k := by omega
        have := ih (pos + 1) k
        simp [List.takeWhile, hb, e, this]
      · rename_i hb
        have e : pos + (k + 1) = (pos + 1) + k := by omega
        have := ih (pos + 1) k
        have hb' : ¬ (b == NL) = true := by simpa using hb
        simp [e, this, List.count_cons, hb']

/-- Declarative description of "the line containing the end of `l`": `l = pre ++ line`
where `line` has no newline and `pre` is empty or ends in a newline. -/
def SplitsAtLastLine (l pre line : List Nat) : Prop :=
  l = pre ++ line ∧ NL ∉ line ∧ (pre = [] ∨ pre.getLast? = some NL)

theorem count_eq_of_split {l pre line : List Nat} (h : SplitsAtLastLine l pre line) :
    l.count NL = pre.count NL := by
  obtain ⟨rfl, hno, _⟩ := h
  simp [List.count_append, List.count_eq_zero.mpr hno]

/-- The table entry selected by `partition_point - 1` is the start of the offset's line. -/
theorem start_from (pos : Nat) (t : List Nat) (k : Nat) (hk : k ≤ t.length) :
    ∃ pre line, SplitsAtLastLine (t.take k) pre line ∧
      (pos :: lineStartsFrom pos t)[(t.take k).count NL]? = some (pos + pre.length) := by
  induction t generalizing pos k with
  | nil =>
    have : k = 0 := by simpa using hk
    subst this
    exact ⟨[], [], ⟨by simp, by simp, Or.inl rfl⟩, by simp⟩
  | cons b bs ih =>
    cases k with
    | zero => exact ⟨[], [], ⟨by simp, by simp, Or.inl rfl⟩, by simp⟩
    | succ k =>
      have hk' : k ≤ bs.length := by simpa using hk
      obtain ⟨pre', line', hsp, hIH⟩ := ih (pos + 1) k hk'
      have hsp' := hsp
      obtain ⟨htk, hno, hpre⟩ := hsp
      by_cases hb : b = NL
      · subst hb
        refine ⟨NL :: pre', line', ⟨by simp [htk], hno, Or.inr ?_⟩, ?_⟩
        · rcases hpre with h | h
          · subst h; simp
          · cases pre' with
            | nil => simp
            | cons a as => simpa [List.getLast?_cons_cons] using h
        · simp only [List.take_succ_cons, List.count_cons_self, lineStartsFrom, if_true,
            List.getElem?_cons_succ, List.length_cons]
          rw [hIH]; congr 1; omega
      · have hb' : ¬ (b == NL) = true := by simpa using hb
        have hcnt : ((b :: bs).take (k + 1)).count NL = (bs.take k).count NL := by
          simp [List.count_cons, hb']
        have hls : lineStartsFrom pos (b :: bs) = lineStartsFrom (pos + 1) bs := by
          simp [lineStartsFrom, hb]
        rw [hcnt, hls]
        cases pre' with
        | nil =>
          refine ⟨[], b :: line', ⟨by simp [htk], ?_, Or.inl rfl⟩, ?_⟩
          · intro hm
            rcases List.mem_cons.mp hm with h | h
            · exact hb h.symm
            · exact hno h
          · have : (bs.take k).count NL = 0 := by
              rw [count_eq_of_split hsp']; simp
            rw [this]; simp
        | cons a as =>
          have hlast : (a :: as).getLast? = some NL := by
            rcases hpre with h | h
            · cases h
            · exact h
          refine ⟨b :: a :: as, line', ⟨by simp [htk], hno, Or.inr ?_⟩, ?_⟩
          · simpa [List.getLast?_cons_cons] using hlast
          · have hmem : NL ∈ a :: as := List.mem_of_getLast? hlast
            have hpos : 0 < (bs.take k).count NL := by
              rw [count_eq_of_split hsp']; exact List.count_pos_iff.mpr hmem
            obtain ⟨c, hc⟩ : ∃ c, (bs.take k).count NL = c + 1 :=
              ⟨_, (Nat.succ_pred_eq_of_pos hpos).symm⟩
            rw [hc] at hIH ⊢
            simp only [List.getElem?_cons_succ] at hIH ⊢
            rw [hIH]; congr 1; simp; omega

end CapyV.LineIndex
