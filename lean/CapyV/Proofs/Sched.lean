import CapyV.Proofs.Topo
import CapyV.Spec.SchedRounds
namespace CapyV.Sched
open CapyV.Topo CapyV.SchedSpec

theorem regOne_pend_mono {a : Abs} {p c y} (h : y ∈ a.pend) : y ∈ (regOne a p c).pend := by
  simp only [regOne]
  exact mem_addPend.2 (Or.inl (mem_addPend.2 (Or.inl h)))

theorem regAll_pend_mono {p y} : ∀ (cs : List Nat) (a : Abs), y ∈ a.pend → y ∈ (regAll a p cs).pend := by
  intro cs
  induction cs with
  | nil => intro a h; exact h
  | cons c cs ih => intro a h; exact ih _ (regOne_pend_mono h)

theorem regAll_done {p} : ∀ (cs : List Nat) (a : Abs), (regAll a p cs).done = a.done := by
  intro cs
  induction cs with
  | nil => intro a; rfl
  | cons c cs ih => intro a; simp only [regAll]; rw [ih, regOne_done]

/-- a round that processes distinct pending items and names only uncompleted dependencies
is a protocol-following history -/
theorem script_legal : ∀ (r : RoundScript) {a : Abs} {s : Topo}, Inv a s →
    (r.map (·.1)).Nodup → (∀ x ∈ r.map (·.1), x ∈ a.pend) → depsFresh a.done r →
    ∃ a', after a (roundOps r) = some a' := by
  intro r
  induction r with
  | nil => intro a s _ _ _ _; exact ⟨a, rfl⟩
  | cons e r ih =>
    intro a s hi hn hp hf
    obtain ⟨x, dec⟩ := e
    simp only [List.map_cons, List.nodup_cons] at hn
    have hx : x ∈ a.pend := hp x (by simp)
    cases dec with
    | complete =>
      have hl : legal a (.remove x) = true := by simpa [legal] using hx
      obtain ⟨s1, _, hi1⟩ := inv_step hi _ hl
      simp only [roundOps, after, hl, if_true]
      apply ih hi1 hn.2
      · intro y hy
        simp only [step, List.mem_filter, decide_eq_true_eq]
        exact ⟨hp y (by simp [hy]), by rintro rfl; exact hn.1 hy⟩
      · exact hf
    | needs ds =>
      simp only [depsFresh] at hf
      have hl : legal a (.deps x ds) = true := by
        simp only [legal, Bool.and_eq_true, decide_eq_true_eq, List.all_eq_true]
        exact ⟨hi.disj x hx, hf.1⟩
      obtain ⟨s1, _, hi1⟩ := inv_step hi _ hl
      simp only [roundOps, after, hl, if_true]
      apply ih hi1 hn.2
      · intro y hy
        exact regAll_pend_mono ds a (hp y (by simp [hy]))
      · simp only [step, regAll_done]; exact hf.2

theorem leaves_nodup {s : Topo} (h : (keys s).Nodup) : (leaves s).Nodup := by
  unfold leaves
  unfold keys at h
  exact (List.filter_sublist.map _).nodup h

/-- what `finish` takes as `leaves` from a non-empty schedule: never a panic, never empty,
and equal to the specification's offer -/
theorem roundLeaves_spec {a s} (hi : Inv a s) (hne : s ≠ []) :
    roundLeaves s = some (expectedOffer a) ∧ (expectedOffer a).1 ≠ [] ∧
      (expectedOffer a).1.Nodup ∧ ∀ x ∈ (expectedOffer a).1, x ∈ a.pend := by
  unfold roundLeaves expectedOffer
  rw [peekAll_eq, cyclic_iff hi]
  by_cases hc : inCycle s = true
  · have hk : keys s ≠ [] := by cases s <;> simp_all [keys]
    simp only [hc, if_true, peekAllCyclic, hi.keys_eq]
    exact ⟨trivial, hi.keys_eq ▸ hk, hi.nodup, fun x hx => hx⟩
  · have hl : leaves s ≠ [] := fun h0 => hc ((inCycle_iff_leaves s).2 ⟨hne, h0⟩)
    simp only [hc, Bool.false_eq_true, if_false, ← leaves_eq hi]
    refine ⟨trivial, hl, leaves_nodup hi.keys_nodup, fun x hx => ?_⟩
    exact hi.keys_eq ▸ leaves_sub_keys s x hx

theorem finishLoop_spec : ∀ (rs : List RoundScript) {a : Abs} {s : Topo} (n : Nat), Inv a s → s ≠ [] →
    scriptFresh a rs → (finishLoop s n rs).ok = true ∧ offers s rs = expectedOffers a rs := by
  intro rs
  induction rs with
  | nil => intro a s n _ _ _; exact ⟨rfl, rfl⟩
  | cons r rs ih =>
    intro a s n hi hne hf
    obtain ⟨hrl, hne', hnd, hsub⟩ := roundLeaves_spec hi hne
    simp only [scriptFresh] at hf
    simp only [finishLoop, offers, expectedOffers, hrl]
    have hemp : (expectedOffer a).1.isEmpty = false := by
      cases h : (expectedOffer a).1 <;> simp_all
    simp only [hemp, Bool.false_eq_true, if_false]
    have hperm := hf.1
    have hp := List.isPerm_iff.1 hperm
    obtain ⟨a', ha'⟩ := script_legal r hi (hp.nodup_iff.2 hnd)
      (fun x hx => hsub x (hp.mem_iff.1 hx)) hf.2.1
    obtain ⟨s', hs', hi'⟩ := inv_run hi _ ha'
    have hee : s'.isEmpty = a'.pend.isEmpty := by
      rw [← hi'.keys_eq]; cases s' <;> simp [keys]
    simp only [hperm, not_true_eq_false, if_false, hs', ha', ← hee]
    by_cases he : s'.isEmpty = true
    · simp [he, Result.ok]
    · simp only [he, Bool.false_eq_true, if_false]
      have hne1 : s' ≠ [] := by intro h0; simp [h0] at he
      obtain ⟨h1, h2⟩ := ih (n + 1) hi' hne1 (hf.2.2 a' ha')
      exact ⟨h1, by rw [h2]⟩

end CapyV.Sched
