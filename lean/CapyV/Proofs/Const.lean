import CapyV.Model.Const
import CapyV.Spec.Const
/-! Helper lemmas for C15: what a `Const` answer of the worklist means (`MConst`), its relation to
the documented rule in both directions, the evaluator, termination on acyclic programs. -/
namespace CapyV.Const

/-- "the walk validates `e`": the arm of `e` pushes, and everything it pushes is validated.
This is exactly what a `Const` answer of `loop` establishes (no guard, no acyclicity). -/
inductive MConst (p : Prog) : Nat → Prop where
  | mk {e n plain gb} : p.node? e = some n → arm n = .cont plain gb →
      (∀ c ∈ plain, MConst p c) → (∀ b, gb = some b → MConst p b) → MConst p e

theorem arm_ret_ne_const {n : Node} {r : IsC} (h : arm n = .ret r) : r ≠ .const := by
  cases n with
  | atom a => simp [arm] at h
  | arrayLit isArr items => cases isArr <;> simp [arm] at h; subst h; decide
  | localGlobal ext fin body =>
    simp only [arm] at h
    split at h
    · cases h; decide
    · split at h
      · cases h; decide
      · cases h
  | «local» m v =>
    simp only [arm] at h
    split at h
    · cases h; decide
    · cases v with
      | none => cases h; decide
      | some v => cases h
  | member pf prev ex ext fin body =>
    simp only [arm] at h
    split at h
    · split at h
      · cases h; decide
      · split at h
        · cases h; decide
        · split at h
          · cases h; decide
          · cases h
    · cases h; decide
  | comptimeParam i => simp [arm] at h
  | other k cls m =>
    simp only [arm] at h
    split at h
    · cases h; decide
    · cases h

/-- a `Const` answer validates every entry of the queue -/
theorem loop_const_MConst (p : Prog) : ∀ (f : Nat) (q : List Ent),
    loop p f q = .done .const → ∀ ent ∈ q, MConst p ent.e := by
  intro f
  induction f with
  | zero =>
    intro q h ent hm
    cases q with
    | nil => cases hm
    | cons a as => simp [loop] at h
  | succ f ih =>
    intro q h ent hm
    cases q with
    | nil => cases hm
    | cons a rest =>
      simp only [loop] at h
      cases hn : p.node? a.e with
      | none => simp [hn] at h
      | some n =>
        simp only [hn] at h
        cases ha : arm n with
        | ret r =>
          simp only [ha] at h
          have := arm_ret_ne_const ha
          cases h
          exact absurd rfl this
        | cont plain gb =>
          cases gb with
          | none =>
            simp only [ha] at h
            have all := ih _ h
            have hplain : ∀ c ∈ plain, MConst p c := by
              intro c hc
              have : (⟨c, a.e :: a.anc⟩ : Ent) ∈ rest ++ plain.map (fun c => ⟨c, a.e :: a.anc⟩) := by
                apply List.mem_append_right
                exact List.mem_map.mpr ⟨c, hc, rfl⟩
              exact all _ this
            rcases List.mem_cons.mp hm with rfl | hr
            · exact MConst.mk hn ha hplain (by intro b hb; cases hb)
            · exact all _ (List.mem_append_left _ hr)
          | some b =>
            simp only [ha] at h
            split at h
            · cases h
            · have all := ih _ h
              have hplain : ∀ c ∈ plain, MConst p c := by
                intro c hc
                have : (⟨c, a.e :: a.anc⟩ : Ent) ∈
                    rest ++ plain.map (fun c => ⟨c, a.e :: a.anc⟩) ++ [⟨b, a.e :: a.anc⟩] := by
                  apply List.mem_append_left
                  apply List.mem_append_right
                  exact List.mem_map.mpr ⟨c, hc, rfl⟩
                exact all _ this
              have hb : MConst p b := by
                have : (⟨b, a.e :: a.anc⟩ : Ent) ∈
                    rest ++ plain.map (fun c => ⟨c, a.e :: a.anc⟩) ++ [⟨b, a.e :: a.anc⟩] := by
                  apply List.mem_append_right
                  simp
                exact all _ this
              rcases List.mem_cons.mp hm with rfl | hr
              · exact MConst.mk hn ha hplain (by intro b' hb'; cases hb'; exact hb)
              · exact all _ (List.mem_append_left _ (List.mem_append_left _ hr))

theorem getConst_const_MConst {p : Prog} {f e : Nat} (h : getConst p f e = .done .const) :
    MConst p e :=
  loop_const_MConst p f _ h ⟨e, []⟩ (by simp)

/-! ### guards -/

/-- nodes on which the walk may accept something the rule does not: the `Ty::Type | Ty::File`
fallback on anything but a type literal, and `Expr::Missing` -/
def Node.soundOk : Node → Bool
  | .other k cls _ => cls == .value || k == .typeExpr || k == .charLit
  | .atom (.noData .missing) => false
  | _ => true

/-- nodes on which the walk may reject something the rule accepts: a `char` literal and a type
literal whose inferred type is not `type` (both fall into `_`), an array literal whose type is not
an array, a global that is not finished (cyclic error) or does not exist -/
def Node.completeOk : Node → Bool
  | .other k cls _ => !(k == .typeExpr || k == .charLit) || cls != .value
  | .arrayLit isArr _ => isArr
  | .localGlobal _ fin _ => fin
  | .member _ _ _ _ fin _ => fin
  | _ => true

def Prog.soundOk (p : Prog) : Bool := p.nodes.all Node.soundOk
def Prog.completeOk (p : Prog) : Bool := p.nodes.all Node.completeOk

theorem node_mem {p : Prog} {e : Nat} {n : Node} (h : p.node? e = some n) : n ∈ p.nodes := by
  unfold Prog.node? at h
  exact List.mem_of_getElem? h

theorem soundOk_node {p : Prog} (hp : p.soundOk = true) {e : Nat} {n : Node}
    (h : p.node? e = some n) : n.soundOk = true :=
  (List.all_eq_true.mp hp) n (node_mem h)

theorem completeOk_node {p : Prog} (hp : p.completeOk = true) {e : Nat} {n : Node}
    (h : p.node? e = some n) : n.completeOk = true :=
  (List.all_eq_true.mp hp) n (node_mem h)

/-- validated by the walk ⇒ const by the rule (under the soundness guard) -/
theorem MConst_IsConst {p : Prog} (hp : p.soundOk = true) {e : Nat} (h : MConst p e) :
    IsConst p e := by
  induction h with
  | @mk e n plain gb hn ha _ _ ihp ihg =>
    have hs := soundOk_node hp hn
    cases n with
    | atom a =>
      cases a with
      | intLit k => exact .intLit hn
      | floatLit b => exact .floatLit hn
      | tyLit m => exact .tyLit hn
      | comptime s r => exact .comptimeBlock hn
      | noData k =>
        cases k with
        | missing => simp [Node.soundOk] at hs
        | boolLit => exact .dataLit hn rfl
        | strLit => exact .dataLit hn rfl
        | lambda => exact .dataLit hn rfl
        | «import» => exact .dataLit hn rfl
    | arrayLit isArr items =>
      cases isArr with
      | false => simp [arm] at ha
      | true =>
        simp only [arm, Step.cont.injEq] at ha
        obtain ⟨rfl, rfl⟩ := ha
        exact .arrayLit hn ihp
    | localGlobal ext fin body =>
      cases ext <;> cases fin <;> simp [arm] at ha
      obtain ⟨rfl, rfl⟩ := ha
      exact .constGlobal hn (ihg body rfl)
    | «local» m v =>
      cases m <;> cases v <;> simp [arm] at ha
      obtain ⟨rfl, rfl⟩ := ha
      exact .constLocal hn (ihp _ (by simp))
    | member pf prev ex ext fin body =>
      cases pf <;> cases ex <;> cases ext <;> cases fin <;> simp [arm] at ha
      obtain ⟨rfl, rfl⟩ := ha
      exact .importedGlobal hn (ihp prev (by simp)) (ihg body rfl)
    | comptimeParam i => exact .comptimeParam hn
    | other k cls m =>
      simp only [arm] at ha
      split at ha
      · cases ha
      · rename_i hcls
        simp only [Node.soundOk, Bool.or_eq_true, beq_iff_eq] at hs
        rcases hs with (hv | ht) | hc
        · exact absurd hv hcls
        · subst ht; exact .typeExpr hn
        · subst hc; exact .charLit hn

/-- const by the rule ⇒ validated by the walk (under the completeness guard) -/
theorem IsConst_MConst {p : Prog} (hp : p.completeOk = true) {e : Nat} (h : IsConst p e) :
    MConst p e := by
  induction h with
  | intLit hn => exact .mk (plain := []) (gb := none) hn (by simp [arm]) (by simp) (by simp)
  | floatLit hn => exact .mk (plain := []) (gb := none) hn (by simp [arm]) (by simp) (by simp)
  | tyLit hn => exact .mk (plain := []) (gb := none) hn (by simp [arm]) (by simp) (by simp)
  | dataLit hn _ => exact .mk (plain := []) (gb := none) hn (by simp [arm]) (by simp) (by simp)
  | @charLit e cls m hn =>
    have hc := completeOk_node hp hn
    have : cls ≠ .value := by simpa [Node.completeOk] using hc
    exact .mk (plain := []) (gb := none) hn (by simp [arm, this]) (by simp) (by simp)
  | @typeExpr e cls m hn =>
    have hc := completeOk_node hp hn
    have : cls ≠ .value := by simpa [Node.completeOk] using hc
    exact .mk (plain := []) (gb := none) hn (by simp [arm, this]) (by simp) (by simp)
  | @arrayLit e isArr items hn _ ih =>
    have hc := completeOk_node hp hn
    have : isArr = true := by simpa [Node.completeOk] using hc
    subst this
    exact .mk (plain := items) (gb := none) hn (by simp [arm]) ih (by simp)
  | comptimeBlock hn => exact .mk (plain := []) (gb := none) hn (by simp [arm]) (by simp) (by simp)
  | comptimeParam hn => exact .mk (plain := []) (gb := none) hn (by simp [arm]) (by simp) (by simp)
  | @constLocal e v hn _ ih =>
    exact .mk (plain := [v]) (gb := none) hn (by simp [arm]) (by simpa using ih) (by simp)
  | @constGlobal e fin b hn _ ih =>
    have hc := completeOk_node hp hn
    have : fin = true := by simpa [Node.completeOk] using hc
    subst this
    exact .mk (plain := []) (gb := some b) hn (by simp [arm]) (by simp) (by intro b' hb'; cases hb'; exact ih)
  | @importedGlobal e prev fin b hn _ _ ih1 ih2 =>
    have hc := completeOk_node hp hn
    have : fin = true := by simpa [Node.completeOk] using hc
    subst this
    exact .mk (plain := [prev]) (gb := some b) hn (by simp [arm]) (by simpa using ih1)
      (by intro b' hb'; cases hb'; exact ih2)

/-! ### acyclic programs -/

/-- `rank` strictly decreases along every reference the walk follows -/
def Ranked (p : Prog) (rank : Nat → Nat) : Prop :=
  ∀ e n plain gb, p.node? e = some n → arm n = .cont plain gb →
    (∀ c ∈ plain, rank c < rank e) ∧ (∀ b, gb = some b → rank b < rank e)

/-- queue invariant: validated entries whose ancestors all have a larger rank -/
def QInv (p : Prog) (rank : Nat → Nat) (q : List Ent) : Prop :=
  ∀ ent ∈ q, MConst p ent.e ∧ ∀ a ∈ ent.anc, rank ent.e < rank a

/-- on a ranked (acyclic) program a queue of validated entries is answered `Const` (or the fuel
runs out): the ancestor check never fires and no index dangles -/
theorem loop_of_MConst {p : Prog} {rank : Nat → Nat} (hr : Ranked p rank) :
    ∀ (f : Nat) (q : List Ent), QInv p rank q →
      loop p f q = .done .const ∨ loop p f q = .outOfFuel := by
  intro f
  induction f with
  | zero =>
    intro q _
    cases q with
    | nil => simp [loop]
    | cons a as => simp [loop]
  | succ f ih =>
    intro q hq
    cases q with
    | nil => simp [loop]
    | cons a rest =>
      have ⟨hM, hanc⟩ := hq a (by simp)
      have hrest : ∀ ent ∈ rest, MConst p ent.e ∧ ∀ x ∈ ent.anc, rank ent.e < rank x :=
        fun ent hm => hq ent (List.mem_cons_of_mem _ hm)
      cases hM with
      | @mk _ n plain gb hn ha hp hg =>
        have ⟨rp, rg⟩ := hr a.e n plain gb hn ha
        have kidInv : ∀ c, MConst p c → rank c < rank a.e →
            MConst p c ∧ ∀ x ∈ a.e :: a.anc, rank c < rank x := by
          intro c hc hlt
          refine ⟨hc, ?_⟩
          intro x hx
          rcases List.mem_cons.mp hx with rfl | hx
          · exact hlt
          · exact Nat.lt_trans hlt (hanc x hx)
        simp only [loop, hn, ha]
        cases gb with
        | none =>
          simp only
          apply ih
          intro ent hm
          rcases List.mem_append.mp hm with hm | hm
          · exact hrest ent hm
          · obtain ⟨c, hc, rfl⟩ := List.mem_map.mp hm
            exact kidInv c (hp c hc) (rp c hc)
        | some b =>
          simp only
          have hb : rank b < rank a.e := rg b rfl
          have notin : ¬ b ∈ a.e :: a.anc := by
            intro hm
            rcases List.mem_cons.mp hm with rfl | hm
            · exact Nat.lt_irrefl _ hb
            · exact Nat.lt_irrefl _ (Nat.lt_trans hb (hanc b hm))
          rw [if_neg notin]
          apply ih
          intro ent hm
          rcases List.mem_append.mp hm with hm | hm
          · rcases List.mem_append.mp hm with hm | hm
            · exact hrest ent hm
            · obtain ⟨c, hc, rfl⟩ := List.mem_map.mp hm
              exact kidInv c (hp c hc) (rp c hc)
          · have : ent = ⟨b, a.e :: a.anc⟩ := by simpa using hm
            subst this
            exact kidInv b (hg b rfl) hb

/-! ### the evaluator -/

theorem constData_Denotes (p : Prog) : ∀ (f e : Nat) (v : Val),
    MConst p e → constData p f e = .val v → Denotes p e v := by
  intro f
  induction f with
  | zero => intro e v _ h; simp [constData] at h
  | succ f ih =>
    intro e v hM h
    cases hM with
    | @mk _ n plain gb hn ha hp hg =>
      simp only [constData, hn] at h
      cases n with
      | atom a =>
        cases a with
        | intLit k => simp only [DataOut.val.injEq] at h; subst h; exact .intLit hn
        | floatLit b => simp only [DataOut.val.injEq] at h; subst h; exact .floatLit hn
        | tyLit m =>
          cases m with
          | none => simp at h
          | some m => simp only [DataOut.val.injEq] at h; subst h; exact .tyLit hn
        | comptime s r =>
          cases s with
          | false => simp at h
          | true => simp only [if_true, DataOut.val.injEq] at h; subst h; exact .comptimeBlock hn
        | noData k => simp at h
      | arrayLit isArr items => simp at h
      | localGlobal ext fin body =>
        cases ext <;> cases fin <;> simp [arm] at ha
        obtain ⟨rfl, rfl⟩ := ha
        exact .constGlobal hn (ih body v (hg body rfl) h)
      | «local» m val =>
        cases m <;> cases val <;> simp [arm] at ha
        obtain ⟨rfl, rfl⟩ := ha
        exact .constLocal hn (ih _ v (hp _ (by simp)) h)
      | member pf prev ex ext fin body =>
        cases pf <;> cases ex <;> cases ext <;> cases fin <;> simp [arm] at ha
        obtain ⟨rfl, rfl⟩ := ha
        simp only [if_true] at h
        exact .importedGlobal hn (ih body v (hg body rfl) h)
      | comptimeParam i =>
        cases ha' : p.args[i]? with
        | none => simp [ha'] at h
        | some x =>
          simp only [ha', DataOut.val.injEq] at h
          subst h
          exact .comptimeParam hn ha'
      | other k cls m =>
        by_cases hc : cls = .type
        · subst hc
          cases m with
          | none => simp at h
          | some t =>
            simp only [if_true, DataOut.val.injEq] at h
            subst h
            exact .typeExpr hn
        · simp [hc] at h

/-! ### termination on acyclic programs -/

def qcost (p : Prog) (rank : Nat → Nat) : List Ent → Nat
  | [] => 0
  | ent :: rest => cost p (rank ent.e) ent.e + qcost p rank rest

theorem qcost_append (p : Prog) (rank : Nat → Nat) (a b : List Ent) :
    qcost p rank (a ++ b) = qcost p rank a + qcost p rank b := by
  induction a with
  | nil => simp [qcost]
  | cons x xs ih => simp [qcost, ih, Nat.add_assoc]

theorem cost_mono (p : Prog) : ∀ (d d' e : Nat), d ≤ d' → cost p d e ≤ cost p d' e := by
  intro d
  induction d with
  | zero =>
    intro d' e _
    cases d' with
    | zero => exact Nat.le_refl _
    | succ d' => simp [cost]
  | succ d ih =>
    intro d' e h
    cases d' with
    | zero => omega
    | succ d' =>
      have h' : d ≤ d' := by omega
      simp only [cost]
      apply Nat.add_le_add_left
      generalize p.kidsOf e = ks
      induction ks with
      | nil => simp
      | cons k ks ihk =>
        simp only [List.map_cons, List.sum_cons]
        exact Nat.add_le_add (ih d' k h') ihk

/-- the entries pushed for the kids of a node cost less than the node -/
theorem kids_cost_lt (p : Prog) (rank : Nat → Nat) (anc : List Nat) (ks : List Nat)
    (d : Nat) (hk : ∀ c ∈ ks, rank c ≤ d) :
    qcost p rank (ks.map (fun c => (⟨c, anc⟩ : Ent))) ≤ (ks.map (cost p d)).sum := by
  induction ks with
  | nil => simp [qcost]
  | cons k ks ih =>
    simp only [List.map_cons, qcost, List.sum_cons]
    apply Nat.add_le_add
    · exact cost_mono p _ _ _ (hk k (by simp))
    · exact ih (fun c hc => hk c (List.mem_cons_of_mem _ hc))

theorem loop_terminates {p : Prog} {rank : Nat → Nat} (hr : Ranked p rank) :
    ∀ (f : Nat) (q : List Ent), qcost p rank q ≤ f → loop p f q ≠ .outOfFuel := by
  intro f
  induction f with
  | zero =>
    intro q h
    cases q with
    | nil => simp [loop]
    | cons a rest =>
      simp only [qcost] at h
      have : 1 ≤ cost p (rank a.e) a.e := by
        cases rank a.e <;> simp [cost]
      omega
  | succ f ih =>
    intro q h
    cases q with
    | nil => simp [loop]
    | cons a rest =>
      simp only [loop]
      cases hn : p.node? a.e with
      | none => simp
      | some n =>
        simp only
        cases ha : arm n with
        | ret r => simp
        | cont plain gb =>
          have ⟨rp, rg⟩ := hr a.e n plain gb hn ha
          have hkids : p.kidsOf a.e = plain ++ gb.toList := by
            simp [Prog.kidsOf, hn, kids, ha]
          -- the node has rank ≥ 1 as soon as it has a kid
          simp only [qcost] at h
          cases hrk : rank a.e with
          | zero =>
            have pe : plain = [] := by
              cases plain with
              | nil => rfl
              | cons c cs => have := rp c (by simp); omega
            have ge : gb = none := by
              cases gb with
              | none => rfl
              | some b => have := rg b rfl; omega
            subst pe ge
            simp only [List.map_nil, List.append_nil]
            apply ih
            have : 1 ≤ cost p (rank a.e) a.e := by
              cases rank a.e <;> simp [cost]
            omega
          | succ d =>
            rw [hrk] at h
            simp only [cost, hkids] at h
            have hle : ∀ c ∈ plain ++ gb.toList, rank c ≤ d := by
              intro c hc
              rcases List.mem_append.mp hc with hc | hc
              · have := rp c hc; omega
              · cases gb with
                | none => simp at hc
                | some b =>
                  have : c = b := by simpa using hc
                  subst this
                  have := rg c rfl; omega
            have hk := kids_cost_lt p rank (a.e :: a.anc) (plain ++ gb.toList) d hle
            cases gb with
            | none =>
              simp only
              apply ih
              rw [qcost_append]
              simp only [Option.toList, List.append_nil] at hk h
              omega
            | some b =>
              simp only
              split
              · simp
              · apply ih
                rw [qcost_append, qcost_append]
                simp only [Option.toList, List.map_append, List.map_cons, List.map_nil] at hk h
                rw [qcost_append] at hk
                omega

end CapyV.Const
