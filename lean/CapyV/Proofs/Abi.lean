import CapyV.Model.Abi
import CapyV.Spec.SysV
import CapyV.Proofs.Layout
/-! Helper definitions and lemmas for C19. -/
namespace CapyV.Abi
open CapyV CapyV.Layout CapyV.SysV

/-- psABI class ↦ the code's `Class` (MEMORY never occurs per eightbyte in the fragment) -/
def toClass : PClass → Class
  | .noClass => .noClass
  | .integer => .int
  | .sse => .sse
  | .memory => .noClass

mutual
/-- The fragment of C19: integers of width 8…64 and pointer-sized, bool, char, f32, f64,
pointers (`^T`, `rawptr`, `str`, function pointers), optional pointers, non-empty arrays and
non-empty structs of those (nested), distinct wrappers. At array nodes the guard
`size ≤ stride` is what C17's `stride_rounds_up` proves for every well-formed type whose
size fits `u32` arithmetic. -/
def frag : Ty → Bool
  | .iint w | .uint w => w == 8 || w == 16 || w == 32 || w == 64 || w == 255
  | .float w => w == 32 || w == 64
  | .bool | .char | .string | .rawPtr _ | .pointer _ _ | .fnPointer _ _ => true
  | .optional s => s.isPointer
  | .concreteArray n s | .anonArray n s => decide (1 ≤ n) && frag s && decide (size 64 s ≤ strideOf 64 s)
  | .concreteStruct _ ms | .anonStruct ms => fragMembers ms && decide (ms ≠ .nil)
  | .distinct _ s => frag s
  | _ => false
def fragMembers : Members → Bool
  | .nil => true
  | .cons _ t r => frag t && fragMembers r
end

/-- `classes[o/8] = classes[o/8].merge(c)` for every flattened scalar, in order -/
def mergeAll : List (Nat × PClass) → List Class → Option (List Class)
  | [], cls => some cls
  | (o, c) :: rest, cls =>
    match mergeAt cls (o / 8) (toClass c) with
    | none => none
    | some cls' => mergeAll rest cls'

theorem mergeAll_append (l1 l2 : List (Nat × PClass)) (cls : List Class) :
    mergeAll (l1 ++ l2) cls = (mergeAll l1 cls).bind (mergeAll l2) := by
  induction l1 generalizing cls with
  | nil => simp [mergeAll]
  | cons p rest ih =>
    obtain ⟨o, c⟩ := p
    simp only [List.cons_append, mergeAll]
    cases mergeAt cls (o / 8) (toClass c) with
    | none => simp
    | some c' => simpa using ih c'

theorem intArm_small (t : Ty) (cls : List Class) (off : Nat) (h : size 64 t ≤ 8) :
    intArm 64 t cls off = mergeAll [(off, .integer)] cls := by
  unfold intArm mergeAll
  simp only [toClass]
  cases mergeAt cls (off / 8) .int with
  | none => rfl
  | some c => simp [mergeAll]; omega

theorem forRange_walk (f : List Class → Nat → Option (List Class)) (g : Nat → List (Nat × PClass))
    (hfg : ∀ cls off, f cls off = mergeAll (g off) cls) (stride off : Nat) :
    ∀ k idx cls, forRange f stride off k idx cls = mergeAll (arrayScalars g stride off k idx) cls := by
  intro k
  induction k with
  | zero => intro idx cls; simp [forRange, arrayScalars, mergeAll]
  | succ k ih =>
    intro idx cls
    simp only [forRange, arrayScalars, mergeAll_append, hfg]
    cases mergeAll (g (off + idx * stride)) cls with
    | none => simp
    | some c => simpa using ih (idx + 1) c

mutual
/-- the recursive walk of `classify_eight_byte` is the in-order merge of the flattened scalars -/
theorem walk_ty : (t : Ty) → frag t = true → ∀ cls off,
    classifyEightByte 64 t cls off = mergeAll (scalars t off) cls
  | .iint w, _, cls, off => by
    have : size 64 (.iint w) ≤ 8 := by
      rename_i h; simp [frag] at h
      rcases h with (((h | h) | h) | h) | h <;> subst h <;> decide
    simpa [classifyEightByte, classifyEightByteG, scalars] using intArm_small _ cls off this
  | .uint w, _, cls, off => by
    have : size 64 (.uint w) ≤ 8 := by
      rename_i h; simp [frag] at h
      rcases h with (((h | h) | h) | h) | h <;> subst h <;> decide
    simpa [classifyEightByte, classifyEightByteG, scalars] using intArm_small _ cls off this
  | .float w, _, cls, off => by
    simp only [classifyEightByte, classifyEightByteG, scalars, mergeAll, toClass]
    cases mergeAt cls (off / 8) .sse <;> rfl
  | .bool, _, cls, off => by
    simpa [classifyEightByte, classifyEightByteG, scalars] using intArm_small .bool cls off (by decide)
  | .char, _, cls, off => by
    simpa [classifyEightByte, classifyEightByteG, scalars] using intArm_small .char cls off (by decide)
  | .string, _, cls, off => by
    simpa [classifyEightByte, classifyEightByteG, scalars] using intArm_small .string cls off (by decide)
  | .rawPtr m, _, cls, off => by
    simpa [classifyEightByte, classifyEightByteG, scalars] using
      intArm_small (.rawPtr m) cls off (by simp [size, layout])
  | .pointer m s, _, cls, off => by
    simpa [classifyEightByte, classifyEightByteG, scalars] using
      intArm_small (.pointer m s) cls off (by simp [size, layout])
  | .fnPointer ps r, _, cls, off => by
    simpa [classifyEightByte, classifyEightByteG, scalars] using
      intArm_small (.fnPointer ps r) cls off (by simp [size, layout])
  | .optional s, h, cls, off => by
    have hp : s.isPointer = true := by simpa [frag] using h
    have hs := isPointer_size 64 s hp
    have : size 64 (.optional s) ≤ 8 := by simp [size, layout, Ty.isNonZero, hp, hs]
    simpa [classifyEightByte, classifyEightByteG, scalars, Ty.isNonZero, hp] using intArm_small _ cls off this
  | .concreteArray n s, h, cls, off => by
    have h' : (1 ≤ n ∧ frag s = true) ∧ size 64 s ≤ strideOf 64 s := by simpa [frag] using h
    have hn : n ≠ 0 := by omega
    simp only [classifyEightByte, classifyEightByteG, scalars, hn, ne_eq, not_false_eq_true, if_true, sizeofC]
    exact forRange_walk _ _ (fun cls off => walk_ty s h'.1.2 cls off) _ _ n 0 cls
  | .anonArray n s, h, cls, off => by
    have h' : (1 ≤ n ∧ frag s = true) ∧ size 64 s ≤ strideOf 64 s := by simpa [frag] using h
    have hn : n ≠ 0 := by omega
    simp only [classifyEightByte, classifyEightByteG, scalars, hn, ne_eq, not_false_eq_true, if_true, sizeofC]
    exact forRange_walk _ _ (fun cls off => walk_ty s h'.1.2 cls off) _ _ n 0 cls
  | .concreteStruct _ ms, h, cls, off => by
    have h' : fragMembers ms = true := by simp [frag] at h; exact h.1
    simpa [classifyEightByte, classifyEightByteG, scalars] using walk_members ms h' 0 cls off
  | .anonStruct ms, h, cls, off => by
    have h' : fragMembers ms = true := by simp [frag] at h; exact h.1
    simpa [classifyEightByte, classifyEightByteG, scalars] using walk_members ms h' 0 cls off
  | .distinct _ s, h, cls, off => by
    have h' : frag s = true := by simpa [frag] using h
    simpa [classifyEightByte, classifyEightByteG, scalars] using walk_ty s h' cls off
  | .notYetResolved, h, _, _ | .unknown, h, _, _ | .slice _, h, _, _ | .type, h, _, _ | .any, h, _, _
  | .rawSlice, h, _, _ | .file _, h, _, _ | .naivePolyFn _, h, _, _ | .concreteFn _ _ _, h, _, _
  | .enum _ _, h, _, _ | .enumVariant _ _ _ _ _, h, _, _ | .nil, h, _, _ | .errorUnion _ _, h, _, _
  | .void, h, _, _ | .alwaysJumps, h, _, _ => by simp [frag] at h
theorem walk_members : (ms : Members) → fragMembers ms = true → ∀ cur cls off,
    classifyMembers 64 ms (structOffsets 64 ms cur) cls off =
      mergeAll (memberScalars ms (structOffsets 64 ms cur) off) cls
  | .nil, _, cur, cls, off => by simp [classifyMembers, classifyMembersG, structOffsets, memberScalars, mergeAll]
  | .cons _ t r, h, cur, cls, off => by
    have h' : frag t = true ∧ fragMembers r = true := by simpa [fragMembers] using h
    simp only [classifyMembers, classifyMembersG, structOffsets, memberScalars, mergeAll_append]
    rw [show classifyEightByteG true 64 t = classifyEightByte 64 t from rfl, walk_ty t h'.1]
    cases mergeAll (scalars t (off + (cur + padNeeded cur (align 64 t)))) cls with
    | none => simp
    | some c => simpa using walk_members r h'.2 _ c off
end

/-! ### every flattened scalar lies inside the object and is INTEGER or SSE -/

def ScalarOk (lo hi : Nat) (p : Nat × PClass) : Prop :=
  lo ≤ p.1 ∧ p.1 < hi ∧ (p.2 = .integer ∨ p.2 = .sse)

theorem ScalarOk.mono {lo hi lo' hi' : Nat} {p : Nat × PClass} (h : ScalarOk lo hi p)
    (h1 : lo' ≤ lo) (h2 : hi ≤ hi') : ScalarOk lo' hi' p :=
  ⟨by have := h.1; omega, by have := h.2.1; omega, h.2.2⟩

theorem structLayout_ge (pw : Nat) : (ms : Members) → (cur ma : Nat) → cur ≤ (structLayout pw ms cur ma).1
  | .nil, _, _ => by simp [structLayout]
  | .cons _ t r, cur, ma => by
    simp only [structLayout]
    have := structLayout_ge pw r (cur + padNeeded cur (layout pw t).2 + (layout pw t).1)
      (if (layout pw t).2 > ma then (layout pw t).2 else ma)
    omega

theorem arrayScalars_ok (g : Nat → List (Nat × PClass)) (sz stride off : Nat) (hsz : 0 < sz)
    (hle : sz ≤ stride)
    (hg : ∀ o, ∀ p ∈ g o, ScalarOk o (o + sz) p) :
    ∀ k idx, ∀ p ∈ arrayScalars g stride off k idx,
      ScalarOk (off + idx * stride) (off + (idx + k) * stride) p := by
  intro k
  induction k with
  | zero => intro idx p hp; simp [arrayScalars] at hp
  | succ k ih =>
    intro idx p hp
    simp only [arrayScalars, List.mem_append] at hp
    have e1 : (idx + (k + 1)) * stride = idx * stride + stride + k * stride := by
      rw [Nat.add_mul, Nat.add_mul]; omega
    rcases hp with hp | hp
    · refine (hg _ p hp).mono (Nat.le_refl _) ?_
      rw [e1]; omega
    · have := ih (idx + 1) p hp
      refine this.mono ?_ ?_
      · rw [Nat.add_mul]; omega
      · have e2 : (idx + 1 + k) * stride = idx * stride + stride + k * stride := by
          rw [Nat.add_mul, Nat.add_mul]; omega
        rw [e1, e2]; omega

theorem size_struct (pw uid : Nat) (ms : Members) :
    size pw (.concreteStruct uid ms) = (structLayout pw ms 0 1).1 ∧
    size pw (.anonStruct ms) = (structLayout pw ms 0 1).1 := by
  simp [size, layout]

mutual
theorem scalars_ok : (t : Ty) → frag t = true → 0 < size 64 t ∧ ∀ off, ∀ p ∈ scalars t off,
    ScalarOk off (off + size 64 t) p
  | .iint w, h => by
    simp [frag] at h
    rcases h with (((h | h) | h) | h) | h <;> subst h <;>
      simp [scalars, ScalarOk, size, layout, intSize, PTR_WIDTH_MARK]
  | .uint w, h => by
    simp [frag] at h
    rcases h with (((h | h) | h) | h) | h <;> subst h <;>
      simp [scalars, ScalarOk, size, layout, intSize, PTR_WIDTH_MARK]
  | .float w, h => by
    simp [frag] at h
    rcases h with h | h <;> subst h <;> simp [scalars, ScalarOk, size, layout, floatSize]
  | .bool, _ => by simp [scalars, ScalarOk, size, layout]
  | .char, _ => by simp [scalars, ScalarOk, size, layout]
  | .string, _ => by simp [scalars, ScalarOk, size, layout]
  | .rawPtr _, _ => by simp [scalars, ScalarOk, size, layout]
  | .pointer _ _, _ => by simp [scalars, ScalarOk, size, layout]
  | .fnPointer _ _, _ => by simp [scalars, ScalarOk, size, layout]
  | .optional s, h => by
    have hp : s.isPointer = true := by simpa [frag] using h
    have hs := isPointer_size 64 s hp
    simp [scalars, ScalarOk, size, layout, Ty.isNonZero, hp, hs]
  | .concreteArray n s, h => by
    have h' : (1 ≤ n ∧ frag s = true) ∧ size 64 s ≤ strideOf 64 s := by simpa [frag] using h
    have ih := scalars_ok s h'.1.2
    have hsz : size 64 (.concreteArray n s) = strideOf 64 s * n := by simp [size, align, strideOf, layout]
    refine ⟨?_, ?_⟩
    · rw [hsz]; exact Nat.mul_pos (by omega) (by omega)
    · intro off p hp
      have := arrayScalars_ok (scalars s) (size 64 s) (strideOf 64 s) off ih.1 h'.2 ih.2 n 0 p
        (by simpa [scalars, sizeofC] using hp)
      rw [hsz]
      simpa [Nat.mul_comm] using this
  | .anonArray n s, h => by
    have h' : (1 ≤ n ∧ frag s = true) ∧ size 64 s ≤ strideOf 64 s := by simpa [frag] using h
    have ih := scalars_ok s h'.1.2
    have hsz : size 64 (.anonArray n s) = strideOf 64 s * n := by simp [size, align, strideOf, layout]
    refine ⟨?_, ?_⟩
    · rw [hsz]; exact Nat.mul_pos (by omega) (by omega)
    · intro off p hp
      have := arrayScalars_ok (scalars s) (size 64 s) (strideOf 64 s) off ih.1 h'.2 ih.2 n 0 p
        (by simpa [scalars, sizeofC] using hp)
      rw [hsz]
      simpa [Nat.mul_comm] using this
  | .concreteStruct uid ms, h => by
    have h' : fragMembers ms = true ∧ ms ≠ .nil := by simpa [frag] using h
    have ih := members_ok ms h'.1 0 1
    rw [(size_struct 64 uid ms).1]
    refine ⟨ih.1 h'.2, ?_⟩
    intro off p hp
    have := ih.2 off p (by simpa [scalars] using hp)
    simpa using this
  | .anonStruct ms, h => by
    have h' : fragMembers ms = true ∧ ms ≠ .nil := by simpa [frag] using h
    have ih := members_ok ms h'.1 0 1
    rw [(size_struct 64 0 ms).2]
    refine ⟨ih.1 h'.2, ?_⟩
    intro off p hp
    have := ih.2 off p (by simpa [scalars] using hp)
    simpa using this
  | .distinct uid s, h => by
    have h' : frag s = true := by simpa [frag] using h
    have ih := scalars_ok s h'
    have e : size 64 (.distinct uid s) = size 64 s := by simp [size, layout]
    rw [e]
    exact ⟨ih.1, fun off p hp => ih.2 off p (by simpa [scalars] using hp)⟩
  | .notYetResolved, h | .unknown, h | .slice _, h | .type, h | .any, h
  | .rawSlice, h | .file _, h | .naivePolyFn _, h | .concreteFn _ _ _, h
  | .enum _ _, h | .enumVariant _ _ _ _ _, h | .nil, h | .errorUnion _ _, h
  | .void, h | .alwaysJumps, h => by simp [frag] at h
theorem members_ok : (ms : Members) → fragMembers ms = true → ∀ cur ma,
    (ms ≠ .nil → cur < (structLayout 64 ms cur ma).1) ∧
    ∀ off, ∀ p ∈ memberScalars ms (structOffsets 64 ms cur) off,
      ScalarOk (off + cur) (off + (structLayout 64 ms cur ma).1) p
  | .nil, _, cur, ma => by simp [memberScalars, structOffsets]
  | .cons _ t r, h, cur, ma => by
    have h' : frag t = true ∧ fragMembers r = true := by simpa [fragMembers] using h
    have iht := scalars_ok t h'.1
    have ihr := members_ok r h'.2 (cur + padNeeded cur (layout 64 t).2 + (layout 64 t).1)
      (if (layout 64 t).2 > ma then (layout 64 t).2 else ma)
    have hge := structLayout_ge 64 r (cur + padNeeded cur (layout 64 t).2 + (layout 64 t).1)
      (if (layout 64 t).2 > ma then (layout 64 t).2 else ma)
    have hs : size 64 t = (layout 64 t).1 := rfl
    have ha : align 64 t = (layout 64 t).2 := rfl
    refine ⟨fun _ => ?_, ?_⟩
    · simp only [structLayout]; omega
    · intro off p hp
      simp only [structLayout, structOffsets, memberScalars, List.mem_append] at hp ⊢
      rcases hp with hp | hp
      · have := iht.2 _ p hp
        refine this.mono (by omega) ?_
        rw [hs, ha]; omega
      · have := ihr.2 off p (by rw [hs, ha] at hp; exact hp)
        exact this.mono (by omega) (Nat.le_refl _)
end

/-! ### the merged array, index by index -/

/-- class of eightbyte `k` after merging the scalars of `l` lying in it into `a`, in order -/
def foldClass (l : List (Nat × PClass)) (k : Nat) (a : Class) : Class :=
  ((l.filter (fun p => p.1 / 8 == k)).map (fun p => toClass p.2)).foldl Class.merge a

theorem foldClass_cons (o : Nat) (c : PClass) (rest : List (Nat × PClass)) (k : Nat) (a : Class) :
    foldClass ((o, c) :: rest) k a =
      if o / 8 = k then foldClass rest k (a.merge (toClass c)) else foldClass rest k a := by
  unfold foldClass
  by_cases h : o / 8 = k <;> simp [List.filter_cons, h]

theorem mergeAll_spec (l : List (Nat × PClass)) : ∀ (cls : List Class),
    (∀ p ∈ l, p.1 / 8 < cls.length) →
    ∃ r, mergeAll l cls = some r ∧ r.length = cls.length ∧
      ∀ k, k < cls.length → r.getD k .noClass = foldClass l k (cls.getD k .noClass) := by
  induction l with
  | nil => intro cls _; exact ⟨cls, rfl, rfl, fun k _ => by simp [foldClass]⟩
  | cons p rest ih =>
    intro cls hb
    obtain ⟨o, c⟩ := p
    have hi : o / 8 < cls.length := hb (o, c) (by simp)
    simp only [mergeAll, mergeAt, hi, dite_true]
    obtain ⟨r, hr, hlen, hk⟩ := ih (cls.set (o / 8) ((cls[o / 8]'hi).merge (toClass c)))
      (fun p hp => by simpa using hb p (by simp [hp]))
    refine ⟨r, hr, by simpa using hlen, fun k hklt => ?_⟩
    rw [hk k (by simpa using hklt), foldClass_cons]
    by_cases h : o / 8 = k
    · subst h; simp [hi]
    · simp [h, List.getD_eq_getElem?_getD, List.getElem?_set_ne h]

theorem toClass_merge (a b : PClass) (ha : a ≠ .memory) (hb : b ≠ .memory) :
    (toClass a).merge (toClass b) = toClass (a.merge b) ∧ a.merge b ≠ .memory := by
  cases a <;> cases b <;> simp_all [toClass, Class.merge, PClass.merge]

theorem foldl_toClass (cs : List PClass) : ∀ (a : PClass), a ≠ .memory → (∀ c ∈ cs, c ≠ .memory) →
    (cs.map toClass).foldl Class.merge (toClass a) = toClass (cs.foldl PClass.merge a) ∧
      cs.foldl PClass.merge a ≠ .memory := by
  induction cs with
  | nil => intro a ha _; exact ⟨rfl, ha⟩
  | cons c rest ih =>
    intro a ha hc
    have h1 := toClass_merge a c ha (hc c (by simp))
    simp only [List.map_cons, List.foldl_cons, h1.1]
    exact ih _ h1.2 (fun c' hc' => hc c' (by simp [hc']))

/-- the code's per-index merge is the psABI class of that eightbyte -/
theorem foldClass_eq (l : List (Nat × PClass)) (k : Nat)
    (hl : ∀ p ∈ l, p.2 = .integer ∨ p.2 = .sse) :
    foldClass l k .noClass = toClass (eightbyteClass l k) ∧ eightbyteClass l k ≠ .memory := by
  unfold foldClass eightbyteClass
  have := foldl_toClass ((l.filter (fun p => p.1 / 8 == k)).map (·.2)) .noClass (by decide)
    (by
      intro c hc
      simp only [List.mem_map, List.mem_filter] at hc
      obtain ⟨p, ⟨hp, _⟩, rfl⟩ := hc
      rcases hl p hp with h | h <;> simp [h])
  simpa [List.map_map, Function.comp_def, toClass] using this

theorem foldClass_empty (l : List (Nat × PClass)) (k : Nat) (a : Class)
    (h : ∀ p ∈ l, p.1 / 8 ≠ k) : foldClass l k a = a := by
  unfold foldClass
  have : l.filter (fun p => p.1 / 8 == k) = [] := by
    simp only [List.filter_eq_nil_iff]
    intro p hp; simpa using h p hp
  simp [this]

theorem merge_ne_sseUp (a b : Class) (ha : a ≠ .sseUp) (hb : b ≠ .sseUp) : a.merge b ≠ .sseUp := by
  cases a <;> cases b <;> simp_all [Class.merge]

theorem foldClass_ne_sseUp (l : List (Nat × PClass)) (k : Nat) : ∀ a, a ≠ .sseUp → foldClass l k a ≠ .sseUp := by
  induction l with
  | nil => intro a ha; simpa [foldClass] using ha
  | cons p rest ih =>
    intro a ha
    obtain ⟨o, c⟩ := p
    rw [foldClass_cons]
    split
    · exact ih _ (merge_ne_sseUp _ _ ha (by cases c <;> simp [toClass]))
    · exact ih _ ha

theorem fixup_id (n : Nat) : ∀ fuel i (cls : List Class), (∀ k, cls.getD k .noClass ≠ .sseUp) →
    fixup n fuel i cls = cls := by
  intro fuel
  induction fuel with
  | zero => intro i cls _; rfl
  | succ fuel ih =>
    intro i cls h
    simp only [fixup]
    split
    · simp only [h i, if_false]
      split <;> exact ih _ _ h
    · rfl

/-! ### `classify_arg` against the psABI classification -/

/-- the eight classes the code keeps: the psABI classes of the object's eightbytes, NO_CLASS beyond -/
def pad8 (cs : List PClass) : List Class := cs.map toClass ++ List.replicate (8 - cs.length) .noClass

/-- what `classify_arg` must return for a psABI classification -/
def ofPsabi : Option (List PClass) → ArgClass
  | none => .memory
  | some cs => .classes (pad8 cs)

theorem list8_ext (r : List Class) (hlen : r.length = 8) (a0 a1 a2 a3 a4 a5 a6 a7 : Class)
    (h0 : r.getD 0 .noClass = a0) (h1 : r.getD 1 .noClass = a1) (h2 : r.getD 2 .noClass = a2)
    (h3 : r.getD 3 .noClass = a3) (h4 : r.getD 4 .noClass = a4) (h5 : r.getD 5 .noClass = a5)
    (h6 : r.getD 6 .noClass = a6) (h7 : r.getD 7 .noClass = a7) :
    r = [a0, a1, a2, a3, a4, a5, a6, a7] := by
  match r, hlen with
  | [b0, b1, b2, b3, b4, b5, b6, b7], _ =>
    simp at h0 h1 h2 h3 h4 h5 h6 h7
    simp [h0, h1, h2, h3, h4, h5, h6, h7]

theorem classifyArg_eq (t : Ty) (h : frag t = true)
    (hn : SysV.eightbytes t = (size 64 t + 7) / 8) :
    classifyArg 64 t = ofPsabi (SysV.classify t) := by
  have hok := scalars_ok t h
  have hpos := hok.1
  have hsc : ∀ p ∈ scalars t 0, p.1 < size 64 t ∧ (p.2 = .integer ∨ p.2 = .sse) := by
    intro p hp
    have := hok.2 0 p hp
    exact ⟨by simpa using this.2.1, this.2.2⟩
  have hcls : ∀ p ∈ scalars t 0, p.2 = .integer ∨ p.2 = .sse := fun p hp => (hsc p hp).2
  unfold classifyArg classifyArgG SysV.classify
  simp only []
  by_cases h8 : (size 64 t + 7) / 8 > 8
  · -- more than eight eightbytes
    have : sizeofC t > 16 := by unfold SysV.eightbytes at hn; omega
    simp [h8, this, ofPsabi]
  · have hb : ∀ p ∈ scalars t 0, p.1 / 8 < noClass8.length := by
      intro p hp
      have := (hsc p hp).1
      simp only [noClass8, List.length_replicate]; omega
    obtain ⟨r, hr, hlen, hk⟩ := mergeAll_spec (scalars t 0) noClass8 hb
    have hwalk : classifyEightByteG true 64 t noClass8 0 = some r := by
      rw [show classifyEightByteG true 64 t = classifyEightByte 64 t from rfl, walk_ty t h]; exact hr
    have hlen8 : r.length = 8 := by simpa [noClass8] using hlen
    have hget : ∀ k, k < 8 → r.getD k .noClass = foldClass (scalars t 0) k .noClass := by
      intro k hk8
      have := hk k (by simpa [noClass8] using hk8)
      rw [this]
      congr 1
      have : k = 0 ∨ k = 1 ∨ k = 2 ∨ k = 3 ∨ k = 4 ∨ k = 5 ∨ k = 6 ∨ k = 7 := by omega
      rcases this with h | h | h | h | h | h | h | h <;> subst h <;> rfl
    have hnoUp : ∀ k, r.getD k .noClass ≠ .sseUp := by
      intro k
      by_cases hk8 : k < 8
      · rw [hget k hk8]; exact foldClass_ne_sseUp _ _ _ (by decide)
      · have : r.length ≤ k := by omega
        simp [List.getD_eq_getElem?_getD, List.getElem?_eq_none this]
    have hbeyond : ∀ k, (size 64 t + 7) / 8 ≤ k → k < 8 → r.getD k .noClass = .noClass := by
      intro k hge hk8
      rw [hget k hk8]
      apply foldClass_empty
      intro p hp
      have := (hsc p hp).1
      omega
    simp only [h8, if_false, hwalk]
    by_cases h2 : (size 64 t + 7) / 8 > 2
    · -- 3..8 eightbytes: MEMORY on both sides
      have hC : sizeofC t > 16 := by unfold SysV.eightbytes at hn; omega
      simp only [h2, if_true, hC, ofPsabi]
      have hany : ((r.drop 1).take ((size 64 t + 7) / 8 - 1)).any (fun c => decide (c ≠ .sseUp)) = true := by
        match r, hlen8 with
        | [b0, b1, b2, b3, b4, b5, b6, b7], _ =>
          have h1 := hnoUp 1
          simp at h1
          have : (size 64 t + 7) / 8 - 1 = ((size 64 t + 7) / 8 - 2) + 1 := by omega
          rw [this]
          simp [List.take_succ_cons, h1]
      split
      · rfl
      · simp [hany]
    · -- one or two eightbytes
      have hC : ¬ sizeofC t > 16 := by unfold SysV.eightbytes at hn; omega
      simp only [h2, if_false, hC]
      rw [fixup_id _ _ _ _ hnoUp]
      have hn12 : (size 64 t + 7) / 8 = 1 ∨ (size 64 t + 7) / 8 = 2 := by omega
      have e0 := foldClass_eq (scalars t 0) 0 hcls
      have e1 := foldClass_eq (scalars t 0) 1 hcls
      rcases hn12 with hn1 | hn2
      · have hcs : (List.range (SysV.eightbytes t)).map (eightbyteClass (scalars t 0)) =
            [eightbyteClass (scalars t 0) 0] := by rw [hn, hn1]; rfl
        have hmem : ([eightbyteClass (scalars t 0) 0].any (· == PClass.memory)) = false := by
          simp [e0.2]
        simp only [hcs, hmem, ofPsabi, pad8]
        congr 1
        apply list8_ext r hlen8
        · rw [hget 0 (by omega)]; exact e0.1
        all_goals (first | exact hbeyond _ (by omega) (by omega))
      · have hcs : (List.range (SysV.eightbytes t)).map (eightbyteClass (scalars t 0)) =
            [eightbyteClass (scalars t 0) 0, eightbyteClass (scalars t 0) 1] := by rw [hn, hn2]; rfl
        have hmem : ([eightbyteClass (scalars t 0) 0, eightbyteClass (scalars t 0) 1].any (· == PClass.memory)) = false := by
          simp [e0.2, e1.2]
        simp only [hcs, hmem, ofPsabi, pad8]
        congr 1
        apply list8_ext r hlen8
        · rw [hget 0 (by omega)]; exact e0.1
        · rw [hget 1 (by omega)]; exact e1.1
        all_goals (first | exact hbeyond _ (by omega) (by omega))

/-! ### C's `sizeof` and Capy's `size` span the same number of eightbytes -/

theorem eightbytes_eq (t : Ty) (hwf : wf t = true) (hfit : size 64 t < 2 ^ 31) :
    SysV.eightbytes t = (size 64 t + 7) / 8 := by
  have ha := align_ok 64 (by decide) t hwf
  have hs := stride_spec (size 64 t) (align 64 t) ha (by
    have : align 64 t ≤ 8 := by rcases ha with h | h | h | h <;> simp only [align] <;> omega
    omega)
  unfold SysV.eightbytes sizeofC strideOf
  have ha' : align 64 t = (layout 64 t).2 := rfl
  rcases ha with h | h | h | h <;> rw [ha', h] at hs ⊢ <;> omega

/-! ### register assignment: the argument loop against "Passing" -/

def convLoc : Abi.Loc → SysV.Loc
  | .gpr n => .gpr n
  | .xmm n => .xmm n
  | .stack b => .stack b

def convRet : Abi.RetLoc → SysV.RetLoc
  | .none => .none
  | .sret => .sret
  | .regs l => .regs (l.map convLoc)

def convAssign (a : Abi.Assignment) : SysV.Assignment :=
  { ret := convRet a.ret, args := a.args.map fun (i, l) => (i, l.map convLoc) }

/-- One argument: from `g` integer and `x` vector registers used, the loop body of
`fn_ty_to_abi` (with `6 - g` / `8 - x` registers left) followed by Cranelift's assignment
puts the argument exactly where "Passing" puts it and leaves the same registers. -/
def StepOk (t : Ty) : Prop :=
  ∀ g x, g ≤ 6 → x ≤ 8 →
    ∃ pm g' x' l, argStep true 64 t (6 - g) (8 - x) = some (pm, 6 - g', 8 - x') ∧ g' ≤ 6 ∧ x' ≤ 8 ∧
      clArg pm g x = (l, g', x') ∧ passArg t g x = (l.map convLoc, g', x')

theorem argLoop_eq (ps : List Ty) : ∀ idx g x, g ≤ 6 → x ≤ 8 →
    (∀ t ∈ ps, t.isZeroSized = false ∧ StepOk t) →
    ∃ args, argLoop true 64 ps idx (6 - g) (8 - x) = some args ∧
      (clArgs args g x).map (fun (i, l) => (i, l.map convLoc)) = passArgs ps idx g x := by
  induction ps with
  | nil => intro idx g x _ _ _; exact ⟨[], rfl, rfl⟩
  | cons t rest ih =>
    intro idx g x hg hx hall
    obtain ⟨hz, hstep⟩ := hall t (by simp)
    obtain ⟨pm, g', x', l, h1, hg', hx', h2, h3⟩ := hstep g x hg hx
    obtain ⟨args, ha1, ha2⟩ := ih (idx + 1) g' x' hg' hx' (fun t' ht' => hall t' (by simp [ht']))
    refine ⟨(pm, idx) :: args, ?_, ?_⟩
    · simp [argLoop, hz, h1, ha1]
    · simp [clArgs, h2, passArgs, h3, ha2]

/-! ### one argument (`StepOk`) for every type of the fragment -/

theorem countClass_pad8_int (cs : List PClass) : countClass .int (pad8 cs) = SysV.count .integer cs := by
  unfold pad8 countClass SysV.count
  rw [List.filter_append]
  have : (List.replicate (8 - cs.length) Class.noClass).filter (fun c => decide (c = Class.int)) = [] := by
    simp [List.filter_eq_nil_iff]
  rw [this, List.append_nil]
  induction cs with
  | nil => rfl
  | cons c rest ih => cases c <;> simp_all [toClass, List.filter_cons]

theorem countClass_pad8_sse (cs : List PClass) : countClass .sse (pad8 cs) = SysV.count .sse cs := by
  unfold pad8 countClass SysV.count
  rw [List.filter_append]
  have : (List.replicate (8 - cs.length) Class.noClass).filter (fun c => decide (c = Class.sse)) = [] := by
    simp [List.filter_eq_nil_iff]
  rw [this, List.append_nil]
  induction cs with
  | nil => rfl
  | cons c rest ih => cases c <;> simp_all [toClass, List.filter_cons]

theorem nextMultipleOf8_eq (n : Nat) : nextMultipleOf8 n = roundUp8 n := rfl

/-- the integer component `reg_component` picks is a real integer register type -/
theorem intComp_ok (sz : Nat) : ∃ ty, (if sz < 8 then intWithByteSize (nextPow2 sz) else intWithByteSize 8) = some ty ∧
    ty.isFloat = false ∧ ty ≠ .i128 := by
  unfold nextPow2
  split
  · split
    · exact ⟨.i8, rfl, rfl, by decide⟩
    · split
      · exact ⟨.i16, rfl, rfl, by decide⟩
      · split
        · exact ⟨.i32, rfl, rfl, by decide⟩
        · exact ⟨.i64, rfl, rfl, by decide⟩
  · exact ⟨.i64, rfl, rfl, by decide⟩

theorem clParam_int (ty : IrTy) (hf : ty.isFloat = false) (h128 : ty ≠ .i128) (g x : Nat) :
    clParam ty g x = if g < 6 then ([.gpr g], g + 1, x) else ([.stack 8], g, x) := by
  simp [clParam, hf, h128]

theorem clParam_float (ty : IrTy) (hf : ty.isFloat = true) (g x : Nat) :
    clParam ty g x = if x < 8 then ([.xmm x], g, x + 1) else ([.stack 8], g, x) := by
  simp [clParam, hf]

/-- `split_aggregate` on the padded psABI classes of a one- or two-eightbyte aggregate, followed by
Cranelift's assignment of the component types, is `assignRegs` -/
theorem split_ok (t : Ty) (cs : List PClass) (hmem : ∀ c ∈ cs, c ≠ .memory)
    (hshape : (∃ c0, cs = [c0] ∧ c0 ≠ .noClass ∧ size 64 t ≤ 8) ∨
              (∃ c0 c1, cs = [c0, c1] ∧ c0 ≠ .noClass ∧ 8 < size 64 t)) :
    ∃ tys, splitAggregate 64 t (pad8 cs) = some tys ∧
      ∀ g x, g + SysV.count .integer cs ≤ 6 → x + SysV.count .sse cs ≤ 8 →
        ∃ l, clParams tys g x = (l, g + SysV.count .integer cs, x + SysV.count .sse cs) ∧
          l.map convLoc = assignRegs cs g x := by
  obtain ⟨ity, hity, hif, hi128⟩ := intComp_ok (size 64 t)
  obtain ⟨ity2, hity2, hif2, hi1282⟩ := intComp_ok (size 64 t - 1 * 8)
  rcases hshape with ⟨c0, rfl, hc0, hsz⟩ | ⟨c0, c1, rfl, hc0, hsz⟩
  · have hm0 := hmem c0 (by simp)
    have hnot : ¬ size 64 t > 1 * 8 := by omega
    cases c0 with
    | noClass => exact absurd rfl hc0
    | memory => exact absurd rfl hm0
    | integer =>
      refine ⟨[ity], ?_, ?_⟩
      · simp [splitAggregate, regComponent, pad8, toClass, hity, hnot]
      · intro g x hg hx
        simp [SysV.count] at hg hx
        refine ⟨[.gpr g], ?_, by simp [convLoc, assignRegs]⟩
        simp [clParams, clParam_int ity hif hi128, SysV.count, show g < 6 by omega]
    | sse =>
      refine ⟨[if size 64 t = 4 then .f32 else .f64], ?_, ?_⟩
      · simp [splitAggregate, regComponent, pad8, toClass, hnot]
      · intro g x hg hx
        simp [SysV.count] at hg hx
        refine ⟨[.xmm x], ?_, by simp [convLoc, assignRegs]⟩
        have hfl : (if size 64 t = 4 then IrTy.f32 else IrTy.f64).isFloat = true := by split <;> rfl
        simp [clParams, clParam_float _ hfl, SysV.count, show x < 8 by omega]
  · have hm0 := hmem c0 (by simp)
    have hm1 := hmem c1 (by simp)
    have hgt : size 64 t > 1 * 8 := by omega
    have hfl : ∀ n : Nat, (if n = 4 then IrTy.f32 else IrTy.f64).isFloat = true := by intro n; split <;> rfl
    cases c0 with
    | noClass => exact absurd rfl hc0
    | memory => exact absurd rfl hm0
    | integer =>
      cases c1 with
      | memory => exact absurd rfl hm1
      | noClass =>
        refine ⟨[ity], by simp [splitAggregate, regComponent, pad8, toClass, hity, hgt], ?_⟩
        intro g x hg hx
        simp [SysV.count] at hg hx
        refine ⟨[.gpr g], ?_, by simp [convLoc, assignRegs]⟩
        simp [clParams, clParam_int ity hif hi128, SysV.count, show g < 6 by omega]
      | integer =>
        refine ⟨[ity, ity2], by simp [splitAggregate, regComponent, pad8, toClass, hity, hity2, hgt], ?_⟩
        intro g x hg hx
        simp [SysV.count] at hg hx
        refine ⟨[.gpr g, .gpr (g + 1)], ?_, by simp [convLoc, assignRegs]⟩
        simp [clParams, clParam_int ity hif hi128, clParam_int ity2 hif2 hi1282, SysV.count,
          show g < 6 by omega, show g + 1 < 6 by omega]
      | sse =>
        refine ⟨[ity, if size 64 t - 1 * 8 = 4 then .f32 else .f64],
          by simp [splitAggregate, regComponent, pad8, toClass, hity, hgt], ?_⟩
        intro g x hg hx
        simp [SysV.count] at hg hx
        refine ⟨[.gpr g, .xmm x], ?_, by simp [convLoc, assignRegs]⟩
        simp [clParams, clParam_int ity hif hi128, clParam_float _ (hfl _), SysV.count,
          show g < 6 by omega, show x < 8 by omega]
    | sse =>
      cases c1 with
      | memory => exact absurd rfl hm1
      | noClass =>
        refine ⟨[if size 64 t = 4 then .f32 else .f64],
          by simp [splitAggregate, regComponent, pad8, toClass, hgt], ?_⟩
        intro g x hg hx
        simp [SysV.count] at hg hx
        refine ⟨[.xmm x], ?_, by simp [convLoc, assignRegs]⟩
        simp [clParams, clParam_float _ (hfl _), SysV.count, show x < 8 by omega]
      | integer =>
        refine ⟨[if size 64 t = 4 then .f32 else .f64, ity2],
          by simp [splitAggregate, regComponent, pad8, toClass, hity2, hgt], ?_⟩
        intro g x hg hx
        simp [SysV.count] at hg hx
        refine ⟨[.xmm x, .gpr g], ?_, by simp [convLoc, assignRegs]⟩
        simp [clParams, clParam_int ity2 hif2 hi1282, clParam_float _ (hfl _), SysV.count,
          show g < 6 by omega, show x < 8 by omega]
      | sse =>
        refine ⟨[if size 64 t = 4 then .f32 else .f64, if size 64 t - 1 * 8 = 4 then .f32 else .f64],
          by simp [splitAggregate, regComponent, pad8, toClass, hgt], ?_⟩
        intro g x hg hx
        simp [SysV.count] at hg hx
        refine ⟨[.xmm x, .xmm (x + 1)], ?_, by simp [convLoc, assignRegs]⟩
        simp [clParams, clParam_float _ (hfl _), SysV.count, show x < 8 by omega, show x + 1 < 8 by omega]

theorem padNeeded_zero (a : Nat) : padNeeded 0 a = 0 := by simp [padNeeded]

/-- the first scalar of a fragment object sits at its first byte -/
theorem scalars_head : (t : Ty) → frag t = true → ∀ off, ∃ c rest, scalars t off = (off, c) :: rest
  | .iint _, _, off | .uint _, _, off | .bool, _, off | .char, _, off | .string, _, off
  | .rawPtr _, _, off | .pointer _ _, _, off | .fnPointer _ _, _, off | .optional _, _, off =>
    ⟨.integer, [], by simp [scalars]⟩
  | .float _, _, off => ⟨.sse, [], by simp [scalars]⟩
  | .concreteArray (n + 1) s, h, off => by
    have h' : frag s = true := by simp [frag] at h; exact h.1
    obtain ⟨c, rest, hc⟩ := scalars_head s h' off
    exact ⟨c, rest ++ arrayScalars (scalars s) (sizeofC s) off n 1, by simp [scalars, arrayScalars, hc]⟩
  | .anonArray (n + 1) s, h, off => by
    have h' : frag s = true := by simp [frag] at h; exact h.1
    obtain ⟨c, rest, hc⟩ := scalars_head s h' off
    exact ⟨c, rest ++ arrayScalars (scalars s) (sizeofC s) off n 1, by simp [scalars, arrayScalars, hc]⟩
  | .concreteStruct _ (.cons _ t r), h, off => by
    have h' : frag t = true := by simp [frag, fragMembers] at h; exact h.1
    obtain ⟨c, rest, hc⟩ := scalars_head t h' off
    exact ⟨c, rest ++ memberScalars r (structOffsets 64 r (0 + padNeeded 0 (align 64 t) + size 64 t)) off,
      by simp [scalars, memberScalars, structOffsets, padNeeded_zero, hc]⟩
  | .anonStruct (.cons _ t r), h, off => by
    have h' : frag t = true := by simp [frag, fragMembers] at h; exact h.1
    obtain ⟨c, rest, hc⟩ := scalars_head t h' off
    exact ⟨c, rest ++ memberScalars r (structOffsets 64 r (0 + padNeeded 0 (align 64 t) + size 64 t)) off,
      by simp [scalars, memberScalars, structOffsets, padNeeded_zero, hc]⟩
  | .distinct _ s, h, off => by
    have h' : frag s = true := by simpa [frag] using h
    obtain ⟨c, rest, hc⟩ := scalars_head s h' off
    exact ⟨c, rest, by simp [scalars, hc]⟩
  | .concreteArray 0 _, h, _ | .anonArray 0 _, h, _ | .concreteStruct _ .nil, h, _ | .anonStruct .nil, h, _ => by
    simp [frag] at h
  | .notYetResolved, h, _ | .unknown, h, _ | .slice _, h, _ | .type, h, _ | .any, h, _
  | .rawSlice, h, _ | .file _, h, _ | .naivePolyFn _, h, _ | .concreteFn _ _ _, h, _
  | .enum _ _, h, _ | .enumVariant _ _ _ _ _, h, _ | .nil, h, _ | .errorUnion _ _, h, _
  | .void, h, _ | .alwaysJumps, h, _ => by simp [frag] at h

theorem pmerge_ne_noClass (a b : PClass) (ha : a ≠ .noClass) : a.merge b ≠ .noClass := by
  cases a <;> cases b <;> simp_all [PClass.merge]

theorem foldl_pmerge_ne_noClass (l : List PClass) : ∀ a, a ≠ .noClass → l.foldl PClass.merge a ≠ .noClass := by
  induction l with
  | nil => intro a ha; simpa using ha
  | cons c rest ih => intro a ha; simpa using ih _ (pmerge_ne_noClass a c ha)

/-- the first eightbyte of a fragment object is never NO_CLASS -/
theorem eightbyte0_ne_noClass (t : Ty) (h : frag t = true) : eightbyteClass (scalars t 0) 0 ≠ .noClass := by
  obtain ⟨c, rest, hc⟩ := scalars_head t h 0
  have hc' : c = .integer ∨ c = .sse := by
    have := (scalars_ok t h).2 0 (0, c) (by simp [hc])
    exact this.2.2
  rw [hc]
  unfold eightbyteClass
  simp only [List.filter_cons, show ((0 : Nat) / 8 == 0) = true by decide, if_true, List.map_cons, List.foldl_cons]
  apply foldl_pmerge_ne_noClass
  rcases hc' with h | h <;> subst h <;> decide

mutual
theorem frag_not_zero : (t : Ty) → frag t = true → t.isZeroSized = false
  | .iint _, _ | .uint _, _ | .bool, _ | .char, _ | .string, _ | .float _, _
  | .rawPtr _, _ | .pointer _ _, _ | .fnPointer _ _, _ | .optional _, _ | .anonArray _ _, _
  | .anonStruct _, _ => by simp [Ty.isZeroSized]
  | .concreteArray n s, h => by
    have h' : (1 ≤ n ∧ frag s = true) ∧ size 64 s ≤ strideOf 64 s := by simpa [frag] using h
    have := frag_not_zero s h'.1.2
    have hn : n ≠ 0 := by omega
    simp [Ty.isZeroSized, this, hn]
  | .concreteStruct _ ms, h => by
    have h' : fragMembers ms = true ∧ ms ≠ .nil := by simpa [frag] using h
    simpa [Ty.isZeroSized] using members_not_zero ms h'.1 h'.2
  | .distinct _ s, h => by
    have h' : frag s = true := by simpa [frag] using h
    simpa [Ty.isZeroSized] using frag_not_zero s h'
  | .notYetResolved, h | .unknown, h | .slice _, h | .type, h | .any, h
  | .rawSlice, h | .file _, h | .naivePolyFn _, h | .concreteFn _ _ _, h
  | .enum _ _, h | .enumVariant _ _ _ _ _, h | .nil, h | .errorUnion _ _, h
  | .void, h | .alwaysJumps, h => by simp [frag] at h
theorem members_not_zero : (ms : Members) → fragMembers ms = true → ms ≠ .nil →
    Ty.membersAllZeroSized ms = false
  | .nil, _, hne => absurd rfl hne
  | .cons _ t r, h, _ => by
    have h' : frag t = true ∧ fragMembers r = true := by simpa [fragMembers] using h
    simp [Ty.membersAllZeroSized, frag_not_zero t h'.1]
end

/-- what a non-aggregate (scalar) type of the fragment looks like to both sides -/
theorem scalar_facts : (t : Ty) → frag t = true → t.isAggregate = false →
    ∃ c ty, (c = .integer ∨ c = .sse) ∧ (∀ off, scalars t off = [(off, c)]) ∧ realTy 64 t = some ty ∧
      ty.isFloat = (c == .sse) ∧ ty ≠ .i128 ∧ size 64 t ≤ 8 ∧ roundUp8 (sizeofC t) = 8
  | .iint w, h, _ => by
    simp [frag] at h
    rcases h with (((h | h) | h) | h) | h <;> subst h <;>
      exact ⟨.integer, _, Or.inl rfl, fun _ => rfl, rfl, rfl, by decide, by decide, by decide⟩
  | .uint w, h, _ => by
    simp [frag] at h
    rcases h with (((h | h) | h) | h) | h <;> subst h <;>
      exact ⟨.integer, _, Or.inl rfl, fun _ => rfl, rfl, rfl, by decide, by decide, by decide⟩
  | .float w, h, _ => by
    simp [frag] at h
    rcases h with h | h <;> subst h <;>
      exact ⟨.sse, _, Or.inr rfl, fun _ => rfl, rfl, rfl, by decide, by decide, by decide⟩
  | .bool, _, _ => ⟨.integer, _, Or.inl rfl, fun _ => rfl, rfl, rfl, by decide, by decide, by decide⟩
  | .char, _, _ => ⟨.integer, _, Or.inl rfl, fun _ => rfl, rfl, rfl, by decide, by decide, by decide⟩
  | .string, _, _ => ⟨.integer, .i64, Or.inl rfl, fun _ => rfl, rfl, rfl, by decide, by decide, by decide⟩
  | .rawPtr _, _, _ => ⟨.integer, .i64, Or.inl rfl, fun _ => rfl, rfl, rfl, by decide,
      by simp [size, layout], by simp [sizeofC, strideOf, size, align, layout, stride, roundUp8]⟩
  | .pointer _ _, _, _ => ⟨.integer, .i64, Or.inl rfl, fun _ => rfl, rfl, rfl, by decide,
      by simp [size, layout], by simp [sizeofC, strideOf, size, align, layout, stride, roundUp8]⟩
  | .fnPointer _ _, _, _ => ⟨.integer, .i64, Or.inl rfl, fun _ => rfl, rfl, rfl, by decide,
      by simp [size, layout], by simp [sizeofC, strideOf, size, align, layout, stride, roundUp8]⟩
  | .optional s, h, _ => by
    have hp : s.isPointer = true := by simpa [frag] using h
    have hs := isPointer_size 64 s hp
    refine ⟨.integer, .i64, Or.inl rfl, fun _ => rfl, by simp [realTy, Ty.isZeroSized, ptrTy], rfl, by decide, ?_, ?_⟩
    · simp [size, layout, Ty.isNonZero, hp, hs]
    · simp [sizeofC, strideOf, size, align, layout, Ty.isNonZero, hp, hs, stride, roundUp8]
  | .distinct uid s, h, ha => by
    have h' : frag s = true := by simpa [frag] using h
    have ha' : s.isAggregate = false := by simpa [Ty.isAggregate, Ty.absoluteTy] using ha
    obtain ⟨c, ty, h1, h2, h3, h4, h5, h6, h7⟩ := scalar_facts s h' ha'
    refine ⟨c, ty, h1, fun off => by simp [scalars, h2], by simpa [realTy] using h3, h4, h5, ?_, ?_⟩
    · simpa [size, layout] using h6
    · simpa [sizeofC, strideOf, size, align, layout] using h7
  | .concreteArray _ _, _, ha | .anonArray _ _, _, ha | .concreteStruct _ _, _, ha | .anonStruct _, _, ha => by
    simp [Ty.isAggregate, Ty.absoluteTy] at ha
  | .notYetResolved, h, _ | .unknown, h, _ | .slice _, h, _ | .type, h, _ | .any, h, _
  | .rawSlice, h, _ | .file _, h, _ | .naivePolyFn _, h, _ | .concreteFn _ _ _, h, _
  | .enum _ _, h, _ | .enumVariant _ _ _ _ _, h, _ | .nil, h, _ | .errorUnion _ _, h, _
  | .void, h, _ | .alwaysJumps, h, _ => by simp [frag] at h

/-- the psABI classification of a fragment object that is not MEMORY: one or two eightbytes,
none of them MEMORY, the first one classified -/
theorem classify_shape (t : Ty) (h : frag t = true) (hn : SysV.eightbytes t = (size 64 t + 7) / 8)
    (cs : List PClass) (hc : SysV.classify t = some cs) :
    (∀ c ∈ cs, c ≠ .memory) ∧
    ((cs = [eightbyteClass (scalars t 0) 0] ∧ size 64 t ≤ 8) ∨
     (cs = [eightbyteClass (scalars t 0) 0, eightbyteClass (scalars t 0) 1] ∧ 8 < size 64 t)) ∧
    eightbyteClass (scalars t 0) 0 ≠ .noClass := by
  have hpos := (scalars_ok t h).1
  have hcls : ∀ p ∈ scalars t 0, p.2 = .integer ∨ p.2 = .sse := fun p hp => ((scalars_ok t h).2 0 p hp).2.2
  have e0 := (foldClass_eq (scalars t 0) 0 hcls).2
  have e1 := (foldClass_eq (scalars t 0) 1 hcls).2
  unfold SysV.classify at hc
  by_cases hC : sizeofC t > 16
  · simp [hC] at hc
  · simp only [hC, if_false] at hc
    have hn12 : SysV.eightbytes t = 1 ∨ SysV.eightbytes t = 2 := by
      have : (sizeofC t + 7) / 8 = (size 64 t + 7) / 8 := hn
      unfold SysV.eightbytes; omega
    refine ⟨?_, ?_, eightbyte0_ne_noClass t h⟩
    · rcases hn12 with h1 | h2
      · rw [h1] at hc
        have : cs = [eightbyteClass (scalars t 0) 0] := by
          have : (List.range 1) = [0] := rfl
          simp [this] at hc; exact hc.2.symm
        subst this; intro c hcm; simp at hcm; subst hcm; exact e0
      · rw [h2] at hc
        have : cs = [eightbyteClass (scalars t 0) 0, eightbyteClass (scalars t 0) 1] := by
          have : (List.range 2) = [0, 1] := rfl
          simp [this] at hc; exact hc.2.symm
        subst this; intro c hcm; simp at hcm; rcases hcm with rfl | rfl <;> assumption
    · rcases hn12 with h1 | h2
      · left
        rw [h1] at hc
        have hr : (List.range 1) = [0] := rfl
        refine ⟨?_, by rw [hn] at h1; omega⟩
        simp [hr] at hc; exact hc.2.symm
      · right
        rw [h2] at hc
        have hr : (List.range 2) = [0, 1] := rfl
        refine ⟨?_, by rw [hn] at h2; omega⟩
        simp [hr] at hc; exact hc.2.symm

theorem stepOk_of_frag (t : Ty) (h : frag t = true) (hn : SysV.eightbytes t = (size 64 t + 7) / 8) :
    StepOk t := by
  intro g x hg hx
  have hcl : classifyArgG true 64 t = ofPsabi (SysV.classify t) := classifyArg_eq t h hn
  unfold argStep passArg
  rw [hcl]
  cases hc : SysV.classify t with
  | none =>
    refine ⟨.indirect (some (nextMultipleOf8 (strideOf 64 t))), g, x, [.stack (nextMultipleOf8 (strideOf 64 t))], ?_⟩
    simp [ofPsabi, clArg, convLoc, nextMultipleOf8_eq, sizeofC, hg, hx]
  | some cs =>
    obtain ⟨hmem, hshape, hne⟩ := classify_shape t h hn cs hc
    simp only [ofPsabi, countClass_pad8_int, countClass_pad8_sse]
    by_cases hfit : g + SysV.count .integer cs ≤ 6 ∧ x + SysV.count .sse cs ≤ 8
    · have hfit' : SysV.count .integer cs ≤ 6 - g ∧ SysV.count .sse cs ≤ 8 - x := by omega
      simp only [hfit, hfit', and_self, if_true]
      cases hagg : t.isAggregate with
      | true =>
        have hshape' : (∃ c0, cs = [c0] ∧ c0 ≠ .noClass ∧ size 64 t ≤ 8) ∨
            (∃ c0 c1, cs = [c0, c1] ∧ c0 ≠ .noClass ∧ 8 < size 64 t) := by
          rcases hshape with ⟨h1, h2⟩ | ⟨h1, h2⟩
          · exact Or.inl ⟨_, h1, hne, h2⟩
          · exact Or.inr ⟨_, _, h1, hne, h2⟩
        obtain ⟨tys, hsplit, hcl2⟩ := split_ok t cs hmem hshape'
        obtain ⟨l, hl1, hl2⟩ := hcl2 g x hfit.1 hfit.2
        refine ⟨.cast tys, g + SysV.count .integer cs, x + SysV.count .sse cs, l, ?_, hfit.1, hfit.2, ?_, ?_⟩
        · simp [pushDirect, hagg, hsplit, Nat.sub_sub]
        · simpa [clArg] using hl1
        · simp [hl2]
      | false =>
        obtain ⟨c, ty, hcI, hsc, hreal, hfl, h128, hsz, hru⟩ := scalar_facts t h hagg
        have hcs : cs = [c] := by
          rcases hshape with ⟨h1, _⟩ | ⟨_, h2⟩
          · rw [h1, hsc 0]; rcases hcI with rfl | rfl <;> rfl
          · omega
        subst hcs
        rcases hcI with rfl | rfl
        · have hf : ty.isFloat = false := by rw [hfl]; rfl
          simp [SysV.count] at hfit
          refine ⟨.direct ty, g + 1, x, [.gpr g], ?_, by omega, hx, ?_, ?_⟩
          · simp [pushDirect, hagg, hreal, SysV.count]; omega
          · simp [clArg, clParam_int ty hf h128, show g < 6 by omega]
          · simp [SysV.count, assignRegs, convLoc]
        · have hf : ty.isFloat = true := by rw [hfl]; rfl
          simp [SysV.count] at hfit
          refine ⟨.direct ty, g, x + 1, [.xmm x], ?_, hg, by omega, ?_, ?_⟩
          · simp [pushDirect, hagg, hreal, SysV.count]; omega
          · simp [clArg, clParam_float ty hf, show x < 8 by omega]
          · simp [SysV.count, assignRegs, convLoc]
    · have hfit' : ¬ (SysV.count .integer cs ≤ 6 - g ∧ SysV.count .sse cs ≤ 8 - x) := by omega
      simp only [hfit, hfit', if_false]
      cases hagg : t.isAggregate with
      | true =>
        refine ⟨.indirect (some (nextMultipleOf8 (strideOf 64 t))), g, x, [.stack (nextMultipleOf8 (strideOf 64 t))], ?_⟩
        simp [clArg, convLoc, nextMultipleOf8_eq, sizeofC, hg, hx]
      | false =>
        obtain ⟨c, ty, hcI, hsc, hreal, hfl, h128, hsz, hru⟩ := scalar_facts t h hagg
        have hcs : cs = [c] := by
          rcases hshape with ⟨h1, _⟩ | ⟨_, h2⟩
          · rw [h1, hsc 0]; rcases hcI with rfl | rfl <;> rfl
          · omega
        subst hcs
        rcases hcI with rfl | rfl
        · have hf : ty.isFloat = false := by rw [hfl]; rfl
          simp [SysV.count] at hfit
          refine ⟨.direct ty, g, x, [.stack 8], ?_, hg, hx, ?_, ?_⟩
          · simp [hreal]
          · simp [clArg, clParam_int ty hf h128, show ¬ g < 6 by omega]
          · simp [convLoc, hru]
        · have hf : ty.isFloat = true := by rw [hfl]; rfl
          simp [SysV.count] at hfit
          refine ⟨.direct ty, g, x, [.stack 8], ?_, hg, hx, ?_, ?_⟩
          · simp [hreal]
          · simp [clArg, clParam_float ty hf, show ¬ x < 8 by omega]
          · simp [convLoc, hru]

/-! ### the return value and the whole signature -/

theorem split_ret_ok (t : Ty) (cs : List PClass) (hmem : ∀ c ∈ cs, c ≠ .memory)
    (hshape : (∃ c0, cs = [c0] ∧ c0 ≠ .noClass ∧ size 64 t ≤ 8) ∨
              (∃ c0 c1, cs = [c0, c1] ∧ c0 ≠ .noClass ∧ 8 < size 64 t)) :
    ∃ tys, splitAggregate 64 t (pad8 cs) = some tys ∧ (clRets tys 0 0).map convLoc = assignRegs cs 0 0 := by
  obtain ⟨ity, hity, hif, hi128⟩ := intComp_ok (size 64 t)
  obtain ⟨ity2, hity2, hif2, hi1282⟩ := intComp_ok (size 64 t - 1 * 8)
  have hfl : ∀ n : Nat, (if n = 4 then IrTy.f32 else IrTy.f64).isFloat = true := by intro n; split <;> rfl
  rcases hshape with ⟨c0, rfl, hc0, hsz⟩ | ⟨c0, c1, rfl, hc0, hsz⟩
  · have hm0 := hmem c0 (by simp)
    have hnot : ¬ size 64 t > 1 * 8 := by omega
    cases c0 with
    | noClass => exact absurd rfl hc0
    | memory => exact absurd rfl hm0
    | integer =>
      exact ⟨[ity], by simp [splitAggregate, regComponent, pad8, toClass, hity, hnot],
        by simp [clRets, hif, convLoc, assignRegs]⟩
    | sse =>
      exact ⟨[if size 64 t = 4 then .f32 else .f64], by simp [splitAggregate, regComponent, pad8, toClass, hnot],
        by simp [clRets, hfl, convLoc, assignRegs]⟩
  · have hm0 := hmem c0 (by simp)
    have hm1 := hmem c1 (by simp)
    have hgt : size 64 t > 1 * 8 := by omega
    cases c0 with
    | noClass => exact absurd rfl hc0
    | memory => exact absurd rfl hm0
    | integer =>
      cases c1 with
      | memory => exact absurd rfl hm1
      | noClass =>
        exact ⟨[ity], by simp [splitAggregate, regComponent, pad8, toClass, hity, hgt],
          by simp [clRets, hif, convLoc, assignRegs]⟩
      | integer =>
        exact ⟨[ity, ity2], by simp [splitAggregate, regComponent, pad8, toClass, hity, hity2, hgt],
          by simp [clRets, hif, hif2, convLoc, assignRegs]⟩
      | sse =>
        exact ⟨[ity, if size 64 t - 1 * 8 = 4 then .f32 else .f64],
          by simp [splitAggregate, regComponent, pad8, toClass, hity, hgt],
          by simp [clRets, hif, hfl, convLoc, assignRegs]⟩
    | sse =>
      cases c1 with
      | memory => exact absurd rfl hm1
      | noClass =>
        exact ⟨[if size 64 t = 4 then .f32 else .f64],
          by simp [splitAggregate, regComponent, pad8, toClass, hgt],
          by simp [clRets, hfl, convLoc, assignRegs]⟩
      | integer =>
        exact ⟨[if size 64 t = 4 then .f32 else .f64, ity2],
          by simp [splitAggregate, regComponent, pad8, toClass, hity2, hgt],
          by simp [clRets, hif2, hfl, convLoc, assignRegs]⟩
      | sse =>
        exact ⟨[if size 64 t = 4 then .f32 else .f64, if size 64 t - 1 * 8 = 4 then .f32 else .f64],
          by simp [splitAggregate, regComponent, pad8, toClass, hgt],
          by simp [clRets, hfl, convLoc, assignRegs]⟩

/-- a parameter / result type the theorems speak about: in the fragment, well-formed (C17's `wf`),
small enough for the `u32` layout arithmetic, and laid out as C lays it out (`cLayoutAgrees`:
no nested struct member with tail padding — only then is `SysV.scalars` the flattening of the C type) -/
def Good (t : Ty) : Prop := frag t = true ∧ wf t = true ∧ size 64 t < 2 ^ 31 ∧ cLayoutAgrees t = true

theorem Good.eightbytes {t : Ty} (h : Good t) : SysV.eightbytes t = (size 64 t + 7) / 8 :=
  eightbytes_eq t h.2.1 h.2.2.1

theorem assignment_eq (params : List Ty) (ret : Ty) (hp : ∀ t ∈ params, Good t)
    (hr : ret = .void ∨ Good ret) :
    ∃ abi, fnTyToAbi 64 params ret = some abi ∧
      convAssign (clAssign abi) = SysV.assign params (if ret = .void then none else some ret) := by
  have hall : ∀ t ∈ params, t.isZeroSized = false ∧ StepOk t := fun t ht =>
    ⟨frag_not_zero t (hp t ht).1, stepOk_of_frag t (hp t ht).1 (hp t ht).eightbytes⟩
  unfold fnTyToAbi fnTyToAbiG
  rcases hr with rfl | hr
  · obtain ⟨args, ha1, ha2⟩ := argLoop_eq params 0 0 0 (by omega) (by omega) hall
    refine ⟨{ args := args, ret := none }, ?_, ?_⟩
    · simp [Ty.isZeroSized, ha1]
    · simp [clAssign, convAssign, convRet, SysV.assign, ha2]
  · have hz := frag_not_zero ret hr.1
    have hv : ret ≠ .void := by intro h; rw [h] at hz; simp [Ty.isZeroSized] at hz
    have hcl : classifyArgG true 64 ret = ofPsabi (SysV.classify ret) := classifyArg_eq ret hr.1 hr.eightbytes
    simp only [hz, hv, if_false, Bool.not_false, if_true, hcl, SysV.assign]
    cases hc : SysV.classify ret with
    | none =>
      obtain ⟨args, ha1, ha2⟩ := argLoop_eq params 0 1 0 (by omega) (by omega) hall
      refine ⟨{ args := args, ret := some (.indirect (some (size 64 ret))) }, ?_, ?_⟩
      · simp [ofPsabi, ha1]
      · simp [clAssign, convAssign, convRet, ha2]
    | some cs =>
      obtain ⟨args, ha1, ha2⟩ := argLoop_eq params 0 0 0 (by omega) (by omega) hall
      obtain ⟨hmem, hshape, hne⟩ := classify_shape ret hr.1 hr.eightbytes cs hc
      cases hagg : ret.isAggregate with
      | true =>
        have hshape' : (∃ c0, cs = [c0] ∧ c0 ≠ .noClass ∧ size 64 ret ≤ 8) ∨
            (∃ c0 c1, cs = [c0, c1] ∧ c0 ≠ .noClass ∧ 8 < size 64 ret) := by
          rcases hshape with ⟨h1, h2⟩ | ⟨h1, h2⟩
          · exact Or.inl ⟨_, h1, hne, h2⟩
          · exact Or.inr ⟨_, _, h1, hne, h2⟩
        obtain ⟨tys, hsplit, hrets⟩ := split_ret_ok ret cs hmem hshape'
        refine ⟨{ args := args, ret := some (.cast tys) }, ?_, ?_⟩
        · simp [ofPsabi, hsplit, ha1]
        · simp [clAssign, convAssign, convRet, ha2, hrets]
      | false =>
        obtain ⟨c, ty, hcI, hsc, hreal, hfl, h128, hsz, hru⟩ := scalar_facts ret hr.1 hagg
        have hcs : cs = [c] := by
          rcases hshape with ⟨h1, _⟩ | ⟨_, h2⟩
          · rw [h1, hsc 0]; rcases hcI with rfl | rfl <;> rfl
          · omega
        subst hcs
        refine ⟨{ args := args, ret := some (.direct ty) }, ?_, ?_⟩
        · simp [ofPsabi, hreal, ha1]
        · rcases hcI with rfl | rfl
          · have hf : ty.isFloat = false := by rw [hfl]; rfl
            simp [clAssign, convAssign, convRet, ha2, clRets, hf, convLoc, assignRegs]
          · have hf : ty.isFloat = true := by rw [hfl]; rfl
            simp [clAssign, convAssign, convRet, ha2, clRets, hf, convLoc, assignRegs]

/-! ### the `off += ty.bytes()` access loops -/

theorem castAccesses_end (tys : List IrTy) : ∀ off, ∀ a ∈ castAccesses tys off,
    off ≤ a.1 ∧ a.1 + a.2 ≤ off + sumBytes tys := by
  induction tys with
  | nil => intro off a ha; simp [castAccesses] at ha
  | cons ty rest ih =>
    intro off a ha
    have hsum : sumBytes (ty :: rest) = ty.bytes + sumBytes rest := by
      simp only [sumBytes, List.map_cons, List.foldl_cons, Nat.zero_add]
      have : ∀ (l : List Nat) (k : Nat), l.foldl (· + ·) k = k + l.foldl (· + ·) 0 := by
        intro l; induction l with
        | nil => intro k; simp
        | cons x xs ih => intro k; simp only [List.foldl_cons]; rw [ih (k + x), ih (0 + x)]; omega
      exact this _ _
    simp only [castAccesses, List.mem_cons] at ha
    rcases ha with rfl | ha
    · simp only []; omega
    · have := ih (off + ty.bytes) a ha; omega


end CapyV.Abi
