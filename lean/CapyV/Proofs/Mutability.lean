import CapyV.Spec.Mutability
/-! Helper lemmas for C14 (fixed `get_mutability` against the place semantics). -/
namespace CapyV.Mutability

theorem tyOf_of_typeOf {e : Expr} {t : Ty} (h : typeOf e = some t) : tyOf e = t := by
  simp [tyOf, h]

/-- a hop decides the verdict -/
theorem verdict_hop (p : Place) (m : Bool) :
    (p.hop m).verdict = if m then .writable else .readonly := by
  cases m <;> simp [Place.hop, Place.verdict]

/-- with `fixed = false` the wrapper is the identity: the model is the pinned function -/
theorem byType_old (ty : Ty) (d : Bool) (m : Mut) : byType false ty d m = m := by
  simp [byType]

theorem byType_noderef (fixed : Bool) (ty : Ty) (m : Mut) : byType fixed ty false m = m := by
  cases fixed <;> simp [byType]

/-- every arm of the fixed function ends in the type test -/
theorem gm_is_byType (fixed : Bool) (e : Expr) (a d : Bool) :
    ∃ m, getMutability fixed e a d = byType fixed (tyOf e) d m := by
  cases e <;> simp only [getMutability] <;> exact ⟨_, rfl⟩

/-- **the fixed function under `deref`**: the pointer type of the expression decides -/
theorem fixed_deref_iff (e : Expr) (a : Bool) (m : Bool) (t : Ty) (h : tyOf e = .ptr m t) :
    getMutability true e a true = .mutable ↔ m = true := by
  obtain ⟨x, hx⟩ := gm_is_byType true e a true
  rw [hx, h]
  cases m <;> cases x <;> simp [byType, Ty.asPointer]

/-- after at least one hop, the last one decides -/
theorem verdict_hops (p : Place) (init : List Bool) (m : Bool) :
    ((init ++ [m]).foldl Place.hop p).verdict = if m then .writable else .readonly := by
  rw [List.foldl_append]
  simp only [List.foldl_cons, List.foldl_nil]
  exact verdict_hop _ m

/-- `e[i]` / `e.field` for `e : ta` (every pointer level followed): the verdict of the place and
the answer of the two arms agree, given that they agree on `e` itself -/
theorem auto_exact (prev : Expr) (a : Bool) (ta : Ty) (hty : tyOf prev = ta)
    (ih : (verdict prev = .writable → getMutability true prev a false = .mutable) ∧
          (verdict prev = .readonly → getMutability true prev a false ≠ .mutable)) :
    ((ta.levels.foldl Place.hop (place prev)).verdict = .writable →
        autoArm ta.innermostAutoDeref (getMutability true prev a true) (getMutability true prev a (false || ta.isPointer)) = .mutable) ∧
    ((ta.levels.foldl Place.hop (place prev)).verdict = .readonly →
        autoArm ta.innermostAutoDeref (getMutability true prev a true) (getMutability true prev a (false || ta.isPointer)) ≠ .mutable) := by
  cases hta : ta with
  | ptr m t =>
    subst hta
    rcases List.eq_nil_or_concat t.levels with hl | ⟨init, last, hl⟩
    · -- one level: the ordinary walk under `deref`
      have h1 : (Ty.ptr m t).innermostAutoDeref = none := by
        simp [Ty.innermostAutoDeref, Ty.levels, hl]
      have hv := verdict_hops (place prev) [] m
      simp only [List.nil_append] at hv
      simp only [Ty.levels, hl, h1, Ty.isPointer, Bool.false_or, hv, autoArm]
      have := fixed_deref_iff prev a m t hty
      cases m <;> simp_all
    · -- two or more levels: the innermost decides
      rw [List.concat_eq_append] at hl
      have h1 : (Ty.ptr m t).innermostAutoDeref = some last := by
        simp only [Ty.innermostAutoDeref, Ty.levels, hl]
        rw [show m :: (init ++ [last]) = (m :: init) ++ [last] from rfl, List.getLast?_concat]
        simp
      have hv := verdict_hops (place prev) (m :: init) last
      simp only [Ty.levels, hl, h1]
      rw [show m :: (init ++ [last]) = (m :: init) ++ [last] from rfl, hv]
      cases last <;> simp [autoArm]
      cases getMutability true prev a true <;> simp
  | int => subst hta; simpa [Ty.levels, Ty.innermostAutoDeref, Ty.isPointer, verdict, autoArm] using ih
  | arr _ => subst hta; simpa [Ty.levels, Ty.innermostAutoDeref, Ty.isPointer, verdict, autoArm] using ih
  | opt _ => subst hta; simpa [Ty.levels, Ty.innermostAutoDeref, Ty.isPointer, verdict, autoArm] using ih
  | struct _ => subst hta; simpa [Ty.levels, Ty.innermostAutoDeref, Ty.isPointer, verdict, autoArm] using ih
  | file => subst hta; simpa [Ty.levels, Ty.innermostAutoDeref, Ty.isPointer, verdict, autoArm] using ih
  | other => subst hta; simpa [Ty.levels, Ty.innermostAutoDeref, Ty.isPointer, verdict, autoArm] using ih

/-- the verdict of the fixed walk on a well-typed expression, both directions at once -/
theorem fixed_exact (e : Expr) (a : Bool) :
    ∀ t, typeOf e = some t →
      (verdict e = .writable → getMutability true e a false = .mutable) ∧
      (verdict e = .readonly → getMutability true e a false ≠ .mutable) := by
  induction e with
  | missing => intro t _; simp [verdict, place, temp, Place.verdict]
  | arrayLit _ => intro t _; simp [verdict, place, temp, Place.verdict]
  | structLit _ => intro t _; simp [verdict, place, temp, Place.verdict]
  | ref _ _ _ => intro t _; simp [verdict, place, temp, Place.verdict]
  | blockTail _ _ => intro t _; simp [verdict, place, temp, Place.verdict]
  | call _ => intro t _; simp [verdict, place, temp, Place.verdict]
  | cast _ => intro t _; simp [verdict, place, temp, Place.verdict]
  | other _ => intro t _; simp [verdict, place, temp, Place.verdict]
  | loc m ty init _ =>
    intro t _
    cases m <;> simp [verdict, place, Place.verdict, getMutability, byType_noderef]
  | locNoInit m ty =>
    intro t _
    cases m <;> simp [verdict, place, Place.verdict, getMutability, byType_noderef]
  | param ty =>
    intro t _
    simp only [verdict, place, Place.verdict, getMutability, byType_noderef, paramArm]
    cases ty.asPointer with
    | none => simp
    | some p => obtain ⟨m, t'⟩ := p; cases a <;> cases m <;> simp
  | global ty =>
    intro t _
    simp [verdict, place, Place.verdict, getMutability, byType_noderef]
  | deref p _ =>
    intro t ht
    simp only [typeOf] at ht
    split at ht
    · rename_i m' t' hp
      have hty := tyOf_of_typeOf hp
      simp only [verdict, place, hty, verdict_hop, getMutability, byType_noderef]
      have := fixed_deref_iff p a m' t' hty
      cases m' <;> simp_all
    · cases ht
  | index arr ih =>
    intro t ht
    simp only [typeOf] at ht
    cases hp : typeOf arr with
    | none => simp [hp] at ht
    | some ta =>
      have hty := tyOf_of_typeOf hp
      have := auto_exact arr a ta hty (ih _ hp)
      simpa [verdict, place, hty, getMutability, byType_noderef] using this
  | member prev ty ih =>
    intro t ht
    simp only [typeOf] at ht
    cases hp : typeOf prev with
    | none => simp [hp] at ht
    | some ta =>
      have hty := tyOf_of_typeOf hp
      by_cases hf : ta = .file
      · subst hf
        simp [verdict, place, hty, Place.verdict, getMutability, byType_noderef]
      · have := auto_exact prev a ta hty (ih _ hp)
        cases ta <;> first | exact absurd rfl hf | simpa [verdict, place, hty, getMutability, byType_noderef] using this
  | paren e ih =>
    intro t ht
    simp only [typeOf] at ht
    have := ih _ ht
    simpa [verdict, place, getMutability, byType_noderef] using this
  | unwrap e ih =>
    intro t ht
    simp only [typeOf] at ht
    split at ht
    · rename_i t' hp
      have := ih _ hp
      simpa [verdict, place, getMutability, byType_noderef] using this
    · cases ht

end CapyV.Mutability
