import CapyV.Model.ImportsCli
import CapyV.Proofs.ImportsPaths
import CapyV.Proofs.ImportsWorklist
/-!
Helper lemmas for C28: the decision functions `lowerImport` / `lowerMod`, the shape of the
paths they produce, and the link between the import graph and the worklist.
-/
namespace CapyV.Imports

/-! ### `#import` -/

theorem lowerImport_ok_iff (env : Env) (importer : Path) (arg : List Char) (p : Path) :
    lowerImport env importer arg = .ok p ↔
      endsCapy (fixSep arg) = true ∧ p = importTarget env importer arg ∧
      env.fs p = some .file ∧ (isSubDirOf p env.modDir = true ∨ isSubDirOf p env.cwd = true) := by
  unfold lowerImport isFile
  by_cases h1 : endsCapy (fixSep arg) = true
  · by_cases h2 : env.fs (importTarget env importer arg) = some Kind.file
    · by_cases h3 : isSubDirOf (importTarget env importer arg) env.modDir = true
      · simp [h1, h2, h3]
        constructor
        · intro h; subst h; simp [h2, h3]
        · intro h; exact h.1.symm
      · by_cases h4 : isSubDirOf (importTarget env importer arg) env.cwd = true
        · simp [h1, h2, h3, h4]
          constructor
          · intro h; subst h; simp [h2, h4]
          · intro h; exact h.1.symm
        · simp [h1, h2, h3, h4]
          intro h; subst h; simp [h3, h4]
    · simp [h1, h2]
      intro h; subst h; simp [h2]
  · simp [h1]

/-- the target as a walk: an import argument is read from the importing file's directory -/
def walkFrom (start : List (List Char)) (p : Path) : List (List Char) := p.foldl walkStep start

theorem importTarget_rel (env : Env) (importer : Path) (arg : List Char)
    (hi : IsCleanAbs importer) (ha : hasRoot (fixSep arg) = false) :
    importTarget env importer arg =
      Comp.root :: (walkFrom (walk importer).dropLast (parse (fixSep arg))).map Comp.normal := by
  unfold importTarget
  have hiA : IsAbs importer := hi.isAbs
  rw [join_abs_right _ _ hiA]
  have hpar : Comp.root ∉ ([Comp.parent] : Path) := by simp
  rw [join_rel _ _ hpar]
  have hrel : Comp.root ∉ parse (fixSep arg) := by
    rcases parse_isAbs_or_rel (fixSep arg) with h | h
    · rw [ha] at h; exact absurd h.1 (by simp)
    · exact h.2
  rw [join_rel _ _ hrel]
  obtain ⟨rest, hr, hnr⟩ := hiA
  have habs : IsAbs (importer ++ [Comp.parent] ++ parse (fixSep arg)) := by
    refine ⟨rest ++ [Comp.parent] ++ parse (fixSep arg), by simp [hr], ?_⟩
    simp [hnr, hrel]
  rw [clean_abs_eq_walk _ habs]
  simp [walk, walkFrom, List.foldl_append, walkStep]

theorem importTarget_abs (env : Env) (importer : Path) (arg : List Char)
    (ha : hasRoot (fixSep arg) = true) :
    importTarget env importer arg = Comp.root :: (walk (parse (fixSep arg))).map Comp.normal := by
  unfold importTarget
  have h : IsAbs (parse (fixSep arg)) := (parse_isAbs_iff _).mpr ha
  rw [join_abs_right _ _ h, clean_abs_eq_walk _ h]

theorem importTarget_isCleanAbs (env : Env) (importer : Path) (arg : List Char)
    (hi : IsCleanAbs importer) : IsCleanAbs (importTarget env importer arg) := by
  cases ha : hasRoot (fixSep arg)
  · rw [importTarget_rel env importer arg hi ha]; exact ⟨_, rfl⟩
  · rw [importTarget_abs env importer arg ha]; exact ⟨_, rfl⟩

/-! ### `#mod` -/

theorem lowerMod_ok_iff (env : Env) (m : List Char) (p : Path) :
    lowerMod env m = .ok p ↔
      (fixSep m).all isAsciiAlnum = true ∧ env.fs (modFolder env m) = some .dir ∧
      env.fs (modTarget env m) = some .file ∧ p = modTarget env m := by
  unfold lowerMod isFile isDir
  by_cases h1 : (fixSep m).all isAsciiAlnum = true
  · by_cases h2 : env.fs (modFolder env m) = some Kind.dir
    · by_cases h3 : env.fs (modTarget env m) = some Kind.file
      · simp [h1, h2, h3]
        constructor <;> (intro h; exact h.symm)
      · simp [h1, h2, h3]
    · simp [h1, h2]
  · simp [h1]

theorem alnum_ne_backslash (c : Char) (h : isAsciiAlnum c = true) : c ≠ '\\' ∧ c ≠ '/' ∧ c ≠ '.' := by
  refine ⟨?_, ?_, ?_⟩ <;> (intro hc; subst hc; revert h; decide)

theorem fixSep_alnum (m : List Char) (h : m.all isAsciiAlnum = true) : fixSep m = m := by
  induction m with
  | nil => rfl
  | cons c cs ih =>
    simp only [List.all_cons, Bool.and_eq_true] at h
    have := (alnum_ne_backslash c h.1).1
    simp [fixSep, this] at *
    exact ih h.2

theorem fixSep_all_alnum_iff (m : List Char) :
    (fixSep m).all isAsciiAlnum = true ↔ m.all isAsciiAlnum = true := by
  induction m with
  | nil => simp [fixSep]
  | cons c cs ih =>
    have ih' : (fixSep cs).all isAsciiAlnum = cs.all isAsciiAlnum := by
      cases h1 : (fixSep cs).all isAsciiAlnum <;> cases h2 : cs.all isAsciiAlnum <;> simp_all
    have hcons : fixSep (c :: cs) = (if c = '\\' then '/' else c) :: fixSep cs := rfl
    rw [hcons, List.all_cons, List.all_cons, ih']
    by_cases hc : c = '\\'
    · subst hc
      have h1 : isAsciiAlnum '\\' = false := by decide
      have h2 : isAsciiAlnum '/' = false := by decide
      simp [h1, h2]
    · simp [hc]

theorem splitSlash_no_slash (s : List Char) (h : '/' ∉ s) : splitSlash s = [s] := by
  induction s with
  | nil => rfl
  | cons c cs ih =>
    have hc : c ≠ '/' := by intro e; subst e; simp at h
    have hcs : '/' ∉ cs := by intro e; exact h (List.mem_cons_of_mem _ e)
    simp [splitSlash, hc, ih hcs]

theorem parse_alnum (m : List Char) (h : m.all isAsciiAlnum = true) (hne : m ≠ []) :
    parse m = [Comp.normal m] := by
  have hall : ∀ c ∈ m, isAsciiAlnum c = true := by simpa using h
  have hslash : '/' ∉ m := fun hm => (alnum_ne_backslash _ (hall _ hm)).2.1 rfl
  have hdot : '.' ∉ m := fun hm => (alnum_ne_backslash _ (hall _ hm)).2.2 rfl
  obtain ⟨c, cs, rfl⟩ := List.exists_cons_of_ne_nil hne
  have hc1 : c ≠ '/' := by intro e; subst e; simp at hslash
  have hc2 : c ≠ '.' := by intro e; subst e; simp at hdot
  have hroot : hasRoot (c :: cs) = false := by
    unfold hasRoot; split
    · rename_i heq; injection heq with h1 _; exact absurd h1 hc1
    · rfl
  have hcur : leadCur (c :: cs) = false := by
    unfold leadCur; split
    · rename_i heq; injection heq with h1 _; exact absurd h1 hc2
    · rename_i heq; injection heq with h1 _; exact absurd h1 hc2
    · rfl
  have hpiece : compOfPiece (c :: cs) = some (Comp.normal (c :: cs)) := by
    unfold compOfPiece
    have n1 : (c :: cs) ≠ ['.'] := by intro e; injection e with e1 _; exact hc2 e1
    have n2 : (c :: cs) ≠ ['.', '.'] := by intro e; injection e with e1 _; exact hc2 e1
    simp [n1, n2]
  simp [parse, hroot, hcur, splitSlash_no_slash _ hslash, hpiece]

def srcName : List Char := ['s', 'r', 'c']

theorem modPaths_nonempty (env : Env) (m : List Char) (h : m.all isAsciiAlnum = true)
    (hne : m ≠ []) (hmd : IsCleanAbs env.modDir) :
    modFolder env m = env.modDir ++ [Comp.normal m, Comp.normal srcName] ∧
    modTarget env m = env.modDir ++ [Comp.normal m, Comp.normal srcName, Comp.normal modCapy] := by
  have hf : modFolder env m = env.modDir ++ [Comp.normal m, Comp.normal srcName] := by
    unfold modFolder
    rw [fixSep_alnum m h, parse_alnum m h hne]
    rw [join_rel _ _ (by simp), join_rel _ _ (by simp)]
    simp [srcName]
  refine ⟨hf, ?_⟩
  unfold modTarget
  rw [hf, join_rel _ _ (by simp)]
  obtain ⟨names, hn⟩ := hmd
  have : IsCleanAbs (env.modDir ++ [Comp.normal m, Comp.normal srcName] ++ [Comp.normal modCapy]) :=
    ⟨names ++ [m, srcName, modCapy], by simp [hn]⟩
  rw [clean_of_isCleanAbs _ this]; simp

theorem modPaths_empty (env : Env) (hmd : IsCleanAbs env.modDir) :
    modFolder env [] = env.modDir ++ [Comp.normal srcName] ∧
    modTarget env [] = env.modDir ++ [Comp.normal srcName, Comp.normal modCapy] := by
  have hf : modFolder env [] = env.modDir ++ [Comp.normal srcName] := by
    unfold modFolder
    have : parse (fixSep []) = [] := by decide
    rw [this, join_rel _ _ (by simp), join_rel _ _ (by simp)]
    simp [srcName]
  refine ⟨hf, ?_⟩
  unfold modTarget
  rw [hf, join_rel _ _ (by simp)]
  obtain ⟨names, hn⟩ := hmd
  have : IsCleanAbs (env.modDir ++ [Comp.normal srcName] ++ [Comp.normal modCapy]) :=
    ⟨names ++ [srcName, modCapy], by simp [hn]⟩
  rw [clean_of_isCleanAbs _ this]; simp

theorem modTarget_inside (env : Env) (m : List Char) (h : m.all isAsciiAlnum = true)
    (hmd : IsCleanAbs env.modDir) :
    isSubDirOf (modTarget env m) env.modDir = true ∧ IsCleanAbs (modTarget env m) := by
  obtain ⟨names, hn⟩ := hmd
  by_cases hne : m = []
  · subst hne
    rw [(modPaths_empty env ⟨names, hn⟩).2]
    exact ⟨(isSubDirOf_iff_prefix _ _).mpr ⟨_, rfl⟩, ⟨names ++ [srcName, modCapy], by simp [hn]⟩⟩
  · rw [(modPaths_nonempty env m h hne ⟨names, hn⟩).2]
    exact ⟨(isSubDirOf_iff_prefix _ _).mpr ⟨_, rfl⟩, ⟨names ++ [m, srcName, modCapy], by simp [hn]⟩⟩

/-! ### accepted targets are clean absolute paths inside the working or the module directory -/

theorem lower_ok_inside (env : Env) (importer : Path) (d : Directive) (p : Path)
    (hmd : IsCleanAbs env.modDir) (hi : IsCleanAbs importer)
    (h : lower env importer d = .ok p) :
    insideCwdOrMod env p = true ∧ IsCleanAbs p := by
  cases d with
  | imp a =>
    have := (lowerImport_ok_iff env importer a p).mp h
    obtain ⟨_, hp, _, hin⟩ := this
    refine ⟨?_, hp ▸ importTarget_isCleanAbs env importer a hi⟩
    unfold insideCwdOrMod
    rcases hin with h1 | h1 <;> simp [h1]
  | mod m =>
    have := (lowerMod_ok_iff env m p).mp h
    obtain ⟨hal, _, _, hp⟩ := this
    have hal' := (fixSep_all_alnum_iff m).mp hal
    have := modTarget_inside env m hal' hmd
    subst hp
    exact ⟨by unfold insideCwdOrMod; simp [this.1], this.2⟩

theorem mem_importsOf (env : Env) (src : Path → List Directive) (f p : Path) :
    p ∈ importsOf env src f ↔ ∃ d ∈ src f, lower env f d = .ok p := by
  unfold importsOf
  rw [List.mem_eraseDups, List.mem_filterMap]
  constructor
  · rintro ⟨d, hd, h⟩
    refine ⟨d, hd, ?_⟩
    cases hl : lower env f d with
    | ok q => rw [hl] at h; simp [accepted] at h; rw [h]
    | err e => rw [hl] at h; simp [accepted] at h
  · rintro ⟨d, hd, h⟩
    exact ⟨d, hd, by rw [h]; rfl⟩

/-- every file reachable from a clean absolute entry is a clean absolute path, and every
one except possibly the entry lies inside the working or the module directory -/
theorem reach_inside (env : Env) (src : Path → List Directive) (entry f : Path)
    (hmd : IsCleanAbs env.modDir) (he : IsCleanAbs entry)
    (h : Reach (importsOf env src) entry f) :
    IsCleanAbs f ∧ (f = entry ∨ insideCwdOrMod env f = true) := by
  induction h with
  | refl => exact ⟨he, Or.inl rfl⟩
  | step _ hb ih =>
    obtain ⟨d, _, hl⟩ := (mem_importsOf env src _ _).mp hb
    have := lower_ok_inside env _ d _ hmd ih.1 hl
    exact ⟨this.2, Or.inr this.1⟩

/-! ### the world index -/

theorem world_lookup {δ : Type} (defs : Path → δ) (parsed : List Path) (f : Path) :
    (world defs parsed).lookup f = if f ∈ parsed then some (defs f) else none := by
  induction parsed with
  | nil => simp [world]
  | cons g gs ih =>
    unfold world at *
    simp only [List.map_cons, List.lookup_cons]
    by_cases hfg : f = g
    · subst hfg; simp
    · have : (f == g) = false := by simpa using hfg
      simp [this, ih, hfg]

end CapyV.Imports
