import CapyV.Model.Topo
import CapyV.Model.Sched
import CapyV.Spec.Sched
/-!
Helper lemmas for C26: the counting invariant that ties the `TopoSort` state to the history.
-/
namespace CapyV.Topo
open CapyV.SchedSpec

/-- number of entries that list `p` as a parent = number of pending children of `p` -/
def cnt (s : Topo) (p : Nat) : Nat := s.countP fun e => decide (p ∈ e.2.parents)

/-! ### primitives: membership, keys, lookup -/

theorem mem_push {s : Topo} {k d e} : e ∈ push s k d ↔ e ∈ s ∨ e = (k, d) := by
  simp [push]

theorem mem_drop {s : Topo} {k e} : e ∈ drop s k ↔ e ∈ s ∧ e.1 ≠ k := by
  simp [drop]

theorem mem_modify {s : Topo} {k f e} :
    e ∈ modify s k f ↔ ∃ e0 ∈ s, e = if e0.1 = k then (e0.1, f e0.2) else e0 := by
  simp [modify, eq_comm]

@[simp] theorem keys_push (s : Topo) (k d) : keys (push s k d) = keys s ++ [k] := by
  simp [keys, push]

@[simp] theorem keys_modify (s : Topo) (k f) : keys (modify s k f) = keys s := by
  simp only [keys, modify, List.map_map]
  apply List.map_congr_left
  intro e _
  by_cases h : e.1 = k <;> simp [h]

theorem keys_drop (s : Topo) (k) : keys (drop s k) = (keys s).filter (· ≠ k) := by
  induction s with
  | nil => rfl
  | cons e t ih =>
    by_cases h : e.1 = k <;> simp_all [keys, drop]

theorem mem_keys {s : Topo} {k} : k ∈ keys s ↔ ∃ d, (k, d) ∈ s := by
  simp [keys]

theorem get?_none {s : Topo} {k} : get? s k = none ↔ k ∉ keys s := by
  induction s with
  | nil => simp [get?, keys]
  | cons e t ih =>
    obtain ⟨k', d⟩ := e
    by_cases h : k' = k <;> simp_all [get?, keys, eq_comm]

theorem get?_some_mem {s : Topo} {k d} (h : get? s k = some d) : (k, d) ∈ s := by
  induction s with
  | nil => simp [get?] at h
  | cons e t ih =>
    obtain ⟨k', d'⟩ := e
    by_cases hk : k' = k
    · simp [get?, hk] at h; simp [hk, h]
    · simp [get?, hk] at h; simp [ih h]

theorem mem_unique {s : Topo} (hn : (keys s).Nodup) {k d d'} (h : (k, d) ∈ s) (h' : (k, d') ∈ s) :
    d = d' := by
  induction s with
  | nil => simp at h
  | cons e t ih =>
    obtain ⟨k', d0⟩ := e
    simp only [keys, List.map_cons, List.nodup_cons, List.mem_map, not_exists, not_and] at hn
    simp only [List.mem_cons, Prod.mk.injEq] at h h'
    rcases h with ⟨rfl, rfl⟩ | h <;> rcases h' with ⟨hk, rfl⟩ | h'
    · rfl
    · exact absurd rfl (hn.1 _ h')
    · exact absurd hk.symm (by intro hh; exact hn.1 _ h (by simp [hh]))
    · exact ih hn.2 h h'

theorem mem_get? {s : Topo} (hn : (keys s).Nodup) {k d} (h : (k, d) ∈ s) : get? s k = some d := by
  cases hg : get? s k with
  | none => exact absurd (mem_keys.2 ⟨d, h⟩) (get?_none.1 hg)
  | some d' => rw [mem_unique hn (get?_some_mem hg) h]

theorem modify_absent {s : Topo} {k f} (h : k ∉ keys s) : modify s k f = s := by
  induction s with
  | nil => rfl
  | cons e t ih =>
    simp only [keys, List.map_cons, List.mem_cons, not_or] at h
    have : modify t k f = t := ih h.2
    simp only [modify, List.map_cons] at this ⊢
    rw [this]; simp [Ne.symm h.1]

/-! ### `cnt` under the primitives -/

theorem cnt_push (s : Topo) (k d q) :
    cnt (push s k d) q = cnt s q + if q ∈ d.parents then 1 else 0 := by
  simp [cnt, push, List.countP_append, List.countP_cons]

theorem cnt_modify_same (s : Topo) (k f q) (hf : ∀ d, (f d).parents = d.parents) :
    cnt (modify s k f) q = cnt s q := by
  induction s with
  | nil => rfl
  | cons e t ih =>
    simp only [cnt, modify, List.map_cons, List.countP_cons] at ih ⊢
    rw [ih]
    by_cases h : e.1 = k <;> simp [h, hf]

theorem cnt_modify_addParent {s : Topo} (hn : (keys s).Nodup) {c d p} (hc : (c, d) ∈ s)
    (hp : p ∉ d.parents) (q) :
    cnt (modify s c (addParent p)) q = cnt s q + if q = p then 1 else 0 := by
  induction s with
  | nil => simp at hc
  | cons e t ih =>
    obtain ⟨k, dk⟩ := e
    simp only [keys, List.map_cons, List.nodup_cons] at hn
    by_cases hk : k = c
    · subst hk
      have hd : dk = d := mem_unique (s := (k, dk) :: t) (by simpa [keys] using hn) (by simp) hc
      subst hd
      have ht : modify t k (addParent p) = t := modify_absent hn.1
      have : modify ((k, dk) :: t) k (addParent p) = (k, addParent p dk) :: t := by
        simp only [modify, List.map_cons] at ht ⊢; rw [ht]; simp
      rw [this]
      simp only [cnt, List.countP_cons, addParent, List.mem_append, List.mem_singleton]
      by_cases hq : q = p
      · subst hq; simp [hp]
      · simp [hq]
    · have hc' : (c, d) ∈ t := by
        simp only [List.mem_cons, Prod.mk.injEq] at hc
        rcases hc with ⟨h, _⟩ | h
        · exact absurd h.symm hk
        · exact h
      have := ih hn.2 hc'
      simp only [cnt, modify, List.map_cons, List.countP_cons, hk, if_false] at this ⊢
      omega

theorem cnt_drop {s : Topo} (hn : (keys s).Nodup) {x d} (hx : (x, d) ∈ s) (q) :
    cnt s q = cnt (drop s x) q + if q ∈ d.parents then 1 else 0 := by
  induction s with
  | nil => simp at hx
  | cons e t ih =>
    obtain ⟨k, dk⟩ := e
    simp only [keys, List.map_cons, List.nodup_cons] at hn
    by_cases hk : k = x
    · subst hk
      have hd : dk = d := mem_unique (s := (k, dk) :: t) (by simpa [keys] using hn) (by simp) hx
      subst hd
      have ht : drop t k = t := by
        simp only [drop, List.filter_eq_self]
        intro e he
        have : e.1 ≠ k := by
          intro h; exact hn.1 (by simp only [keys, List.mem_map]; exact ⟨e, he, h⟩)
        simpa using this
      have : drop ((k, dk) :: t) k = drop t k := by simp [drop]
      rw [this, ht]
      simp [cnt, List.countP_cons]
    · have hx' : (x, d) ∈ t := by
        simp only [List.mem_cons, Prod.mk.injEq] at hx
        rcases hx with ⟨h, _⟩ | h
        · exact absurd h.symm hk
        · exact h
      have := ih hn.2 hx'
      have hd : drop ((k, dk) :: t) x = (k, dk) :: drop t x := by
        simp [drop, hk]
      rw [hd]
      simp only [cnt, List.countP_cons] at this ⊢
      omega

theorem cnt_eq_zero {s : Topo} {q} : cnt s q = 0 ↔ ∀ c d, (c, d) ∈ s → q ∉ d.parents := by
  simp [cnt, List.countP_eq_zero]


theorem mem_modify' {s : Topo} {k0 f k d'} :
    (k, d') ∈ modify s k0 f ↔ ∃ d, (k, d) ∈ s ∧ d' = if k = k0 then f d else d := by
  simp only [modify, List.mem_map]
  constructor
  · rintro ⟨⟨k1, d1⟩, he, h⟩
    by_cases hk : k1 = k0
    · simp only [hk, if_true, Prod.mk.injEq] at h
      obtain ⟨rfl, rfl⟩ := h
      exact ⟨d1, hk ▸ he, by simp⟩
    · simp only [hk, if_false, Prod.mk.injEq] at h
      obtain ⟨rfl, rfl⟩ := h
      exact ⟨d1, he, by simp [hk]⟩
  · rintro ⟨d, he, rfl⟩
    refine ⟨(k, d), he, ?_⟩
    by_cases hk : k = k0 <;> simp [hk]

/-! ### the invariant -/

structure Inv (a : Abs) (s : Topo) : Prop where
  keys_eq : keys s = a.pend
  nodup : a.pend.Nodup
  disj : ∀ x, x ∈ a.pend → x ∉ a.done
  known : ∀ p c, (p, c) ∈ a.regs → (p ∈ a.pend ∨ p ∈ a.done) ∧ (c ∈ a.pend ∨ c ∈ a.done)
  par : ∀ c d, (c, d) ∈ s → d.parents.Nodup ∧ ∀ p, p ∈ d.parents ↔ (p, c) ∈ a.regs
  count : ∀ p d, (p, d) ∈ s → d.numChildren = cnt s p

theorem inv_empty : Inv Abs.empty [] := by
  constructor <;> simp [Abs.empty, keys]

theorem Inv.keys_nodup {a s} (h : Inv a s) : (keys s).Nodup := h.keys_eq ▸ h.nodup

theorem Inv.mem_pend {a s} (h : Inv a s) {x} : x ∈ a.pend ↔ ∃ d, (x, d) ∈ s := by
  rw [← h.keys_eq, mem_keys]

/-- a new item: `push s x Deps.new` -/
theorem inv_addFresh {a s} (h : Inv a s) {x} (hp : x ∉ a.pend) (hd : x ∉ a.done) :
    Inv (addPend a x) (push s x Deps.new) := by
  have hnone : ∀ p c, (p, c) ∈ a.regs → p ≠ x ∧ c ≠ x := by
    intro p c hr
    have := h.known p c hr
    constructor <;> (rintro rfl; simp_all)
  simp only [addPend, hp, if_false]
  refine ⟨by simp [h.keys_eq], ?_, ?_, ?_, ?_, ?_⟩
  · simp only [List.nodup_append, h.nodup, true_and]
    refine ⟨by simp, ?_⟩
    intro y hy z hz
    simp only [List.mem_singleton] at hz
    subst hz
    rintro rfl
    exact hp hy
  · intro y hy; simp only [List.mem_append, List.mem_singleton] at hy
    rcases hy with hy | rfl
    · exact h.disj y hy
    · exact hd
  · intro p c hr
    have := h.known p c hr
    simp only [List.mem_append]; grind
  · intro c d hm
    rcases mem_push.1 hm with hm | hm
    · exact h.par c d hm
    · simp only [Prod.mk.injEq] at hm
      obtain ⟨rfl, rfl⟩ := hm
      refine ⟨by simp [Deps.new], fun p => ?_⟩
      simp only [Deps.new, List.not_mem_nil, false_iff]
      intro hr; exact (hnone p c hr).2 rfl
  · intro p d hm
    rw [cnt_push]
    simp only [Deps.new, List.not_mem_nil, if_false, Nat.add_zero]
    rcases mem_push.1 hm with hm | hm
    · exact h.count p d hm
    · simp only [Prod.mk.injEq] at hm
      obtain ⟨rfl, rfl⟩ := hm
      symm
      show cnt s p = 0
      rw [cnt_eq_zero]
      intro c d hc hpar
      exact (hnone p c (((h.par c d hc).2 p).1 hpar)).1 rfl

/-- `ensure`: what `addPend` is on the state -/
def ensure (s : Topo) (k : Nat) : Topo := if k ∈ keys s then s else push s k Deps.new

theorem inv_ensure {a s} (h : Inv a s) {x} (hd : x ∉ a.done) : Inv (addPend a x) (ensure s x) := by
  by_cases hx : x ∈ a.pend
  · have : x ∈ keys s := h.keys_eq ▸ hx
    simpa [ensure, this, addPend, hx] using h
  · have : x ∉ keys s := h.keys_eq ▸ hx
    simpa [ensure, this] using inv_addFresh h hx hd

/-- registration between two present items -/
def link (s : Topo) (p c : Nat) : Topo :=
  match get? s c with
  | none => s
  | some d => if p ∈ d.parents then s else modify (modify s c (addParent p)) p incr

theorem inv_link {a s} (h : Inv a s) {p c} (hp : p ∈ a.pend) (hc : c ∈ a.pend) :
    Inv { a with regs := (p, c) :: a.regs } (link s p c) := by
  obtain ⟨dc, hdc⟩ := h.mem_pend.1 hc
  have hg := mem_get? h.keys_nodup hdc
  simp only [link, hg]
  by_cases hreg : p ∈ dc.parents
  · have hr : (p, c) ∈ a.regs := ((h.par c dc hdc).2 p).1 hreg
    simp only [hreg, if_true]
    refine ⟨h.keys_eq, h.nodup, h.disj, ?_, ?_, h.count⟩
    · intro p' c' hm
      simp only [List.mem_cons] at hm
      rcases hm with hm | hm
      · simp only [Prod.mk.injEq] at hm; obtain ⟨rfl, rfl⟩ := hm; exact h.known _ _ hr
      · exact h.known p' c' hm
    · intro c' d' hm
      refine ⟨(h.par c' d' hm).1, fun q => ?_⟩
      rw [(h.par c' d' hm).2 q]
      simp only [List.mem_cons]
      constructor
      · exact Or.inr
      · rintro (hq | hq)
        · rw [hq]; exact hr
        · exact hq
  · simp only [hreg, if_false]
    refine ⟨by simp [h.keys_eq], h.nodup, h.disj, ?_, ?_, ?_⟩
    · intro p' c' hm
      simp only [List.mem_cons, Prod.mk.injEq] at hm
      rcases hm with ⟨rfl, rfl⟩ | hm
      · exact ⟨Or.inl hp, Or.inl hc⟩
      · exact h.known p' c' hm
    · intro c' d2 hm
      obtain ⟨d1, hm1, rfl⟩ := mem_modify'.1 hm
      obtain ⟨d, hm0, rfl⟩ := mem_modify'.1 hm1
      have hpar := h.par c' d hm0
      have hparents : (if c' = p then incr (if c' = c then addParent p d else d)
          else (if c' = c then addParent p d else d)).parents
          = if c' = c then d.parents ++ [p] else d.parents := by
        by_cases h1 : c' = p <;> by_cases h2 : c' = c <;> simp only [h1, h2, incr, addParent, if_true, if_false] <;> grind
      rw [hparents]
      by_cases h2 : c' = c
      · subst h2
        have : d = dc := mem_unique h.keys_nodup hm0 hdc
        subst this
        simp only [if_true]
        refine ⟨?_, fun q => ?_⟩
        · have := hpar.1
          simp only [List.nodup_append, List.nodup_cons, List.mem_singleton]
          grind
        · simp only [List.mem_append, List.mem_singleton, List.mem_cons, Prod.mk.injEq, hpar.2 q]
          grind
      · simp only [h2, if_false]
        refine ⟨hpar.1, fun q => ?_⟩
        simp only [List.mem_cons, Prod.mk.injEq, hpar.2 q]
        grind
    · intro q d2 hm
      obtain ⟨d1, hm1, rfl⟩ := mem_modify'.1 hm
      obtain ⟨d, hm0, rfl⟩ := mem_modify'.1 hm1
      rw [cnt_modify_same _ _ _ _ (by intro d; rfl), cnt_modify_addParent h.keys_nodup hdc hreg]
      have := h.count q d hm0
      by_cases h1 : q = p
      · subst h1
        by_cases h2 : q = c
        · subst h2; simp [incr, addParent]; omega
        · simp [h2, incr]; omega
      · by_cases h2 : q = c
        · subst h2; simp [h1, addParent]; omega
        · simp [h1, h2]; omega

theorem get?_push_self {s : Topo} {k d} (h : k ∉ keys s) : get? (push s k d) k = some d := by
  induction s with
  | nil => simp [push, get?]
  | cons e t ih =>
    obtain ⟨k', d'⟩ := e
    simp only [keys, List.map_cons, List.mem_cons, not_or] at h
    have := ih h.2
    simp only [push, List.cons_append, get?] at this ⊢
    simp [Ne.symm h.1, this]

theorem get?_push_ne {s : Topo} {k d x} (h : k ≠ x) : get? (push s k d) x = get? s x := by
  induction s with
  | nil => simp [push, get?, h]
  | cons e t ih =>
    obtain ⟨k', d'⟩ := e
    simp only [push, List.cons_append, get?] at ih ⊢
    rw [ih]

theorem modify_push (s : Topo) (k d k0 f) :
    modify (push s k d) k0 f = push (modify s k0 f) k (if k = k0 then f d else d) := by
  by_cases h : k = k0 <;> simp [modify, push, h]

theorem get?_modify (s : Topo) (k f x) :
    get? (modify s k f) x = (get? s x).map (fun d => if x = k then f d else d) := by
  induction s with
  | nil => rfl
  | cons e t ih =>
    obtain ⟨k', d'⟩ := e
    simp only [modify, List.map_cons, get?] at ih ⊢
    by_cases h1 : k' = k <;> by_cases h2 : k' = x <;> simp_all [get?]

theorem get?_isSome {s : Topo} {k} (h : k ∈ keys s) : ∃ d, get? s k = some d := by
  cases hg : get? s k with
  | none => exact absurd h (get?_none.1 hg)
  | some d => exact ⟨d, rfl⟩

theorem insertDep_eq {s : Topo} {p c : Nat}
    (hreg : ∀ d, get? s c = some d → p ∈ d.parents → p ∈ keys s) :
    insertDep s p c = link (ensure (ensure s c) p) p c := by
  unfold insertDep
  cases hg : get? s c with
  | none =>
    have hc : c ∉ keys s := get?_none.1 hg
    simp only [ensure, hc, if_false]
    by_cases hpc : p = c
    · subst hpc
      simp [bump, link, get?_push_self hc, modify_push, modify_absent hc, Deps.new, addParent, incr]
    · by_cases hp : p ∈ keys s
      · obtain ⟨dp, hdp⟩ := get?_isSome hp
        have hcp : c ≠ p := Ne.symm hpc
        simp [bump, link, get?_push_self hc, get?_push_ne hcp, hdp, hp, modify_push,
          modify_absent hc, Deps.new, addParent, hcp, hpc]
      · have hcp : c ≠ p := Ne.symm hpc
        have hp' : p ∉ keys (push s c Deps.new) := by simp [hp, hpc]
        have hgp : get? s p = none := get?_none.2 hp
        simp [bump, link, get?_push_self hc, get?_push_ne hcp, get?_push_ne hpc, hgp, hp, hpc,
          modify_push, modify_absent hc, modify_absent hp, Deps.new, addParent, hcp, incr]
  | some d =>
    have hc : c ∈ keys s := mem_keys.2 ⟨d, get?_some_mem hg⟩
    simp only [ensure, hc, if_true]
    by_cases hr : p ∈ d.parents
    · have hp := hreg d hg hr
      simp [hr, hp, link, hg]
    · by_cases hp : p ∈ keys s
      · obtain ⟨dp, hdp⟩ := get?_isSome hp
        have : get? (modify s c (addParent p)) p = some (if p = c then addParent p dp else dp) := by
          rw [get?_modify, hdp]; rfl
        simp [hr, hp, link, hg, bump, this]
      · have hpc : p ≠ c := by rintro rfl; exact hp hc
        have hgp : get? (modify s c (addParent p)) p = none := get?_none.2 (by simpa using hp)
        have hma : modify (modify s c (addParent p)) p incr = modify s c (addParent p) :=
          modify_absent (by simpa using hp)
        simp [hr, hp, link, hg, bump, hgp, get?_push_ne hpc, modify_push, hma, hpc,
          Deps.new, incr]

theorem mem_addPend {a : Abs} {x y} : y ∈ (addPend a x).pend ↔ y ∈ a.pend ∨ y = x := by
  unfold addPend
  split
  · constructor
    · exact Or.inl
    · rintro (h | rfl) <;> assumption
  · simp

/-- `insert_dep` keeps the invariant when neither item has completed -/
theorem inv_regOne {a s} (h : Inv a s) {p c} (hp : p ∉ a.done) (hc : c ∉ a.done) :
    Inv (regOne a p c) (insertDep s p c) := by
  have hreg : ∀ d, get? s c = some d → p ∈ d.parents → p ∈ keys s := by
    intro d hg hpar
    have hr := ((h.par c d (get?_some_mem hg)).2 p).1 hpar
    rcases (h.known p c hr).1 with h1 | h1
    · exact h.keys_eq ▸ h1
    · exact absurd h1 hp
  rw [insertDep_eq hreg]
  have h1 := inv_ensure h hc
  have hp1 : p ∉ (addPend a c).done := by unfold addPend; split <;> exact hp
  have h2 := inv_ensure h1 hp1
  have hpp : p ∈ (addPend (addPend a c) p).pend := mem_addPend.2 (Or.inr rfl)
  have hcp : c ∈ (addPend (addPend a c) p).pend :=
    mem_addPend.2 (Or.inl (mem_addPend.2 (Or.inr rfl)))
  exact inv_link h2 hpp hcp

theorem regOne_done (a : Abs) (p c) : (regOne a p c).done = a.done := by
  simp only [regOne, addPend]; split <;> split <;> rfl

theorem addPend_done (a : Abs) (x) : (addPend a x).done = a.done := by
  simp only [addPend]; split <;> rfl

theorem inv_regAll {a s} (h : Inv a s) {p} (hp : p ∉ a.done) :
    ∀ cs, (∀ c ∈ cs, c ∉ a.done) → Inv (regAll a p cs) (insertDeps s p cs) := by
  intro cs
  induction cs generalizing a s with
  | nil => intro _; exact h
  | cons c cs ih =>
    intro hcs
    simp only [regAll, insertDeps]
    apply ih (inv_regOne h hp (hcs c (by simp)))
    · rw [regOne_done]; exact hp
    · intro c' hc'; rw [regOne_done]; exact hcs c' (by simp [hc'])

theorem inv_addAll {a s} (h : Inv a s) :
    ∀ xs, xs.Nodup → (∀ x ∈ xs, x ∉ a.done ∧ x ∉ a.pend) → Inv (addAll a xs) (extend s xs) := by
  intro xs
  induction xs generalizing a s with
  | nil => intro _ _; exact h
  | cons x xs ih =>
    intro hn hx
    have hx0 := hx x (by simp)
    have hg : get? s x = none := get?_none.2 (h.keys_eq ▸ hx0.2)
    simp only [addAll, extend, put, hg]
    simp only [List.nodup_cons] at hn
    apply ih (inv_addFresh h hx0.2 hx0.1) hn.2
    intro y hy
    have := hx y (by simp [hy])
    rw [addPend_done]
    refine ⟨this.1, ?_⟩
    simp only [addPend, hx0.2, if_false, List.mem_append, List.mem_singleton, not_or]
    exact ⟨this.2, by rintro rfl; exact hn.1 hy⟩

/-- the decrement loop of `remove` never underflows and restores the counting invariant -/
theorem decrAll_spec : ∀ (ps : List Nat) (t : Topo), ps.Nodup →
    (∀ q d, (q, d) ∈ t → d.numChildren = cnt t q + if q ∈ ps then 1 else 0) →
    ∃ t', decrAll t ps = some t' ∧ keys t' = keys t ∧ (∀ q, cnt t' q = cnt t q) ∧
      ∀ q d', (q, d') ∈ t' → d'.numChildren = cnt t q ∧ ∃ d, (q, d) ∈ t ∧ d'.parents = d.parents := by
  intro ps
  induction ps with
  | nil =>
    intro t _ h
    exact ⟨t, rfl, rfl, fun _ => rfl, fun q d' hm => ⟨by simpa using h q d' hm, d', hm, rfl⟩⟩
  | cons p ps ih =>
    intro t hn h
    simp only [List.nodup_cons] at hn
    simp only [decrAll]
    cases hg : get? t p with
    | none =>
      have hp : p ∉ keys t := get?_none.1 hg
      apply ih t hn.2
      intro q d hm
      have hq : q ≠ p := by rintro rfl; exact hp (mem_keys.2 ⟨d, hm⟩)
      simpa [hq] using h q d hm
    | some dp =>
      have hdp := h p dp (get?_some_mem hg)
      simp only [List.mem_cons, true_or, if_true] at hdp
      have hne : dp.numChildren ≠ 0 := by omega
      simp only [hne, if_false]
      have hcnt : ∀ q, cnt (modify t p decrD) q = cnt t q :=
        fun q => cnt_modify_same _ _ _ _ (by intro d; rfl)
      obtain ⟨t', ht', hk, hc, he⟩ := ih (modify t p decrD) hn.2 (by
        intro q d1 hm
        obtain ⟨d, hm0, rfl⟩ := mem_modify'.1 hm
        rw [hcnt]
        have := h q d hm0
        by_cases hq : q = p
        · subst hq
          have : q ∉ ps := hn.1
          simp_all [decrD]
        · simp_all)
      refine ⟨t', ht', by simpa using hk, fun q => by rw [hc, hcnt], ?_⟩
      intro q d' hm
      obtain ⟨hnum, d1, hm1, hpar⟩ := he q d' hm
      obtain ⟨d, hm0, rfl⟩ := mem_modify'.1 hm1
      refine ⟨by rw [hnum, hcnt], d, hm0, ?_⟩
      rw [hpar]; by_cases hq : q = p <;> simp [hq, decrD]

/-- completion of a pending item -/
theorem inv_remove {a s} (h : Inv a s) {x} (hx : x ∈ a.pend) :
    ∃ s', remove s x = some (s', true) ∧ Inv (step a (.remove x)) s' := by
  obtain ⟨d, hd⟩ := h.mem_pend.1 hx
  have hg := mem_get? h.keys_nodup hd
  have hkd : (keys (drop s x)).Nodup := by
    rw [keys_drop]; exact h.keys_nodup.filter _
  obtain ⟨t', ht', hk, hc, he⟩ := decrAll_spec d.parents (drop s x) (h.par x d hd).1 (by
    intro q dq hm
    have hm' := (mem_drop.1 hm).1
    rw [h.count q dq hm', cnt_drop h.keys_nodup hd q])
  refine ⟨t', by simp [remove, hg, ht'], ?_⟩
  simp only [step]
  refine ⟨?_, h.nodup.filter _, ?_, ?_, ?_, ?_⟩
  · rw [hk, keys_drop, h.keys_eq]
  · intro y hy
    simp only [List.mem_filter, decide_eq_true_eq] at hy
    simp only [List.mem_cons, not_or]
    exact ⟨hy.2, h.disj y hy.1⟩
  · intro p c hr
    have := h.known p c hr
    simp only [List.mem_filter, decide_eq_true_eq, List.mem_cons]
    constructor
    · by_cases hp : p = x
      · exact Or.inr (Or.inl hp)
      · rcases this.1 with h1 | h1
        · exact Or.inl ⟨h1, hp⟩
        · exact Or.inr (Or.inr h1)
    · by_cases hp : c = x
      · exact Or.inr (Or.inl hp)
      · rcases this.2 with h1 | h1
        · exact Or.inl ⟨h1, hp⟩
        · exact Or.inr (Or.inr h1)
  · intro c d' hm
    obtain ⟨_, d0, hm0, hpar⟩ := he c d' hm
    rw [hpar]
    exact h.par c d0 (mem_drop.1 hm0).1
  · intro p d' hm
    rw [(he p d' hm).1, hc]

theorem inv_step {a s} (h : Inv a s) (op : Op) (hl : legal a op = true) :
    ∃ s', apply s op = some s' ∧ Inv (step a op) s' := by
  cases op with
  | insert x =>
    simp only [legal, decide_eq_true_eq] at hl
    refine ⟨_, rfl, ?_⟩
    simp only [insert, step]
    by_cases hx : x ∈ a.pend
    · obtain ⟨d, hd⟩ := get?_isSome (h.keys_eq ▸ hx)
      simpa [hd, addPend, hx] using h
    · have hg : get? s x = none := get?_none.2 (h.keys_eq ▸ hx)
      simpa [hg] using inv_addFresh h hx hl
  | dep p c =>
    simp only [legal, Bool.and_eq_true, decide_eq_true_eq] at hl
    exact ⟨_, rfl, inv_regOne h hl.1 hl.2⟩
  | deps p cs =>
    simp only [legal, Bool.and_eq_true, decide_eq_true_eq, List.all_eq_true] at hl
    exact ⟨_, rfl, inv_regAll h hl.1 cs hl.2⟩
  | extend xs =>
    simp only [legal, Bool.and_eq_true, decide_eq_true_eq, List.all_eq_true] at hl
    exact ⟨_, rfl, inv_addAll h xs hl.1 hl.2⟩
  | remove x =>
    simp only [legal, decide_eq_true_eq] at hl
    obtain ⟨s', hs', hi⟩ := inv_remove h hl
    exact ⟨s', by simp [apply, hs'], hi⟩

/-- lifted to every history that follows the protocol -/
theorem inv_run {a s} (h : Inv a s) : ∀ (ops : List Op) {a'}, after a ops = some a' →
    ∃ s', run s ops = some s' ∧ Inv a' s' := by
  intro ops
  induction ops generalizing a s with
  | nil => intro a' ha; simp only [after, Option.some.injEq] at ha; exact ⟨s, rfl, ha ▸ h⟩
  | cons op ops ih =>
    intro a' ha
    simp only [after] at ha
    by_cases hl : legal a op = true
    · simp only [hl, if_true] at ha
      obtain ⟨s1, hs1, hi1⟩ := inv_step h op hl
      obtain ⟨s', hs', hi'⟩ := ih hi1 ha
      exact ⟨s', by simp [run, hs1, hs'], hi'⟩
    · simp [hl] at ha

/-! ### what the invariant says about the observers -/

theorem depsDone_iff {a s} (h : Inv a s) {x d} (hx : (x, d) ∈ s) :
    depsDone a x = true ↔ d.numChildren = 0 := by
  rw [h.count x d hx, cnt_eq_zero]
  simp only [depsDone, List.all_eq_true, Bool.or_eq_true, decide_eq_true_eq, bne_iff_ne, ne_eq,
    Prod.forall]
  constructor
  · intro hall c dc hc hpar
    have hr := ((h.par c dc hc).2 x).1 hpar
    rcases hall x c hr with h1 | h1
    · simp at h1
    · exact h.disj c (h.mem_pend.2 ⟨dc, hc⟩) h1
  · intro hno p c hr
    by_cases hp : p = x
    · subst hp
      right
      rcases (h.known p c hr).2 with h1 | h1
      · obtain ⟨dc, hdc⟩ := h.mem_pend.1 h1
        exact absurd (((h.par c dc hdc).2 p).2 hr) (hno c dc hdc)
      · exact h1
    · left; simpa using hp

theorem waits_iff {a s} (h : Inv a s) {x} (hx : x ∈ a.pend) :
    waits a x = true ↔ depsDone a x = false := by
  simp only [waits, depsDone, List.any_eq_true, Bool.and_eq_true, decide_eq_true_eq,
    beq_iff_eq, Prod.exists, List.all_eq_false, Bool.or_eq_true, bne_iff_ne, ne_eq, not_or,
    Decidable.not_not]
  constructor
  · rintro ⟨p, c, hr, rfl, hc⟩
    exact ⟨p, c, hr, rfl, h.disj c hc⟩
  · rintro ⟨p, c, hr, rfl, hc⟩
    refine ⟨p, c, hr, rfl, ?_⟩
    rcases (h.known p c hr).2 with h1 | h1
    · exact h1
    · exact absurd h1 hc

theorem leaves_eq {a s} (h : Inv a s) : leaves s = readyList a := by
  unfold leaves readyList
  rw [← h.keys_eq, keys, List.filter_map]
  congr 1
  apply List.filter_congr
  intro e he
  simp only [Function.comp]
  cases hd : depsDone a e.1 with
  | true => simpa using (depsDone_iff h (x := e.1) (d := e.2) he).1 hd
  | false =>
    have : ¬ e.2.numChildren = 0 := fun h0 => by
      have := (depsDone_iff h (x := e.1) (d := e.2) he).2 h0
      simp [hd] at this
    simpa using this

theorem isEmpty_iff {a s} (h : Inv a s) : s = [] ↔ a.pend = [] := by
  rw [← h.keys_eq]; cases s <;> simp [keys]

theorem leaves_nil_iff (s : Topo) : leaves s = [] ↔ ∀ e ∈ s, e.2.numChildren ≠ 0 := by
  simp [leaves, List.filter_eq_nil_iff]

/-- `in_cycle` is "non-empty and `peek_all` finds nothing" (pure model fact) -/
theorem inCycle_iff_leaves (s : Topo) : inCycle s = true ↔ s ≠ [] ∧ leaves s = [] := by
  rw [leaves_nil_iff]
  cases s <;> simp [inCycle]

theorem peekAll_eq (s : Topo) : peekAll s = if inCycle s then .cycle else .ok (leaves s) := by
  have := inCycle_iff_leaves s
  unfold peekAll
  by_cases hc : inCycle s = true
  · have h2 := this.1 hc
    simp [hc, h2.2]
    intro h; exact h2.1 h
  · have : ¬ (s ≠ [] ∧ leaves s = []) := fun h => hc (this.2 h)
    simp only [Bool.not_eq_true] at hc
    simp only [hc, Bool.false_eq_true, if_false]
    rw [if_neg]
    simpa [List.isEmpty_iff] using this

theorem cyclic_iff {a s} (h : Inv a s) : cyclic a = inCycle s := by
  have he : s ≠ [] ↔ a.pend ≠ [] := not_congr (isEmpty_iff h)
  rw [Bool.eq_iff_iff, inCycle_iff_leaves, leaves_eq h, he]
  simp only [cyclic, Bool.and_eq_true, Bool.not_eq_true', List.isEmpty_eq_false_iff,
    List.all_eq_true, readyList, List.filter_eq_nil_iff, ne_eq]
  constructor
  · rintro ⟨h1, h2⟩
    refine ⟨h1, fun x hx => ?_⟩
    simp [(waits_iff h hx).1 (h2 x hx)]
  · rintro ⟨h1, h2⟩
    refine ⟨h1, fun x hx => (waits_iff h hx).2 ?_⟩
    simpa using h2 x hx

theorem decrAll_keys : ∀ (ps : List Nat) (t t' : Topo), decrAll t ps = some t' → keys t' = keys t := by
  intro ps
  induction ps with
  | nil => intro t t' h; simp only [decrAll, Option.some.injEq] at h; rw [h]
  | cons p ps ih =>
    intro t t' h
    simp only [decrAll] at h
    cases hg : get? t p with
    | none => rw [hg] at h; exact ih t t' h
    | some d =>
      rw [hg] at h
      by_cases h0 : d.numChildren = 0
      · simp [h0] at h
      · simp only [h0, if_false] at h
        rw [ih _ t' h, keys_modify]

theorem remove_keys {s s' : Topo} {x b} (h : remove s x = some (s', b)) :
    keys s' = (keys s).filter (· ≠ x) := by
  unfold remove at h
  cases hg : get? s x with
  | none =>
    rw [hg] at h
    simp only [Option.some.injEq, Prod.mk.injEq] at h
    rw [← h.1]
    have := get?_none.1 hg
    symm; rw [List.filter_eq_self]
    intro y hy
    have : y ≠ x := by rintro rfl; exact this hy
    simpa using this
  | some d =>
    rw [hg] at h
    simp only at h
    cases hd : decrAll (drop s x) d.parents with
    | none => rw [hd] at h; simp at h
    | some t =>
      rw [hd] at h
      simp only [Option.some.injEq, Prod.mk.injEq] at h
      rw [← h.1, decrAll_keys _ _ _ hd, keys_drop]

theorem leaves_sub_keys (s : Topo) : ∀ x ∈ leaves s, x ∈ keys s := by
  intro x hx
  simp only [leaves, List.mem_map, List.mem_filter] at hx
  obtain ⟨e, ⟨he, _⟩, rfl⟩ := hx
  simp only [keys, List.mem_map]
  exact ⟨e, he, rfl⟩

end CapyV.Topo
