import CapyV.Model.Switch
/-!
Helper lemmas for C11: the three loops of the switch check against the declarative rule,
the discriminant assignment, and the jump table.
-/
namespace CapyV.Switch
open CapyV

/-! ## Acceptance -/

/-- the variant an arm selects in the second loop: the first one `matches_arm` accepts -/
def firstMatching (a : Arm) (ks : List Ty) : Option Ty :=
  ks.find? (fun v => matchesArm v a == some true)

def keys (st : List (Ty × Bool)) : List Ty := st.map Prod.fst

/-- set the flag of key `v` -/
def mark (v : Ty) (st : List (Ty × Bool)) : List (Ty × Bool) :=
  st.map fun p => if p.1 = v then (p.1, true) else p

theorem keys_mark (v : Ty) (st : List (Ty × Bool)) : keys (mark v st) = keys st := by
  induction st with
  | nil => rfl
  | cons p rest ih =>
    simp only [mark, keys, List.map_cons] at ih ⊢
    split <;> simp_all

theorem mark_of_not_mem (v : Ty) (st : List (Ty × Bool)) (h : v ∉ keys st) : mark v st = st := by
  induction st with
  | nil => rfl
  | cons p rest ih =>
    simp only [keys, List.map_cons, List.mem_cons, not_or] at h
    simp only [mark, List.map_cons]
    rw [if_neg (fun e => h.1 e.symm)]
    congr 1
    exact ih h.2

theorem mem_mark (v w : Ty) (st : List (Ty × Bool)) (hv : v ∈ keys st) :
    (w, true) ∈ mark v st ↔ (w, true) ∈ st ∨ w = v := by
  induction st with
  | nil => simp [keys] at hv
  | cons p rest ih =>
    obtain ⟨k, b⟩ := p
    simp only [mark, List.map_cons, List.mem_cons]
    by_cases hk : k = v
    · subst hk
      simp only [if_true]
      by_cases hin : k ∈ keys rest
      · have := ih hin
        simp only [mark] at this
        rw [this]
        constructor
        · rintro (h | h | h)
          · right; exact (Prod.mk.inj h).1
          · left; right; exact h
          · right; exact h
        · rintro ((h | h) | h)
          · right; right; exact (Prod.mk.inj h).1
          · right; left; exact h
          · left; rw [h]
      · have hm := mark_of_not_mem k rest hin
        simp only [mark] at hm
        rw [hm]
        constructor
        · rintro (h | h)
          · right; exact (Prod.mk.inj h).1
          · left; right; exact h
        · rintro ((h | h) | h)
          · left; rw [(Prod.mk.inj h).1]
          · right; exact h
          · left; rw [h]
    · simp only [if_neg hk]
      have hin : v ∈ keys rest := by
        simp only [keys, List.map_cons, List.mem_cons] at hv
        rcases hv with h | h
        · exact absurd h.symm hk
        · exact h
      have := ih hin
      simp only [mark] at this
      rw [this]
      constructor
      · rintro (h | h | h)
        · left; left; exact h
        · left; right; exact h
        · right; exact h
      · rintro ((h | h) | h)
        · left; exact h
        · right; left; exact h
        · right; right; exact h

/-- `markArm` = mark the first matching variant (when `matches_arm` never hits its
`unreachable!()` and the variant types are pairwise different). -/
theorem markArm_eq (a : Arm) (st : List (Ty × Bool))
    (hm : ∀ v ∈ keys st, (matchesArm v a).isSome) (hnd : (keys st).Nodup) :
    markArm a st =
      match firstMatching a (keys st) with
      | none => none
      | some v => some (mark v st, if (v, true) ∈ st then some v else none) := by
  induction st with
  | nil => rfl
  | cons p rest ih =>
    obtain ⟨k, b⟩ := p
    have hk : (matchesArm k a).isSome := hm k (by simp [keys])
    have hm' : ∀ v ∈ keys rest, (matchesArm v a).isSome := fun v hv => hm v (by
      simp only [keys, List.map_cons, List.mem_cons] at hv ⊢; exact Or.inr hv)
    have hnd' : (keys rest).Nodup := by
      simp only [keys, List.map_cons, List.nodup_cons] at hnd ⊢; exact hnd.2
    have hknot : k ∉ keys rest := by
      simp only [keys, List.map_cons, List.nodup_cons] at hnd ⊢; exact hnd.1
    have ih' := ih hm' hnd'
    match hmk : matchesArm k a with
    | none => simp [hmk] at hk
    | some true =>
      simp only [markArm, hmk, firstMatching, keys, List.map_cons, List.find?_cons, beq_self_eq_true]
      have hmr := mark_of_not_mem k rest hknot
      simp only [mark, List.map_cons, if_true]
      simp only [mark] at hmr
      rw [hmr]
      have : ((k, true) ∈ (k, b) :: rest) ↔ b = true := by
        simp only [List.mem_cons, Prod.mk.injEq, true_and]
        constructor
        · rintro (h | h)
          · exact h.symm
          · exact absurd (List.mem_map_of_mem (f := Prod.fst) h) hknot
        · intro h; left; exact h.symm
      cases b with
      | true => simp
      | false =>
        have hnot : (k, true) ∉ rest := fun h => hknot (List.mem_map_of_mem (f := Prod.fst) h)
        simp [hnot]
    | some false =>
      simp only [markArm, hmk, firstMatching, keys, List.map_cons, List.find?_cons]
      have hne : (some false == some true) = false := by decide
      simp only [hne]
      simp only [firstMatching, keys] at ih'
      rw [ih']
      match hf : List.find? (fun v => matchesArm v a == some true) (List.map Prod.fst rest) with
      | none => rfl
      | some v =>
        have hvin : v ∈ keys rest := List.mem_of_find?_eq_some hf
        have hvk : k ≠ v := fun e => hknot (e ▸ hvin)
        simp only [mark, List.map_cons, if_neg hvk]
        have : ((v, true) ∈ (k, b) :: rest) ↔ (v, true) ∈ rest := by
          simp only [List.mem_cons, Prod.mk.injEq]
          constructor
          · rintro (h | h)
            · exact absurd h.1.symm hvk
            · exact h
          · intro h; right; exact h
        by_cases hin : (v, true) ∈ rest
        · rw [if_pos (this.2 hin), if_pos hin]
        · rw [if_neg (fun h => hin (this.1 h)), if_neg hin]

/-- The second loop, declaratively. `nm a` is the variant arm `a` selects. -/
theorem coverArms_spec (vts : List Ty) (hnd : vts.Nodup) (arms : List Arm)
    (hm : ∀ a ∈ arms, ∀ v ∈ vts, (matchesArm v a).isSome)
    (hres : ∀ a ∈ arms, (firstMatching a vts).isSome) :
    ∀ st, keys st = vts →
      ∃ st' ds, coverArms arms st = some (st', ds) ∧ keys st' = vts ∧
        (∀ v, (v, true) ∈ st' ↔ (v, true) ∈ st ∨ some v ∈ arms.map (firstMatching · vts)) ∧
        (ds = [] ↔ (arms.map (firstMatching · vts)).Nodup ∧
          ∀ v, (v, true) ∈ st → some v ∉ arms.map (firstMatching · vts)) := by
  induction arms with
  | nil =>
    intro st hst
    exact ⟨st, [], rfl, hst, by simp, by simp⟩
  | cons a rest ih =>
    intro st hst
    have hma : ∀ v ∈ keys st, (matchesArm v a).isSome := by
      rw [hst]; exact hm a (by simp)
    have hnd' : (keys st).Nodup := by rw [hst]; exact hnd
    have hmark := markArm_eq a st hma hnd'
    rw [hst] at hmark
    have hsome := hres a (by simp)
    match hf : firstMatching a vts with
    | none => simp [hf] at hsome
    | some v =>
      rw [hf] at hmark
      have hvin : v ∈ vts := List.mem_of_find?_eq_some hf
      have hkm : keys (mark v st) = vts := by rw [keys_mark]; exact hst
      obtain ⟨st', ds, hc, hk', hflags, hds⟩ :=
        ih (fun a' ha' => hm a' (by simp [ha'])) (fun a' ha' => hres a' (by simp [ha'])) (mark v st) hkm
      have hmm := fun w => mem_mark v w st (by rw [hst]; exact hvin)
      have hflags' : ∀ w, (w, true) ∈ st' ↔
          (w, true) ∈ st ∨ some w ∈ (a :: rest).map (firstMatching · vts) := by
        intro w
        rw [hflags w, hmm w]
        simp only [List.map_cons, List.mem_cons, hf, Option.some.injEq]
        constructor
        · rintro ((h | h) | h)
          · left; exact h
          · right; left; exact h
          · right; right; exact h
        · rintro (h | h | h)
          · left; left; exact h
          · left; right; exact h
          · right; exact h
      by_cases hin : (v, true) ∈ st
      · refine ⟨st', .alreadyCovers v :: ds, ?_, hk', hflags', ?_⟩
        · simp only [coverArms, hmark, hc, if_pos hin]
        · simp only [List.map_cons, hf, List.nodup_cons, List.mem_cons, Option.some.injEq]
          constructor
          · intro h; exact absurd h (by simp)
          · rintro ⟨_, h⟩
            exact absurd (Or.inl rfl) (h v hin)
      · refine ⟨st', ds, ?_, hk', hflags', ?_⟩
        · simp only [coverArms, hmark, hc, if_neg hin]
        · simp only [List.map_cons, hf, List.nodup_cons, List.mem_cons, Option.some.injEq]
          rw [hds]
          constructor
          · rintro ⟨hn, hall⟩
            refine ⟨⟨?_, hn⟩, ?_⟩
            · exact hall v ((hmm v).2 (Or.inr rfl))
            · intro w hw
              rintro (h | h)
              · exact hin (h ▸ hw)
              · exact hall w ((hmm w).2 (Or.inl hw)) h
          · rintro ⟨⟨hv, hn⟩, hall⟩
            refine ⟨hn, ?_⟩
            intro w hw
            rcases (hmm w).1 hw with h | h
            · exact fun hmem => hall w h (Or.inr hmem)
            · rw [h]; exact hv

theorem uncovered_nil_iff (st : List (Ty × Bool)) :
    uncovered st = [] ↔ ∀ p ∈ st, p.2 = true := by
  induction st with
  | nil => simp [uncovered]
  | cons p rest ih =>
    obtain ⟨k, b⟩ := p
    cases b <;> simp [uncovered, ih]

/-- `names` is "the first variant `matches_arm` accepts" (for shorthand arms: on enums). -/
theorem names_eq_firstMatching (e : Bool) (vts : List Ty) (a : Arm)
    (he : ∀ n, a = .shorthand n → e = true) :
    names e vts a = firstMatching a vts := by
  cases a with
  | qualified ty =>
    simp only [names, firstMatching, matchesArm]
    induction vts with
    | nil => simp
    | cons v rest ih =>
      simp only [List.mem_cons, List.find?_cons]
      by_cases h : v = ty
      · subst h; simp
      · have h' : ¬ ty = v := fun e => h e.symm
        simp only [h', false_or, h, decide_false]
        have : (some false == some true) = false := by decide
        simp only [this]
        exact ih
  | shorthand n =>
    have := he n rfl
    subst this
    simp only [names, firstMatching, if_true]
    congr 1
    funext v
    simp only [matchesArm]
    cases hv : variantName? v with
    | none => simp
    | some m =>
      by_cases hmn : m = n
      · subst hmn; simp
      · simp [hmn]

theorem anyNamed_eq (n : Nat) (vts : List Ty) (hv : ∀ v ∈ vts, (variantName? v).isSome) :
    anyNamed n vts = some (vts.find? (fun v => variantName? v == some n)).isSome := by
  induction vts with
  | nil => rfl
  | cons v rest ih =>
    have h1 := hv v (by simp)
    have ih' := ih (fun w hw => hv w (by simp [hw]))
    match hvn : variantName? v with
    | none => simp [hvn] at h1
    | some m =>
      simp only [anyNamed, hvn, List.find?_cons]
      by_cases hmn : m = n
      · subst hmn; simp
      · have : (some m == some n) = false := by simp [hmn]
        simp only [hmn, if_false, this]
        exact ih'

/-- The first loop never panics on a well-formed scrutinee and pushes no diagnostic exactly
when every arm names a variant. -/
theorem resolveArms_spec (scrut : Ty) (vts : List Ty)
    (hv : isEnum scrut = true → ∀ v ∈ vts, (variantName? v).isSome) (arms : List Arm) :
    ∃ ds, resolveArms scrut vts arms = some ds ∧
      (ds = [] ↔ ∀ a ∈ arms, (names (isEnum scrut) vts a).isSome) := by
  induction arms with
  | nil => exact ⟨[], rfl, by simp⟩
  | cons a rest ih =>
    obtain ⟨ds, hds, hiff⟩ := ih
    cases a with
    | qualified ty =>
      simp only [resolveArms, hds]
      by_cases hc : vts.contains ty = true
      · refine ⟨ds, by rw [if_pos hc], ?_⟩
        have hmem : ty ∈ vts := List.contains_iff_mem.mp hc
        simp [hiff, names, hmem]
      · refine ⟨.notAVariant ty :: ds, by rw [if_neg hc], ?_⟩
        have hmem : ty ∉ vts := fun hm => hc (List.contains_iff_mem.mpr hm)
        simp [names, hmem]
    | shorthand n =>
      by_cases he : isEnum scrut = true
      · have hany := anyNamed_eq n vts (hv he)
        rw [he] at hiff ⊢
        by_cases hf : (vts.find? (fun v => variantName? v == some n)).isSome = true
        · refine ⟨ds, by simp [resolveArms, he, hany, hds, hf], ?_⟩
          simp [hiff, names, hf]
        · refine ⟨.notAShorthandVariant n :: ds, by simp [resolveArms, he, hany, hds, hf], ?_⟩
          simp [names, hf]
      · have he' : isEnum scrut = false := by simpa using he
        rw [he'] at hiff ⊢
        refine ⟨.mismatchEnum :: ds, by simp [resolveArms, he', hds], ?_⟩
        simp [names]

/-! ## Discriminants -/

theorem le_sum_of_mem {a : Nat} {l : List Nat} (h : a ∈ l) : a ≤ l.sum := by
  induction l with
  | nil => simp at h
  | cons b rest ih =>
    simp only [List.mem_cons] at h
    simp only [List.sum_cons]
    rcases h with h | h
    · omega
    · have := ih h; omega

theorem firstFree_spec (used : List Nat) (fuel d : Nat) (h : ∀ u ∈ used, u < d + fuel) :
    firstFree used d fuel ∉ used ∧ d ≤ firstFree used d fuel := by
  induction fuel generalizing d with
  | zero =>
    simp only [firstFree]
    exact ⟨fun hm => by have := h d hm; omega, Nat.le_refl _⟩
  | succ f ih =>
    simp only [firstFree]
    by_cases hd : d ∈ used
    · rw [if_pos hd]
      have := ih (d + 1) (fun u hu => by have := h u hu; omega)
      exact ⟨this.1, by omega⟩
    · rw [if_neg hd]
      exact ⟨hd, Nat.le_refl _⟩

/-- the manual discriminants of a declaration -/
def somes (ms : List (Option Nat)) : List Nat := ms.filterMap id

/-- Second pass: every value is either one of the manual ones or a fresh value that is not
in `used` and at least `latest`; all values are pairwise different. -/
theorem assignPass_spec (used : List Nat) (ms : List (Option Nat))
    (hsub : ∀ d, some d ∈ ms → d ∈ used) (hnd : (somes ms).Nodup) :
    ∀ latest,
      (assignPass used ms latest).Nodup ∧
      (∀ e ∈ assignPass used ms latest, some e ∈ ms ∨ (e ∉ used ∧ latest ≤ e)) ∧
      (assignPass used ms latest).length = ms.length := by
  induction ms with
  | nil => intro latest; simp [assignPass]
  | cons m rest ih =>
    intro latest
    have hsub' : ∀ d, some d ∈ rest → d ∈ used := fun d hd => hsub d (by simp [hd])
    cases m with
    | none =>
      have hnd' : (somes rest).Nodup := by simpa [somes] using hnd
      have hff := firstFree_spec used (used.sum + 1) latest
        (fun u hu => by have := le_sum_of_mem hu; omega)
      simp only [assignPass]
      generalize hd : firstFree used latest (used.sum + 1) = d at hff ⊢
      have hge : d ≥ latest := hff.2
      simp only [hge, if_true]
      obtain ⟨ihn, ihm, ihl⟩ := ih hsub' hnd' (d + 1)
      refine ⟨?_, ?_, by simp [ihl]⟩
      · rw [List.nodup_cons]
        refine ⟨?_, ihn⟩
        intro hin
        rcases ihm d hin with h | h
        · exact hff.1 (hsub' d h)
        · omega
      · intro e he
        rw [List.mem_cons] at he
        rcases he with h | h
        · right; rw [h]; exact ⟨hff.1, hff.2⟩
        · rcases ihm e h with h' | h'
          · left; simp [h']
          · right; exact ⟨h'.1, by omega⟩
    | some d =>
      have hnd' : (somes rest).Nodup ∧ d ∉ somes rest := by
        simp only [somes, List.filterMap_cons, id, List.nodup_cons] at hnd
        exact ⟨hnd.2, hnd.1⟩
      have hdu : d ∈ used := hsub d (by simp)
      simp only [assignPass]
      obtain ⟨ihn, ihm, ihl⟩ := ih hsub' hnd'.1 (if d ≥ latest then d + 1 else latest)
      refine ⟨?_, ?_, by simp [ihl]⟩
      · rw [List.nodup_cons]
        refine ⟨?_, ihn⟩
        intro hin
        rcases ihm d hin with h | h
        · exact hnd'.2 (by simp [somes, h])
        · exact h.1 hdu
      · intro e he
        rw [List.mem_cons] at he
        rcases he with h | h
        · left; simp [h]
        · rcases ihm e h with h' | h'
          · left; simp [h']
          · right
            refine ⟨h'.1, ?_⟩
            have := h'.2
            split at this <;> omega

/-- First pass without a `DiscriminantUsedAlready` report: every `| N` is recorded as written,
they are pairwise different, and all of them are in `used_discriminants`. -/
theorem manualPass_spec (ms : List (Option Nat)) :
    ∀ used0 u m, manualPass ms used0 = (u, m, []) →
      m = ms ∧ (somes ms).Nodup ∧ (∀ d, some d ∈ ms → d ∉ used0) ∧
      (∀ d, d ∈ u ↔ d ∈ used0 ∨ some d ∈ ms) := by
  induction ms with
  | nil =>
    intro used0 u m h
    simp only [manualPass, Prod.mk.injEq] at h
    obtain ⟨h1, h2, _⟩ := h
    subst h1; subst h2
    simp [somes]
  | cons x rest ih =>
    intro used0 u m h
    cases x with
    | none =>
      simp only [manualPass] at h
      generalize hr : manualPass rest used0 = r at h
      obtain ⟨u', m', d'⟩ := r
      simp only [Prod.mk.injEq] at h
      obtain ⟨h1, h2, h3⟩ := h
      subst h1; subst h2; subst h3
      obtain ⟨e1, e2, e3, e4⟩ := ih used0 u' m' hr
      subst e1
      refine ⟨rfl, by simpa [somes] using e2, ?_, ?_⟩
      · intro d hd
        simp only [List.mem_cons] at hd
        rcases hd with hd | hd
        · cases hd
        · exact e3 d hd
      · intro d
        rw [e4 d]
        simp
    | some n =>
      simp only [manualPass] at h
      by_cases hn : n ∈ used0
      · simp only [hn, if_true] at h
        generalize hr : manualPass rest used0 = r at h
        obtain ⟨u', m', d'⟩ := r
        simp at h
      · simp only [hn, if_false] at h
        generalize hr : manualPass rest (n :: used0) = r at h
        obtain ⟨u', m', d'⟩ := r
        simp only [Prod.mk.injEq] at h
        obtain ⟨h1, h2, h3⟩ := h
        subst h1; subst h2; subst h3
        obtain ⟨e1, e2, e3, e4⟩ := ih (n :: used0) u' m' hr
        subst e1
        refine ⟨rfl, ?_, ?_, ?_⟩
        · simp only [somes, List.filterMap_cons, id, List.nodup_cons]
          refine ⟨?_, e2⟩
          intro hin
          have : some n ∈ m' := by
            simp only [List.mem_filterMap, id] at hin
            obtain ⟨a, ha, hb⟩ := hin
            rw [hb] at ha; exact ha
          exact e3 n this (by simp)
        · intro d hd
          simp only [List.mem_cons, Option.some.injEq] at hd
          rcases hd with hd | hd
          · rw [hd]; exact hn
          · exact fun hu => e3 d hd (by simp [hu])
        · intro d
          rw [e4 d]
          simp only [List.mem_cons, Option.some.injEq]
          constructor
          · rintro ((h | h) | h)
            · right; left; exact h
            · left; exact h
            · right; right; exact h
          · rintro (h | h | h)
            · left; right; exact h
            · left; left; exact h
            · right; exact h

end CapyV.Switch
