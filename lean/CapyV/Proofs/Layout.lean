import CapyV.Model.Layout
/-! Helper definitions and lemmas for C17. -/
namespace CapyV.Layout
open CapyV

/-- integer widths the front end can produce (`0` weak, `255` pointer sized) -/
def okIntWidth (w : Nat) : Bool :=
  w == 0 || w == 8 || w == 16 || w == 32 || w == 64 || w == 128 || w == 255

def okFloatWidth (w : Nat) : Bool := w == 0 || w == 32 || w == 64

/-- pointer widths Cranelift targets have -/
def okPw (pw : Nat) : Bool := pw == 16 || pw == 32 || pw == 64

mutual
/-- Well-formed type: every integer / float width occurring in it is a real one. -/
def wf : Ty → Bool
  | .iint w | .uint w => okIntWidth w
  | .float w => okFloatWidth w
  | .anonArray _ s | .concreteArray _ s | .slice s | .pointer _ s | .distinct _ s
  | .optional s | .enumVariant _ _ _ s _ => wf s
  | .errorUnion a b => wf a && wf b
  | .concreteFn ps r _ | .fnPointer ps r => wfParams ps && wf r
  | .anonStruct ms | .concreteStruct _ ms => wfMembers ms
  | .enum _ vs => wfTys vs
  | _ => true
def wfMembers : Members → Bool
  | .nil => true
  | .cons _ t r => wf t && wfMembers r
def wfParams : Params → Bool
  | .nil => true
  | .cons t _ _ _ r => wf t && wfParams r
def wfTys : Tys → Bool
  | .nil => true
  | .cons t r => wf t && wfTys r
end

/-- "a power of two no larger than 8" -/
def Pow2Le8 (a : Nat) : Prop := a = 1 ∨ a = 2 ∨ a = 4 ∨ a = 8

theorem Pow2Le8.pos {a : Nat} (h : Pow2Le8 a) : 0 < a := by
  rcases h with h | h | h | h <;> omega

theorem pow2_max {a b : Nat} (ha : Pow2Le8 a) (hb : Pow2Le8 b) : Pow2Le8 (if a > b then a else b) := by
  split <;> assumption

theorem pow2_max' {a b : Nat} (ha : Pow2Le8 a) (hb : Pow2Le8 b) : Pow2Le8 (max a b) := by
  rcases Nat.le_total a b with h | h
  · rw [Nat.max_eq_right h]; exact hb
  · rw [Nat.max_eq_left h]; exact ha

theorem int_align_ok {pw w : Nat} (hpw : okPw pw = true) (hw : okIntWidth w = true) :
    Pow2Le8 (min (intSize pw w) 8) := by
  simp [okPw, okIntWidth] at hpw hw
  rcases hpw with (h | h) | h <;> rcases hw with (((((h' | h') | h') | h') | h') | h') | h' <;>
    subst h <;> subst h' <;> simp [intSize, PTR_WIDTH_MARK, Pow2Le8]

theorem float_align_ok {w : Nat} (hw : okFloatWidth w = true) : Pow2Le8 (min (floatSize w) 8) := by
  simp [okFloatWidth] at hw
  rcases hw with (h | h) | h <;> subst h <;> simp [floatSize, Pow2Le8]

theorem ptr_align_ok {pw : Nat} (hpw : okPw pw = true) : Pow2Le8 (min (pw / 8) 8) := by
  simp [okPw] at hpw
  rcases hpw with (h | h) | h <;> subst h <;> simp [Pow2Le8]

theorem slice_align_ok {pw : Nat} (hpw : okPw pw = true) : Pow2Le8 (min (pw / 8 * 2 / 2) 8) := by
  simp [okPw] at hpw
  rcases hpw with (h | h) | h <;> subst h <;> simp [Pow2Le8]

theorem any_align_ok {pw : Nat} (hpw : okPw pw = true) : Pow2Le8 (anyAlign pw) := by
  simp [okPw] at hpw
  rcases hpw with (h | h) | h <;> subst h <;> simp [anyAlign, Pow2Le8]

mutual
theorem align_ok (pw : Nat) (hpw : okPw pw = true) : (t : Ty) → wf t = true → Pow2Le8 (layout pw t).2
  | .notYetResolved, _ | .unknown, _ | .bool, _ | .char, _ | .nil, _ | .void, _
  | .alwaysJumps, _ | .file _, _ => by simp [layout, Pow2Le8]
  | .iint w, h | .uint w, h => by simpa [layout] using int_align_ok hpw (by simpa [wf] using h)
  | .float w, h => by simpa [layout] using float_align_ok (by simpa [wf] using h)
  | .string, _ | .pointer _ _, _ | .naivePolyFn _, _ | .concreteFn _ _ _, _ | .fnPointer _ _, _
  | .rawPtr _, _ => by simpa [layout] using ptr_align_ok hpw
  | .slice _, _ | .rawSlice, _ => by simpa [layout] using slice_align_ok hpw
  | .type, _ => by simp [layout, Pow2Le8]
  | .any, _ => by simpa [layout] using any_align_ok hpw
  | .anonArray _ s, h | .concreteArray _ s, h => by
    have := align_ok pw hpw s (by simpa [wf] using h)
    simpa [layout] using this
  | .distinct _ s, h | .enumVariant _ _ _ s _, h => by
    have := align_ok pw hpw s (by simpa [wf] using h)
    simpa [layout] using this
  | .optional s, h => by
    have := align_ok pw hpw s (by simpa [wf] using h)
    simp only [layout]
    split <;> simpa using this
  | .errorUnion a b, h => by
    have hw : wf a = true ∧ wf b = true := by simpa [wf] using h
    have ha := align_ok pw hpw a hw.1
    have hb := align_ok pw hpw b hw.2
    simpa [layout] using pow2_max' ha hb
  | .anonStruct ms, h | .concreteStruct _ ms, h => by
    simpa [layout] using struct_align_ok pw hpw ms (by simpa [wf] using h) 0 1 (Or.inl rfl)
  | .enum _ vs, h => by
    simpa [layout] using variants_align_ok pw hpw vs (by simpa [wf] using h) 0 1 (Or.inl rfl)
theorem struct_align_ok (pw : Nat) (hpw : okPw pw = true) :
    (ms : Members) → wfMembers ms = true → ∀ cur ma, Pow2Le8 ma → Pow2Le8 (structLayout pw ms cur ma).2
  | .nil, _ => by intro cur ma h; simpa [structLayout] using h
  | .cons _ t r, h => by
    intro cur ma hma
    have hw : wf t = true ∧ wfMembers r = true := by simpa [wfMembers] using h
    have ht := align_ok pw hpw t hw.1
    simp only [structLayout]
    exact struct_align_ok pw hpw r hw.2 _ _ (pow2_max ht hma)
theorem variants_align_ok (pw : Nat) (hpw : okPw pw = true) :
    (vs : Tys) → wfTys vs = true → ∀ ms ma, Pow2Le8 ma → Pow2Le8 (variantsMax pw vs ms ma).2
  | .nil, _ => by intro ms ma h; simpa [variantsMax] using h
  | .cons t r, h => by
    intro ms ma hma
    have hw : wf t = true ∧ wfTys r = true := by simpa [wfTys] using h
    have ht := align_ok pw hpw t hw.1
    simp only [variantsMax]
    exact variants_align_ok pw hpw r hw.2 _ _ (pow2_max ht hma)
end


/-! ### padding and stride -/

theorem padNeeded_aligned (off a : Nat) (ha : 0 < a) : (off + padNeeded off a) % a = 0 := by
  unfold padNeeded
  simp only
  split
  · rename_i h
    have hlt : off % a < a := Nat.mod_lt _ ha
    have hdm := Nat.div_add_mod off a
    have : off + (a - off % a) = a * (off / a + 1) := by
      rw [Nat.mul_add, Nat.mul_one]; omega
    rw [this, Nat.mul_mod_right]
  · rename_i h
    have : off % a = 0 := by omega
    simpa using this

theorem padNeeded_lt (off a : Nat) (ha : 0 < a) : padNeeded off a < a := by
  unfold padNeeded
  simp only
  split <;> omega

/-- `x &&& (2^32 - 2^k)` clears the low `k` bits of a 32-bit value. -/
theorem and_mask (x k : Nat) (hk : k ≤ 32) (hx : x < 2 ^ 32) :
    x &&& (0xFFFFFFFF - (2 ^ k - 1)) = x / 2 ^ k * 2 ^ k := by
  apply Nat.eq_of_testBit_eq
  intro i
  have hm : (0xFFFFFFFF : Nat) - (2 ^ k - 1) = (2 ^ (32 - k) - 1) * 2 ^ k := by
    have : (2:Nat) ^ 32 = 2 ^ (32 - k) * 2 ^ k := by
      rw [← Nat.pow_add]; congr 1; omega
    have h1 : 1 ≤ (2:Nat) ^ k := Nat.one_le_two_pow
    have h2 : 1 ≤ (2:Nat) ^ (32 - k) := Nat.one_le_two_pow
    have : (0xFFFFFFFF : Nat) = 2 ^ 32 - 1 := by decide
    rw [Nat.sub_mul, Nat.one_mul]
    omega
  rw [hm, Nat.testBit_and, Nat.testBit_mul_two_pow, Nat.testBit_mul_two_pow,
    Nat.testBit_two_pow_sub_one, Nat.testBit_div_two_pow]
  by_cases hik : k ≤ i
  · simp only [hik, decide_true, Bool.true_and]
    have e : i - k + k = i := by omega
    rw [e]
    by_cases hlt : i - k < 32 - k
    · simp [hlt]
    · have : 32 ≤ i := by omega
      have hz : x.testBit i = false := Nat.testBit_lt_two_pow (Nat.lt_of_lt_of_le hx (Nat.pow_le_pow_right (by omega) this))
      simp [hz]
  · simp [hik]

/-- For the four possible alignments, `stride` is the least multiple of `align` that is
`≥ size` (when the `u32` addition does not overflow). -/
theorem stride_spec (s a : Nat) (ha : Pow2Le8 a) (hs : s + a - 1 < 2 ^ 32) :
    stride s a % a = 0 ∧ s ≤ stride s a ∧ stride s a < s + a := by
  have key : ∀ k, k ≤ 3 → a = 2 ^ k →
      stride s a % a = 0 ∧ s ≤ stride s a ∧ stride s a < s + a := by
    intro k hk hak
    have hpos : 0 < 2 ^ k := Nat.two_pow_pos k
    have hx : s + (a - 1) < 2 ^ 32 := by omega
    have : stride s a = (s + (a - 1)) / 2 ^ k * 2 ^ k := by
      unfold stride
      simp only
      rw [hak] at hx ⊢
      exact and_mask _ k (by omega) hx
    rw [this, hak]
    have hdm := Nat.div_add_mod (s + (2 ^ k - 1)) (2 ^ k)
    have hlt := Nat.mod_lt (s + (2 ^ k - 1)) hpos
    refine ⟨Nat.mul_mod_left _ _, ?_, ?_⟩
    · rw [Nat.mul_comm] ; omega
    · rw [Nat.mul_comm] ; omega
  rcases ha with h | h | h | h
  · exact key 0 (by omega) (by simpa using h)
  · exact key 1 (by omega) (by simpa using h)
  · exact key 2 (by omega) (by simpa using h)
  · exact key 3 (by omega) (by simpa using h)

/-! ### struct fields -/

/-- Fields sit in declaration order, each at a multiple of its alignment, without overlap,
between `lo` and `hi`. -/
def FieldsOk (pw : Nat) : Members → List Nat → Nat → Nat → Prop
  | .nil, [], lo, hi => lo ≤ hi
  | .cons _ t r, o :: os, lo, hi =>
    lo ≤ o ∧ o % align pw t = 0 ∧ FieldsOk pw r os (o + size pw t) hi
  | _, _, _, _ => False

theorem structLayout_size_indep (pw : Nat) : (ms : Members) → (cur ma ma' : Nat) →
    (structLayout pw ms cur ma).1 = (structLayout pw ms cur ma').1
  | .nil, _, _, _ => by simp [structLayout]
  | .cons _ _ r, _, _, _ => by simp only [structLayout]; exact structLayout_size_indep pw r _ _ _

theorem fields_ok (pw : Nat) (hpw : okPw pw = true) : (ms : Members) → wfMembers ms = true →
    (cur ma : Nat) → FieldsOk pw ms (structOffsets pw ms cur) cur (structLayout pw ms cur ma).1
  | .nil, _, _, _ => by simp [FieldsOk, structOffsets, structLayout]
  | .cons _ t r, hw, cur, ma => by
    have hw' : wf t = true ∧ wfMembers r = true := by simpa [wfMembers] using hw
    have ha : 0 < align pw t := (align_ok pw hpw t hw'.1).pos
    simp only [FieldsOk, structOffsets, structLayout]
    refine ⟨by omega, padNeeded_aligned cur _ ha, ?_⟩
    exact fields_ok pw hpw r hw'.2 _ _

theorem structOffsets_length (pw : Nat) : (ms : Members) → (cur : Nat) →
    (structOffsets pw ms cur).length = ms.length
  | .nil, _ => rfl
  | .cons _ _ r, _ => by simp [structOffsets, Members.length, structOffsets_length pw r]

/-! ### enums -/

theorem variantsMax_fst_ge (pw : Nat) : (vs : Tys) → (ms ma : Nat) →
    ms ≤ (variantsMax pw vs ms ma).1
  | .nil, _, _ => by simp [variantsMax]
  | .cons t r, ms, ma => by
    simp only [variantsMax]
    have := variantsMax_fst_ge pw r (if (layout pw t).1 > ms then (layout pw t).1 else ms)
      (if (layout pw t).2 > ma then (layout pw t).2 else ma)
    by_cases hgt : (layout pw t).1 > ms <;> simp only [hgt, if_true, if_false] at this ⊢ <;> omega

/-- the running maximum is an upper bound of every variant's size … -/
theorem variantsMax_fst_bound (pw : Nat) : (vs : Tys) → (ms ma : Nat) →
    ∀ v ∈ vs.toList, size pw v ≤ (variantsMax pw vs ms ma).1
  | .nil, _, _ => by simp [Tys.toList]
  | .cons t r, ms, ma => by
    intro v hv
    simp only [Tys.toList, List.mem_cons] at hv
    simp only [variantsMax]
    rcases hv with rfl | hv
    · have := variantsMax_fst_ge pw r (if (layout pw v).1 > ms then (layout pw v).1 else ms)
        (if (layout pw v).2 > ma then (layout pw v).2 else ma)
      unfold size
      by_cases hgt : (layout pw v).1 > ms <;> simp only [hgt, if_true, if_false] at this ⊢ <;> omega
    · exact variantsMax_fst_bound pw r _ _ v hv

/-- … and is attained (or is the initial value). -/
theorem variantsMax_fst_attained (pw : Nat) : (vs : Tys) → (ms ma : Nat) →
    (variantsMax pw vs ms ma).1 = ms ∨ ∃ v ∈ vs.toList, size pw v = (variantsMax pw vs ms ma).1
  | .nil, _, _ => by simp [variantsMax]
  | .cons t r, ms, ma => by
    simp only [variantsMax]
    rcases variantsMax_fst_attained pw r (if (layout pw t).1 > ms then (layout pw t).1 else ms)
      (if (layout pw t).2 > ma then (layout pw t).2 else ma) with h | ⟨v, hv, he⟩
    · by_cases hgt : (layout pw t).1 > ms
      · right
        refine ⟨t, by simp [Tys.toList], ?_⟩
        rw [h]; simp [hgt, size]
      · left; rw [h]; simp [hgt]
    · right; exact ⟨v, by simp [Tys.toList, hv], he⟩

/-! ### pointers -/

theorem isPointer_size (pw : Nat) : (t : Ty) → t.isPointer = true → layout pw t = (pw / 8, min (pw / 8) 8)
  | .pointer _ _, _ => by simp [layout]
  | .rawPtr _, _ => by simp [layout]
  | .distinct _ s, h => by
    have : s.isPointer = true := by simpa [Ty.isPointer, Ty.absoluteTy] using h
    simpa [layout] using isPointer_size pw s this
  | .enumVariant _ _ _ s _, h => by
    have : s.isPointer = true := by simpa [Ty.isPointer, Ty.absoluteTy] using h
    simpa [layout] using isPointer_size pw s this
  | .notYetResolved, h | .unknown, h | .iint _, h | .uint _, h | .float _, h | .bool, h
  | .string, h | .char, h | .anonArray _ _, h | .concreteArray _ _, h | .slice _, h
  | .type, h | .any, h | .rawSlice, h | .file _, h | .naivePolyFn _, h | .concreteFn _ _ _, h
  | .fnPointer _ _, h | .anonStruct _, h | .concreteStruct _ _, h | .enum _ _, h | .nil, h
  | .optional _, h | .errorUnion _ _, h | .void, h | .alwaysJumps, h => by
    simp [Ty.isPointer, Ty.absoluteTy] at h

end CapyV.Layout
