import CapyV.Proofs.Regex
/-!
# Lemmas for C22: rule selection, table facts, sub-lexers, main loop, checker soundness
-/
namespace CapyV.Lexer
open CapyV CapyV.Regex CapyV.Tokens

/-! ## utf8Len, pieces -/

@[simp] theorem utf8Len_nil : utf8Len [] = 0 := rfl
@[simp] theorem utf8Len_cons (c : Char) (cs : List Char) :
    utf8Len (c :: cs) = c.utf8Size + utf8Len cs := by simp [utf8Len]
@[simp] theorem utf8Len_append (a b : List Char) : utf8Len (a ++ b) = utf8Len a + utf8Len b := by
  simp [utf8Len]

abbrev Piece := TokenKind × List Char

def flat (ps : List Piece) : List Char := ps.flatMap (·.2)

@[simp] theorem flat_nil : flat [] = [] := rfl
@[simp] theorem flat_cons (p : Piece) (ps : List Piece) : flat (p :: ps) = p.2 ++ flat ps := by
  simp [flat]
@[simp] theorem flat_append (a b : List Piece) : flat (a ++ b) = flat a ++ flat b := by
  simp [flat]

/-- starts of the pieces laid out from `off` (no final entry) -/
def startsOf (off : Nat) : List Piece → List Nat
  | [] => []
  | p :: ps => off :: startsOf (off + utf8Len p.2) ps

theorem startsOf_append (off : Nat) (a b : List Piece) :
    startsOf off (a ++ b) = startsOf off a ++ startsOf (off + utf8Len (flat a)) b := by
  induction a generalizing off with
  | nil => simp [startsOf]
  | cons p ps ih => simp [startsOf, ih, Nat.add_assoc]

theorem offsetsFrom_eq (off : Nat) (ps : List Piece) :
    offsetsFrom off ps = startsOf off ps ++ [off + utf8Len (flat ps)] := by
  induction ps generalizing off with
  | nil => simp [offsetsFrom, startsOf]
  | cons p ps ih => simp [offsetsFrom, startsOf, ih, Nat.add_assoc]

/-! ## rule selection -/

theorem pick_none : ∀ (rs : List (Nat × Pat)) (s : List Char), pick rs s = none →
    ∀ d p, (d, p) ∈ rs → longest p.regex s = none := by
  intro rs
  induction rs with
  | nil => intro s _ d p h; cases h
  | cons dp rest ih =>
    obtain ⟨d0, p0⟩ := dp
    intro s h d p hmem
    simp only [pick] at h
    split at h
    · rename_i hl
      rcases List.mem_cons.mp hmem with he | hr
      · cases he; exact hl
      · exact ih s h d p hr
    · split at h
      · cases h
      · split at h <;> cases h

theorem pick_sound : ∀ (rs : List (Nat × Pat)) (s : List Char) (c : Cand), pick rs s = some c →
    ∃ p, (c.disc, p) ∈ rs ∧ c.prio = p.prio ∧ longest p.regex s = some c.len := by
  intro rs
  induction rs with
  | nil => intro s c h; cases h
  | cons dp rest ih =>
    obtain ⟨d0, p0⟩ := dp
    intro s c h
    simp only [pick] at h
    split at h
    · obtain ⟨p, hm, hp, hl⟩ := ih s c h
      exact ⟨p, List.mem_cons_of_mem _ hm, hp, hl⟩
    · rename_i n hn
      split at h
      · cases h; exact ⟨p0, List.mem_cons_self, rfl, hn⟩
      · rename_i b hb
        split at h
        · cases h
          obtain ⟨p, hm, hp, hl⟩ := ih s _ hb
          exact ⟨p, List.mem_cons_of_mem _ hm, hp, hl⟩
        · cases h; exact ⟨p0, List.mem_cons_self, rfl, hn⟩

theorem pick_best : ∀ (rs : List (Nat × Pat)) (s : List Char) (c : Cand), pick rs s = some c →
    ∀ d p m, (d, p) ∈ rs → longest p.regex s = some m →
      m < c.len ∨ (m = c.len ∧ p.prio ≤ c.prio) := by
  intro rs
  induction rs with
  | nil => intro s c h; cases h
  | cons dp rest ih =>
    obtain ⟨d0, p0⟩ := dp
    intro s c h d p m hmem hl
    simp only [pick] at h
    split at h
    · rename_i hl0
      rcases List.mem_cons.mp hmem with he | hr
      · cases he; rw [hl0] at hl; cases hl
      · exact ih s c h d p m hr hl
    · rename_i n hn
      split at h
      · rename_i hnone
        cases h
        rcases List.mem_cons.mp hmem with he | hr
        · cases he; rw [hn] at hl; cases hl; exact .inr ⟨rfl, Nat.le_refl _⟩
        · rw [pick_none rest s hnone d p hr] at hl; cases hl
      · rename_i b hb
        split at h
        · rename_i hcond
          cases h
          rcases List.mem_cons.mp hmem with he | hr
          · cases he
            rw [hn] at hl; cases hl
            simp only [Bool.or_eq_true, decide_eq_true_eq, Bool.and_eq_true, beq_iff_eq] at hcond
            omega
          · exact ih s _ hb d p m hr hl
        · rename_i hcond
          cases h
          simp only [Bool.or_eq_true, decide_eq_true_eq, Bool.and_eq_true, beq_iff_eq, not_or,
            not_and, Nat.not_lt] at hcond
          rcases List.mem_cons.mp hmem with he | hr
          · cases he
            rw [hn] at hl; cases hl
            exact .inr ⟨rfl, Nat.le_refl _⟩
          · have := ih s _ hb d p m hr hl
            simp only
            omega

/-! ## facts about the generated table (decided) -/

/-- kinds that no rule produces directly -/
def specials : List TokenKind :=
  [.SingleQuote, .DoubleQuote, .Escape, .StringContents, .CommentLeader, .CommentContents, .Error]

/-- per rule: not nullable; either one of the three `__Internal*` rules or its discriminant
transmutes (validly, with equal `Debug` names) to a kind that is not a sub-lexer kind -/
def ruleOk (dp : Nat × Pat) : Bool :=
  !nullable dp.2.regex &&
  (dp.1 == discInternalChar || dp.1 == discInternalString || dp.1 == discInternalComment ||
    match transmute dp.1 with
    | .ok k => !specials.contains k
    | .error _ => false)

theorem rules_ok : rules.all ruleOk = true := by decide +kernel

def quotedRegex (q : Nat) : Regex :=
  .cat (.cls false [(q, q)])
    (.cat (.star (.alt (.cls true [(q, q), (92, 92), (10, 10)])
                       (.cat (.cls false [(92, 92)]) (.cls true [(10, 10)]))))
      (.opt (.cls false [(q, q)])))

def commentRegex : Regex :=
  .cat (.cls false [(47, 47)]) (.cat (.cls false [(47, 47)]) (.star (.cls true [(10, 10)])))

def internalOk (dp : Nat × Pat) : Bool :=
  (dp.1 != discInternalChar || dp.2 == .rx (quotedRegex 39)) &&
  (dp.1 != discInternalString || dp.2 == .rx (quotedRegex 34)) &&
  (dp.1 != discInternalComment || dp.2 == .rx commentRegex)

theorem internal_ok : rules.all internalOk = true := by decide +kernel

theorem rule_not_nullable {d : Nat} {p : Pat} (h : (d, p) ∈ rules) : nullable p.regex = false := by
  have := List.all_eq_true.mp rules_ok _ h
  simp only [ruleOk, Bool.and_eq_true, Bool.not_eq_true'] at this
  exact this.1

theorem rule_transmute {d : Nat} {p : Pat} (h : (d, p) ∈ rules)
    (h1 : d ≠ discInternalChar) (h2 : d ≠ discInternalString) (h3 : d ≠ discInternalComment) :
    ∃ k, transmute d = .ok k ∧ k ∉ specials := by
  have := List.all_eq_true.mp rules_ok _ h
  simp only [ruleOk, Bool.and_eq_true, Bool.or_eq_true, beq_iff_eq, h1, h2, h3, false_or] at this
  obtain ⟨_, hk⟩ := this
  split at hk
  · rename_i k hk'
    refine ⟨k, hk', ?_⟩
    simpa using hk
  · cases hk

theorem rule_internal {d : Nat} {p : Pat} (h : (d, p) ∈ rules) :
    (d = discInternalChar → p = .rx (quotedRegex 39)) ∧
    (d = discInternalString → p = .rx (quotedRegex 34)) ∧
    (d = discInternalComment → p = .rx commentRegex) := by
  have := List.all_eq_true.mp internal_ok _ h
  simp only [internalOk, Bool.and_eq_true, Bool.or_eq_true, bne_iff_ne, ne_eq, beq_iff_eq] at this
  obtain ⟨⟨a, b⟩, c⟩ := this
  refine ⟨fun e => ?_, fun e => ?_, fun e => ?_⟩
  · rcases a with a | a
    · exact absurd e a
    · exact a
  · rcases b with b | b
    · exact absurd e b
    · exact b
  · rcases c with c | c
    · exact absurd e c
    · exact c

theorem transmute_ofNat {d : Nat} {k : TokenKind} (h : transmute d = .ok k) :
    TokenKind.ofNat? d = some k := by
  unfold transmute at h
  split at h
  · cases h
  · rename_i k' hk'
    split at h
    · cases h; exact hk'
    · cases h

/-! ## character classes of the internal rules -/

theorem clsMatch_single {n : Nat} {c : Char} : clsMatch false [(n, n)] c = true ↔ c.toNat = n := by
  simp only [clsMatch, inRanges, List.any_cons, List.any_nil, Bool.or_false, bne_iff_ne, ne_eq,
    Bool.not_eq_false, Bool.and_eq_true, decide_eq_true_eq]
  omega

theorem clsMatch_not3 {a b d : Nat} {c : Char} :
    clsMatch true [(a, a), (b, b), (d, d)] c = true ↔ c.toNat ≠ a ∧ c.toNat ≠ b ∧ c.toNat ≠ d := by
  simp only [clsMatch, inRanges, List.any_cons, List.any_nil, Bool.or_false, bne_iff_ne, ne_eq,
    Bool.not_eq_true, Bool.or_eq_false_iff, Bool.and_eq_false_imp, decide_eq_true_eq,
    decide_eq_false_iff_not]
  omega

theorem clsMatch_not1 {a : Nat} {c : Char} :
    clsMatch true [(a, a)] c = true ↔ c.toNat ≠ a := by
  simp only [clsMatch, inRanges, List.any_cons, List.any_nil, Bool.or_false, bne_iff_ne, ne_eq,
    Bool.not_eq_true, Bool.and_eq_false_imp, decide_eq_true_eq, decide_eq_false_iff_not]
  omega

theorem char_of_toNat {c : Char} {n : Nat} (h : c.toNat = n) : c = Char.ofNat n := by
  rw [← h, Char.ofNat_toNat]

theorem char_beq_false {a b : Char} (h : a ≠ b) : (a == b) = false := by simp [h]

@[simp] theorem mode_beq1 : (Mode.startContents == Mode.escape) = false := by decide
@[simp] theorem mode_beq2 : (Mode.inContents == Mode.escape) = false := by decide
@[simp] theorem mode_beq3 : (Mode.escape == Mode.escape) = true := by decide

/-- induction over the iterations of a star -/
theorem star_induction {a : Regex} {P : List Char → Prop} (h0 : P [])
    (hstep : ∀ u v, Matches a u → Matches (.star a) v → P v → P (u ++ v)) :
    ∀ w, Matches (.star a) w → P w := by
  intro w h
  have aux : ∀ r s, Matches r s → r = .star a → P s := by
    intro r s hm
    induction hm with
    | starNil => intro _; exact h0
    | @starCons a' u v hu hv _ ihv =>
      intro hr
      cases hr
      exact hstep u v hu hv (ihv rfl)
    | eps => intro hr; cases hr
    | cls _ => intro hr; cases hr
    | cat _ _ _ _ => intro hr; cases hr
    | altL _ _ => intro hr; cases hr
    | altR _ _ => intro hr; cases hr
    | plus _ _ _ _ => intro hr; cases hr
    | optNone => intro hr; cases hr
    | optSome _ _ => intro hr; cases hr
  exact aux _ _ h rfl

/-! ## the sub-lexers -/

/-- escapes are complete: `esc` = "the previous scalar value was an unescaped backslash" -/
def shapeOk : List Char → Bool → Bool
  | [], esc => !esc
  | _ :: cs, true => shapeOk cs false
  | c :: cs, false => shapeOk cs (c == '\\')

/-- what a word of `q([^q\\\n]|\\.)*q?` looks like -/
theorem quoted_shape {qn : Nat} {w : List Char} (hq1 : qn ≠ 92) (hq2 : qn ≠ 10)
    (h : Matches (quotedRegex qn) w) :
    ∃ rest, w = Char.ofNat qn :: rest ∧ shapeOk rest false = true ∧ ∀ x ∈ rest, x ≠ '\n' := by
  unfold quotedRegex at h
  obtain ⟨u, v, rfl, hu, hv⟩ := matches_cat_iff.mp h
  obtain ⟨c, rfl, hc⟩ := matches_cls_iff.mp hu
  have hc' := char_of_toNat (clsMatch_single.mp hc)
  subst hc'
  obtain ⟨body, tail, rfl, hb, ht⟩ := matches_cat_iff.mp hv
  refine ⟨body ++ tail, rfl, ?_⟩
  have htail : shapeOk tail false = true ∧ ∀ x ∈ tail, x ≠ '\n' := by
    rcases matches_opt_iff.mp ht with rfl | ht'
    · simp [shapeOk]
    · obtain ⟨c, rfl, hc⟩ := matches_cls_iff.mp ht'
      have hcn := clsMatch_single.mp hc
      have h1 : c ≠ '\\' := by
        rintro rfl; exact hq1 hcn.symm
      have h2 : c ≠ '\n' := by
        rintro rfl; exact hq2 hcn.symm
      simp [shapeOk, h1, h2]
  revert hb
  refine star_induction (P := fun b => shapeOk (b ++ tail) false = true ∧ ∀ x ∈ b ++ tail, x ≠ '\n')
    ?_ ?_ body
  · simpa using htail
  · intro u v hu _ ih
    rcases matches_alt_iff.mp hu with h1 | h2
    · obtain ⟨c, rfl, hc⟩ := matches_cls_iff.mp h1
      obtain ⟨_, hb, hn⟩ := clsMatch_not3.mp hc
      have h1 : c ≠ '\\' := by
        rintro rfl; exact hb rfl
      have h2 : c ≠ '\n' := by
        rintro rfl; exact hn rfl
      refine ⟨by simpa [shapeOk, char_beq_false h1] using ih.1, ?_⟩
      intro x hx
      simp only [List.cons_append, List.nil_append, List.mem_cons] at hx
      rcases hx with rfl | hx
      · exact h2
      · exact ih.2 x hx
    · obtain ⟨u1, u2, rfl, hu1, hu2⟩ := matches_cat_iff.mp h2
      obtain ⟨c1, rfl, hc1⟩ := matches_cls_iff.mp hu1
      obtain ⟨c2, rfl, hc2⟩ := matches_cls_iff.mp hu2
      have e1 := char_of_toNat (clsMatch_single.mp hc1)
      have hn2 := clsMatch_not1.mp hc2
      have hc2n : c2 ≠ '\n' := by
        rintro rfl; exact hn2 rfl
      subst e1
      refine ⟨by simpa [shapeOk] using ih.1, ?_⟩
      intro x hx
      simp only [List.cons_append, List.nil_append, List.mem_cons] at hx
      rcases hx with hx | hx | hx
      · rw [hx]; decide
      · rw [hx]; exact hc2n
      · exact ih.2 x hx

/-- semantic reading of `subLexGo`: the scalar values before the first emitted token
("orphans", they extend the token that was open on entry) and the pieces after it -/
def subSem (q : Char) (qk : TokenKind) : List Char → Mode → List Char × List Piece
  | [], _ => ([], [])
  | c :: cs, mode =>
    match subStep q qk mode c with
    | (some k, mode') => ([], (k, c :: (subSem q qk cs mode').1) :: (subSem q qk cs mode').2)
    | (none, mode') => (c :: (subSem q qk cs mode').1, (subSem q qk cs mode').2)

theorem subLexGo_sem (q : Char) (qk : TokenKind) : ∀ (s : List Char) (mode : Mode) (pos : Nat),
    s = (subSem q qk s mode).1 ++ flat (subSem q qk s mode).2 ∧
    (subLexGo q qk s mode pos).map (·.1) = (subSem q qk s mode).2.map (·.1) ∧
    (subLexGo q qk s mode pos).map (·.2) =
      startsOf (pos + utf8Len (subSem q qk s mode).1) (subSem q qk s mode).2 := by
  intro s
  induction s with
  | nil => intro mode pos; simp [subSem, subLexGo, startsOf]
  | cons c cs ih =>
    intro mode pos
    simp only [subSem, subLexGo]
    rcases hstep : subStep q qk mode c with ⟨_ | k, mode'⟩
    · obtain ⟨h1, h2, h3⟩ := ih mode' (pos + c.utf8Size)
      simp only
      refine ⟨by simpa using h1, h2, ?_⟩
      rw [h3]; simp [Nat.add_assoc]
    · obtain ⟨h1, h2, h3⟩ := ih mode' (pos + c.utf8Size)
      simp only
      refine ⟨by simpa using h1, by simp [h2], ?_⟩
      simp [startsOf, h3, Nat.add_assoc]

/-- all scalar values are ordinary contents of a `q`-quoted literal -/
def OrdRun (q : Char) (w : List Char) : Prop := ∀ x ∈ w, x ≠ q ∧ x ≠ '\\' ∧ x ≠ '\n'

theorem subSem_agrees {q : Char} {qk : TokenKind}
    (hq : (q = '\'' ∧ qk = .SingleQuote) ∨ (q = '"' ∧ qk = .DoubleQuote)) :
    ∀ (s : List Char) (mode : Mode), shapeOk s (mode == .escape) = true → (∀ x ∈ s, x ≠ '\n') →
      (∀ p ∈ (subSem q qk s mode).2, KindAgrees p.1 p.2) ∧
      (mode = .startContents → (subSem q qk s mode).1 = []) ∧
      (mode = .inContents → OrdRun q (subSem q qk s mode).1) ∧
      (mode = .escape → ∃ c', (subSem q qk s mode).1 = [c'] ∧ c' ≠ '\n') := by
  have hqq : KindAgrees qk [q] := by
    rcases hq with ⟨rfl, rfl⟩ | ⟨rfl, rfl⟩ <;> simp [KindAgrees]
  have hqb : q ≠ '\\' := by
    rcases hq with ⟨rfl, _⟩ | ⟨rfl, _⟩ <;> decide
  have hsc : ∀ w, w ≠ [] → OrdRun q w → KindAgrees .StringContents w := by
    intro w hne hw
    refine ⟨hne, fun h => (hw _ h).2.1 rfl, fun h => (hw _ h).2.2 rfl, ?_⟩
    rcases hq with ⟨rfl, _⟩ | ⟨rfl, _⟩
    · exact .inr fun h => (hw _ h).1 rfl
    · exact .inl fun h => (hw _ h).1 rfl
  intro s
  induction s with
  | nil =>
    intro mode hs _
    cases mode <;> simp_all [shapeOk, subSem, OrdRun]
  | cons c cs ih =>
    intro mode hs hnl
    have hc : c ≠ '\n' := hnl c List.mem_cons_self
    have hnl' : ∀ x ∈ cs, x ≠ '\n' := fun x hx => hnl x (List.mem_cons_of_mem _ hx)
    cases mode with
    | escape =>
      -- `(Mode::Escape, _) => mode = Mode::StartContents`
      have hstep : subStep q qk .escape c = (none, .startContents) := by simp [subStep]
      have hs' : shapeOk cs false = true := by simpa [shapeOk] using hs
      obtain ⟨ha, hb, _, _⟩ := ih .startContents (by simpa using hs') hnl'
      simp only [subSem, hstep]
      refine ⟨ha, by simp, by simp, fun _ => ⟨c, ?_, hc⟩⟩
      simp [hb rfl]
    | startContents =>
      have hs' : shapeOk cs (c == '\\') = true := by simpa [shapeOk] using hs
      by_cases hcq : c = q
      · have hstep : subStep q qk .startContents c = (some qk, .startContents) := by
          simp [subStep, hcq]
        have hbs : (c == '\\') = false := char_beq_false (by rw [hcq]; exact hqb)
        obtain ⟨ha, hb, _, _⟩ := ih .startContents (by simpa [hbs] using hs') hnl'
        simp only [subSem, hstep]
        refine ⟨?_, by simp, by simp, by simp⟩
        intro p hp
        rcases List.mem_cons.mp hp with rfl | hp
        · simpa [hb rfl, hcq] using hqq
        · exact ha p hp
      · by_cases hcb : c = '\\'
        · have hstep : subStep q qk .startContents c = (some .Escape, .escape) := by
            simp [subStep, hcb, Ne.symm hqb]
          obtain ⟨ha, _, _, hd⟩ := ih .escape (by simpa [hcb] using hs') hnl'
          obtain ⟨c', hc', hc'n⟩ := hd rfl
          simp only [subSem, hstep]
          refine ⟨?_, by simp, by simp, by simp⟩
          intro p hp
          rcases List.mem_cons.mp hp with rfl | hp
          · exact ⟨c', by simp [hc', hcb], hc'n⟩
          · exact ha p hp
        · have hstep : subStep q qk .startContents c = (some .StringContents, .inContents) := by
            simp [subStep, hcq, hcb]
          have hbs : (c == '\\') = false := char_beq_false hcb
          obtain ⟨ha, _, hcr, _⟩ := ih .inContents (by simpa [hbs] using hs') hnl'
          simp only [subSem, hstep]
          refine ⟨?_, by simp, by simp, by simp⟩
          intro p hp
          rcases List.mem_cons.mp hp with rfl | hp
          · refine hsc _ (by simp) ?_
            intro x hx
            rcases List.mem_cons.mp hx with rfl | hx
            · exact ⟨hcq, hcb, hc⟩
            · exact hcr rfl x hx
          · exact ha p hp
    | inContents =>
      have hs' : shapeOk cs (c == '\\') = true := by simpa [shapeOk] using hs
      by_cases hcq : c = q
      · have hstep : subStep q qk .inContents c = (some qk, .startContents) := by
          simp [subStep, hcq]
        have hbs : (c == '\\') = false := char_beq_false (by rw [hcq]; exact hqb)
        obtain ⟨ha, hb, _, _⟩ := ih .startContents (by simpa [hbs] using hs') hnl'
        simp only [subSem, hstep]
        refine ⟨?_, by simp, by simp [OrdRun], by simp⟩
        intro p hp
        rcases List.mem_cons.mp hp with rfl | hp
        · simpa [hb rfl, hcq] using hqq
        · exact ha p hp
      · by_cases hcb : c = '\\'
        · have hstep : subStep q qk .inContents c = (some .Escape, .escape) := by
            simp [subStep, hcb, Ne.symm hqb]
          obtain ⟨ha, _, _, hd⟩ := ih .escape (by simpa [hcb] using hs') hnl'
          obtain ⟨c', hc', hc'n⟩ := hd rfl
          simp only [subSem, hstep]
          refine ⟨?_, by simp, by simp [OrdRun], by simp⟩
          intro p hp
          rcases List.mem_cons.mp hp with rfl | hp
          · exact ⟨c', by simp [hc', hcb], hc'n⟩
          · exact ha p hp
        · have hstep : subStep q qk .inContents c = (none, .inContents) := by
            simp [subStep, hcq, hcb]
          have hbs : (c == '\\') = false := char_beq_false hcb
          obtain ⟨ha, _, hcr, _⟩ := ih .inContents (by simpa [hbs] using hs') hnl'
          simp only [subSem, hstep]
          refine ⟨ha, by simp, ?_, by simp⟩
          intro _ x hx
          rcases List.mem_cons.mp hx with rfl | hx
          · exact ⟨hcq, hcb, hc⟩
          · exact hcr rfl x hx

theorem quoted_tiles {q : Char} {qk : TokenKind}
    (hq : (q = '\'' ∧ qk = .SingleQuote) ∨ (q = '"' ∧ qk = .DoubleQuote))
    {rest : List Char} (hshape : shapeOk rest false = true) (hnl : ∀ x ∈ rest, x ≠ '\n')
    (off : Nat) :
    ∃ pieces : List Piece, q :: rest = flat pieces ∧
      (subLexGo q qk (q :: rest) .inContents off).map (·.1) = pieces.map (·.1) ∧
      (subLexGo q qk (q :: rest) .inContents off).map (·.2) = startsOf off pieces ∧
      ∀ p ∈ pieces, KindAgrees p.1 p.2 := by
  have hqb : q ≠ '\\' := by
    rcases hq with ⟨rfl, _⟩ | ⟨rfl, _⟩ <;> decide
  have hqn : q ≠ '\n' := by
    rcases hq with ⟨rfl, _⟩ | ⟨rfl, _⟩ <;> decide
  obtain ⟨h1, h2, h3⟩ := subLexGo_sem q qk (q :: rest) .inContents off
  have horph : (subSem q qk (q :: rest) .inContents).1 = [] := by
    simp [subSem, subStep]
  have hag := (subSem_agrees hq (q :: rest) .inContents
    (by simpa [shapeOk, char_beq_false hqb] using hshape)
    (by
      intro x hx
      rcases List.mem_cons.mp hx with rfl | hx
      · exact hqn
      · exact hnl x hx)).1
  refine ⟨(subSem q qk (q :: rest) .inContents).2, ?_, h2, ?_, hag⟩
  · rw [horph] at h1; simpa using h1
  · rw [horph] at h3; simpa using h3

theorem comment_shape {w : List Char} (h : Matches commentRegex w) :
    ∃ rest, w = '/' :: '/' :: rest ∧ ∀ x ∈ rest, x ≠ '\n' := by
  unfold commentRegex at h
  obtain ⟨u, v, rfl, hu, hv⟩ := matches_cat_iff.mp h
  obtain ⟨c1, rfl, hc1⟩ := matches_cls_iff.mp hu
  obtain ⟨u2, rest, rfl, hu2, hr⟩ := matches_cat_iff.mp hv
  obtain ⟨c2, rfl, hc2⟩ := matches_cls_iff.mp hu2
  have e1 := char_of_toNat (clsMatch_single.mp hc1)
  have e2 := char_of_toNat (clsMatch_single.mp hc2)
  subst e1 e2
  refine ⟨rest, rfl, ?_⟩
  revert hr
  refine star_induction (P := fun b => ∀ x ∈ b, x ≠ '\n') ?_ ?_ rest
  · intro x hx; cases hx
  · intro u v hu _ ih x hx
    obtain ⟨c, rfl, hc⟩ := matches_cls_iff.mp hu
    have hn := clsMatch_not1.mp hc
    simp only [List.cons_append, List.nil_append, List.mem_cons] at hx
    rcases hx with hx | hx
    · rw [hx]; rintro rfl; exact hn rfl
    · exact ih x hx

theorem kindAgrees_of_not_special {k : TokenKind} {w : List Char} (hk : k ∉ specials)
    (h : RuleAgrees k w) : KindAgrees k w := by
  cases k <;> first | exact h | (exfalso; apply hk; decide)

/-- one iteration of the main loop -/
theorem nextTok_spec {s : List Char} (hs : s ≠ []) {kind : Option Nat} {n : Nat} (off : Nat)
    (h : nextTok s = (kind, n)) :
    0 < n ∧ n ≤ s.length ∧ ∃ (toks : List Tok) (pieces : List Piece),
      emit kind (s.take n) off = .ok toks ∧
      s.take n = flat pieces ∧ toks.map (·.1) = pieces.map (·.1) ∧
      toks.map (·.2) = startsOf off pieces ∧ ∀ p ∈ pieces, KindAgrees p.1 p.2 := by
  unfold nextTok at h
  split at h
  · rename_i c hc
    cases h
    obtain ⟨p, hmem, hprio, hl⟩ := pick_sound rules s c hc
    obtain ⟨hn, hm⟩ := longest_sound hl
    have hpos := longest_pos (rule_not_nullable hmem) hl
    obtain ⟨hiC, hiS, hiM⟩ := rule_internal hmem
    refine ⟨hpos, hn, ?_⟩
    by_cases hC : c.disc = discInternalChar
    · have hp := hiC hC
      subst hp
      obtain ⟨rest, hrest, hshape, hnl⟩ := quoted_shape (qn := 39) (by decide) (by decide) hm
      obtain ⟨pieces, h1, h2, h3, h4⟩ :=
        quoted_tiles (q := '\'') (qk := .SingleQuote) (.inl ⟨rfl, rfl⟩) hshape hnl off
      refine ⟨lexChar (s.take c.len) off, pieces, by simp [emit, hC], ?_, ?_, ?_, h4⟩
      · rw [hrest]; exact h1
      · rw [hrest]; exact h2
      · rw [hrest]; exact h3
    · by_cases hS : c.disc = discInternalString
      · have hp := hiS hS
        subst hp
        obtain ⟨rest, hrest, hshape, hnl⟩ := quoted_shape (qn := 34) (by decide) (by decide) hm
        obtain ⟨pieces, h1, h2, h3, h4⟩ :=
          quoted_tiles (q := '"') (qk := .DoubleQuote) (.inr ⟨rfl, rfl⟩) hshape hnl off
        refine ⟨lexString (s.take c.len) off, pieces, ?_, ?_, ?_, ?_, h4⟩
        · have : ¬ discInternalString = discInternalChar := by decide
          simp [emit, hS, this]
        · rw [hrest]; exact h1
        · rw [hrest]; exact h2
        · rw [hrest]; exact h3
      · by_cases hM : c.disc = discInternalComment
        · have hp := hiM hM
          subst hp
          obtain ⟨rest, hrest, hnl⟩ := comment_shape hm
          refine ⟨[(.CommentLeader, off), (.CommentContents, off + 2)],
            [(.CommentLeader, ['/', '/']), (.CommentContents, rest)], ?_, ?_, rfl, ?_, ?_⟩
          · have e1 : ¬ discInternalComment = discInternalChar := by decide
            have e2 : ¬ discInternalComment = discInternalString := by decide
            have hlen : utf8Len (s.take c.len) > 1 := by
              rw [hrest]
              have : Char.utf8Size '/' = 1 := by decide
              simp [this]; omega
            simp [emit, hM, e1, e2, lexComment, hlen]
          · rw [hrest]; simp
          · have : Char.utf8Size '/' = 1 := by decide
            simp [startsOf, this]
          · intro p hp
            simp only [List.mem_cons, List.not_mem_nil, or_false] at hp
            rcases hp with rfl | rfl
            · simp [KindAgrees]
            · simp only [KindAgrees]
              intro hx; exact hnl _ hx rfl
        · obtain ⟨k, hk, hkn⟩ := rule_transmute hmem hC hS hM
          refine ⟨[(k, off)], [(k, s.take c.len)], by simp [emit, hC, hS, hM, hk], by simp, rfl,
            by simp [startsOf], ?_⟩
          intro pc hpc
          simp only [List.mem_cons, List.not_mem_nil, or_false] at hpc
          subst hpc
          refine kindAgrees_of_not_special hkn ⟨c.disc, p, hmem, transmute_ofNat hk, hm, ?_⟩
          intro d' p' hmem' hm'
          obtain ⟨m, hlm, hle⟩ := longest_max hn hm'
          have := pick_best rules s c hc d' p' m hmem' hlm
          omega
  · rename_i hnone
    cases h
    cases s with
    | nil => exact absurd rfl hs
    | cons c cs =>
      refine ⟨by omega, by simp, [(.Error, off)], [(.Error, [c])], by simp [emit], by simp, rfl,
        by simp [startsOf], ?_⟩
      intro pc hpc
      simp only [List.mem_cons, List.not_mem_nil, or_false] at hpc
      subst hpc
      refine ⟨by simp, ?_⟩
      intro d p hmem hm
      have hk : 1 ≤ (c :: cs).length := by simp
      obtain ⟨m, hlm, _⟩ := longest_max (s := c :: cs) (k := 1) hk (by simpa [PatMatches] using hm)
      rw [pick_none rules _ hnone d p hmem] at hlm
      cases hlm

theorem lexLoop_spec : ∀ (fuel : Nat) (s : List Char) (off : Nat), s.length < fuel →
    ∃ (toks : List Tok) (pieces : List Piece), lexLoop fuel s off = .ok toks ∧ s = flat pieces ∧
      toks.map (·.1) = pieces.map (·.1) ∧ toks.map (·.2) = startsOf off pieces ∧
      ∀ p ∈ pieces, KindAgrees p.1 p.2 := by
  intro fuel
  induction fuel with
  | zero => intro s off h; omega
  | succ fuel ih =>
    intro s off hlen
    cases s with
    | nil => exact ⟨[], [], by simp [lexLoop], by simp, rfl, by simp [startsOf], by simp⟩
    | cons c cs =>
      rcases hnt : nextTok (c :: cs) with ⟨kind, n⟩
      obtain ⟨hpos, hn, toks1, pieces1, hemit, hflat1, hk1, hs1, hag1⟩ :=
        nextTok_spec (s := c :: cs) (by simp) off hnt
      have hlen' : ((c :: cs).drop n).length < fuel := by
        simp only [List.length_drop]
        simp only [List.length_cons] at hlen hn ⊢
        omega
      obtain ⟨toks2, pieces2, hloop, hflat2, hk2, hs2, hag2⟩ :=
        ih ((c :: cs).drop n) (off + utf8Len ((c :: cs).take n)) hlen'
      refine ⟨toks1 ++ toks2, pieces1 ++ pieces2, ?_, ?_, ?_, ?_, ?_⟩
      · simp only [lexLoop, hnt]
        have : n ≠ 0 := by omega
        simp only [this, if_false, hemit, hloop]
      · rw [flat_append, ← hflat1, ← hflat2, List.take_append_drop]
      · simp [hk1, hk2]
      · rw [startsOf_append, ← hflat1]; simp [hs1, hs2]
      · intro p hp
        rcases List.mem_append.mp hp with hp | hp
        · exact hag1 p hp
        · exact hag2 p hp

theorem lex_spec (s : List Char) : ∃ t, lex s = .ok t ∧ Tiles s t := by
  obtain ⟨toks, pieces, hloop, hflat, hk, hs, hag⟩ := lexLoop_spec (s.length + 1) s 0 (by omega)
  refine ⟨⟨toks.map (·.1), toks.map (·.2) ++ [utf8Len s]⟩, ?_, pieces, hflat, hk, ?_, hag⟩
  · simp [lex, hloop, Tokens.new]
  · rw [offsetsFrom_eq, ← hflat, hs]; simp

/-! ## the cover clauses in the property's own words -/

theorem offsetsFrom_ge (off : Nat) (ps : List Piece) : ∀ b ∈ offsetsFrom off ps, off ≤ b := by
  induction ps generalizing off with
  | nil => intro b hb; simp [offsetsFrom] at hb; omega
  | cons p ps ih =>
    intro b hb
    simp only [offsetsFrom, List.mem_cons] at hb
    rcases hb with rfl | hb
    · exact Nat.le_refl _
    · have := ih _ b hb; omega

theorem offsetsFrom_sorted (off : Nat) (ps : List Piece) :
    (offsetsFrom off ps).Pairwise (· ≤ ·) := by
  induction ps generalizing off with
  | nil => simp [offsetsFrom]
  | cons p ps ih =>
    simp only [offsetsFrom, List.pairwise_cons]
    refine ⟨?_, ih _⟩
    intro b hb
    have := offsetsFrom_ge _ _ b hb; omega

theorem offsetsFrom_boundary (off : Nat) (ps : List Piece) : ∀ b ∈ offsetsFrom off ps,
    ∃ k, k ≤ (flat ps).length ∧ b = off + utf8Len ((flat ps).take k) := by
  induction ps generalizing off with
  | nil => intro b hb; simp [offsetsFrom] at hb; exact ⟨0, by simp, by simp [hb]⟩
  | cons p ps ih =>
    intro b hb
    simp only [offsetsFrom, List.mem_cons] at hb
    rcases hb with rfl | hb
    · exact ⟨0, by simp, by simp⟩
    · obtain ⟨k, hk, hbk⟩ := ih _ b hb
      refine ⟨p.2.length + k, by simp; omega, ?_⟩
      rw [flat_cons, List.take_append, hbk]
      have : List.take (p.2.length + k) p.2 = p.2 := List.take_of_length_le (by omega)
      simp [Nat.add_assoc, this]

theorem offsetsFrom_head (off : Nat) (ps : List Piece) : (offsetsFrom off ps).head? = some off := by
  cases ps <;> simp [offsetsFrom]

theorem offsetsFrom_last (off : Nat) (ps : List Piece) :
    (offsetsFrom off ps).getLast? = some (off + utf8Len (flat ps)) := by
  rw [offsetsFrom_eq]; simp

theorem offsetsFrom_length (off : Nat) (ps : List Piece) :
    (offsetsFrom off ps).length = ps.length + 1 := by
  induction ps generalizing off with
  | nil => simp [offsetsFrom]
  | cons p ps ih => simp [offsetsFrom, ih]

theorem offsetsFrom_index : ∀ (ps : List Piece) (off i : Nat) (p : Piece), ps[i]? = some p →
    (offsetsFrom off ps)[i]? = some (off + utf8Len (flat (ps.take i))) ∧
    (offsetsFrom off ps)[i + 1]? = some (off + utf8Len (flat (ps.take i)) + utf8Len p.2) ∧
    flat ps = flat (ps.take i) ++ p.2 ++ flat (ps.drop (i + 1)) := by
  intro ps
  induction ps with
  | nil => intro off i p h; simp at h
  | cons q qs ih =>
    intro off i p h
    cases i with
    | zero =>
      simp only [List.getElem?_cons_zero, Option.some.injEq] at h
      subst h
      refine ⟨by simp [offsetsFrom], ?_, by simp⟩
      simp only [offsetsFrom, List.getElem?_cons_succ, List.take_zero, flat_nil, utf8Len_nil,
        Nat.add_zero]
      have := offsetsFrom_head (off + utf8Len q.2) qs
      rw [List.head?_eq_getElem?] at this
      exact this
    | succ j =>
      simp only [List.getElem?_cons_succ] at h
      obtain ⟨h1, h2, h3⟩ := ih (off + utf8Len q.2) j p h
      refine ⟨?_, ?_, ?_⟩
      · simp [offsetsFrom, h1, Nat.add_assoc]
      · simp [offsetsFrom, h2, Nat.add_assoc]
      · simp only [flat_cons, List.take_succ_cons, List.drop_succ_cons]
        rw [h3]; simp

/-! ## checker soundness -/

theorem takeBytes_spec : ∀ (s : List Char) (n : Nat) (a b : List Char),
    takeBytes s n = some (a, b) → s = a ++ b ∧ utf8Len a = n := by
  intro s
  induction s with
  | nil =>
    intro n a b h
    cases n with
    | zero => simp [takeBytes] at h; obtain ⟨rfl, rfl⟩ := h; simp
    | succ n => simp [takeBytes] at h
  | cons c cs ih =>
    intro n a b h
    cases n with
    | zero => simp [takeBytes] at h; obtain ⟨rfl, rfl⟩ := h; simp
    | succ n =>
      simp only [takeBytes] at h
      split at h
      · rename_i hle
        split at h
        · rename_i a' b' hrec
          cases h
          obtain ⟨h1, h2⟩ := ih _ _ _ hrec
          refine ⟨by simp [h1], ?_⟩
          simp [h2]; omega
        · cases h
      · cases h

theorem patMatch_iff {p : Pat} {w : List Char} : patMatch p w = true ↔ PatMatches p w := by
  unfold patMatch PatMatches; exact rmatch_iff

theorem ruleAgreesB_sound {k : TokenKind} {w : List Char} (h : ruleAgreesB k w = true) :
    RuleAgrees k w := by
  unfold ruleAgreesB at h
  obtain ⟨dp, hmem, hc⟩ := List.any_eq_true.mp h
  simp only [Bool.and_eq_true, beq_iff_eq] at hc
  obtain ⟨⟨hk, hm⟩, hall⟩ := hc
  refine ⟨dp.1, dp.2, hmem, hk, patMatch_iff.mp hm, ?_⟩
  intro d' p' hmem' hm'
  have := List.all_eq_true.mp hall _ hmem'
  simp only [Bool.or_eq_true, Bool.not_eq_true', decide_eq_true_eq] at this
  rcases this with h1 | h1
  · rw [patMatch_iff.mpr hm'] at h1; cases h1
  · exact h1

theorem kindOk_sound {k : TokenKind} {w : List Char} (h : kindOk k w = true) : KindAgrees k w := by
  cases k
  case SingleQuote => simpa [kindOk, KindAgrees] using h
  case DoubleQuote => simpa [kindOk, KindAgrees] using h
  case Escape =>
    simp only [kindOk] at h
    split at h
    · rename_i a c
      simp only [Bool.and_eq_true, beq_iff_eq, bne_iff_ne, ne_eq] at h
      exact ⟨c, by rw [h.1], h.2⟩
    · cases h
  case StringContents =>
    simp only [kindOk, Bool.and_eq_true, Bool.not_eq_true', Bool.or_eq_true,
      List.isEmpty_eq_false_iff, List.contains_eq_mem, decide_eq_false_iff_not] at h
    obtain ⟨⟨⟨h1, h2⟩, h3⟩, h4⟩ := h
    exact ⟨h1, h2, h3, h4⟩
  case CommentLeader => simpa [kindOk, KindAgrees] using h
  case CommentContents =>
    simpa [kindOk, KindAgrees] using h
  case Error =>
    simp only [kindOk, Bool.and_eq_true, Bool.not_eq_true', List.isEmpty_eq_false_iff,
      List.all_eq_true] at h
    refine ⟨h.1, ?_⟩
    intro d p hmem hm
    have := h.2 _ hmem
    rw [patMatch_iff.mpr hm] at this
    cases this
  all_goals exact ruleAgreesB_sound h

theorem checkFrom_sound : ∀ (ks : List TokenKind) (s : List Char) (cur i : Nat) (es : List Nat),
    checkFrom s cur i ks es = .ok →
      ∃ pieces : List Piece, s = flat pieces ∧ ks = pieces.map (·.1) ∧
        cur :: es = offsetsFrom cur pieces ∧ ∀ p ∈ pieces, KindAgrees p.1 p.2 := by
  intro ks
  induction ks with
  | nil =>
    intro s cur i es h
    cases es with
    | nil =>
      simp only [checkFrom] at h
      split at h
      · rename_i he
        exact ⟨[], by simpa using he, rfl, by simp [offsetsFrom], by simp⟩
      · cases h
    | cons e es => simp [checkFrom] at h
  | cons k ks ih =>
    intro s cur i es h
    cases es with
    | nil => simp [checkFrom] at h
    | cons e es =>
      simp only [checkFrom] at h
      split at h
      · cases h
      · rename_i hle
        split at h
        · cases h
        · rename_i piece rest htb
          split at h
          · rename_i hk
            obtain ⟨hsplit, hlen⟩ := takeBytes_spec _ _ _ _ htb
            obtain ⟨pieces, h1, h2, h3, h4⟩ := ih rest e (i + 1) es h
            refine ⟨(k, piece) :: pieces, by simp [hsplit, h1], by simp [h2], ?_, ?_⟩
            · simp only [offsetsFrom]
              have : cur + utf8Len piece = e := by omega
              rw [this, ← h3]
            · intro p hp
              rcases List.mem_cons.mp hp with rfl | hp
              · exact kindOk_sound hk
              · exact h4 p hp
          · cases h

theorem checkLex_tiles {s : List Char} {t : Tokens} (h : checkLex s t = .ok) : Tiles s t := by
  unfold checkLex at h
  split at h
  · cases h
  · rename_i s0 ends hst
    split at h
    · cases h
    · rename_i h0
      have h0' : s0 = 0 := by simpa using h0
      subst h0'
      obtain ⟨pieces, h1, h2, h3, h4⟩ := checkFrom_sound _ _ _ _ _ h
      exact ⟨pieces, h1, h2, by rw [hst, h3], h4⟩

/-! ## observers of `Tokens` -/

theorem zipEq_ne {α β} : ∀ (as : List α) (bs : List β), as.length ≠ bs.length →
    Tokens.zipEq as bs = .error .zipEq := by
  intro as
  induction as with
  | nil => intro bs h; cases bs with
    | nil => simp at h
    | cons b bs => rfl
  | cons a as ih =>
    intro bs h
    cases bs with
    | nil => rfl
    | cons b bs =>
      have := ih bs (by simpa using h)
      simp [Tokens.zipEq, this]

theorem zipEq_eq {α β} : ∀ (as : List α) (bs : List β), as.length = bs.length →
    Tokens.zipEq as bs = .ok (as.zip bs) := by
  intro as
  induction as with
  | nil => intro bs h; cases bs with
    | nil => rfl
    | cons b bs => simp at h
  | cons a as ih =>
    intro bs h
    cases bs with
    | nil => simp at h
    | cons b bs =>
      have := ih bs (by simpa using h)
      simp [Tokens.zipEq, this]

theorem zipEqTake_le {α β} : ∀ (k : Nat) (as : List α) (bs : List β),
    k ≤ as.length → k ≤ bs.length → Tokens.zipEqTake k as bs = .ok ((as.zip bs).take k) := by
  intro k
  induction k with
  | zero => intro as bs _ _; simp [Tokens.zipEqTake]
  | succ k ih =>
    intro as bs ha hb
    cases as with
    | nil => simp at ha
    | cons a as =>
      cases bs with
      | nil => simp at hb
      | cons b bs =>
        have := ih as bs (by simpa using ha) (by simpa using hb)
        simp [Tokens.zipEqTake, this]

theorem mapRanges_ok : ∀ (l : List ((TokenKind × Nat) × Nat)), (∀ x ∈ l, x.1.2 ≤ x.2) →
    Tokens.mapRanges l = .ok (l.map fun x => (x.1.1, x.1.2, x.2)) := by
  intro l
  induction l with
  | nil => intro _; rfl
  | cons x l ih =>
    intro h
    obtain ⟨⟨k, s⟩, e⟩ := x
    have hx : s ≤ e := h ((k, s), e) List.mem_cons_self
    have := ih fun y hy => h y (List.mem_cons_of_mem _ hy)
    simp [Tokens.mapRanges, Tokens.mkRange, hx, this]

theorem sorted_zip_drop : ∀ (l : List Nat), l.Pairwise (· ≤ ·) →
    ∀ x ∈ l.zip (l.drop 1), x.1 ≤ x.2 := by
  intro l
  induction l with
  | nil => intro _ x hx; simp at hx
  | cons a l ih =>
    intro hp x hx
    simp only [List.drop_succ_cons, List.drop_zero] at hx
    cases l with
    | nil => simp at hx
    | cons b l' =>
      simp only [List.zip_cons_cons, List.mem_cons] at hx
      rcases hx with rfl | hx
      · exact (List.pairwise_cons.mp hp).1 b List.mem_cons_self
      · have hp' := (List.pairwise_cons.mp hp).2
        have := ih hp' x (by simpa using hx)
        exact this

theorem take_zip {α β} (l : List α) (l' : List β) (i : Nat) :
    (l.zip l').take i = (l.take i).zip (l'.take i) := by
  simp [List.zip, List.take_zipWith]

theorem zip_take_left {α β} : ∀ (l : List α) (l' : List β), l.zip (l'.take l.length) = l.zip l' := by
  intro l
  induction l with
  | nil => intro l'; simp
  | cons a l ih =>
    intro l'
    cases l' with
    | nil => simp
    | cons b l' => simp [ih]

theorem zip3_sorted : ∀ (st : List Nat) (ks : List TokenKind), st.Pairwise (· ≤ ·) →
    ∀ x ∈ (ks.zip st).zip (st.drop 1), x.1.2 ≤ x.2 := by
  intro st
  induction st with
  | nil => intro ks _ x hx; simp at hx
  | cons a l ih =>
    intro ks hp x hx
    cases ks with
    | nil => simp at hx
    | cons k ks' =>
      cases l with
      | nil => simp at hx
      | cons b l' =>
        simp only [List.zip_cons_cons, List.drop_succ_cons, List.drop_zero, List.mem_cons] at hx
        rcases hx with rfl | hx
        · exact (List.pairwise_cons.mp hp).1 b List.mem_cons_self
        · exact ih ks' (List.pairwise_cons.mp hp).2 x (by simpa using hx)

/-- decidable reading of `e = .ok a` / `e = .error f` (`Except` has no `DecidableEq`) -/
def isOk {α} [DecidableEq α] (e : Except Fault α) (a : α) : Bool :=
  match e with
  | .ok x => decide (x = a)
  | .error _ => false

theorem isOk_iff {α} [DecidableEq α] {e : Except Fault α} {a : α} : isOk e a = true ↔ e = .ok a := by
  cases e <;> simp [isOk]

def isErr {α} (e : Except Fault α) (f : Fault) : Bool :=
  match e with
  | .ok _ => false
  | .error g => decide (g = f)

theorem isErr_iff {α} {e : Except Fault α} {f : Fault} : isErr e f = true ↔ e = .error f := by
  cases e <;> simp [isErr]

end CapyV.Lexer
