import CapyV.Spec.Defer
/-! Helper definitions and lemmas for C03 (defer unwinding). -/
namespace CapyV.Defer

/-! ### `St.emit(s)` -/

@[simp] theorem St.emits_nil (st : St) : st.emits [] = st := rfl

@[simp] theorem St.emits_cons (st : St) (c : Nat) (cs : List Nat) :
    st.emits (c :: cs) = (st.emit c).emits cs := rfl

/-- `emits (a ++ b) = emits b ∘ emits a` -/
theorem St.emits_append (st : St) (a b : List Nat) :
    st.emits (a ++ b) = (st.emits a).emits b := by
  simp [St.emits, List.foldl_append]

theorem St.emits_trace (cs : List Nat) : ∀ st : St, (st.emits cs).trace = cs.reverse ++ st.trace := by
  induction cs with
  | nil => intro st; rfl
  | cons c cs ih => intro st; simp [ih, St.emit]

theorem St.emits_oracle (cs : List Nat) : ∀ st : St, (st.emits cs).oracle = st.oracle := by
  induction cs with
  | nil => intro st; rfl
  | cons c cs ih => intro st; simp [ih, St.emit]

/-! ### scoping of labels -/

/-- context: the enclosing *labelled* constructs, innermost first; `true` marks a loop -/
abbrev Ctx := List (Nat × Bool)

/-- the innermost enclosing construct labelled `l` (`some true` = a loop, `some false` = a block) -/
def lookupLabel (l : Nat) : Ctx → Option Bool
  | [] => none
  | (l', isLoop) :: rest => if l' = l then some isLoop else lookupLabel l rest

/-- entering a block: a labelled block is recorded, an unlabelled one is not -/
def pushLabel (label : Option Nat) (ctx : Ctx) : Ctx :=
  match label with
  | some l => (l, false) :: ctx
  | none => ctx

mutual
/-- What HIR label resolution guarantees: every `brk l` / `tryS l` is inside a construct
labelled `l`; for every `cont l` the innermost enclosing construct labelled `l` is a loop. -/
def wellScopedStmt : Stmt → Ctx → Bool
  | .print _, _ => true
  | .defer _, _ => true
  | .block label body, ctx => wellScoped body (pushLabel label ctx)
  | .loop label body, ctx => wellScoped body ((label, true) :: ctx)
  | .ifS body, ctx => wellScoped body ctx
  | .brk l, ctx => (lookupLabel l ctx).isSome
  | .cont l, ctx => lookupLabel l ctx == some true
  | .tryS l, ctx => (lookupLabel l ctx).isSome
def wellScoped : Stmts → Ctx → Bool
  | .nil, _ => true
  | .cons s rest, ctx => wellScopedStmt s ctx && wellScoped rest ctx
end

mutual
/-- The part of `wellScoped` the proof needs: for no `cont l` is the innermost enclosing
construct labelled `l` a plain block. Nothing is demanded of `brk` / `tryS`. -/
def contScopedStmt : Stmt → Ctx → Bool
  | .print _, _ => true
  | .defer _, _ => true
  | .block label body, ctx => contScoped body (pushLabel label ctx)
  | .loop label body, ctx => contScoped body ((label, true) :: ctx)
  | .ifS body, ctx => contScoped body ctx
  | .brk _, _ => true
  | .cont l, ctx => lookupLabel l ctx != some false
  | .tryS _, _ => true
def contScoped : Stmts → Ctx → Bool
  | .nil, _ => true
  | .cons s rest, ctx => contScopedStmt s ctx && contScoped rest ctx
end

mutual
theorem wellScopedStmt_contScoped : (s : Stmt) → ∀ ctx, wellScopedStmt s ctx = true → contScopedStmt s ctx = true
  | .print _ | .defer _ | .brk _ | .tryS _ => by intro ctx _; simp [contScopedStmt]
  | .block label body => by
    intro ctx h; simp only [wellScopedStmt] at h; simp only [contScopedStmt]
    exact wellScoped_contScoped body _ h
  | .loop label body => by
    intro ctx h; simp only [wellScopedStmt] at h; simp only [contScopedStmt]
    exact wellScoped_contScoped body _ h
  | .ifS body => by
    intro ctx h; simp only [wellScopedStmt] at h; simp only [contScopedStmt]
    exact wellScoped_contScoped body _ h
  | .cont l => by
    intro ctx h; simp only [wellScopedStmt, beq_iff_eq] at h; simp [contScopedStmt, h]
theorem wellScoped_contScoped : (ss : Stmts) → ∀ ctx, wellScoped ss ctx = true → contScoped ss ctx = true
  | .nil => by intro ctx _; simp [contScoped]
  | .cons s rest => by
    intro ctx h
    simp only [wellScoped, Bool.and_eq_true] at h
    simp only [contScoped, Bool.and_eq_true]
    exact ⟨wellScopedStmt_contScoped s ctx h.1, wellScoped_contScoped rest ctx h.2⟩
end

/-! ### the source semantics, unfolded -/

theorem execBlockS_eq (fuel : Nat) (body : Stmts) (st : St) :
    execBlockS fuel body st =
      ((execStmtsS fuel body [] st).1,
        (execStmtsS fuel body [] st).2.2.emits (execStmtsS fuel body [] st).2.1) := by
  rw [execBlockS]

/-- a property of signals that holds of `normal` and of whatever a step leaves the loop with
holds of the loop's signal -/
theorem iter_sig_ind {P : Sig → Prop} (step : St → Option Sig × St) (h0 : P .normal)
    (hs : ∀ st sig st', step st = (some sig, st') → P sig) : ∀ n st, P (iter step n st).1
  | 0, st => by simpa [iter] using h0
  | n + 1, st => by
    simp only [iter]
    rcases h : step st with ⟨o, st'⟩
    cases o with
    | none => simpa using iter_sig_ind step h0 hs n st'
    | some sig => simpa using hs st sig st' h

mutual
/-- a `cont l` that escapes a well-scoped statement is not aimed at a plain block of the
context -/
theorem cont_escape_stmt (fuel : Nat) : (s : Stmt) → ∀ ctx regs st l, contScopedStmt s ctx = true →
    (execS fuel s regs st).1 = .cont l → lookupLabel l ctx ≠ some false
  | .print c => by intro ctx regs st l _ h; simp [execS] at h
  | .defer c => by intro ctx regs st l _ h; simp [execS] at h
  | .brk l' => by intro ctx regs st l _ h; simp [execS] at h
  | .tryS l' => by
    intro ctx regs st l _ h
    simp only [execS] at h
    rcases hd : st.decide with ⟨b, st1⟩
    rw [hd] at h
    cases b <;> simp at h
  | .cont l' => by
    intro ctx regs st l hw h
    simp only [execS, Sig.cont.injEq] at h
    subst h
    simpa [contScopedStmt] using hw
  | .block label body => by
    intro ctx regs st l hw h
    simp only [contScopedStmt] at hw
    have ih := cont_escape_stmts fuel body (pushLabel label ctx) [] st l hw
    simp only [execS, execBlockS_eq] at h
    rcases hb : execStmtsS fuel body [] st with ⟨sigB, regsB, stB⟩
    rw [hb] at h ih
    cases sigB with
    | normal => simp at h
    | brk l2 =>
      simp only at h
      split at h <;> simp at h
    | cont l2 =>
      simp only [Sig.cont.injEq] at h
      subst h
      have ih := ih rfl
      cases label with
      | none => simpa [pushLabel] using ih
      | some lab =>
        simp only [pushLabel, lookupLabel] at ih
        split at ih
        · simp at ih
        · exact ih
  | .ifS body => by
    intro ctx regs st l hw h
    simp only [contScopedStmt] at hw
    simp only [execS, execBlockS_eq] at h
    rcases hd : st.decide with ⟨b, st1⟩
    rw [hd] at h
    cases b with
    | false => simp at h
    | true => exact cont_escape_stmts fuel body ctx [] st1 l hw h
  | .loop label body => by
    intro ctx regs st l hw h
    simp only [contScopedStmt] at hw
    simp only [execS] at h
    revert h
    apply iter_sig_ind (P := fun sig => sig = .cont l → lookupLabel l ctx ≠ some false)
    · intro h; simp at h
    · intro st0 sig st0' hstep hsig
      subst hsig
      rcases hd : st0.decide with ⟨b, st1⟩
      rw [hd] at hstep
      cases b with
      | false => simp at hstep
      | true =>
        simp only [execBlockS_eq] at hstep
        have ih := cont_escape_stmts fuel body ((label, true) :: ctx) [] st1 l hw
        rcases hb : execStmtsS fuel body [] st1 with ⟨sigB, regsB, stB⟩
        rw [hb] at hstep ih
        cases sigB with
        | normal => simp at hstep
        | brk l2 =>
          simp only at hstep
          split at hstep <;> simp at hstep
        | cont l2 =>
          simp only at hstep
          split at hstep
          · simp at hstep
          · rename_i hne
            simp only [Prod.mk.injEq, Option.some.injEq, Sig.cont.injEq] at hstep
            have ih := ih (by simp [hstep.1])
            simp only [lookupLabel] at ih
            rw [if_neg (by rw [← hstep.1]; exact fun e => hne e.symm)] at ih
            exact ih
theorem cont_escape_stmts (fuel : Nat) : (ss : Stmts) → ∀ ctx regs st l, contScoped ss ctx = true →
    (execStmtsS fuel ss regs st).1 = .cont l → lookupLabel l ctx ≠ some false
  | .nil => by intro ctx regs st l _ h; simp [execStmtsS] at h
  | .cons s rest => by
    intro ctx regs st l hw h
    simp only [contScoped, Bool.and_eq_true] at hw
    simp only [execStmtsS] at h
    have ih1 := cont_escape_stmt fuel s ctx regs st l hw.1
    rcases hs : execS fuel s regs st with ⟨sig1, regs1, st1⟩
    rw [hs] at h ih1
    cases sig1 with
    | normal => exact cont_escape_stmts fuel rest ctx regs1 st1 l hw.2 h
    | brk l2 => simp at h
    | cont l2 => exact ih1 h
end

/-! ### compilation never panics below a frame -/

mutual
/-- under a non-empty defer stack compilation succeeds and only the top frame's defers change -/
theorem compileStmt_some : (s : Stmt) → ∀ id ds rest,
    ∃ ts ds' stop, compileStmt s ((id, ds) :: rest) = some (ts, (id, ds') :: rest, stop)
  | .print c => by intro id ds rest; exact ⟨_, ds, _, rfl⟩
  | .defer c => by intro id ds rest; exact ⟨_, c :: ds, _, rfl⟩
  | .brk l => by intro id ds rest; exact ⟨_, ds, _, rfl⟩
  | .cont l => by intro id ds rest; exact ⟨_, ds, _, rfl⟩
  | .tryS l => by intro id ds rest; exact ⟨_, ds, _, rfl⟩
  | .block label body => by
    intro id ds rest
    obtain ⟨tb, ds', h⟩ := compileStmts_some body label [] ((id, ds) :: rest)
    rw [compileStmt, h]; exact ⟨_, ds, _, rfl⟩
  | .loop label body => by
    intro id ds rest
    obtain ⟨tb, ds', h⟩ := compileStmts_some body none [] ((some label, []) :: (id, ds) :: rest)
    rw [compileStmt, h]; exact ⟨_, ds, _, rfl⟩
  | .ifS body => by
    intro id ds rest
    obtain ⟨tb, ds', h⟩ := compileStmts_some body none [] ((id, ds) :: rest)
    rw [compileStmt, h]; exact ⟨_, ds, _, rfl⟩
theorem compileStmts_some : (ss : Stmts) → ∀ id ds rest,
    ∃ ts ds', compileStmts ss ((id, ds) :: rest) = some (ts, (id, ds') :: rest)
  | .nil => by intro id ds rest; exact ⟨_, ds, rfl⟩
  | .cons s r => by
    intro id ds rest
    obtain ⟨ts, ds1, stop, h1⟩ := compileStmt_some s id ds rest
    obtain ⟨tr, ds2, h2⟩ := compileStmts_some r id ds1 rest
    cases stop with
    | true => refine ⟨ts, ds1, ?_⟩; simp [compileStmts, h1]
    | false => refine ⟨Ts.append ts tr, ds2, ?_⟩; simp [compileStmts, h1, h2]
end

/-! ### the target semantics, unfolded -/

theorem execTs_append (fuel : Nat) : (a b : Ts) → ∀ st,
    execTs fuel (Ts.append a b) st =
      match execTs fuel a st with
      | (.normal, st') => execTs fuel b st'
      | (sig, st') => (sig, st')
  | .nil, b => by intro st; simp [Ts.append, execTs]
  | .cons t r, b => by
    intro st
    simp only [Ts.append, execTs]
    rcases h : execT fuel t st with ⟨sig, st1⟩
    cases sig with
    | normal => simpa using execTs_append fuel r b st1
    | brk l => simp
    | cont l => simp

theorem execTs_single (fuel : Nat) (t : T) (st : St) :
    execTs fuel (.cons t .nil) st = execT fuel t st := by
  simp only [execTs]
  rcases h : execT fuel t st with ⟨sig, st1⟩
  cases sig <;> simp

/-! ### the debt invariant -/

/-- Source and target were started in the same state and the source produced signal `sig` in
state `s`. `normal`: the target is in the same state. A jump to `l`: the target has already
run, at the jump, the defers of every frame of `fr` down to `l`'s — those the source will run
while the signal travels outwards. -/
def Debt (fr : List Frame) : Sig → St → St → Prop
  | .normal, s, t => t = s
  | .brk l, s, t => t = s.emits (defersUpTo l fr)
  | .cont l, s, t => t = s.emits (defersUpTo l fr)

/-- the result of a source statement (list) run with registrations growing to `rS.2.1` in the
top frame `id`, against the result of its code -/
def SimRes (id : Option Nat) (rest : List Frame) (rS : Sig × List Nat × St) (rT : Sig × St) : Prop :=
  rT.1 = rS.1 ∧ Debt ((id, rS.2.1) :: rest) rS.1 rS.2.2 rT.2

def StepDebt (fr : List Frame) : Option Sig → St → St → Prop
  | none, s, t => t = s
  | some sig, s, t => Debt fr sig s t

theorem iter_sim (fr : List Frame) (stepS stepT : St → Option Sig × St)
    (h : ∀ st, (stepT st).1 = (stepS st).1 ∧ StepDebt fr (stepS st).1 (stepS st).2 (stepT st).2) :
    ∀ n st, (iter stepT n st).1 = (iter stepS n st).1 ∧
      Debt fr (iter stepS n st).1 (iter stepS n st).2 (iter stepT n st).2
  | 0, st => by simp [iter, Debt]
  | n + 1, st => by
    have hst := h st
    simp only [iter]
    rcases hS : stepS st with ⟨oS, sS⟩
    rcases hT : stepT st with ⟨oT, sT⟩
    rw [hS, hT] at hst
    obtain ⟨h1, h2⟩ := hst
    simp only at h1 h2
    subst h1
    cases oT with
    | none =>
      simp only [StepDebt] at h2
      subst h2
      exact iter_sim fr stepS stepT h n sT
    | some sig => exact ⟨rfl, h2⟩

theorem defersUpTo_cons (l : Nat) (id : Option Nat) (ds : List Nat) (rest : List Frame) :
    defersUpTo l ((id, ds) :: rest) = if id = some l then ds else ds ++ defersUpTo l rest := rfl

/-- one loop iteration of the source semantics (condition, body block) -/
def loopStepS (fuel label : Nat) (body : Stmts) : St → Option Sig × St := fun st =>
  match st.decide with
  | (false, st1) => (some .normal, st1)
  | (true, st1) =>
    match execBlockS fuel body st1 with
    | (.normal, st') => (none, st')
    | (.brk l, st') => if l = label then (some .normal, st') else (some (.brk l), st')
    | (.cont l, st') => if l = label then (none, st') else (some (.cont l), st')

/-- one loop iteration of the generated code -/
def loopStepT (fuel label : Nat) (body : Ts) (exitCode : List Nat) : St → Option Sig × St := fun st =>
  match st.decide with
  | (false, st1) => (some .normal, st1)
  | (true, st1) =>
    match execTs fuel body st1 with
    | (.normal, st') => (none, st'.emits exitCode)
    | (.brk l, st') => if l = label then (some .normal, st') else (some (.brk l), st')
    | (.cont l, st') => if l = label then (none, st') else (some (.cont l), st')

theorem execS_loop (fuel label : Nat) (body : Stmts) (regs : List Nat) (st : St) :
    execS fuel (.loop label body) regs st =
      ((iter (loopStepS fuel label body) fuel st).1, regs, (iter (loopStepS fuel label body) fuel st).2) := by
  rw [execS]; rfl

theorem execT_loop (fuel label : Nat) (body : Ts) (exitCode : List Nat) (st : St) :
    execT fuel (.loop label body exitCode) st = iter (loopStepT fuel label body exitCode) fuel st := by
  rw [execT]; rfl

/-- the step relation of a loop, from the simulation of its body -/
theorem loop_step_sim (fuel label : Nat) (body : Stmts) (tb : Ts) (frb fr : List Frame)
    (hbody : ∀ st, SimRes none ((some label, []) :: fr) (execStmtsS fuel body [] st) (execTs fuel tb st) ∧
      ((execStmtsS fuel body [] st).1 = .normal →
        frb = (none, (execStmtsS fuel body [] st).2.1) :: (some label, []) :: fr)) :
    ∀ st, (loopStepT fuel label tb (topDefers frb) st).1 = (loopStepS fuel label body st).1 ∧
      StepDebt fr (loopStepS fuel label body st).1 (loopStepS fuel label body st).2
        (loopStepT fuel label tb (topDefers frb) st).2 := by
  intro st
  simp only [loopStepS, loopStepT]
  rcases hd : st.decide with ⟨b, st1⟩
  cases b with
  | false => simp [StepDebt, Debt]
  | true =>
    have ih := hbody st1
    simp only [execBlockS_eq]
    rcases hb : execStmtsS fuel body [] st1 with ⟨sigB, regsB, stB⟩
    rcases hT : execTs fuel tb st1 with ⟨sigT, stT⟩
    rw [hb, hT] at ih
    obtain ⟨⟨h1, h2⟩, h3⟩ := ih
    simp only at h1 h2 h3
    subst h1
    cases sigT with
    | normal =>
      obtain rfl := h3 rfl
      simp only [Debt] at h2; subst h2
      simp [StepDebt, topDefers]
    | brk l =>
      simp only [Debt] at h2
      rw [defersUpTo_cons, defersUpTo_cons] at h2
      by_cases hl : l = label
      · subst hl; simp at h2; subst h2; simp [StepDebt, Debt]
      · have hl' : ¬ label = l := fun e => hl e.symm
        simp [hl'] at h2; subst h2; simp [StepDebt, Debt, hl, St.emits_append]
    | cont l =>
      simp only [Debt] at h2
      rw [defersUpTo_cons, defersUpTo_cons] at h2
      by_cases hl : l = label
      · subst hl; simp at h2; subst h2; simp [StepDebt]
      · have hl' : ¬ label = l := fun e => hl e.symm
        simp [hl'] at h2; subst h2; simp [StepDebt, Debt, hl, St.emits_append]

/-! ### the simulation -/

mutual
theorem sim_stmt (fuel : Nat) : (s : Stmt) → ∀ ctx id ds rest ts fr' stop st,
    contScopedStmt s ctx = true → compileStmt s ((id, ds) :: rest) = some (ts, fr', stop) →
    SimRes id rest (execS fuel s ds st) (execTs fuel ts st) ∧
      ((execS fuel s ds st).1 = .normal →
        fr' = (id, (execS fuel s ds st).2.1) :: rest ∧ stop = false)
  | .print c => by
    intro ctx id ds rest ts fr' stop st _ hc
    simp only [compileStmt, Option.some.injEq, Prod.mk.injEq] at hc
    obtain ⟨rfl, rfl, rfl⟩ := hc
    simp [SimRes, Debt, execS, execTs_single, execT]
  | .defer c => by
    intro ctx id ds rest ts fr' stop st _ hc
    simp only [compileStmt, registerDefer, Option.map_some, Option.some.injEq, Prod.mk.injEq] at hc
    obtain ⟨rfl, rfl, rfl⟩ := hc
    simp [SimRes, Debt, execS, execTs]
  | .brk l => by
    intro ctx id ds rest ts fr' stop st _ hc
    simp only [compileStmt, Option.some.injEq, Prod.mk.injEq] at hc
    obtain ⟨rfl, rfl, rfl⟩ := hc
    simp [SimRes, Debt, execS, execTs_single, execT]
  | .cont l => by
    intro ctx id ds rest ts fr' stop st _ hc
    simp only [compileStmt, Option.some.injEq, Prod.mk.injEq] at hc
    obtain ⟨rfl, rfl, rfl⟩ := hc
    simp [SimRes, Debt, execS, execTs_single, execT]
  | .tryS l => by
    intro ctx id ds rest ts fr' stop st _ hc
    simp only [compileStmt, Option.some.injEq, Prod.mk.injEq] at hc
    obtain ⟨rfl, rfl, rfl⟩ := hc
    simp only [execS, execTs_single, execT]
    rcases hd : st.decide with ⟨b, st1⟩
    cases b <;> simp [SimRes, Debt]
  | .block label body => by
    intro ctx id ds rest ts fr' stop st hw hc
    simp only [contScopedStmt] at hw
    simp only [compileStmt] at hc
    rcases hcb : compileStmts body ((label, []) :: (id, ds) :: rest) with _ | ⟨tb, frb⟩
    · rw [hcb] at hc; simp at hc
    rw [hcb] at hc
    simp only [Option.some.injEq, Prod.mk.injEq] at hc
    obtain ⟨rfl, rfl, rfl⟩ := hc
    have ih := sim_stmts fuel body (pushLabel label ctx) label [] ((id, ds) :: rest) tb frb st hw hcb
    have hesc := cont_escape_stmts fuel body (pushLabel label ctx) [] st
    simp only [execTs_single, execT, execS, execBlockS_eq]
    rcases hb : execStmtsS fuel body [] st with ⟨sigB, regsB, stB⟩
    rcases hT : execTs fuel tb st with ⟨sigT, stT⟩
    rw [hb, hT] at ih
    obtain ⟨⟨h1, h2⟩, h3⟩ := ih
    simp only at h1 h2 h3
    subst h1
    cases sigT with
    | normal =>
      obtain rfl := h3 rfl
      simp only [Debt] at h2; subst h2
      simp [SimRes, Debt, topDefers]
    | brk l =>
      simp only [Debt] at h2
      rw [defersUpTo_cons] at h2
      by_cases hl : label = some l
      · subst hl; simp at h2; subst h2; simp [SimRes, Debt]
      · simp [hl] at h2; subst h2; simp [SimRes, Debt, hl, St.emits_append]
    | cont l =>
      simp only [Debt] at h2
      rw [defersUpTo_cons] at h2
      have hl : ¬ label = some l := by
        intro e; subst e
        have := hesc l hw (by rw [hb])
        simp [pushLabel, lookupLabel] at this
      simp [hl] at h2; subst h2; simp [SimRes, Debt, St.emits_append]
  | .ifS body => by
    intro ctx id ds rest ts fr' stop st hw hc
    simp only [contScopedStmt] at hw
    simp only [compileStmt] at hc
    rcases hcb : compileStmts body ((none, []) :: (id, ds) :: rest) with _ | ⟨tb, frb⟩
    · rw [hcb] at hc; simp at hc
    rw [hcb] at hc
    simp only [Option.some.injEq, Prod.mk.injEq] at hc
    obtain ⟨rfl, rfl, rfl⟩ := hc
    simp only [execTs_single, execT, execS, execBlockS_eq]
    rcases hd : st.decide with ⟨b, st1⟩
    cases b with
    | false => simp [SimRes, Debt]
    | true =>
      have ih := sim_stmts fuel body ctx none [] ((id, ds) :: rest) tb frb st1 hw hcb
      simp only
      rcases hb : execStmtsS fuel body [] st1 with ⟨sigB, regsB, stB⟩
      rcases hT : execTs fuel tb st1 with ⟨sigT, stT⟩
      rw [hb, hT] at ih
      obtain ⟨⟨h1, h2⟩, h3⟩ := ih
      simp only at h1 h2 h3
      subst h1
      cases sigT with
      | normal =>
        obtain rfl := h3 rfl
        simp only [Debt] at h2; subst h2
        simp [SimRes, Debt, topDefers]
      | brk l =>
        simp only [Debt] at h2
        rw [defersUpTo_cons] at h2
        simp at h2; subst h2; simp [SimRes, Debt, St.emits_append]
      | cont l =>
        simp only [Debt] at h2
        rw [defersUpTo_cons] at h2
        simp at h2; subst h2; simp [SimRes, Debt, St.emits_append]
  | .loop label body => by
    intro ctx id ds rest ts fr' stop st hw hc
    simp only [contScopedStmt] at hw
    simp only [compileStmt] at hc
    rcases hcb : compileStmts body ((none, []) :: (some label, []) :: (id, ds) :: rest) with _ | ⟨tb, frb⟩
    · rw [hcb] at hc; simp at hc
    rw [hcb] at hc
    simp only [Option.some.injEq, Prod.mk.injEq] at hc
    obtain ⟨rfl, rfl, rfl⟩ := hc
    have hbody := fun st1 => sim_stmts fuel body ((label, true) :: ctx) none []
      ((some label, []) :: (id, ds) :: rest) tb frb st1 hw hcb
    have key := iter_sim ((id, ds) :: rest) _ _
      (loop_step_sim fuel label body tb frb ((id, ds) :: rest) hbody) fuel st
    rw [execTs_single, execT_loop, execS_loop]
    exact ⟨key, fun _ => ⟨rfl, rfl⟩⟩
theorem sim_stmts (fuel : Nat) : (ss : Stmts) → ∀ ctx id ds rest ts fr' st,
    contScoped ss ctx = true → compileStmts ss ((id, ds) :: rest) = some (ts, fr') →
    SimRes id rest (execStmtsS fuel ss ds st) (execTs fuel ts st) ∧
      ((execStmtsS fuel ss ds st).1 = .normal → fr' = (id, (execStmtsS fuel ss ds st).2.1) :: rest)
  | .nil => by
    intro ctx id ds rest ts fr' st _ hc
    simp only [compileStmts, Option.some.injEq, Prod.mk.injEq] at hc
    obtain ⟨rfl, rfl⟩ := hc
    simp [SimRes, Debt, execStmtsS, execTs]
  | .cons s r => by
    intro ctx id ds rest ts fr' st hw hc
    simp only [contScoped, Bool.and_eq_true] at hw
    simp only [compileStmts] at hc
    rcases hcs : compileStmt s ((id, ds) :: rest) with _ | ⟨ts1, fr1, stop⟩
    · rw [hcs] at hc; simp at hc
    rw [hcs] at hc
    simp only at hc
    have ih1 := sim_stmt fuel s ctx id ds rest ts1 fr1 stop st hw.1 hcs
    simp only [execStmtsS]
    rcases hs : execS fuel s ds st with ⟨sig1, regs1, st1⟩
    rw [hs] at ih1
    cases stop with
    | true =>
      simp only [if_true, Option.some.injEq, Prod.mk.injEq] at hc
      obtain ⟨rfl, rfl⟩ := hc
      obtain ⟨hsim, h3⟩ := ih1
      cases sig1 with
      | normal => have := (h3 rfl).2; simp at this
      | brk l => exact ⟨hsim, fun h => by simp at h⟩
      | cont l => exact ⟨hsim, fun h => by simp at h⟩
    | false =>
      rcases hcr : compileStmts r fr1 with _ | ⟨tr, fr2⟩
      · rw [hcr] at hc; simp at hc
      rw [hcr] at hc
      simp only [Bool.false_eq_true, if_false, Option.some.injEq, Prod.mk.injEq] at hc
      obtain ⟨rfl, rfl⟩ := hc
      rw [execTs_append]
      rcases hT : execTs fuel ts1 st with ⟨sigT, stT⟩
      rw [hT] at ih1
      obtain ⟨⟨h1, h2⟩, h3⟩ := ih1
      simp only at h1 h2 h3
      subst h1
      cases sigT with
      | normal =>
        obtain ⟨rfl, _⟩ := h3 rfl
        simp only [Debt] at h2; subst h2
        exact sim_stmts fuel r ctx id regs1 rest tr fr2 _ hw.2 hcr
      | brk l => exact ⟨⟨rfl, h2⟩, fun h => by simp at h⟩
      | cont l => exact ⟨⟨rfl, h2⟩, fun h => by simp at h⟩
end

/-! ### whole programs -/

theorem compileProgram_isSome (body : Stmts) : (compileProgram body).isSome = true := by
  obtain ⟨tb, ds', hc⟩ := compileStmts_some body (some 0) [] []
  simp [compileProgram, hc]

theorem runCompiled_eq_runSpec (fuel : Nat) (body : Stmts) (oracle : List Bool)
    (hw : contScoped body [(0, false)] = true) :
    runCompiled fuel body oracle = some (runSpec fuel body oracle) := by
  obtain ⟨tb, ds', hc⟩ := compileStmts_some body (some 0) [] []
  have ih := sim_stmts fuel body [(0, false)] (some 0) [] [] tb _ { trace := [], oracle } hw hc
  simp only [runCompiled, compileProgram, hc, Option.map_some, runSpec, execS, execT, execBlockS_eq]
  rcases hb : execStmtsS fuel body [] { trace := [], oracle } with ⟨sigB, regsB, stB⟩
  rcases hT : execTs fuel tb { trace := [], oracle } with ⟨sigT, stT⟩
  rw [hb, hT] at ih
  obtain ⟨⟨h1, h2⟩, h3⟩ := ih
  simp only at h1 h2 h3
  subst h1
  cases sigT with
  | normal =>
    have := h3 rfl
    simp only [List.cons.injEq, Prod.mk.injEq, and_true, true_and] at this
    subst this
    simp only [Debt] at h2; subst h2
    simp [topDefers]
  | brk l =>
    simp only [Debt] at h2
    rw [defersUpTo_cons] at h2
    have h2' : stT = stB.emits regsB := by
      rw [h2]; split <;> simp [defersUpTo]
    subst h2'
    by_cases hl : 0 = l <;> simp [hl]
  | cont l =>
    simp only [Debt] at h2
    rw [defersUpTo_cons] at h2
    have h2' : stT = stB.emits regsB := by
      rw [h2]; split <;> simp [defersUpTo]
    subst h2'
    simp

/-! ### facts about the structural semantics used by the corollaries of C03 -/

/-- the `defer`s that stand directly in a statement list, in program order -/
def registeredDefers : Stmts → List Nat
  | .nil => []
  | .cons (.defer c) rest => c :: registeredDefers rest
  | .cons _ rest => registeredDefers rest

def Stmts.append : Stmts → Stmts → Stmts
  | .nil, b => b
  | .cons s r, b => .cons s (Stmts.append r b)

/-- only `defer` changes the registrations of the enclosing block -/
theorem execS_regs (fuel : Nat) (s : Stmt) (regs : List Nat) (st : St) :
    (execS fuel s regs st).2.1 = match s with | .defer c => c :: regs | _ => regs := by
  cases s <;> simp only [execS] <;> (repeat' split) <;> rfl

/-- along a statement list that runs to its end the registrations are exactly the list's
`defer`s, newest first -/
theorem execStmtsS_regs (fuel : Nat) : (ss : Stmts) → ∀ regs st,
    (execStmtsS fuel ss regs st).1 = .normal →
      (execStmtsS fuel ss regs st).2.1 = (registeredDefers ss).reverse ++ regs
  | .nil => by intro regs st _; simp [execStmtsS, registeredDefers]
  | .cons s r => by
    intro regs st h
    have hr := execS_regs fuel s regs st
    simp only [execStmtsS] at h ⊢
    rcases hs : execS fuel s regs st with ⟨sig1, regs1, st1⟩
    rw [hs] at h hr
    cases sig1 with
    | normal =>
      simp only at h hr ⊢
      rw [execStmtsS_regs fuel r regs1 st1 h, hr]
      cases s <;> simp [registeredDefers]
    | brk l => simp at h
    | cont l => simp at h

/-- statements after a `brk` / `cont` never matter -/
theorem execStmtsS_dead (fuel : Nat) (j : Stmt) (hj : (∃ l, j = .brk l) ∨ (∃ l, j = .cont l)) :
    (pre : Stmts) → ∀ post regs st,
    execStmtsS fuel (pre.append (.cons j post)) regs st =
      execStmtsS fuel (pre.append (.cons j .nil)) regs st
  | .nil => by
    intro post regs st
    rcases hj with ⟨l, rfl⟩ | ⟨l, rfl⟩ <;> simp [Stmts.append, execStmtsS, execS]
  | .cons s r => by
    intro post regs st
    simp only [Stmts.append, execStmtsS]
    rcases hs : execS fuel s regs st with ⟨sig1, regs1, st1⟩
    cases sig1 with
    | normal => exact execStmtsS_dead fuel j hj r post regs1 st1
    | brk l => rfl
    | cont l => rfl

/-- `loop l { defer c; print p; cont l; dead }` with `k` positive decisions left -/
theorem iter_defer_cont (fuel l c p : Nat) (dead : Stmts) : ∀ k n (st : St), k < n →
    st.oracle = List.replicate k true →
    iter (loopStepS fuel l (.cons (.defer c) (.cons (.print p) (.cons (.cont l) dead)))) n st =
      (.normal, { trace := (List.replicate k [c, p]).flatten ++ st.trace, oracle := [] })
  | 0, n + 1, st => by
    intro _ ho
    obtain ⟨tr, o⟩ := st
    simp only [List.replicate] at ho
    subst ho
    simp [iter, loopStepS, St.decide]
  | k + 1, n + 1, st => by
    intro hk ho
    obtain ⟨tr, o⟩ := st
    simp only [List.replicate] at ho
    subst ho
    have ih := iter_defer_cont fuel l c p dead k n
      { trace := c :: p :: tr, oracle := List.replicate k true } (by omega) rfl
    simp only [iter, loopStepS, St.decide, execBlockS_eq, execStmtsS, execS, St.emit, St.emits_cons,
      St.emits_nil, if_true]
    rw [ih]
    simp [List.replicate_succ']
  | _, 0, _ => by intro h; omega

/-! ### the scheme before the fix (documentation of the two confirmed defects)
Loops pushed no defer frame (so a `break` to the loop's label found no frame with that id and
ran every frame of the function) and `continue` ran nothing. Everything else is `compileStmt`. -/

mutual
def compileStmtOld : Stmt → List Frame → Option (Ts × List Frame × Bool)
  | .print c, fr => some (.cons (.emit c) .nil, fr, false)
  | .defer c, fr => (registerDefer c fr).map fun fr' => (.nil, fr', false)
  | .block label body, fr =>
    match compileStmtsOld body ((label, []) :: fr) with
    | none => none
    | some (tb, fr') => some (.cons (.block label tb (topDefers fr')) .nil, fr, false)
  | .loop label body, fr =>
    match compileStmtsOld body ((none, []) :: fr) with
    | none => none
    | some (tb, fr') => some (.cons (.loop label tb (topDefers fr')) .nil, fr, false)
  | .ifS body, fr =>
    match compileStmtsOld body ((none, []) :: fr) with
    | none => none
    | some (tb, fr') => some (.cons (.ifT tb (topDefers fr')) .nil, fr, false)
  | .brk l, fr => some (.cons (.jump false l (defersUpTo l fr)) .nil, fr, true)
  | .cont l, fr => some (.cons (.jump true l []) .nil, fr, true)
  | .tryS l, fr => some (.cons (.tryT l (defersUpTo l fr)) .nil, fr, false)
def compileStmtsOld : Stmts → List Frame → Option (Ts × List Frame)
  | .nil, fr => some (.nil, fr)
  | .cons s rest, fr =>
    match compileStmtOld s fr with
    | none => none
    | some (ts, fr', stop) =>
      if stop then some (ts, fr') else
      match compileStmtsOld rest fr' with
      | none => none
      | some (tr, fr'') => some (Ts.append ts tr, fr'')
end

def runCompiledOld (fuel : Nat) (body : Stmts) (oracle : List Bool) : Option (List Nat) :=
  match compileStmtsOld body [(some 0, [])] with
  | none => none
  | some (tb, fr') =>
    some (execT fuel (.block (some 0) tb (topDefers fr')) { trace := [], oracle }).2.trace.reverse

end CapyV.Defer
