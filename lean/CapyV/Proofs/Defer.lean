import CapyV.Spec.Defer
/-! Helper definitions and lemmas for C03 (defer unwinding, deferred expressions are blocks). -/
namespace CapyV.Defer

/-! ### `St.emit(s)` -/

@[simp] theorem St.emits_nil (st : St) : st.emits [] = st := rfl

@[simp] theorem St.emits_cons (st : St) (c : Nat) (cs : List Nat) :
    st.emits (c :: cs) = (st.emit c).emits cs := rfl

/-- `emits (a ++ b) = emits b ∘ emits a` -/
theorem St.emits_append (st : St) (a b : List Nat) :
    st.emits (a ++ b) = (st.emits a).emits b := by
  simp [St.emits, List.foldl_append]

theorem St.emits_trace (cs : List Nat) : ∀ st : St, (st.emits cs).trace = cs.reverse ++ st.trace := by
  induction cs with
  | nil => intro st; rfl
  | cons c cs ih => intro st; simp [ih, St.emit]

theorem St.emits_oracle (cs : List Nat) : ∀ st : St, (st.emits cs).oracle = st.oracle := by
  induction cs with
  | nil => intro st; rfl
  | cons c cs ih => intro st; simp [ih, St.emit]

/-! ### scoping of labels -/

/-- context: the enclosing *labelled* constructs, innermost first; `true` marks a loop -/
abbrev Ctx := List (Nat × Bool)

/-- the innermost enclosing construct labelled `l` (`some true` = a loop, `some false` = a block) -/
def lookupLabel (l : Nat) : Ctx → Option Bool
  | [] => none
  | (l', isLoop) :: rest => if l' = l then some isLoop else lookupLabel l rest

/-- entering a block: a labelled block is recorded, an unlabelled one is not -/
def pushLabel (label : Option Nat) (ctx : Ctx) : Ctx :=
  match label with
  | some l => (l, false) :: ctx
  | none => ctx

mutual
/-- What HIR label resolution guarantees (`crates/hir/src/body.rs`, `resolve_last_label` /
`resolve_first_label`): every `brk l` / `tryS l` is inside a construct labelled `l`; for every
`cont l` the innermost enclosing construct labelled `l` is a loop; and label resolution never
passes a `defer` boundary (`ScopeKind::Defer`): inside a deferred body every jump targets a
loop / labelled block INSIDE that body, so resolution starts afresh there. The condition block
of a `loopC` is inside its loop: its jumps may name the loop's label and the enclosing labels,
as those of the body. (A `tryS l` inside
a deferred body that targets a label inside the body is accepted here although Capy cannot
write it: the predicate is a superset of what HIR accepts.) -/
def wellScopedStmt : Stmt → Ctx → Bool
  | .print _, _ => true
  | .defer b, _ => wellScoped b []
  | .block label body, ctx => wellScoped body (pushLabel label ctx)
  | .loop label body, ctx => wellScoped body ((label, true) :: ctx)
  | .loopC label cond body, ctx =>
    wellScoped cond ((label, true) :: ctx) && wellScoped body ((label, true) :: ctx)
  | .ifS body, ctx => wellScoped body ctx
  | .brk l, ctx => (lookupLabel l ctx).isSome
  | .cont l, ctx => lookupLabel l ctx == some true
  | .tryS l, ctx => (lookupLabel l ctx).isSome
def wellScoped : Stmts → Ctx → Bool
  | .nil, _ => true
  | .cons s rest, ctx => wellScopedStmt s ctx && wellScoped rest ctx
end

mutual
/-- The part of `wellScoped` the proof needs: a deferred body is fully closed (`wellScoped`
on its own), and outside deferred bodies for no `cont l` is the innermost enclosing construct
labelled `l` a plain block. Nothing is demanded of `brk` / `tryS` outside deferred bodies. -/
def contScopedStmt : Stmt → Ctx → Bool
  | .print _, _ => true
  | .defer b, _ => wellScoped b []
  | .block label body, ctx => contScoped body (pushLabel label ctx)
  | .loop label body, ctx => contScoped body ((label, true) :: ctx)
  | .loopC label cond body, ctx =>
    contScoped cond ((label, true) :: ctx) && contScoped body ((label, true) :: ctx)
  | .ifS body, ctx => contScoped body ctx
  | .brk _, _ => true
  | .cont l, ctx => lookupLabel l ctx != some false
  | .tryS _, _ => true
def contScoped : Stmts → Ctx → Bool
  | .nil, _ => true
  | .cons s rest, ctx => contScopedStmt s ctx && contScoped rest ctx
end

mutual
theorem wellScopedStmt_contScoped : (s : Stmt) → ∀ ctx, wellScopedStmt s ctx = true → contScopedStmt s ctx = true
  | .print _ | .brk _ | .tryS _ => by intro ctx _; simp [contScopedStmt]
  | .defer b => by intro ctx h; simpa [contScopedStmt, wellScopedStmt] using h
  | .block label body => by
    intro ctx h; simp only [wellScopedStmt] at h; simp only [contScopedStmt]
    exact wellScoped_contScoped body _ h
  | .loop label body => by
    intro ctx h; simp only [wellScopedStmt] at h; simp only [contScopedStmt]
    exact wellScoped_contScoped body _ h
  | .loopC label cond body => by
    intro ctx h; simp only [wellScopedStmt, Bool.and_eq_true] at h
    simp only [contScopedStmt, Bool.and_eq_true]
    exact ⟨wellScoped_contScoped cond _ h.1, wellScoped_contScoped body _ h.2⟩
  | .ifS body => by
    intro ctx h; simp only [wellScopedStmt] at h; simp only [contScopedStmt]
    exact wellScoped_contScoped body _ h
  | .cont l => by
    intro ctx h; simp only [wellScopedStmt, beq_iff_eq] at h; simp [contScopedStmt, h]
theorem wellScoped_contScoped : (ss : Stmts) → ∀ ctx, wellScoped ss ctx = true → contScoped ss ctx = true
  | .nil => by intro ctx _; simp [contScoped]
  | .cons s rest => by
    intro ctx h
    simp only [wellScoped, Bool.and_eq_true] at h
    simp only [contScoped, Bool.and_eq_true]
    exact ⟨wellScopedStmt_contScoped s ctx h.1, wellScoped_contScoped rest ctx h.2⟩
end

/-- a deferred body all of whose jumps stay inside it -/
abbrev Closed (b : Stmts) : Prop := wellScoped b [] = true

theorem lookupLabel_push_ne (l : Nat) (label : Option Nat) (ctx : Ctx) (h : ¬ label = some l) :
    lookupLabel l (pushLabel label ctx) = lookupLabel l ctx := by
  cases label with
  | none => rfl
  | some lab =>
    have : ¬ lab = l := fun e => h (by rw [e])
    simp [pushLabel, lookupLabel, this]

theorem lookupLabel_push_eq (l : Nat) (ctx : Ctx) :
    lookupLabel l (pushLabel (some l) ctx) = some false := by
  simp [pushLabel, lookupLabel]

/-! ### the source semantics, unfolded -/

theorem execBlockS_eq (fuel : Nat) (body : Stmts) (st : St) :
    execBlockS fuel body st =
      ((execStmtsS fuel body [] st).1,
        runRegs (execStmtsS fuel body [] st).2.1 (execStmtsS fuel body [] st).2.2) := by
  rw [execBlockS]

@[simp] theorem runRegs_nil (st : St) : runRegs [] st = st := rfl

@[simp] theorem runRegs_cons (r : Reg) (rs : List Reg) (st : St) :
    runRegs (r :: rs) st = runRegs rs (r st) := rfl

theorem runRegs_append (a b : List Reg) (st : St) :
    runRegs (a ++ b) st = runRegs b (runRegs a st) := by
  simp [runRegs, List.foldl_append]

/-! ### `loopC`: the condition block and one iteration, named -/

/-- the condition block of a `loopC` in the structural semantics: a block activation whose
tail expression is a decision (drawn before the block's deferred bodies run). The decision is
reported as `false` when the block is left by a jump. -/
def condS (fuel : Nat) (cond : Stmts) (st : St) : Sig × Bool × St :=
  match execStmtsS fuel cond [] st with
  | (.normal, cregs, st0) => (.normal, st0.decide.1, runRegs cregs st0.decide.2)
  | (sig, cregs, st0) => (sig, false, runRegs cregs st0)

/-- one iteration of a `loopC`: `c` runs the condition block, `b` the body block -/
def loopCStep (label : Nat) (c : St → Sig × Bool × St) (b : St → Sig × St) : St → Option Sig × St :=
  fun st =>
    match c st with
    | (.normal, false, st1) => (some .normal, st1)
    | (.normal, true, st1) => loopNext label (b st1)
    | (sig, _, st1) => loopNext label (sig, st1)

theorem condS_sig (fuel : Nat) (cond : Stmts) (st : St) :
    (condS fuel cond st).1 = (execStmtsS fuel cond [] st).1 := by
  simp only [condS]
  rcases execStmtsS fuel cond [] st with ⟨sig, cregs, st0⟩
  cases sig <;> rfl

theorem iter_congr {f g : St → Option Sig × St} (h : ∀ st, f st = g st) (n : Nat) (st : St) :
    iter f n st = iter g n st := by
  have : f = g := funext h
  rw [this]

theorem execS_loopC (fuel label : Nat) (cond body : Stmts) (regs : List Reg) (st : St) :
    execS fuel (.loopC label cond body) regs st =
      ((iter (loopCStep label (condS fuel cond) (execBlockS fuel body)) fuel st).1, regs,
        (iter (loopCStep label (condS fuel cond) (execBlockS fuel body)) fuel st).2) := by
  rw [execS, iter_congr (g := loopCStep label (condS fuel cond) (execBlockS fuel body))]
  intro st0
  simp only [loopCStep, condS]
  rcases execStmtsS fuel cond [] st0 with ⟨sig, cregs, st1⟩
  cases sig with
  | normal =>
    simp only
    rcases st1.decide with ⟨d, st2⟩
    cases d
    · rfl
    · simp only
      rcases execBlockS fuel body (runRegs cregs st2) with ⟨sigB, st'⟩
      cases sigB <;> rfl
  | brk l => rfl
  | cont l => rfl

/-- what leaves a loop: `normal`, or a jump of an activation inside it that is not aimed at
the loop -/
theorem loopNext_some {label : Nat} {sig sig' : Sig} {st st' : St}
    (h : loopNext label (sig, st) = (some sig', st')) :
    sig' = .normal ∨ (sig' = sig ∧ ∀ l, (sig = .brk l ∨ sig = .cont l) → l ≠ label) := by
  cases sig with
  | normal => simp [loopNext] at h
  | brk l =>
    simp only [loopNext] at h
    split at h
    · simp only [Prod.mk.injEq, Option.some.injEq] at h; exact .inl h.1.symm
    · rename_i hne
      simp only [Prod.mk.injEq, Option.some.injEq] at h
      refine .inr ⟨h.1.symm, ?_⟩
      intro l' hl'
      rcases hl' with e | e
      · cases e; exact hne
      · cases e
  | cont l =>
    simp only [loopNext] at h
    split at h
    · simp at h
    · rename_i hne
      simp only [Prod.mk.injEq, Option.some.injEq] at h
      refine .inr ⟨h.1.symm, ?_⟩
      intro l' hl'
      rcases hl' with e | e
      · cases e
      · cases e; exact hne

theorem loopCStep_some {label : Nat} {c : St → Sig × Bool × St} {b : St → Sig × St} {st st' : St}
    {sig' : Sig} (h : loopCStep label c b st = (some sig', st')) :
    sig' = .normal ∨ ∃ sig, (sig = (c st).1 ∨ ∃ st1, sig = (b st1).1) ∧ sig' = sig ∧
      ∀ l, (sig = .brk l ∨ sig = .cont l) → l ≠ label := by
  simp only [loopCStep] at h
  rcases hc : c st with ⟨sigC, d, st1⟩
  rw [hc] at h
  cases sigC with
  | normal =>
    cases d with
    | false => simp only [Prod.mk.injEq, Option.some.injEq] at h; exact .inl h.1.symm
    | true =>
      simp only at h
      rcases hb : b st1 with ⟨sigB, stB⟩
      rw [hb] at h
      rcases loopNext_some h with h' | ⟨h1, h2⟩
      · exact .inl h'
      · exact .inr ⟨sigB, .inr ⟨st1, by rw [hb]⟩, h1, h2⟩
  | brk l =>
    simp only at h
    rcases loopNext_some h with h' | ⟨h1, h2⟩
    · exact .inl h'
    · exact .inr ⟨.brk l, .inl rfl, h1, h2⟩
  | cont l =>
    simp only at h
    rcases loopNext_some h with h' | ⟨h1, h2⟩
    · exact .inl h'
    · exact .inr ⟨.cont l, .inl rfl, h1, h2⟩

/-- a property of signals that holds of `normal` and of whatever a step leaves the loop with
holds of the loop's signal -/
theorem iter_sig_ind {P : Sig → Prop} (step : St → Option Sig × St) (h0 : P .normal)
    (hs : ∀ st sig st', step st = (some sig, st') → P sig) : ∀ n st, P (iter step n st).1
  | 0, st => by simpa [iter] using h0
  | n + 1, st => by
    simp only [iter]
    rcases h : step st with ⟨o, st'⟩
    cases o with
    | none => simpa using iter_sig_ind step h0 hs n st'
    | some sig => simpa using hs st sig st' h

/-- what a signal that escapes a statement well-scoped under `ctx` can be: a `brk` aimed at a
construct of the context, a `cont` aimed at a loop of the context -/
def Esc (ctx : Ctx) : Sig → Prop
  | .normal => True
  | .brk l => (lookupLabel l ctx).isSome = true
  | .cont l => lookupLabel l ctx = some true

theorem esc_leave_loop {label : Nat} {ctx : Ctx} {sig : Sig} (h : Esc ((label, true) :: ctx) sig)
    (hne : ∀ l, (sig = .brk l ∨ sig = .cont l) → l ≠ label) : Esc ctx sig := by
  cases sig with
  | normal => trivial
  | brk l =>
    have := hne l (.inl rfl)
    simp only [Esc, lookupLabel] at h ⊢
    rwa [if_neg (fun e => this e.symm)] at h
  | cont l =>
    have := hne l (.inr rfl)
    simp only [Esc, lookupLabel] at h ⊢
    rwa [if_neg (fun e => this e.symm)] at h

mutual
theorem esc_stmt (fuel : Nat) : (s : Stmt) → ∀ ctx regs st, wellScopedStmt s ctx = true →
    Esc ctx (execS fuel s regs st).1
  | .print c => by intro ctx regs st _; simp [execS, Esc]
  | .defer b => by intro ctx regs st _; simp [execS, Esc]
  | .brk l => by intro ctx regs st h; simpa [execS, Esc, wellScopedStmt] using h
  | .cont l => by intro ctx regs st h; simpa [execS, Esc, wellScopedStmt] using h
  | .tryS l => by
    intro ctx regs st h
    simp only [execS]
    rcases hd : st.decide with ⟨b, st1⟩
    cases b
    · simp [Esc]
    · simpa [Esc, wellScopedStmt] using h
  | .block label body => by
    intro ctx regs st h
    simp only [wellScopedStmt] at h
    have ih := esc_stmts fuel body (pushLabel label ctx) [] st h
    simp only [execS, execBlockS_eq]
    rcases hb : execStmtsS fuel body [] st with ⟨sigB, regsB, stB⟩
    rw [hb] at ih
    cases sigB with
    | normal => simp [Esc]
    | brk l =>
      simp only
      by_cases hl : label = some l
      · simp [hl, Esc]
      · simp only [hl, if_false]
        simp only [Esc] at ih ⊢
        rwa [lookupLabel_push_ne l label ctx hl] at ih
    | cont l =>
      simp only [Esc] at ih ⊢
      by_cases hl : label = some l
      · subst hl; rw [lookupLabel_push_eq] at ih; simp at ih
      · rwa [lookupLabel_push_ne l label ctx hl] at ih
  | .ifS body => by
    intro ctx regs st h
    simp only [wellScopedStmt] at h
    simp only [execS, execBlockS_eq]
    rcases hd : st.decide with ⟨b, st1⟩
    cases b with
    | false => simp [Esc]
    | true => exact esc_stmts fuel body ctx [] st1 h
  | .loop label body => by
    intro ctx regs st h
    simp only [wellScopedStmt] at h
    simp only [execS]
    apply iter_sig_ind (P := Esc ctx)
    · simp [Esc]
    · intro st0 sig st0' hstep
      rcases hd : st0.decide with ⟨b, st1⟩
      rw [hd] at hstep
      cases b with
      | false =>
        simp only [Prod.mk.injEq, Option.some.injEq] at hstep
        rw [← hstep.1]; simp [Esc]
      | true =>
        simp only [execBlockS_eq] at hstep
        have ih := esc_stmts fuel body ((label, true) :: ctx) [] st1 h
        rcases hb : execStmtsS fuel body [] st1 with ⟨sigB, regsB, stB⟩
        rw [hb] at hstep ih
        cases sigB with
        | normal => simp at hstep
        | brk l2 =>
          simp only at hstep
          split at hstep
          · simp only [Prod.mk.injEq, Option.some.injEq] at hstep
            rw [← hstep.1]; simp [Esc]
          · rename_i hne
            simp only [Prod.mk.injEq, Option.some.injEq] at hstep
            rw [← hstep.1]
            simp only [Esc, lookupLabel] at ih ⊢
            rwa [if_neg (fun e => hne e.symm)] at ih
        | cont l2 =>
          simp only at hstep
          split at hstep
          · simp at hstep
          · rename_i hne
            simp only [Prod.mk.injEq, Option.some.injEq] at hstep
            rw [← hstep.1]
            simp only [Esc, lookupLabel] at ih ⊢
            rwa [if_neg (fun e => hne e.symm)] at ih
  | .loopC label cond body => by
    intro ctx regs st h
    simp only [wellScopedStmt, Bool.and_eq_true] at h
    simp only [execS_loopC]
    apply iter_sig_ind (P := Esc ctx)
    · simp [Esc]
    · intro st0 sig st0' hstep
      rcases loopCStep_some hstep with rfl | ⟨sig0, hsrc, rfl, hne⟩
      · simp [Esc]
      · have hin : Esc ((label, true) :: ctx) sig := by
          rcases hsrc with e | ⟨st1, e⟩
          · rw [e, condS_sig]; exact esc_stmts fuel cond _ [] st0 h.1
          · rw [e, execBlockS_eq]; exact esc_stmts fuel body _ [] st1 h.2
        exact esc_leave_loop hin hne
theorem esc_stmts (fuel : Nat) : (ss : Stmts) → ∀ ctx regs st, wellScoped ss ctx = true →
    Esc ctx (execStmtsS fuel ss regs st).1
  | .nil => by intro ctx regs st _; simp [execStmtsS, Esc]
  | .cons s rest => by
    intro ctx regs st hw
    simp only [wellScoped, Bool.and_eq_true] at hw
    simp only [execStmtsS]
    have ih1 := esc_stmt fuel s ctx regs st hw.1
    rcases hs : execS fuel s regs st with ⟨sig1, regs1, st1⟩
    rw [hs] at ih1
    cases sig1 with
    | normal => exact esc_stmts fuel rest ctx regs1 st1 hw.2
    | brk l2 => exact ih1
    | cont l2 => exact ih1
end

/-- no signal escapes a closed body -/
theorem closed_normal (fuel : Nat) (b : Stmts) (hb : Closed b) (regs : List Reg) (st : St) :
    (execStmtsS fuel b regs st).1 = .normal := by
  have h := esc_stmts fuel b [] regs st hb
  rcases hs : (execStmtsS fuel b regs st).1 with _ | l | l
  · rfl
  · rw [hs] at h; simp [Esc, lookupLabel] at h
  · rw [hs] at h; simp [Esc, lookupLabel] at h

theorem closed_block_normal (fuel : Nat) (b : Stmts) (hb : Closed b) (st : St) :
    (execBlockS fuel b st).1 = .normal := by
  rw [execBlockS_eq]; exact closed_normal fuel b hb [] st

mutual
/-- a `cont l` that escapes a `contScoped` statement is not aimed at a plain block of the
context -/
theorem cont_escape_stmt (fuel : Nat) : (s : Stmt) → ∀ ctx regs st l, contScopedStmt s ctx = true →
    (execS fuel s regs st).1 = .cont l → lookupLabel l ctx ≠ some false
  | .print c => by intro ctx regs st l _ h; simp [execS] at h
  | .defer c => by intro ctx regs st l _ h; simp [execS] at h
  | .brk l' => by intro ctx regs st l _ h; simp [execS] at h
  | .tryS l' => by
    intro ctx regs st l _ h
    simp only [execS] at h
    rcases hd : st.decide with ⟨b, st1⟩
    rw [hd] at h
    cases b <;> simp at h
  | .cont l' => by
    intro ctx regs st l hw h
    simp only [execS, Sig.cont.injEq] at h
    subst h
    simpa [contScopedStmt] using hw
  | .block label body => by
    intro ctx regs st l hw h
    simp only [contScopedStmt] at hw
    have ih := cont_escape_stmts fuel body (pushLabel label ctx) [] st l hw
    simp only [execS, execBlockS_eq] at h
    rcases hb : execStmtsS fuel body [] st with ⟨sigB, regsB, stB⟩
    rw [hb] at h ih
    cases sigB with
    | normal => simp at h
    | brk l2 =>
      simp only at h
      split at h <;> simp at h
    | cont l2 =>
      simp only [Sig.cont.injEq] at h
      subst h
      have ih := ih rfl
      cases label with
      | none => simpa [pushLabel] using ih
      | some lab =>
        simp only [pushLabel, lookupLabel] at ih
        split at ih
        · simp at ih
        · exact ih
  | .ifS body => by
    intro ctx regs st l hw h
    simp only [contScopedStmt] at hw
    simp only [execS, execBlockS_eq] at h
    rcases hd : st.decide with ⟨b, st1⟩
    rw [hd] at h
    cases b with
    | false => simp at h
    | true => exact cont_escape_stmts fuel body ctx [] st1 l hw h
  | .loop label body => by
    intro ctx regs st l hw h
    simp only [contScopedStmt] at hw
    simp only [execS] at h
    revert h
    apply iter_sig_ind (P := fun sig => sig = .cont l → lookupLabel l ctx ≠ some false)
    · intro h; simp at h
    · intro st0 sig st0' hstep hsig
      subst hsig
      rcases hd : st0.decide with ⟨b, st1⟩
      rw [hd] at hstep
      cases b with
      | false => simp at hstep
      | true =>
        simp only [execBlockS_eq] at hstep
        have ih := cont_escape_stmts fuel body ((label, true) :: ctx) [] st1 l hw
        rcases hb : execStmtsS fuel body [] st1 with ⟨sigB, regsB, stB⟩
        rw [hb] at hstep ih
        cases sigB with
        | normal => simp at hstep
        | brk l2 =>
          simp only at hstep
          split at hstep <;> simp at hstep
        | cont l2 =>
          simp only at hstep
          split at hstep
          · simp at hstep
          · rename_i hne
            simp only [Prod.mk.injEq, Option.some.injEq, Sig.cont.injEq] at hstep
            have ih := ih (by simp [hstep.1])
            simp only [lookupLabel] at ih
            rw [if_neg (by rw [← hstep.1]; exact fun e => hne e.symm)] at ih
            exact ih
  | .loopC label cond body => by
    intro ctx regs st l hw h
    simp only [contScopedStmt, Bool.and_eq_true] at hw
    simp only [execS_loopC] at h
    revert h
    apply iter_sig_ind (P := fun sig => sig = .cont l → lookupLabel l ctx ≠ some false)
    · intro h; simp at h
    · intro st0 sig st0' hstep hsig
      subst hsig
      rcases loopCStep_some hstep with h' | ⟨sig0, hsrc, rfl, hne⟩
      · simp at h'
      · have hl := hne l (.inr rfl)
        have hin : lookupLabel l ((label, true) :: ctx) ≠ some false := by
          rcases hsrc with e | ⟨st1, e⟩
          · rw [condS_sig] at e; exact cont_escape_stmts fuel cond _ [] st0 l hw.1 e.symm
          · rw [execBlockS_eq] at e; exact cont_escape_stmts fuel body _ [] st1 l hw.2 e.symm
        simp only [lookupLabel] at hin
        rwa [if_neg (fun e => hl e.symm)] at hin
theorem cont_escape_stmts (fuel : Nat) : (ss : Stmts) → ∀ ctx regs st l, contScoped ss ctx = true →
    (execStmtsS fuel ss regs st).1 = .cont l → lookupLabel l ctx ≠ some false
  | .nil => by intro ctx regs st l _ h; simp [execStmtsS] at h
  | .cons s rest => by
    intro ctx regs st l hw h
    simp only [contScoped, Bool.and_eq_true] at hw
    simp only [execStmtsS] at h
    have ih1 := cont_escape_stmt fuel s ctx regs st l hw.1
    rcases hs : execS fuel s regs st with ⟨sig1, regs1, st1⟩
    rw [hs] at h ih1
    cases sig1 with
    | normal => exact cont_escape_stmts fuel rest ctx regs1 st1 l hw.2 h
    | brk l2 => simp at h
    | cont l2 => exact ih1 h
end

/-! ### the target semantics, unfolded -/

theorem execTs_append (fuel : Nat) : (a b : Ts) → ∀ st,
    execTs fuel (Ts.append a b) st =
      match execTs fuel a st with
      | (.normal, st') => execTs fuel b st'
      | (sig, st') => (sig, st')
  | .nil, b => by intro st; simp [Ts.append, execTs]
  | .cons t r, b => by
    intro st
    simp only [Ts.append, execTs]
    rcases h : execT fuel t st with ⟨sig, st1⟩
    cases sig with
    | normal => simpa using execTs_append fuel r b st1
    | brk l => simp
    | cont l => simp

theorem execTs_single (fuel : Nat) (t : T) (st : St) :
    execTs fuel (.cons t .nil) st = execT fuel t st := by
  simp only [execTs]
  rcases h : execT fuel t st with ⟨sig, st1⟩
  cases sig <;> simp

/-- body code, then — only when the body ran to its end — the exit code -/
def blockT (fuel : Nat) (tb ex : Ts) (st : St) : Sig × St :=
  match execTs fuel tb st with
  | (.normal, st') => execTs fuel ex st'
  | r => r

theorem execT_block (fuel : Nat) (label : Option Nat) (tb ex : Ts) (st : St) :
    execT fuel (.block label tb ex) st = catchBrk label (blockT fuel tb ex st) := by
  rw [execT, blockT]
  rcases execTs fuel tb st with ⟨sig, st'⟩
  cases sig <;> rfl

theorem execT_ifT (fuel : Nat) (tb ex : Ts) (st : St) :
    execT fuel (.ifT tb ex) st =
      match st.decide with
      | (false, st1) => (.normal, st1)
      | (true, st1) => blockT fuel tb ex st1 := by
  rw [execT]
  rcases st.decide with ⟨b, st1⟩
  cases b
  · rfl
  · simp only [blockT]
    rcases execTs fuel tb st1 with ⟨sig, st'⟩
    cases sig <;> rfl

@[simp] theorem catchBrk_normal (label : Option Nat) (st : St) :
    catchBrk label (.normal, st) = (.normal, st) := rfl
@[simp] theorem catchBrk_cont (label : Option Nat) (l : Nat) (st : St) :
    catchBrk label (.cont l, st) = (.cont l, st) := rfl
@[simp] theorem catchBrk_brk (label : Option Nat) (l : Nat) (st : St) :
    catchBrk label (.brk l, st) = if label = some l then (.normal, st) else (.brk l, st) := rfl

/-! ### what the compiled deferred bodies do -/

/-- every deferred body registered on the stack is closed -/
def FramesClosed (fr : List Frame) : Prop := ∀ f ∈ fr, ∀ b ∈ f.2, Closed b

theorem FramesClosed.tail {f : Frame} {fr : List Frame} (h : FramesClosed (f :: fr)) : FramesClosed fr :=
  fun g hg => h g (List.mem_cons_of_mem _ hg)

theorem FramesClosed.head {id : Option Nat} {ds : List Stmts} {fr : List Frame}
    (h : FramesClosed ((id, ds) :: fr)) : ∀ b ∈ ds, Closed b :=
  fun b hb => h (id, ds) (List.mem_cons_self ..) b hb

theorem FramesClosed.cons {id : Option Nat} {ds : List Stmts} {fr : List Frame}
    (hd : ∀ b ∈ ds, Closed b) (h : FramesClosed fr) : FramesClosed ((id, ds) :: fr) := by
  intro f hf b hb
  rcases List.mem_cons.1 hf with rfl | hf
  · exact hd b hb
  · exact h f hf b hb

/-- `emit` compiles a closed deferred body, under any stack of closed bodies, to code that does
what running the body as a block activation does (`runner`) and completes normally -/
def EmitOK (fuel : Nat) (emit : Emit) : Prop :=
  ∀ b fr tb, Closed b → FramesClosed fr → emit b fr = some tb →
    ∀ st, execTs fuel tb st = (.normal, runner fuel b st)

/-- the run-time view of a frame: its registered actions -/
abbrev RFrame := Option Nat × List Reg

def toR (fuel : Nat) (f : Frame) : RFrame := (f.1, f.2.map (runner fuel))

/-- what the structural semantics does while a jump to `l` travels outwards through the
activations `rfr` (innermost first): each activation that is left runs its registrations,
down to and including the one labelled `l` -/
def unwindS (l : Nat) : List RFrame → St → St
  | [], st => st
  | (id, rs) :: rest, st => if id = some l then runRegs rs st else unwindS l rest (runRegs rs st)

theorem emitDefers_ok (fuel : Nat) (emit : Emit) (hE : EmitOK fuel emit) (fr : List Frame)
    (hF : FramesClosed fr) : ∀ (ds : List Stmts) (t : Ts) (st : St), (∀ b ∈ ds, Closed b) →
    emitDefers emit ds fr = some t →
    execTs fuel t st = (.normal, runRegs (ds.map (runner fuel)) st)
  | [], t, st => by
    intro _ h
    simp only [emitDefers, Option.some.injEq] at h
    subst h
    simp [execTs]
  | b :: ds, t, st => by
    intro hc h
    simp only [emitDefers] at h
    rcases hb : emit b fr with _ | tb
    · rw [hb] at h; simp at h
    rw [hb] at h
    rcases hr : emitDefers emit ds fr with _ | r
    · rw [hr] at h; simp at h
    rw [hr] at h
    simp only [Option.some.injEq] at h
    subst h
    rw [execTs_append, hE b fr tb (hc b (List.mem_cons_self ..)) hF hb st]
    simp only [List.map_cons, runRegs_cons]
    exact emitDefers_ok fuel emit hE fr hF ds r _ (fun b' hb' => hc b' (List.mem_cons_of_mem _ hb')) hr

theorem defersUpTo_ok (fuel : Nat) (emit : Emit) (hE : EmitOK fuel emit) (l : Nat) :
    ∀ (fr : List Frame) (t : Ts) (st : St), FramesClosed fr → defersUpTo emit l fr = some t →
    execTs fuel t st = (.normal, unwindS l (fr.map (toR fuel)) st)
  | [], t, st => by
    intro _ h
    simp only [defersUpTo, Option.some.injEq] at h
    subst h
    simp [execTs, unwindS]
  | (id, ds) :: rest, t, st => by
    intro hF h
    simp only [defersUpTo] at h
    rcases hd : emitDefers emit ds ((id, ds) :: rest) with _ | td
    · rw [hd] at h; simp at h
    rw [hd] at h
    simp only at h
    have e1 := emitDefers_ok fuel emit hE _ hF ds td st hF.head hd
    simp only [List.map_cons, toR, unwindS]
    by_cases hid : id = some l
    · simp only [hid, if_true, Option.some.injEq] at h ⊢
      subst h; exact e1
    · simp only [hid, if_false] at h ⊢
      rcases hr : defersUpTo emit l rest with _ | r
      · rw [hr] at h; simp at h
      rw [hr] at h
      simp only [Option.some.injEq] at h
      subst h
      rw [execTs_append, e1]
      exact defersUpTo_ok fuel emit hE l rest r _ hF.tail hr

/-! ### the debt invariant -/

/-- Source and target were started in the same state and the source produced signal `sig` in
state `s`. `normal`: the target is in the same state. A jump to `l`: the target has already
run, at the jump, the deferred bodies of every activation of `rfr` down to `l`'s — those the
source will run while the signal travels outwards. -/
def Debt (rfr : List RFrame) : Sig → St → St → Prop
  | .normal, s, t => t = s
  | .brk l, s, t => t = unwindS l rfr s
  | .cont l, s, t => t = unwindS l rfr s

/-- the result of a source statement (list) run with registrations growing to `rS.2.1` in the
top activation `id`, against the result of its code -/
def SimRes (id : Option Nat) (restR : List RFrame) (rS : Sig × List Reg × St) (rT : Sig × St) : Prop :=
  rT.1 = rS.1 ∧ Debt ((id, rS.2.1) :: restR) rS.1 rS.2.2 rT.2

def StepDebt (rfr : List RFrame) : Option Sig → St → St → Prop
  | none, s, t => t = s
  | some sig, s, t => Debt rfr sig s t

theorem iter_sim (rfr : List RFrame) (stepS stepT : St → Option Sig × St)
    (h : ∀ st, (stepT st).1 = (stepS st).1 ∧ StepDebt rfr (stepS st).1 (stepS st).2 (stepT st).2) :
    ∀ n st, (iter stepT n st).1 = (iter stepS n st).1 ∧
      Debt rfr (iter stepS n st).1 (iter stepS n st).2 (iter stepT n st).2
  | 0, st => by simp [iter, Debt]
  | n + 1, st => by
    have hst := h st
    simp only [iter]
    rcases hS : stepS st with ⟨oS, sS⟩
    rcases hT : stepT st with ⟨oT, sT⟩
    rw [hS, hT] at hst
    obtain ⟨h1, h2⟩ := hst
    simp only at h1 h2
    subst h1
    cases oT with
    | none =>
      simp only [StepDebt] at h2
      subst h2
      exact iter_sim rfr stepS stepT h n sT
    | some sig => exact ⟨rfl, h2⟩

theorem closeBlock_fst {emit : Emit} {tb0 : Ts} {frb : List Frame} {stopb : Bool} {tb ex : Ts}
    (h : closeBlock emit (some (tb0, frb, stopb)) = some (tb, ex)) : tb0 = tb := by
  cases frb with
  | nil => simp [closeBlock] at h
  | cons f below =>
    obtain ⟨id, ds⟩ := f
    simp only [closeBlock] at h
    split at h
    · simp only [Option.some.injEq, Prod.mk.injEq] at h; exact h.1
    · split at h
      · simp at h
      · simp only [Option.some.injEq, Prod.mk.injEq] at h; exact h.1

/-- One block activation against its code, given the simulation of the body's statement list
(`ih`): same signal; after a jump the code has additionally run what the activations below
will run. Used for blocks, `if` bodies, loop bodies, deferred bodies and the function body. -/
theorem body_sim (fuel : Nat) (emit : Emit) (hE : EmitOK fuel emit) (body : Stmts)
    (label : Option Nat) (below : List Frame) (tb ex : Ts) (st : St) (hF : FramesClosed below)
    (hcl : closeBlock emit (compileStmts emit body ((label, []) :: below)) = some (tb, ex))
    (ih : ∀ tb frb stopb, compileStmts emit body ((label, []) :: below) = some (tb, frb, stopb) →
      SimRes label (below.map (toR fuel)) (execStmtsS fuel body [] st) (execTs fuel tb st) ∧
      ((execStmtsS fuel body [] st).1 = .normal → ∃ ds', frb = (label, ds') :: below ∧
        (execStmtsS fuel body [] st).2.1 = ds'.map (runner fuel) ∧ (∀ b ∈ ds', Closed b) ∧
        stopb = false)) :
    (blockT fuel tb ex st).1 = (execBlockS fuel body st).1 ∧
      Debt ((label, []) :: below.map (toR fuel)) (execBlockS fuel body st).1
        (execBlockS fuel body st).2 (blockT fuel tb ex st).2 := by
  rcases hcb : compileStmts emit body ((label, []) :: below) with _ | ⟨tb0, frb, stopb⟩
  · rw [hcb] at hcl; simp [closeBlock] at hcl
  rw [hcb] at hcl
  obtain ⟨⟨h1, h2⟩, h3⟩ := ih tb0 frb stopb hcb
  have htb : tb0 = tb := closeBlock_fst hcl
  subst htb
  simp only [blockT, execBlockS_eq]
  rcases hb : execStmtsS fuel body [] st with ⟨sigB, regsB, stB⟩
  rcases hT : execTs fuel tb0 st with ⟨sigT, stT⟩
  rw [hb, hT] at h1 h2
  rw [hb] at h3
  simp only at h1 h2 h3
  subst h1
  cases sigT with
  | normal =>
    obtain ⟨ds', rfl, hregs, hcl', rfl⟩ := h3 rfl
    simp only [Debt] at h2
    subst h2
    simp only [closeBlock, Bool.false_eq_true, if_false] at hcl
    rcases he : emitDefers emit ds' below with _ | ex0
    · rw [he] at hcl; simp at hcl
    rw [he] at hcl
    simp only [Option.some.injEq, Prod.mk.injEq, true_and] at hcl
    subst hcl
    simp only
    rw [emitDefers_ok fuel emit hE below hF ds' ex0 stT hcl' he, hregs]
    simp [Debt]
  | brk l =>
    simp only [Debt, unwindS] at h2 ⊢
    simp [h2]
  | cont l =>
    simp only [Debt, unwindS] at h2 ⊢
    simp [h2]

/-! ### loops -/

/-- one loop iteration of the source semantics (condition, body block) -/
def loopStepS (fuel label : Nat) (body : Stmts) : St → Option Sig × St := fun st =>
  match st.decide with
  | (false, st1) => (some .normal, st1)
  | (true, st1) => loopNext label (execBlockS fuel body st1)

/-- one loop iteration of the generated code -/
def loopStepT (fuel label : Nat) (tb ex : Ts) : St → Option Sig × St := fun st =>
  match st.decide with
  | (false, st1) => (some .normal, st1)
  | (true, st1) => loopNext label (blockT fuel tb ex st1)

theorem execS_loop (fuel label : Nat) (body : Stmts) (regs : List Reg) (st : St) :
    execS fuel (.loop label body) regs st =
      ((iter (loopStepS fuel label body) fuel st).1, regs, (iter (loopStepS fuel label body) fuel st).2) := by
  rw [execS, iter_congr (g := loopStepS fuel label body)]
  intro st0
  simp only [loopStepS]
  rcases st0.decide with ⟨b, st1⟩
  cases b
  · rfl
  · simp only
    rcases execBlockS fuel body st1 with ⟨sig, st'⟩
    cases sig <;> rfl

theorem execT_loop (fuel label : Nat) (tb ex : Ts) (st : St) :
    execT fuel (.loop label tb ex) st = iter (loopStepT fuel label tb ex) fuel st := by
  rw [execT, iter_congr (g := loopStepT fuel label tb ex)]
  intro st0
  simp only [loopStepT, blockT]
  rcases st0.decide with ⟨b, st1⟩
  cases b
  · rfl
  · simp only
    rcases execTs fuel tb st1 with ⟨sig, st'⟩
    cases sig <;> rfl

/-- the step relation of a loop, from the simulation of its body block -/
theorem loop_step_sim (fuel label : Nat) (body : Stmts) (tb ex : Ts) (rfr : List RFrame)
    (hbody : ∀ st, (blockT fuel tb ex st).1 = (execBlockS fuel body st).1 ∧
      Debt ((none, []) :: (some label, []) :: rfr) (execBlockS fuel body st).1
        (execBlockS fuel body st).2 (blockT fuel tb ex st).2) :
    ∀ st, (loopStepT fuel label tb ex st).1 = (loopStepS fuel label body st).1 ∧
      StepDebt rfr (loopStepS fuel label body st).1 (loopStepS fuel label body st).2
        (loopStepT fuel label tb ex st).2 := by
  intro st
  simp only [loopStepS, loopStepT]
  rcases hd : st.decide with ⟨b, st1⟩
  cases b with
  | false => simp [StepDebt, Debt]
  | true =>
    have ih := hbody st1
    simp only
    rcases hb : execBlockS fuel body st1 with ⟨sigB, stB⟩
    rcases hT : blockT fuel tb ex st1 with ⟨sigT, stT⟩
    rw [hb, hT] at ih
    obtain ⟨h1, h2⟩ := ih
    simp only at h1 h2
    subst h1
    cases sigT with
    | normal =>
      simp only [Debt] at h2; subst h2
      simp [StepDebt, loopNext]
    | brk l =>
      simp only [Debt, unwindS, runRegs_nil] at h2
      by_cases hl : l = label
      · subst hl; simp at h2; subst h2; simp [StepDebt, Debt, loopNext]
      · have hl' : ¬ label = l := fun e => hl e.symm
        simp [hl'] at h2; subst h2; simp [StepDebt, Debt, loopNext, hl]
    | cont l =>
      simp only [Debt, unwindS, runRegs_nil] at h2
      by_cases hl : l = label
      · subst hl; simp at h2; subst h2; simp [StepDebt, loopNext]
      · have hl' : ¬ label = l := fun e => hl e.symm
        simp [hl'] at h2; subst h2; simp [StepDebt, Debt, loopNext, hl]

/-! ### loops whose condition is a block -/

/-- the condition block of a `loopC` in the generated code: the condition's statements, the
decision, then the exit block (the condition block's defers) -/
def condT (fuel : Nat) (tc exc : Ts) (st : St) : Sig × Bool × St :=
  match execTs fuel tc st with
  | (.normal, st0) =>
    ((execTs fuel exc st0.decide.2).1, st0.decide.1, (execTs fuel exc st0.decide.2).2)
  | (sig, st0) => (sig, false, st0)

theorem execT_loopC (fuel label : Nat) (tc exc tb ex : Ts) (st : St) :
    execT fuel (.loopC label tc exc tb ex) st =
      iter (loopCStep label (condT fuel tc exc) (blockT fuel tb ex)) fuel st := by
  rw [execT, iter_congr (g := loopCStep label (condT fuel tc exc) (blockT fuel tb ex))]
  intro st0
  simp only [loopCStep, condT, blockT]
  rcases execTs fuel tc st0 with ⟨sig, st1⟩
  cases sig with
  | normal =>
    simp only
    rcases st1.decide with ⟨d, st2⟩
    simp only
    rcases execTs fuel exc st2 with ⟨sigE, st3⟩
    cases sigE with
    | normal =>
      cases d
      · rfl
      · simp only [if_true]
        rcases execTs fuel tb st3 with ⟨sigB, st'⟩
        cases sigB <;> rfl
    | brk l => cases d <;> rfl
    | cont l => cases d <;> rfl
  | brk l => rfl
  | cont l => rfl

/-- The condition block of a `loopC` against its code, given the simulation of its statement
list: same signal, same decision; after a jump the code has additionally run what the
activations below will run. -/
theorem cond_sim (fuel : Nat) (emit : Emit) (hE : EmitOK fuel emit) (cond : Stmts)
    (label : Option Nat) (below : List Frame) (tc exc : Ts) (st : St) (hF : FramesClosed below)
    (hcl : closeBlock emit (compileStmts emit cond ((label, []) :: below)) = some (tc, exc))
    (ih : ∀ tb frb stopb, compileStmts emit cond ((label, []) :: below) = some (tb, frb, stopb) →
      SimRes label (below.map (toR fuel)) (execStmtsS fuel cond [] st) (execTs fuel tb st) ∧
      ((execStmtsS fuel cond [] st).1 = .normal → ∃ ds', frb = (label, ds') :: below ∧
        (execStmtsS fuel cond [] st).2.1 = ds'.map (runner fuel) ∧ (∀ b ∈ ds', Closed b) ∧
        stopb = false)) :
    (condT fuel tc exc st).1 = (condS fuel cond st).1 ∧
      (condT fuel tc exc st).2.1 = (condS fuel cond st).2.1 ∧
      Debt ((label, []) :: below.map (toR fuel)) (condS fuel cond st).1
        (condS fuel cond st).2.2 (condT fuel tc exc st).2.2 := by
  rcases hcb : compileStmts emit cond ((label, []) :: below) with _ | ⟨tb0, frb, stopb⟩
  · rw [hcb] at hcl; simp [closeBlock] at hcl
  rw [hcb] at hcl
  obtain ⟨⟨h1, h2⟩, h3⟩ := ih tb0 frb stopb hcb
  have htb : tb0 = tc := closeBlock_fst hcl
  subst htb
  simp only [condT, condS]
  rcases hb : execStmtsS fuel cond [] st with ⟨sigB, regsB, stB⟩
  rcases hT : execTs fuel tb0 st with ⟨sigT, stT⟩
  rw [hb, hT] at h1 h2
  rw [hb] at h3
  simp only at h1 h2 h3
  subst h1
  cases sigT with
  | normal =>
    obtain ⟨ds', rfl, hregs, hcl', rfl⟩ := h3 rfl
    simp only [Debt] at h2
    subst h2
    simp only [closeBlock, Bool.false_eq_true, if_false] at hcl
    rcases he : emitDefers emit ds' below with _ | ex0
    · rw [he] at hcl; simp at hcl
    rw [he] at hcl
    simp only [Option.some.injEq, Prod.mk.injEq, true_and] at hcl
    subst hcl
    simp only
    rw [emitDefers_ok fuel emit hE below hF ds' ex0 _ hcl' he, hregs]
    simp [Debt]
  | brk l =>
    simp only [Debt, unwindS] at h2 ⊢
    simp [h2]
  | cont l =>
    simp only [Debt, unwindS] at h2 ⊢
    simp [h2]

/-- what a loop does with a signal that arrives from an activation directly inside it
(condition block or body block), source against code -/
theorem loopNext_sim (label : Nat) (rfr : List RFrame) (sig : Sig) (s t : St)
    (h : Debt ((none, []) :: (some label, []) :: rfr) sig s t) :
    (loopNext label (sig, t)).1 = (loopNext label (sig, s)).1 ∧
      StepDebt rfr (loopNext label (sig, s)).1 (loopNext label (sig, s)).2 (loopNext label (sig, t)).2 := by
  cases sig with
  | normal =>
    simp only [Debt] at h; subst h
    simp [StepDebt, loopNext]
  | brk l =>
    simp only [Debt, unwindS, runRegs_nil] at h
    by_cases hl : l = label
    · subst hl; simp at h; subst h; simp [StepDebt, Debt, loopNext]
    · have hl' : ¬ label = l := fun e => hl e.symm
      simp [hl'] at h; subst h; simp [StepDebt, Debt, loopNext, hl]
  | cont l =>
    simp only [Debt, unwindS, runRegs_nil] at h
    by_cases hl : l = label
    · subst hl; simp at h; subst h; simp [StepDebt, loopNext]
    · have hl' : ¬ label = l := fun e => hl e.symm
      simp [hl'] at h; subst h; simp [StepDebt, Debt, loopNext, hl]

/-- the step relation of a `loopC`, from the simulations of its condition block and body block -/
theorem loopC_step_sim (label : Nat) (cS cT : St → Sig × Bool × St) (bS bT : St → Sig × St)
    (rfr : List RFrame)
    (hc : ∀ st, (cT st).1 = (cS st).1 ∧ (cT st).2.1 = (cS st).2.1 ∧
      Debt ((none, []) :: (some label, []) :: rfr) (cS st).1 (cS st).2.2 (cT st).2.2)
    (hb : ∀ st, (bT st).1 = (bS st).1 ∧
      Debt ((none, []) :: (some label, []) :: rfr) (bS st).1 (bS st).2 (bT st).2) :
    ∀ st, (loopCStep label cT bT st).1 = (loopCStep label cS bS st).1 ∧
      StepDebt rfr (loopCStep label cS bS st).1 (loopCStep label cS bS st).2
        (loopCStep label cT bT st).2 := by
  intro st
  simp only [loopCStep]
  have hcs := hc st
  rcases hS : cS st with ⟨sigS, dS, sS⟩
  rcases hT : cT st with ⟨sigT, dT, sT⟩
  rw [hS, hT] at hcs
  obtain ⟨h1, h2, h3⟩ := hcs
  simp only at h1 h2 h3
  subst h1 h2
  cases sigT with
  | normal =>
    simp only [Debt] at h3; subst h3
    cases dT with
    | false => simp [StepDebt, Debt]
    | true =>
      simp only
      have hbs := hb sT
      rcases hbS : bS sT with ⟨sigB, sB⟩
      rcases hbT : bT sT with ⟨sigB', sB'⟩
      rw [hbS, hbT] at hbs
      obtain ⟨e1, e2⟩ := hbs
      simp only at e1 e2
      subst e1
      exact loopNext_sim label rfr sigB' sB sB' e2
  | brk l => exact loopNext_sim label rfr (.brk l) sS sT h3
  | cont l => exact loopNext_sim label rfr (.cont l) sS sT h3

/-! ### the simulation -/

theorem map_toR_cons (fuel : Nat) (id : Option Nat) (ds : List Stmts) (rest : List Frame) :
    ((id, ds) :: rest).map (toR fuel) = (id, ds.map (runner fuel)) :: rest.map (toR fuel) := rfl

theorem toR_mk (fuel : Nat) (id : Option Nat) (ds : List Stmts) :
    toR fuel (id, ds) = (id, ds.map (runner fuel)) := rfl

mutual
theorem sim_stmt (fuel : Nat) (emit : Emit) (hE : EmitOK fuel emit) : (s : Stmt) →
    ∀ ctx id ds rest ts fr' stop st,
    contScopedStmt s ctx = true → FramesClosed ((id, ds) :: rest) →
    compileStmt emit s ((id, ds) :: rest) = some (ts, fr', stop) →
    SimRes id (rest.map (toR fuel)) (execS fuel s (ds.map (runner fuel)) st) (execTs fuel ts st) ∧
      ((execS fuel s (ds.map (runner fuel)) st).1 = .normal →
        ∃ ds', fr' = (id, ds') :: rest ∧
          (execS fuel s (ds.map (runner fuel)) st).2.1 = ds'.map (runner fuel) ∧
          (∀ b ∈ ds', Closed b) ∧ stop = false)
  | .print c => by
    intro ctx id ds rest ts fr' stop st _ hF hc
    simp only [compileStmt, Option.some.injEq, Prod.mk.injEq] at hc
    obtain ⟨rfl, rfl, rfl⟩ := hc
    refine ⟨by simp [SimRes, Debt, execS, execTs_single, execT], fun _ => ⟨ds, rfl, ?_, hF.head, by trivial⟩⟩
    simp [execS]
  | .defer b => by
    intro ctx id ds rest ts fr' stop st hw hF hc
    simp only [compileStmt, registerDefer, Option.map_some, Option.some.injEq, Prod.mk.injEq] at hc
    obtain ⟨rfl, rfl, rfl⟩ := hc
    simp only [contScopedStmt] at hw
    refine ⟨by simp [SimRes, Debt, execS, execTs], fun _ => ⟨b :: ds, rfl, ?_, ?_, rfl⟩⟩
    · simp only [execS, List.map_cons]; rfl
    · intro b' hb'
      rcases List.mem_cons.1 hb' with rfl | hb'
      · exact hw
      · exact hF.head b' hb'
  | .brk l => by
    intro ctx id ds rest ts fr' stop st _ hF hc
    simp only [compileStmt] at hc
    rcases hd : defersUpTo emit l ((id, ds) :: rest) with _ | code
    · rw [hd] at hc; simp at hc
    rw [hd] at hc
    simp only [Option.map_some, Option.some.injEq, Prod.mk.injEq] at hc
    obtain ⟨rfl, rfl, rfl⟩ := hc
    have e := defersUpTo_ok fuel emit hE l _ code st hF hd
    refine ⟨?_, fun h => by simp [execS] at h⟩
    simp [SimRes, Debt, execS, execTs_single, execT, e, toR_mk]
  | .cont l => by
    intro ctx id ds rest ts fr' stop st _ hF hc
    simp only [compileStmt] at hc
    rcases hd : defersUpTo emit l ((id, ds) :: rest) with _ | code
    · rw [hd] at hc; simp at hc
    rw [hd] at hc
    simp only [Option.map_some, Option.some.injEq, Prod.mk.injEq] at hc
    obtain ⟨rfl, rfl, rfl⟩ := hc
    have e := defersUpTo_ok fuel emit hE l _ code st hF hd
    refine ⟨?_, fun h => by simp [execS] at h⟩
    simp [SimRes, Debt, execS, execTs_single, execT, e, toR_mk]
  | .tryS l => by
    intro ctx id ds rest ts fr' stop st _ hF hc
    simp only [compileStmt] at hc
    rcases hd : defersUpTo emit l ((id, ds) :: rest) with _ | code
    · rw [hd] at hc; simp at hc
    rw [hd] at hc
    simp only [Option.map_some, Option.some.injEq, Prod.mk.injEq] at hc
    obtain ⟨rfl, rfl, rfl⟩ := hc
    simp only [execS, execTs_single, execT]
    rcases hdec : st.decide with ⟨b, st1⟩
    cases b with
    | false => exact ⟨by simp [SimRes, Debt], fun _ => ⟨ds, rfl, rfl, hF.head, by trivial⟩⟩
    | true =>
      have e := defersUpTo_ok fuel emit hE l _ code st1 hF hd
      refine ⟨?_, fun h => by simp at h⟩
      simp [SimRes, Debt, e, toR_mk]
  | .block label body => by
    intro ctx id ds rest ts fr' stop st hw hF hc
    simp only [contScopedStmt] at hw
    simp only [compileStmt] at hc
    rcases hcl : closeBlock emit (compileStmts emit body ((label, []) :: (id, ds) :: rest)) with _ | ⟨tb, ex⟩
    · rw [hcl] at hc; simp at hc
    rw [hcl] at hc
    simp only [Option.some.injEq, Prod.mk.injEq] at hc
    obtain ⟨rfl, rfl, rfl⟩ := hc
    have hFb : FramesClosed ((label, []) :: (id, ds) :: rest) :=
      FramesClosed.cons (fun _ h => by simp at h) hF
    have key := body_sim fuel emit hE body label ((id, ds) :: rest) tb ex st hF hcl
      (fun tb' frb stopb hcb =>
        sim_stmts fuel emit hE body (pushLabel label ctx) label [] ((id, ds) :: rest) tb' frb stopb st hw hFb hcb)
    have hesc := cont_escape_stmts fuel body (pushLabel label ctx) [] st
    simp only [execTs_single, execT_block, execS]
    rcases hb : execBlockS fuel body st with ⟨sigB, stB⟩
    rcases hT : blockT fuel tb ex st with ⟨sigT, stT⟩
    rw [hb, hT] at key
    obtain ⟨h1, h2⟩ := key
    simp only at h1 h2
    subst h1
    cases sigT with
    | normal =>
      simp only [Debt] at h2; subst h2
      exact ⟨by simp [SimRes, Debt], fun _ => ⟨ds, rfl, rfl, hF.head, by trivial⟩⟩
    | brk l =>
      simp only [Debt, unwindS, runRegs_nil] at h2
      by_cases hl : label = some l
      · simp only [hl, if_true] at h2; subst h2
        simp only [hl, catchBrk_brk, if_true]
        exact ⟨by simp [SimRes, Debt], fun _ => ⟨ds, rfl, rfl, hF.head, by trivial⟩⟩
      · simp only [hl, if_false] at h2; subst h2
        simp only [hl, catchBrk_brk, if_false]
        exact ⟨by simp [SimRes, Debt, toR_mk], fun h => by simp at h⟩
    | cont l =>
      simp only [Debt, unwindS, runRegs_nil] at h2
      have hl : ¬ label = some l := by
        intro e; subst e
        have hs : (execStmtsS fuel body [] st).1 = .cont l := by
          have := congrArg Prod.fst hb
          rw [execBlockS_eq] at this
          exact this
        have := hesc l hw hs
        simp [pushLabel, lookupLabel] at this
      simp only [hl, if_false] at h2; subst h2
      exact ⟨by simp [SimRes, Debt, toR_mk], fun h => by simp at h⟩
  | .ifS body => by
    intro ctx id ds rest ts fr' stop st hw hF hc
    simp only [contScopedStmt] at hw
    simp only [compileStmt] at hc
    rcases hcl : closeBlock emit (compileStmts emit body ((none, []) :: (id, ds) :: rest)) with _ | ⟨tb, ex⟩
    · rw [hcl] at hc; simp at hc
    rw [hcl] at hc
    simp only [Option.some.injEq, Prod.mk.injEq] at hc
    obtain ⟨rfl, rfl, rfl⟩ := hc
    have hFb : FramesClosed ((none, []) :: (id, ds) :: rest) :=
      FramesClosed.cons (fun _ h => by simp at h) hF
    simp only [execTs_single, execT_ifT, execS]
    rcases hd : st.decide with ⟨b, st1⟩
    cases b with
    | false => exact ⟨by simp [SimRes, Debt], fun _ => ⟨ds, rfl, rfl, hF.head, by trivial⟩⟩
    | true =>
      have key := body_sim fuel emit hE body none ((id, ds) :: rest) tb ex st1 hF hcl
        (fun tb' frb stopb hcb =>
          sim_stmts fuel emit hE body ctx none [] ((id, ds) :: rest) tb' frb stopb st1 hw hFb hcb)
      simp only
      rcases hb : execBlockS fuel body st1 with ⟨sigB, stB⟩
      rcases hT : blockT fuel tb ex st1 with ⟨sigT, stT⟩
      rw [hb, hT] at key
      obtain ⟨h1, h2⟩ := key
      simp only at h1 h2
      subst h1
      cases sigT with
      | normal =>
        simp only [Debt] at h2; subst h2
        exact ⟨by simp [SimRes, Debt], fun _ => ⟨ds, rfl, rfl, hF.head, by trivial⟩⟩
      | brk l =>
        simp only [Debt, unwindS, runRegs_nil] at h2
        simp at h2; subst h2
        exact ⟨by simp [SimRes, Debt, toR_mk], fun h => by simp at h⟩
      | cont l =>
        simp only [Debt, unwindS, runRegs_nil] at h2
        simp at h2; subst h2
        exact ⟨by simp [SimRes, Debt, toR_mk], fun h => by simp at h⟩
  | .loop label body => by
    intro ctx id ds rest ts fr' stop st hw hF hc
    simp only [contScopedStmt] at hw
    simp only [compileStmt] at hc
    rcases hcl : closeBlock emit (compileStmts emit body ((none, []) :: (some label, []) :: (id, ds) :: rest)) with _ | ⟨tb, ex⟩
    · rw [hcl] at hc; simp at hc
    rw [hcl] at hc
    simp only [Option.some.injEq, Prod.mk.injEq] at hc
    obtain ⟨rfl, rfl, rfl⟩ := hc
    have hFl : FramesClosed ((some label, []) :: (id, ds) :: rest) :=
      FramesClosed.cons (fun _ h => by simp at h) hF
    have hFb : FramesClosed ((none, []) :: (some label, []) :: (id, ds) :: rest) :=
      FramesClosed.cons (fun _ h => by simp at h) hFl
    have hbody := fun st1 => body_sim fuel emit hE body none ((some label, []) :: (id, ds) :: rest) tb ex st1 hFl hcl
      (fun tb' frb stopb hcb =>
        sim_stmts fuel emit hE body ((label, true) :: ctx) none [] ((some label, []) :: (id, ds) :: rest)
          tb' frb stopb st1 hw hFb hcb)
    have key := iter_sim (((id, ds) :: rest).map (toR fuel)) _ _
      (loop_step_sim fuel label body tb ex _ hbody) fuel st
    rw [execTs_single, execT_loop, execS_loop]
    exact ⟨key, fun _ => ⟨ds, rfl, rfl, hF.head, by trivial⟩⟩
  | .loopC label cond body => by
    intro ctx id ds rest ts fr' stop st hw hF hc
    simp only [contScopedStmt, Bool.and_eq_true] at hw
    simp only [compileStmt] at hc
    rcases hclc : closeBlock emit (compileStmts emit cond ((none, []) :: (some label, []) :: (id, ds) :: rest)) with _ | ⟨tc, exc⟩
    · rw [hclc] at hc; simp at hc
    rw [hclc] at hc
    simp only at hc
    rcases hcl : closeBlock emit (compileStmts emit body ((none, []) :: (some label, []) :: (id, ds) :: rest)) with _ | ⟨tb, ex⟩
    · rw [hcl] at hc; simp at hc
    rw [hcl] at hc
    simp only [Option.some.injEq, Prod.mk.injEq] at hc
    obtain ⟨rfl, rfl, rfl⟩ := hc
    have hFl : FramesClosed ((some label, []) :: (id, ds) :: rest) :=
      FramesClosed.cons (fun _ h => by simp at h) hF
    have hFb : FramesClosed ((none, []) :: (some label, []) :: (id, ds) :: rest) :=
      FramesClosed.cons (fun _ h => by simp at h) hFl
    have hcond := fun st1 => cond_sim fuel emit hE cond none ((some label, []) :: (id, ds) :: rest) tc exc st1 hFl hclc
      (fun tb' frb stopb hcb =>
        sim_stmts fuel emit hE cond ((label, true) :: ctx) none [] ((some label, []) :: (id, ds) :: rest)
          tb' frb stopb st1 hw.1 hFb hcb)
    have hbody := fun st1 => body_sim fuel emit hE body none ((some label, []) :: (id, ds) :: rest) tb ex st1 hFl hcl
      (fun tb' frb stopb hcb =>
        sim_stmts fuel emit hE body ((label, true) :: ctx) none [] ((some label, []) :: (id, ds) :: rest)
          tb' frb stopb st1 hw.2 hFb hcb)
    have key := iter_sim (((id, ds) :: rest).map (toR fuel)) _ _
      (loopC_step_sim label (condS fuel cond) (condT fuel tc exc) (execBlockS fuel body)
        (blockT fuel tb ex) _ hcond hbody) fuel st
    rw [execTs_single, execT_loopC, execS_loopC]
    exact ⟨key, fun _ => ⟨ds, rfl, rfl, hF.head, by trivial⟩⟩
theorem sim_stmts (fuel : Nat) (emit : Emit) (hE : EmitOK fuel emit) : (ss : Stmts) →
    ∀ ctx id ds rest ts fr' stop st,
    contScoped ss ctx = true → FramesClosed ((id, ds) :: rest) →
    compileStmts emit ss ((id, ds) :: rest) = some (ts, fr', stop) →
    SimRes id (rest.map (toR fuel)) (execStmtsS fuel ss (ds.map (runner fuel)) st) (execTs fuel ts st) ∧
      ((execStmtsS fuel ss (ds.map (runner fuel)) st).1 = .normal →
        ∃ ds', fr' = (id, ds') :: rest ∧
          (execStmtsS fuel ss (ds.map (runner fuel)) st).2.1 = ds'.map (runner fuel) ∧
          (∀ b ∈ ds', Closed b) ∧ stop = false)
  | .nil => by
    intro ctx id ds rest ts fr' stop st _ hF hc
    simp only [compileStmts, Option.some.injEq, Prod.mk.injEq] at hc
    obtain ⟨rfl, rfl, rfl⟩ := hc
    exact ⟨by simp [SimRes, Debt, execStmtsS, execTs], fun _ => ⟨ds, rfl, by simp [execStmtsS], hF.head, by trivial⟩⟩
  | .cons s r => by
    intro ctx id ds rest ts fr' stop st hw hF hc
    simp only [contScoped, Bool.and_eq_true] at hw
    simp only [compileStmts] at hc
    rcases hcs : compileStmt emit s ((id, ds) :: rest) with _ | ⟨ts1, fr1, stop1⟩
    · rw [hcs] at hc; simp at hc
    rw [hcs] at hc
    simp only at hc
    have ih1 := sim_stmt fuel emit hE s ctx id ds rest ts1 fr1 stop1 st hw.1 hF hcs
    simp only [execStmtsS]
    rcases hs : execS fuel s (ds.map (runner fuel)) st with ⟨sig1, regs1, st1⟩
    rw [hs] at ih1
    cases stop1 with
    | true =>
      simp only [if_true, Option.some.injEq, Prod.mk.injEq] at hc
      obtain ⟨rfl, rfl, rfl⟩ := hc
      obtain ⟨hsim, h3⟩ := ih1
      cases sig1 with
      | normal => obtain ⟨_, _, _, _, h⟩ := h3 rfl; simp at h
      | brk l => exact ⟨hsim, fun h => by simp at h⟩
      | cont l => exact ⟨hsim, fun h => by simp at h⟩
    | false =>
      rcases hcr : compileStmts emit r fr1 with _ | ⟨tr, fr2, stop2⟩
      · rw [hcr] at hc; simp at hc
      rw [hcr] at hc
      simp only [Bool.false_eq_true, if_false, Option.some.injEq, Prod.mk.injEq] at hc
      obtain ⟨rfl, rfl, rfl⟩ := hc
      rw [execTs_append]
      rcases hT : execTs fuel ts1 st with ⟨sigT, stT⟩
      rw [hT] at ih1
      obtain ⟨⟨h1, h2⟩, h3⟩ := ih1
      simp only at h1 h2 h3
      subst h1
      cases sigT with
      | normal =>
        obtain ⟨ds1, rfl, rfl, hcl1, _⟩ := h3 rfl
        simp only [Debt] at h2; subst h2
        exact sim_stmts fuel emit hE r ctx id ds1 rest tr fr2 stop2 _ hw.2
          (FramesClosed.cons hcl1 hF.tail) hcr
      | brk l => exact ⟨⟨rfl, h2⟩, fun h => by simp at h⟩
      | cont l => exact ⟨⟨rfl, h2⟩, fun h => by simp at h⟩
end

/-! ### the knot: compiled deferred bodies do what `runner` does -/

theorem FramesClosed.nil : FramesClosed [] := fun _ h => by simp at h

theorem FramesClosed.push {fr : List Frame} (id : Option Nat) (h : FramesClosed fr) :
    FramesClosed ((id, []) :: fr) :=
  FramesClosed.cons (fun _ h => by simp at h) h

theorem compileDeferred_ok (fuel : Nat) : ∀ n, EmitOK fuel (compileDeferred n)
  | 0 => by intro b fr tb _ _ h; simp [compileDeferred] at h
  | n + 1 => by
    intro b fr t hb hF h st
    have hE := compileDeferred_ok fuel n
    simp only [compileDeferred] at h
    rcases hcl : closeBlock (compileDeferred n) (compileStmts (compileDeferred n) b ((none, []) :: fr))
      with _ | ⟨tb, ex⟩
    · rw [hcl] at h; simp at h
    rw [hcl] at h
    simp only [Option.some.injEq] at h
    subst h
    have key := body_sim fuel _ hE b none fr tb ex st hF hcl
      (fun tb' frb stopb hcb => sim_stmts fuel _ hE b [] none [] fr tb' frb stopb st
        (wellScoped_contScoped b [] hb) (hF.push none) hcb)
    have hn := closed_block_normal fuel b hb st
    rw [execTs_single, execT_block]
    simp only [runner]
    rcases hB : execBlockS fuel b st with ⟨sigB, stB⟩
    rcases hT : blockT fuel tb ex st with ⟨sigT, stT⟩
    rw [hB, hT] at key
    rw [hB] at hn
    simp only at hn key
    subst hn
    obtain ⟨h1, h2⟩ := key
    subst h1
    simp only [Debt] at h2
    subst h2
    simp

/-! ### totality of compilation -/

/-- `emit` compiles every closed body whose defers nest less than `k` deep -/
def EmitTotal (emit : Emit) (k : Nat) : Prop :=
  ∀ b fr, Closed b → deferDepth b < k → ∃ t, emit b fr = some t

/-- every label of the context has a frame among `inner` -/
def Covered (ctx : Ctx) (inner : List Frame) : Prop :=
  ∀ l, (lookupLabel l ctx).isSome = true → ∃ f ∈ inner, f.1 = some l

/-- the registered bodies are closed and their defers nest less than `k` deep -/
def Small (k : Nat) (inner : List Frame) : Prop :=
  ∀ f ∈ inner, ∀ b ∈ f.2, Closed b ∧ deferDepth b < k

theorem Small.push {k : Nat} {inner : List Frame} (id : Option Nat) (h : Small k inner) :
    Small k ((id, []) :: inner) := by
  intro f hf b hb
  rcases List.mem_cons.1 hf with rfl | hf
  · simp at hb
  · exact h f hf b hb

theorem Small.tail {k : Nat} {f : Frame} {inner : List Frame} (h : Small k (f :: inner)) :
    Small k inner :=
  fun g hg => h g (List.mem_cons_of_mem _ hg)

theorem Small.head {k : Nat} {id : Option Nat} {ds : List Stmts} {inner : List Frame}
    (h : Small k ((id, ds) :: inner)) : ∀ b ∈ ds, Closed b ∧ deferDepth b < k :=
  fun b hb => h (id, ds) (List.mem_cons_self ..) b hb

theorem Covered.push_block {ctx : Ctx} {inner : List Frame} (label : Option Nat)
    (h : Covered ctx inner) : Covered (pushLabel label ctx) ((label, []) :: inner) := by
  intro l hl
  by_cases e : label = some l
  · exact ⟨(label, []), List.mem_cons_self .., e⟩
  · rw [lookupLabel_push_ne l label ctx e] at hl
    obtain ⟨f, hf, hfl⟩ := h l hl
    exact ⟨f, List.mem_cons_of_mem _ hf, hfl⟩

theorem Covered.push_loop {ctx : Ctx} {inner : List Frame} (label : Nat)
    (h : Covered ctx inner) :
    Covered ((label, true) :: ctx) ((none, []) :: (some label, []) :: inner) := by
  intro l hl
  by_cases e : label = l
  · exact ⟨(some label, []), by simp, by simp [e]⟩
  · simp only [lookupLabel, e, if_false] at hl
    obtain ⟨f, hf, hfl⟩ := h l hl
    exact ⟨f, List.mem_cons_of_mem _ (List.mem_cons_of_mem _ hf), hfl⟩

theorem emitDefers_total (emit : Emit) (k : Nat) (hT : EmitTotal emit k) (fr : List Frame) :
    ∀ ds : List Stmts, (∀ b ∈ ds, Closed b ∧ deferDepth b < k) → ∃ t, emitDefers emit ds fr = some t
  | [] => fun _ => ⟨_, rfl⟩
  | b :: ds => by
    intro h
    obtain ⟨hb1, hb2⟩ := h b (List.mem_cons_self ..)
    obtain ⟨tb, htb⟩ := hT b fr hb1 hb2
    obtain ⟨r, hr⟩ := emitDefers_total emit k hT fr ds (fun b' hb' => h b' (List.mem_cons_of_mem _ hb'))
    exact ⟨Ts.append tb r, by simp [emitDefers, htb, hr]⟩

/-- `run_defers_up_to` succeeds when it stops inside the part `pre` of the stack whose bodies
`emit` can compile (or when that part is the whole stack) -/
theorem defersUpTo_total (emit : Emit) (k : Nat) (hT : EmitTotal emit k) (l : Nat) (X : List Frame) :
    ∀ pre : List Frame, Small k pre → (X = [] ∨ ∃ f ∈ pre, f.1 = some l) →
    ∃ t, defersUpTo emit l (pre ++ X) = some t
  | [] => by
    intro _ h
    rcases h with rfl | ⟨f, hf, _⟩
    · exact ⟨_, rfl⟩
    · simp at hf
  | (id, ds) :: pre => by
    intro hS h
    obtain ⟨t, ht⟩ := emitDefers_total emit k hT ((id, ds) :: (pre ++ X)) ds hS.head
    show ∃ t, defersUpTo emit l ((id, ds) :: (pre ++ X)) = some t
    by_cases hid : id = some l
    · subst hid
      exact ⟨t, by simp [defersUpTo, ht]⟩
    · have h' : X = [] ∨ ∃ f ∈ pre, f.1 = some l := by
        rcases h with h | ⟨f, hf, hfl⟩
        · exact .inl h
        · rcases List.mem_cons.1 hf with rfl | hf
          · exact absurd hfl hid
          · exact .inr ⟨f, hf, hfl⟩
      obtain ⟨r, hr⟩ := defersUpTo_total emit k hT l X pre hS.tail h'
      exact ⟨Ts.append t r, by simp [defersUpTo, ht, hid, hr]⟩

theorem closeBlock_total (emit : Emit) (k : Nat) (hT : EmitTotal emit k) (tb : Ts)
    (label : Option Nat) (ds' : List Stmts) (below : List Frame) (stopb : Bool)
    (h : ∀ b ∈ ds', Closed b ∧ deferDepth b < k) :
    ∃ ex, closeBlock emit (some (tb, (label, ds') :: below, stopb)) = some (tb, ex) := by
  cases stopb
  · obtain ⟨ex, hex⟩ := emitDefers_total emit k hT below ds' h
    exact ⟨ex, by simp [closeBlock, hex]⟩
  · exact ⟨.nil, by simp [closeBlock]⟩

mutual
/-- Compilation under the stack `(id, ds) :: inner ++ X` succeeds and changes only the top
frame's registrations. Either `X = []` (then a jump may unwind the whole stack) or the statement
is well scoped and every label of its context has a frame in `(id, ds) :: inner` (then a jump
never looks at `X`). -/
theorem tot_stmt (emit : Emit) (k : Nat) (hT : EmitTotal emit k) (X : List Frame) : (s : Stmt) →
    ∀ ctx id ds inner, contScopedStmt s ctx = true →
    (X = [] ∨ (wellScopedStmt s ctx = true ∧ Covered ctx ((id, ds) :: inner))) →
    Small k ((id, ds) :: inner) → deferDepthStmt s ≤ k →
    ∃ ts ds' stop, compileStmt emit s ((id, ds) :: (inner ++ X)) =
        some (ts, (id, ds') :: (inner ++ X), stop) ∧ Small k ((id, ds') :: inner)
  | .print c => fun ctx id ds inner _ _ hS _ => ⟨_, ds, _, rfl, hS⟩
  | .defer b => by
    intro ctx id ds inner hw _ hS hk
    refine ⟨_, b :: ds, _, rfl, ?_⟩
    simp only [contScopedStmt] at hw
    simp only [deferDepthStmt] at hk
    intro f hf b' hb'
    rcases List.mem_cons.1 hf with rfl | hf
    · rcases List.mem_cons.1 hb' with rfl | hb'
      · exact ⟨hw, by omega⟩
      · exact hS.head b' hb'
    · exact hS f (List.mem_cons_of_mem _ hf) b' hb'
  | .brk l => by
    intro ctx id ds inner _ hj hS _
    have hj' : X = [] ∨ ∃ f ∈ (id, ds) :: inner, f.1 = some l := by
      rcases hj with h | ⟨hw, hcov⟩
      · exact .inl h
      · exact .inr (hcov l (by simpa [wellScopedStmt] using hw))
    obtain ⟨code, hcode⟩ := defersUpTo_total emit k hT l X ((id, ds) :: inner) hS hj'
    have hcode' : defersUpTo emit l ((id, ds) :: (inner ++ X)) = some code := hcode
    exact ⟨.cons (.jump false l code) .nil, ds, true, by simp only [compileStmt, hcode', Option.map_some], hS⟩
  | .cont l => by
    intro ctx id ds inner _ hj hS _
    have hj' : X = [] ∨ ∃ f ∈ (id, ds) :: inner, f.1 = some l := by
      rcases hj with h | ⟨hw, hcov⟩
      · exact .inl h
      · refine .inr (hcov l ?_)
        simp only [wellScopedStmt, beq_iff_eq] at hw
        simp [hw]
    obtain ⟨code, hcode⟩ := defersUpTo_total emit k hT l X ((id, ds) :: inner) hS hj'
    have hcode' : defersUpTo emit l ((id, ds) :: (inner ++ X)) = some code := hcode
    exact ⟨.cons (.jump true l code) .nil, ds, true, by simp only [compileStmt, hcode', Option.map_some], hS⟩
  | .tryS l => by
    intro ctx id ds inner _ hj hS _
    have hj' : X = [] ∨ ∃ f ∈ (id, ds) :: inner, f.1 = some l := by
      rcases hj with h | ⟨hw, hcov⟩
      · exact .inl h
      · exact .inr (hcov l (by simpa [wellScopedStmt] using hw))
    obtain ⟨code, hcode⟩ := defersUpTo_total emit k hT l X ((id, ds) :: inner) hS hj'
    have hcode' : defersUpTo emit l ((id, ds) :: (inner ++ X)) = some code := hcode
    exact ⟨.cons (.tryT l code) .nil, ds, false, by simp only [compileStmt, hcode', Option.map_some], hS⟩
  | .block label body => by
    intro ctx id ds inner hw hj hS hk
    simp only [contScopedStmt] at hw
    simp only [deferDepthStmt] at hk
    have hj' : X = [] ∨ (wellScoped body (pushLabel label ctx) = true ∧
        Covered (pushLabel label ctx) ((label, []) :: (id, ds) :: inner)) := by
      rcases hj with h | ⟨hws, hcov⟩
      · exact .inl h
      · simp only [wellScopedStmt] at hws
        exact .inr ⟨hws, hcov.push_block label⟩
    obtain ⟨tb, ds', stopb, hcb, hSb⟩ := tot_stmts emit k hT X body (pushLabel label ctx) label []
      ((id, ds) :: inner) hw hj' (hS.push label) hk
    have hcb' : compileStmts emit body ((label, []) :: (id, ds) :: (inner ++ X)) =
        some (tb, (label, ds') :: (id, ds) :: (inner ++ X), stopb) := hcb
    obtain ⟨ex, hex⟩ := closeBlock_total emit k hT tb label ds' ((id, ds) :: (inner ++ X)) stopb hSb.head
    exact ⟨.cons (.block label tb ex) .nil, ds, false, by simp only [compileStmt, hcb', hex], hS⟩
  | .ifS body => by
    intro ctx id ds inner hw hj hS hk
    simp only [contScopedStmt] at hw
    simp only [deferDepthStmt] at hk
    have hj' : X = [] ∨ (wellScoped body ctx = true ∧
        Covered ctx ((none, []) :: (id, ds) :: inner)) := by
      rcases hj with h | ⟨hws, hcov⟩
      · exact .inl h
      · simp only [wellScopedStmt] at hws
        exact .inr ⟨hws, hcov.push_block none⟩
    obtain ⟨tb, ds', stopb, hcb, hSb⟩ := tot_stmts emit k hT X body ctx none []
      ((id, ds) :: inner) hw hj' (hS.push none) hk
    have hcb' : compileStmts emit body ((none, []) :: (id, ds) :: (inner ++ X)) =
        some (tb, (none, ds') :: (id, ds) :: (inner ++ X), stopb) := hcb
    obtain ⟨ex, hex⟩ := closeBlock_total emit k hT tb none ds' ((id, ds) :: (inner ++ X)) stopb hSb.head
    exact ⟨.cons (.ifT tb ex) .nil, ds, false, by simp only [compileStmt, hcb', hex], hS⟩
  | .loop label body => by
    intro ctx id ds inner hw hj hS hk
    simp only [contScopedStmt] at hw
    simp only [deferDepthStmt] at hk
    have hj' : X = [] ∨ (wellScoped body ((label, true) :: ctx) = true ∧
        Covered ((label, true) :: ctx) ((none, []) :: (some label, []) :: (id, ds) :: inner)) := by
      rcases hj with h | ⟨hws, hcov⟩
      · exact .inl h
      · simp only [wellScopedStmt] at hws
        exact .inr ⟨hws, hcov.push_loop label⟩
    obtain ⟨tb, ds', stopb, hcb, hSb⟩ := tot_stmts emit k hT X body ((label, true) :: ctx) none []
      ((some label, []) :: (id, ds) :: inner) hw hj' ((hS.push (some label)).push none) hk
    have hcb' : compileStmts emit body ((none, []) :: (some label, []) :: (id, ds) :: (inner ++ X)) =
        some (tb, (none, ds') :: (some label, []) :: (id, ds) :: (inner ++ X), stopb) := hcb
    obtain ⟨ex, hex⟩ := closeBlock_total emit k hT tb none ds'
      ((some label, []) :: (id, ds) :: (inner ++ X)) stopb hSb.head
    exact ⟨.cons (.loop label tb ex) .nil, ds, false, by simp only [compileStmt, hcb', hex], hS⟩
  | .loopC label cond body => by
    intro ctx id ds inner hw hj hS hk
    simp only [contScopedStmt, Bool.and_eq_true] at hw
    simp only [deferDepthStmt] at hk
    have hjc : X = [] ∨ (wellScoped cond ((label, true) :: ctx) = true ∧
        Covered ((label, true) :: ctx) ((none, []) :: (some label, []) :: (id, ds) :: inner)) := by
      rcases hj with h | ⟨hws, hcov⟩
      · exact .inl h
      · simp only [wellScopedStmt, Bool.and_eq_true] at hws
        exact .inr ⟨hws.1, hcov.push_loop label⟩
    have hjb : X = [] ∨ (wellScoped body ((label, true) :: ctx) = true ∧
        Covered ((label, true) :: ctx) ((none, []) :: (some label, []) :: (id, ds) :: inner)) := by
      rcases hj with h | ⟨hws, hcov⟩
      · exact .inl h
      · simp only [wellScopedStmt, Bool.and_eq_true] at hws
        exact .inr ⟨hws.2, hcov.push_loop label⟩
    obtain ⟨tc, dsc, stopc, hcc, hSc⟩ := tot_stmts emit k hT X cond ((label, true) :: ctx) none []
      ((some label, []) :: (id, ds) :: inner) hw.1 hjc ((hS.push (some label)).push none) (by omega)
    have hcc' : compileStmts emit cond ((none, []) :: (some label, []) :: (id, ds) :: (inner ++ X)) =
        some (tc, (none, dsc) :: (some label, []) :: (id, ds) :: (inner ++ X), stopc) := hcc
    obtain ⟨exc, hexc⟩ := closeBlock_total emit k hT tc none dsc
      ((some label, []) :: (id, ds) :: (inner ++ X)) stopc hSc.head
    obtain ⟨tb, ds', stopb, hcb, hSb⟩ := tot_stmts emit k hT X body ((label, true) :: ctx) none []
      ((some label, []) :: (id, ds) :: inner) hw.2 hjb ((hS.push (some label)).push none) (by omega)
    have hcb' : compileStmts emit body ((none, []) :: (some label, []) :: (id, ds) :: (inner ++ X)) =
        some (tb, (none, ds') :: (some label, []) :: (id, ds) :: (inner ++ X), stopb) := hcb
    obtain ⟨ex, hex⟩ := closeBlock_total emit k hT tb none ds'
      ((some label, []) :: (id, ds) :: (inner ++ X)) stopb hSb.head
    exact ⟨.cons (.loopC label tc exc tb ex) .nil, ds, false,
      by simp only [compileStmt, hcc', hexc, hcb', hex], hS⟩
theorem tot_stmts (emit : Emit) (k : Nat) (hT : EmitTotal emit k) (X : List Frame) : (ss : Stmts) →
    ∀ ctx id ds inner, contScoped ss ctx = true →
    (X = [] ∨ (wellScoped ss ctx = true ∧ Covered ctx ((id, ds) :: inner))) →
    Small k ((id, ds) :: inner) → deferDepth ss ≤ k →
    ∃ ts ds' stop, compileStmts emit ss ((id, ds) :: (inner ++ X)) =
        some (ts, (id, ds') :: (inner ++ X), stop) ∧ Small k ((id, ds') :: inner)
  | .nil => fun ctx id ds inner _ _ hS _ => ⟨_, ds, _, rfl, hS⟩
  | .cons s r => by
    intro ctx id ds inner hw hj hS hk
    simp only [contScoped, Bool.and_eq_true] at hw
    simp only [deferDepth] at hk
    have hj1 : X = [] ∨ (wellScopedStmt s ctx = true ∧ Covered ctx ((id, ds) :: inner)) := by
      rcases hj with h | ⟨hws, hcov⟩
      · exact .inl h
      · simp only [wellScoped, Bool.and_eq_true] at hws
        exact .inr ⟨hws.1, hcov⟩
    obtain ⟨ts1, ds1, stop1, hc1, hS1⟩ := tot_stmt emit k hT X s ctx id ds inner hw.1 hj1 hS (by omega)
    cases stop1 with
    | true => exact ⟨ts1, ds1, true, by simp only [compileStmts, hc1, if_true], hS1⟩
    | false =>
      have hj2 : X = [] ∨ (wellScoped r ctx = true ∧ Covered ctx ((id, ds1) :: inner)) := by
        rcases hj with h | ⟨hws, hcov⟩
        · exact .inl h
        · simp only [wellScoped, Bool.and_eq_true] at hws
          refine .inr ⟨hws.2, ?_⟩
          intro l hl
          obtain ⟨f, hf, hfl⟩ := hcov l hl
          rcases List.mem_cons.1 hf with rfl | hf
          · exact ⟨(id, ds1), List.mem_cons_self .., hfl⟩
          · exact ⟨f, List.mem_cons_of_mem _ hf, hfl⟩
      obtain ⟨tr, ds2, stop2, hc2, hS2⟩ := tot_stmts emit k hT X r ctx id ds1 inner hw.2 hj2 hS1 (by omega)
      exact ⟨Ts.append ts1 tr, ds2, stop2, by simp only [compileStmts, hc1, hc2, Bool.false_eq_true, if_false], hS2⟩
end

theorem compileDeferred_total : ∀ n, EmitTotal (compileDeferred n) n
  | 0 => by intro b fr _ h; omega
  | n + 1 => by
    intro b fr hb hd
    have hT := compileDeferred_total n
    obtain ⟨tb, ds', stopb, hcb, hS⟩ := tot_stmts (compileDeferred n) n hT fr b [] none [] []
      (wellScoped_contScoped b [] hb) (.inr ⟨hb, fun l hl => by simp [lookupLabel] at hl⟩)
      (Small.push none (fun _ h => by simp at h)) (by omega)
    have hcb' : compileStmts (compileDeferred n) b ((none, []) :: fr) =
        some (tb, (none, ds') :: fr, stopb) := hcb
    obtain ⟨ex, hex⟩ := closeBlock_total (compileDeferred n) n hT tb none ds' fr stopb hS.head
    exact ⟨.cons (.block none tb ex) .nil, by simp only [compileDeferred, hcb', hex]⟩

/-! ### whole programs -/

/-- The compiler neither hits `expect("block didn't add to defer stack")` nor re-enters
`run_defers_up_to` without end: a deferred body whose jumps stay inside it is compiled while
compiling at most `deferDepth body` enclosing deferred bodies. -/
theorem compileProgram_isSome (body : Stmts) (hw : contScoped body [(0, false)] = true) :
    (compileProgram body).isSome = true := by
  have hT := compileDeferred_total (deferDepth body)
  obtain ⟨tb, ds', stopb, hcb, hS⟩ := tot_stmts _ _ hT [] body [(0, false)] (some 0) [] []
    hw (.inl rfl) (Small.push (some 0) (fun _ h => by simp at h)) (Nat.le_refl _)
  have hcb' : compileStmts (compileDeferred (deferDepth body)) body [(some 0, [])] =
      some (tb, [(some 0, ds')], stopb) := hcb
  obtain ⟨ex, hex⟩ := closeBlock_total _ _ hT tb (some 0) ds' [] stopb hS.head
  simp only [compileProgram, hcb', hex, Option.isSome_some]

/-- whatever the compiler produces for a `contScoped` body prints what the structural
semantics prescribes -/
theorem compileProgram_sound (fuel : Nat) (body : Stmts) (oracle : List Bool)
    (hw : contScoped body [(0, false)] = true) (t : T) (hc : compileProgram body = some t) :
    (execT fuel t { trace := [], oracle }).2.trace.reverse = runSpec fuel body oracle := by
  simp only [compileProgram] at hc
  rcases hcl : closeBlock (compileDeferred (deferDepth body))
      (compileStmts (compileDeferred (deferDepth body)) body [(some 0, [])]) with _ | ⟨tb, ex⟩
  · rw [hcl] at hc; simp at hc
  rw [hcl] at hc
  simp only [Option.some.injEq] at hc
  subst hc
  have hE := compileDeferred_ok fuel (deferDepth body)
  have key := body_sim fuel _ hE body (some 0) [] tb ex { trace := [], oracle } FramesClosed.nil hcl
    (fun tb' frb stopb hcb => sim_stmts fuel _ hE body [(0, false)] (some 0) [] [] tb' frb stopb _
      hw (FramesClosed.nil.push (some 0)) hcb)
  simp only [runSpec, execS, execT_block]
  rcases hB : execBlockS fuel body { trace := [], oracle } with ⟨sigB, stB⟩
  rcases hT : blockT fuel tb ex { trace := [], oracle } with ⟨sigT, stT⟩
  rw [hB, hT] at key
  obtain ⟨h1, h2⟩ := key
  simp only at h1 h2
  subst h1
  cases sigT with
  | normal =>
    simp only [Debt] at h2; subst h2
    simp
  | brk l =>
    simp only [Debt, unwindS, List.map_nil, runRegs_nil, ite_self] at h2
    subst h2
    by_cases hl : 0 = l <;> simp [hl]
  | cont l =>
    simp only [Debt, unwindS, List.map_nil, runRegs_nil, ite_self] at h2
    subst h2
    simp

theorem runCompiled_eq_runSpec (fuel : Nat) (body : Stmts) (oracle : List Bool)
    (hw : contScoped body [(0, false)] = true) :
    runCompiled fuel body oracle = some (runSpec fuel body oracle) := by
  obtain ⟨t, ht⟩ := Option.isSome_iff_exists.1 (compileProgram_isSome body hw)
  simp only [runCompiled, ht, Option.map_some, compileProgram_sound fuel body oracle hw t ht]

/-! ### facts about the structural semantics used by the corollaries of C03 -/

/-- the bodies of the `defer`s that stand directly in a statement list, in program order -/
def registeredBodies : Stmts → List Stmts
  | .nil => []
  | .cons (.defer b) rest => b :: registeredBodies rest
  | .cons _ rest => registeredBodies rest

def Stmts.append : Stmts → Stmts → Stmts
  | .nil, b => b
  | .cons s r, b => .cons s (Stmts.append r b)

/-- running `defer { print c }` prints `c` -/
theorem runner_print (fuel c : Nat) (st : St) :
    runner fuel (.cons (.print c) .nil) st = st.emit c := by
  simp [runner, execBlockS_eq, execStmtsS, execS]

/-- running registered `defer { print c }`s prints their events in order -/
theorem runRegs_prints (fuel : Nat) : ∀ (cs : List Nat) (st : St),
    runRegs (cs.map fun c => runner fuel (.cons (.print c) .nil)) st = st.emits cs
  | [], st => rfl
  | c :: cs, st => by
    simp only [List.map_cons, runRegs_cons, St.emits_cons, runner_print]
    exact runRegs_prints fuel cs _

/-- only `defer` changes the registrations of the enclosing block -/
theorem execS_regs (fuel : Nat) (s : Stmt) (regs : List Reg) (st : St) :
    (execS fuel s regs st).2.1 = match s with | .defer b => runner fuel b :: regs | _ => regs := by
  cases s <;> simp only [execS] <;> (repeat' split) <;> rfl

/-- along a statement list that runs to its end the registrations are exactly the list's
`defer`s, newest first -/
theorem execStmtsS_regs (fuel : Nat) : (ss : Stmts) → ∀ regs st,
    (execStmtsS fuel ss regs st).1 = .normal →
      (execStmtsS fuel ss regs st).2.1 = (registeredBodies ss).reverse.map (runner fuel) ++ regs
  | .nil => by intro regs st _; simp [execStmtsS, registeredBodies]
  | .cons s r => by
    intro regs st h
    have hr := execS_regs fuel s regs st
    simp only [execStmtsS] at h ⊢
    rcases hs : execS fuel s regs st with ⟨sig1, regs1, st1⟩
    rw [hs] at h hr
    cases sig1 with
    | normal =>
      simp only at h hr ⊢
      rw [execStmtsS_regs fuel r regs1 st1 h, hr]
      cases s <;> simp [registeredBodies]
    | brk l => simp at h
    | cont l => simp at h

/-- a statement list that runs to its end, followed by another one -/
theorem execStmtsS_append (fuel : Nat) : (a b : Stmts) → ∀ regs st,
    (execStmtsS fuel a regs st).1 = .normal →
    execStmtsS fuel (a.append b) regs st =
      execStmtsS fuel b (execStmtsS fuel a regs st).2.1 (execStmtsS fuel a regs st).2.2
  | .nil, b => by intro regs st _; simp [Stmts.append, execStmtsS]
  | .cons s r, b => by
    intro regs st h
    simp only [Stmts.append, execStmtsS] at h ⊢
    rcases hs : execS fuel s regs st with ⟨sig1, regs1, st1⟩
    rw [hs] at h
    cases sig1 with
    | normal => exact execStmtsS_append fuel r b regs1 st1 h
    | brk l => simp at h
    | cont l => simp at h

/-- statements after a `brk` / `cont` never matter -/
theorem execStmtsS_dead (fuel : Nat) (j : Stmt) (hj : (∃ l, j = .brk l) ∨ (∃ l, j = .cont l)) :
    (pre : Stmts) → ∀ post regs st,
    execStmtsS fuel (pre.append (.cons j post)) regs st =
      execStmtsS fuel (pre.append (.cons j .nil)) regs st
  | .nil => by
    intro post regs st
    rcases hj with ⟨l, rfl⟩ | ⟨l, rfl⟩ <;> simp [Stmts.append, execStmtsS, execS]
  | .cons s r => by
    intro post regs st
    simp only [Stmts.append, execStmtsS]
    rcases hs : execS fuel s regs st with ⟨sig1, regs1, st1⟩
    cases sig1 with
    | normal => exact execStmtsS_dead fuel j hj r post regs1 st1
    | brk l => rfl
    | cont l => rfl

/-- `loop l { defer { print c }; print p; cont l; dead }` with `k` positive decisions left -/
theorem iter_defer_cont (fuel l c p : Nat) (dead : Stmts) : ∀ k n (st : St), k < n →
    st.oracle = List.replicate k true →
    iter (loopStepS fuel l (.cons (.deferP c) (.cons (.print p) (.cons (.cont l) dead)))) n st =
      (.normal, { trace := (List.replicate k [c, p]).flatten ++ st.trace, oracle := [] })
  | 0, n + 1, st => by
    intro _ ho
    obtain ⟨tr, o⟩ := st
    simp only [List.replicate] at ho
    subst ho
    simp [iter, loopStepS, St.decide]
  | k + 1, n + 1, st => by
    intro hk ho
    obtain ⟨tr, o⟩ := st
    simp only [List.replicate] at ho
    subst ho
    have ih := iter_defer_cont fuel l c p dead k n
      { trace := c :: p :: tr, oracle := List.replicate k true } (by omega) rfl
    simp only [iter, loopStepS, St.decide, execBlockS_eq, execStmtsS, execS, Stmt.deferP, St.emit,
      runRegs_cons, runRegs_nil, loopNext, if_true]
    simp only [Stmt.deferP] at ih
    rw [ih]
    simp [List.replicate_succ']
  | _, 0, _ => by intro h; omega

/-! ### the scheme before the fix (documentation of the two confirmed defects)
Loops pushed no defer frame (so a `break` to the loop's label found no frame with that id and
ran every frame of the function) and `continue` ran nothing. Everything else is `compileStmt`. -/

mutual
def compileStmtOld (emit : Emit) : Stmt → List Frame → Option (Ts × List Frame × Bool)
  | .print c, fr => some (.cons (.emit c) .nil, fr, false)
  | .defer b, fr => (registerDefer b fr).map fun fr' => (.nil, fr', false)
  | .block label body, fr =>
    match closeBlock emit (compileStmtsOld emit body ((label, []) :: fr)) with
    | none => none
    | some (tb, ex) => some (.cons (.block label tb ex) .nil, fr, false)
  | .loop label body, fr =>
    match closeBlock emit (compileStmtsOld emit body ((none, []) :: fr)) with
    | none => none
    | some (tb, ex) => some (.cons (.loop label tb ex) .nil, fr, false)
  | .loopC label cond body, fr =>
    match closeBlock emit (compileStmtsOld emit cond ((none, []) :: fr)) with
    | none => none
    | some (tc, exc) =>
      match closeBlock emit (compileStmtsOld emit body ((none, []) :: fr)) with
      | none => none
      | some (tb, ex) => some (.cons (.loopC label tc exc tb ex) .nil, fr, false)
  | .ifS body, fr =>
    match closeBlock emit (compileStmtsOld emit body ((none, []) :: fr)) with
    | none => none
    | some (tb, ex) => some (.cons (.ifT tb ex) .nil, fr, false)
  | .brk l, fr => (defersUpTo emit l fr).map fun code => (.cons (.jump false l code) .nil, fr, true)
  | .cont l, fr => some (.cons (.jump true l .nil) .nil, fr, true)
  | .tryS l, fr => (defersUpTo emit l fr).map fun code => (.cons (.tryT l code) .nil, fr, false)
def compileStmtsOld (emit : Emit) : Stmts → List Frame → Option (Ts × List Frame × Bool)
  | .nil, fr => some (.nil, fr, false)
  | .cons s rest, fr =>
    match compileStmtOld emit s fr with
    | none => none
    | some (ts, fr', stop) =>
      if stop then some (ts, fr', true) else
      match compileStmtsOld emit rest fr' with
      | none => none
      | some (tr, fr'', stop') => some (Ts.append ts tr, fr'', stop')
end

def runCompiledOld (fuel : Nat) (body : Stmts) (oracle : List Bool) : Option (List Nat) :=
  let emit := compileDeferred (deferDepth body)
  match closeBlock emit (compileStmtsOld emit body [(some 0, [])]) with
  | none => none
  | some (tb, ex) =>
    some (execT fuel (.block (some 0) tb ex) { trace := [], oracle }).2.trace.reverse

/-! ### the scheme between the two fixes (documentation of the third confirmed defect)
Loops had a defer frame, but `Expr::While` pushed it only AFTER compiling the condition: a
`break l` / `continue l` inside a block condition found no frame with id `l` and ran every
frame of the function. Everything else is `compileStmt`. -/

mutual
def compileStmtMid (emit : Emit) : Stmt → List Frame → Option (Ts × List Frame × Bool)
  | .print c, fr => some (.cons (.emit c) .nil, fr, false)
  | .defer b, fr => (registerDefer b fr).map fun fr' => (.nil, fr', false)
  | .block label body, fr =>
    match closeBlock emit (compileStmtsMid emit body ((label, []) :: fr)) with
    | none => none
    | some (tb, ex) => some (.cons (.block label tb ex) .nil, fr, false)
  | .loop label body, fr =>
    match closeBlock emit (compileStmtsMid emit body ((none, []) :: (some label, []) :: fr)) with
    | none => none
    | some (tb, ex) => some (.cons (.loop label tb ex) .nil, fr, false)
  | .loopC label cond body, fr =>
    -- the condition is compiled first, under the stack of the enclosing code …
    match closeBlock emit (compileStmtsMid emit cond ((none, []) :: fr)) with
    | none => none
    | some (tc, exc) =>
      -- … and only then the loop's frame is pushed
      match closeBlock emit (compileStmtsMid emit body ((none, []) :: (some label, []) :: fr)) with
      | none => none
      | some (tb, ex) => some (.cons (.loopC label tc exc tb ex) .nil, fr, false)
  | .ifS body, fr =>
    match closeBlock emit (compileStmtsMid emit body ((none, []) :: fr)) with
    | none => none
    | some (tb, ex) => some (.cons (.ifT tb ex) .nil, fr, false)
  | .brk l, fr => (defersUpTo emit l fr).map fun code => (.cons (.jump false l code) .nil, fr, true)
  | .cont l, fr => (defersUpTo emit l fr).map fun code => (.cons (.jump true l code) .nil, fr, true)
  | .tryS l, fr => (defersUpTo emit l fr).map fun code => (.cons (.tryT l code) .nil, fr, false)
def compileStmtsMid (emit : Emit) : Stmts → List Frame → Option (Ts × List Frame × Bool)
  | .nil, fr => some (.nil, fr, false)
  | .cons s rest, fr =>
    match compileStmtMid emit s fr with
    | none => none
    | some (ts, fr', stop) =>
      if stop then some (ts, fr', true) else
      match compileStmtsMid emit rest fr' with
      | none => none
      | some (tr, fr'', stop') => some (Ts.append ts tr, fr'', stop')
end

def runCompiledMid (fuel : Nat) (body : Stmts) (oracle : List Bool) : Option (List Nat) :=
  let emit := compileDeferred (deferDepth body)
  match closeBlock emit (compileStmtsMid emit body [(some 0, [])]) with
  | none => none
  | some (tb, ex) =>
    some (execT fuel (.block (some 0) tb ex) { trace := [], oracle }).2.trace.reverse

end CapyV.Defer
