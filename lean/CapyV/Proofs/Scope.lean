import CapyV.Spec.Scope
import CapyV.Model.ScopeGuard
/-!
C05 — the (fixed) resolver of `hir::body::Ctx` implements lexical scoping.

Invariant (`Rel`): the mutable state `Ctx` (scope stack, `params`, `inline_header_params`) and
the spec's environment answer every lookup alike, and so do their restrictions to the lambda
header bindings (what a `comptime` expression keeps). Every expression restores the state
exactly; a statement list only extends the top scope.
-/
namespace CapyV.Scope

/-! ### the invariant -/

def Agree (env : Env) (c : Ctx) (se : SEnv) : Prop :=
  ∀ x, lowerVarRef env c x = specLookup env se x

def Rel (env : Env) (c : Ctx) (se : SEnv) : Prop :=
  Agree env c se ∧
  Agree env { scopes := [], params := [], inline := c.inline } (se.filter (·.2.isHeader))

theorem lookupScopes_nil_cons (x : Nat) (ss : List Scope) :
    lookupScopes x ([] :: ss) = lookupScopes x ss := by
  simp [lookupScopes, List.lookup]

theorem Rel.init (env : Env) : Rel env Ctx.init [] := by
  constructor <;> intro x <;>
    simp [lowerVarRef, specLookup, Ctx.init, lookupScopes, List.lookup, lookupOuter, specOuter]

theorem Rel.push {env : Env} {c : Ctx} {se : SEnv} (h : Rel env c se) : Rel env c.push se := by
  refine ⟨fun x => ?_, h.2⟩
  have := h.1 x
  simpa [lowerVarRef, Ctx.push, lookupScopes_nil_cons] using this

def Local.res : Local → Res
  | .defn t => .local t
  | .switchArm t => .switchArg t

theorem Local.res_not_header (l : Local) : l.res.isHeader = false := by
  cases l <;> rfl

/-- inserting a local / switch argument into the top scope, outside a header -/
theorem Rel.insert {env : Env} {c : Ctx} {se : SEnv} (h : Rel env c se) (hi : c.inline = [])
    (s : Scope) (rest : List Scope) (hs : c.scopes = s :: rest) (x : Nat) (l : Local) :
    Rel env { c with scopes := ((x, l) :: s) :: rest } ((x, l.res) :: se) := by
  constructor
  · intro y
    have := h.1 y
    simp only [lowerVarRef, hi, hs, List.lookup, lookupScopes, specLookup] at this ⊢
    by_cases hyx : y = x
    · subst hyx
      cases l <;> simp [Local.res]
    · have hb : (y == x) = false := by simpa using hyx
      simp only [hb]
      exact this
  · have := h.2
    simpa [List.filter, Local.res_not_header] using this

/-- a parameter becomes visible in the rest of the header -/
theorem Rel.header {env : Env} {c : Ctx} {se : SEnv} (h : Rel env c se)
    (x tag : Nat) (ct : Bool) (idx cidx : Nat) :
    Rel env { c with inline := (x, paramInfo tag idx ct cidx) :: c.inline }
      (headerBinding x tag ct idx cidx :: se) := by
  constructor
  · intro y
    have := h.1 y
    simp only [lowerVarRef, List.lookup, specLookup, headerBinding, paramInfo] at this ⊢
    by_cases hyx : y = x
    · subst hyx
      cases ct <;> simp
    · have hb : (y == x) = false := by simpa using hyx
      simp only [hb]
      exact this
  · intro y
    have := h.2 y
    have hh : (headerBinding x tag ct idx cidx).2.isHeader = true := by
      cases ct <;> rfl
    simp only [lowerVarRef, List.lookup, specLookup, List.filter, hh] at this ⊢
    simp only [headerBinding, paramInfo] at this ⊢
    by_cases hyx : y = x
    · subst hyx
      cases ct <;> simp
    · have hb : (y == x) = false := by simpa using hyx
      simp only [hb]
      exact this

/-- … and in the body -/
theorem Rel.bodyParam {env : Env} {keys : List (Nat × PInfo)} {se : SEnv}
    (h : Rel env { scopes := [], params := keys, inline := [] } se)
    (x tag : Nat) (ct : Bool) (idx cidx : Nat) :
    Rel env { scopes := [], params := (x, paramInfo tag idx ct cidx) :: keys, inline := [] }
      (bodyBinding x tag ct idx cidx :: se) := by
  constructor
  · intro y
    have := h.1 y
    simp only [lowerVarRef, List.lookup, lookupScopes, specLookup, bodyBinding, paramInfo] at this ⊢
    by_cases hyx : y = x
    · subst hyx
      cases ct <;> simp
    · have hb : (y == x) = false := by simpa using hyx
      simp only [hb]
      exact this
  · have := h.2
    have hh : (bodyBinding x tag ct idx cidx).2.isHeader = false := by
      cases ct <;> rfl
    simpa [List.filter, hh] using this

/-- what a `comptime` expression keeps -/
theorem Rel.comptime {env : Env} {c : Ctx} {se : SEnv} (h : Rel env c se) :
    Rel env { scopes := [], params := [], inline := c.inline } (se.filter (·.2.isHeader)) := by
  refine ⟨h.2, ?_⟩
  simpa [List.filter_filter] using h.2


theorem Rel.empty (env : Env) : Rel env { scopes := [], params := [], inline := [] } [] := by
  constructor <;> intro x <;>
    simp [lowerVarRef, specLookup, lookupScopes, List.lookup, lookupOuter, specOuter]

theorem Ctx.pop_eq {c1 c : Ctx} (ht : c1.scopes.tail = c.scopes) (hp : c1.params = c.params)
    (hi : c1.inline = c.inline) : c1.pop = c := by
  cases c1; cases c; simp_all [Ctx.pop]

/-! ### the simulation -/

mutual
theorem lowerExpr_eq (env : Env) : (e : Expr) → ∀ (h : Bool) (c : Ctx) (se : SEnv),
    okExpr h e = true → (h = false → c.inline = []) → Rel env c se →
    lowerExpr true env e c = some (c, specExpr env e se)
  | .lit => by intro h c se _ _ _; simp [lowerExpr, specExpr]
  | .use x => by intro h c se _ _ hr; simp [lowerExpr, specExpr, hr.1 x]
  | .seq es => by
    intro h c se hok hi hr
    simp only [okExpr] at hok
    simp only [lowerExpr, specExpr]
    exact lowerExprs_eq env es h c se hok hi hr
  | .block ss tail => by
    intro h c se hok hi hr
    simp only [okExpr, Bool.and_eq_true] at hok
    obtain ⟨c1, h1, hr1, htl, _, hp, hin⟩ :=
      lowerStmts_eq env ss h c.push se hok.1 (by simpa [Ctx.push] using hi) hr.push (by simp [Ctx.push])
    have h2 := lowerExpr_eq env tail h c1 _ hok.2 (by rw [hin]; simpa [Ctx.push] using hi) hr1
    have hpop : c1.pop = c := Ctx.pop_eq (by simpa [Ctx.push] using htl) (by simpa [Ctx.push] using hp)
      (by simpa [Ctx.push] using hin)
    rcases hsp : specStmts env ss se with ⟨r, se'⟩
    rw [hsp] at h1 h2
    simp only [lowerExpr, specExpr, h1, h2, hsp, hpop]
  | .switch arg scrut arms => by
    intro h c se hok hi hr
    simp only [okExpr, Bool.and_eq_true, Bool.or_eq_true, Bool.not_eq_true'] at hok
    have h1 := lowerExpr_eq env scrut h c se hok.1.2 hi hr
    have h2 := lowerArms_eq env arg arms h c se hok.2
      (by intro ht; rcases hok.1.1 with hf | hn
          · rw [ht] at hf; cases hf
          · cases arg <;> simp_all) hi hr
    simp only [lowerExpr, specExpr, h1, h2]
  | .lambda ps ret body tail => by
    intro h c se hok hi hr
    simp only [okExpr, Bool.and_eq_true, Bool.not_eq_true'] at hok
    obtain ⟨⟨⟨⟨hh, hps⟩, hret⟩, hbody⟩, htail⟩ := hok
    have hci : c.inline = [] := hi hh
    obtain ⟨c1, keys, h1, hsc, hpa, hnil, hrH, hrB⟩ :=
      lowerParams_eq env ps false 0 0 [] c se [] hps (fun _ => hci) hr (Rel.empty env)
    rcases hsp : specParams env ps 0 0 se [] with ⟨r1, seH, seB⟩
    rw [hsp] at h1 hrH hrB
    have h2 := lowerExpr_eq env ret (!ps.isNil) c1 seH hret
      (by intro hn; rw [hnil (by simpa using hn), hci]) hrH
    obtain ⟨c3, h3, hr3, _, _, _, hin3⟩ :=
      lowerStmts_eq env body false ({ scopes := [], params := keys, inline := [] } : Ctx).push seB hbody
        (fun _ => rfl) hrB.push (by simp [Ctx.push])
    rcases hss : specStmts env body seB with ⟨r3, se'⟩
    rw [hss] at h3 hr3
    have h4 := lowerExpr_eq env tail false c3 se' htail (fun _ => by rw [hin3]; rfl) hr3
    have hfin : ({ scopes := c1.scopes, params := c1.params, inline := c3.pop.inline } : Ctx) = c := by
      cases c; simp_all [Ctx.pop, Ctx.push]
    simp only [lowerExpr, specExpr, hci, List.isEmpty_nil, if_true, h1, h2, h3, h4, hsp, hss, hfin,
      List.append_assoc]
  | .comptime e => by
    intro h c se hok hi hr
    simp only [okExpr] at hok
    have h1 := lowerExpr_eq env e h { scopes := [], params := [], inline := c.inline } _ hok hi hr.comptime
    simp only [lowerExpr, specExpr, h1]
theorem lowerExprs_eq (env : Env) : (es : Exprs) → ∀ (h : Bool) (c : Ctx) (se : SEnv),
    okExprs h es = true → (h = false → c.inline = []) → Rel env c se →
    lowerExprs true env es c = some (c, specExprs env es se)
  | .nil => by intro h c se _ _ _; simp [lowerExprs, specExprs]
  | .cons e rest => by
    intro h c se hok hi hr
    simp only [okExprs, Bool.and_eq_true] at hok
    have h1 := lowerExpr_eq env e h c se hok.1 hi hr
    have h2 := lowerExprs_eq env rest h c se hok.2 hi hr
    simp only [lowerExprs, specExprs, h1, h2]
theorem lowerStmts_eq (env : Env) : (ss : Stmts) → ∀ (h : Bool) (c : Ctx) (se : SEnv),
    okStmts h ss = true → (h = false → c.inline = []) → Rel env c se → c.scopes ≠ [] →
    ∃ c', lowerStmts true env ss c = some (c', (specStmts env ss se).1) ∧
      Rel env c' (specStmts env ss se).2 ∧ c'.scopes.tail = c.scopes.tail ∧ c'.scopes ≠ [] ∧
      c'.params = c.params ∧ c'.inline = c.inline
  | .nil => by
    intro h c se _ _ hr hne
    exact ⟨c, by simp [lowerStmts, specStmts], by simpa [specStmts] using hr, rfl, hne, rfl, rfl⟩
  | .defn x tag ty val rest => by
    intro h c se hok hi hr hne
    simp only [okStmts, Bool.and_eq_true, Bool.not_eq_true'] at hok
    obtain ⟨⟨⟨hh, hty⟩, hval⟩, hrest⟩ := hok
    have hci : c.inline = [] := hi hh
    have h1 := lowerExpr_eq env ty h c se hty hi hr
    have h2 := lowerExpr_eq env val h c se hval hi hr
    rcases hs : c.scopes with _ | ⟨s, srest⟩
    · exact absurd hs hne
    · have hr' := hr.insert hci s srest hs x (.defn tag)
      obtain ⟨c', h3, hr3, htl, hne', hp, hin⟩ :=
        lowerStmts_eq env rest h { c with scopes := ((x, .defn tag) :: s) :: srest } _ hrest
          (fun _ => hci) hr' (by simp)
      refine ⟨c', ?_, ?_, ?_, hne', hp, hin⟩
      · rcases hsp : specStmts env rest ((x, .local tag) :: se) with ⟨r, se'⟩
        simp only [Local.res] at h3
        rw [hsp] at h3
        simp only [lowerStmts, specStmts, h1, h2, Ctx.insert, hs, h3, hsp, List.append_assoc]
      · rcases hsp : specStmts env rest ((x, .local tag) :: se) with ⟨r, se'⟩
        simp only [Local.res] at hr3
        rw [hsp] at hr3
        simpa only [specStmts, hsp] using hr3
      · simpa [hs] using htl
  | .expr e rest => by
    intro h c se hok hi hr hne
    simp only [okStmts, Bool.and_eq_true] at hok
    have h1 := lowerExpr_eq env e h c se hok.1 hi hr
    obtain ⟨c', h3, hr3, htl, hne', hp, hin⟩ := lowerStmts_eq env rest h c se hok.2 hi hr hne
    refine ⟨c', ?_, ?_, htl, hne', hp, hin⟩
    · rcases hsp : specStmts env rest se with ⟨r, se'⟩
      rw [hsp] at h3
      simp only [lowerStmts, specStmts, h1, h3, hsp]
    · rcases hsp : specStmts env rest se with ⟨r, se'⟩
      rw [hsp] at hr3
      simpa only [specStmts, hsp] using hr3
theorem lowerArms_eq (env : Env) (arg : Option Nat) : (arms : Arms) → ∀ (h : Bool) (c : Ctx) (se : SEnv),
    okArms h arms = true → (h = true → arg = none) → (h = false → c.inline = []) → Rel env c se →
    lowerArms true env arg arms c = some (c, specArms env arg arms se)
  | .nil => by intro h c se _ _ _ _; simp [lowerArms, specArms]
  | .cons tag variant body rest => by
    intro h c se hok harg hi hr
    simp only [okArms, Bool.and_eq_true] at hok
    have h1 := lowerExpr_eq env variant h c se hok.1.1 hi hr
    have h3 := lowerArms_eq env arg rest h c se hok.2 harg hi hr
    cases arg with
    | none =>
      have h2 := lowerExpr_eq env body h c.push se hok.1.2 (by simpa [Ctx.push] using hi) hr.push
      have hpop : c.push.pop = c := by cases c; rfl
      simp only [lowerArms, specArms, h1, if_true, Ctx.insertArg, bindArg, h2, hpop, h3,
        List.append_assoc]
    | some a =>
      have hh : h = false := by
        cases h
        · rfl
        · exact absurd (harg rfl) (by simp)
      have hci : c.inline = [] := hi hh
      have hr' := hr.push.insert (by simpa [Ctx.push] using hci) [] c.scopes (by simp [Ctx.push]) a
        (.switchArm tag)
      have h2 := lowerExpr_eq env body h _ _ hok.1.2 (fun _ => by simpa [Ctx.push] using hci) hr'
      have hpop : ({ c.push with scopes := [(a, Local.switchArm tag)] :: c.scopes } : Ctx).pop = c := by
        cases c; rfl
      simp only [Local.res] at h2
      simp only [lowerArms, specArms, h1, if_true, Ctx.insertArg, Ctx.insert, Ctx.push, bindArg,
        List.append_assoc]
      simp only [Ctx.push] at h2 hpop
      simp only [h2, hpop, h3]
theorem lowerParams_eq (env : Env) : (ps : Params) →
    ∀ (h : Bool) (idx cidx : Nat) (keys : List (Nat × PInfo)) (c : Ctx) (seH seB : SEnv),
    okParams h ps = true → (h = false → c.inline = []) → Rel env c seH →
    Rel env { scopes := [], params := keys, inline := [] } seB →
    ∃ c1 keys', lowerParams true env ps idx cidx keys c =
        some (c1, keys', (specParams env ps idx cidx seH seB).1) ∧
      c1.scopes = c.scopes ∧ c1.params = c.params ∧ (ps.isNil = true → c1.inline = c.inline) ∧
      Rel env c1 (specParams env ps idx cidx seH seB).2.1 ∧
      Rel env { scopes := [], params := keys', inline := [] } (specParams env ps idx cidx seH seB).2.2
  | .nil => by
    intro h idx cidx keys c seH seB _ _ hr hb
    exact ⟨c, keys, by simp [lowerParams, specParams], rfl, rfl, fun _ => rfl,
      by simpa [specParams] using hr, by simpa [specParams] using hb⟩
  | .cons x tag ct ty rest => by
    intro h idx cidx keys c seH seB hok hi hr hb
    simp only [okParams, Bool.and_eq_true] at hok
    have h1 := lowerExpr_eq env ty h c seH hok.1 hi hr
    obtain ⟨c1, keys', h2, hsc, hpa, _, hrH, hrB⟩ :=
      lowerParams_eq env rest true (idx + 1) (if ct then cidx + 1 else cidx)
        ((x, paramInfo tag idx ct cidx) :: keys)
        { c with inline := (x, paramInfo tag idx ct cidx) :: c.inline } _ _ hok.2 (by simp)
        (hr.header x tag ct idx cidx) (hb.bodyParam x tag ct idx cidx)
    rcases hsp : specParams env rest (idx + 1) (if ct then cidx + 1 else cidx)
      (headerBinding x tag ct idx cidx :: seH) (bodyBinding x tag ct idx cidx :: seB) with ⟨r, seH', seB'⟩
    rw [hsp] at h2 hrH hrB
    refine ⟨c1, keys', ?_, hsc, hpa, by simp [Params.isNil], ?_, ?_⟩
    · simp only [lowerParams, specParams, h1, h2, hsp]
    · simpa only [specParams, hsp] using hrH
    · simpa only [specParams, hsp] using hrB
end


/-- the environment of a lambda body does not depend on the lambda's surroundings -/
theorem specParams_body_indep (env : Env) : (ps : Params) → ∀ (idx cidx : Nat) (a a' b : SEnv),
    (specParams env ps idx cidx a b).2.2 = (specParams env ps idx cidx a' b).2.2
  | .nil => by intros; simp [specParams]
  | .cons x tag ct ty rest => by
    intro idx cidx a a' b
    simp only [specParams]
    exact specParams_body_indep env rest _ _ _ _ _

theorem lowerGlobals_eq (env : Env) : (gs : List Global) → okGlobals gs = true → ∀ c : Ctx,
    c.inline = [] → Rel env c [] → lowerGlobals true env gs c = some (c, specGlobals env gs)
  | [], _, c, _, _ => by simp [lowerGlobals, specGlobals]
  | g :: rest, hok, c, hi, hr => by
    simp only [okGlobals, Bool.and_eq_true] at hok
    have h1 := lowerExpr_eq env g.ty false c [] hok.1.1 (fun _ => hi) hr
    have h2 := lowerExpr_eq env g.val false c [] hok.1.2 (fun _ => hi) hr
    have h3 := lowerGlobals_eq env rest hok.2 c hi hr
    simp only [lowerGlobals, specGlobals, h1, h2, h3, List.append_assoc]

end CapyV.Scope
