import CapyV.Model.TyRel
/-! Helper lemmas about the type relations (C12 / C13). Proof pattern: induction on a bound of
`Ty.nodes`, unfolding one step with `f.eq_def` and `split` (one goal per Rust arm, later arms
carry the negated earlier patterns). -/
namespace CapyV.Ty

theorem nodes_pos (t : Ty) : 0 < t.nodes := by
  cases t <;> simp [Ty.nodes]

theorem canFitInto_refl (a : Ty) : canFitInto a a = true := by
  rw [canFitInto.eq_def]; simp

theorem maxNum_ge_left (x y : Nat) : x ≤ maxNum x y := by unfold maxNum; split <;> omega
theorem maxNum_ge_right (x y : Nat) : y ≤ maxNum x y := by unfold maxNum; split <;> omega
theorem maxNum_comm (x y : Nat) : maxNum x y = maxNum y x := by
  unfold maxNum; split <;> split <;> omega

/-! ### `is_weak_replaceable_by` -/

theorem weak_distinct_false_aux : ∀ (n : Nat) (u : Nat) (s b : Ty), b.nodes ≤ n →
    isWeakReplaceableBy (.distinct u s) b = false := by
  intro n
  induction n with
  | zero => intro u s b h; have := nodes_pos b; omega
  | succ n ih =>
    intro u s b h
    rw [isWeakReplaceableBy.eq_def]
    split
    all_goals first | rfl | contradiction | skip
    all_goals (apply ih; simp only [Ty.nodes] at h; omega)

/-- a value of a `distinct` type is never weak-replaceable -/
theorem weak_distinct_false (u : Nat) (s b : Ty) :
    isWeakReplaceableBy (.distinct u s) b = false :=
  weak_distinct_false_aux _ u s b (Nat.le_refl _)

theorem fit_into_distinct (a : Ty) (u : Nat) (ty : Ty) (h : canFitInto a ty = true)
    (hd : ∀ u' s, a ≠ .distinct u' s) : canFitInto a (.distinct u ty) = true := by
  rw [canFitInto.eq_def]
  split
  · rfl
  · split
    all_goals first | rfl | contradiction | (simp_all; done)

theorem fit_into_optional (a es : Ty) (h : canFitInto a es = true)
    (hd : ∀ fs, a ≠ .optional fs) : canFitInto a (.optional es) = true := by
  rw [canFitInto.eq_def]
  split
  · rfl
  · split
    all_goals first | rfl | contradiction | (simp_all; done)

theorem fit_into_errorUnion (a e p : Ty) (h : canFitInto a e = true ∨ canFitInto a p = true)
    (hd : ∀ e' p', a ≠ .errorUnion e' p') : canFitInto a (.errorUnion e p) = true := by
  rw [canFitInto.eq_def]
  split
  · rfl
  · split
    all_goals first | rfl | contradiction | (simp_all; done)

theorem weak_fit_aux : ∀ (n : Nat) (a b : Ty), b.nodes ≤ n → elemEquivFits a b = true →
    isWeakReplaceableBy a b = true → canFitInto a b = true := by
  intro n
  induction n with
  | zero => intro a b h; have := nodes_pos b; omega
  | succ n ih =>
    intro a b hn hg h
    rw [isWeakReplaceableBy.eq_def] at h
    split at h
    · rw [canFitInto.eq_def]; simp_all
    · rw [canFitInto.eq_def]; simp_all
    · rw [canFitInto.eq_def]; simp_all; omega
    · rw [canFitInto.eq_def]; simp_all
    · rw [canFitInto.eq_def]; simp_all
    · rw [canFitInto.eq_def]; simp_all
    · -- anonymous array → array
      rename_i n' fs m' es
      simp only [Ty.nodes] at hn
      simp only [elemEquivFits, Bool.and_eq_true, Bool.or_eq_true, Bool.not_eq_true'] at hg
      simp only [Bool.and_eq_true, Bool.or_eq_true, beq_iff_eq] at h
      rw [canFitInto.eq_def]
      simp only [reduceCtorEq, ↓reduceIte, Bool.and_eq_true, beq_iff_eq]
      refine ⟨h.1, ?_⟩
      rcases h.2 with hw | hf
      · exact ih fs es (by omega) hg.2 hw
      · rcases hg.1 with hnf | hfit
        · rw [hnf] at hf; cases hf
        · exact hfit
    · -- anonymous array → slice
      rename_i n' fs es
      simp only [Ty.nodes] at hn
      simp only [elemEquivFits, Bool.and_eq_true, Bool.or_eq_true, Bool.not_eq_true'] at hg
      simp only [Bool.or_eq_true] at h
      rw [canFitInto.eq_def]
      simp only [reduceCtorEq, ↓reduceIte]
      rcases h with hw | hf
      · exact ih fs es (by omega) hg.2 hw
      · rcases hg.1 with hnf | hfit
        · rw [hnf] at hf; cases hf
        · exact hfit
    · rw [canFitInto.eq_def]; simp_all
    · rw [canFitInto.eq_def]; simp_all
    · exact h
    · exact h
    · -- (found, distinct)
      rename_i uid ty
      simp only [Ty.nodes] at hn
      have hg' : elemEquivFits a ty = true := by
        unfold elemEquivFits at hg
        split at hg <;> simp_all
      apply fit_into_distinct
      · exact ih a ty (by omega) hg' h
      · intro u' s hEq; subst hEq; rw [weak_distinct_false] at h; cases h
    · -- (optional, optional)
      rename_i fs es
      simp only [Ty.nodes] at hn
      simp only [elemEquivFits] at hg
      rw [canFitInto.eq_def]
      simp only [Ty.optional.injEq]
      split
      · rfl
      · exact ih fs es (by omega) hg h
    · -- (found, optional)
      rename_i es hno
      simp only [Ty.nodes] at hn
      have hg' : elemEquivFits a es = true := by
        unfold elemEquivFits at hg
        split at hg <;> simp_all
      apply fit_into_optional
      · exact ih a es (by omega) hg' h
      · intro fs hEq; exact hno fs hEq
    · rw [canFitInto.eq_def]; simp_all
    · cases h

/-! ### `max` accepts both operands (under `maxPlain`) -/

macro "numfin" : tactic =>
  `(tactic| (rw [canFitInto.eq_def] <;> simp [maxNum] <;> (try (repeat' split)) <;> (try simp) <;> (try omega)))

theorem acceptsIn_of_fit (top : Bool) (x m : Ty) (h : canFitInto x m = true) : acceptsIn top x m = true := by
  simp [acceptsIn, h]

theorem fit_unknown (b : Ty) : canFitInto .unknown b = true := by
  rw [canFitInto.eq_def]; split <;> simp
theorem fit_alwaysJumps (b : Ty) : canFitInto .alwaysJumps b = true := by
  rw [canFitInto.eq_def]
  split
  · rfl
  · split
    all_goals first | rfl | contradiction | (simp_all; done)

theorem maxFrom22_ok (top : Bool) (a b m : Ty) (h : maxFrom22 a b = .ok (some m)) :
    acceptsIn top a m = true ∧ acceptsIn top b m = true := by
  unfold maxFrom22 at h
  split at h
  all_goals (simp only [MaxOut.ok.injEq, Option.some.injEq, reduceCtorEq] at h)
  all_goals (try subst h)
  all_goals (constructor <;> apply acceptsIn_of_fit <;>
    first | exact canFitInto_refl _ | exact fit_unknown _ | exact fit_alwaysJumps _)

theorem maxFrom21_ok (top : Bool) (a b m : Ty) (hg : top = true ∨ yieldsTypeArm a b = false)
    (h : maxFrom21 a b = .ok (some m)) :
    acceptsIn top a m = true ∧ acceptsIn top b m = true := by
  unfold maxFrom21 at h
  split at h
  · split at h
    · rcases hg with ht | hy
      · simp only [MaxOut.ok.injEq, Option.some.injEq] at h
        subst h; subst ht
        simp_all [acceptsIn, canFitInto_refl]
      · simp [yieldsTypeArm] at hy
    · exact maxFrom22_ok top _ _ m h
  · split at h
    · rcases hg with ht | hy
      · simp only [MaxOut.ok.injEq, Option.some.injEq] at h
        subst h; subst ht
        simp_all [acceptsIn, canFitInto_refl]
      · rename_i other _ _; cases other <;> simp [yieldsTypeArm] at hy
    · exact maxFrom22_ok top _ _ m h
  · exact maxFrom22_ok top _ _ m h

theorem maxFrom20_ok (top : Bool) (a b m : Ty) (hg : top = true ∨ yieldsTypeArm a b = false)
    (hne : ∀ e p e' p', a = .errorUnion e p → b = .errorUnion e' p' → False)
    (h : maxFrom20 a b = .ok (some m)) :
    acceptsIn top a m = true ∧ acceptsIn top b m = true := by
  unfold maxFrom20 at h
  split at h
  · split at h
    · rename_i e p x hc
      simp only [MaxOut.ok.injEq, Option.some.injEq] at h
      subst h
      refine ⟨acceptsIn_of_fit _ _ _ (canFitInto_refl _), acceptsIn_of_fit _ _ _ ?_⟩
      apply fit_into_errorUnion
      · simpa using hc
      · intro e' p' hx; exact hne _ _ _ _ rfl hx
    · exact maxFrom21_ok top _ _ m hg h
  · split at h
    · rename_i x e p _ hc
      simp only [MaxOut.ok.injEq, Option.some.injEq] at h
      subst h
      refine ⟨acceptsIn_of_fit _ _ _ ?_, acceptsIn_of_fit _ _ _ (canFitInto_refl _)⟩
      apply fit_into_errorUnion
      · simpa using hc
      · intro e' p' hx; exact hne _ _ _ _ hx rfl
    · exact maxFrom21_ok top _ _ m hg h
  · exact maxFrom21_ok top _ _ m hg h


theorem maxPlain_leaf (top : Bool) (a b : Ty)
    (h1 : ∀ l r, a = .optional l → b = .optional r → False)
    (h2 : ∀ e p e' p', a = .errorUnion e p → b = .errorUnion e' p' → False) :
    maxPlain top a b = (!isDistinct a && !isDistinct b && (top || !yieldsTypeArm a b)) := by
  unfold maxPlain
  split
  · exact absurd rfl (fun h => h1 _ _ h rfl)
  · exact absurd rfl (fun h => h2 _ _ _ _ h rfl)
  · rfl

theorem leaf_guard {top : Bool} {a b : Ty}
    (h : (!isDistinct a && !isDistinct b && (top || !yieldsTypeArm a b)) = true) :
    isDistinct a = false ∧ isDistinct b = false ∧ (top = true ∨ yieldsTypeArm a b = false) := by
  simpa [Bool.and_eq_true, and_assoc] using h

theorem fit_optional_optional (l m : Ty) (h : canFitInto l m = true) :
    canFitInto (.optional l) (.optional m) = true := by
  rw [canFitInto.eq_def]; split
  · rfl
  · simpa using h

theorem fit_nil_optional (s : Ty) : canFitInto .nil (.optional s) = true := by
  rw [canFitInto.eq_def]; simp

theorem fit_eu_eu (le lp e p : Ty) (h1 : canFitInto le e = true) (h2 : canFitInto lp p = true) :
    canFitInto (.errorUnion le lp) (.errorUnion e p) = true := by
  rw [canFitInto.eq_def]; split
  · rfl
  · simp [h1, h2]

theorem fit_of_acceptsIn_false {x m : Ty} (h : acceptsIn false x m = true) : canFitInto x m = true := by
  simpa [acceptsIn] using h

theorem max_accepts_aux (tbl : Nat → Option Ty) (htbl : TableOk tbl) :
    ∀ (n : Nat) (top : Bool) (a b m : Ty), a.nodes ≤ n → maxPlain top a b = true →
      maxTy tbl a b = .ok (some m) → acceptsIn top a m = true ∧ acceptsIn top b m = true := by
  intro n
  induction n with
  | zero => intro top a b m h; have := nodes_pos a; omega
  | succ n ih =>
    intro top a b m hn hg h
    rw [maxTy.eq_def] at h
    simp only at h
    split at h
    · rename_i hab
      simp only [MaxOut.ok.injEq, Option.some.injEq] at h
      subst h; subst hab
      exact ⟨acceptsIn_of_fit _ _ _ (canFitInto_refl _), acceptsIn_of_fit _ _ _ (canFitInto_refl _)⟩
    · split at h
      all_goals try (first |
        ((repeat' (split at h)) <;>
         (simp only [MaxOut.ok.injEq, Option.some.injEq, reduceCtorEq] at h) <;>
         (subst h) <;>
         (constructor <;> apply acceptsIn_of_fit <;> rw [canFitInto.eq_def] <;> simp <;>
           (first | done | (rename_i x y _; have := maxNum_ge_left x y; have := maxNum_ge_right x y; omega) | omega)) <;> done))
      · -- iint / iint
        simp only [MaxOut.ok.injEq, Option.some.injEq] at h; subst h
        constructor <;> apply acceptsIn_of_fit <;> numfin
      · simp only [MaxOut.ok.injEq, Option.some.injEq] at h; subst h
        constructor <;> apply acceptsIn_of_fit <;> numfin
      iterate 4
        · -- int / float
          split at h
          · rename_i hc
            simp only [MaxOut.ok.injEq, Option.some.injEq] at h; subst h
            simp only [Bool.and_eq_true, decide_eq_true_eq, beq_iff_eq] at hc
            constructor <;> apply acceptsIn_of_fit <;> numfin
          · split at h
            · simp only [MaxOut.ok.injEq, Option.some.injEq] at h; subst h
              constructor <;> apply acceptsIn_of_fit <;> numfin
            · cases h
      · -- (_, distinct): excluded by the guard
        rename_i uid sub _
        rw [maxPlain_leaf _ _ _ (by intro l r _ h2; cases h2) (by intro e p e' p' _ h2; cases h2)] at hg
        simp [isDistinct] at hg
      · rename_i uid sub _
        rw [maxPlain_leaf _ _ _ (by intro l r h1 _; cases h1) (by intro e p e' p' h1 _; cases h1)] at hg
        simp [isDistinct] at hg
      · -- variant / variant
        rw [maxPlain_leaf _ _ _ (by intro l r h1 _; cases h1) (by intro e p e' p' h1 _; cases h1)] at hg
        split at h
        · rename_i heq
          split at h
          · rename_i e he
            simp only [MaxOut.ok.injEq, Option.some.injEq] at h; subst h
            obtain ⟨vs, rfl⟩ := htbl _ _ he
            simp only [beq_iff_eq] at heq
            constructor <;> apply acceptsIn_of_fit <;> rw [canFitInto.eq_def] <;> simp [heq]
          · cases h
        · split at h
          · rename_i hne hz
            simp only [MaxOut.ok.injEq, Option.some.injEq] at h; subst h
            simp only [Bool.and_eq_true] at hz
            simp [isDistinct, yieldsTypeArm] at hg
            simp [acceptsIn, hz.1, hz.2]
            rcases hg with ht | ht
            · exact ⟨Or.inl ht, Or.inl ht⟩
            · simp_all
          · cases h
      · -- variant / its enum
        rw [maxPlain_leaf _ _ _ (by intro l r h1 _; cases h1) (by intro e p e' p' h1 _; cases h1)] at hg
        obtain ⟨_, _, hty⟩ := leaf_guard hg
        split at h
        · rename_i heq
          simp only [MaxOut.ok.injEq, Option.some.injEq] at h; subst h
          simp only [beq_iff_eq] at heq
          refine ⟨acceptsIn_of_fit _ _ _ ?_, acceptsIn_of_fit _ _ _ (canFitInto_refl _)⟩
          rw [canFitInto.eq_def]; simp [heq]
        · exact maxFrom20_ok top _ _ m hty (by intro e p e' p' h1 _; cases h1) h
      · rw [maxPlain_leaf _ _ _ (by intro l r h1 _; cases h1) (by intro e p e' p' h1 _; cases h1)] at hg
        obtain ⟨_, _, hty⟩ := leaf_guard hg
        split at h
        · rename_i heq
          simp only [MaxOut.ok.injEq, Option.some.injEq] at h; subst h
          simp only [beq_iff_eq] at heq
          refine ⟨acceptsIn_of_fit _ _ _ (canFitInto_refl _), acceptsIn_of_fit _ _ _ ?_⟩
          rw [canFitInto.eq_def]; simp [heq]
        · exact maxFrom20_ok top _ _ m hty (by intro e p e' p' h1 _; cases h1) h
      · -- optional / optional
        rename_i l r _
        simp only [maxPlain] at hg
        simp only [Ty.nodes] at hn
        split at h
        · cases h
        · cases h
        · rename_i m' hrec
          simp only [MaxOut.ok.injEq, Option.some.injEq] at h; subst h
          obtain ⟨h1, h2⟩ := ih false l r m' (by omega) hg hrec
          exact ⟨acceptsIn_of_fit _ _ _ (fit_optional_optional _ _ (fit_of_acceptsIn_false h1)),
                 acceptsIn_of_fit _ _ _ (fit_optional_optional _ _ (fit_of_acceptsIn_false h2))⟩
      · -- (optional s, b), b neither optional nor nil
        rename_i s _ _ hbo _
        rw [maxPlain_leaf _ _ _ (by intro l r _ h2; exact hbo _ h2) (by intro e p e' p' h1 _; cases h1)] at hg
        obtain ⟨_, _, hty⟩ := leaf_guard hg
        split at h
        · rename_i hc
          simp only [MaxOut.ok.injEq, Option.some.injEq] at h; subst h
          exact ⟨acceptsIn_of_fit _ _ _ (canFitInto_refl _),
                 acceptsIn_of_fit _ _ _ (fit_into_optional _ _ hc (fun fs hb => hbo _ hb))⟩
        · exact maxFrom20_ok top _ _ m hty (by intro e p e' p' h1 _; cases h1) h
      · rename_i _ hao _ _
        rw [maxPlain_leaf _ _ _ (by intro l r h1 _; exact hao _ h1) (by intro e p e' p' _ h2; cases h2)] at hg
        obtain ⟨_, _, hty⟩ := leaf_guard hg
        split at h
        · rename_i hc
          simp only [MaxOut.ok.injEq, Option.some.injEq] at h; subst h
          exact ⟨acceptsIn_of_fit _ _ _ (fit_into_optional _ _ hc (fun fs hb => hao _ hb)),
                 acceptsIn_of_fit _ _ _ (canFitInto_refl _)⟩
        · exact maxFrom20_ok top _ _ m hty (by intro e p e' p' _ h2; cases h2) h
      · -- (nil, b)
        rename_i _ _ hbo _
        simp only [MaxOut.ok.injEq, Option.some.injEq] at h; subst h
        exact ⟨acceptsIn_of_fit _ _ _ (fit_nil_optional _),
               acceptsIn_of_fit _ _ _ (fit_into_optional _ _ (canFitInto_refl _) (fun fs hb => hbo _ hb))⟩
      · rename_i _ hao _ _
        simp only [MaxOut.ok.injEq, Option.some.injEq] at h; subst h
        exact ⟨acceptsIn_of_fit _ _ _ (fit_into_optional _ _ (canFitInto_refl _) (fun fs hb => hao _ hb)),
               acceptsIn_of_fit _ _ _ (fit_nil_optional _)⟩
      · -- error union / error union
        rename_i le lp re rp _
        simp only [maxPlain, Bool.and_eq_true] at hg
        simp only [Ty.nodes] at hn
        split at h
        · cases h
        · cases h
        · rename_i e hrec1
          split at h
          · cases h
          · cases h
          · rename_i p hrec2
            simp only [MaxOut.ok.injEq, Option.some.injEq] at h; subst h
            obtain ⟨h1, h2⟩ := ih false le re e (by omega) hg.1 hrec1
            obtain ⟨h3, h4⟩ := ih false lp rp p (by omega) hg.2 hrec2
            exact ⟨acceptsIn_of_fit _ _ _ (fit_eu_eu _ _ _ _ (fit_of_acceptsIn_false h1) (fit_of_acceptsIn_false h3)),
                   acceptsIn_of_fit _ _ _ (fit_eu_eu _ _ _ _ (fit_of_acceptsIn_false h2) (fit_of_acceptsIn_false h4))⟩
      · -- every other pair
        rename_i hoo _ _ _ hee
        rw [maxPlain_leaf _ _ _ hoo hee] at hg
        obtain ⟨_, _, hty⟩ := leaf_guard hg
        exact maxFrom20_ok top _ _ m hty hee h





/-! ### `max` is symmetric (under `commOk`) -/

theorem hasSem_distinct_distinct (u u' : Nat) (s t : Ty) (h : u ≠ u') :
    hasSemanticsOf (.distinct u s) (.distinct u' t) = false := by
  rw [hasSemanticsOf.eq_def]
  simp [h]
  rw [canFitInto.eq_def]
  simp [h]

theorem comm_ii (tbl : Nat → Option Ty) (x y : Nat) : maxTy tbl (.iint x) (.iint y) = maxTy tbl (.iint y) (.iint x) := by
  by_cases h : x = y
  · subst h; rfl
  · have h' : ¬ y = x := fun e => h e.symm
    cases x <;> cases y <;> simp_all [maxTy, maxNum_comm]
theorem comm_uu (tbl : Nat → Option Ty) (x y : Nat) : maxTy tbl (.uint x) (.uint y) = maxTy tbl (.uint y) (.uint x) := by
  by_cases h : x = y
  · subst h; rfl
  · have h' : ¬ y = x := fun e => h e.symm
    cases x <;> cases y <;> simp_all [maxTy, maxNum_comm]
theorem comm_ff (tbl : Nat → Option Ty) (x y : Nat) : maxTy tbl (.float x) (.float y) = maxTy tbl (.float y) (.float x) := by
  by_cases h : x = y
  · subst h; rfl
  · have h' : ¬ y = x := fun e => h e.symm
    cases x <;> cases y <;> simp_all [maxTy, maxNum_comm]
theorem comm_iu (tbl : Nat → Option Ty) (x y : Nat) : maxTy tbl (.iint x) (.uint y) = maxTy tbl (.uint y) (.iint x) := by
  cases x <;> cases y <;> simp_all [maxTy]
theorem comm_if (tbl : Nat → Option Ty) (x y : Nat) : maxTy tbl (.iint x) (.float y) = maxTy tbl (.float y) (.iint x) := by
  cases x <;> cases y <;> simp_all [maxTy]
theorem comm_uf (tbl : Nat → Option Ty) (x y : Nat) : maxTy tbl (.uint x) (.float y) = maxTy tbl (.float y) (.uint x) := by
  cases x <;> cases y <;> simp_all [maxTy]

set_option maxHeartbeats 4000000 in
theorem max_comm_aux (tbl : Nat → Option Ty) : ∀ (n : Nat) (a b : Ty), a.nodes ≤ n → commOk a b = true →
    maxTy tbl a b = maxTy tbl b a := by
  intro n
  induction n with
  | zero => intro a b h; have := nodes_pos a; omega
  | succ n ih =>
    intro a b hn hg
    by_cases hab : a = b
    · subst hab; rfl
    · have hba : ¬ b = a := fun e => hab e.symm
      unfold commOk at hg
      cases a <;> cases b <;>
        first
        | (clear ih; simp_all [maxTy, maxFrom20, maxFrom21, maxFrom22, isMarker, hasSem_distinct_distinct]; done)
        | exact comm_ii _ _ _ | exact comm_uu _ _ _ | exact comm_ff _ _ _
        | exact comm_iu _ _ _ | exact (comm_iu _ _ _).symm
        | exact comm_if _ _ _ | exact (comm_if _ _ _).symm
        | exact comm_uf _ _ _ | exact (comm_uf _ _ _).symm
        | skip
      all_goals try (first
        | (clear ih hg; simp only [maxTy, hab, hba, ↓reduceIte, maxFrom20, maxFrom21, maxFrom22]; done))
      · -- distinct / distinct: different uids by the guard
        rename_i u s u' t
        have hu : u ≠ u' := by
          have : (Ty.distinct u s == Ty.distinct u' t) = false := by simpa using hab
          simpa [this] using hg
        simp only [maxTy, hab, hba, ↓reduceIte, hasSem_distinct_distinct _ _ _ _ hu,
          hasSem_distinct_distinct _ _ _ _ (Ne.symm hu), Bool.false_eq_true]
      · -- variant / variant
        rename_i eu nm u s d eu' nm' u' s' d'
        simp only [maxTy, hab, hba, ↓reduceIte]
        by_cases he : eu = eu'
        · subst he; simp
        · have he' : ¬ eu' = eu := fun e => he e.symm
          simp [he, he', Bool.and_comm]
      · -- optional / optional
        rename_i l r
        have hlr : ¬ l = r := fun e => hab (by rw [e])
        have hg' : commOk l r = true := by
          have : (Ty.optional l == Ty.optional r) = false := by simpa using hlr
          simpa [this] using hg
        simp only [Ty.nodes] at hn
        simp only [maxTy, hab, hba, ↓reduceIte]
        rw [ih l r (by omega) hg']
      · -- error union / error union
        rename_i le lp re rp
        have hg' : commOk le re = true ∧ commOk lp rp = true := by
          have : (Ty.errorUnion le lp == Ty.errorUnion re rp) = false := by simpa using hab
          simpa [this] using hg
        simp only [Ty.nodes] at hn
        simp only [maxTy, hab, hba, ↓reduceIte]
        rw [ih le re (by omega) hg'.1, ih lp rp (by omega) hg'.2]



/-! ### casts between a distinct type and its underlying type -/

theorem canFitInto_imp_canCastTo (a b : Ty) (h : canFitInto a b = true) : canCastTo a b = true := by
  rw [canCastTo.eq_def]; simp [h]

theorem canCastTo_refl (a : Ty) : canCastTo a a = true := canFitInto_imp_canCastTo a a (canFitInto_refl a)

theorem cast_distinct_aux : ∀ (n : Nat) (s : Ty), s.nodes ≤ n →
    ∀ u, canCastTo (.distinct u s) s = true ∧ canCastTo s (.distinct u s) = true := by
  intro n
  induction n with
  | zero => intro s h; have := nodes_pos s; omega
  | succ n ih =>
    intro s hn u
    constructor
    · rw [canCastTo.eq_def]
      split
      · rfl
      · split
        all_goals first | rfl | contradiction | exact canCastTo_refl _ | skip
        · rename_i heq
          cases heq
          simp only [Ty.nodes] at hn
          exact (ih _ (by omega) _).1
        · rename_i heq
          cases heq
          exact canCastTo_refl _
        · simp only [Ty.nodes] at hn
          exact (ih _ (by omega) _).1
        · exfalso
          have := ‹∀ (uid : Nat) (f : Ty), Ty.distinct u _ = Ty.distinct uid f → False›
          exact this _ _ rfl
    · by_cases hd : ∃ u' s', s = .distinct u' s'
      · obtain ⟨u', s', rfl⟩ := hd
        simp only [Ty.nodes] at hn
        rw [canCastTo.eq_def]
        split
        · rfl
        · simp only
          exact (ih s' (by omega) u').2
      · apply canFitInto_imp_canCastTo
        apply fit_into_distinct _ _ _ (canFitInto_refl _)
        intro u' s' h
        exact hd ⟨u', s', h⟩


/-! ### nominal into nominal -/

theorem nominal_into_nominal_aux (a b : Ty) (ha : isNominal a = true) (hb : isNominal b = true)
    (hg : (isConcreteStruct a && isEnumVariant b) = false)
    (h : canFitInto a b = true) :
    nominalKey a = nominalKey b ∨ ∃ t, underlying b = some t ∧ canFitInto a t = true := by
  cases a <;> simp [isNominal] at ha <;> cases b <;> simp [isNominal] at hb <;>
    simp [isConcreteStruct, isEnumVariant] at hg <;>
    rw [canFitInto.eq_def] at h <;> simp [nominalKey, underlying] at h ⊢
  all_goals first
    | exact h
    | (rcases h with h | h <;> simp_all; done)
    | (rw [isFuncEquiv.eq_def] at h; simp at h; done)

end CapyV.Ty
