import CapyV.Proofs.Switch
/-! Helper lemmas for the dispatch theorems of C11 (jump table of a tagged union). -/
namespace CapyV.Switch
open CapyV

/-- On arms that name a variant, codegen's `arm_ty` is that variant. -/
theorem armTy_eq_names (scrut : Ty) (vts : List Ty) (a : Arm) (w : Ty)
    (hsum : variantTys scrut.absoluteTy = some vts)
    (h : names (isEnum scrut) vts a = some w) : armTy true scrut a = some w := by
  cases a with
  | qualified ty =>
    simp only [names] at h
    by_cases hm : ty ∈ vts
    · simp only [hm, if_true, Option.some.injEq] at h
      subst h; rfl
    · simp [hm] at h
  | shorthand n =>
    simp only [names] at h
    by_cases he : isEnum scrut = true
    · simp only [he, if_true] at h
      simp only [armTy, if_true]
      unfold isEnum at he
      cases hq : scrut.absoluteTy <;> simp_all [variantTys]
    · simp [he] at h

theorem nodup_map_of_inj {α β γ : Type} (l : List α) (f : α → β) (g : α → γ)
    (h : (l.map f).Nodup) (hi : ∀ x ∈ l, ∀ y ∈ l, g x = g y → f x = f y) : (l.map g).Nodup := by
  induction l with
  | nil => simp
  | cons x rest ih =>
    simp only [List.map_cons, List.nodup_cons] at h ⊢
    refine ⟨?_, ih h.2 (fun a ha b hb => hi a (by simp [ha]) b (by simp [hb]))⟩
    intro hm
    simp only [List.mem_map] at hm
    obtain ⟨y, hy, hgy⟩ := hm
    have := hi x (by simp) y (by simp [hy]) hgy.symm
    exact h.1 (by rw [this]; exact List.mem_map_of_mem hy)

/-- discriminant of the variant an arm names -/
def armDiscr (e : Bool) (vts : List Ty) (dOf : Ty → Nat) (a : Arm) : Nat :=
  match names e vts a with
  | some w => dOf w
  | none => 0

/-- The jump table: one entry per arm, keyed by the discriminant of the variant it names;
a lookup finds an arm naming a variant with that discriminant, or there is none. -/
theorem tableEntries_spec (scrut : Ty) (vts : List Ty) (dOf : Ty → Nat)
    (hsum : variantTys scrut.absoluteTy = some vts)
    (hd : ∀ v ∈ vts, taggedUnionDiscrim scrut v = some (some (dOf v)))
    (arms : List Arm)
    (hall : ∀ a ∈ arms, ∃ w, w ∈ vts ∧ names (isEnum scrut) vts a = some w) :
    ∀ i, ∃ es, tableEntries true scrut arms i = some es ∧
      es.map Prod.fst = arms.map (armDiscr (isEnum scrut) vts dOf) ∧
      ∀ tag,
        (∀ d j, es.find? (fun e => e.1 == tag) = some (d, j) →
          i ≤ j ∧ ∃ a w, arms[j - i]? = some a ∧ names (isEnum scrut) vts a = some w ∧ dOf w = tag) ∧
        (es.find? (fun e => e.1 == tag) = none →
          ∀ a ∈ arms, ∀ w, names (isEnum scrut) vts a = some w → dOf w ≠ tag) := by
  induction arms with
  | nil =>
    intro i
    refine ⟨[], rfl, rfl, ?_⟩
    intro tag
    refine ⟨?_, ?_⟩
    · intro d j h; simp at h
    · intro _ a ha; simp at ha
  | cons a rest ih =>
    intro i
    obtain ⟨w, hw, hn⟩ := hall a (by simp)
    have hty := armTy_eq_names scrut vts a w hsum hn
    have hdw := hd w hw
    obtain ⟨es, hes, hfst, hlook⟩ := ih (fun b hb => hall b (by simp [hb])) (i + 1)
    refine ⟨(dOf w, i) :: es, ?_, ?_, ?_⟩
    · simp only [tableEntries, hty, hdw, hes]
    · simp only [List.map_cons, hfst, armDiscr, hn]
    · intro tag
      by_cases ht : dOf w = tag
      · refine ⟨?_, ?_⟩
        · intro d j h
          simp only [List.find?_cons, ht, beq_self_eq_true, Option.some.injEq, Prod.mk.injEq] at h
          obtain ⟨_, hj⟩ := h
          subst hj
          refine ⟨Nat.le_refl _, a, w, ?_, hn, ht⟩
          simp
        · intro h
          simp [List.find?_cons, ht] at h
      · have hne : (dOf w == tag) = false := by simp [ht]
        refine ⟨?_, ?_⟩
        · intro d j h
          simp only [List.find?_cons, hne] at h
          obtain ⟨hle, b, u, hb, hnb, hdu⟩ := (hlook tag).1 d j h
          refine ⟨by omega, b, u, ?_, hnb, hdu⟩
          have : j - i = (j - (i + 1)) + 1 := by omega
          rw [this, List.getElem?_cons_succ]
          exact hb
        · intro h b hb u hu
          simp only [List.find?_cons, hne] at h
          simp only [List.mem_cons] at hb
          rcases hb with hb | hb
          · subst hb
            rw [hn] at hu
            cases hu
            exact ht
          · exact (hlook tag).2 h b hb u hu

end CapyV.Switch
