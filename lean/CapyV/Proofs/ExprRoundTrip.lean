import CapyV.Proofs.ExprCore
/-!
The generalised round-trip statement for C24 and its proof by structural recursion over
`Tree`/`Args` (DESIGN.md "Proof strategies"): parsing `print t ++ rest` at any minimum
binding power `m ≤ k` (where `t` was printed for level `k`) absorbs exactly the tokens of
`t` and leaves the Pratt loop at `(t, rest)`.
-/
namespace CapyV.ExprCore
open CapyV.Generated.BP

def isPre : Tree → Bool
  | .un _ _ | .ref _ _ => true
  | _ => false

def isChain : Tree → Bool
  | .bin _ _ _ | .un _ _ | .ref _ _ => false
  | _ => true

@[simp] theorem parens_length (n : Nat) (s : List Tok) : (parens n s).length = s.length + 2 * n := by
  induction n with
  | zero => simp [parens]
  | succ n ih => simp [parens, ih]; omega

theorem parens_succ_append (n : Nat) (s r : List Tok) :
    parens (n + 1) s ++ r = .lparen :: (parens n s ++ (.rparen :: r)) := by
  simp [parens]

theorem needsParen_expr0 (t : Tree) : needsParen (.expr 0) t = false := by
  cases t <;> simp [needsParen]

theorem layers_ok {d : Ctx → Tree → Nat} {c : Ctx} {t : Tree} (h : needsParen c t = true) :
    layers d c t ≥ 1 := by
  simp [layers, h]

theorem needsParen_post (t : Tree) : needsParen .postOp t = !isChain t := by
  cases t <;> rfl

theorem needsParen_pre {ndot : Bool} {t : Tree} (h : needsParen (.preOp ndot) t = false) :
    isPre t = true ∨ (isChain t = true ∧ spineHas true t = false ∧ (ndot = true → spineHas false t = false)) := by
  cases t <;> simp_all [needsParen, isPre, isChain, spineHas]

/-- parsing `s ++ rest` at level `m ≤ k` leaves the loop at `(t, rest)` -/
def ExprSpec (s : List Tok) (t : Tree) (k : Nat) : Prop :=
  ∀ m f rest, m ≤ k → Follow (k + 1) rest → f ≥ 4 * s.length + 8 →
    ∃ f', f' + 4 * s.length + 2 ≥ f ∧ parseBp f m (s ++ rest) = parseLoop f' m t rest

/-- `parse_lhs` alone consumes exactly `s` and yields `t` -/
def LhsSpec (s : List Tok) (t : Tree) : Prop :=
  ∀ f rest, f ≥ 4 * s.length + 7 → parseLhs f (s ++ rest) = some (t, rest)

/-- the same, when what follows cannot continue the operand of a prefix operator -/
def PreSpec (s : List Tok) (t : Tree) : Prop :=
  ∀ f rest, FollowAny rest → f ≥ 4 * s.length + 7 → parseLhs f (s ++ rest) = some (t, rest)

/-- `s` = a base that `parse_lhs` takes, followed by postfix-operator tokens that
`parse_post_operators` folds onto it one by one, ending at `t` (stated in continuation form:
whatever the post-operator loop returns from `(t, rest)` with any large enough fuel, it
returns from `(base, ops ++ rest)`) -/
def ChainOf (s : List Tok) (t : Tree) : Prop :=
  ∃ base bt ops, s = bt ++ ops ∧ LhsSpec bt base ∧
    ∀ nd ndot g rest, (nd = true → spineHas true t = false) → (ndot = true → spineHas false t = false) →
      g ≥ 4 * ops.length + 4 →
      ∀ R, (∀ g', g' + 4 * ops.length ≥ g → parsePost g' nd ndot t rest = some R) →
        parsePost g nd ndot base (ops ++ rest) = some R

def ArgsSpec (d : Ctx → Tree → Nat) (as : Args) : Prop :=
  ∀ f rest, f ≥ 4 * (printArgs d as).length + 10 →
    parseArgs f (printArgs d as ++ .rparen :: rest) = some (as, rest)

structure Spec (d : Ctx → Tree → Nat) (t : Tree) : Prop where
  raw : ∀ k, needsParen (.expr k) t = false → ExprSpec (printRaw d t) t k
  pre : isPre t = true → PreSpec (printRaw d t) t
  chain : isChain t = true → ChainOf (printRaw d t) t

theorem succ_of_ge {f n : Nat} (h : f ≥ n + 1) : ∃ g, f = g + 1 := ⟨f - 1, by omega⟩

/-- when the loop's result is forced: closer / weaker operator follows -/
theorem ExprSpec.done {s t k} (h : ExprSpec s t k) {rest} (hk : Follow k rest) {f} (hf : f ≥ 4 * s.length + 8) :
    parseBp f k (s ++ rest) = some (t, rest) := by
  obtain ⟨f', hf', he⟩ := h k f rest (Nat.le_refl _) (hk.mono (Nat.le_succ _)) hf
  obtain ⟨x, rfl⟩ : ∃ x, f' = x + 2 := ⟨f' - 2, by omega⟩
  rw [he, loop_stop hk]

theorem ExprSpec.weaken {s t k} (h : ExprSpec s t k) {k'} (hk : k' ≤ k) : ExprSpec s t k' := by
  intro m f rest hm hfo hf
  exact h m f rest (by omega) (hfo.mono (by omega)) hf

/-- a parenthesised expression is an operand for `parse_lhs` -/
theorem lhs_of_expr {s t} (h : ExprSpec s t 0) : LhsSpec (parens 1 s) t := by
  intro f rest hf
  simp only [parens_length] at hf
  obtain ⟨g, rfl⟩ := succ_of_ge (f := f) (n := 0) (by omega)
  have := h.done (rest := .rparen :: rest) (by simp [Follow]) (f := g) (by omega)
  simp only [parens, List.cons_append, List.append_assoc, List.nil_append]
  exact lhs_paren (by simpa using this)

theorem expr_of_lhs {s t} (h : LhsSpec s t) (k : Nat) : ExprSpec s t k := by
  intro m f rest _ _ hf
  obtain ⟨g, rfl⟩ := succ_of_ge (f := f) (n := 0) (by omega)
  exact ⟨g, by omega, bp_step (h g rest (by omega))⟩

/-- any number of parenthesis pairs, the needed one included -/
theorem expr_parens {s t} (h0 : ExprSpec s t 0) :
    ∀ n k, ExprSpec (parens (n + 1) s) t k
  | 0, k => expr_of_lhs (lhs_of_expr h0) k
  | n + 1, k => expr_of_lhs (lhs_of_expr (expr_parens h0 n 0)) k

theorem lhs_parens {s t} (h0 : ExprSpec s t 0) : ∀ n, LhsSpec (parens (n + 1) s) t
  | 0 => lhs_of_expr h0
  | n + 1 => lhs_of_expr (expr_parens h0 n 0)

/-- printed in an `expr k` position with `n` pairs of parentheses -/
theorem Spec.exprAt {d t} (h : Spec d t) (n k : Nat) (hn : needsParen (.expr k) t = true → n ≥ 1) :
    ExprSpec (parens n (printRaw d t)) t k := by
  cases n with
  | zero =>
    cases hp : needsParen (.expr k) t with
    | true => exact absurd (hn hp) (by omega)
    | false => exact h.raw k hp
  | succ n => exact expr_parens (h.raw 0 (needsParen_expr0 t)) n k

theorem Spec.lhsParens {d t} (h : Spec d t) (n : Nat) : LhsSpec (parens (n + 1) (printRaw d t)) t :=
  lhs_parens (h.raw 0 (needsParen_expr0 t)) n

theorem loop_congr {x m a ta b tb R} (h : parsePost x false false a ta = some R)
    (h' : parsePost x false false b tb = some R) :
    parseLoop (x + 1) m a ta = parseLoop (x + 1) m b tb := by
  rw [parseLoop, parseLoop]
  simp only [loopDisallowDerefs, loopDisallowDot, h, h']

theorem expr_of_chain {s t} (h : ChainOf s t) (k : Nat) : ExprSpec s t k := by
  obtain ⟨base, bt, ops, rfl, hl, hp⟩ := h
  intro m f rest _ hfo hf
  simp only [List.length_append] at hf
  obtain ⟨g, rfl⟩ := succ_of_ge (f := f) (n := 0) (by omega)
  obtain ⟨x, rfl⟩ := succ_of_ge (f := g) (n := 0) (by omega)
  have he := hp false false x rest (by simp) (by simp) (by omega) (t, rest) (by
    intro g' hg'
    obtain ⟨y, rfl⟩ := succ_of_ge (f := g') (n := 0) (by omega)
    exact post_stop hfo.any _ _ _ _)
  obtain ⟨y, rfl⟩ := succ_of_ge (f := x) (n := 0) (by omega)
  refine ⟨y + 1 + 1, by simp only [List.length_append]; omega, ?_⟩
  rw [List.append_assoc, bp_step (hl (y + 1 + 1) (ops ++ rest) (by omega))]
  exact loop_congr he (post_stop hfo.any _ _ _ _)

theorem chain_of_lhs {s t} (h : LhsSpec s t) : ChainOf s t :=
  ⟨t, s, [], by simp, h, fun _ _ g rest _ _ _ R hR => by simpa using hR g (by simp)⟩

/-- operand of a postfix operator -/
theorem Spec.postOperand {d t} (h : Spec d t) (n : Nat) (hn : needsParen .postOp t = true → n ≥ 1) :
    ChainOf (parens n (printRaw d t)) t := by
  cases n with
  | zero =>
    apply h.chain
    rw [needsParen_post] at hn
    cases hc : isChain t with
    | true => rfl
    | false => exact absurd (hn (by simp [hc])) (by omega)
  | succ n => exact chain_of_lhs (h.lhsParens n)

/-- operand of a prefix operator -/
theorem Spec.preOperand {d t} (h : Spec d t) (ndot : Bool) (n : Nat)
    (hn : needsParen (.preOp ndot) t = true → n ≥ 1) {f rest} (hr : FollowAny rest)
    (hf : f ≥ 4 * (parens n (printRaw d t)).length + 8) :
    parseExprForPrefix f ndot (parens n (printRaw d t) ++ rest) = some (t, rest) := by
  obtain ⟨g, rfl⟩ := succ_of_ge (f := f) (n := 0) (by omega)
  obtain ⟨x, rfl⟩ := succ_of_ge (f := g) (n := 0) (by omega)
  cases n with
  | succ n =>
    rw [efp_step (h.lhsParens n (x + 1) rest (by omega)), post_stop hr]
  | zero =>
    simp only [parens] at hf ⊢
    cases hp : needsParen (.preOp ndot) t with
    | true => exact absurd (hn hp) (by omega)
    | false =>
      rcases needsParen_pre hp with hpre | ⟨hc, hd, hdot⟩
      · rw [efp_step (h.pre hpre (x + 1) rest hr (by omega)), post_stop hr]
      · obtain ⟨base, bt, ops, hs, hl, hpo⟩ := h.chain hc
        rw [hs] at hf ⊢
        simp only [List.length_append] at hf
        have he := hpo true ndot (x + 1) rest (fun _ => hd) hdot (by omega) (t, rest) (by
          intro g' hg'
          obtain ⟨y, rfl⟩ := succ_of_ge (f := g') (n := 0) (by omega)
          exact post_stop hr _ _ _ _)
        rw [List.append_assoc, efp_step (hl (x + 1) (ops ++ rest) (by omega)), he]

/-- one more postfix operator on a chain -/
theorem chain_ext {s e} (h : ChainOf s e) (opT : List Tok) (t' : Tree)
    (hsp : ∀ w, spineHas w t' = false → spineHas w e = false)
    (step : ∀ nd ndot g rest, (nd = true → spineHas true t' = false) → (ndot = true → spineHas false t' = false) →
      g ≥ 4 * opT.length + 4 →
      ∀ R, (∀ g', g' + 4 * opT.length ≥ g → parsePost g' nd ndot t' rest = some R) →
        parsePost g nd ndot e (opT ++ rest) = some R) :
    ChainOf (s ++ opT) t' := by
  obtain ⟨base, bt, ops, rfl, hl, hp⟩ := h
  refine ⟨base, bt, ops ++ opT, by simp, hl, ?_⟩
  intro nd ndot g rest hnd hndot hg R hR
  simp only [List.length_append] at hg hR
  rw [List.append_assoc]
  apply hp nd ndot g (opT ++ rest) (fun h => hsp _ (hnd h)) (fun h => hsp _ (hndot h)) (by omega)
  intro g1 hg1
  apply step nd ndot g1 rest hnd hndot (by omega)
  intro g2 hg2
  exact hR g2 (by omega)

theorem spec_of_chain {d t} (h : ChainOf (printRaw d t) t) (hp : isPre t = false) : Spec d t :=
  ⟨fun k _ => expr_of_chain h k, fun h' => by simp [hp] at h', fun _ => h⟩

theorem spec_of_pre {d t} (h : PreSpec (printRaw d t) t) (hc : isChain t = false) : Spec d t := by
  refine ⟨?_, fun _ => h, fun h' => by simp [hc] at h'⟩
  intro k _ m f rest _ hfo hf
  obtain ⟨g, rfl⟩ := succ_of_ge (f := f) (n := 0) (by omega)
  exact ⟨g, by omega, bp_step (h g rest hfo.any (by omega))⟩

/-! ### the constructors -/

theorem lok {d : Ctx → Tree → Nat} {c : Ctx} {t : Tree} : needsParen c t = true → layers d c t ≥ 1 :=
  layers_ok

theorem spec_ident (d n) : Spec d (.ident n) := by
  apply spec_of_chain (chain_of_lhs _) rfl
  intro f rest hf
  obtain ⟨g, rfl⟩ := succ_of_ge (f := f) (n := 0) (by omega)
  simpa [printRaw] using lhs_ident g n rest

theorem spec_int (d n) : Spec d (.int n) := by
  apply spec_of_chain (chain_of_lhs _) rfl
  intro f rest hf
  obtain ⟨g, rfl⟩ := succ_of_ge (f := f) (n := 0) (by omega)
  simpa [printRaw] using lhs_int g n rest

theorem spec_bin {d b l r} (hl : Spec d l) (hr : Spec d r) : Spec d (.bin b l r) := by
  refine ⟨?_, fun h => by simp [isPre] at h, fun h => by simp [isChain] at h⟩
  intro k hk m f rest hm hfo hf
  simp only [needsParen, decide_eq_false_iff_not, Nat.not_lt] at hk
  simp only [printRaw, List.append_assoc, List.length_append, List.length_cons,
    List.cons_append, List.nil_append] at hf ⊢
  obtain ⟨f1, hf1, e1⟩ := (hl.exprAt (layers d (.expr (lbp b)) l) (lbp b) lok) m f
    (.bop b :: (parens (layers d (.expr (rbp b)) r) (printRaw d r) ++ rest)) (by omega)
    (by simp [Follow]) (by omega)
  obtain ⟨y, rfl⟩ : ∃ y, f1 = y + 2 := ⟨f1 - 2, by omega⟩
  have hR := (hr.exprAt (layers d (.expr (rbp b)) r) (rbp b) lok).done (rest := rest)
    (hfo.mono (by rw [rbp_eq]; omega)) (f := y + 1) (by omega)
  refine ⟨y + 1, by omega, ?_⟩
  rw [e1, loop_step b (by omega) (good_at d _ r) hR]

theorem spec_un {d u e} (he : Spec d e) : Spec d (.un u e) := by
  apply spec_of_pre _ rfl
  intro f rest hr hf
  simp only [printRaw, List.length_cons] at hf
  obtain ⟨g, rfl⟩ := succ_of_ge (f := f) (n := 0) (by omega)
  simp only [printRaw, List.cons_append]
  exact lhs_un u (he.preOperand false _ lok hr (by omega))

theorem spec_ref {d mu e} (he : Spec d e) : Spec d (.ref mu e) := by
  apply spec_of_pre _ rfl
  intro f rest hr hf
  cases mu with
  | true =>
    simp only [printRaw, List.length_cons] at hf
    obtain ⟨g, rfl⟩ := succ_of_ge (f := f) (n := 0) (by omega)
    simp only [printRaw, List.cons_append]
    exact lhs_refmut (he.preOperand true _ lok hr (by omega))
  | false =>
    simp only [printRaw, List.length_cons] at hf
    obtain ⟨g, rfl⟩ := succ_of_ge (f := f) (n := 0) (by omega)
    simp only [printRaw, List.cons_append]
    exact lhs_ref (good_at d _ e) rest (he.preOperand true _ lok hr (by omega))

theorem spec_deref {d e} (he : Spec d e) : Spec d (.deref e) := by
  apply spec_of_chain _ rfl
  simp only [printRaw]
  apply chain_ext (he.postOperand _ lok) [.caret] (.deref e)
    (fun w h => by cases w <;> simp_all [spineHas])
  intro nd ndot g rest hnd _ hg R hR
  have : nd = false := by cases nd <;> simp_all [spineHas]
  subst this
  simp only [List.length_cons, List.length_nil] at hg hR
  obtain ⟨x, rfl⟩ := succ_of_ge (f := g) (n := 0) (by omega)
  rw [List.singleton_append, post_deref]
  exact hR x (by omega)

theorem spec_try {d e} (he : Spec d e) : Spec d (.try_ e) := by
  apply spec_of_chain _ rfl
  simp only [printRaw]
  apply chain_ext (he.postOperand _ lok) [.dot, .try_] (.try_ e)
    (fun w h => by cases w <;> simp_all [spineHas])
  intro nd ndot g rest _ _ hg R hR
  simp only [List.length_cons, List.length_nil] at hg hR
  obtain ⟨x, rfl⟩ := succ_of_ge (f := g) (n := 0) (by omega)
  simp only [List.cons_append, List.nil_append]
  rw [post_try]
  exact hR x (by omega)

theorem spec_field {d e n} (he : Spec d e) : Spec d (.field e n) := by
  apply spec_of_chain _ rfl
  simp only [printRaw]
  apply chain_ext (he.postOperand _ lok) [.dot, .ident n] (.field e n)
    (fun w h => by cases w <;> simp_all [spineHas])
  intro nd ndot g rest _ _ hg R hR
  simp only [List.length_cons, List.length_nil] at hg hR
  obtain ⟨x, rfl⟩ := succ_of_ge (f := g) (n := 0) (by omega)
  simp only [List.cons_append, List.nil_append]
  rw [post_field]
  exact hR x (by omega)

theorem spec_index {d e i} (he : Spec d e) (hi : Spec d i) : Spec d (.index e i) := by
  apply spec_of_chain _ rfl
  simp only [printRaw, List.append_assoc]
  apply chain_ext (he.postOperand _ lok) _ (.index e i)
    (fun w h => by cases w <;> simp_all [spineHas])
  intro nd ndot g rest _ _ hg R hR
  simp only [List.length_append, List.length_cons, List.length_nil] at hg hR
  obtain ⟨x, rfl⟩ := succ_of_ge (f := g) (n := 0) (by omega)
  have hpi := (hi.exprAt (layers d (.expr 0) i) 0 lok).done (rest := .rbrack :: rest)
    (by simp [Follow]) (f := x) (by omega)
  simp only [List.append_assoc, List.cons_append, List.nil_append]
  rw [post_index (good_at d _ i) hpi]
  exact hR x (by omega)

theorem spec_cast {d e v} (he : Spec d e) (hv : Spec d v) : Spec d (.cast e v) := by
  apply spec_of_chain _ rfl
  simp only [printRaw, List.append_assoc]
  apply chain_ext (he.postOperand _ lok) _ (.cast e v)
    (fun w h => by cases w <;> simp_all [spineHas])
  intro nd ndot g rest _ hndot hg R hR
  have : ndot = false := by cases ndot <;> simp_all [spineHas]
  subst this
  simp only [List.length_append, List.length_cons, List.length_nil] at hg hR
  obtain ⟨x, rfl⟩ := succ_of_ge (f := g) (n := 0) (by omega)
  have hpv := (hv.exprAt (layers d (.expr 0) v) 0 lok).done (rest := .rparen :: rest)
    (by simp [Follow]) (f := x) (by omega)
  simp only [List.append_assoc, List.cons_append, List.nil_append]
  rw [post_cast (good_at d _ v) hpv]
  exact hR x (by omega)

theorem spec_call {d g as} (hg : Spec d g) (has : ArgsSpec d as) : Spec d (.call g as) := by
  apply spec_of_chain _ rfl
  simp only [printRaw, List.append_assoc]
  apply chain_ext (hg.postOperand _ lok) _ (.call g as)
    (fun w h => by cases w <;> simp_all [spineHas])
  intro nd ndot f rest _ _ hf R hR
  simp only [List.length_append, List.length_cons, List.length_nil] at hf hR
  obtain ⟨x, rfl⟩ := succ_of_ge (f := f) (n := 0) (by omega)
  simp only [List.append_assoc, List.cons_append, List.nil_append]
  rw [post_call (has x rest (by omega))]
  exact hR x (by omega)

theorem args_nil_spec (d) : ArgsSpec d .nil := by
  intro f rest hf
  obtain ⟨g, rfl⟩ := succ_of_ge (f := f) (n := 0) (by omega)
  simpa [printArgs] using args_nil g rest

theorem args_one_spec {d a} (ha : Spec d a) : ArgsSpec d (.cons a .nil) := by
  intro f rest hf
  simp only [printArgs] at hf ⊢
  obtain ⟨g, rfl⟩ := succ_of_ge (f := f) (n := 0) (by omega)
  exact args_last (good_at d _ a)
    ((ha.exprAt (layers d (.expr 0) a) 0 lok).done (rest := .rparen :: rest) (by simp [Follow]) (by omega))

theorem args_more_spec {d a b r} (ha : Spec d a) (hr : ArgsSpec d (.cons b r)) :
    ArgsSpec d (.cons a (.cons b r)) := by
  intro f rest hf
  simp only [printArgs, List.append_assoc, List.length_append, List.length_cons,
    List.cons_append, List.nil_append] at hf ⊢
  obtain ⟨g, rfl⟩ := succ_of_ge (f := f) (n := 0) (by omega)
  exact args_more (good_at d _ a)
    ((ha.exprAt (layers d (.expr 0) a) 0 lok).done
      (rest := .comma :: (printArgs d (.cons b r) ++ .rparen :: rest)) (by simp [Follow]) (by omega))
    (hr g rest (by omega))

mutual
  theorem spec_tree (d : Ctx → Tree → Nat) : (t : Tree) → Spec d t
    | .ident n => spec_ident d n
    | .int n => spec_int d n
    | .bin _ l r => spec_bin (spec_tree d l) (spec_tree d r)
    | .un _ e => spec_un (spec_tree d e)
    | .ref _ e => spec_ref (spec_tree d e)
    | .deref e => spec_deref (spec_tree d e)
    | .try_ e => spec_try (spec_tree d e)
    | .field e _ => spec_field (spec_tree d e)
    | .index e i => spec_index (spec_tree d e) (spec_tree d i)
    | .cast e v => spec_cast (spec_tree d e) (spec_tree d v)
    | .call g as => spec_call (spec_tree d g) (spec_args d as)
  theorem spec_args (d : Ctx → Tree → Nat) : (as : Args) → ArgsSpec d as
    | .nil => args_nil_spec d
    | .cons a .nil => args_one_spec (spec_tree d a)
    | .cons a (.cons b r) => args_more_spec (spec_tree d a) (spec_args d (.cons b r))
end

/-- the round trip for any choice of redundant parentheses -/
theorem parse_printWith (d : Ctx → Tree → Nat) (t : Tree) : parse (printWith d t) = some t := by
  have h := ((spec_tree d t).exprAt (layers d (.expr 0) t) 0 lok).done (rest := []) (by simp [Follow])
    (f := fuelFor (printWith d t)) (by simp [fuelFor, printWith, printAt])
  simp only [List.append_nil] at h
  simp [parse, printWith, printAt, startBp] at h ⊢
  simp [h]

end CapyV.ExprCore
