import CapyV.Model.Mangle
/-!
# Lemmas about the mangling model (C27)

Unique readability of the encoding (`encodeParts_unique`), injectivity of the component
transformation on well-shaped paths, and the normal form `mangle_eq`.
-/
namespace CapyV.Mangle

/-! ### decimal rendering -/

theorem natDigitsF_fuel : ∀ (f g n : Nat), n < f → n < g → natDigitsF f n = natDigitsF g n := by
  intro f
  induction f with
  | zero => intro g n h; omega
  | succ f ih =>
    intro g n hf hg
    cases g with
    | zero => omega
    | succ g =>
      unfold natDigitsF
      by_cases h : n < 10
      · simp [h]
      · simp only [h, if_false]
        rw [ih g (n / 10) (by omega) (by omega)]

theorem natDigits_lt10 (n : Nat) (h : n < 10) : natDigits n = [48 + n] := by
  simp [natDigits, natDigitsF, h]

theorem natDigits_ge10 (n : Nat) (h : 10 ≤ n) :
    natDigits n = natDigits (n / 10) ++ [48 + n % 10] := by
  have h' : ¬ n < 10 := by omega
  unfold natDigits
  rw [natDigitsF]
  simp only [h', if_false]
  rw [natDigitsF_fuel n (n / 10 + 1) (n / 10) (by omega) (by omega)]

theorem natDigits_ne_nil (n : Nat) : natDigits n ≠ [] := by
  by_cases h : n < 10
  · simp [natDigits_lt10 n h]
  · rw [natDigits_ge10 n (by omega)]; simp

theorem natDigits_all_digits (n : Nat) : ∀ b ∈ natDigits n, isDigit b = true := by
  induction n using Nat.strongRecOn with
  | _ n ih =>
    by_cases h : n < 10
    · rw [natDigits_lt10 n h]
      intro b hb
      simp at hb
      subst hb
      simp [isDigit]; omega
    · rw [natDigits_ge10 n (by omega)]
      intro b hb
      rw [List.mem_append] at hb
      rcases hb with hb | hb
      · exact ih (n / 10) (by omega) b hb
      · simp at hb
        subst hb
        simp [isDigit]; omega

theorem natDigits_length_ge2 (n : Nat) (h : 10 ≤ n) : 2 ≤ (natDigits n).length := by
  rw [natDigits_ge10 n h]
  have := natDigits_ne_nil (n / 10)
  have : 0 < (natDigits (n / 10)).length := List.length_pos_iff.mpr this
  simp; omega

theorem natDigits_inj : ∀ (n m : Nat), natDigits n = natDigits m → n = m := by
  intro n
  induction n using Nat.strongRecOn with
  | _ n ih =>
    intro m h
    by_cases hn : n < 10
    · by_cases hm : m < 10
      · rw [natDigits_lt10 n hn, natDigits_lt10 m hm] at h
        simp at h; omega
      · have := natDigits_length_ge2 m (by omega)
        rw [← h, natDigits_lt10 n hn] at this
        simp at this
    · by_cases hm : m < 10
      · have := natDigits_length_ge2 n (by omega)
        rw [h, natDigits_lt10 m hm] at this
        simp at this
      · rw [natDigits_ge10 n (by omega), natDigits_ge10 m (by omega)] at h
        have hl := List.append_inj' h (by simp)
        have h1 := ih (n / 10) (by omega) (m / 10) hl.1
        have h2 : 48 + n % 10 = 48 + m % 10 := by simpa using hl.2
        omega

theorem natDigits_head (n : Nat) : ∃ d rest, natDigits n = d :: rest ∧ isDigit d = true ∧
    (d = 48 → n = 0) := by
  induction n using Nat.strongRecOn with
  | _ n ih =>
    by_cases h : n < 10
    · refine ⟨48 + n, [], natDigits_lt10 n h, ?_, ?_⟩
      · simp [isDigit]; omega
      · intro; omega
    · obtain ⟨d, rest, he, hd, hz⟩ := ih (n / 10) (by omega)
      refine ⟨d, rest ++ [48 + n % 10], ?_, hd, ?_⟩
      · rw [natDigits_ge10 n (by omega), he]; rfl
      · intro h0
        have := hz h0
        omega

/-! ### splitting a list at the first element violating a predicate -/

theorem append_split_unique {α : Type} (P : α → Prop) :
    ∀ (xs ys r₁ r₂ : List α), (∀ x ∈ xs, P x) → (∀ y ∈ ys, P y) →
      (∀ h, r₁.head? = some h → ¬ P h) → (∀ h, r₂.head? = some h → ¬ P h) →
      xs ++ r₁ = ys ++ r₂ → xs = ys ∧ r₁ = r₂ := by
  intro xs
  induction xs with
  | nil =>
    intro ys r₁ r₂ _ hy h₁ _ h
    cases ys with
    | nil => exact ⟨rfl, by simpa using h⟩
    | cons y ys =>
      exfalso
      simp at h
      exact h₁ y (by simp [h]) (hy y (by simp))
  | cons x xs ih =>
    intro ys r₁ r₂ hx hy h₁ h₂ h
    cases ys with
    | nil =>
      exfalso
      simp at h
      exact h₂ x (by simp [← h]) (hx x (by simp))
    | cons y ys =>
      simp only [List.cons_append, List.cons.injEq] at h
      obtain ⟨hxy, ht⟩ := h
      have := ih ys r₁ r₂ (fun a ha => hx a (by simp [ha])) (fun a ha => hy a (by simp [ha])) h₁ h₂ ht
      exact ⟨by rw [hxy, this.1], this.2⟩

/-! ### the encoding of a list of parts -/

/-- what follows the length prefix of a part -/
def payload (p : Part) : List Nat :=
  if startsWithDigit p.2 then toAsciiLower p.1.code :: p.2 else p.2

theorem addPart_eq (k : Kind) (t : List Nat) :
    addPart k t = natDigits (payload (k, t)).length ++ payload (k, t) := by
  unfold addPart payload
  by_cases h : startsWithDigit t <;> simp [h]

/-- codes, then every part, then `E` -/
def encodeParts (ps : List Part) : List Nat :=
  ps.map (fun p => p.1.code) ++ ps.flatMap (fun p => addPart p.1 p.2) ++ [E]

def isCode (b : Nat) : Prop := b = 77 ∨ b = 70 ∨ b = 78 ∨ b = 71 ∨ b = 76 ∨ b = 90 ∨ b = 73

theorem code_isCode (k : Kind) : isCode k.code := by
  cases k <;> simp [isCode, Kind.code]

theorem code_inj (k k' : Kind) (h : k.code = k'.code) : k = k' := by
  cases k <;> cases k' <;> simp [Kind.code] at h <;> rfl

theorem digit_not_code (b : Nat) (h : isDigit b = true) : ¬ isCode b := by
  simp [isDigit] at h
  simp [isCode]; omega

theorem lower_code_not_digit (k : Kind) : isDigit (toAsciiLower k.code) = false := by
  cases k <;> decide

theorem map_code_inj : ∀ (ps qs : List Part),
    ps.map (fun p => p.1.code) = qs.map (fun p => p.1.code) → ps.map (·.1) = qs.map (·.1) := by
  intro ps
  induction ps with
  | nil => intro qs h; cases qs with
    | nil => rfl
    | cons _ _ => simp at h
  | cons p ps ih =>
    intro qs h
    cases qs with
    | nil => simp at h
    | cons q qs =>
      simp only [List.map_cons, List.cons.injEq] at h ⊢
      exact ⟨code_inj _ _ h.1, ih qs h.2⟩

/-- the payload is empty or starts with a non-digit -/
theorem payload_head (p : Part) : ∀ h, (payload p).head? = some h → isDigit h = false := by
  intro h hh
  unfold payload at hh
  by_cases hd : startsWithDigit p.2
  · simp [hd] at hh
    subst hh
    exact lower_code_not_digit p.1
  · simp only [hd] at hh
    cases ht : p.2 with
    | nil => simp [ht] at hh
    | cons b rest =>
      simp [ht] at hh
      subst hh
      simpa [startsWithDigit, ht] using hd

/-- one length-prefixed chunk is uniquely readable -/
theorem chunk_unique (p q r₁ r₂ : List Nat)
    (hp : ∀ h, p.head? = some h → isDigit h = false)
    (hq : ∀ h, q.head? = some h → isDigit h = false)
    (h : natDigits p.length ++ p ++ r₁ = natDigits q.length ++ q ++ r₂) :
    p = q ∧ r₁ = r₂ := by
  have key : p.length = q.length → p = q ∧ r₁ = r₂ := by
    intro hl
    rw [hl, List.append_assoc, List.append_assoc] at h
    have := List.append_cancel_left h
    exact List.append_inj this hl
  cases p with
  | nil =>
    obtain ⟨d, rest, he, _, hz⟩ := natDigits_head q.length
    have h0 : natDigits 0 = [48] := by decide
    simp only [List.length_nil, h0, he] at h
    simp at h
    exact key (by simp [hz h.1.symm])
  | cons a p' =>
    cases q with
    | nil =>
      obtain ⟨d, rest, he, _, hz⟩ := natDigits_head (a :: p').length
      have h0 : natDigits 0 = [48] := by decide
      simp only [List.length_nil, h0, he] at h
      simp at h
      have := hz h.1
      simp at this
    | cons b q' =>
      have ha := hp a (by simp)
      have hb := hq b (by simp)
      rw [List.append_assoc, List.append_assoc] at h
      have := append_split_unique (fun x => isDigit x = true) _ _ _ _
        (natDigits_all_digits _) (natDigits_all_digits _)
        (by intro x hx; simp at hx; subst hx; simp [ha])
        (by intro x hx; simp at hx; subst hx; simp [hb]) h
      exact key (natDigits_inj _ _ this.1)

theorem body_unique : ∀ (ps qs : List Part) (r₁ r₂ : List Nat), ps.length = qs.length →
    ps.flatMap (fun p => addPart p.1 p.2) ++ r₁ = qs.flatMap (fun p => addPart p.1 p.2) ++ r₂ →
    ps.map payload = qs.map payload ∧ r₁ = r₂ := by
  intro ps
  induction ps with
  | nil =>
    intro qs r₁ r₂ hl h
    cases qs with
    | nil => exact ⟨rfl, by simpa using h⟩
    | cons _ _ => simp at hl
  | cons p ps ih =>
    intro qs r₁ r₂ hl h
    cases qs with
    | nil => simp at hl
    | cons q qs =>
      simp only [List.flatMap_cons, addPart_eq, List.append_assoc] at h
      have h' : natDigits (payload p).length ++ payload p ++
            (ps.flatMap (fun p => addPart p.1 p.2) ++ r₁)
          = natDigits (payload q).length ++ payload q ++
            (qs.flatMap (fun p => addPart p.1 p.2) ++ r₂) := by
        simpa [List.append_assoc, addPart_eq] using h
      have hc := chunk_unique _ _ _ _ (payload_head p) (payload_head q) h'
      have := ih qs r₁ r₂ (by simpa using hl) hc.2
      exact ⟨by simp [hc.1, this.1], this.2⟩

theorem body_head (ps : List Part) : ∀ h,
    (ps.flatMap (fun p => addPart p.1 p.2) ++ [E]).head? = some h → ¬ isCode h := by
  intro h hh
  cases ps with
  | nil =>
    simp at hh
    subst hh
    simp [isCode, E]
  | cons p ps =>
    obtain ⟨d, rest, he, hd, _⟩ := natDigits_head (payload p).length
    simp [addPart_eq, he] at hh
    subst hh
    exact digit_not_code _ hd

/-- **Unique readability.** The string determines the kind of every part and what
follows its length prefix. -/
theorem encodeParts_unique (ps qs : List Part) (h : encodeParts ps = encodeParts qs) :
    ps.map (·.1) = qs.map (·.1) ∧ ps.map payload = qs.map payload := by
  unfold encodeParts at h
  rw [List.append_assoc, List.append_assoc] at h
  have hs := append_split_unique isCode _ _ _ _
    (by intro x hx; simp at hx; obtain ⟨a, _, rfl⟩ := hx; exact code_isCode _)
    (by intro x hx; simp at hx; obtain ⟨a, _, rfl⟩ := hx; exact code_isCode _)
    (body_head ps) (body_head qs) h
  have hk : ps.map (·.1) = qs.map (·.1) := map_code_inj ps qs hs.1
  have hl : ps.length = qs.length := by
    have := congrArg List.length hk
    simpa using this
  exact ⟨hk, (body_unique ps qs _ _ hl hs.2).1⟩

/-- first byte of an encoding is the code of the first part -/
theorem encodeParts_head (p : Part) (ps : List Part) :
    (encodeParts (p :: ps)).head? = some p.1.code := by
  simp [encodeParts]

/-! ### from payloads back to texts -/

/-- the discipline under which the payload determines the text -/
def partGood (p : Part) : Bool :=
  match p.1 with
  | .name | .internalData => !startsWithDigit p.2
  | _ => !looksEscaped p.1 p.2

theorem startsWithDigit_cons (b : Nat) (t : List Nat) : startsWithDigit (b :: t) = isDigit b := rfl

theorem payload_inj (k : Kind) (t t' : List Nat) (hg : partGood (k, t) = true)
    (hg' : partGood (k, t') = true) (h : payload (k, t) = payload (k, t')) : t = t' := by
  unfold payload at h
  by_cases hd : startsWithDigit t <;> by_cases hd' : startsWithDigit t' <;>
    simp only [hd, hd', if_true] at h
  · exact (List.cons.inj h).2
  · -- t' = lower :: t, t digit-initial
    exfalso
    cases t with
    | nil => simp [startsWithDigit] at hd
    | cons b t0 =>
      have hb : isDigit b = true := hd
      subst h
      cases k <;> simp [partGood, looksEscaped, hb, startsWithDigit] at hg hg'
  · exfalso
    cases t' with
    | nil => simp [startsWithDigit] at hd'
    | cons b t0 =>
      have hb : isDigit b = true := hd'
      subst h
      cases k <;> simp [partGood, looksEscaped, hb, startsWithDigit] at hg hg'
  · exact h

theorem parts_eq_of_good : ∀ (ps qs : List Part), (∀ p ∈ ps, partGood p = true) →
    (∀ q ∈ qs, partGood q = true) → ps.map (·.1) = qs.map (·.1) →
    ps.map payload = qs.map payload → ps = qs := by
  intro ps
  induction ps with
  | nil => intro qs _ _ hk _; cases qs with
    | nil => rfl
    | cons _ _ => simp at hk
  | cons p ps ih =>
    intro qs hp hq hk hpl
    cases qs with
    | nil => simp at hk
    | cons q qs =>
      simp only [List.map_cons, List.cons.injEq] at hk hpl
      obtain ⟨k, t⟩ := p
      obtain ⟨k', t'⟩ := q
      have hkk : k = k' := hk.1
      subst hkk
      have := payload_inj k t t' (hp _ (by simp)) (hq _ (by simp)) hpl.1
      subst this
      rw [ih qs (fun a ha => hp a (by simp [ha])) (fun a ha => hq a (by simp [ha])) hk.2 hpl.2]

theorem partGood_digits (k : Kind) (n : Nat) (hk : k ≠ .name ∧ k ≠ .internalData) :
    partGood (k, natDigits n) = true := by
  obtain ⟨d, rest, he, hd, _⟩ := natDigits_head n
  have hne : d ≠ toAsciiLower k.code := by
    intro h; rw [h, lower_code_not_digit] at hd; simp at hd
  cases k <;> simp_all [partGood, looksEscaped] <;> cases rest <;> simp_all

/-! ### normal form of `mangle` -/

def fileParts (c : Components) : List Part :=
  (match c.modName with
    | some m => [(Kind.module, m)]
    | none => []) ++ c.subParts.map (fun s => (Kind.fileOrFolder, s))

theorem createMangledForFile_eq (f : FileD) (finals : List Part) :
    createMangledForFile f finals =
      (getComponents f).map (fun c => encodeParts (fileParts c ++ finals)) := by
  unfold createMangledForFile
  cases hc : getComponents f with
  | none => rfl
  | some c =>
    obtain ⟨mn, sp⟩ := c
    cases mn with
    | none =>
      simp [encodeParts, fileParts, List.flatMap_append, List.flatMap_map, Function.comp_def]
    | some m =>
      simp [encodeParts, fileParts, List.flatMap_append, List.flatMap_map, Function.comp_def]

def basePart : Base → Part
  | .global n => (Kind.name, n)
  | .lambda i _ => (Kind.lambda, natDigits i)

def extraParts : Extra → List Part
  | .code => []
  | .comptime i => [(Kind.comptime, natDigits i)]
  | .comptimeData i d => [(Kind.comptime, natDigits i), (Kind.internalData, d)]

/-- the parts after the file parts -/
def finalParts (e : Entity) : List Part :=
  basePart e.base.resolve :: (genericParts e.generic ++ extraParts e.extra)

theorem mangle_eq (e : Entity) :
    mangle e = (getComponents e.file).map (fun c => encodeParts (fileParts c ++ finalParts e)) := by
  obtain ⟨file, base, generic, extra⟩ := e
  cases extra <;> cases base with
  | global n =>
    simp [mangle, mangledForConcrete, mangledForNaive, mangledForNaiveGlobal,
      createMangledForFile_eq, finalParts, basePart, extraParts, Base.resolve]
  | lambda i b =>
    cases b <;>
    simp [mangle, mangledForConcrete, mangledForNaive, mangledForNaiveLambda,
      mangledForNaiveGlobal, createMangledForFile_eq, finalParts, basePart, extraParts,
      Base.resolve]

theorem Base.resolve_idem (b : Base) : b.resolve.resolve = b.resolve := by
  cases b with
  | global n => rfl
  | lambda i b => cases b <;> rfl

theorem mangle_resolve (e : Entity) : mangle e.resolve = mangle e := by
  rw [mangle_eq, mangle_eq]
  simp [finalParts, Entity.resolve, Base.resolve_idem]

/-! ### the component transformation on well-shaped paths -/

theorem replaceDots_dotless (c : List Nat) (h : dotless c = true) : replaceDots c = c := by
  unfold replaceDots
  induction c with
  | nil => rfl
  | cons b c ih =>
    simp [dotless, hasDot] at h ih
    simp [h.1]
    exact ih h.2

theorem xform_dotless (c : List Nat) (h : dotless c = true) : xformComponent c = c := by
  unfold xformComponent
  simp [dotless] at h
  simp [h]

theorem stripSuffixCapy_some (c stem : List Nat) (h : stripSuffixCapy c = some stem) :
    c = stem ++ dotCapy := by
  unfold stripSuffixCapy at h
  split at h
  · rename_i hc
    simp at h
    rw [← h, ← hc.2]
    exact (List.take_append_drop _ c).symm
  · simp at h

theorem hasDot_append_dotCapy (s : List Nat) : hasDot (s ++ dotCapy) = true := by
  simp [hasDot, dotCapy, DOT]

theorem xform_capyFile (c : List Nat) (h : isCapyFile c = true) :
    ∃ stem, c = stem ++ dotCapy ∧ xformComponent c = stem := by
  unfold isCapyFile at h
  cases hs : stripSuffixCapy c with
  | none => simp [hs] at h
  | some stem =>
    simp [hs] at h
    have hc := stripSuffixCapy_some c stem hs
    refine ⟨stem, hc, ?_⟩
    unfold xformComponent
    have : hasDot c = true := by rw [hc]; exact hasDot_append_dotCapy stem
    simp [this, hs, replaceDots_dotless stem h]

theorem xform_map_inj : ∀ (cs ds : List (List Nat)), compsShapeOK cs = true →
    compsShapeOK ds = true → cs.map xformComponent = ds.map xformComponent → cs = ds := by
  intro cs
  induction cs with
  | nil => intro ds h; simp [compsShapeOK] at h
  | cons c cs ih =>
    intro ds hc hd h
    cases ds with
    | nil => simp [compsShapeOK] at hd
    | cons d ds =>
      simp only [List.map_cons, List.cons.injEq] at h
      cases cs with
      | nil =>
        cases ds with
        | nil =>
          simp [compsShapeOK] at hc hd
          obtain ⟨s, hs, hx⟩ := xform_capyFile c hc
          obtain ⟨s', hs', hx'⟩ := xform_capyFile d hd
          rw [hx, hx'] at h
          rw [hs, hs', h.1]
        | cons _ _ => simp at h
      | cons c2 cs =>
        cases ds with
        | nil => simp at h
        | cons d2 ds =>
          simp [compsShapeOK] at hc hd
          have h1 : c = d := by
            rw [← xform_dotless c hc.1, ← xform_dotless d hd.1]; exact h.1
          have := ih (d2 :: ds) hc.2 hd.2 h.2
          rw [h1, this]

/-! ### `get_components` on well-formed files -/

theorem getComponents_cwd (f : FileD) (hr : f.root = .cwd) (hs : ¬ f.comps[1]? = some SRC) :
    getComponents f = some { modName := none, subParts := f.comps.map xformComponent } := by
  unfold getComponents
  simp [hr, hs]

theorem getComponents_mod (f : FileD) (m s : List Nat) (rest : List (List Nat))
    (hr : f.root = .mod) (hc : f.comps = m :: s :: rest) (hs : s = SRC) :
    getComponents f =
      some { modName := some (xformComponent m), subParts := rest.map xformComponent } := by
  unfold getComponents
  simp [hr, hc, hs]

theorem getComponents_isSome (f : FileD) (h : f.root ≠ .outside) : (getComponents f).isSome := by
  unfold getComponents
  cases hr : f.root <;> simp_all

/-- On well-formed files the file parts are good and determine the file. -/
theorem fileWF_parts (f : FileD) (h : fileWF f = true) :
    ∃ c, getComponents f = some c ∧ (∀ p ∈ fileParts c, partGood p = true) ∧
      ((f.root = .cwd ∧ compsShapeOK f.comps = true ∧
          fileParts c = f.comps.map (fun x => (Kind.fileOrFolder, xformComponent x))) ∨
       (∃ m rest, f.root = .mod ∧ f.comps = m :: SRC :: rest ∧ compsShapeOK f.comps = true ∧
          fileParts c = (Kind.module, xformComponent m) ::
            rest.map (fun x => (Kind.fileOrFolder, xformComponent x)))) := by
  unfold fileWF at h
  cases hr : f.root with
  | outside => simp [hr] at h
  | cwd =>
    simp only [hr, Bool.and_eq_true, Bool.not_eq_true', decide_eq_false_iff_not] at h
    obtain ⟨⟨hshape, hsrc⟩, hesc⟩ := h
    refine ⟨_, getComponents_cwd f hr hsrc, ?_, Or.inl ⟨rfl, hshape, ?_⟩⟩
    · intro p hp
      simp [fileParts] at hp
      obtain ⟨x, hx, rfl⟩ := hp
      have := List.all_eq_true.mp hesc x hx
      simpa [partGood] using this
    · simp [fileParts]
  | mod =>
    simp only [hr, Bool.and_eq_true, decide_eq_true_eq] at h
    obtain ⟨⟨hshape, hsrc⟩, hesc⟩ := h
    cases hc : f.comps with
    | nil => simp [hc] at hesc
    | cons m t =>
      cases t with
      | nil => simp [hc] at hesc
      | cons s rest =>
        have hs : s = SRC := by simpa [hc] using hsrc
        subst hs
        simp only [hc, Bool.and_eq_true, Bool.not_eq_true'] at hesc
        refine ⟨_, getComponents_mod f m SRC rest hr hc rfl, ?_, Or.inr ⟨m, rest, rfl, rfl, ?_, ?_⟩⟩
        · intro p hp
          simp [fileParts] at hp
          rcases hp with rfl | ⟨x, hx, rfl⟩
          · simpa [partGood] using hesc.1
          · have := List.all_eq_true.mp hesc.2 x hx
            simpa [partGood] using this
        · rw [← hc]; exact hshape
        · simp [fileParts]

theorem map_pair_inj {α β : Type} (k : α) (f : β → List Nat) (xs ys : List β)
    (h : xs.map (fun x => (k, f x)) = ys.map (fun x => (k, f x))) : xs.map f = ys.map f := by
  have := congrArg (List.map Prod.snd) h
  simpa [List.map_map, Function.comp_def] using this

theorem fileParts_inj (f g : FileD) (cf cg : Components) (hf : fileWF f = true)
    (hg : fileWF g = true) (hcf : getComponents f = some cf) (hcg : getComponents g = some cg)
    (h : fileParts cf = fileParts cg) : f = g := by
  obtain ⟨cf', hcf', _, hF⟩ := fileWF_parts f hf
  obtain ⟨cg', hcg', _, hG⟩ := fileWF_parts g hg
  rw [hcf] at hcf'; rw [hcg] at hcg'
  cases hcf'; cases hcg'
  obtain ⟨fr, fc⟩ := f
  obtain ⟨gr, gc⟩ := g
  rcases hF with ⟨hr, hsh, hp⟩ | ⟨m, rest, hr, hc, hsh, hp⟩ <;>
  rcases hG with ⟨hr', hsh', hp'⟩ | ⟨m', rest', hr', hc', hsh', hp'⟩
  · simp only at hr hr' hsh hsh' hp hp'
    rw [hp, hp'] at h
    have := xform_map_inj fc gc hsh hsh' (map_pair_inj _ _ _ _ h)
    rw [hr, hr', this]
  · exfalso
    simp only at hsh hp hp'
    rw [hp, hp'] at h
    cases fc with
    | nil => simp [compsShapeOK] at hsh
    | cons _ _ => simp at h
  · exfalso
    simp only at hsh' hp hp'
    rw [hp, hp'] at h
    cases gc with
    | nil => simp [compsShapeOK] at hsh'
    | cons _ _ => simp at h
  · simp only at hr hr' hc hc' hsh hsh' hp hp'
    rw [hp, hp'] at h
    simp only [List.cons.injEq, Prod.mk.injEq, true_and] at h
    subst hc; subst hc'
    have hdm : dotless m = true ∧ compsShapeOK rest = true := by
      cases rest with
      | nil => simp [compsShapeOK, isCapyFile, stripSuffixCapy, SRC] at hsh
      | cons _ _ => simp [compsShapeOK] at hsh; exact ⟨hsh.1, hsh.2.2⟩
    have hdm' : dotless m' = true ∧ compsShapeOK rest' = true := by
      cases rest' with
      | nil => simp [compsShapeOK, isCapyFile, stripSuffixCapy, SRC] at hsh'
      | cons _ _ => simp [compsShapeOK] at hsh'; exact ⟨hsh'.1, hsh'.2.2⟩
    have h1 : m = m' := by
      rw [← xform_dotless m hdm.1, ← xform_dotless m' hdm'.1]; exact h.1
    have h2 := xform_map_inj rest rest' hdm.2 hdm'.2 (map_pair_inj _ _ _ _ h.2)
    rw [hr, hr', h1, h2]

/-! ### the final parts determine base, generic id and block -/

@[simp] theorem natDigits_inj_iff (n m : Nat) : natDigits n = natDigits m ↔ n = m :=
  ⟨natDigits_inj n m, fun h => by rw [h]⟩

theorem basePart_resolve_inj (a b : Base) (h : basePart a.resolve = basePart b.resolve) :
    a.resolve = b.resolve := by
  cases a with
  | global n =>
    cases b with
    | global n' => simpa [Base.resolve, basePart] using h
    | lambda i bd => cases bd <;> simp_all [Base.resolve, basePart]
  | lambda i bd =>
    cases bd <;> cases b with
    | global n' => simp_all [Base.resolve, basePart]
    | lambda i' bd' => cases bd' <;> simp_all [Base.resolve, basePart]

theorem tailParts_inj (g g' : Option Nat) (x x' : Extra)
    (h : genericParts g ++ extraParts x = genericParts g' ++ extraParts x') : g = g' ∧ x = x' := by
  cases g <;> cases g' <;> cases x <;> cases x' <;>
    simp_all [genericParts, extraParts]

theorem finalParts_inj (a b : Entity) (h : finalParts a = finalParts b) :
    a.base.resolve = b.base.resolve ∧ a.generic = b.generic ∧ a.extra = b.extra := by
  simp only [finalParts, List.cons.injEq] at h
  exact ⟨basePart_resolve_inj _ _ h.1, tailParts_inj _ _ _ _ h.2⟩

theorem finalParts_good (e : Entity) (h : e.namesOK = true) :
    ∀ p ∈ finalParts e, partGood p = true := by
  obtain ⟨file, base, generic, extra⟩ := e
  simp only [Entity.namesOK, Bool.and_eq_true] at h
  intro p hp
  simp only [finalParts, List.mem_cons, List.mem_append] at hp
  rcases hp with rfl | hp | hp
  · cases base with
    | global n => simpa [Base.resolve, basePart, partGood, Base.namesOK, nameOK] using h.1
    | lambda i bd =>
      cases bd with
      | none => exact partGood_digits _ _ (by simp)
      | some g => simpa [Base.resolve, basePart, partGood, Base.namesOK, nameOK] using h.1
  · cases generic with
    | none => simp [genericParts] at hp
    | some g =>
      simp [genericParts] at hp
      subst hp
      exact partGood_digits _ _ (by simp)
  · cases extra with
    | code => simp [extraParts] at hp
    | comptime i =>
      simp [extraParts] at hp
      subst hp
      exact partGood_digits _ _ (by simp)
    | comptimeData i d =>
      simp [extraParts] at hp
      rcases hp with rfl | rfl
      · exact partGood_digits _ _ (by simp)
      · simpa [partGood, Extra.namesOK, nameOK] using h.2

/-- file parts have kind `M`/`F`, the first final part has kind `N`/`L` -/
def isFileKind (k : Kind) : Prop := k = .module ∨ k = .fileOrFolder

theorem fileParts_kinds (c : Components) : ∀ p ∈ fileParts c, isFileKind p.1 := by
  intro p hp
  obtain ⟨mn, sp⟩ := c
  cases mn <;> simp [fileParts] at hp
  · obtain ⟨x, _, rfl⟩ := hp; exact Or.inr rfl
  · rcases hp with rfl | ⟨x, _, rfl⟩
    · exact Or.inl rfl
    · exact Or.inr rfl

theorem finalParts_head (e : Entity) : ∀ p, (finalParts e).head? = some p → ¬ isFileKind p.1 := by
  intro p hp
  simp [finalParts] at hp
  subst hp
  cases e.base.resolve <;> simp [basePart, isFileKind]

theorem split_parts (ca cb : Components) (a b : Entity)
    (h : fileParts ca ++ finalParts a = fileParts cb ++ finalParts b) :
    fileParts ca = fileParts cb ∧ finalParts a = finalParts b :=
  append_split_unique (fun p : Part => isFileKind p.1) _ _ _ _
    (fileParts_kinds ca) (fileParts_kinds cb) (finalParts_head a) (finalParts_head b) h

theorem split_kinds (ca cb : Components) (a b : Entity)
    (h : (fileParts ca ++ finalParts a).map (·.1) = (fileParts cb ++ finalParts b).map (·.1)) :
    (finalParts a).map (·.1) = (finalParts b).map (·.1) := by
  rw [List.map_append, List.map_append] at h
  refine (append_split_unique isFileKind _ _ _ _ ?_ ?_ ?_ ?_ h).2
  · intro k hk; simp at hk; obtain ⟨t, ht⟩ := hk; exact fileParts_kinds ca _ ht
  · intro k hk; simp at hk; obtain ⟨t, ht⟩ := hk; exact fileParts_kinds cb _ ht
  · intro k hk
    cases hf : finalParts a with
    | nil => simp [hf] at hk
    | cons p ps =>
      simp [hf] at hk; subst hk
      exact finalParts_head a p (by simp [hf])
  · intro k hk
    cases hf : finalParts b with
    | nil => simp [hf] at hk
    | cons p ps =>
      simp [hf] at hk; subst hk
      exact finalParts_head b p (by simp [hf])

theorem shape_of_kinds (a b : Entity)
    (h : (finalParts a).map (·.1) = (finalParts b).map (·.1)) : a.shape = b.shape := by
  obtain ⟨fa, ba, ga, xa⟩ := a
  obtain ⟨fb, bb, gb, xb⟩ := b
  simp only [finalParts, List.map_cons, List.cons.injEq, List.map_append] at h
  simp only [Entity.shape]
  generalize ba.resolve = ra at h ⊢
  generalize bb.resolve = rb at h ⊢
  cases ra <;> cases rb <;> cases ga <;> cases gb <;> cases xa <;> cases xb <;>
    simp_all [basePart, genericParts, extraParts, Base.isGlobal, Extra.tag]

end CapyV.Mangle
