import CapyV.Model.ParserKernel
/-! Helper definitions and lemmas for C23 (parser kernel + sink). -/
namespace CapyV.ParserKernel

/-! ### vocabulary -/

/-- the token indices handed to the tree builder, in list order -/
def outToks (o : List Out) : List Nat :=
  o.filterMap fun | .tok i => some i | _ => none

/-- the root-marker shape `Parser::parse` guarantees: first event `StartNode`, last `FinishNode` -/
def RootShape (evs : List Ev) : Prop :=
  (∃ k, evs.head? = some (.start k)) ∧ evs.getLast? = some .finish

/-- "`skip_trivia` has just run": nothing left, or the next token is not trivia -/
def Skipped : List Cls → Prop
  | [] => True
  | c :: _ => c.isTrivia = false

@[simp] theorem outToks_nil : outToks [] = [] := rfl
@[simp] theorem outToks_tok (i o) : outToks (.tok i :: o) = i :: outToks o := rfl
@[simp] theorem outToks_start (k o) : outToks (.start k :: o) = outToks o := rfl
@[simp] theorem outToks_finish (o) : outToks (.finish :: o) = outToks o := rfl
theorem outToks_reverse (o) : outToks o.reverse = (outToks o).reverse := by
  simp [outToks, List.filterMap_reverse]

@[simp] theorem countOther_nil : countOther [] = 0 := rfl
theorem countOther_cons (c r) :
    countOther (c :: r) = (if c.isTrivia then 0 else 1) + countOther r := by
  cases c <;> simp [countOther, Cls.isTrivia] <;> omega
theorem countOther_append (a b) : countOther (a ++ b) = countOther a + countOther b := by
  simp [countOther]

@[simp] theorem countAdd_nil : countAdd [] = 0 := rfl
theorem countAdd_cons (e r) :
    countAdd (e :: r) = (if e = .add then 1 else 0) + countAdd r := by
  cases e <;> simp [countAdd] <;> omega

theorem range_succ_reverse (i : Nat) : (List.range (i + 1)).reverse = i :: (List.range i).reverse := by
  simp [List.range_succ]

theorem skipped_countOther_zero {r : List Cls} (h : Skipped r) (h0 : countOther r = 0) : r = [] := by
  cases r with
  | nil => rfl
  | cons c r => simp [Skipped] at h; simp [countOther_cons, h] at h0

/-! ### the sink: bookkeeping invariant
`SinkInv total s`: the tokens added so far are exactly `0 … s.idx-1`, newest first, and
`s.idx` plus what is left is the number of tokens. -/

def SinkInv (total : Nat) (s : Sink) : Prop :=
  outToks s.out = (List.range s.idx).reverse ∧ s.idx + s.rest.length = total

theorem skipTriviaLoop_inv (ck : Nat) (r : List Cls) (i : Nat) (o : List Out)
    (h : outToks o = (List.range i).reverse) :
    outToks (skipTriviaLoop ck r i o).out = (List.range (skipTriviaLoop ck r i o).idx).reverse ∧
    (skipTriviaLoop ck r i o).idx + (skipTriviaLoop ck r i o).rest.length = i + r.length := by
  fun_induction skipTriviaLoop ck r i o with
  | case1 r i o ih =>
    obtain ⟨a, b⟩ := ih (by simp [h, range_succ_reverse])
    exact ⟨a, by simp only [List.length_cons] at b ⊢; omega⟩
  | case2 i o r' ih =>
    obtain ⟨a, b⟩ := ih (by simp [h, range_succ_reverse])
    exact ⟨a, by simp only [List.length_cons] at b ⊢; omega⟩
  | case3 r i o hr ih =>
    obtain ⟨a, b⟩ := ih (by simp [h, range_succ_reverse])
    exact ⟨a, by simp only [List.length_cons] at b ⊢; omega⟩
  | case4 r i o ih =>
    obtain ⟨a, b⟩ := ih (by simp [h, range_succ_reverse])
    exact ⟨a, by simp only [List.length_cons] at b ⊢; omega⟩
  | case5 => simp [h]

/-- the first loop of `skip_trivia` only consumes trivia -/
theorem skipTriviaLoop_count (ck : Nat) (r : List Cls) (i : Nat) (o : List Out) :
    countOther (skipTriviaLoop ck r i o).rest = countOther r := by
  fun_induction skipTriviaLoop ck r i o <;> simp_all [countOther_cons, Cls.isTrivia]

theorem skipTriviaRest_inv (r : List Cls) (i : Nat) (o : List Out)
    (h : outToks o = (List.range i).reverse) :
    outToks (skipTriviaRest r i o).out = (List.range (skipTriviaRest r i o).idx).reverse ∧
    (skipTriviaRest r i o).idx + (skipTriviaRest r i o).rest.length = i + r.length := by
  fun_induction skipTriviaRest r i o with
  | case1 c r i o hc ih =>
    obtain ⟨a, b⟩ := ih (by simp [h, range_succ_reverse])
    exact ⟨a, by simp only [List.length_cons] at b ⊢; omega⟩
  | case2 c r i o hc => simp [h]
  | case3 => simp [h]

/-- the second loop only consumes trivia and stops in front of a non-trivia token (or at the end) -/
theorem skipTriviaRest_count (r : List Cls) (i : Nat) (o : List Out) :
    countOther (skipTriviaRest r i o).rest = countOther r ∧ Skipped (skipTriviaRest r i o).rest := by
  fun_induction skipTriviaRest r i o with
  | case1 c r i o hc ih => exact ⟨by rw [ih.1]; simp [countOther_cons, hc], ih.2⟩
  | case2 c r i o hc => simp [Skipped]; simpa using hc
  | case3 => simp [Skipped]

theorem skipTrivia_inv (ck total : Nat) (s : Sink) (h : SinkInv total s) :
    SinkInv total (skipTrivia ck s) := by
  obtain ⟨h1, h2⟩ := h
  obtain ⟨a1, a2⟩ := skipTriviaLoop_inv ck s.rest s.idx s.out h1
  obtain ⟨b1, b2⟩ := skipTriviaRest_inv (skipTriviaLoop ck s.rest s.idx s.out).rest _ _ a1
  unfold skipTrivia SinkInv
  exact ⟨b1, by simp only; omega⟩

theorem skipTrivia_count (ck : Nat) (s : Sink) :
    countOther (skipTrivia ck s).rest = countOther s.rest ∧ Skipped (skipTrivia ck s).rest := by
  have a := skipTriviaLoop_count ck s.rest s.idx s.out
  obtain ⟨b1, b2⟩ := skipTriviaRest_count (skipTriviaLoop ck s.rest s.idx s.out).rest
    (skipTriviaLoop ck s.rest s.idx s.out).idx (skipTriviaLoop ck s.rest s.idx s.out).out
  unfold skipTrivia
  exact ⟨by simp only; omega, b2⟩

theorem processEvent_add_nil {s : Sink} (h : s.rest = []) : processEvent s .add = none := by
  simp [processEvent, h]

theorem processEvent_add_cons {s : Sink} {c : Cls} {r : List Cls} (h : s.rest = c :: r) :
    processEvent s .add = some ⟨r, s.idx + 1, .tok s.idx :: s.out⟩ := by
  simp [processEvent, h]

theorem processEvent_inv {total : Nat} {s s' : Sink} {e : Ev} (h : SinkInv total s)
    (he : processEvent s e = some s') : SinkInv total s' := by
  obtain ⟨h1, h2⟩ := h
  cases e with
  | start k => simp [processEvent] at he; subst he; exact ⟨by simpa using h1, h2⟩
  | finish => simp [processEvent] at he; subst he; exact ⟨by simpa using h1, h2⟩
  | add =>
    cases hr : s.rest with
    | nil => simp [processEvent_add_nil hr] at he
    | cons c r =>
      simp [processEvent_add_cons hr] at he; subst he
      refine ⟨by simp [h1, range_succ_reverse], ?_⟩
      simp only [hr, List.length_cons] at h2 ⊢; omega

theorem runEvents_inv (ck total : Nat) (evs : List Ev) (s s' : Sink) (h : SinkInv total s)
    (hr : runEvents ck evs s = some s') : SinkInv total s' := by
  fun_induction runEvents ck evs s with
  | case1 s => simp at hr; subst hr; exact h
  | case2 last s => exact processEvent_inv (skipTrivia_inv ck total s h) hr
  | case3 e next more s hn => simp at hr
  | case4 e next more s s1 hs1 s2 ih =>
    have h1 := processEvent_inv h hs1
    apply ih _ hr
    simp only [s2]
    split
    · exact h1
    · exact skipTrivia_inv ck total _ h1

/-- the central counting lemma: on an event list that ends with `finish`, started in a state
where an initial `add` (if any) finds the trivia already skipped, the loop of `Sink::finish`
succeeds iff there are at most as many `add` events as non-trivia tokens left, and then leaves
exactly the surplus non-trivia tokens, with all trivia in front of them consumed. -/
theorem runEvents_spec (ck : Nat) (evs : List Ev) (s : Sink)
    (hlast : evs.getLast? = some .finish) (hsk : evs.head? = some .add → Skipped s.rest) :
    if countAdd evs ≤ countOther s.rest then
      ∃ s', runEvents ck evs s = some s' ∧ countOther s'.rest + countAdd evs = countOther s.rest ∧
        Skipped s'.rest
    else runEvents ck evs s = none := by
  fun_induction runEvents ck evs s with
  | case1 s => simp at hlast
  | case2 last s =>
    simp at hlast; subst hlast
    obtain ⟨c, k⟩ := skipTrivia_count ck s
    simp [countAdd_cons, processEvent, c, k]
  | case3 e next more s hn =>
    cases e with
    | start k => simp [processEvent] at hn
    | finish => simp [processEvent] at hn
    | add =>
      have hs := hsk rfl
      cases hr : s.rest with
      | nil => simp [countAdd_cons]
      | cons c r => simp [processEvent_add_cons hr] at hn
  | case4 e next more s s1 hs1 s2 ih =>
    have hlast' : (next :: more).getLast? = some Ev.finish := by
      simpa [List.getLast?_cons_cons] using hlast
    have hsk' : (next :: more).head? = some Ev.add → Skipped s2.rest := by
      intro hn
      simp at hn; subst hn
      exact (skipTrivia_count ck s1).2
    have hc2 : countOther s2.rest = countOther s1.rest := by
      simp only [s2]; split
      · rfl
      · exact (skipTrivia_count ck s1).1
    have := ih hlast' hsk'
    rw [hc2] at this
    cases e with
    | start k =>
      simp [processEvent] at hs1; subst hs1
      simpa [countAdd_cons (.start k)] using this
    | finish =>
      simp [processEvent] at hs1; subst hs1
      simpa [countAdd_cons .finish] using this
    | add =>
      have hs := hsk rfl
      cases hr : s.rest with
      | nil => simp [processEvent_add_nil hr] at hs1
      | cons c r =>
        simp [processEvent_add_cons hr] at hs1; subst hs1
        simp only [hr, Skipped] at hs
        simp only [countAdd_cons .add, countOther_cons, hs, if_true, Bool.false_eq_true,
          if_false] at this ⊢
        split at this
        · rw [if_pos (by omega)]
          obtain ⟨s', a, b, c⟩ := this
          exact ⟨s', a, by omega, c⟩
        · rw [if_neg (by omega)]; exact this

theorem sinkFinish_of_shape (ck : Nat) (toks : List Cls) {evs : List Ev} (h : RootShape evs) :
    sinkFinish ck toks evs =
      (runEvents ck evs ⟨toks, 0, []⟩).map fun s => (s.out.reverse, s.idx) := by
  obtain ⟨⟨k, h1⟩, h2⟩ := h
  simp [sinkFinish, h1, h2]

theorem sinkFinish_some {ck : Nat} {toks : List Cls} {evs : List Ev} {out : List Out} {n : Nat}
    (h : sinkFinish ck toks evs = some (out, n)) :
    ∃ s, runEvents ck evs ⟨toks, 0, []⟩ = some s ∧ out = s.out.reverse ∧ n = s.idx := by
  unfold sinkFinish at h
  split at h
  · simp only [Option.map_eq_some_iff, Prod.mk.injEq] at h
    obtain ⟨s, a, b, c⟩ := h
    exact ⟨s, a, b.symm, c.symm⟩
  · simp at h

/-- the sink on a root-shaped event list: it succeeds iff there are at most as many `add`
events as non-trivia tokens, and then it has added all tokens iff the two counts agree -/
theorem sinkFinish_spec (ck : Nat) (toks : List Cls) (evs : List Ev) (h : RootShape evs) :
    if countAdd evs ≤ countOther toks then
      ∃ out n, sinkFinish ck toks evs = some (out, n) ∧ n ≤ toks.length ∧
        (n = toks.length ↔ countAdd evs = countOther toks)
    else sinkFinish ck toks evs = none := by
  rw [sinkFinish_of_shape ck toks h]
  obtain ⟨⟨k, h1⟩, h2⟩ := h
  have := runEvents_spec ck evs ⟨toks, 0, []⟩ h2 (by simp [h1])
  simp only at this
  split
  · rename_i hle
    rw [if_pos hle] at this
    obtain ⟨s', a, b, c⟩ := this
    obtain ⟨-, i2⟩ := runEvents_inv ck toks.length evs _ s' ⟨by simp, by simp⟩ a
    refine ⟨s'.out.reverse, s'.idx, by simp [a], by omega, ?_⟩
    constructor
    · intro hn
      have : s'.rest = [] := List.eq_nil_of_length_eq_zero (by omega)
      rw [this] at b; simpa using b
    · intro hc
      have := skipped_countOther_zero c (by omega)
      rw [this] at i2; simpa using i2
  · rename_i hle
    rw [if_neg hle] at this
    simp [this]

/-! ### the parser side -/

theorem isTrivia_false_iff {c : Cls} : c.isTrivia = false ↔ c = .other := by
  cases c <;> simp [Cls.isTrivia]

/-- `Parser::skip_trivia` drops a block of trivia and stops at the end or at a non-trivia token -/
theorem pSkipTrivia_spec (r : List Cls) (i : Nat) :
    ∃ tr, r = tr ++ (pSkipTrivia r i).1 ∧ (pSkipTrivia r i).2 = i + tr.length ∧
      countOther tr = 0 ∧ Skipped (pSkipTrivia r i).1 := by
  fun_induction pSkipTrivia r i with
  | case1 c r i hc ih =>
    obtain ⟨tr, a, b, c', d⟩ := ih
    refine ⟨c :: tr, by simpa using a, by simp only [List.length_cons]; omega, ?_, d⟩
    simp [countOther_cons, hc, c']
  | case2 c r i hc => exact ⟨[], by simp, by simp, by simp, by simpa [Skipped] using hc⟩
  | case3 i => exact ⟨[], by simp, by simp, by simp, by simp [Skipped]⟩

/-- what every reachable kernel state satisfies, relative to the whole token list -/
structure KInv (toks : List Cls) (s : PState) : Prop where
  /-- the tokens split into the consumed prefix (`idx` long, `adds` non-trivia tokens) and `rest` -/
  split : ∃ pre, toks = pre ++ s.rest ∧ pre.length = s.idx ∧ countOther pre = s.adds
  bumps_lt : ∀ b ∈ s.bumps, b < s.idx
  bumps_other : ∀ b ∈ s.bumps, toks[b]? = some .other
  bumps_sorted : s.bumps.Pairwise (· > ·)
  bumps_len : s.bumps.length = s.adds

theorem KInv.init (toks : List Cls) : KInv toks ⟨toks, 0, 0, []⟩ :=
  ⟨⟨[], by simp⟩, by simp, by simp, by simp, rfl⟩

theorem kstep_inv {toks : List Cls} {s s' : PState} {op : KOp} (h : KInv toks s)
    (hs : kstep s op = some s') : KInv toks s' := by
  obtain ⟨⟨pre, h1, h2, h3⟩, h4, h5, h6, h7⟩ := h
  obtain ⟨tr, t1, t2, t3, t4⟩ := pSkipTrivia_spec s.rest s.idx
  cases op with
  | marker => simp [kstep] at hs; subst hs; exact ⟨⟨pre, h1, h2, h3⟩, h4, h5, h6, h7⟩
  | look =>
    simp [kstep] at hs; subst hs
    refine ⟨⟨pre ++ tr, ?_, ?_, ?_⟩, ?_, h5, h6, h7⟩
    · simp only [List.append_assoc]; rw [← t1]; exact h1
    · simp only [List.length_append]; omega
    · simp only [countOther_append]; omega
    · intro b hb; have := h4 b hb; simp only; omega
  | bump =>
    unfold kstep at hs
    simp only at hs
    split at hs
    · simp at hs
    · rename_i c r i heq
      simp at hs; subst hs
      rw [heq] at t1 t2 t4
      simp only at t1 t2 t4
      simp only [Skipped, isTrivia_false_iff] at t4
      subst t4
      have hi : (pre ++ tr).length = i := by simp only [List.length_append]; omega
      have htoks : toks = (pre ++ tr) ++ Cls.other :: r := by
        rw [h1, t1]; simp
      refine ⟨⟨pre ++ tr ++ [.other], ?_, ?_, ?_⟩, ?_, ?_, ?_, by simp [h7]⟩
      · simp only [htoks, List.append_assoc, List.singleton_append]
      · simp only [List.length_append, List.length_singleton] at hi ⊢; omega
      · simp only [countOther_append, countOther_cons, Cls.isTrivia, countOther_nil]
        simp; omega
      · intro b hb
        simp only [List.mem_cons] at hb
        rcases hb with rfl | hb
        · simp only; omega
        · have := h4 b hb; simp only; omega
      · intro b hb
        simp only [List.mem_cons] at hb
        rcases hb with rfl | hb
        · rw [htoks, ← hi]; simp
        · exact h5 b hb
      · simp only [List.pairwise_cons]
        refine ⟨?_, h6⟩
        intro b hb; have := h4 b hb; omega

theorem krun_inv {toks : List Cls} (ops : List KOp) {s s' : PState} (h : KInv toks s)
    (hr : krun ops s = some s') : KInv toks s' := by
  fun_induction krun ops s with
  | case1 s => simp at hr; subst hr; exact h
  | case2 op ops s hn => simp at hr
  | case3 op ops s s1 hs1 ih => exact ih (kstep_inv h hs1) hr

/-- at end of input every non-trivia token has been counted -/
theorem KInv.atEof_adds {toks : List Cls} {s : PState} (h : KInv toks s) (he : s.atEof = true) :
    s.adds = countOther toks := by
  obtain ⟨⟨pre, h1, h2, h3⟩, -, -, -, -⟩ := h
  obtain ⟨tr, t1, t2, t3, t4⟩ := pSkipTrivia_spec s.rest s.idx
  simp only [PState.atEof, List.isEmpty_iff] at he
  rw [he, List.append_nil] at t1
  rw [h1, countOther_append, t1, t3]; omega

/-! ### the progress guard -/

theorem guardedLoop_spec (body : Nat → Nat) (bound : Nat) (hmono : ∀ i, i ≤ body i)
    (hb : ∀ i, i ≤ bound → body i ≤ bound) :
    ∀ fuel idx, idx ≤ bound → bound - idx + 1 ≤ fuel →
      1 ≤ (guardedLoop body fuel idx).1 ∧ (guardedLoop body fuel idx).1 ≤ bound - idx + 1 ∧
      body (guardedLoop body fuel idx).2 = (guardedLoop body fuel idx).2 ∧
      idx ≤ (guardedLoop body fuel idx).2 ∧ (guardedLoop body fuel idx).2 ≤ bound := by
  intro fuel
  induction fuel with
  | zero => intro idx h1 h2; omega
  | succ fuel ih =>
    intro idx h1 h2
    unfold guardedLoop
    simp only
    split
    · rename_i heq
      refine ⟨by simp, by simp, ?_, by simp [heq], by simp [heq, h1]⟩
      simp only; rw [heq, heq]
    · rename_i hne
      have hm := hmono idx
      have hbb := hb idx h1
      have := ih (body idx) hbb (by omega)
      simp only
      omega

/-- the result does not depend on the fuel once there is enough of it -/
theorem guardedLoop_fuel (body : Nat → Nat) (bound : Nat) (hmono : ∀ i, i ≤ body i)
    (hb : ∀ i, i ≤ bound → body i ≤ bound) :
    ∀ fuel fuel' idx, idx ≤ bound → bound - idx + 1 ≤ fuel → bound - idx + 1 ≤ fuel' →
      guardedLoop body fuel idx = guardedLoop body fuel' idx := by
  intro fuel
  induction fuel with
  | zero => intro fuel' idx h1 h2; omega
  | succ fuel ih =>
    intro fuel' idx h1 h2 h3
    cases fuel' with
    | zero => omega
    | succ fuel' =>
      unfold guardedLoop
      simp only
      split
      · rfl
      · rename_i hne
        have hm := hmono idx
        have hbb := hb idx h1
        rw [ih fuel' (body idx) hbb (by omega) (by omega)]

/-! ### comment nodes -/

/-- nesting depth after a sequence of builder calls (`none`: a `finish` with nothing open) -/
def depthAfter : Nat → List Out → Option Nat
  | d, [] => some d
  | d, .start _ :: o => depthAfter (d + 1) o
  | d, .tok _ :: o => depthAfter d o
  | 0, .finish :: _ => none
  | d + 1, .finish :: o => depthAfter d o

/-- every `start` is closed by a later `finish` and no `finish` comes early -/
def Balanced (o : List Out) : Prop := depthAfter 0 o = some 0

/-- lexer shape: every `contents` token is immediately preceded by a `leader` -/
def lexShapeFrom (prevLeader : Bool) : List Cls → Bool
  | [] => true
  | .contents :: r => prevLeader && lexShapeFrom false r
  | .leader :: r => lexShapeFrom true r
  | _ :: r => lexShapeFrom false r

def LexShape (toks : List Cls) : Prop := lexShapeFrom false toks = true

instance (toks : List Cls) : Decidable (LexShape toks) := by unfold LexShape; infer_instance

theorem depthAfter_append (d : Nat) (a b : List Out) :
    depthAfter d (a ++ b) = (depthAfter d a).bind fun d' => depthAfter d' b := by
  fun_induction depthAfter d a <;> simp_all [depthAfter]

theorem lexShapeFrom_false_head {r : List Cls} (h : lexShapeFrom false r = true) :
    r.head? ≠ some .contents := by
  cases r with
  | nil => simp
  | cons c r => cases c <;> simp_all [lexShapeFrom]

theorem skipTriviaLoop_depth (ck : Nat) (r : List Cls) (i : Nat) (o : List Out) (p : Bool)
    (d0 d : Nat) (hs : lexShapeFrom p r = true)
    (h : depthAfter d0 o.reverse = some (d + (if r.head? = some .contents then 1 else 0))) :
    depthAfter d0 (skipTriviaLoop ck r i o).out.reverse = some d := by
  fun_induction skipTriviaLoop ck r i o generalizing p with
  | case1 r i o ih =>
    simp only [lexShapeFrom] at hs
    apply ih false hs
    simp [lexShapeFrom_false_head hs, depthAfter_append] at h ⊢
    simp [h, depthAfter]
  | case2 i o r' ih =>
    simp only [lexShapeFrom] at hs
    apply ih true hs
    simp [depthAfter_append] at h ⊢
    simp [h, depthAfter]
  | case3 r i o hr ih =>
    simp only [lexShapeFrom] at hs
    apply ih true hs
    have : r.head? ≠ some .contents := by
      cases r with
      | nil => simp
      | cons c r => cases c <;> simp_all
    simp [this, depthAfter_append] at h ⊢
    simp [h, depthAfter]
  | case4 r i o ih =>
    simp only [lexShapeFrom, Bool.and_eq_true] at hs
    apply ih false hs.2
    simp [lexShapeFrom_false_head hs.2, depthAfter_append] at h ⊢
    simp [h, depthAfter]
  | case5 r i o h1 h2 h3 =>
    have : r.head? ≠ some .contents := by
      cases r with
      | nil => simp
      | cons c r => cases c <;> simp_all
    simpa [this] using h

/-- the first loop of `Sink::skip_trivia` already stops in front of a non-trivia token … -/
theorem skipTriviaLoop_skipped (ck : Nat) (r : List Cls) (i : Nat) (o : List Out) :
    Skipped (skipTriviaLoop ck r i o).rest := by
  fun_induction skipTriviaLoop ck r i o with
  | case5 r i o h1 h2 h3 =>
    cases r with
    | nil => simp [Skipped]
    | cons c r => cases c <;> simp_all [Skipped, Cls.isTrivia]
  | _ => assumption

theorem skipTriviaRest_of_skipped {r : List Cls} (h : Skipped r) (i : Nat) (o : List Out) :
    skipTriviaRest r i o = ⟨r, i, o⟩ := by
  cases r with
  | nil => rfl
  | cons c r => simp only [Skipped] at h; simp [skipTriviaRest, h]

/-- … so its second loop never iterates -/
theorem skipTrivia_eq_loop (ck : Nat) (s : Sink) :
    skipTrivia ck s = skipTriviaLoop ck s.rest s.idx s.out := by
  unfold skipTrivia
  exact skipTriviaRest_of_skipped (skipTriviaLoop_skipped ck s.rest s.idx s.out) _ _

end CapyV.ParserKernel
