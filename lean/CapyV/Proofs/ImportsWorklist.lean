import CapyV.Model.Imports
/-!
# The import worklist of `compile_file` (C28)

`worklist imps ord fuel entry` parses every file reachable from `entry` through the import
graph exactly once, the entry file first, and `fuel > number of files` is always enough.
-/
namespace CapyV.Imports

/-- files reachable from `entry` through the import graph -/
inductive Reach {α : Type} (imps : α → List α) (entry : α) : α → Prop
  | refl : Reach imps entry entry
  | step {a b : α} : Reach imps entry a → b ∈ imps a → Reach imps entry b

section WorklistProofs
variable {α : Type} [DecidableEq α]

/-! ### `extendSet` -/

theorem mem_extendSet (cur xs : List α) (x : α) :
    x ∈ extendSet cur xs ↔ x ∈ cur ∨ x ∈ xs := by
  unfold extendSet
  induction xs generalizing cur with
  | nil => simp
  | cons y ys ih =>
    simp only [List.foldl_cons, ih, List.mem_cons]
    split <;> grind

/-! ### invariant of one round -/

/-- invariant of the fold `round`: `st = (parsed, cur)`, `rest` = the files of the round
that are still to be visited -/
structure RInv (imps : α → List α) (entry : α) (st : List α × List α) (rest : List α) :
    Prop where
  nodup : st.1.Nodup
  head : st.1.head? = some entry
  reachP : ∀ x ∈ st.1, Reach imps entry x
  reachC : ∀ x ∈ st.2, Reach imps entry x
  reachR : ∀ x ∈ rest, Reach imps entry x
  closed : ∀ a ∈ st.1, ∀ b ∈ imps a, b ∈ st.1 ∨ b ∈ rest ∨ b ∈ st.2

theorem RInv.step {imps : α → List α} {entry : α} {st : List α × List α} {f : α}
    {rest : List α} (h : RInv imps entry st (f :: rest)) :
    RInv imps entry (roundStep imps st f) rest := by
  unfold roundStep
  split
  · rename_i hf
    refine ⟨h.nodup, h.head, h.reachP, h.reachC,
      fun x hx => h.reachR x (List.mem_cons_of_mem _ hx), ?_⟩
    intro a ha b hb
    rcases h.closed a ha b hb with h1 | h1 | h1
    · exact Or.inl h1
    · rcases List.mem_cons.1 h1 with rfl | h2
      · exact Or.inl hf
      · exact Or.inr (Or.inl h2)
    · exact Or.inr (Or.inr h1)
  · rename_i hf
    have hfR : Reach imps entry f := h.reachR f List.mem_cons_self
    refine ⟨?_, ?_, ?_, ?_, fun x hx => h.reachR x (List.mem_cons_of_mem _ hx), ?_⟩
    · have := h.nodup
      simp only [List.nodup_append]
      refine ⟨this, by simp, ?_⟩
      intro a ha b hb
      simp only [List.mem_singleton] at hb
      subst hb
      intro hab
      subst hab
      exact hf ha
    · have := h.head
      show (st.1 ++ [f]).head? = some entry
      cases hs : st.1 with
      | nil => rw [hs] at this; simp at this
      | cons a l => rw [hs] at this; simpa using this
    · intro x hx
      rcases List.mem_append.1 hx with hx | hx
      · exact h.reachP x hx
      · simp only [List.mem_singleton] at hx
        subst hx
        exact hfR
    · intro x hx
      rcases (mem_extendSet _ _ _).1 hx with hx | hx
      · exact h.reachC x hx
      · exact Reach.step hfR hx
    · intro a ha b hb
      show b ∈ st.1 ++ [f] ∨ b ∈ rest ∨ b ∈ extendSet st.2 (imps f)
      rcases List.mem_append.1 ha with ha | ha
      · rcases h.closed a ha b hb with h1 | h1 | h1
        · exact Or.inl (List.mem_append_left _ h1)
        · rcases List.mem_cons.1 h1 with rfl | h2
          · exact Or.inl (List.mem_append_right _ (List.mem_singleton.2 rfl))
          · exact Or.inr (Or.inl h2)
        · exact Or.inr (Or.inr ((mem_extendSet _ _ _).2 (Or.inl h1)))
      · simp only [List.mem_singleton] at ha
        subst ha
        exact Or.inr (Or.inr ((mem_extendSet _ _ _).2 (Or.inr hb)))

theorem RInv.foldl {imps : α → List α} {entry : α} (rest : List α) (st : List α × List α)
    (h : RInv imps entry st rest) :
    RInv imps entry (rest.foldl (roundStep imps) st) [] := by
  induction rest generalizing st with
  | nil => exact h
  | cons f rest ih => exact ih _ h.step

/-- progress of a round: either nothing happened or `parsed` grew -/
theorem foldl_progress (imps : α → List α) (rest : List α) (st : List α × List α) :
    rest.foldl (roundStep imps) st = st ∨
      st.1.length < (rest.foldl (roundStep imps) st).1.length := by
  induction rest generalizing st with
  | nil => exact Or.inl rfl
  | cons f rest ih =>
    simp only [List.foldl_cons]
    by_cases hf : f ∈ st.1
    · have : roundStep imps st f = st := by simp [roundStep, hf]
      rw [this]
      exact ih st
    · have h1 : (roundStep imps st f).1.length = st.1.length + 1 := by
        simp [roundStep, hf]
      right
      rcases ih (roundStep imps st f) with h2 | h2
      · rw [h2]; omega
      · omega

/-! ### the loop -/

/-- loop invariant -/
abbrev LInv (imps : α → List α) (entry : α) (parsed cur : List α) : Prop :=
  RInv imps entry (parsed, cur) []

theorem LInv.round {imps : α → List α} {ord : List α → List α} {entry : α}
    (hord : ∀ l x, x ∈ ord l ↔ x ∈ l) {parsed cur : List α}
    (h : LInv imps entry parsed cur) :
    LInv imps entry (round imps parsed (ord cur)).1 (round imps parsed (ord cur)).2 := by
  unfold Imports.round
  apply RInv.foldl
  refine ⟨h.nodup, h.head, h.reachP, by simp, ?_, ?_⟩
  · intro x hx
    exact h.reachC x ((hord _ _).1 hx)
  · intro a ha b hb
    rcases h.closed a ha b hb with h1 | h1 | h1
    · exact Or.inl h1
    · simp at h1
    · exact Or.inr (Or.inl ((hord _ _).2 h1))

/-- partial correctness of the loop -/
theorem loop_sound {imps : α → List α} {ord : List α → List α} {entry : α}
    (hord : ∀ l x, x ∈ ord l ↔ x ∈ l) (fuel : Nat) (parsed cur res : List α)
    (h : LInv imps entry parsed cur) (hres : loop imps ord fuel parsed cur = some res) :
    LInv imps entry res [] := by
  induction fuel generalizing parsed cur with
  | zero => simp [loop] at hres
  | succ fuel ih =>
    unfold loop at hres
    split at hres
    · rename_i hc
      subst hc
      cases hres
      exact h
    · exact ih _ _ (h.round hord) hres

/-- more fuel does not change an answer -/
theorem loop_mono (imps : α → List α) (ord : List α → List α) (f1 f2 : Nat)
    (parsed cur res : List α) (hle : f1 ≤ f2)
    (hres : loop imps ord f1 parsed cur = some res) :
    loop imps ord f2 parsed cur = some res := by
  induction f1 generalizing f2 parsed cur with
  | zero => simp [loop] at hres
  | succ f1 ih =>
    cases f2 with
    | zero => omega
    | succ f2 =>
      unfold loop at hres ⊢
      split
      · rename_i hc
        simpa [hc] using hres
      · rename_i hc
        simp only [hc, if_false] at hres
        exact ih _ _ _ (by omega) hres

/-- termination of the loop -/
theorem loop_terminates {imps : α → List α} {ord : List α → List α} {entry : α}
    (hord : ∀ l x, x ∈ ord l ↔ x ∈ l) (U : List α)
    (hU : ∀ x, Reach imps entry x → x ∈ U)
    (fuel : Nat) (parsed cur : List α) (h : LInv imps entry parsed cur)
    (hfuel : U.length - parsed.length + 2 ≤ fuel) :
    ∃ res, loop imps ord fuel parsed cur = some res := by
  induction fuel generalizing parsed cur with
  | zero => omega
  | succ fuel ih =>
    unfold loop
    split
    · exact ⟨_, rfl⟩
    · have h' := h.round hord
      have hlen : (Imports.round imps parsed (ord cur)).1.length ≤ U.length :=
        h'.nodup.length_le_of_subset (fun x hx => hU x (h'.reachP x hx))
      rcases foldl_progress imps (ord cur) (parsed, []) with hp | hp
      · have hp' : Imports.round imps parsed (ord cur) = (parsed, []) := hp
        simp only [hp']
        cases fuel with
        | zero => omega
        | succ fuel => exact ⟨parsed, by simp [loop]⟩
      · have hp' : parsed.length < (Imports.round imps parsed (ord cur)).1.length := hp
        exact ih _ _ h' (by omega)

/-! ### the worklist -/

theorem worklist_init (imps : α → List α) (entry : α) :
    LInv imps entry [entry] (extendSet [] (imps entry)) := by
  refine ⟨by simp, rfl, ?_, ?_, by simp, ?_⟩
  · intro x hx
    simp only [List.mem_singleton] at hx
    subst hx
    exact Reach.refl
  · intro x hx
    rcases (mem_extendSet _ _ _).1 hx with hx | hx
    · simp at hx
    · exact Reach.step Reach.refl hx
  · intro a ha b hb
    simp only [List.mem_singleton] at ha
    subst ha
    exact Or.inr (Or.inr ((mem_extendSet _ _ _).2 (Or.inr hb)))

omit [DecidableEq α] in
theorem LInv.final {imps : α → List α} {entry : α} {res : List α}
    (h : LInv imps entry res []) :
    res.Nodup ∧ res.head? = some entry ∧ ∀ f, f ∈ res ↔ Reach imps entry f := by
  refine ⟨h.nodup, h.head, fun f => ⟨h.reachP f, ?_⟩⟩
  intro hf
  induction hf with
  | refl =>
    have := h.head
    cases res with
    | nil => simp at this
    | cons a l =>
      simp only [List.head?_cons, Option.some.injEq] at this
      subst this
      exact List.mem_cons_self
  | step _ hb ih =>
    rcases h.closed _ ih _ hb with h1 | h1 | h1
    · exact h1
    · simp at h1
    · simp at h1

/-- partial correctness, for any fuel and without a universe: an answer is the
duplicate-free list of the reachable files, the entry file first -/
theorem worklist_sound (imps : α → List α) (ord : List α → List α)
    (hord : ∀ l x, x ∈ ord l ↔ x ∈ l) (entry : α) (fuel : Nat) (res : List α)
    (hres : worklist imps ord fuel entry = some res) :
    res.Nodup ∧ res.head? = some entry ∧ ∀ f, f ∈ res ↔ Reach imps entry f :=
  (loop_sound hord fuel _ _ res (worklist_init imps entry) hres).final

/-- main theorem -/
theorem worklist_spec (imps : α → List α) (ord : List α → List α)
    (hord : ∀ l x, x ∈ ord l ↔ x ∈ l)
    (U : List α) (entry : α) (hU : entry ∈ U) (hclosed : ∀ a ∈ U, ∀ b ∈ imps a, b ∈ U)
    (fuel : Nat) (hfuel : U.length + 1 ≤ fuel) :
    ∃ res, worklist imps ord fuel entry = some res ∧ res.Nodup ∧ res.head? = some entry ∧
      ∀ f, f ∈ res ↔ Reach imps entry f := by
  have hR : ∀ x, Reach imps entry x → x ∈ U := by
    intro x hx
    induction hx with
    | refl => exact hU
    | step _ hb ih => exact hclosed _ ih _ hb
  have hpos : 0 < U.length := List.length_pos_of_mem hU
  obtain ⟨res, hres⟩ := loop_terminates hord U hR fuel [entry] (extendSet [] (imps entry))
    (worklist_init imps entry) (by simp only [List.length_singleton]; omega)
  exact ⟨res, hres, worklist_sound imps ord hord entry fuel res hres⟩

/-- enough fuel: the answer does not depend on the fuel -/
theorem worklist_fuel_irrelevant (imps : α → List α) (ord : List α → List α)
    (hord : ∀ l x, x ∈ ord l ↔ x ∈ l)
    (U : List α) (entry : α) (hU : entry ∈ U) (hclosed : ∀ a ∈ U, ∀ b ∈ imps a, b ∈ U)
    (f1 f2 : Nat) (h1 : U.length + 1 ≤ f1) (h2 : U.length + 1 ≤ f2) :
    worklist imps ord f1 entry = worklist imps ord f2 entry := by
  obtain ⟨res, hres, _⟩ := worklist_spec imps ord hord U entry hU hclosed (U.length + 1)
    (Nat.le_refl _)
  unfold worklist at hres ⊢
  rw [loop_mono imps ord _ f1 _ _ res h1 hres, loop_mono imps ord _ f2 _ _ res h2 hres]

/-- each reachable file is parsed exactly once (and nothing else is parsed); holds for any
fuel for which there is an answer -/
theorem worklist_count_one (imps : α → List α) (ord : List α → List α)
    (hord : ∀ l x, x ∈ ord l ↔ x ∈ l) (entry : α) (fuel : Nat) (res : List α) :
    worklist imps ord fuel entry = some res →
      (∀ f, Reach imps entry f → res.count f = 1) ∧
      (∀ f, ¬ Reach imps entry f → res.count f = 0) := by
  intro hres
  obtain ⟨hnd, _, hmem⟩ := worklist_sound imps ord hord entry fuel res hres
  constructor
  · intro f hf
    rw [hnd.count, if_pos ((hmem f).2 hf)]
  · intro f hf
    exact List.count_eq_zero.2 (fun h => hf ((hmem f).1 h))

end WorklistProofs

/-! ### non-vacuity: a graph with a self-import, a cycle and an unreachable file -/

/-- `0 → [1, 0]`, `1 → [2, 0]`, `2 → [1, 5]`, `5 → []`, `7 → [0]` -/
def exImps : Nat → List Nat
  | 0 => [1, 0]
  | 1 => [2, 0]
  | 2 => [1, 5]
  | 7 => [0]
  | _ => []

example : worklist exImps id 6 0 = some [0, 1, 2, 5] := by decide
example : worklist exImps List.reverse 6 0 = some [0, 1, 2, 5] := by decide
/-- four iterations are needed here (three rounds and the final emptiness test) -/
example : worklist exImps id 4 0 = some [0, 1, 2, 5] := by decide
example : worklist exImps id 3 0 = none := by decide
/-- the bound `U.length + 1` is tight: `U = [0]`, `0 → [0]` needs fuel 2 -/
example : worklist (fun _ : Nat => [0]) id 1 0 = none ∧
    worklist (fun _ : Nat => [0]) id 2 0 = some [0] := by decide
example : ([0, 1, 2, 5, 7] : List Nat).length + 1 ≤ 6 := by decide
example : ∀ a ∈ ([0, 1, 2, 5, 7] : List Nat), ∀ b ∈ exImps a, b ∈ [0, 1, 2, 5, 7] := by decide

/-- the hypotheses of `worklist_spec` are satisfiable and its conclusion is the computed
list -/
example : ∃ res, worklist exImps id 6 0 = some res ∧ res.Nodup ∧ res.head? = some 0 ∧
    ∀ f, f ∈ res ↔ Reach exImps 0 f :=
  worklist_spec exImps id (fun _ _ => Iff.rfl) [0, 1, 2, 5, 7] 0 (by decide) (by decide) 6
    (by decide)

example : ∃ res, worklist exImps List.reverse 6 0 = some res ∧ res.Nodup ∧
    res.head? = some 0 ∧ ∀ f, f ∈ res ↔ Reach exImps 0 f :=
  worklist_spec exImps List.reverse (fun _ _ => List.mem_reverse) [0, 1, 2, 5, 7] 0
    (by decide) (by decide) 6 (by decide)

/-- the unreachable file `7` is not parsed, `5` is -/
example : ¬ Reach exImps 0 7 := by
  intro h
  have := (worklist_sound exImps id (fun _ _ => Iff.rfl) 0 6 [0, 1, 2, 5] (by decide)).2.2 7
  exact absurd (this.2 h) (by decide)

example : Reach exImps 0 5 :=
  ((worklist_sound exImps id (fun _ _ => Iff.rfl) 0 6 [0, 1, 2, 5] (by decide)).2.2 5).1
    (by decide)

end CapyV.Imports
