import CapyV.Model.ExprCore
/-!
Helper lemmas for C24: table facts, one-step unfolding lemmas of the parser model, and the
generalised round-trip statement (`Spec`) proved by structural recursion over `Tree`/`Args`.
-/
namespace CapyV.ExprCore
open CapyV.Generated.BP

/-! ### table facts (re-checked against the regenerated table on every build) -/

theorem bp_of (b : BinOp) : binaryBp b.kind = some (lbp b, rbp b) := by
  cases b <;> rfl

theorem rbp_eq (b : BinOp) : rbp b = lbp b + 1 := by
  cases b <;> rfl

theorem lbp_pos (b : BinOp) : 0 < lbp b := by
  cases b <;> decide

/-! ### what may follow a printed subexpression -/

/-- `rest` begins with nothing, a closer, or a binary operator of left binding power `< j` -/
def Follow (j : Nat) : List Tok → Prop
  | [] => True
  | .rparen :: _ => True
  | .rbrack :: _ => True
  | .comma :: _ => True
  | .bop b :: _ => lbp b < j
  | _ => False

/-- `rest` begins with nothing, a closer or any binary operator (never a postfix starter) -/
def FollowAny : List Tok → Prop
  | [] => True
  | .rparen :: _ => True
  | .rbrack :: _ => True
  | .comma :: _ => True
  | .bop _ :: _ => True
  | _ => False

theorem Follow.any {j : Nat} : ∀ {rest}, Follow j rest → FollowAny rest
  | [], _ => trivial
  | t :: _, hf => by cases t <;> simp [Follow] at hf <;> simp [FollowAny]

theorem Follow.mono {j j' : Nat} (h : j ≤ j') : ∀ {rest}, Follow j rest → Follow j' rest
  | [], _ => trivial
  | t :: _, hf => by
    cases t <;> simp [Follow] at hf ⊢
    omega

/-- first tokens of a printed expression -/
def starter : Tok → Bool
  | .ident _ | .int _ | .caret | .lparen | .bang => true
  | .bop .add | .bop .sub | .bop .xor => true
  | _ => false

/-- a printed expression: starts with a starter, and its second token is not a comma -/
def Good (s : List Tok) : Prop :=
  ∃ x tl, s = x :: tl ∧ starter x = true ∧ (∀ tl', tl ≠ .comma :: tl')

theorem Good.append {s : List Tok} (hs : Good s) (r : List Tok) (hr : ∀ r', r ≠ .comma :: r') :
    Good (s ++ r) := by
  obtain ⟨x, tl, rfl, hx, htl⟩ := hs
  refine ⟨x, tl ++ r, rfl, hx, ?_⟩
  intro tl' h
  cases tl with
  | nil => exact hr tl' (by simpa using h)
  | cons y ys => exact htl (ys ++ r |>.drop ys.length |> fun _ => ys) (by
      simp at h; obtain ⟨rfl, _⟩ := h; rfl)

theorem Good.cons {x : Tok} (hx : starter x = true) {s : List Tok} (hs : Good s) : Good (x :: s) := by
  obtain ⟨y, tl, rfl, hy, _⟩ := hs
  refine ⟨x, _, rfl, hx, ?_⟩
  intro tl' h'
  simp at h'
  obtain ⟨rfl, _⟩ := h'
  simp [starter] at hy

theorem good_parens {s : List Tok} (hs : Good s) : ∀ n, Good (parens n s)
  | 0 => hs
  | n + 1 => by
    obtain ⟨x, tl, h, hx, _⟩ := good_parens hs n
    refine ⟨.lparen, parens n s ++ [.rparen], rfl, rfl, ?_⟩
    intro tl' h'
    rw [h] at h'
    simp at h'
    obtain ⟨rfl, _⟩ := h'
    simp [starter] at hx

theorem UnOp.tok_starter (u : UnOp) : starter u.tok = true := by cases u <;> rfl

theorem good_raw (d : Ctx → Tree → Nat) : (t : Tree) → Good (printRaw d t)
  | .ident n => ⟨_, [], rfl, rfl, by simp⟩
  | .int n => ⟨_, [], rfl, rfl, by simp⟩
  | .bin b l r => by
    simp only [printRaw, List.append_assoc]
    exact (good_parens (good_raw d l) _).append _ (by simp)
  | .un u e => by
    simp only [printRaw]
    exact Good.cons u.tok_starter (good_parens (good_raw d e) _)
  | .ref true e => by
    simp only [printRaw]
    exact ⟨.caret, _, rfl, rfl, by simp⟩
  | .ref false e => by
    simp only [printRaw]
    exact Good.cons rfl (good_parens (good_raw d e) _)
  | .deref e => by
    simp only [printRaw]
    exact (good_parens (good_raw d e) _).append _ (by simp)
  | .try_ e => by
    simp only [printRaw]
    exact (good_parens (good_raw d e) _).append _ (by simp)
  | .field e n => by
    simp only [printRaw]
    exact (good_parens (good_raw d e) _).append _ (by simp)
  | .index e i => by
    simp only [printRaw, List.append_assoc]
    exact (good_parens (good_raw d e) _).append _ (by simp)
  | .cast e v => by
    simp only [printRaw, List.append_assoc]
    exact (good_parens (good_raw d e) _).append _ (by simp)
  | .call g as => by
    simp only [printRaw, List.append_assoc]
    exact (good_parens (good_raw d g) _).append _ (by simp)

theorem good_at (d : Ctx → Tree → Nat) (n : Nat) (t : Tree) : Good (parens n (printRaw d t)) :=
  good_parens (good_raw d t) n

/-! ### one-step unfolding lemmas of the parser model -/

theorem starter_cases {x : Tok} (h : starter x = true) :
    (∃ n, x = .ident n) ∨ (∃ n, x = .int n) ∨ x = .caret ∨ x = .lparen ∨ (∃ u : UnOp, x = u.tok) := by
  cases x with
  | ident n => exact Or.inl ⟨n, rfl⟩
  | int n => exact Or.inr (Or.inl ⟨n, rfl⟩)
  | bop b =>
    cases b <;> simp [starter] at h
    · exact Or.inr (Or.inr (Or.inr (Or.inr ⟨.pos, rfl⟩)))
    · exact Or.inr (Or.inr (Or.inr (Or.inr ⟨.neg, rfl⟩)))
    · exact Or.inr (Or.inr (Or.inr (Or.inr ⟨.bnot, rfl⟩)))
  | bang => exact Or.inr (Or.inr (Or.inr (Or.inr ⟨.not, rfl⟩)))
  | caret => exact Or.inr (Or.inr (Or.inl rfl))
  | lparen => exact Or.inr (Or.inr (Or.inr (Or.inl rfl)))
  | _ => simp [starter] at h

theorem lhs_ident (f n r) : parseLhs (f + 1) (.ident n :: r) = some (.ident n, r) := by
  simp [parseLhs]

theorem lhs_int (f n r) : parseLhs (f + 1) (.int n :: r) = some (.int n, r) := by
  simp [parseLhs]

theorem lhs_paren {f r e r'} (h : parseBp f 0 r = some (e, .rparen :: r')) :
    parseLhs (f + 1) (.lparen :: r) = some (e, r') := by
  simp [parseLhs, startBp, h]

theorem lhs_un {f r e r'} (u : UnOp) (h : parseExprForPrefix f false r = some (e, r')) :
    parseLhs (f + 1) (u.tok :: r) = some (.un u e, r') := by
  cases u <;> simp [parseLhs, UnOp.tok, Tok.kind, BinOp.kind, isPrefix, Tok.unOp, prefixDisallowDot, h]

theorem lhs_refmut {f r e r'} (h : parseExprForPrefix f true r = some (e, r')) :
    parseLhs (f + 1) (.caret :: .mut :: r) = some (.ref true e, r') := by
  simp [parseLhs, refDisallowDot, h]

theorem lhs_ref {f s e r'} (hs : Good s) (r) (h : parseExprForPrefix f true (s ++ r) = some (e, r')) :
    parseLhs (f + 1) (.caret :: (s ++ r)) = some (.ref false e, r') := by
  obtain ⟨x, tl, rfl, hx, _⟩ := hs
  cases x <;> simp [starter] at hx <;> simp_all [parseLhs, refDisallowDot]

theorem efp_step {f noDot toks cm r} (h : parseLhs f toks = some (cm, r)) :
    parseExprForPrefix (f + 1) noDot toks = parsePost f true noDot cm r := by
  simp [parseExprForPrefix, prefixDisallowDerefs, h]

theorem bp_step {f m toks lhs r} (h : parseLhs f toks = some (lhs, r)) :
    parseBp (f + 1) m toks = parseLoop f m lhs r := by
  simp [parseBp, h]

/-- `parse_post_operators` stops in front of a closer, a binary operator or the end -/
theorem post_stop {rest : List Tok} (h : FollowAny rest) (f nd ndot cm) :
    parsePost (f + 1) nd ndot cm rest = some (cm, rest) := by
  cases rest with
  | nil => simp [parsePost]
  | cons t r => cases t <;> simp [FollowAny] at h <;> simp [parsePost]

theorem post_deref (f ndot cm r) :
    parsePost (f + 1) false ndot cm (.caret :: r) = parsePost f false ndot (.deref cm) r := by
  simp [parsePost]

theorem post_try (f nd ndot cm r) :
    parsePost (f + 1) nd ndot cm (.dot :: .try_ :: r) = parsePost f nd ndot (.try_ cm) r := by
  simp [parsePost]

theorem post_field (f nd ndot cm n r) :
    parsePost (f + 1) nd ndot cm (.dot :: .ident n :: r) = parsePost f nd ndot (.field cm n) r := by
  simp [parsePost]

theorem post_index {f nd ndot cm s r i r'} (hs : Good s)
    (h : parseBp f 0 (s ++ .rbrack :: r) = some (i, .rbrack :: r')) :
    parsePost (f + 1) nd ndot cm (.lbrack :: (s ++ .rbrack :: r)) = parsePost f nd ndot (.index cm i) r' := by
  obtain ⟨x, tl, rfl, _, htl⟩ := hs
  cases tl with
  | nil => simp_all [parsePost, startBp]
  | cons y ys =>
    have : y ≠ .comma := fun h => htl ys (by rw [h])
    simp only [List.cons_append] at h
    cases y <;> simp at this <;> simp_all [parsePost, startBp]

theorem post_cast {f nd cm s r v r'} (hs : Good s)
    (h : parseBp f 0 (s ++ r) = some (v, .rparen :: r')) :
    parsePost (f + 1) nd false cm (.dot :: .lparen :: (s ++ r)) = parsePost f nd false (.cast cm v) r' := by
  obtain ⟨x, tl, rfl, hx, _⟩ := hs
  simp only [List.cons_append] at h
  cases x <;> simp [starter] at hx <;> simp_all [parsePost, startBp]

theorem post_call {f nd ndot cm r as r'} (h : parseArgs f r = some (as, r')) :
    parsePost (f + 1) nd ndot cm (.lparen :: r) = parsePost f nd ndot (.call cm as) r' := by
  simp [parsePost, h]

theorem args_nil (f r) : parseArgs (f + 1) (.rparen :: r) = some (.nil, r) := by
  simp [parseArgs]

theorem args_last {f s r a r'} (hs : Good s) (h : parseBp f 0 (s ++ r) = some (a, .rparen :: r')) :
    parseArgs (f + 1) (s ++ r) = some (.cons a .nil, r') := by
  obtain ⟨x, tl, rfl, hx, _⟩ := hs
  simp only [List.cons_append] at h
  cases x <;> simp [starter] at hx <;> simp_all [parseArgs, startBp]

theorem args_more {f s r a r' as r''} (hs : Good s) (h : parseBp f 0 (s ++ r) = some (a, .comma :: r'))
    (h2 : parseArgs f r' = some (as, r'')) :
    parseArgs (f + 1) (s ++ r) = some (.cons a as, r'') := by
  obtain ⟨x, tl, rfl, hx, _⟩ := hs
  simp only [List.cons_append] at h
  cases x <;> simp [starter] at hx <;> simp_all [parseArgs, startBp]

/-- the loop of `parse_expr_bp` stops in front of a closer, an operator that binds less
than `m`, or the end -/
theorem loop_stop {m : Nat} {rest : List Tok} (h : Follow m rest) (f lhs) :
    parseLoop (f + 2) m lhs rest = some (lhs, rest) := by
  have hp := post_stop h.any f false false lhs
  cases rest with
  | nil => simp [parseLoop, loopDisallowDerefs, loopDisallowDot, hp]
  | cons t r =>
    cases t with
    | bop b =>
      simp only [Follow] at h
      rw [parseLoop]
      simp only [loopDisallowDerefs, loopDisallowDot, hp, Tok.kind, bp_of b]
      split <;> simp [h]
    | rparen => simp [parseLoop, loopDisallowDerefs, loopDisallowDot, hp, Tok.kind, quickAssign, binaryBp]
    | rbrack => simp [parseLoop, loopDisallowDerefs, loopDisallowDot, hp, Tok.kind, quickAssign, binaryBp]
    | comma => simp [parseLoop, loopDisallowDerefs, loopDisallowDot, hp, Tok.kind, quickAssign, binaryBp]
    | _ => simp [Follow] at h

/-- the loop takes a binary operator whose left binding power is at least `m` -/
theorem loop_step {m : Nat} (b : BinOp) (hb : m ≤ lbp b) {f lhs s r rhs r'} (hs : Good s)
    (h : parseBp (f + 1) (rbp b) (s ++ r) = some (rhs, r')) :
    parseLoop (f + 2) m lhs (.bop b :: (s ++ r)) = parseLoop (f + 1) m (.bin b lhs rhs) r' := by
  have hp : parsePost (f + 1) false false lhs (.bop b :: (s ++ r)) = some (lhs, .bop b :: (s ++ r)) :=
    post_stop (by simp [FollowAny]) f false false lhs
  obtain ⟨x, tl, rfl, hx, _⟩ := hs
  simp only [List.cons_append] at h hp ⊢
  rw [parseLoop]
  simp only [loopDisallowDerefs, loopDisallowDot, hp, Tok.kind, bp_of b]
  have : ¬ lbp b < m := by omega
  cases x <;> simp [starter] at hx <;> simp [this, h]

end CapyV.ExprCore
