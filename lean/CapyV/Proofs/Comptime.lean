import CapyV.Model.Comptime
import CapyV.Proofs.Layout
/-! Helper definitions and lemmas for C04. -/
namespace CapyV.Comptime
open CapyV CapyV.Layout

/-! ### byte strings -/

theorem leBytes_length (n v : Nat) : (leBytes n v).length = n := by
  induction n generalizing v with
  | zero => rfl
  | succ n ih => simp [leBytes, ih]

theorem leVal_leBytes (n v : Nat) : leVal (leBytes n v) = v % 256 ^ n := by
  induction n generalizing v with
  | zero => simp [leBytes, leVal, Nat.mod_one]
  | succ n ih =>
    simp only [leBytes, leVal, ih]
    rw [Nat.pow_succ, Nat.mul_comm (256 ^ n) 256, Nat.mod_mul]

theorem decode_encode (e : Endian) (n v : Nat) : decode e (encode e n v) = v % 256 ^ n := by
  cases e <;> simp [decode, encode, leVal_leBytes]

theorem encode_length (e : Endian) (n v : Nat) : (encode e n v).length = n := by
  cases e <;> simp [encode, leBytes_length]

theorem take_encode (e : Endian) (n v : Nat) : (encode e n v).take n = encode e n v := by
  rw [List.take_of_length_le]; rw [encode_length]; exact Nat.le_refl n

theorem cRead_append_nul (s rest : List Nat) (h : ∀ b ∈ s, b ≠ 0) : cRead (s ++ 0 :: rest) = s := by
  induction s with
  | nil => simp [cRead]
  | cons b s ih =>
    have hb : b ≠ 0 := h b (by simp)
    simp only [List.cons_append, cRead, hb, if_false]
    rw [ih (fun x hx => h x (by simp [hx]))]

theorem mod_mod_pow (v a : Nat) : v % 2 ^ a % 2 ^ a = v % 2 ^ a := Nat.mod_mod _ _

/-! ### pointer-free types: the specification side of the acceptance rule -/

mutual
/-- No address anywhere inside a value of this type: written from the property, as an inductive
predicate on the type syntax (not from `contains_pointer`). -/
inductive PointerFree : Ty → Prop
  | notYetResolved : PointerFree .notYetResolved
  | unknown : PointerFree .unknown
  | iint (w) : PointerFree (.iint w)
  | uint (w) : PointerFree (.uint w)
  | float (w) : PointerFree (.float w)
  | bool : PointerFree .bool
  | char : PointerFree .char
  | type : PointerFree .type
  | file (n) : PointerFree (.file n)
  | nil : PointerFree .nil
  | void : PointerFree .void
  | alwaysJumps : PointerFree .alwaysJumps
  | anonArray (n) {s} : PointerFree s → PointerFree (.anonArray n s)
  | concreteArray (n) {s} : PointerFree s → PointerFree (.concreteArray n s)
  | distinct (u) {s} : PointerFree s → PointerFree (.distinct u s)
  | enumVariant (a b c d) {s} : PointerFree s → PointerFree (.enumVariant a b c s d)
  | optional {s} : PointerFree s → PointerFree (.optional s)
  | errorUnion {e p} : PointerFree e → PointerFree p → PointerFree (.errorUnion e p)
  | anonStruct {ms} : MembersPointerFree ms → PointerFree (.anonStruct ms)
  | concreteStruct (u) {ms} : MembersPointerFree ms → PointerFree (.concreteStruct u ms)
  | enum (u) {vs} : TysPointerFree vs → PointerFree (.enum u vs)
inductive MembersPointerFree : Members → Prop
  | nil : MembersPointerFree .nil
  | cons (n) {t r} : PointerFree t → MembersPointerFree r → MembersPointerFree (.cons n t r)
inductive TysPointerFree : Tys → Prop
  | nil : TysPointerFree .nil
  | cons {t r} : PointerFree t → TysPointerFree r → TysPointerFree (.cons t r)
end

mutual
theorem pointerFree_of_not_contains : ∀ t : Ty, containsPointer t = false → PointerFree t
  | .notYetResolved, _ => .notYetResolved
  | .unknown, _ => .unknown
  | .iint w, _ => .iint w
  | .uint w, _ => .uint w
  | .float w, _ => .float w
  | .bool, _ => .bool
  | .char, _ => .char
  | .type, _ => .type
  | .file n, _ => .file n
  | .nil, _ => .nil
  | .void, _ => .void
  | .alwaysJumps, _ => .alwaysJumps
  | .string, h => by simp [containsPointer] at h
  | .slice _, h => by simp [containsPointer] at h
  | .pointer _ _, h => by simp [containsPointer] at h
  | .any, h => by simp [containsPointer] at h
  | .rawPtr _, h => by simp [containsPointer] at h
  | .rawSlice, h => by simp [containsPointer] at h
  | .naivePolyFn _, h => by simp [containsPointer] at h
  | .concreteFn _ _ _, h => by simp [containsPointer] at h
  | .fnPointer _ _, h => by simp [containsPointer] at h
  | .anonArray n s, h => .anonArray n (pointerFree_of_not_contains s (by simpa [containsPointer] using h))
  | .concreteArray n s, h => .concreteArray n (pointerFree_of_not_contains s (by simpa [containsPointer] using h))
  | .distinct u s, h => .distinct u (pointerFree_of_not_contains s (by simpa [containsPointer] using h))
  | .enumVariant a b c s d, h =>
    .enumVariant a b c d (pointerFree_of_not_contains s (by simpa [containsPointer] using h))
  | .optional s, h => .optional (pointerFree_of_not_contains s (by simpa [containsPointer] using h))
  | .errorUnion e p, h => by
    simp [containsPointer] at h
    exact .errorUnion (pointerFree_of_not_contains e h.1) (pointerFree_of_not_contains p h.2)
  | .anonStruct ms, h => .anonStruct (membersPointerFree_of_not_contains ms (by simpa [containsPointer] using h))
  | .concreteStruct u ms, h =>
    .concreteStruct u (membersPointerFree_of_not_contains ms (by simpa [containsPointer] using h))
  | .enum u vs, h => .enum u (tysPointerFree_of_not_contains vs (by simpa [containsPointer] using h))
theorem membersPointerFree_of_not_contains : ∀ ms : Members, membersContainPointer ms = false → MembersPointerFree ms
  | .nil, _ => .nil
  | .cons n t r, h => by
    simp [membersContainPointer] at h
    exact .cons n (pointerFree_of_not_contains t h.1) (membersPointerFree_of_not_contains r h.2)
theorem tysPointerFree_of_not_contains : ∀ vs : Tys, tysContainPointer vs = false → TysPointerFree vs
  | .nil, _ => .nil
  | .cons t r, h => by
    simp [tysContainPointer] at h
    exact .cons (pointerFree_of_not_contains t h.1) (tysPointerFree_of_not_contains r h.2)
end

mutual
theorem not_contains_of_pointerFree : ∀ {t : Ty}, PointerFree t → containsPointer t = false
  | _, .notYetResolved | _, .unknown | _, .iint _ | _, .uint _ | _, .float _ | _, .bool | _, .char
  | _, .type | _, .file _ | _, .nil | _, .void | _, .alwaysJumps => by simp [containsPointer]
  | _, .anonArray _ h | _, .concreteArray _ h | _, .distinct _ h | _, .enumVariant _ _ _ _ h
  | _, .optional h => by simpa [containsPointer] using not_contains_of_pointerFree h
  | _, .errorUnion he hp => by
    simp [containsPointer, not_contains_of_pointerFree he, not_contains_of_pointerFree hp]
  | _, .anonStruct h | _, .concreteStruct _ h => by
    simpa [containsPointer] using not_membersContain_of_pointerFree h
  | _, .enum _ h => by simpa [containsPointer] using not_tysContain_of_pointerFree h
theorem not_membersContain_of_pointerFree : ∀ {ms : Members}, MembersPointerFree ms → membersContainPointer ms = false
  | _, .nil => rfl
  | _, .cons _ ht hr => by
    simp [membersContainPointer, not_contains_of_pointerFree ht, not_membersContain_of_pointerFree hr]
theorem not_tysContain_of_pointerFree : ∀ {vs : Tys}, TysPointerFree vs → tysContainPointer vs = false
  | _, .nil => rfl
  | _, .cons ht hr => by
    simp [tysContainPointer, not_contains_of_pointerFree ht, not_tysContain_of_pointerFree hr]
end

/-! ### final types of accepted types -/

/-- `is_aggregate` through the wrappers, for a type whose final type is `Pointer` and that holds no
address: it is an array, a struct, an enum, an error union or a tagged optional. -/
theorem aggregate_of_pointer_final (pw : Nat) : ∀ t : Ty, containsPointer t = false →
    finalTy pw t = some .pointer → t.isAggregate = true
  | .distinct u s, hc, hf => by
    have hc' : containsPointer s = false := by simpa [containsPointer] using hc
    have : finalTy pw s = some .pointer := by
      simp only [finalTy] at hf; split at hf
      · simp at hf
      · exact hf
    simpa [Ty.isAggregate, Ty.absoluteTy] using aggregate_of_pointer_final pw s hc' this
  | .enumVariant a b c s d, hc, hf => by
    have hc' : containsPointer s = false := by simpa [containsPointer] using hc
    have : finalTy pw s = some .pointer := by
      simp only [finalTy] at hf; split at hf
      · simp at hf
      · exact hf
    simpa [Ty.isAggregate, Ty.absoluteTy] using aggregate_of_pointer_final pw s hc' this
  | .anonArray _ _, _, _ | .concreteArray _ _, _, _ | .anonStruct _, _, _ | .concreteStruct _ _, _, _
  | .enum _ _, _, _ | .errorUnion _ _, _, _ => by simp [Ty.isAggregate, Ty.absoluteTy]
  | .optional s, hc, _ => by
    have hc' : containsPointer s = false := by simpa [containsPointer] using hc
    have : s.isPointer = false := by
      cases hs : s.isPointer
      · rfl
      · exfalso
        exact absurd hc' (by
          have := isPointer_contains s hs
          simp [this])
    simp [Ty.isAggregate, Ty.absoluteTy, Ty.isNonZero, this]
  | .string, hc, _ | .slice _, hc, _ | .pointer _ _, hc, _ | .any, hc, _ | .rawPtr _, hc, _
  | .rawSlice, hc, _ | .concreteFn _ _ _, hc, _ | .fnPointer _ _, hc, _ | .naivePolyFn _, hc, _ => by
    simp [containsPointer] at hc
  | .notYetResolved, _, hf | .unknown, _, hf | .nil, _, hf | .void, _, hf | .alwaysJumps, _, hf
  | .file _, _, hf => by simp [finalTy, Ty.isZeroSized] at hf
  | .bool, _, hf | .char, _, hf | .type, _, hf => by simp [finalTy, Ty.isZeroSized] at hf
  | .iint w, _, hf => by
    simp only [finalTy, Ty.isZeroSized, finalizeInt, Bool.false_eq_true, if_false] at hf
    split at hf
    · simp at hf
    · split at hf
      · simp at hf
      · split at hf <;> simp at hf
  | .uint w, _, hf => by
    simp only [finalTy, Ty.isZeroSized, finalizeInt] at hf
    repeat' split at hf
    all_goals simp at hf
  | .float w, _, hf => by
    simp only [finalTy, Ty.isZeroSized, Bool.false_eq_true, if_false] at hf
    split at hf
    · simp at hf
    · split at hf <;> simp at hf
where
  isPointer_contains : ∀ s : Ty, s.isPointer = true → containsPointer s = true
    | .distinct _ s, h => by
      simpa [containsPointer] using isPointer_contains s (by simpa [Ty.isPointer, Ty.absoluteTy] using h)
    | .enumVariant _ _ _ s _, h => by
      simpa [containsPointer] using isPointer_contains s (by simpa [Ty.isPointer, Ty.absoluteTy] using h)
    | .pointer _ _, _ | .rawPtr _, _ => by simp [containsPointer]
    | .notYetResolved, h | .unknown, h | .iint _, h | .uint _, h | .float _, h | .bool, h | .string, h
    | .char, h | .anonArray _ _, h | .concreteArray _ _, h | .slice _, h | .type, h | .any, h
    | .rawSlice, h | .file _, h | .naivePolyFn _, h | .concreteFn _ _ _, h | .fnPointer _ _, h
    | .anonStruct _, h | .concreteStruct _ _, h | .enum _ _, h | .nil, h | .optional _, h
    | .errorUnion _ _, h | .void, h | .alwaysJumps, h => by simp [Ty.isPointer, Ty.absoluteTy] at h

/-- the widths `calc_single` can produce: integers 8/16/32/64/128 (or the pointer width), floats 32/64 -/
theorem number_bits (pw : Nat) (hpw : okPw pw = true) : ∀ (t : Ty) {bits : Nat} {fl s : Bool},
    finalTy pw t = some (.number bits fl s) →
      (fl = false ∧ (bits = 8 ∨ bits = 16 ∨ bits = 32 ∨ bits = 64 ∨ bits = 128)) ∨
      (fl = true ∧ (bits = 32 ∨ bits = 64))
  | .distinct u s', _, _, _, h => by
    simp only [finalTy] at h; split at h
    · simp at h
    · exact number_bits pw hpw s' h
  | .enumVariant a b c s' d, _, _, _, h => by
    simp only [finalTy] at h; split at h
    · simp at h
    · exact number_bits pw hpw s' h
  | .iint w, bits, fl, s, h => by
    have hp : pw = 16 ∨ pw = 32 ∨ pw = 64 := by simp [okPw] at hpw; omega
    simp only [finalTy, Ty.isZeroSized, finalizeInt, PTR_WIDTH_MARK, Bool.false_eq_true, if_false] at h
    by_cases h1 : w = 255
    · simp [h1] at h; obtain ⟨rfl, rfl, rfl⟩ := h; simp; omega
    · by_cases h2 : w = 0
      · simp [h2] at h; obtain ⟨rfl, rfl, rfl⟩ := h; simp
      · by_cases h3 : w = 8 ∨ w = 16 ∨ w = 32 ∨ w = 64 ∨ w = 128
        · simp [h1, h2, h3] at h; obtain ⟨rfl, rfl, rfl⟩ := h; simp; omega
        · simp [h1, h2, h3] at h
  | .uint w, bits, fl, s, h => by
    have hp : pw = 16 ∨ pw = 32 ∨ pw = 64 := by simp [okPw] at hpw; omega
    simp only [finalTy, Ty.isZeroSized, finalizeInt, PTR_WIDTH_MARK, Bool.false_eq_true, if_false] at h
    by_cases h2 : w = 0
    · simp [h2] at h; obtain ⟨rfl, rfl, rfl⟩ := h; simp
    · by_cases h1 : w = 255
      · simp [h1] at h; obtain ⟨rfl, rfl, rfl⟩ := h; simp; omega
      · by_cases h3 : w = 8 ∨ w = 16 ∨ w = 32 ∨ w = 64 ∨ w = 128
        · simp [h1, h2, h3] at h; obtain ⟨rfl, rfl, rfl⟩ := h; simp; omega
        · simp [h1, h2, h3] at h
  | .float w, bits, fl, s, h => by
    simp only [finalTy, Ty.isZeroSized, Bool.false_eq_true, if_false] at h
    by_cases h1 : w = 0 ∨ w = 32
    · simp [h1] at h; obtain ⟨rfl, rfl, rfl⟩ := h; simp
    · by_cases h2 : w = 64
      · simp [h2] at h; obtain ⟨rfl, rfl, rfl⟩ := h; simp
      · simp [h1, h2] at h
  | .bool, _, _, _, h | .char, _, _, _, h | .type, _, _, _, h => by
    simp [finalTy, Ty.isZeroSized] at h; obtain ⟨rfl, rfl, rfl⟩ := h; simp
  | .notYetResolved, _, _, _, h | .unknown, _, _, _, h | .string, _, _, _, h | .slice _, _, _, _, h
  | .pointer _ _, _, _, _, h | .any, _, _, _, h | .rawPtr _, _, _, _, h | .rawSlice, _, _, _, h
  | .file _, _, _, _, h | .naivePolyFn _, _, _, _, h | .concreteFn _ _ _, _, _, _, h
  | .fnPointer _ _, _, _, _, h | .anonStruct _, _, _, _, h | .enum _ _, _, _, _, h | .nil, _, _, _, h
  | .optional _, _, _, _, h | .errorUnion _ _, _, _, _, h | .void, _, _, _, h | .alwaysJumps, _, _, _, h
  | .anonArray _ _, _, _, _, h => by
    simp [finalTy, Ty.isZeroSized] at h
  | .concreteArray _ _, _, _, _, h | .concreteStruct _ _, _, _, _, h => by
    simp only [finalTy] at h
    split at h <;> simp at h

/-- widths of scalars as bytes -/
theorem pow256_of_bits {bits : Nat} (h : bits = 8 ∨ bits = 16 ∨ bits = 32 ∨ bits = 64 ∨ bits = 128) :
    256 ^ (bits / 8) = 2 ^ bits := by
  rcases h with h | h | h | h | h <;> subst h <;> decide

/-- `f32` bit patterns that are NaNs -/
def isNaN32 (b : Nat) : Bool := b / 2 ^ 23 % 256 == 255 && b % 2 ^ 23 != 0

/-- `f32 as f64 as f32` gives back every non-NaN `f32` (binary32 ⊂ binary64, IEEE 754 §5.4.2). -/
def FloatExact (fc : FloatConv) : Prop :=
  ∀ b, b < 2 ^ 32 → isNaN32 b = false → fc.demote (fc.promote b) = b

end CapyV.Comptime
