import CapyV.Model.OrderIndep
/-! Helper definitions and lemmas for C20 (results do not depend on the order of definitions). -/
namespace CapyV.OrderIndep

variable {R : Type}

/-- `val` solves the reference equations of `sys` -/
def IsSolution (sys : Sys R) (val : Nat → R) : Prop :=
  ∀ x, val x = sys.f x ((sys.deps x).map val)

/-- a rank that strictly decreases along references (no cycles) -/
def IsRank (sys : Sys R) (rk : Nat → Nat) : Prop :=
  ∀ x, ∀ d ∈ sys.deps x, rk d < rk x

/-! ### `lookupR`, `isDone` -/

theorem lookupR_isSome_iff {x : Nat} {l : List (Nat × R)} :
    (lookupR x l).isSome = true ↔ x ∈ l.map Prod.fst := by
  induction l with
  | nil => simp [lookupR]
  | cons p l ih =>
    obtain ⟨y, r⟩ := p
    by_cases h : x = y
    · simp [lookupR, h]
    · simp [lookupR, h, ih]

theorem lookupR_eq_none_iff {x : Nat} {l : List (Nat × R)} :
    lookupR x l = none ↔ x ∉ l.map Prod.fst := by
  rw [← lookupR_isSome_iff]
  cases lookupR x l <;> simp

theorem lookupR_some_mem {x : Nat} {r : R} {l : List (Nat × R)} :
    lookupR x l = some r → (x, r) ∈ l := by
  induction l with
  | nil => simp [lookupR]
  | cons p l ih =>
    obtain ⟨y, s⟩ := p
    by_cases h : x = y
    · subst h; simp [lookupR]; intro h; simp [h]
    · simp only [lookupR, h, if_false]; intro h'; exact List.mem_cons_of_mem _ (ih h')

theorem isDone_iff {st : St R} {x : Nat} : isDone st x = true ↔ x ∈ st.done.map Prod.fst :=
  lookupR_isSome_iff

theorem not_isDone_iff {st : St R} {x : Nat} : isDone st x = false ↔ x ∉ st.done.map Prod.fst := by
  rw [← isDone_iff]; simp

/-! ### `inferAbs` -/

theorem inferAbs_inl {sys : Sys R} {st : St R} {x : Nat} {r : R}
    (h : inferAbs sys st x = .inl r) :
    (∀ d ∈ sys.deps x, isDone st d = true) ∧
      r = sys.f x ((sys.deps x).filterMap fun d => lookupR d st.done) := by
  unfold inferAbs at h
  simp only at h
  split at h
  · rename_i he
    injection h with h
    refine ⟨?_, h.symm⟩
    intro d hd
    have := List.isEmpty_iff.mp he
    rw [List.filter_eq_nil_iff] at this
    simpa using this d hd
  · cases h

theorem inferAbs_inr {sys : Sys R} {st : St R} {x : Nat} {ds : List Nat}
    (h : inferAbs sys st x = .inr ds) :
    ds = (sys.deps x).filter (fun d => !isDone st d) ∧ ds ≠ [] := by
  unfold inferAbs at h
  simp only at h
  split at h
  · cases h
  · rename_i he
    injection h with h
    subst h
    refine ⟨rfl, ?_⟩
    intro h0
    exact he (List.isEmpty_iff.mpr h0)

theorem filterMap_eq_map_of {α β} {g : α → Option β} {v : α → β} :
    ∀ {l : List α}, (∀ a ∈ l, g a = some (v a)) → l.filterMap g = l.map v
  | [], _ => rfl
  | a :: l, h => by
    have ha := h a (List.mem_cons_self ..)
    have := filterMap_eq_map_of (g := g) (v := v) (l := l)
      (fun b hb => h b (List.mem_cons_of_mem _ hb))
    simp [ha, this]

/-! ### done results are correct -/

/-- every completed result is the solution's value -/
def Correct (val : Nat → R) (st : St R) : Prop := ∀ p ∈ st.done, p.2 = val p.1

theorem processLeaf_correct {sys : Sys R} {val : Nat → R} (hval : IsSolution sys val)
    {st : St R} (hc : Correct val st) (x : Nat) : Correct val (processLeaf sys st x) := by
  unfold processLeaf
  split
  · rename_i r hr
    obtain ⟨hall, hr⟩ := inferAbs_inl hr
    intro p hp
    simp only [List.mem_cons] at hp
    rcases hp with rfl | hp
    · simp only
      rw [hr, hval x]
      congr 1
      apply filterMap_eq_map_of
      intro d hd
      have h1 := hall d hd
      unfold isDone at h1
      cases hl : lookupR d st.done with
      | none => simp [hl] at h1
      | some r' =>
        have := hc _ (lookupR_some_mem hl)
        simp only at this
        rw [this]
    · exact hc p hp
  · exact hc

theorem foldl_correct {sys : Sys R} {val : Nat → R} (hval : IsSolution sys val) :
    ∀ (ls : List Nat) {st : St R}, Correct val st → Correct val (ls.foldl (processLeaf sys) st)
  | [], _, hc => hc
  | x :: ls, _, hc => foldl_correct hval ls (processLeaf_correct hval hc x)

theorem rounds_correct {sys : Sys R} {val : Nat → R} (hval : IsSolution sys val) :
    ∀ (n : Nat) {st : St R}, Correct val st → Correct val (rounds sys n st)
  | 0, _, hc => hc
  | n + 1, _, hc => rounds_correct hval n (foldl_correct hval _ hc)

/-! ### the structural invariant -/

theorem nodup_eraseDups : ∀ (n : Nat) (l : List Nat), l.length ≤ n → l.eraseDups.Nodup
  | _, [], _ => by simp
  | 0, _ :: _, h => by simp at h
  | n + 1, a :: l, h => by
    rw [List.eraseDups_cons, List.nodup_cons]
    constructor
    · rw [List.mem_eraseDups]; simp
    · apply nodup_eraseDups n
      have := List.length_filter_le (fun b => !b == a) l
      simp only [List.length_cons] at h
      omega

structure Inv (sys : Sys R) (seeds : List Nat) (st : St R) : Prop where
  pnodup : st.pending.Nodup
  disj : ∀ x ∈ st.pending, isDone st x = false
  dnodup : (st.done.map Prod.fst).Nodup
  closed : ∀ x, isDone st x = true → ∀ d ∈ sys.deps x, isDone st d = true
  reach : ∀ x, x ∈ st.pending ∨ isDone st x = true → Reach sys seeds x
  seeded : ∀ s ∈ seeds, s ∈ st.pending ∨ isDone st s = true

theorem init_inv (sys : Sys R) (seeds : List Nat) : Inv sys seeds (init seeds) where
  pnodup := nodup_eraseDups _ _ (Nat.le_refl _)
  disj := by intro x _; simp [init, isDone, lookupR]
  dnodup := by simp [init]
  closed := by intro x h; simp [init, isDone, lookupR] at h
  reach := by
    intro x h
    rcases h with h | h
    · exact .seed (by simpa [init, List.mem_eraseDups] using h)
    · simp [init, isDone, lookupR] at h
  seeded := by intro s hs; left; simpa [init, List.mem_eraseDups] using hs

/-- completed items stay completed -/
theorem isDone_processLeaf_mono {sys : Sys R} {st : St R} {x y : Nat} :
    isDone st y = true → isDone (processLeaf sys st x) y = true := by
  unfold processLeaf
  split
  · intro h
    by_cases hyx : y = x
    · simp [isDone, lookupR, hyx]
    · simpa [isDone, lookupR, hyx] using h
  · exact id

/-- an item that stays pending, or becomes done -/
theorem pending_processLeaf_of_ne {sys : Sys R} {st : St R} {x y : Nat}
    (hy : y ∈ st.pending) (hne : y ≠ x) : y ∈ (processLeaf sys st x).pending := by
  unfold processLeaf
  split
  · simp [hy, hne]
  · simp [hy]

theorem processLeaf_inv {sys : Sys R} {seeds : List Nat} {st : St R} {x : Nat}
    (inv : Inv sys seeds st) (hx : x ∈ st.pending) : Inv sys seeds (processLeaf sys st x) := by
  have hxnd : isDone st x = false := inv.disj x hx
  cases hinf : inferAbs sys st x with
  | inl r =>
    have hall := (inferAbs_inl hinf).1
    have hst : processLeaf sys st x =
        { done := (x, r) :: st.done, pending := st.pending.filter (· != x),
          waits := st.waits.filter (fun p => p.1 != x) } := by
      unfold processLeaf; rw [hinf]
    have hd : ∀ y, isDone (processLeaf sys st x) y = true ↔ (y = x ∨ isDone st y = true) := by
      intro y; rw [hst]
      by_cases hyx : y = x <;> simp [isDone, lookupR, hyx]
    refine ⟨?_, ?_, ?_, ?_, ?_, ?_⟩
    · rw [hst]; exact inv.pnodup.filter _
    · intro y hy
      have hy' : y ∈ st.pending ∧ y ≠ x := by rw [hst] at hy; simpa using hy
      cases hdy : isDone (processLeaf sys st x) y with
      | false => rfl
      | true =>
        rcases (hd y).mp hdy with h | h
        · exact absurd h hy'.2
        · rw [inv.disj y hy'.1] at h; cases h
    · rw [hst]
      simp only [List.map_cons, List.nodup_cons]
      exact ⟨not_isDone_iff.mp hxnd, inv.dnodup⟩
    · intro y hy d hdd
      rw [hd]; right
      rcases (hd y).mp hy with h | h
      · subst h; exact hall d hdd
      · exact inv.closed y h d hdd
    · intro y hy
      rcases hy with hy | hy
      · rw [hst] at hy
        exact inv.reach y (.inl (List.mem_filter.mp hy).1)
      · rcases (hd y).mp hy with h | h
        · subst h; exact inv.reach y (.inl hx)
        · exact inv.reach y (.inr h)
    · intro s hs
      rcases inv.seeded s hs with h | h
      · by_cases hsx : s = x
        · right; exact (hd s).mpr (.inl hsx)
        · left; exact pending_processLeaf_of_ne h hsx
      · right; exact (hd s).mpr (.inr h)
  | inr ds =>
    obtain ⟨hds, _⟩ := inferAbs_inr hinf
    have hst : processLeaf sys st x =
        { done := st.done,
          pending := st.pending ++
            (ds.filter fun d => !(st.pending.contains d) && !isDone st d).eraseDups,
          waits := (x, ds) :: st.waits.filter (fun p => p.1 != x) } := by
      unfold processLeaf; rw [hinf]
    have hd : ∀ y, isDone (processLeaf sys st x) y = isDone st y := by
      intro y; rw [hst]; rfl
    have hp : ∀ y, y ∈ (processLeaf sys st x).pending ↔
        (y ∈ st.pending ∨ (y ∈ ds ∧ y ∉ st.pending ∧ isDone st y = false)) := by
      intro y; rw [hst]
      simp [List.mem_eraseDups]
    refine ⟨?_, ?_, ?_, ?_, ?_, ?_⟩
    · rw [hst]
      simp only
      rw [List.nodup_append]
      refine ⟨inv.pnodup, nodup_eraseDups _ _ (Nat.le_refl _), ?_⟩
      intro a ha b hb hab
      subst hab
      rw [List.mem_eraseDups] at hb
      simp at hb
      exact hb.2.1 ha
    · intro y hy
      rw [hd]
      rcases (hp y).mp hy with h | h
      · exact inv.disj y h
      · exact h.2.2
    · rw [hst]; exact inv.dnodup
    · intro y hy d hdd
      rw [hd] at hy ⊢
      exact inv.closed y hy d hdd
    · intro y hy
      rw [hd, hp] at hy
      rcases hy with (hy | hy) | hy
      · exact inv.reach y (.inl hy)
      · have : y ∈ sys.deps x := by
          have := hy.1; rw [hds] at this; exact (List.mem_filter.mp this).1
        exact .step (inv.reach x (.inl hx)) this
      · exact inv.reach y (.inr hy)
    · intro s hs
      rw [hd, hp]
      rcases inv.seeded s hs with h | h
      · exact .inl (.inl h)
      · exact .inr h

theorem foldl_inv {sys : Sys R} {seeds : List Nat} :
    ∀ (ls : List Nat) {st : St R}, Inv sys seeds st → ls.Nodup → (∀ y ∈ ls, y ∈ st.pending) →
      Inv sys seeds (ls.foldl (processLeaf sys) st)
  | [], _, inv, _, _ => inv
  | x :: ls, st, inv, hnd, hsub => by
    rw [List.nodup_cons] at hnd
    apply foldl_inv ls (processLeaf_inv inv (hsub x (List.mem_cons_self ..))) hnd.2
    intro y hy
    apply pending_processLeaf_of_ne (hsub y (List.mem_cons_of_mem _ hy))
    intro h; subst h; exact hnd.1 hy

theorem round_inv {sys : Sys R} {seeds : List Nat} {st : St R} (inv : Inv sys seeds st) :
    Inv sys seeds (round sys st) :=
  foldl_inv _ inv (inv.pnodup.filter _) (fun _ hy => (List.mem_filter.mp hy).1)

theorem rounds_inv {sys : Sys R} {seeds : List Nat} :
    ∀ (n : Nat) {st : St R}, Inv sys seeds st → Inv sys seeds (rounds sys n st)
  | 0, _, inv => inv
  | n + 1, _, inv => rounds_inv n (round_inv inv)

/-- a finished state has completed everything reachable -/
theorem inv_finished_covers {sys : Sys R} {seeds : List Nat} {st : St R} (inv : Inv sys seeds st)
    (hfin : st.pending = []) {x : Nat} (hr : Reach sys seeds x) : isDone st x = true := by
  induction hr with
  | seed hs =>
    rcases inv.seeded _ hs with h | h
    · rw [hfin] at h; cases h
    · exact h
  | step _ hd ih => exact inv.closed _ ih _ hd

/-- reachability only depends on the set of seeds -/
theorem Reach.congr {sys : Sys R} {s₁ s₂ : List Nat} (h : ∀ x, x ∈ s₁ → x ∈ s₂) {x : Nat}
    (hr : Reach sys s₁ x) : Reach sys s₂ x := by
  induction hr with
  | seed hs => exact .seed (h _ hs)
  | step _ hd ih => exact .step ih hd

/-- the `done` table of a finished run, as a function -/
theorem lookup_finished {sys : Sys R} {val : Nat → R} {seeds : List Nat} {st : St R}
    (inv : Inv sys seeds st) (hc : Correct val st) (hfin : st.pending = []) (x : Nat) :
    (Reach sys seeds x → lookupR x st.done = some (val x)) ∧
    (¬ Reach sys seeds x → lookupR x st.done = none) := by
  constructor
  · intro hr
    have h := inv_finished_covers inv hfin hr
    unfold isDone at h
    cases hl : lookupR x st.done with
    | none => simp [hl] at h
    | some r =>
      have := hc _ (lookupR_some_mem hl)
      simp only at this
      rw [this]
  · intro hnr
    cases hl : lookupR x st.done with
    | none => rfl
    | some r =>
      exfalso; apply hnr
      apply inv.reach x (.inr _)
      simp [isDone, hl]


/-! ### acyclic systems have a solution -/

/-- the solution by fuel: `valF n x` is right as soon as `n` exceeds the rank of `x` -/
def valF [Inhabited R] (sys : Sys R) : Nat → Nat → R
  | 0, _ => default
  | n + 1, x => sys.f x ((sys.deps x).map (valF sys n))

theorem valF_stable [Inhabited R] {sys : Sys R} {rk : Nat → Nat} (hrk : IsRank sys rk) :
    ∀ (n m x : Nat), rk x < n → rk x < m → valF sys n x = valF sys m x
  | 0, _, _, h, _ => by omega
  | _ + 1, 0, _, _, h => by omega
  | n + 1, m + 1, x, hn, hm => by
    simp only [valF]
    congr 1
    apply List.map_congr_left
    intro d hd
    have := hrk x d hd
    exact valF_stable hrk n m d (by omega) (by omega)

theorem isSolution_valF [Inhabited R] {sys : Sys R} {rk : Nat → Nat} (hrk : IsRank sys rk) :
    IsSolution sys (fun x => valF sys (rk x + 1) x) := by
  intro x
  show sys.f x ((sys.deps x).map (valF sys (rk x))) =
    sys.f x ((sys.deps x).map fun d => valF sys (rk d + 1) d)
  congr 1
  apply List.map_congr_left
  intro d hd
  have := hrk x d hd
  exact valF_stable hrk _ _ d (by omega) (by omega)

/-! ### `processLeaf`, case by case -/

theorem processLeaf_inl {sys : Sys R} {st : St R} {x : Nat} {r : R}
    (h : inferAbs sys st x = .inl r) :
    processLeaf sys st x =
      { done := (x, r) :: st.done, pending := st.pending.filter (· != x),
        waits := st.waits.filter (fun p => p.1 != x) } := by
  unfold processLeaf; rw [h]

theorem processLeaf_inr {sys : Sys R} {st : St R} {x : Nat} {ds : List Nat}
    (h : inferAbs sys st x = .inr ds) :
    processLeaf sys st x =
      { done := st.done,
        pending := st.pending ++
          (ds.filter fun d => !(st.pending.contains d) && !isDone st d).eraseDups,
        waits := (x, ds) :: st.waits.filter (fun p => p.1 != x) } := by
  unfold processLeaf; rw [h]

theorem find_filter_ne {x y : Nat} (hne : y ≠ x) (l : List (Nat × List Nat)) :
    (l.filter (fun p => p.1 != x)).find? (fun p => p.1 == y) = l.find? (fun p => p.1 == y) := by
  induction l with
  | nil => rfl
  | cons p l ih =>
    obtain ⟨a, b⟩ := p
    have hxy : ¬ x = y := fun h => hne h.symm
    by_cases hpx : a = x
    · subst hpx
      simp [hxy, ih]
    · by_cases hpy : a = y
      · subst hpy; simp [hpx]
      · simp [hpx, hpy, ih]

theorem find_filter_self (x : Nat) (l : List (Nat × List Nat)) :
    (l.filter (fun p => p.1 != x)).find? (fun p => p.1 == x) = none := by
  simp [List.find?_eq_none]

theorem waitsOf_processLeaf_of_ne {sys : Sys R} {st : St R} {x y : Nat} (hne : y ≠ x) :
    waitsOf (processLeaf sys st x) y = waitsOf st y := by
  have hxy : ¬ x = y := fun h => hne h.symm
  cases hinf : inferAbs sys st x with
  | inl r => rw [processLeaf_inl hinf]; simp [waitsOf, find_filter_ne hne]
  | inr ds => rw [processLeaf_inr hinf]; simp [waitsOf, hxy, find_filter_ne hne]

theorem waitsOf_processLeaf_inl {sys : Sys R} {st : St R} {x : Nat} {r : R}
    (hinf : inferAbs sys st x = .inl r) : waitsOf (processLeaf sys st x) x = [] := by
  rw [processLeaf_inl hinf]; unfold waitsOf; simp only; rw [find_filter_self]

theorem waitsOf_processLeaf_inr {sys : Sys R} {st : St R} {x : Nat} {ds : List Nat}
    (hinf : inferAbs sys st x = .inr ds) : waitsOf (processLeaf sys st x) x = ds := by
  rw [processLeaf_inr hinf]; simp [waitsOf]

theorem mem_pending_processLeaf_inr {sys : Sys R} {st : St R} {x : Nat} {ds : List Nat}
    (hinf : inferAbs sys st x = .inr ds) (y : Nat) :
    y ∈ (processLeaf sys st x).pending ↔
      (y ∈ st.pending ∨ (y ∈ ds ∧ y ∉ st.pending ∧ isDone st y = false)) := by
  rw [processLeaf_inr hinf]; simp [List.mem_eraseDups]

/-- registered or completed items stay so -/
theorem known_processLeaf {sys : Sys R} {st : St R} {x y : Nat}
    (h : y ∈ st.pending ∨ isDone st y = true) :
    y ∈ (processLeaf sys st x).pending ∨ isDone (processLeaf sys st x) y = true := by
  rcases h with h | h
  · by_cases hyx : y = x
    · subst hyx
      cases hinf : inferAbs sys st y with
      | inl r => right; rw [processLeaf_inl hinf]; simp [isDone, lookupR]
      | inr ds => left; exact (mem_pending_processLeaf_inr hinf y).mpr (.inl h)
    · exact .inl (pending_processLeaf_of_ne h hyx)
  · exact .inr (isDone_processLeaf_mono h)

/-! ### termination on acyclic systems with finitely many reachable items -/

/-- what the registered dependencies of an item are -/
structure WInv (sys : Sys R) (st : St R) : Prop where
  full : ∀ x, waitsOf st x = [] ∨ ∀ d ∈ sys.deps x, isDone st d = true ∨ d ∈ waitsOf st x
  sub : ∀ x, ∀ d ∈ waitsOf st x, d ∈ sys.deps x ∧ (d ∈ st.pending ∨ isDone st d = true)

theorem init_winv (sys : Sys R) (seeds : List Nat) : WInv sys (init seeds : St R) where
  full := by intro x; left; simp [waitsOf, init]
  sub := by intro x d hd; simp [waitsOf, init] at hd

theorem processLeaf_winv {sys : Sys R} {st : St R} (w : WInv sys st) (x : Nat) :
    WInv sys (processLeaf sys st x) := by
  constructor
  · intro y
    by_cases hyx : y = x
    · subst hyx
      cases hinf : inferAbs sys st y with
      | inl r => left; exact waitsOf_processLeaf_inl hinf
      | inr ds =>
        right
        intro d hd
        rw [waitsOf_processLeaf_inr hinf]
        cases hdd : isDone st d with
        | true => left; exact isDone_processLeaf_mono hdd
        | false =>
          right; rw [(inferAbs_inr hinf).1]
          simp [List.mem_filter, hd, hdd]
    · rw [waitsOf_processLeaf_of_ne hyx]
      rcases w.full y with h | h
      · exact .inl h
      · right; intro d hd
        rcases h d hd with h | h
        · exact .inl (isDone_processLeaf_mono h)
        · exact .inr h
  · intro y d hd
    by_cases hyx : y = x
    · subst hyx
      cases hinf : inferAbs sys st y with
      | inl r => rw [waitsOf_processLeaf_inl hinf] at hd; cases hd
      | inr ds =>
        rw [waitsOf_processLeaf_inr hinf] at hd
        have hd' := hd
        rw [(inferAbs_inr hinf).1, List.mem_filter] at hd'
        refine ⟨hd'.1, ?_⟩
        left
        rw [mem_pending_processLeaf_inr hinf]
        by_cases hp : d ∈ st.pending
        · exact .inl hp
        · exact .inr ⟨hd, hp, by simpa using hd'.2⟩
    · rw [waitsOf_processLeaf_of_ne hyx] at hd
      exact ⟨(w.sub y d hd).1, known_processLeaf (w.sub y d hd).2⟩

/-- offered: pending, and everything it registered has completed -/
def IsLeaf (st : St R) (x : Nat) : Prop :=
  x ∈ st.pending ∧ ∀ d ∈ waitsOf st x, isDone st d = true

theorem mem_leaves {st : St R} {x : Nat} : x ∈ leaves st ↔ IsLeaf st x := by
  simp [leaves, IsLeaf, List.mem_filter, List.all_eq_true]

theorem isLeaf_processLeaf_of_ne {sys : Sys R} {st : St R} {x y : Nat} (hne : y ≠ x)
    (h : IsLeaf st y) : IsLeaf (processLeaf sys st x) y := by
  refine ⟨pending_processLeaf_of_ne h.1 hne, ?_⟩
  rw [waitsOf_processLeaf_of_ne hne]
  intro d hd
  exact isDone_processLeaf_mono (h.2 d hd)

/-- work left for one item: 2 = not yet asked, 1 = asked and waiting, 0 = completed -/
def weight (st : St R) (u : Nat) : Nat :=
  if isDone st u = true then 0
  else if u ∈ st.pending ∧ waitsOf st u ≠ [] then 1 else 2

def mu (U : List Nat) (st : St R) : Nat := (U.map (weight st)).sum

theorem weight_le_two (st : St R) (u : Nat) : weight st u ≤ 2 := by
  unfold weight; split
  · omega
  · split <;> omega

theorem mu_le (U : List Nat) (st : St R) : mu U st ≤ 2 * U.length := by
  unfold mu
  induction U with
  | nil => simp
  | cons u U ih =>
    have := weight_le_two st u
    simp only [List.map_cons, List.sum_cons, List.length_cons]
    omega

theorem sum_map_le {g h : Nat → Nat} :
    ∀ {U : List Nat}, (∀ u ∈ U, g u ≤ h u) → (U.map g).sum ≤ (U.map h).sum
  | [], _ => by simp
  | u :: U, hle => by
    have h1 := hle u (List.mem_cons_self ..)
    have h2 := sum_map_le (g := g) (h := h) (U := U) (fun v hv => hle v (List.mem_cons_of_mem _ hv))
    simp only [List.map_cons, List.sum_cons]
    omega

theorem sum_map_lt {g h : Nat → Nat} {x : Nat} :
    ∀ {U : List Nat}, (∀ u ∈ U, g u ≤ h u) → x ∈ U → g x < h x → (U.map g).sum < (U.map h).sum
  | [], _, hx, _ => by cases hx
  | u :: U, hle, hx, hlt => by
    have hle' : ∀ v ∈ U, g v ≤ h v := fun v hv => hle v (List.mem_cons_of_mem _ hv)
    have h1 := hle u (List.mem_cons_self ..)
    have h2 := sum_map_le hle'
    simp only [List.map_cons, List.sum_cons]
    rcases List.mem_cons.mp hx with rfl | hx
    · omega
    · have := sum_map_lt hle' hx hlt
      omega

theorem weight_processLeaf_le {sys : Sys R} {st : St R} {x y : Nat} (hne : y ≠ x) :
    weight (processLeaf sys st x) y ≤ weight st y := by
  cases hd : isDone st y with
  | true =>
    have := isDone_processLeaf_mono (sys := sys) (x := x) hd
    simp [weight, this]
  | false =>
    by_cases hp : y ∈ st.pending ∧ waitsOf st y ≠ []
    · have h1 : weight st y = 1 := by simp [weight, hd, hp]
      have h2 : weight (processLeaf sys st x) y ≤ 1 := by
        unfold weight
        split
        · omega
        · rw [if_pos ⟨pending_processLeaf_of_ne hp.1 hne,
            by rw [waitsOf_processLeaf_of_ne hne]; exact hp.2⟩]
          omega
      omega
    · have h1 : weight st y = 2 := by
        unfold weight; rw [if_neg (by simp [hd]), if_neg hp]
      have := weight_le_two (processLeaf sys st x) y
      omega

theorem weight_processLeaf_lt {sys : Sys R} {st : St R} {x : Nat} (w : WInv sys st)
    (hl : IsLeaf st x) (hnd : isDone st x = false) :
    weight (processLeaf sys st x) x < weight st x := by
  cases hinf : inferAbs sys st x with
  | inl r =>
    have h1 : isDone (processLeaf sys st x) x = true := by
      rw [processLeaf_inl hinf]; simp [isDone, lookupR]
    have h2 : 1 ≤ weight st x := by
      unfold weight; rw [if_neg (by simp [hnd])]; split <;> omega
    have h3 : weight (processLeaf sys st x) x = 0 := by simp [weight, h1]
    omega
  | inr ds =>
    obtain ⟨hds, hne⟩ := inferAbs_inr hinf
    have hw : waitsOf st x = [] := by
      rcases w.full x with h | h
      · exact h
      · exfalso; apply hne; rw [hds, List.filter_eq_nil_iff]
        intro d hd
        rcases h d hd with h | h
        · simp [h]
        · simp [hl.2 d h]
    have h1 : weight st x = 2 := by
      unfold weight; rw [if_neg (by simp [hnd]), if_neg (by simp [hw])]
    have h2 : weight (processLeaf sys st x) x = 1 := by
      have hd' : isDone (processLeaf sys st x) x = false := by
        rw [processLeaf_inr hinf]; exact hnd
      unfold weight
      rw [if_neg (by simp [hd']), if_pos]
      exact ⟨(mem_pending_processLeaf_inr hinf x).mpr (.inl hl.1),
        by rw [waitsOf_processLeaf_inr hinf]; exact hne⟩
    omega

theorem mu_processLeaf_lt {sys : Sys R} {st : St R} {x : Nat} {U : List Nat} (w : WInv sys st)
    (hl : IsLeaf st x) (hnd : isDone st x = false) (hxU : x ∈ U) :
    mu U (processLeaf sys st x) < mu U st := by
  apply sum_map_lt (x := x) _ hxU (weight_processLeaf_lt w hl hnd)
  intro u _
  by_cases hux : u = x
  · subst hux; exact Nat.le_of_lt (weight_processLeaf_lt w hl hnd)
  · exact weight_processLeaf_le hux

theorem foldl_live {sys : Sys R} {seeds U : List Nat} (hU : ∀ x, Reach sys seeds x → x ∈ U) :
    ∀ (ls : List Nat) {st : St R}, Inv sys seeds st → WInv sys st → ls.Nodup →
      (∀ y ∈ ls, IsLeaf st y) →
      WInv sys (ls.foldl (processLeaf sys) st) ∧
        mu U (ls.foldl (processLeaf sys) st) + ls.length ≤ mu U st
  | [], _, _, w, _, _ => ⟨w, by simp⟩
  | x :: ls, st, inv, w, hnd, hl => by
    rw [List.nodup_cons] at hnd
    have hlx := hl x (List.mem_cons_self ..)
    have hlt := mu_processLeaf_lt (U := U) w hlx (inv.disj x hlx.1) (hU x (inv.reach x (.inl hlx.1)))
    have ih := foldl_live hU ls (processLeaf_inv inv hlx.1) (processLeaf_winv w x) hnd.2
      (fun y hy => isLeaf_processLeaf_of_ne (by intro h; subst h; exact hnd.1 hy)
        (hl y (List.mem_cons_of_mem _ hy)))
    refine ⟨ih.1, ?_⟩
    have := ih.2
    simp only [List.foldl_cons, List.length_cons]
    omega

theorem exists_min_rank (rk : Nat → Nat) :
    ∀ (l : List Nat), l ≠ [] → ∃ x ∈ l, ∀ y ∈ l, rk x ≤ rk y
  | [], h => absurd rfl h
  | [a], _ => ⟨a, by simp, by simp⟩
  | a :: b :: l, _ => by
    obtain ⟨m, hm, hmin⟩ := exists_min_rank rk (b :: l) (by simp)
    by_cases h : rk a ≤ rk m
    · refine ⟨a, List.mem_cons_self .., ?_⟩
      intro y hy
      rcases List.mem_cons.mp hy with rfl | hy
      · exact Nat.le_refl _
      · exact Nat.le_trans h (hmin y hy)
    · refine ⟨m, List.mem_cons_of_mem _ hm, ?_⟩
      intro y hy
      rcases List.mem_cons.mp hy with rfl | hy
      · omega
      · exact hmin y hy

/-- without cycles some pending item is always offered -/
theorem leaves_ne_nil {sys : Sys R} {st : St R} {rk : Nat → Nat} (hrk : IsRank sys rk)
    (w : WInv sys st) (hp : st.pending ≠ []) : leaves st ≠ [] := by
  obtain ⟨x, hx, hmin⟩ := exists_min_rank rk st.pending hp
  have : x ∈ leaves st := by
    rw [mem_leaves]
    refine ⟨hx, ?_⟩
    intro d hd
    obtain ⟨hdx, h⟩ := w.sub x d hd
    rcases h with h | h
    · have := hmin d h
      have := hrk x d hdx
      omega
    · exact h
  intro h0; rw [h0] at this; cases this

theorem round_live {sys : Sys R} {seeds U : List Nat} (hU : ∀ x, Reach sys seeds x → x ∈ U)
    {st : St R} (inv : Inv sys seeds st) (w : WInv sys st) :
    WInv sys (round sys st) ∧ mu U (round sys st) + (leaves st).length ≤ mu U st :=
  foldl_live hU (leaves st) inv w (inv.pnodup.filter _) (fun _ hy => mem_leaves.mp hy)

theorem rounds_of_finished {sys : Sys R} {st : St R} (hp : st.pending = []) :
    ∀ n, rounds sys n st = st
  | 0 => rfl
  | n + 1 => by
    have : round sys st = st := by simp [round, leaves, hp]
    simp only [rounds]; rw [this]; exact rounds_of_finished hp n

theorem rounds_finish {sys : Sys R} {seeds U : List Nat} {rk : Nat → Nat} (hrk : IsRank sys rk)
    (hU : ∀ x, Reach sys seeds x → x ∈ U) :
    ∀ (n : Nat) {st : St R}, Inv sys seeds st → WInv sys st → mu U st ≤ n →
      (rounds sys n st).pending = [] := by
  intro n
  induction n with
  | zero =>
    intro st inv w hmu
    by_cases hp : st.pending = []
    · exact hp
    · have h1 := (round_live hU inv w).2
      have h2 : 0 < (leaves st).length := List.length_pos_iff.mpr (leaves_ne_nil hrk w hp)
      omega
  | succ n ih =>
    intro st inv w hmu
    by_cases hp : st.pending = []
    · rw [rounds_of_finished hp]; exact hp
    · have h1 := round_live hU inv w
      have h2 : 0 < (leaves st).length := List.length_pos_iff.mpr (leaves_ne_nil hrk w hp)
      simp only [rounds]
      exact ih (round_inv inv) h1.1 (by omega)

end CapyV.OrderIndep
