import CapyV.Model.Imports

/-!
Path-level facts about the import resolution model: `clean` on absolute and relative
paths, `isSubDirOf` as component-wise prefix, soundness/completeness of the
"inside base" test after cleaning (and its unsoundness before), `join`, `parse`.
-/
namespace CapyV.Imports

/-- an absolute path as produced by `Path::components`: `RootDir` first and only first -/
def IsAbs (p : Path) : Prop := ∃ rest, p = Comp.root :: rest ∧ Comp.root ∉ rest

/-- a cleaned absolute path: root followed by normal components only -/
def IsCleanAbs (p : Path) : Prop :=
  ∃ names : List (List Char), p = Comp.root :: names.map Comp.normal

/-! ### auxiliary lemmas -/

theorem root_not_mem_map_normal (names : List (List Char)) :
    Comp.root ∉ names.map Comp.normal := by
  simp

theorem parent_not_mem_map_normal (names : List (List Char)) :
    Comp.parent ∉ names.map Comp.normal := by
  simp

theorem cur_not_mem_map_normal (names : List (List Char)) :
    Comp.cur ∉ names.map Comp.normal := by
  simp

theorem IsCleanAbs.isAbs {p : Path} (h : IsCleanAbs p) : IsAbs p := by
  obtain ⟨names, rfl⟩ := h
  exact ⟨_, rfl, root_not_mem_map_normal names⟩

/-- the generalized invariant: on a stack `reverse (root :: names.map normal)` the cleaning
loop over root-free components keeps the shape, and the names evolve like `walkStep`.
`rn` is the list of names in reverse. -/
theorem foldl_cleanStep_abs (rest : List Comp) (h : Comp.root ∉ rest) (rn : List (List Char)) :
    rest.foldl cleanStep (rn.map Comp.normal ++ [Comp.root])
      = ((rest.foldl walkStep rn.reverse).reverse.map Comp.normal) ++ [Comp.root] := by
  induction rest generalizing rn with
  | nil => simp
  | cons c cs ih =>
    have hc : Comp.root ∉ cs := fun hm => h (List.mem_cons_of_mem _ hm)
    simp only [List.foldl_cons]
    cases c with
    | root => exact absurd (List.mem_cons_self) h
    | cur => exact ih hc rn
    | parent =>
      cases rn with
      | nil => simpa [cleanStep, walkStep] using ih hc []
      | cons n rn' => simpa [cleanStep, walkStep] using ih hc rn'
    | normal s => simpa [cleanStep, walkStep] using ih hc (s :: rn)

theorem walk_root_cons (rest : List Comp) : walk (Comp.root :: rest) = rest.foldl walkStep [] := by
  simp [walk, walkStep]

theorem cleanStack_abs (rest : List Comp) (h : Comp.root ∉ rest) :
    cleanStack (Comp.root :: rest)
      = ((walk (Comp.root :: rest)).reverse.map Comp.normal) ++ [Comp.root] := by
  have := foldl_cleanStep_abs rest h []
  simpa [cleanStack, cleanStep, walk_root_cons] using this

theorem foldl_walkStep_normals (acc names : List (List Char)) :
    (names.map Comp.normal).foldl walkStep acc = acc ++ names := by
  induction names generalizing acc with
  | nil => simp
  | cons n ns ih => simp [walkStep, ih]

theorem walk_cleanAbs (names : List (List Char)) :
    walk (Comp.root :: names.map Comp.normal) = names := by
  rw [walk_root_cons, foldl_walkStep_normals]; simp

theorem map_normal_prefix {a b : List (List Char)} :
    a.map Comp.normal <+: b.map Comp.normal ↔ a <+: b := by
  induction a generalizing b with
  | nil => simp
  | cons x xs ih =>
    cases b with
    | nil => simp
    | cons y ys => simp [List.cons_prefix_cons, ih]

/-! ### 1. `clean` -/

theorem clean_abs_eq_walk (p : Path) (h : IsAbs p) :
    clean p = Comp.root :: (walk p).map Comp.normal := by
  obtain ⟨rest, rfl, hr⟩ := h
  simp [clean, cleanStack_abs rest hr]

theorem clean_abs_isCleanAbs (p : Path) (h : IsAbs p) : IsCleanAbs (clean p) :=
  ⟨walk p, clean_abs_eq_walk p h⟩

theorem clean_has_no_dotdot (p : Path) (h : IsAbs p) :
    Comp.parent ∉ clean p ∧ Comp.cur ∉ clean p := by
  rw [clean_abs_eq_walk p h]
  simp

theorem walk_clean (p : Path) (h : IsAbs p) : walk (clean p) = walk p := by
  rw [clean_abs_eq_walk p h, walk_cleanAbs]

/-- a cleaned absolute path is a fixed point of `clean` -/
theorem clean_of_isCleanAbs (p : Path) (h : IsCleanAbs p) : clean p = p := by
  have h' := clean_abs_eq_walk p h.isAbs
  obtain ⟨names, rfl⟩ := h
  rw [h', walk_cleanAbs]

theorem clean_idem_abs (p : Path) (h : IsAbs p) : clean (clean p) = clean p :=
  clean_of_isCleanAbs _ (clean_abs_isCleanAbs p h)

/-- the relative invariant: a stack `reverse (replicate k parent ++ names.map normal)` keeps
its shape under root-free components. -/
theorem foldl_cleanStep_rel (rest : List Comp) (h : Comp.root ∉ rest)
    (rn : List (List Char)) (k : Nat) :
    ∃ (rn' : List (List Char)) (k' : Nat),
      rest.foldl cleanStep (rn.map Comp.normal ++ List.replicate k Comp.parent)
        = rn'.map Comp.normal ++ List.replicate k' Comp.parent := by
  induction rest generalizing rn k with
  | nil => exact ⟨rn, k, rfl⟩
  | cons c cs ih =>
    have hc : Comp.root ∉ cs := fun hm => h (List.mem_cons_of_mem _ hm)
    simp only [List.foldl_cons]
    cases c with
    | root => exact absurd (List.mem_cons_self) h
    | cur => exact ih hc rn k
    | parent =>
      cases rn with
      | nil =>
        cases k with
        | zero => simpa [cleanStep] using ih hc [] 1
        | succ k =>
          have := ih hc [] (k + 2)
          simpa [cleanStep, List.replicate_succ] using this
      | cons n rn' => simpa [cleanStep] using ih hc rn' k
    | normal s => simpa [cleanStep] using ih hc (s :: rn) k

theorem clean_rel_shape (p : Path) (h : Comp.root ∉ p) :
    clean p = [Comp.cur] ∨ ∃ (k : Nat) (names : List (List Char)),
      clean p = List.replicate k Comp.parent ++ names.map Comp.normal := by
  obtain ⟨rn, k, hs⟩ := foldl_cleanStep_rel p h [] 0
  have hs' : cleanStack p = rn.map Comp.normal ++ List.replicate k Comp.parent := by
    simpa [cleanStack] using hs
  by_cases he : (cleanStack p).reverse = []
  · left; simp [clean, he]
  · right
    refine ⟨k, rn.reverse, ?_⟩
    simp only [clean, he, if_false]
    rw [hs']
    simp

/-! ### 2. `isSubDirOf` -/

theorem isSubDirOf_iff_prefix (sub base : Path) : isSubDirOf sub base = true ↔ base <+: sub := by
  induction base generalizing sub with
  | nil => simp [isSubDirOf]
  | cons b bs ih =>
    cases sub with
    | nil => simp [isSubDirOf]
    | cons s ss =>
      simp only [isSubDirOf, Bool.and_eq_true, beq_iff_eq, List.cons_prefix_cons, ih]
      constructor
      · rintro ⟨rfl, h⟩; exact ⟨rfl, h⟩
      · rintro ⟨rfl, h⟩; exact ⟨rfl, h⟩

/-! ### 3. the test after cleaning is exact -/

/-- stronger form: after cleaning, the test is exactly "walk base is a prefix of walk p" -/
theorem subdir_after_clean_iff (p base : Path) (hp : IsAbs p) (hb : IsCleanAbs base) :
    isSubDirOf (clean p) base = true ↔ walk base <+: walk p := by
  obtain ⟨names, rfl⟩ := hb
  rw [isSubDirOf_iff_prefix, clean_abs_eq_walk p hp, walk_cleanAbs, List.cons_prefix_cons,
    map_normal_prefix]
  simp

theorem subdir_after_clean_is_real (p base : Path) (hp : IsAbs p) (hb : IsCleanAbs base)
    (h : isSubDirOf (clean p) base = true) :
    ∃ rel : List (List Char), walk p = walk base ++ rel := by
  obtain ⟨rel, hrel⟩ := (subdir_after_clean_iff p base hp hb).1 h
  exact ⟨rel, hrel.symm⟩

theorem subdir_after_clean_complete (p base : Path) (hp : IsAbs p) (hb : IsCleanAbs base)
    (rel : List (List Char)) (h : walk p = walk base ++ rel) :
    isSubDirOf (clean p) base = true :=
  (subdir_after_clean_iff p base hp hb).2 ⟨rel, h.symm⟩

/-! ### 4. without `clean` the test is unsound -/

theorem subdir_without_clean_unsound :
    ∃ p base : Path, IsAbs p ∧ IsCleanAbs base ∧ isSubDirOf p base = true ∧
      ¬ ∃ rel, walk p = walk base ++ rel := by
  refine ⟨[.root, .normal ['w'], .parent, .normal ['e', 't', 'c']], [.root, .normal ['w']],
    ⟨_, rfl, by simp⟩, ⟨[['w']], rfl⟩, by decide, ?_⟩
  rintro ⟨rel, h⟩
  simp [walk, walkStep] at h

/-! ### 5. `join` -/

theorem join_abs_left (a b : Path) (ha : IsAbs a) (hb : Comp.root ∉ b) : IsAbs (join a b) := by
  obtain ⟨rest, rfl, hr⟩ := ha
  have hj : join (Comp.root :: rest) b = Comp.root :: rest ++ b := by
    cases b with
    | nil => rfl
    | cons c cs =>
      cases c with
      | root => exact absurd (List.mem_cons_self) hb
      | cur => rfl
      | parent => rfl
      | normal s => rfl
  rw [hj]
  refine ⟨rest ++ b, rfl, ?_⟩
  simp [hr, hb]

theorem join_abs_right (a b : Path) (hb : IsAbs b) : join a b = b := by
  obtain ⟨rest, rfl, _⟩ := hb
  rfl

/-- with a relative argument `join` is concatenation -/
theorem join_rel (a b : Path) (hb : Comp.root ∉ b) : join a b = a ++ b := by
  cases b with
  | nil => rfl
  | cons c cs =>
    cases c with
    | root => exact absurd (List.mem_cons_self) hb
    | cur => rfl
    | parent => rfl
    | normal s => rfl

/-! ### 6. `parse` -/

theorem compOfPiece_ne_root (p : List Char) : compOfPiece p ≠ some Comp.root := by
  unfold compOfPiece
  split
  · simp
  · split
    · simp
    · split <;> simp

theorem root_not_mem_filterMap_compOfPiece (l : List (List Char)) :
    Comp.root ∉ l.filterMap compOfPiece := by
  intro h
  obtain ⟨p, _, hp⟩ := List.mem_filterMap.1 h
  exact compOfPiece_ne_root p hp

theorem parse_root_only_head (s : List Char) : Comp.root ∉ (parse s).tail := by
  unfold parse
  by_cases h1 : hasRoot s = true
  · simpa [h1] using root_not_mem_filterMap_compOfPiece (splitSlash s)
  · by_cases h2 : leadCur s = true
    · simpa [h1, h2] using root_not_mem_filterMap_compOfPiece (splitSlash s)
    · simp only [h1, h2, if_false, Bool.false_eq_true, List.nil_append]
      intro hm
      exact root_not_mem_filterMap_compOfPiece _ (List.mem_of_mem_tail hm)

theorem parse_isAbs_or_rel (s : List Char) :
    (hasRoot s = true ∧ IsAbs (parse s)) ∨ (hasRoot s = false ∧ Comp.root ∉ parse s) := by
  by_cases h1 : hasRoot s = true
  · left
    refine ⟨h1, (splitSlash s).filterMap compOfPiece, ?_, root_not_mem_filterMap_compOfPiece _⟩
    simp [parse, h1]
  · right
    have h1' : hasRoot s = false := by simpa using h1
    refine ⟨h1', ?_⟩
    unfold parse
    by_cases h2 : leadCur s = true
    · simpa [h1', h2] using root_not_mem_filterMap_compOfPiece (splitSlash s)
    · simpa [h1', h2] using root_not_mem_filterMap_compOfPiece (splitSlash s)

theorem parse_isAbs_iff (s : List Char) : IsAbs (parse s) ↔ hasRoot s = true := by
  constructor
  · intro h
    rcases parse_isAbs_or_rel s with ⟨h1, _⟩ | ⟨_, h2⟩
    · exact h1
    · obtain ⟨rest, hr, _⟩ := h
      exact absurd (by rw [hr]; exact List.mem_cons_self) h2
  · intro h
    rcases parse_isAbs_or_rel s with ⟨_, h2⟩ | ⟨h1, _⟩
    · exact h2
    · rw [h] at h1; cases h1

/-! ### optional: the last component of a `.capy` string -/

theorem endsCapy_iff_suffix (s : List Char) : endsCapy s = true ↔ ∃ pre, s = pre ++ dotCapy := by
  unfold endsCapy
  rw [List.isPrefixOf_iff_prefix, List.reverse_prefix]
  constructor
  · rintro ⟨pre, h⟩; exact ⟨pre, h.symm⟩
  · rintro ⟨pre, h⟩; exact ⟨pre, h.symm⟩

/-- appending `.capy` (no separator in it) only extends the last piece -/
theorem splitSlash_append_dotCapy (pre : List Char) :
    ∃ init l, splitSlash pre = init ++ [l] ∧ splitSlash (pre ++ dotCapy) = init ++ [l ++ dotCapy] := by
  induction pre with
  | nil => exact ⟨[], [], rfl, by decide⟩
  | cons c cs ih =>
    obtain ⟨init, l, h1, h2⟩ := ih
    by_cases hc : c = '/'
    · refine ⟨[] :: init, l, ?_, ?_⟩
      · simp [splitSlash, hc, h1]
      · simp [splitSlash, hc, h2]
    · cases init with
      | nil =>
        refine ⟨[], c :: l, ?_, ?_⟩
        · simp [splitSlash, hc, h1]
        · simp [splitSlash, hc, h2]
      | cons q qs =>
        refine ⟨(c :: q) :: qs, l, ?_, ?_⟩
        · simp [splitSlash, hc, h1]
        · simp [splitSlash, hc, h2]

theorem compOfPiece_append_dotCapy (l : List Char) :
    compOfPiece (l ++ dotCapy) = some (Comp.normal (l ++ dotCapy)) := by
  have hlen : (l ++ dotCapy).length ≥ 5 := by simp [dotCapy]
  unfold compOfPiece
  have h1 : l ++ dotCapy ≠ [] := by intro h; rw [h] at hlen; simp at hlen
  have h2 : l ++ dotCapy ≠ ['.'] := by intro h; rw [h] at hlen; simp at hlen
  have h3 : l ++ dotCapy ≠ ['.', '.'] := by intro h; rw [h] at hlen; simp at hlen
  simp [h1, h2, h3]

/-- a string ending in ".capy" has a last path component that is a normal name ending in
".capy" -/
theorem endsCapy_last_comp (s : List Char) (h : endsCapy s = true) :
    ∃ n, (parse s).getLast? = some (Comp.normal n) ∧ endsCapy n = true := by
  obtain ⟨pre, rfl⟩ := (endsCapy_iff_suffix s).1 h
  obtain ⟨init, l, _, h2⟩ := splitSlash_append_dotCapy pre
  refine ⟨l ++ dotCapy, ?_, (endsCapy_iff_suffix _).2 ⟨l, rfl⟩⟩
  unfold parse
  rw [h2, List.filterMap_append]
  simp [compOfPiece_append_dotCapy]

end CapyV.Imports
