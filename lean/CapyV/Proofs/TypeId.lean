import CapyV.Model.TypeId
import CapyV.Proofs.Layout
/-! Helper lemmas for C18: bit-field arithmetic of the id encoding, and the invariant of the
`(type, id)` table maintained by `to_type_id`. -/
namespace CapyV.TypeId
open CapyV CapyV.TypeIds

/-! ### bit fields -/

theorem or_eq_add {x y k : Nat} (hx : x % 2 ^ k = 0) (hy : y < 2 ^ k) : x ||| y = x + y := by
  have h : x = 2 ^ k * (x / 2 ^ k) := by
    rw [Nat.mul_comm]; exact (Nat.div_mul_cancel (Nat.dvd_of_mod_eq_zero hx)).symm
  rw [h]; exact (Nat.two_pow_add_eq_or_of_lt hy _).symm

theorem simpleIdWithAlign_val (d s a : Nat) (sg : Bool) (hd : d < 63) (hs : s < 31) (ha : a < 15) :
    simpleIdWithAlign d s a sg = some (d * 67108864 + (if sg then 512 else 0) + a * 32 + s) := by
  have hc : d < Rust.discLimit ∧ s < Rust.sizeLimit ∧ a < Rust.alignLimit := ⟨hd, hs, ha⟩
  unfold simpleIdWithAlign
  rw [if_pos hc]
  simp only [Rust.discShift, Rust.signShift, Rust.alignShift, Nat.shiftLeft_eq]
  have e26 : (2:Nat) ^ 26 = 67108864 := by decide
  have e9 : (2:Nat) ^ 9 = 512 := by decide
  have e5 : (2:Nat) ^ 5 = 32 := by decide
  have hb : (if sg then 1 else 0) * 2 ^ 9 = (if sg then 512 else 0) := by cases sg <;> simp
  rw [hb]
  have h1 : d * 2 ^ 26 ||| (if sg then 512 else 0) = d * 2 ^ 26 + (if sg then 512 else 0) :=
    or_eq_add (k := 26) (by rw [e26]; omega) (by rw [e26]; cases sg <;> simp)
  rw [h1]
  have h2 : (d * 2 ^ 26 + (if sg then 512 else 0)) ||| a * 2 ^ 5
      = d * 2 ^ 26 + (if sg then 512 else 0) + a * 2 ^ 5 :=
    or_eq_add (k := 9) (by rw [e9, e26]; cases sg <;> simp <;> omega) (by rw [e9, e5]; omega)
  rw [h2]
  have h3 : (d * 2 ^ 26 + (if sg then 512 else 0) + a * 2 ^ 5) ||| s
      = d * 2 ^ 26 + (if sg then 512 else 0) + a * 2 ^ 5 + s :=
    or_eq_add (k := 5) (by rw [e5, e26]; cases sg <;> simp <;> omega) (by rw [e5]; omega)
  rw [h3, e26, e5]

theorem simpleIdWithAlign_none (d s a : Nat) (sg : Bool) (h : ¬ (d < 63 ∧ s < 31 ∧ a < 15)) :
    simpleIdWithAlign d s a sg = none := by
  unfold simpleIdWithAlign
  rw [if_neg]; simpa [Rust.discLimit, Rust.sizeLimit, Rust.alignLimit] using h

theorem decDisc_eq (x : Nat) : decDisc x = x / 67108864 := by
  simp [decDisc, Capy.discShift, Nat.shiftRight_eq_div_pow]

theorem decSize_eq (x : Nat) : decSize x = x % 32 := by
  have : decSize x = x &&& (2 ^ 5 - 1) := rfl
  rw [this, Nat.and_two_pow_sub_one_eq_mod]

theorem decAlign_eq (x : Nat) : decAlign x = x / 32 % 16 := by
  have : decAlign x = (x >>> 5) &&& (2 ^ 4 - 1) := rfl
  rw [this, Nat.and_two_pow_sub_one_eq_mod, Nat.shiftRight_eq_div_pow]

theorem decSign_eq (x : Nat) : decSign x = (x / 512 % 2 != 0) := by
  have : decSign x = (((x >>> 9) &&& (2 ^ 1 - 1)) != 0) := rfl
  rw [this, Nat.and_two_pow_sub_one_eq_mod, Nat.shiftRight_eq_div_pow]

theorem decIndex_eq (x : Nat) : decIndex x = x % 67108864 := by
  have : decIndex x = x &&& (2 ^ 26 - 1) := rfl
  rw [this, Nat.and_two_pow_sub_one_eq_mod]

theorem decBitWidth_eq (x : Nat) : decBitWidth x = x % 32 * 8 % 256 := by
  have : decBitWidth x = ((x &&& (2 ^ 5 - 1)) * 8) % 256 := rfl
  rw [this, Nat.and_two_pow_sub_one_eq_mod]

theorem compound_val (d idx : Nat) (hidx : idx < 67108864) :
    (d <<< Rust.compoundShift) ||| idx = d * 67108864 + idx := by
  simp only [Rust.compoundShift, Nat.shiftLeft_eq]
  have e26 : (2:Nat) ^ 26 = 67108864 := by decide
  rw [or_eq_add (k := 26) (by rw [e26]; omega) (by rw [e26]; exact hidx), e26]

/-! ### the `(type, id)` table -/

def keys (l : List (Ty × Nat)) : List Ty := l.map Prod.fst

theorem find_none_iff {t : Ty} : ∀ {l : List (Ty × Nat)}, find t l = none ↔ t ∉ keys l
  | [] => by simp [find, keys]
  | (u, id) :: rest => by
    have ih := @find_none_iff t rest
    by_cases h : u = t
    · simp [find, keys, h]
    · have h' : ¬ t = u := fun e => h e.symm
      simp [find, keys, h, h'] at ih ⊢
      exact ih

theorem find_some_mem {t : Ty} {id : Nat} : ∀ {l : List (Ty × Nat)}, find t l = some id → (t, id) ∈ l
  | [], h => by simp [find] at h
  | (u, i) :: rest, h => by
    by_cases hu : u = t
    · simp [find, hu] at h; subst hu; subst h; simp
    · simp [find, hu] at h
      exact List.mem_cons_of_mem _ (find_some_mem h)

theorem find_of_mem {t : Ty} {id : Nat} : ∀ {l : List (Ty × Nat)}, (keys l).Nodup → (t, id) ∈ l →
    find t l = some id
  | [], _, h => by simp at h
  | (u, i) :: rest, hn, h => by
    simp only [keys, List.map_cons, List.nodup_cons] at hn
    rcases List.mem_cons.mp h with h | h
    · cases h; simp [find]
    · have hne : u ≠ t := by
        intro e; subst e
        exact hn.1 (List.mem_map.mpr ⟨(u, id), h, rfl⟩)
      simp only [find, hne, if_false]
      exact find_of_mem hn.2 h

theorem find_append_left {t : Ty} {id : Nat} {m : List (Ty × Nat)} : ∀ {l : List (Ty × Nat)},
    find t l = some id → find t (l ++ m) = some id
  | [], h => by simp [find] at h
  | (u, i) :: rest, h => by
    by_cases hu : u = t
    · simpa [find, hu] using h
    · simp only [find, hu, if_false, List.cons_append] at h ⊢
      exact find_append_left h

theorem find_snoc_self {t : Ty} {id : Nat} : ∀ {l : List (Ty × Nat)}, find t l = none →
    find t (l ++ [(t, id)]) = some id
  | [], _ => by simp [find]
  | (u, i) :: rest, h => by
    by_cases hu : u = t
    · simp [find, hu] at h
    · simp only [find, hu, if_false, List.cons_append] at h ⊢
      exact find_snoc_self h

def countKind (k : Kind) (l : List (Ty × Nat)) : Nat :=
  (l.filter fun e => kindOf e.1 == some k).length

theorem countKind_cons (k : Kind) (e : Ty × Nat) (l : List (Ty × Nat)) :
    countKind k (e :: l) = (if kindOf e.1 = some k then 1 else 0) + countKind k l := by
  unfold countKind
  by_cases h : kindOf e.1 = some k
  · simp [List.filter_cons, h]; omega
  · simp [List.filter_cons, h]

theorem countKind_append (k : Kind) (l m : List (Ty × Nat)) :
    countKind k (l ++ m) = countKind k l + countKind k m := by
  simp [countKind, List.filter_append]

/-- the id an entry must carry, given the per-kind counts `cnt` of the entries before it -/
def entryOk (pw : Nat) (cnt : Kind → Nat) (e : Ty × Nat) : Prop :=
  match kindOf e.1 with
  | some k => e.2 = (k.disc <<< Rust.compoundShift) ||| cnt k
  | none => simpleIdOf pw e.1 = some e.2

def step (c : Kind → Nat) (t : Ty) : Kind → Nat :=
  match kindOf t with
  | some k => bump c k
  | none => c

def GoodFrom (pw : Nat) : (Kind → Nat) → List (Ty × Nat) → Prop
  | _, [] => True
  | c, e :: rest => entryOk pw c e ∧ GoodFrom pw (step c e.1) rest

theorem step_count (c : Kind → Nat) (e : Ty × Nat) (rest : List (Ty × Nat)) (k : Kind) :
    step c e.1 k + countKind k rest = c k + countKind k (e :: rest) := by
  rw [countKind_cons]
  unfold step
  cases hk : kindOf e.1 with
  | none => simp
  | some k' =>
    by_cases h : k' = k
    · subst h; simp [bump]; omega
    · have h' : ¬ k = k' := fun e => h e.symm
      simp [bump, h, h']

theorem GoodFrom.snoc {pw : Nat} {e : Ty × Nat} : ∀ (l : List (Ty × Nat)) (c : Kind → Nat),
    GoodFrom pw c l → entryOk pw (fun k => c k + countKind k l) e → GoodFrom pw c (l ++ [e])
  | [], c, _, he => by
    have : (fun k => c k + countKind k []) = c := by funext k; simp [countKind]
    rw [this] at he
    exact ⟨he, trivial⟩
  | u :: rest, c, hg, he => by
    refine ⟨hg.1, GoodFrom.snoc rest (step c u.1) hg.2 ?_⟩
    have : (fun k => step c u.1 k + countKind k rest) = (fun k => c k + countKind k (u :: rest)) := by
      funext k; exact step_count c u rest k
    rw [this]; exact he

/-- A compound entry's id is `disc <<< 26 ||| n` where `n - c k` is its position among the
entries of its kind. -/
theorem GoodFrom.index {pw : Nat} {t : Ty} {id : Nat} {k : Kind} (hk : kindOf t = some k) :
    ∀ (l : List (Ty × Nat)) (c : Kind → Nat), GoodFrom pw c l → (t, id) ∈ l →
      ∃ n, id = (k.disc <<< Rust.compoundShift) ||| n ∧ c k ≤ n ∧
        (l.filter fun e => kindOf e.1 == some k)[n - c k]? = some (t, id)
  | [], _, _, h => by simp at h
  | u :: rest, c, hg, h => by
    rcases List.mem_cons.mp h with h | h
    · subst h
      refine ⟨c k, ?_, Nat.le_refl _, ?_⟩
      · have := hg.1; simp only [entryOk, hk] at this; exact this
      · simp [List.filter_cons, hk]
    · obtain ⟨n, hid, hle, hget⟩ := GoodFrom.index hk rest (step c u.1) hg.2 h
      refine ⟨n, hid, ?_, ?_⟩
      · unfold step at hle
        cases hu : kindOf u.1 with
        | none => simpa [hu] using hle
        | some k' =>
          simp only [hu] at hle
          by_cases e : k = k'
          · subst e; simp [bump] at hle; omega
          · simpa [bump, e] using hle
      · unfold step at hle hget
        cases hu : kindOf u.1 with
        | none => simpa [List.filter_cons, hu] using hget
        | some k' =>
          simp only [hu] at hle hget
          by_cases e : k = k'
          · subst e
            simp only [bump, if_true] at hle hget
            have : n - c k = (n - (c k + 1)) + 1 := by omega
            rw [this]
            simpa [List.filter_cons, hu] using hget
          · have e' : ¬ k' = k := fun x => e x.symm
            simp only [bump, e, if_false] at hget
            simpa [List.filter_cons, hu, e'] using hget

theorem GoodFrom.simple {pw : Nat} {t : Ty} {id : Nat} (hk : kindOf t = none) :
    ∀ (l : List (Ty × Nat)) (c : Kind → Nat), GoodFrom pw c l → (t, id) ∈ l → simpleIdOf pw t = some id
  | [], _, _, h => by simp at h
  | u :: rest, c, hg, h => by
    rcases List.mem_cons.mp h with h | h
    · subst h; have := hg.1; simpa only [entryOk, hk] using this
    · exact GoodFrom.simple hk rest _ hg.2 h

/-- The invariant of `MetaTyData`. -/
structure Inv (pw : Nat) (st : St) : Prop where
  lock : st.toCompile = keys st.ids
  ctr : ∀ k, st.ctr k = countKind k st.ids
  good : GoodFrom pw (fun _ => 0) st.ids
  nodup : (keys st.ids).Nodup

theorem Inv.empty (pw : Nat) : Inv pw St.empty :=
  ⟨rfl, fun _ => rfl, trivial, List.nodup_nil⟩

theorem keys_snoc (l : List (Ty × Nat)) (e : Ty × Nat) : keys (l ++ [e]) = keys l ++ [e.1] := by
  simp [keys]

theorem nodup_snoc {l : List Ty} {t : Ty} (hn : l.Nodup) (ht : t ∉ l) : (l ++ [t]).Nodup := by
  rw [List.nodup_append]
  refine ⟨hn, by simp, ?_⟩
  intro a ha b hb
  simp at hb; subst hb
  intro e; subst e; exact ht ha

theorem inv_finish {pw : Nat} {k : Kind} {t : Ty} {st : St} (hinv : Inv pw st)
    (hk : kindOf t = some k) (hnone : find t st.ids = none) : Inv pw (finish k t st).2 := by
  have hnot := find_none_iff.mp hnone
  refine ⟨?_, ?_, ?_, ?_⟩
  · simp [finish, keys_snoc, hinv.lock]
  · intro k'
    simp only [finish, countKind_append]
    have h1 : countKind k' [(t, (k.disc <<< Rust.compoundShift) ||| st.ctr k)]
        = if k = k' then 1 else 0 := by
      rw [countKind_cons]; simp [countKind, hk]
    rw [h1, ← hinv.ctr k']
    by_cases e : k' = k
    · subst e; simp [bump, hinv.ctr]
    · have e' : ¬ k = k' := fun x => e x.symm
      simp [bump, e, e']
  · apply GoodFrom.snoc _ _ hinv.good
    simp only [entryOk, hk, Nat.zero_add, finish, hinv.ctr k]
  · simp only [finish, keys_snoc]
    exact nodup_snoc hinv.nodup hnot

theorem inv_pushSimple {pw : Nat} {t : Ty} {id : Nat} {st : St} (hinv : Inv pw st)
    (hk : kindOf t = none) (hid : simpleIdOf pw t = some id) (hnone : find t st.ids = none) :
    Inv pw (pushSimple t id st).2 := by
  have hnot := find_none_iff.mp hnone
  refine ⟨?_, ?_, ?_, ?_⟩
  · simp [pushSimple, keys_snoc, hinv.lock]
  · intro k'
    simp only [pushSimple, countKind_append]
    have h1 : countKind k' [(t, id)] = 0 := by rw [countKind_cons]; simp [countKind, hk]
    rw [h1, hinv.ctr k']; rfl
  · apply GoodFrom.snoc _ _ hinv.good
    simp only [entryOk, hk, hid]
  · simp only [pushSimple, keys_snoc]
    exact nodup_snoc hinv.nodup hnot

/-! ### `to_type_id` preserves the invariant -/

/-- `st'` extends `st` by entries whose types have at most `bound` nodes -/
def Ext (st st' : St) (bound : Nat) : Prop :=
  ∃ added, st'.ids = st.ids ++ added ∧ ∀ e ∈ added, e.1.nodes ≤ bound

theorem Ext.refl (st : St) (n : Nat) : Ext st st n := ⟨[], by simp, by simp⟩

theorem Ext.trans {a b c : St} {n m N : Nat} (h1 : Ext a b n) (h2 : Ext b c m) (hn : n ≤ N)
    (hm : m ≤ N) : Ext a c N := by
  obtain ⟨x, hx, hxn⟩ := h1
  obtain ⟨y, hy, hyn⟩ := h2
  refine ⟨x ++ y, by rw [hy, hx, List.append_assoc], ?_⟩
  intro e he
  rcases List.mem_append.mp he with he | he
  · exact Nat.le_trans (hxn e he) hn
  · exact Nat.le_trans (hyn e he) hm

theorem Ext.find_none {st0 st1 : St} {n : Nat} {t : Ty} (h : Ext st0 st1 n) (hn : n < t.nodes)
    (hnone : find t st0.ids = none) : find t st1.ids = none := by
  obtain ⟨added, hx, hb⟩ := h
  rw [find_none_iff] at hnone ⊢
  rw [hx]
  intro hmem
  simp only [keys, List.map_append, List.mem_append] at hmem
  rcases hmem with hmem | hmem
  · exact hnone hmem
  · obtain ⟨e, he, rfl⟩ := List.mem_map.mp hmem
    have := hb e he
    omega

def P (pw : Nat) (t : Ty) : Prop :=
  ∀ st id st', Inv pw st → toTypeId pw t st = some (id, st') →
    Inv pw st' ∧ Ext st st' t.nodes ∧ find t st'.ids = some id

def PM (pw : Nat) (ms : Members) : Prop :=
  ∀ st st', Inv pw st → membersIds pw ms st = some st' → Inv pw st' ∧ Ext st st' ms.nodes

def PT (pw : Nat) (vs : Tys) : Prop :=
  ∀ st st', Inv pw st → tysIds pw vs st = some st' → Inv pw st' ∧ Ext st st' vs.nodes

theorem contains_iff {pw : Nat} {st : St} (hinv : Inv pw st) (t : Ty) :
    st.toCompile.contains t = (find t st.ids).isSome := by
  rw [hinv.lock]
  cases h : find t st.ids with
  | none =>
    have := find_none_iff.mp h
    simp [this]
  | some id =>
    have : t ∈ keys st.ids := List.mem_map.mpr ⟨(t, id), find_some_mem h, rfl⟩
    simp [this]

/-- the lookup-first step and the two `assert!`s around every arm -/
theorem wrap {pw : Nat} {t : Ty} (body : St → Option (Nat × St))
    (hdef : ∀ st, toTypeId pw t st = match find t st.ids with
      | some id => if st.toCompile.contains t then some (id, st) else none
      | none => if st.toCompile.contains t then none else body st)
    (hbody : ∀ st id st', Inv pw st → find t st.ids = none → body st = some (id, st') →
      Inv pw st' ∧ Ext st st' t.nodes ∧ find t st'.ids = some id) : P pw t := by
  intro st id st' hinv h
  rw [hdef st] at h
  have hc := contains_iff hinv t
  cases hf : find t st.ids with
  | some i =>
    simp only [hf, hc, Option.isSome_some, if_true, Option.some.injEq, Prod.mk.injEq] at h
    obtain ⟨rfl, rfl⟩ := h
    exact ⟨hinv, Ext.refl _ _, hf⟩
  | none =>
    simp only [hf, hc, Option.isSome_none] at h
    exact hbody st id st' hinv hf (by simpa using h)

theorem finish_ok {pw : Nat} {k : Kind} {t : Ty} {st0 st1 : St} {n : Nat} (hk : kindOf t = some k)
    (hinv1 : Inv pw st1) (hext : Ext st0 st1 n) (hn : n < t.nodes) (hnone : find t st0.ids = none)
    {id : Nat} {st' : St} (h : finish k t st1 = (id, st')) :
    Inv pw st' ∧ Ext st0 st' t.nodes ∧ find t st'.ids = some id := by
  have hnone1 := hext.find_none hn hnone
  have hi := inv_finish hinv1 hk hnone1
  have e1 : st' = (finish k t st1).2 := by rw [h]
  have e2 : id = (finish k t st1).1 := by rw [h]
  subst e1; subst e2
  refine ⟨hi, ?_, ?_⟩
  · refine Ext.trans hext ⟨[(t, (finish k t st1).1)], rfl, ?_⟩ (Nat.le_of_lt hn) (Nat.le_refl _)
    intro e he; simp at he; subst he; exact Nat.le_refl _
  · exact find_snoc_self hnone1

theorem arm1 {pw : Nat} {k : Kind} {t sub : Ty} (hk : kindOf t = some k) (hlt : sub.nodes < t.nodes)
    (ih : P pw sub) :
    ∀ st id st', Inv pw st → find t st.ids = none →
      (match toTypeId pw sub st with
        | some r => some (finish k t r.2)
        | none => none) = some (id, st') →
      Inv pw st' ∧ Ext st st' t.nodes ∧ find t st'.ids = some id := by
  intro st id st' hinv hnone h
  cases hs : toTypeId pw sub st with
  | none => simp [hs] at h
  | some r =>
    obtain ⟨i1, st1⟩ := r
    simp only [hs, Option.some.injEq] at h
    obtain ⟨hinv1, hext, _⟩ := ih st i1 st1 hinv hs
    exact finish_ok hk hinv1 hext hlt hnone h

theorem simple_ok {pw : Nat} {t : Ty} (hk : kindOf t = none) :
    ∀ st id st', Inv pw st → find t st.ids = none →
      (match simpleIdOf pw t with
        | some id => some (pushSimple t id st)
        | none => none) = some (id, st') →
      Inv pw st' ∧ Ext st st' t.nodes ∧ find t st'.ids = some id := by
  intro st id st' hinv hnone h
  cases hs : simpleIdOf pw t with
  | none => simp [hs] at h
  | some i =>
    simp only [hs, Option.some.injEq, pushSimple, Prod.mk.injEq] at h
    obtain ⟨rfl, rfl⟩ := h
    refine ⟨inv_pushSimple hinv hk hs hnone, ⟨[(t, i)], rfl, ?_⟩, find_snoc_self hnone⟩
    intro e he; simp at he; subst he; exact Nat.le_refl _

macro "arm_eq" : tactic => `(tactic| (rw [toTypeId] <;> first | rfl | (intros; contradiction)))

mutual
theorem toTypeId_ok (pw : Nat) : (t : Ty) → P pw t
  | .anonArray n sub => wrap _ (fun st => by arm_eq)
      (arm1 (k := .array) rfl (by simp [Ty.nodes]) (toTypeId_ok pw sub))
  | .concreteArray n sub => wrap _ (fun st => by arm_eq)
      (arm1 (k := .array) rfl (by simp [Ty.nodes]) (toTypeId_ok pw sub))
  | .slice sub => wrap _ (fun st => by arm_eq)
      (arm1 (k := .slice) rfl (by simp [Ty.nodes]) (toTypeId_ok pw sub))
  | .pointer m sub => wrap _ (fun st => by arm_eq)
      (arm1 (k := .pointer) rfl (by simp [Ty.nodes]) (toTypeId_ok pw sub))
  | .distinct u sub => wrap _ (fun st => by arm_eq)
      (arm1 (k := .distinct) rfl (by simp [Ty.nodes]) (toTypeId_ok pw sub))
  | .enumVariant eu n u sub d => wrap _ (fun st => by arm_eq)
      (arm1 (k := .variant) rfl (by simp [Ty.nodes]) (toTypeId_ok pw sub))
  | .optional sub => wrap _ (fun st => by arm_eq)
      (arm1 (k := .optional) rfl (by simp [Ty.nodes]) (toTypeId_ok pw sub))
  | .naivePolyFn l => wrap (fun _ => none) (fun st => by arm_eq)
      (fun st id st' _ _ h => by simp at h)
  | .concreteFn ps r l => wrap (fun st => some (finish .function (.concreteFn ps r l) st))
      (fun st => by arm_eq) (fun st id st' hinv hnone h => by
        simp only [Option.some.injEq] at h
        exact finish_ok (n := 0) rfl hinv (Ext.refl _ _) (by simp [Ty.nodes]) hnone h)
  | .fnPointer ps r => wrap (fun st => some (finish .function (.fnPointer ps r) st))
      (fun st => by arm_eq) (fun st id st' hinv hnone h => by
        simp only [Option.some.injEq] at h
        exact finish_ok (n := 0) rfl hinv (Ext.refl _ _) (by simp [Ty.nodes]) hnone h)
  | .anonStruct ms => wrap _ (fun st => by arm_eq) (fun st id st' hinv hnone h => by
      cases hs : membersIds pw ms st with
      | none => simp [hs] at h
      | some st1 =>
        simp only [hs, Option.some.injEq] at h
        obtain ⟨hinv1, hext⟩ := membersIds_ok pw ms st st1 hinv hs
        exact finish_ok rfl hinv1 hext (by simp [Ty.nodes]) hnone h)
  | .concreteStruct u ms => wrap _ (fun st => by arm_eq) (fun st id st' hinv hnone h => by
      cases hs : membersIds pw ms st with
      | none => simp [hs] at h
      | some st1 =>
        simp only [hs, Option.some.injEq] at h
        obtain ⟨hinv1, hext⟩ := membersIds_ok pw ms st st1 hinv hs
        exact finish_ok rfl hinv1 hext (by simp [Ty.nodes]) hnone h)
  | .enum u vs => wrap _ (fun st => by arm_eq) (fun st id st' hinv hnone h => by
      cases hs : tysIds pw vs st with
      | none => simp [hs] at h
      | some st1 =>
        simp only [hs, Option.some.injEq] at h
        obtain ⟨hinv1, hext⟩ := tysIds_ok pw vs st st1 hinv hs
        exact finish_ok rfl hinv1 hext (by simp [Ty.nodes]) hnone h)
  | .errorUnion e p => wrap _ (fun st => by arm_eq) (fun st id st' hinv hnone h => by
      cases hs : toTypeId pw e st with
      | none => simp [hs] at h
      | some r1 =>
        obtain ⟨i1, st1⟩ := r1
        simp only [hs] at h
        obtain ⟨hinv1, hext1, _⟩ := toTypeId_ok pw e st i1 st1 hinv hs
        cases hs2 : toTypeId pw p st1 with
        | none => simp [hs2] at h
        | some r2 =>
          obtain ⟨i2, st2⟩ := r2
          simp only [hs2, Option.some.injEq] at h
          obtain ⟨hinv2, hext2, _⟩ := toTypeId_ok pw p st1 i2 st2 hinv1 hs2
          have hext : Ext st st2 (e.nodes + p.nodes) :=
            Ext.trans hext1 hext2 (Nat.le_add_right _ _) (Nat.le_add_left _ _)
          exact finish_ok rfl hinv2 hext (by simp [Ty.nodes]) hnone h)
  | .notYetResolved => wrap _ (fun st => by arm_eq) (simple_ok rfl)
  | .unknown => wrap _ (fun st => by arm_eq) (simple_ok rfl)
  | .iint w => wrap _ (fun st => by arm_eq) (simple_ok rfl)
  | .uint w => wrap _ (fun st => by arm_eq) (simple_ok rfl)
  | .float w => wrap _ (fun st => by arm_eq) (simple_ok rfl)
  | .bool => wrap _ (fun st => by arm_eq) (simple_ok rfl)
  | .string => wrap _ (fun st => by arm_eq) (simple_ok rfl)
  | .char => wrap _ (fun st => by arm_eq) (simple_ok rfl)
  | .type => wrap _ (fun st => by arm_eq) (simple_ok rfl)
  | .any => wrap _ (fun st => by arm_eq) (simple_ok rfl)
  | .rawPtr m => wrap _ (fun st => by arm_eq) (simple_ok rfl)
  | .rawSlice => wrap _ (fun st => by arm_eq) (simple_ok rfl)
  | .file n => wrap _ (fun st => by arm_eq) (simple_ok rfl)
  | .nil => wrap _ (fun st => by arm_eq) (simple_ok rfl)
  | .void => wrap _ (fun st => by arm_eq) (simple_ok rfl)
  | .alwaysJumps => wrap _ (fun st => by arm_eq) (simple_ok rfl)
theorem membersIds_ok (pw : Nat) : (ms : Members) → PM pw ms
  | .nil => fun st st' hinv h => by
      rw [membersIds] at h; cases h; exact ⟨hinv, Ext.refl _ _⟩
  | .cons n t rest => fun st st' hinv h => by
      rw [membersIds] at h
      cases hs : toTypeId pw t st with
      | none => simp [hs] at h
      | some r =>
        obtain ⟨i1, st1⟩ := r
        simp only [hs] at h
        obtain ⟨hinv1, hext1, _⟩ := toTypeId_ok pw t st i1 st1 hinv hs
        obtain ⟨hinv2, hext2⟩ := membersIds_ok pw rest st1 st' hinv1 h
        exact ⟨hinv2, Ext.trans hext1 hext2 (by simp [Members.nodes]; omega) (by simp [Members.nodes]; omega)⟩
theorem tysIds_ok (pw : Nat) : (vs : Tys) → PT pw vs
  | .nil => fun st st' hinv h => by
      rw [tysIds] at h; cases h; exact ⟨hinv, Ext.refl _ _⟩
  | .cons t rest => fun st st' hinv h => by
      rw [tysIds] at h
      cases hs : toTypeId pw t st with
      | none => simp [hs] at h
      | some r =>
        obtain ⟨i1, st1⟩ := r
        simp only [hs] at h
        obtain ⟨hinv1, hext1, _⟩ := toTypeId_ok pw t st i1 st1 hinv hs
        obtain ⟨hinv2, hext2⟩ := tysIds_ok pw rest st1 st' hinv1 h
        exact ⟨hinv2, Ext.trans hext1 hext2 (by simp [Tys.nodes]; omega) (by simp [Tys.nodes]; omega)⟩
end

theorem typeIdsFrom_ok (pw : Nat) : ∀ (ts : List Ty) (st : St) (ids : List Nat) (st' : St),
    Inv pw st → typeIdsFrom pw ts st = some (ids, st') → Inv pw st'
  | [], st, ids, st', hinv, h => by simp [typeIdsFrom] at h; rw [← h.2]; exact hinv
  | t :: rest, st, ids, st', hinv, h => by
    rw [typeIdsFrom] at h
    cases hs : toTypeId pw t st with
    | none => simp [hs] at h
    | some r =>
      obtain ⟨i1, st1⟩ := r
      simp only [hs] at h
      have hinv1 := (toTypeId_ok pw t st i1 st1 hinv hs).1
      cases hr : typeIdsFrom pw rest st1 with
      | none => simp [hr] at h
      | some r2 =>
        obtain ⟨ids2, st2⟩ := r2
        simp only [hr, Option.some.injEq, Prod.mk.injEq] at h
        rw [← h.2]
        exact typeIdsFrom_ok pw rest st1 ids2 st2 hinv1 hr

/-! ### simple ids: what the bits say, checked for every well-formed simple type -/

/-- The explicit list of id coincidences: the representative a type shares its id with. -/
def canon (pw : Nat) : Ty → Ty
  | .iint w => if w = 0 then .iint 32 else if w = PTR_WIDTH_MARK then .iint pw else .iint w
  | .uint w => if w = 0 then .iint 32 else if w = PTR_WIDTH_MARK then .uint pw else .uint w
  | .float w => if w = 0 then .float 32 else .float w
  | .notYetResolved | .unknown => .void
  | .file _ => .file 0
  | t => t

/-- the sign / mutable flag a simple type must show -/
def expectSign : Ty → Bool
  | .iint _ => true
  | .uint w => w = 0
  | .rawPtr m => m
  | _ => false

/-- the (canonical) simple type an id denotes, read back with the decoders of meta.capy -/
def tyOfId (id : Nat) : Ty :=
  let d := decDisc id
  let bits := decSize id * 8
  if d = Capy.void then .void
  else if d = Capy.int then (if decSign id then .iint bits else .uint bits)
  else if d = Capy.float then .float bits
  else if d = Capy.bool then .bool
  else if d = Capy.string then .string
  else if d = Capy.char then .char
  else if d = Capy.meta_type then .type
  else if d = Capy.any then .any
  else if d = Capy.file then .file 0
  else if d = Capy.raw_ptr then .rawPtr (decSign id)
  else if d = Capy.raw_slice then .rawSlice
  else if d = Capy.nil then .nil
  else .alwaysJumps

def simpleCheck (pw : Nat) (t : Ty) : Bool :=
  match simpleIdOf pw t with
  | some id =>
    (tyOfId id == canon pw t) && decide (decDisc id < Capy.simpleLimit) && decide (id < 2 ^ 32)
      && (decSize id == Layout.size pw t) && (decAlign id == Layout.align pw t)
      && (decSign id == expectSign t)
  | none => false

theorem sc_int (pw : Nat) (hpw : Layout.okPw pw = true) (w : Nat) (hw : Layout.okIntWidth w = true) :
    simpleCheck pw (.iint w) = true ∧ simpleCheck pw (.uint w) = true := by
  simp [Layout.okPw] at hpw
  simp [Layout.okIntWidth] at hw
  rcases hpw with (h | h) | h <;> rcases hw with (((((h' | h') | h') | h') | h') | h') | h' <;>
    subst h <;> subst h' <;> decide

theorem sc_float (pw : Nat) (hpw : Layout.okPw pw = true) (w : Nat) (hw : Layout.okFloatWidth w = true) :
    simpleCheck pw (.float w) = true := by
  simp [Layout.okPw] at hpw
  simp [Layout.okFloatWidth] at hw
  rcases hpw with (h | h) | h <;> rcases hw with (h' | h') | h' <;> subst h <;> subst h' <;> decide

theorem sc_file (pw : Nat) (hpw : Layout.okPw pw = true) (n : Nat) : simpleCheck pw (.file n) = true := by
  have : simpleCheck pw (.file n) = simpleCheck pw (.file 0) := rfl
  rw [this]
  simp [Layout.okPw] at hpw
  rcases hpw with (h | h) | h <;> subst h <;> decide

theorem simpleCheck_true (pw : Nat) (hpw : Layout.okPw pw = true) (t : Ty) (hwf : Layout.wf t = true)
    (hs : isSimple t = true) : simpleCheck pw t = true := by
  cases t <;> simp [isSimple, kindOf] at hs
  case iint w => exact (sc_int pw hpw w (by simpa [Layout.wf] using hwf)).1
  case uint w => exact (sc_int pw hpw w (by simpa [Layout.wf] using hwf)).2
  case float w => exact sc_float pw hpw w (by simpa [Layout.wf] using hwf)
  case file n => exact sc_file pw hpw n
  case rawPtr m =>
    simp [Layout.okPw] at hpw
    rcases hpw with (h | h) | h <;> subst h <;> cases m <;> decide
  all_goals
    simp [Layout.okPw] at hpw
    rcases hpw with (h | h) | h <;> subst h <;> decide

theorem canon_compound (pw : Nat) (t : Ty) {k : Kind} (hk : kindOf t = some k) : canon pw t = t := by
  cases t <;> simp [kindOf] at hk <;> rfl

theorem canon_kind (pw : Nat) (t : Ty) : kindOf (canon pw t) = kindOf t := by
  cases t <;> simp only [canon] <;> (try split) <;> (try split) <;> rfl

theorem simpleIdOf_canon (pw : Nat) (hpw : Layout.okPw pw = true) (t : Ty) :
    simpleIdOf pw (canon pw t) = simpleIdOf pw t := by
  simp [Layout.okPw] at hpw
  cases t
  case iint w =>
    by_cases h0 : w = 0
    · subst h0; simp [canon, simpleIdOf, intBits, PTR_WIDTH_MARK]
    · by_cases hp : w = 255
      · subst hp
        rcases hpw with (h | h) | h <;> subst h <;> simp [canon, simpleIdOf, intBits, PTR_WIDTH_MARK]
      · simp [canon, h0, hp, PTR_WIDTH_MARK]
  case uint w =>
    by_cases h0 : w = 0
    · subst h0; simp [canon, simpleIdOf, intBits, PTR_WIDTH_MARK]
    · by_cases hp : w = 255
      · subst hp
        rcases hpw with (h | h) | h <;> subst h <;> simp [canon, simpleIdOf, intBits, PTR_WIDTH_MARK]
      · simp [canon, h0, hp, PTR_WIDTH_MARK]
  case float w =>
    by_cases h0 : w = 0
    · subst h0; simp [canon, simpleIdOf]
    · simp [canon, h0]
  all_goals simp [canon, simpleIdOf]

theorem kind_disc_inj {k1 k2 : Kind} (h : k1.disc = k2.disc) : k1 = k2 := by
  cases k1 <;> cases k2 <;> first | rfl | (exact absurd h (by decide))

theorem kind_disc_ge (k : Kind) : 16 ≤ k.disc ∧ k.disc < 63 := by cases k <;> decide

/-- everything the table says about a registered compound type -/
theorem compound_entry {pw : Nat} {st : St} (hinv : Inv pw st) (hsmall : ∀ k, st.ctr k ≤ 67108864)
    {t : Ty} {id : Nat} {k : Kind} (hk : kindOf t = some k) (hmem : (t, id) ∈ st.ids) :
    ∃ n, n < 67108864 ∧ id = k.disc * 67108864 + n ∧
      (st.ids.filter fun e => kindOf e.1 == some k)[n]? = some (t, id) := by
  obtain ⟨n, hid, _, hget⟩ := GoodFrom.index hk st.ids _ hinv.good hmem
  simp only [Nat.sub_zero] at hget
  have hlt : n < countKind k st.ids := by
    obtain ⟨h, _⟩ := List.getElem?_eq_some_iff.mp hget
    exact h
  have hn : n < 67108864 := by
    have := hsmall k; rw [hinv.ctr k] at this; omega
  exact ⟨n, hn, by rw [hid, compound_val _ _ hn], hget⟩

theorem simple_entry {pw : Nat} {st : St} (hinv : Inv pw st) {t : Ty} {id : Nat}
    (hk : kindOf t = none) (hmem : (t, id) ∈ st.ids) : simpleIdOf pw t = some id ∧ isSimple t = true := by
  have h := GoodFrom.simple hk st.ids _ hinv.good hmem
  refine ⟨h, ?_⟩
  cases t <;> simp [kindOf] at hk <;> first | rfl | (simp [simpleIdOf] at h)

theorem simple_facts {pw : Nat} (hpw : Layout.okPw pw = true) {t : Ty} (hwf : Layout.wf t = true)
    (hs : isSimple t = true) {id : Nat} (hid : simpleIdOf pw t = some id) :
    tyOfId id = canon pw t ∧ decDisc id < 16 ∧ id < 2 ^ 32 ∧ decSize id = Layout.size pw t ∧
      decAlign id = Layout.align pw t ∧ decSign id = expectSign t := by
  have h := simpleCheck_true pw hpw t hwf hs
  simp only [simpleCheck, hid, Bool.and_eq_true, beq_iff_eq, decide_eq_true_eq] at h
  obtain ⟨⟨⟨⟨⟨h1, h2⟩, h3⟩, h4⟩, h5⟩, h6⟩ := h
  exact ⟨h1, h2, h3, h4, h5, h6⟩

end CapyV.TypeId
