/-
Helper lemmas for C08 (width-generic; core `BitVec`/`Int` lemmas and `omega` only).
-/
import CapyV.Model.Num
namespace CapyV.Num
open BitVec

/-! ### values and their bit patterns -/

theorem two_pow_pos (n : Nat) : (0 : Int) < 2 ^ n := Int.pow_pos (by decide)

theorem two_pow_dvd {m n : Nat} (h : m ≤ n) : (2 : Int) ^ m ∣ 2 ^ n := by
  refine ⟨2 ^ (n - m), ?_⟩
  rw [← Int.pow_add]
  congr 1
  omega

theorem two_pow_le {m n : Nat} (h : m ≤ n) : (2 : Int) ^ m ≤ 2 ^ n := by
  have := Nat.pow_le_pow_right (n := 2) (by decide) h
  have h2 : ((2 ^ m : Nat) : Int) ≤ ((2 ^ n : Nat) : Int) := Int.ofNat_le.mpr this
  simpa [Int.natCast_pow] using h2

/-- the bit pattern of width `w` representing the value a pattern denotes is that pattern -/
theorem ofInt_valOf (s : Bool) (v : BitVec w) : BitVec.ofInt w (valOf s v) = v := by
  unfold valOf
  cases s <;> simp

/-- reading back a represented integer wraps it into the range of the type -/
theorem valOf_ofInt (s : Bool) (z : Int) : valOf s (BitVec.ofInt w z) = wrap w s z := by
  unfold valOf wrap
  cases s
  · simp only [Bool.false_eq_true, ↓reduceIte, BitVec.toNat_ofInt]
    have h := Int.emod_nonneg z (Int.ne_of_gt (two_pow_pos w))
    rw [Int.toNat_of_nonneg]
    · simp
    · simpa using h
  · simp

theorem valOf_inj (s : Bool) {a b : BitVec w} (h : valOf s a = valOf s b) : a = b := by
  rw [← ofInt_valOf s a, ← ofInt_valOf s b, h]

/-- two integers congruent modulo `2^n` have the same `n`-bit pattern -/
theorem ofInt_congr {n : Nat} {a b : Int} (h : (2 : Int) ^ n ∣ a - b) :
    BitVec.ofInt n a = BitVec.ofInt n b := by
  apply BitVec.eq_of_toNat_eq
  rw [BitVec.toNat_ofInt, BitVec.toNat_ofInt]
  congr 1
  have : (a - b) % (2 : Int) ^ n = 0 := Int.emod_eq_zero_of_dvd h
  have := Int.emod_eq_emod_iff_emod_sub_eq_zero.mpr this
  simpa [Int.natCast_pow] using this

theorem toInt_sub_toNat_dvd (v : BitVec w) : (2 : Int) ^ w ∣ v.toInt - (v.toNat : Int) := by
  rw [BitVec.toInt_eq_toNat_cond]
  split
  · simp
  · refine ⟨-1, ?_⟩
    simp [Int.natCast_pow]
    omega

theorem valOf_congr (s t : Bool) (v : BitVec w) : (2 : Int) ^ w ∣ valOf s v - valOf t v := by
  unfold valOf
  cases s <;> cases t <;> simp
  · have := toInt_sub_toNat_dvd v
    have h : (v.toNat : Int) - v.toInt = -(v.toInt - (v.toNat : Int)) := by omega
    rw [h]; exact Int.dvd_neg.mpr this
  · exact toInt_sub_toNat_dvd v

/-- truncation (and zero extension) read the source as unsigned -/
theorem setWidth_eq_ofInt_toNat (to : Nat) (v : BitVec w) :
    v.setWidth to = BitVec.ofInt to (v.toNat : Int) := by
  rw [BitVec.ofInt_natCast, BitVec.ofNat_toNat]

/-- truncating keeps the low bits whatever signedness the source is read with -/
theorem setWidth_eq_ofInt_valOf (s : Bool) {to : Nat} (h : to ≤ w) (v : BitVec w) :
    v.setWidth to = BitVec.ofInt to (valOf s v) := by
  rw [setWidth_eq_ofInt_toNat]
  apply ofInt_congr
  have h1 := valOf_congr false s v
  have h2 : valOf false v = (v.toNat : Int) := by simp [valOf]
  rw [h2] at h1
  exact Int.dvd_trans (two_pow_dvd h) h1

theorem signExtend_eq_ofInt_toInt {to : Nat} (h : w ≤ to) (v : BitVec w) :
    v.signExtend to = BitVec.ofInt to v.toInt := by
  apply BitVec.eq_of_toInt_eq
  rw [BitVec.toInt_signExtend_of_le h, BitVec.toInt_ofInt]
  symm
  apply Int.bmod_eq_of_le_mul_two
  · have := @BitVec.le_two_mul_toInt w v
    have := two_pow_le h
    simp only [Int.natCast_pow, Int.cast_ofNat_Int] at *
    omega
  · have := @BitVec.two_mul_toInt_lt w v
    have := two_pow_le h
    simp only [Int.natCast_pow, Int.cast_ofNat_Int] at *
    omega

theorem setWidth_ofInt_of_le {n to : Nat} (h : to ≤ n) (z : Int) :
    (BitVec.ofInt n z).setWidth to = BitVec.ofInt to z := by
  rw [setWidth_eq_ofInt_valOf true h, valOf_ofInt]
  apply ofInt_congr
  unfold wrap
  simp only [↓reduceIte]
  have := @Int.dvd_bmod_sub_self z (2 ^ n)
  simp only [Int.natCast_pow, Int.cast_ofNat_Int] at this
  exact Int.dvd_trans (two_pow_dvd h) this

/-! ### ranges -/

theorem wrap_of_fits {bits : Nat} (hb : 0 < bits) (s : Bool) {z : Int} (h : fits bits s z) :
    wrap bits s z = z := by
  unfold fits at h
  unfold wrap
  have hp : (2 : Int) ^ bits = 2 * 2 ^ (bits - 1) := by
    have : bits = (bits - 1) + 1 := by omega
    rw [this, Int.pow_succ]; simp; omega
  cases s
  · simp only [Bool.false_eq_true, ↓reduceIte, uMax] at *
    exact Int.emod_eq_of_lt h.1 (by omega)
  · simp only [↓reduceIte, sMin, sMax] at *
    apply Int.bmod_eq_of_le_mul_two
    · simp only [Int.natCast_pow, Int.cast_ofNat_Int]; omega
    · simp only [Int.natCast_pow, Int.cast_ofNat_Int]; omega

theorem fits_valOf (s : Bool) (v : BitVec w) : fits w s (valOf s v) := by
  unfold fits valOf
  cases s
  · simp only [Bool.false_eq_true, ↓reduceIte, uMax]
    have := v.isLt
    have h2 : ((v.toNat : Int)) < ((2 ^ w : Nat) : Int) := Int.ofNat_lt.mpr this
    simp only [Int.natCast_pow, Int.cast_ofNat_Int] at h2
    omega
  · simp only [↓reduceIte, sMin, sMax]
    have h1 := BitVec.le_toInt v
    have h2 := @BitVec.toInt_le w v
    omega

theorem clamp_of_mem {lo hi z : Int} (h1 : lo ≤ z) (h2 : z ≤ hi) : clamp lo hi z = z := by
  unfold clamp
  split
  · omega
  · split
    · omega
    · rfl

theorem fits_mono {m n : Nat} (hm : 0 < m) (h : m ≤ n) (s : Bool) {z : Int} (hz : fits m s z) :
    fits n s z := by
  unfold fits at *
  cases s
  · simp only [Bool.false_eq_true, ↓reduceIte, uMax] at *
    have := two_pow_le h
    omega
  · simp only [↓reduceIte, sMin, sMax] at *
    have := two_pow_le (show m - 1 ≤ n - 1 by omega)
    omega

/-! ### arithmetic: the result is the `w`-bit pattern of the exact integer result -/

theorem iadd_eq (s : Bool) (a b : BitVec w) :
    iadd a b = BitVec.ofInt w (valOf s a + valOf s b) := by
  rw [BitVec.ofInt_add, ofInt_valOf, ofInt_valOf]; rfl

theorem imul_eq (s : Bool) (a b : BitVec w) :
    imul a b = BitVec.ofInt w (valOf s a * valOf s b) := by
  rw [BitVec.ofInt_mul, ofInt_valOf, ofInt_valOf]; rfl

theorem ineg_eq (s : Bool) (a : BitVec w) : ineg a = BitVec.ofInt w (-valOf s a) := by
  rw [BitVec.ofInt_neg, ofInt_valOf]; rfl

theorem isub_eq (s : Bool) (a b : BitVec w) :
    isub a b = BitVec.ofInt w (valOf s a - valOf s b) := by
  rw [Int.sub_eq_add_neg, BitVec.ofInt_add, BitVec.ofInt_neg, ofInt_valOf, ofInt_valOf]
  unfold isub
  exact BitVec.sub_eq_add_neg a b

/-! ### division and remainder -/

theorem sdiv_trunc (a b : BitVec w) (hb : b ≠ 0#w)
    (ho : ¬(a = BitVec.intMin w ∧ b = BitVec.allOnes w)) :
    ∃ r, sdiv a b = .val r ∧ r.toInt = a.toInt.tdiv b.toInt := by
  refine ⟨a.sdiv b, ?_, ?_⟩
  · simp [sdiv, hb, ho]
  · apply BitVec.toInt_sdiv_of_ne_or_ne
    rw [BitVec.neg_one_eq_allOnes]
    by_cases h : a = BitVec.intMin w
    · right; intro hb'; exact ho ⟨h, hb'⟩
    · left; exact h

theorem udiv_trunc (a b : BitVec w) (hb : b ≠ 0#w) :
    ∃ r, udiv a b = .val r ∧ (r.toNat : Int) = (a.toNat : Int).tdiv (b.toNat : Int) := by
  refine ⟨a / b, by simp [udiv, hb], ?_⟩
  rw [BitVec.toNat_udiv, Int.tdiv_eq_ediv_of_nonneg (Int.natCast_nonneg _)]
  simp

theorem srem_trunc (a b : BitVec w) (hb : b ≠ 0#w) :
    ∃ r, srem a b = .val r ∧ r.toInt = a.toInt.tmod b.toInt :=
  ⟨a.srem b, by simp [srem, hb], BitVec.toInt_srem a b⟩

theorem urem_trunc (a b : BitVec w) (hb : b ≠ 0#w) :
    ∃ r, urem a b = .val r ∧ (r.toNat : Int) = (a.toNat : Int).tmod (b.toNat : Int) := by
  refine ⟨a % b, by simp [urem, hb], ?_⟩
  rw [BitVec.toNat_umod, Int.tmod_eq_emod_of_nonneg (Int.natCast_nonneg _)]
  simp

/-! ### shifts -/

theorem shamt_of_lt (b : BitVec w) (h : b.toNat < w) : shamt b = b.toNat := Nat.mod_eq_of_lt h

theorem sshr_floor (a b : BitVec w) (h : b.toNat < w) :
    (sshr a b).toInt = a.toInt / 2 ^ b.toNat := by
  unfold sshr; rw [shamt_of_lt b h, BitVec.toInt_sshiftRight, Int.shiftRight_eq_div_pow]
  push_cast; rfl

theorem ushr_floor (a b : BitVec w) (h : b.toNat < w) :
    ((ushr a b).toNat : Int) = (a.toNat : Int) / 2 ^ b.toNat := by
  unfold ushr; rw [shamt_of_lt b h, BitVec.toNat_ushiftRight, Nat.shiftRight_eq_div_pow]
  simp

theorem ofInt_two_pow (n : Nat) : BitVec.ofInt w (2 ^ n) = BitVec.twoPow w n := by
  apply BitVec.eq_of_toNat_eq
  have : ((2 : Int) ^ n) = ((2 ^ n : Nat) : Int) := by push_cast; rfl
  rw [this, BitVec.ofInt_natCast]
  simp [BitVec.toNat_twoPow]

theorem ishl_eq (s : Bool) (a b : BitVec w) (h : b.toNat < w) :
    ishl a b = BitVec.ofInt w (valOf s a * 2 ^ b.toNat) := by
  unfold ishl
  rw [shamt_of_lt b h, BitVec.shiftLeft_eq_mul_twoPow, BitVec.ofInt_mul, ofInt_valOf,
    ofInt_two_pow]

/-! ### comparisons -/

theorem icmp_slt (a b : BitVec w) : icmp .slt a b = decide (a.toInt < b.toInt) := rfl
theorem icmp_sle (a b : BitVec w) : icmp .sle a b = decide (a.toInt ≤ b.toInt) := rfl
theorem icmp_sgt (a b : BitVec w) : icmp .sgt a b = decide (b.toInt < a.toInt) := rfl
theorem icmp_sge (a b : BitVec w) : icmp .sge a b = decide (b.toInt ≤ a.toInt) := rfl
theorem icmp_ult (a b : BitVec w) :
    icmp .ult a b = decide ((a.toNat : Int) < (b.toNat : Int)) := by
  simp [icmp, BitVec.ult_eq_decide]
theorem icmp_ule (a b : BitVec w) :
    icmp .ule a b = decide ((a.toNat : Int) ≤ (b.toNat : Int)) := by
  simp [icmp, BitVec.ule_eq_decide]
theorem icmp_ugt (a b : BitVec w) :
    icmp .ugt a b = decide ((b.toNat : Int) < (a.toNat : Int)) := by
  simp [icmp, BitVec.ult_eq_decide]
theorem icmp_uge (a b : BitVec w) :
    icmp .uge a b = decide ((b.toNat : Int) ≤ (a.toNat : Int)) := by
  simp [icmp, BitVec.ule_eq_decide]

theorem icmp_eq (s : Bool) (a b : BitVec w) :
    icmp .eq a b = decide (valOf s a = valOf s b) := by
  by_cases h : a = b
  · subst h; simp [icmp]
  · have : valOf s a ≠ valOf s b := fun hv => h (valOf_inj s hv)
    simp [icmp, h, this]

theorem icmp_ne (s : Bool) (a b : BitVec w) :
    icmp .ne a b = decide (valOf s a ≠ valOf s b) := by
  by_cases h : a = b
  · subst h; simp [icmp]
  · have : valOf s a ≠ valOf s b := fun hv => h (valOf_inj s hv)
    simp [icmp, h, this]

/-! ### width changes read through `toInt` / `toNat` -/

theorem toInt_setWidth_of_eq {w w' : Nat} (h : w = w') (v : BitVec w) :
    (v.setWidth w').toInt = v.toInt := by
  subst h; simp

theorem toNat_setWidth_of_eq {w w' : Nat} (h : w = w') (v : BitVec w) :
    (v.setWidth w').toNat = v.toNat := by
  subst h; simp

end CapyV.Num
