import CapyV.Model.Layout
/-
The System V x86-64 parameter-passing rules (psABI 1.0, §3.2.3 "Parameter Passing"),
written from the text of the psABI for the C types the fragment of C19 maps to:

  Capy                         C
  i8…i64 / u8…u64, isize/usize  (u)int8_t … (u)int64_t, (s)size_t      INTEGER
  bool, char                    _Bool, char                             INTEGER
  ^T, ?^T, rawptr, str, fn ptr  pointers                                INTEGER
  f32, f64                      float, double                           SSE
  [n]T                          T[n] (only inside a struct)             per element
  struct { … }                  struct { … }                            per field

"Classification: The size of each argument gets rounded up to eightbytes. …
 1. If the size of an object is larger than [two] eightbytes [no __m256 here], or it contains
    unaligned fields, it has class MEMORY.
 2. [C++ only]
 3. If the size of the aggregate exceeds a single eightbyte, each is classified separately.
    Each eightbyte gets initialized to class NO_CLASS.
 4. Each field of an object is classified recursively so that always two fields are
    considered. The resulting class is calculated according to the classes of the fields in
    the eightbyte: (a) If both classes are equal, this is the resulting class. (b) If one of
    the classes is NO_CLASS, the resulting class is the other class. (c) If one of the classes
    is MEMORY, the result is the MEMORY class. (d) If one of the classes is INTEGER, the result
    is the INTEGER. (e) [X87 …] (f) Otherwise class SSE is used.
 5. post merger cleanup: (a) If one of the classes is MEMORY, the whole argument is passed in
    memory. [(b)–(d) concern X87UP / SSEUP, which do not occur.]

 Passing: 1. If the class is MEMORY, pass the argument on the stack. 2. If the class is
 INTEGER, the next available register of the sequence %rdi, %rsi, %rdx, %rcx, %r8 and %r9 is
 used. 3. If the class is SSE, the next available vector register is used, the registers are
 taken in the order from %xmm0 to %xmm7. … If there are no registers available for any
 eightbyte of an argument, the whole argument is passed on the stack. If registers have
 already been assigned for some eightbytes of such an argument, the assignments get reverted.
 Once registers are assigned, the arguments passed in memory are pushed on the stack in
 reversed (right-to-left) order [so they lie in argument order at increasing addresses, each
 rounded up to a multiple of 8 bytes].

 Returning of Values: 1. Classify the return type. 2. If the type has class MEMORY, then the
 caller provides space for the return value and passes the address of this storage in %rdi
 as if it were the first argument to the function. 3. If the class is INTEGER, the next
 available register of the sequence %rax, %rdx is used. 4. If the class is SSE, the next
 available vector register of the sequence %xmm0, %xmm1 is used."

The layout of C structs (field offsets, `sizeof`) is the natural-alignment layout that
`CapyV.Layout` also describes (C17 proves its rules; `gcc offsetof` and the gcc differential
of C19 check it) — with one exception, `cLayoutAgrees` below: a nested struct member with tail
padding. The spec takes offsets and `sizeof` (= stride) from `CapyV.Layout`.
-/
namespace CapyV.SysV
open CapyV CapyV.Layout

/-- psABI argument classes that can occur for the fragment -/
inductive PClass where
  | noClass | integer | sse | memory
  deriving DecidableEq, Repr, Inhabited

/-- rule 4 (a)–(f) -/
def PClass.merge (a b : PClass) : PClass :=
  if a = b then a                                         -- (a)
  else if a = .noClass then b else if b = .noClass then a -- (b)
  else if a = .memory ∨ b = .memory then .memory           -- (c)
  else if a = .integer ∨ b = .integer then .integer        -- (d)
  else .sse                                               -- (f)

/-- `sizeof` of the C type -/
def sizeofC (t : Ty) : Nat := strideOf 64 t

mutual
/-- C gives a struct member `sizeof` bytes (size rounded up to the alignment); Capy's layout gives it
`size` bytes. They agree on every offset iff no struct member has tail padding (scalars and arrays
never have; a nested struct such as `struct { i64, i8 }` has). Outside this predicate the offsets
of `CapyV.Layout` are not the C offsets and the flattening below is not the flattening of the C type. -/
def cLayoutAgrees : Ty → Bool
  | .concreteArray _ s | .anonArray _ s | .distinct _ s => cLayoutAgrees s
  | .concreteStruct _ ms | .anonStruct ms => cMembersAgree ms
  | _ => true
def cMembersAgree : Members → Bool
  | .nil => true
  | .cons _ t r => cLayoutAgrees t && decide (size 64 t = strideOf 64 t) && cMembersAgree r
end

/-- elements `idx, idx+1, …` (`k` of them) of an array whose element size is `elem` -/
def arrayScalars (f : Nat → List (Nat × PClass)) (elem off : Nat) : Nat → Nat → List (Nat × PClass)
  | 0, _ => []
  | k + 1, idx => f (off + idx * elem) ++ arrayScalars f elem off k (idx + 1)

mutual
/-- flatten a C object at byte offset `off` into its scalar fields `(offset, class)` -/
def scalars : Ty → Nat → List (Nat × PClass)
  | .iint _, off | .uint _, off | .bool, off | .char, off => [(off, .integer)]
  | .pointer _ _, off | .rawPtr _, off | .string, off | .fnPointer _ _, off => [(off, .integer)]
  | .optional _, off => [(off, .integer)]   -- only `?^T` (a nullable C pointer) is in the fragment
  | .float _, off => [(off, .sse)]
  | .concreteArray n sub, off | .anonArray n sub, off => arrayScalars (scalars sub) (sizeofC sub) off n 0
  | .concreteStruct _ ms, off | .anonStruct ms, off => memberScalars ms (structOffsets 64 ms 0) off
  | .distinct _ sub, off => scalars sub off   -- a typedef
  | _, _ => []
def memberScalars : Members → List Nat → Nat → List (Nat × PClass)
  | .cons _ t rest, o :: os, off => scalars t (off + o) ++ memberScalars rest os off
  | _, _, _ => []
end

/-- rule 3/4: the class of eightbyte `k` = merge of the classes of the fields lying in it -/
def eightbyteClass (fs : List (Nat × PClass)) (k : Nat) : PClass :=
  ((fs.filter (fun p => p.1 / 8 == k)).map (·.2)).foldl PClass.merge .noClass

/-- number of eightbytes of the object -/
def eightbytes (t : Ty) : Nat := (sizeofC t + 7) / 8

/-- classification of a whole argument / return value: `none` = MEMORY, otherwise the class
of each of its (one or two) eightbytes -/
def classify (t : Ty) : Option (List PClass) :=
  if sizeofC t > 16 then none                                   -- rule 1
  else
    let cs := (List.range (eightbytes t)).map (eightbyteClass (scalars t 0))
    if cs.any (· == .memory) then none else some cs             -- rule 5 (a)

/-- where one eightbyte (or a whole memory argument) travels -/
inductive Loc where
  /-- n-th register of rdi, rsi, rdx, rcx, r8, r9 (arguments) / of rax, rdx (results) -/
  | gpr (n : Nat)
  | xmm (n : Nat)
  /-- `bytes` bytes of the stack argument area, in argument order -/
  | stack (bytes : Nat)
  deriving DecidableEq, Repr

def roundUp8 (n : Nat) : Nat := (n + 7) / 8 * 8

def count (c : PClass) (cs : List PClass) : Nat := (cs.filter (· == c)).length

/-- registers for the eightbytes of one argument, given the number of integer / vector
registers already used -/
def assignRegs : List PClass → Nat → Nat → List Loc
  | [], _, _ => []
  | .integer :: rest, g, x => .gpr g :: assignRegs rest (g + 1) x
  | .sse :: rest, g, x => .xmm x :: assignRegs rest g (x + 1)
  | _ :: rest, g, x => assignRegs rest g x   -- NO_CLASS: padding, nothing travels

/-- "Passing" of one argument, given the number of integer / vector registers already used:
where it travels and the registers used afterwards -/
def passArg (t : Ty) (g x : Nat) : List Loc × Nat × Nat :=
  match classify t with
  | none => ([.stack (roundUp8 (sizeofC t))], g, x)
  | some cs =>
    let gi := count .integer cs
    let xi := count .sse cs
    if g + gi ≤ 6 ∧ x + xi ≤ 8 then (assignRegs cs g x, g + gi, x + xi)
    else ([.stack (roundUp8 (sizeofC t))], g, x)   -- "the whole argument is passed on the stack"

/-- arguments left to right -/
def passArgs : List Ty → Nat → Nat → Nat → List (Nat × List Loc)
  | [], _, _, _ => []
  | t :: rest, idx, g, x =>
    match passArg t g x with
    | (l, g', x') => (idx, l) :: passArgs rest (idx + 1) g' x'

inductive RetLoc where
  | none
  | regs (l : List Loc)
  /-- MEMORY: caller-provided storage, its address in %rdi as if it were the first argument -/
  | sret
  deriving DecidableEq, Repr

structure Assignment where
  ret : RetLoc
  args : List (Nat × List Loc)
  deriving DecidableEq, Repr

/-- the whole signature; `ret = none` is a `void` function -/
def assign (params : List Ty) (ret : Option Ty) : Assignment :=
  match ret with
  | none => { ret := .none, args := passArgs params 0 0 0 }
  | some r =>
    match classify r with
    | none => { ret := .sret, args := passArgs params 0 1 0 }
    | some cs => { ret := .regs (assignRegs cs 0 0), args := passArgs params 0 0 0 }

end CapyV.SysV
