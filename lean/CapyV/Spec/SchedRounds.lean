import CapyV.Model.Sched
import CapyV.Spec.Sched
/-!
The checker's usage protocol and the expected offers, round by round, stated on the
script (what `infer` answered) and the abstract history state only.
-/
namespace CapyV.SchedSpec
open CapyV.Topo CapyV.Sched

/-- within one round: every dependency named by `infer` has not completed at that moment -/
def depsFresh (done : List Nat) : RoundScript → Prop
  | [] => True
  | (x, .complete) :: r => depsFresh (x :: done) r
  | (_, .needs ds) :: r => (∀ c ∈ ds, c ∉ done) ∧ depsFresh done r

/-- what a round must offer: everything pending when a cycle is to be reported, else the ready items -/
def expectedOffer (a : Abs) : List Nat × Bool :=
  if cyclic a then (a.pend, true) else (readyList a, false)

/-- the checker's usage protocol for a whole run of `finish`: every round processes exactly
the offered items (each once, in any order), each of them either completes or registers
dependencies on not-yet-completed items; the abstract state advances by the history alone -/
def scriptFresh (a : Abs) : List RoundScript → Prop
  | [] => True
  | r :: rs => (r.map (·.1)).isPerm (expectedOffer a).1 = true ∧ depsFresh a.done r ∧
      ∀ a', after a (roundOps r) = some a' → scriptFresh a' rs

def expectedOffers (a : Abs) : List RoundScript → List (List Nat × Bool)
  | [] => []
  | r :: rs =>
    expectedOffer a ::
      match after a (roundOps r) with
      | none => []
      | some a' => if a'.pend.isEmpty then [] else expectedOffers a' rs

end CapyV.SchedSpec

namespace CapyV.Sched
/-- the loop ended (`finished`) or would go on (`more`): no panic, script consistent -/
def Result.ok : Result → Bool
  | .finished _ | .more _ => true
  | _ => false
end CapyV.Sched
