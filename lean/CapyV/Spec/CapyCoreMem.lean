import CapyV.Spec.CapyCore
/-!
`CapyCoreMem` — `CapyCore` with an *addressable store*: the reference semantics used by the
end-to-end properties (`CORE run` of the driver). It is `CapyV.Core` (same integers, control
flow, defers, sums, `.try`, exit status rule) plus

* pointers `^T` / `^mut T`: `^x`, `^mut x.f[i]`, `p^`, `p^ = v`, `p^.f = v`, `p^[i] = v`,
  pointers as arguments, in structs and optionals;
* slices `[]T`: the implicit array → slice conversion of an array *place*, `.len`, indexing with
  the run-time bounds check, writes through a slice, `[N]T.(slice)`;
* function values: a named function stored in a local and called through it; recursion (every
  activation has its own frame, so a pointer into an outer activation of the same function stays
  distinct from the inner one's variables);
* `char`: literals, `==`/`!=`, casts from and to the integers, printed as the character.

The store: every function activation is a *frame* with a fresh id (never reused); a frame maps
variables to values; a **cell** is `(frame id, variable, access path)`. A pointer value is a cell,
a slice value a cell (of the array) and a length. Aggregates are values: `b := a` copies, and a
pointer into `a` does not see into `b`. A frame disappears when its function returns; a
dereference of a pointer into a dead frame is `stuck` (the generator never produces one; a run
that hits it is not compared) — the semantics never invents a behaviour for it.

Written from the README and the property statements, like `CapyCore`. `CapyV.Core` itself is kept
unchanged: it is the object of C16's substitution lemma (`Spec/CapyCoreGeneric.lean`), and the
driver runs every program of the common fragment through both interpreters (`CORE xcheck`).
-/
namespace CapyV.CoreMem
open CapyV.Core (BinOp CmpOp wrap cmpInt listSet Outcome)

inductive Ty where
  | int (signed : Bool) (bits : Nat)
  | bool
  | void
  | arr (n : Nat) (elem : Ty)
  | opt (elem : Ty)
  | struct (id : Nat)
  | enum (id : Nat)
  | errUnion (err ok : Ty)
  | ptr (mutable : Bool) (pointee : Ty)
  | slice (elem : Ty)
  | char
  deriving DecidableEq, Repr, Inhabited

/-- an addressable location: frame id, variable, path of element / field indices below it -/
structure Cell where
  frame : Nat
  var : Nat
  path : List Nat
  deriving DecidableEq, Repr, Inhabited

def Cell.push (c : Cell) (k : Nat) : Cell := { c with path := c.path ++ [k] }

inductive Val where
  | int (z : Int)
  | bool (b : Bool)
  | void
  | arr (vs : List Val)
  | nil
  | some (v : Val)
  | struct (fields : List Val)
  | variant (k : Nat) (payload : Val)
  | eu (isOk : Bool) (v : Val)
  /-- `^T` / `^mut T`: the cell pointed to (mutability is a matter of typing, property C14) -/
  | ptr (c : Cell)
  /-- `[]T`: the cell of the underlying array and the length -/
  | slice (c : Cell) (len : Nat)
  /-- a function value: the index of a (non-capturing) function -/
  | fn (f : Nat)
  /-- a `char` (8 bits; printed as the character) -/
  | char (n : Nat)
  deriving Repr, Inhabited

inductive Expr where
  | lit (t : Ty) (z : Int)
  | blit (b : Bool)
  | var (x : Nat)
  | bin (op : BinOp) (t : Ty) (a b : Expr)
  | cmp (op : CmpOp) (t : Ty) (a b : Expr)
  | land (a b : Expr) | lor (a b : Expr) | lnot (a : Expr)
  | neg (t : Ty) (a : Expr) | bnot (t : Ty) (a : Expr)
  | cast (src dst : Ty) (a : Expr)
  | call (f : Nat) (args : List Expr)
  | index (a : Expr) (i : Expr)
  | field (a : Expr) (k : Nat)
  | arrLit (elems : List Expr)
  | structLit (id : Nat) (fields : List Expr)
  | nilE
  | someE (a : Expr)
  | unwrap (a : Expr)
  | isSome (a : Expr)
  | ite (c a b : Expr)
  | variantLit (k : Nat) (payload : Option Expr)
  | isVariant (k : Nat) (a : Expr)
  | unwrapVariant (k : Nat) (a : Expr)
  | euLit (isOk : Bool) (a : Expr)
  | euIsOk (a : Expr)
  | euUnwrap (isOk : Bool) (a : Expr)
  | tryE (a : Expr)
  /-- `^a` / `^mut a`: `a` is place-shaped (`var`, `index`, `field`, `deref`) -/
  | addrOf (a : Expr)
  /-- `a^` -/
  | deref (a : Expr)
  /-- the implicit `[N]T → []T` conversion of an array place -/
  | sliceOf (a : Expr)
  /-- `a.len` of a slice or an array -/
  | len (a : Expr)
  /-- `[N]T.(s)`: copy of the `N` elements a slice refers to -/
  | sliceToArr (n : Nat) (a : Expr)
  /-- a function used as a value -/
  | fnRef (f : Nat)
  /-- `c(args)` where `c` evaluates to a function value (evaluated before the arguments) -/
  | callV (c : Expr) (args : List Expr)
  /-- a character literal -/
  | clit (n : Nat)
  deriving Repr, Inhabited

/-- assignable places -/
inductive Place where
  | var (x : Nat)
  | index (p : Place) (i : Expr)
  | field (p : Place) (k : Nat)
  /-- `e^` -/
  | deref (e : Expr)
  deriving Repr, Inhabited

inductive Stmt where
  | letS (x : Nat) (e : Expr)
  | assign (p : Place) (e : Expr)
  | opAssign (op : BinOp) (t : Ty) (p : Place) (e : Expr)
  | print (e : Expr)
  | ifS (c : Expr) (thenB : List Stmt) (elseB : List Stmt)
  | whileS (label : Nat) (c : Expr) (body : List Stmt)
  | block (label : Option Nat) (body : List Stmt)
  | brk (label : Nat)
  | cont (label : Nat)
  | ret (e : Option Expr)
  | deferS (s : Stmt)
  | exprS (e : Expr)
  | switchS (scrut : Expr) (arg : Option Nat) (arms : List (Nat × List Stmt)) (default : Option (List Stmt))
  deriving Repr, Inhabited

structure Fn where
  params : List Nat
  retTy : Ty
  body : List Stmt
  deriving Repr, Inhabited

structure Program where
  fns : List Fn            -- `fns[0]` is `main`
  deriving Repr, Inhabited

/-- the expression read as a place (`none`: not place-shaped) -/
def toPlace? : Expr → Option Place
  | .var x => some (.var x)
  | .index a i => (toPlace? a).map (fun q => .index q i)
  | .field a k => (toPlace? a).map (fun q => .field q k)
  | .deref a => some (.deref a)
  | _ => none

/-! ### integers (those of `CapyCore`) -/

def intTy : Ty → Core.Ty
  | .int s b => .int s b
  | _ => .void

def wrapTy (t : Ty) (z : Int) : Int := Core.wrapTy (intTy t) z

def binInt (op : BinOp) (t : Ty) (a b : Int) : Option Int := Core.binInt op (intTy t) a b

def castVal (src dst : Ty) (v : Val) : Option Val :=
  match src, dst, v with
  | .int _ _, .int s b, .int z => some (.int (wrap s b z))
  | .bool, .int _ _, .bool b => some (.int (if b then 1 else 0))
  | .int _ _, .bool, .int z => some (.bool (z != 0))
  | .bool, .bool, v => some v
  | .char, .int s b, .char n => some (.int (wrap s b n))
  | .int _ _, .char, .int z => some (.char (wrap false 8 z).toNat)
  | .char, .char, v => some v
  | _, _, _ => none

/-! ### the store -/

abbrev Env := List (Nat × Val)

def lookup (x : Nat) : Env → Option Val
  | [] => none
  | (y, v) :: r => if x = y then some v else lookup x r

def setVar (x : Nat) (v : Val) : Env → Env
  | [] => [(x, v)]
  | (y, w) :: r => if x = y then (x, v) :: r else (y, w) :: setVar x v r

/-- the sub-value at an access path -/
def getPath : Val → List Nat → Option Val
  | v, [] => some v
  | .arr vs, i :: r =>
    match vs[i]? with
    | some e => getPath e r
    | none => none
  | .struct fs, i :: r =>
    match fs[i]? with
    | some e => getPath e r
    | none => none
  | _, _ :: _ => none

/-- replace the sub-value at an access path (`none`: the path does not exist in that value) -/
def setPath : Val → List Nat → Val → Option Val
  | _, [], v => some v
  | .arr vs, i :: r, v =>
    match vs[i]? with
    | some e =>
      match setPath e r v with
      | some e' => some (.arr (listSet vs i e'))
      | none => none
    | none => none
  | .struct fs, i :: r, v =>
    match fs[i]? with
    | some e =>
      match setPath e r v with
      | some e' => some (.struct (listSet fs i e'))
      | none => none
    | none => none
  | _, _ :: _, _ => none

structure St where
  /-- id of the running activation -/
  fid : Nat
  /-- its variables -/
  env : Env
  /-- the suspended callers, innermost first -/
  stack : List (Nat × Env)
  /-- next fresh frame id (ids are never reused: a dead frame stays dead) -/
  next : Nat
  out : List String               -- printed lines, newest first
  deriving Repr, Inhabited

def lookupFrame (f : Nat) : List (Nat × Env) → Option Env
  | [] => none
  | (g, e) :: r => if f = g then some e else lookupFrame f r

def setFrame (f : Nat) (e : Env) : List (Nat × Env) → List (Nat × Env)
  | [] => []
  | (g, e') :: r => if f = g then (g, e) :: r else (g, e') :: setFrame f e r

/-- the variables of a live frame -/
def frameEnv (st : St) (f : Nat) : Option Env :=
  if f = st.fid then some st.env else lookupFrame f st.stack

def withFrameEnv (st : St) (f : Nat) (e : Env) : St :=
  if f = st.fid then { st with env := e } else { st with stack := setFrame f e st.stack }

/-- read a cell; `none`: dead frame, unbound variable or a path that does not exist -/
def loadCell (st : St) (c : Cell) : Option Val :=
  match frameEnv st c.frame with
  | none => none
  | some env =>
    match lookup c.var env with
    | none => none
    | some v => getPath v c.path

/-- write a cell: exactly that sub-value of that variable of that frame is replaced -/
def storeCell (st : St) (c : Cell) (v : Val) : Option St :=
  match frameEnv st c.frame with
  | none => none
  | some env =>
    match lookup c.var env with
    | none => none
    | some old =>
      match setPath old c.path v with
      | none => none
      | some new => some (withFrameEnv st c.frame (setVar c.var new env))

/-- enter a function: the caller is suspended, the callee gets a fresh frame id -/
def pushFrame (st : St) (env : Env) : St :=
  { fid := st.next, env := env, stack := (st.fid, st.env) :: st.stack, next := st.next + 1, out := st.out }

/-- leave a function: its frame dies; the caller resumes with whatever the callee wrote into it -/
def popFrame (st : St) : St :=
  match st.stack with
  | (f, e) :: r => { fid := f, env := e, stack := r, next := st.next, out := st.out }
  | [] => st

/-! ### machine state -/

inductive Sig where
  | normal
  | brk (l : Nat)
  | cont (l : Nat)
  | ret (v : Val)
  deriving Repr, Inhabited

inductive Fault where
  | indexOutOfBounds
  | unwrapWrongVariant
  | outOfFuel
  /-- the program left the fragment's rules (ill-typed, unknown variable, division by zero,
  dereference of a pointer into a dead frame …): the generator never produces these; a run that
  hits one is not compared -/
  | stuck (why : String)
  | propagate (v : Val)
  deriving Repr, Inhabited

def showVal : Val → String
  | .int z => toString z
  | .bool b => if b then "true" else "false"
  | .char n => String.singleton (Char.ofNat n)
  | _ => "<aggregate>"

/-- the element cell an index selects in the value stored at `c` (array or slice) -/
def indexCell (c : Cell) (cur : Option Val) (k : Int) : Except Fault Cell :=
  if k < 0 then .error (.stuck "negative index") else
  match cur with
  | some (.arr vs) => if k.toNat < vs.length then .ok (c.push k.toNat) else .error .indexOutOfBounds
  | some (.slice c' len) => if k.toNat < len then .ok (c'.push k.toNat) else .error .indexOutOfBounds
  | some _ => .error (.stuck "index on non-array")
  | none => .error (.stuck "index in a dead frame or an unbound variable")

mutual
/-- expression evaluation, left to right -/
def evalE (p : Program) : Nat → Expr → St → Except (Fault × St) (Val × St)
  | 0, _, st => .error (.outOfFuel, st)
  | fuel + 1, e, st =>
    match e with
    | .lit t z => .ok (.int (wrapTy t z), st)
    | .blit b => .ok (.bool b, st)
    | .var x =>
      match lookup x st.env with
      | some v => .ok (v, st)
      | none => .error (.stuck s!"unbound variable {x}", st)
    | .bin op t a b =>
      match evalE p fuel a st with
      | .error e => .error e
      | .ok (va, st1) =>
        match evalE p fuel b st1 with
        | .error e => .error e
        | .ok (vb, st2) =>
          match va, vb with
          | .int x, .int y =>
            match binInt op t x y with
            | some r => .ok (.int r, st2)
            | none => .error (.stuck "division by zero or shift out of range", st2)
          | _, _ => .error (.stuck "bin on non-ints", st2)
    | .cmp op _ a b =>
      match evalE p fuel a st with
      | .error e => .error e
      | .ok (va, st1) =>
        match evalE p fuel b st1 with
        | .error e => .error e
        | .ok (vb, st2) =>
          match va, vb with
          | .int x, .int y => .ok (.bool (cmpInt op x y), st2)
          | .bool x, .bool y =>
            match op with
            | .eq => .ok (.bool (x == y), st2)
            | .ne => .ok (.bool (x != y), st2)
            | _ => .error (.stuck "ordering on bools", st2)
          | .char x, .char y =>
            match op with
            | .eq => .ok (.bool (x == y), st2)
            | .ne => .ok (.bool (x != y), st2)
            | _ => .error (.stuck "ordering on chars", st2)
          | _, _ => .error (.stuck "cmp on non-scalars", st2)
    | .land a b =>
      match evalE p fuel a st with
      | .error e => .error e
      | .ok (.bool false, st1) => .ok (.bool false, st1)
      | .ok (.bool true, st1) => evalE p fuel b st1
      | .ok (_, st1) => .error (.stuck "&& on non-bool", st1)
    | .lor a b =>
      match evalE p fuel a st with
      | .error e => .error e
      | .ok (.bool true, st1) => .ok (.bool true, st1)
      | .ok (.bool false, st1) => evalE p fuel b st1
      | .ok (_, st1) => .error (.stuck "|| on non-bool", st1)
    | .lnot a =>
      match evalE p fuel a st with
      | .error e => .error e
      | .ok (.bool b, st1) => .ok (.bool (!b), st1)
      | .ok (_, st1) => .error (.stuck "! on non-bool", st1)
    | .neg t a =>
      match evalE p fuel a st with
      | .error e => .error e
      | .ok (.int z, st1) => .ok (.int (wrapTy t (-z)), st1)
      | .ok (_, st1) => .error (.stuck "- on non-int", st1)
    | .bnot t a =>
      match evalE p fuel a st with
      | .error e => .error e
      | .ok (.int z, st1) => .ok (.int (wrapTy t (-z - 1)), st1)
      | .ok (_, st1) => .error (.stuck "~ on non-int", st1)
    | .cast src dst a =>
      match evalE p fuel a st with
      | .error e => .error e
      | .ok (v, st1) =>
        match castVal src dst v with
        | some r => .ok (r, st1)
        | none => .error (.stuck "unsupported cast", st1)
    | .call f args =>
      match evalArgs p fuel args st with
      | .error e => .error e
      | .ok (vs, st1) =>
        match p.fns[f]? with
        | none => .error (.stuck s!"unknown function {f}", st1)
        | some fn =>
          if fn.params.length ≠ vs.length then .error (.stuck "arity", st1) else
          match execBlock p fuel fn.body (pushFrame st1 (fn.params.zip vs)) with
          | .error (flt, st2) => .error (flt, popFrame st2)
          | .ok (sig, st2) =>
            let st3 := popFrame st2
            match sig with
            | .ret v => .ok (v, st3)
            | .normal => .ok (.void, st3)
            | _ => .error (.stuck "break/continue escaped a function", st3)
    | .index a i =>
      match evalE p fuel a st with
      | .error e => .error e
      | .ok (va, st1) =>
        match evalE p fuel i st1 with
        | .error e => .error e
        | .ok (vi, st2) =>
          match va, vi with
          | .arr vs, .int k =>
            if k < 0 then .error (.stuck "negative index", st2) else
            match vs[k.toNat]? with
            | some v => .ok (v, st2)
            | none => .error (.indexOutOfBounds, st2)
          | .slice c len, .int k =>
            -- the run-time bounds check against the slice's length, before any access
            if k < 0 then .error (.stuck "negative index", st2) else
            if k.toNat < len then
              match loadCell st2 (c.push k.toNat) with
              | some v => .ok (v, st2)
              | none => .error (.stuck "slice into a dead frame", st2)
            else .error (.indexOutOfBounds, st2)
          | _, _ => .error (.stuck "index on non-array", st2)
    | .field a k =>
      match evalE p fuel a st with
      | .error e => .error e
      | .ok (.struct fs, st1) =>
        match fs[k]? with
        | some v => .ok (v, st1)
        | none => .error (.stuck "no such field", st1)
      | .ok (_, st1) => .error (.stuck "field of non-struct", st1)
    | .arrLit es =>
      match evalArgs p fuel es st with
      | .error e => .error e
      | .ok (vs, st1) => .ok (.arr vs, st1)
    | .structLit _ es =>
      match evalArgs p fuel es st with
      | .error e => .error e
      | .ok (vs, st1) => .ok (.struct vs, st1)
    | .nilE => .ok (.nil, st)
    | .someE a =>
      match evalE p fuel a st with
      | .error e => .error e
      | .ok (v, st1) => .ok (.some v, st1)
    | .unwrap a =>
      match evalE p fuel a st with
      | .error e => .error e
      | .ok (.some v, st1) => .ok (v, st1)
      | .ok (.nil, st1) => .error (.unwrapWrongVariant, st1)
      | .ok (_, st1) => .error (.stuck "unwrap of non-optional", st1)
    | .isSome a =>
      match evalE p fuel a st with
      | .error e => .error e
      | .ok (.some _, st1) => .ok (.bool true, st1)
      | .ok (.nil, st1) => .ok (.bool false, st1)
      | .ok (_, st1) => .error (.stuck "is_variant of non-optional", st1)
    | .variantLit k none => .ok (.variant k .void, st)
    | .variantLit k (some a) =>
      match evalE p fuel a st with
      | .error e => .error e
      | .ok (v, st1) => .ok (.variant k v, st1)
    | .isVariant k a =>
      match evalE p fuel a st with
      | .error e => .error e
      | .ok (.variant k' _, st1) => .ok (.bool (k == k'), st1)
      | .ok (_, st1) => .error (.stuck "is_variant of non-enum", st1)
    | .unwrapVariant k a =>
      match evalE p fuel a st with
      | .error e => .error e
      | .ok (.variant k' v, st1) => if k = k' then .ok (v, st1) else .error (.unwrapWrongVariant, st1)
      | .ok (_, st1) => .error (.stuck "unwrap of non-enum", st1)
    | .euLit isOk a =>
      match evalE p fuel a st with
      | .error e => .error e
      | .ok (v, st1) => .ok (.eu isOk v, st1)
    | .euIsOk a =>
      match evalE p fuel a st with
      | .error e => .error e
      | .ok (.eu b _, st1) => .ok (.bool b, st1)
      | .ok (_, st1) => .error (.stuck "is_variant of non-error-union", st1)
    | .euUnwrap isOk a =>
      match evalE p fuel a st with
      | .error e => .error e
      | .ok (.eu b v, st1) => if b = isOk then .ok (v, st1) else .error (.unwrapWrongVariant, st1)
      | .ok (_, st1) => .error (.stuck "unwrap of non-error-union", st1)
    | .tryE a =>
      match evalE p fuel a st with
      | .error e => .error e
      | .ok (.some v, st1) => .ok (v, st1)
      | .ok (.nil, st1) => .error (.propagate .nil, st1)
      | .ok (.eu true v, st1) => .ok (v, st1)
      | .ok (.eu false v, st1) => .error (.propagate (.eu false v), st1)
      | .ok (_, st1) => .error (.stuck ".try on a non-sum value", st1)
    | .ite c a b =>
      match evalE p fuel c st with
      | .error e => .error e
      | .ok (.bool true, st1) => evalE p fuel a st1
      | .ok (.bool false, st1) => evalE p fuel b st1
      | .ok (_, st1) => .error (.stuck "if on non-bool", st1)
    | .addrOf a =>
      match toPlace? a with
      | none => .error (.stuck "address of a non-place", st)
      | some pl =>
        match resolve p fuel pl st with
        | .error e => .error e
        | .ok (c, st1) => .ok (.ptr c, st1)
    | .deref a =>
      match evalE p fuel a st with
      | .error e => .error e
      | .ok (.ptr c, st1) =>
        match loadCell st1 c with
        | some v => .ok (v, st1)
        | none => .error (.stuck "dereference of a pointer into a dead frame", st1)
      | .ok (_, st1) => .error (.stuck "dereference of a non-pointer", st1)
    | .sliceOf a =>
      match toPlace? a with
      | none => .error (.stuck "slice of a non-place", st)
      | some pl =>
        match resolve p fuel pl st with
        | .error e => .error e
        | .ok (c, st1) =>
          match loadCell st1 c with
          | some (.arr vs) => .ok (.slice c vs.length, st1)
          | _ => .error (.stuck "slice of a non-array", st1)
    | .len a =>
      match evalE p fuel a st with
      | .error e => .error e
      | .ok (.slice _ n, st1) => .ok (.int n, st1)
      | .ok (.arr vs, st1) => .ok (.int vs.length, st1)
      | .ok (_, st1) => .error (.stuck ".len of a non-array", st1)
    | .sliceToArr n a =>
      match evalE p fuel a st with
      | .error e => .error e
      | .ok (.slice c len, st1) =>
        if len ≠ n then .error (.stuck "slice to array of another length", st1) else
        match loadCell st1 c with
        | some (.arr vs) => .ok (.arr vs, st1)
        | _ => .error (.stuck "slice into a dead frame", st1)
      | .ok (_, st1) => .error (.stuck "slice-to-array cast of a non-slice", st1)
    | .clit n => .ok (.char n, st)
    | .fnRef f => .ok (.fn f, st)
    | .callV c args =>
      match evalE p fuel c st with
      | .error e => .error e
      | .ok (.fn f, st1) => evalE p fuel (.call f args) st1
      | .ok (_, st1) => .error (.stuck "call of a non-function value", st1)

def evalArgs (p : Program) : Nat → List Expr → St → Except (Fault × St) (List Val × St)
  | 0, _, st => .error (.outOfFuel, st)
  | _ + 1, [], st => .ok ([], st)
  | fuel + 1, e :: es, st =>
    match evalE p fuel e st with
    | .error e => .error e
    | .ok (v, st1) =>
      match evalArgs p fuel es st1 with
      | .error e => .error e
      | .ok (vs, st2) => .ok (v :: vs, st2)

/-- the cell a place denotes: index expressions are evaluated left to right and bounds-checked,
pointers and slices are followed. Nothing is read or written beyond that. -/
def resolve (p : Program) : Nat → Place → St → Except (Fault × St) (Cell × St)
  | 0, _, st => .error (.outOfFuel, st)
  | fuel + 1, pl, st =>
    match pl with
    | .var x => .ok (⟨st.fid, x, []⟩, st)
    | .deref e =>
      match evalE p fuel e st with
      | .error e => .error e
      | .ok (.ptr c, st1) => .ok (c, st1)
      | .ok (_, st1) => .error (.stuck "dereference of a non-pointer", st1)
    | .field q k =>
      match resolve p fuel q st with
      | .error e => .error e
      | .ok (c, st1) =>
        match loadCell st1 c with
        | some (.struct fs) =>
          if k < fs.length then .ok (c.push k, st1) else .error (.stuck "no such field", st1)
        | some _ => .error (.stuck "field of non-struct", st1)
        | none => .error (.stuck "field in a dead frame or an unbound variable", st1)
    | .index q i =>
      match resolve p fuel q st with
      | .error e => .error e
      | .ok (c, st1) =>
        match evalE p fuel i st1 with
        | .error e => .error e
        | .ok (.int k, st2) =>
          match indexCell c (loadCell st2 c) k with
          | .ok c' => .ok (c', st2)
          | .error flt => .error (flt, st2)
        | .ok (_, st2) => .error (.stuck "index is not an integer", st2)

/-- read a place -/
def readPlace (p : Program) : Nat → Place → St → Except (Fault × St) (Val × St)
  | 0, _, st => .error (.outOfFuel, st)
  | fuel + 1, pl, st =>
    match resolve p fuel pl st with
    | .error e => .error e
    | .ok (c, st1) =>
      match loadCell st1 c with
      | some v => .ok (v, st1)
      | none => .error (.stuck "read of a dead frame or an unbound variable", st1)

/-- a statement; a `.try` that met an error / nil inside it becomes a `return` of that value -/
def execS (p : Program) : Nat → Stmt → List Stmt → St → Except (Fault × St) (Sig × List Stmt × St)
  | 0, _, _, st => .error (.outOfFuel, st)
  | fuel + 1, s, regs, st =>
    match execSCore p fuel s regs st with
    | .error (.propagate v, st') => .ok (.ret v, regs, st')
    | r => r

/-- statements; `regs` = defers registered so far in the enclosing block activation -/
def execSCore (p : Program) : Nat → Stmt → List Stmt → St → Except (Fault × St) (Sig × List Stmt × St)
  | 0, _, _, st => .error (.outOfFuel, st)
  | fuel + 1, s, regs, st =>
    match s with
    | .letS x e =>
      match evalE p fuel e st with
      | .error e => .error e
      | .ok (v, st1) => .ok (.normal, regs, { st1 with env := setVar x v st1.env })
    | .assign pl e =>
      -- the destination cell is determined first (its index expressions are evaluated and
      -- bounds-checked), then the value is computed, then exactly that cell is replaced
      match resolve p fuel pl st with
      | .error e => .error e
      | .ok (c, st1) =>
        match evalE p fuel e st1 with
        | .error e => .error e
        | .ok (v, st2) =>
          match storeCell st2 c v with
          | some st3 => .ok (.normal, regs, st3)
          | none => .error (.stuck "store into a dead frame or an unbound variable", st2)
    | .opAssign op t pl e =>
      match resolve p fuel pl st with
      | .error e => .error e
      | .ok (c, st1) =>
        match loadCell st1 c with
        | none => .error (.stuck "read of a dead frame or an unbound variable", st1)
        | some cur =>
          match evalE p fuel e st1 with
          | .error e => .error e
          | .ok (v, st2) =>
            match cur, v with
            | .int a, .int b =>
              match binInt op t a b with
              | none => .error (.stuck "division by zero or shift out of range", st2)
              | some r =>
                match storeCell st2 c (.int r) with
                | some st3 => .ok (.normal, regs, st3)
                | none => .error (.stuck "store into a dead frame or an unbound variable", st2)
            | _, _ => .error (.stuck "compound assignment on non-ints", st2)
    | .print e =>
      match evalE p fuel e st with
      | .error e => .error e
      | .ok (v, st1) => .ok (.normal, regs, { st1 with out := showVal v :: st1.out })
    | .ifS c a b =>
      match evalE p fuel c st with
      | .error e => .error e
      | .ok (.bool true, st1) =>
        match execBlock p fuel a st1 with
        | .error e => .error e
        | .ok (sig, st2) => .ok (sig, regs, st2)
      | .ok (.bool false, st1) =>
        match execBlock p fuel b st1 with
        | .error e => .error e
        | .ok (sig, st2) => .ok (sig, regs, st2)
      | .ok (_, st1) => .error (.stuck "if on non-bool", st1)
    | .whileS l c body =>
      match evalE p fuel c st with
      | .error e => .error e
      | .ok (.bool false, st1) => .ok (.normal, regs, st1)
      | .ok (.bool true, st1) =>
        match execBlock p fuel body st1 with
        | .error e => .error e
        | .ok (sig, st2) =>
          match sig with
          | .normal => execS p fuel (.whileS l c body) regs st2
          | .cont l' => if l' = l then execS p fuel (.whileS l c body) regs st2 else .ok (sig, regs, st2)
          | .brk l' => if l' = l then .ok (.normal, regs, st2) else .ok (sig, regs, st2)
          | .ret _ => .ok (sig, regs, st2)
      | .ok (_, st1) => .error (.stuck "while on non-bool", st1)
    | .block label body =>
      match execBlock p fuel body st with
      | .error e => .error e
      | .ok (sig, st1) =>
        match sig, label with
        | .brk l, some l' => if l = l' then .ok (.normal, regs, st1) else .ok (sig, regs, st1)
        | _, _ => .ok (sig, regs, st1)
    | .brk l => .ok (.brk l, regs, st)
    | .cont l => .ok (.cont l, regs, st)
    | .ret none => .ok (.ret .void, regs, st)
    | .ret (some e) =>
      match evalE p fuel e st with
      | .error e => .error e
      | .ok (v, st1) => .ok (.ret v, regs, st1)
    | .deferS d => .ok (.normal, d :: regs, st)
    | .exprS e =>
      match evalE p fuel e st with
      | .error e => .error e
      | .ok (_, st1) => .ok (.normal, regs, st1)
    | .switchS scrut arg arms dflt =>
      match evalE p fuel scrut st with
      | .error e => .error e
      | .ok (v, st1) =>
        let sel : Option (Nat × Val) := match v with
          | .variant k pl => some (k, pl)
          | .nil => some (0, .nil)
          | .some pl => some (1, pl)
          | .eu false e => some (0, e)
          | .eu true o => some (1, o)
          | _ => none
        match sel with
        | none => .error (.stuck "switch on a non-sum value", st1)
        | some (k, pl) =>
          match arms.find? (fun a => a.1 == k), dflt with
          | some (_, body), _ =>
            let st2 := match arg with
              | some x => { st1 with env := setVar x pl st1.env }
              | none => st1
            match execBlock p fuel body st2 with
            | .error e => .error e
            | .ok (sig, st3) => .ok (sig, regs, st3)
          | none, some body =>
            let st2 := match arg with
              | some x => { st1 with env := setVar x v st1.env }
              | none => st1
            match execBlock p fuel body st2 with
            | .error e => .error e
            | .ok (sig, st3) => .ok (sig, regs, st3)
          | none, none => .error (.stuck "switch does not cover the variant", st1)

def execStmts (p : Program) : Nat → List Stmt → List Stmt → St → Except (Fault × St) (Sig × List Stmt × St)
  | 0, _, _, st => .error (.outOfFuel, st)
  | _ + 1, [], regs, st => .ok (.normal, regs, st)
  | fuel + 1, s :: rest, regs, st =>
    match execS p fuel s regs st with
    | .error e => .error e
    | .ok (.normal, regs', st') => execStmts p fuel rest regs' st'
    | .ok (sig, regs', st') => .ok (sig, regs', st')

/-- run deferred statements, newest first -/
def runDefers (p : Program) : Nat → List Stmt → St → Except (Fault × St) (Unit × St)
  | 0, _, st => .error (.outOfFuel, st)
  | _ + 1, [], st => .ok ((), st)
  | fuel + 1, d :: rest, st =>
    match execS p fuel d [] st with
    | .error e => .error e
    | .ok (_, _, st') => runDefers p fuel rest st'

/-- a block activation: body, then — however it was left — its defers, newest first -/
def execBlock (p : Program) : Nat → List Stmt → St → Except (Fault × St) (Sig × St)
  | 0, _, st => .error (.outOfFuel, st)
  | fuel + 1, body, st =>
    match execStmts p fuel body [] st with
    | .error e => .error e
    | .ok (sig, regs, st') =>
      match runDefers p fuel regs st' with
      | .error e => .error e
      | .ok (_, st'') => .ok (sig, st'')
end

/-- **exit status rule**: main's integer result cast to `usize`, of which the OS keeps the
low 8 bits; 0 for a `void` main; the defined runtime faults print a message and exit 1. -/
def exitStatus : Val → Nat
  | .int z => (wrap false 64 z).toNat % 256
  | _ => 0

/-- the initial state: `main` runs in frame 0 -/
def St.init : St := { fid := 0, env := [], stack := [], next := 1, out := [] }

def run (p : Program) (fuel : Nat) : Outcome :=
  match p.fns[0]? with
  | none => ⟨[], "stuck=no main"⟩
  | some main =>
    match execBlock p fuel main.body St.init with
    | .ok (sig, st) =>
      let v := match sig with
        | .ret v => v
        | _ => Val.void
      ⟨st.out.reverse, s!"exit={exitStatus v}"⟩
    | .error (.indexOutOfBounds, st) => ⟨st.out.reverse, "fault=index"⟩
    | .error (.unwrapWrongVariant, st) => ⟨st.out.reverse, "fault=unwrap"⟩
    | .error (.outOfFuel, st) => ⟨st.out.reverse, "out-of-fuel"⟩
    | .error (.stuck why, st) => ⟨st.out.reverse, s!"stuck={why}"⟩
    | .error (.propagate _, st) => ⟨st.out.reverse, "stuck=.try escaped main"⟩

end CapyV.CoreMem
