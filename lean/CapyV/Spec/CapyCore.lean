/-
`CapyCore` — the reference semantics used by the end-to-end properties (C01 and the
families that reuse it). A big-step, fuel-bounded interpreter for a fragment of Capy:
fixed-width integers, bool, locals, assignment and compound assignment, blocks with
`defer`, `if`/`else`, `while`, labelled blocks, `break`/`continue`/`return`, functions and
calls (arguments and aggregates by value), arrays with bounds faults, structs, optionals
with `#unwrap`, casts, `core.println` of scalars, and the exit status rule.

It is written from the README and the property statements, not from the compiler: it is
the *oracle*. Identifiers are numbers (the generator makes them unique per function, so
shadowing never matters here; name resolution is property C05's business).
-/
namespace CapyV.Core

/-- scalar and aggregate types of the fragment -/
inductive Ty where
  | int (signed : Bool) (bits : Nat)
  | bool
  | void
  | arr (n : Nat) (elem : Ty)
  | opt (elem : Ty)
  | struct (id : Nat)
  | enum (id : Nat)
  | errUnion (err ok : Ty)
  deriving DecidableEq, Repr, Inhabited

inductive Val where
  | int (z : Int)
  | bool (b : Bool)
  | void
  | arr (vs : List Val)
  | nil
  | some (v : Val)
  | struct (fields : List Val)
  /-- enum value: variant index and payload (`void` for payload-less variants) -/
  | variant (k : Nat) (payload : Val)
  /-- error union: `isOk` and the error / success value -/
  | eu (isOk : Bool) (v : Val)
  deriving Repr, Inhabited

inductive BinOp where
  | add | sub | mul | div | rem | band | bor | bxor | shl | shr
  deriving DecidableEq, Repr

inductive CmpOp where
  | eq | ne | lt | le | gt | ge
  deriving DecidableEq, Repr

inductive Expr where
  | lit (t : Ty) (z : Int)
  | blit (b : Bool)
  | var (x : Nat)
  | bin (op : BinOp) (t : Ty) (a b : Expr)        -- `t`: the operand/result integer type
  | cmp (op : CmpOp) (t : Ty) (a b : Expr)        -- `t`: the operand type
  | land (a b : Expr) | lor (a b : Expr) | lnot (a : Expr)
  | neg (t : Ty) (a : Expr) | bnot (t : Ty) (a : Expr)
  | cast (src dst : Ty) (a : Expr)
  | call (f : Nat) (args : List Expr)
  | index (a : Expr) (i : Expr)
  | field (a : Expr) (k : Nat)
  | arrLit (elems : List Expr)
  | structLit (id : Nat) (fields : List Expr)
  | nilE
  | someE (a : Expr)                               -- implicit `T → ?T`
  | unwrap (a : Expr)                              -- `#unwrap(a)`
  | isSome (a : Expr)                              -- `#is_variant(a, T)`
  | ite (c a b : Expr)                             -- `if c { a } else { b }` as a value
  | variantLit (k : Nat) (payload : Option Expr)    -- `E.V.(payload)` / `E.V`
  | isVariant (k : Nat) (a : Expr)                 -- `#is_variant(a, E.V)`
  | unwrapVariant (k : Nat) (a : Expr)             -- `#unwrap(a, E.V)`
  | euLit (isOk : Bool) (a : Expr)                 -- implicit `T → E!T` / `E → E!T`
  | euIsOk (a : Expr)                              -- `#is_variant(a, T)`
  | euUnwrap (isOk : Bool) (a : Expr)              -- `#unwrap(a, T)` / `#unwrap(a, E)`
  | tryE (a : Expr)                                -- `a.try`: the error / nil leaves the function
  deriving Repr, Inhabited

/-- assignable places -/
inductive Place where
  | var (x : Nat)
  | index (p : Place) (i : Expr)
  | field (p : Place) (k : Nat)
  deriving Repr, Inhabited

inductive Stmt where
  | letS (x : Nat) (e : Expr)
  | assign (p : Place) (e : Expr)
  | opAssign (op : BinOp) (t : Ty) (p : Place) (e : Expr)
  | print (e : Expr)
  | ifS (c : Expr) (thenB : List Stmt) (elseB : List Stmt)
  | whileS (label : Nat) (c : Expr) (body : List Stmt)
  | block (label : Option Nat) (body : List Stmt)
  | brk (label : Nat)
  | cont (label : Nat)
  | ret (e : Option Expr)
  | deferS (s : Stmt)
  | exprS (e : Expr)
  /-- `switch arg in scrut { .Vk => {…}, …, _ => {…} }` over an enum (`arms` keyed by variant
  index), an optional (0 = nil, 1 = payload) or an error union (0 = error, 1 = ok) -/
  | switchS (scrut : Expr) (arg : Option Nat) (arms : List (Nat × List Stmt)) (default : Option (List Stmt))
  deriving Repr, Inhabited

structure Fn where
  params : List Nat
  retTy : Ty
  body : List Stmt
  deriving Repr, Inhabited

structure Program where
  fns : List Fn            -- `fns[0]` is `main`
  deriving Repr, Inhabited

/-! ### integers -/

/-- two's-complement reduction of `z` into the range of `int signed bits` -/
def wrap (signed : Bool) (bits : Nat) (z : Int) : Int :=
  let m : Int := (2 : Int) ^ bits
  let r := z % m                       -- 0 ≤ r < m (`Int.emod`)
  if signed && r ≥ m / 2 then r - m else r

def wrapTy : Ty → Int → Int
  | .int s b, z => wrap s b z
  | _, z => z

def tyBits : Ty → Nat
  | .int _ b => b
  | _ => 0

def tySigned : Ty → Bool
  | .int s _ => s
  | _ => false

/-- `Int` division truncating toward zero and its remainder (`Int.tdiv`/`Int.tmod`) -/
def binInt (op : BinOp) (t : Ty) (a b : Int) : Option Int :=
  let bits := tyBits t
  -- the operand's unsigned bit pattern, for the bitwise operators
  let ua := wrap false bits a
  let ub := wrap false bits b
  match op with
  | .add => some (wrapTy t (a + b))
  | .sub => some (wrapTy t (a - b))
  | .mul => some (wrapTy t (a * b))
  | .div => if b = 0 then none else some (wrapTy t (Int.tdiv a b))
  | .rem => if b = 0 then none else some (wrapTy t (Int.tmod a b))
  | .band => some (wrapTy t (Int.ofNat (ua.toNat &&& ub.toNat)))
  | .bor => some (wrapTy t (Int.ofNat (ua.toNat ||| ub.toNat)))
  | .bxor => some (wrapTy t (Int.ofNat (ua.toNat ^^^ ub.toNat)))
  | .shl => if b < 0 ∨ b ≥ bits then none else some (wrapTy t (a * (2 : Int) ^ b.toNat))
  | .shr => if b < 0 ∨ b ≥ bits then none else some (wrapTy t (a / (2 : Int) ^ b.toNat))  -- floor: arithmetic for signed, logical for unsigned (a ≥ 0)

def cmpInt (op : CmpOp) (a b : Int) : Bool :=
  match op with
  | .eq => a == b | .ne => a != b | .lt => a < b | .le => a ≤ b | .gt => a > b | .ge => a ≥ b

/-! ### machine state -/

inductive Sig where
  | normal
  | brk (l : Nat)
  | cont (l : Nat)
  | ret (v : Val)
  deriving Repr, Inhabited

/-- why a run stopped abnormally -/
inductive Fault where
  | indexOutOfBounds
  | unwrapWrongVariant
  | outOfFuel
  /-- the program left the fragment's rules (ill-typed, unknown variable, division by zero …):
  the generator never produces these; a run that hits one is not compared -/
  | stuck (why : String)
  /-- not a fault: `.try` met an error / nil; the value leaves the enclosing function, whose
  call site turns it into that function's result (defers of the blocks left do run) -/
  | propagate (v : Val)
  deriving Repr, Inhabited

structure St where
  env : List (Nat × Val)          -- current function activation
  out : List String               -- printed lines, newest first
  deriving Repr, Inhabited

abbrev M (α : Type) := St → Except (Fault × St) (α × St)

def lookup (x : Nat) : List (Nat × Val) → Option Val
  | [] => none
  | (y, v) :: r => if x = y then some v else lookup x r

def setVar (x : Nat) (v : Val) : List (Nat × Val) → List (Nat × Val)
  | [] => [(x, v)]
  | (y, w) :: r => if x = y then (x, v) :: r else (y, w) :: setVar x v r

def showVal : Val → String
  | .int z => toString z
  | .bool b => if b then "true" else "false"
  | _ => "<aggregate>"

def listSet {α} : List α → Nat → α → List α
  | [], _, _ => []
  | _ :: r, 0, v => v :: r
  | a :: r, n + 1, v => a :: listSet r n v

/-- default ("zero") value of a type; struct field types come from the table -/
def castVal (src dst : Ty) (v : Val) : Option Val :=
  match src, dst, v with
  | .int _ _, .int s b, .int z => some (.int (wrap s b z))
  | .bool, .int _ _, .bool b => some (.int (if b then 1 else 0))
  | .int _ _, .bool, .int z => some (.bool (z != 0))
  | .bool, .bool, v => some v
  | _, _, _ => none

mutual
/-- expression evaluation, left to right -/
def evalE (p : Program) : Nat → Expr → St → Except (Fault × St) (Val × St)
  | 0, _, st => .error (.outOfFuel, st)
  | fuel + 1, e, st =>
    match e with
    | .lit t z => .ok (.int (wrapTy t z), st)
    | .blit b => .ok (.bool b, st)
    | .var x =>
      match lookup x st.env with
      | some v => .ok (v, st)
      | none => .error (.stuck s!"unbound variable {x}", st)
    | .bin op t a b =>
      match evalE p fuel a st with
      | .error e => .error e
      | .ok (va, st1) =>
        match evalE p fuel b st1 with
        | .error e => .error e
        | .ok (vb, st2) =>
          match va, vb with
          | .int x, .int y =>
            match binInt op t x y with
            | some r => .ok (.int r, st2)
            | none => .error (.stuck "division by zero or shift out of range", st2)
          | _, _ => .error (.stuck "bin on non-ints", st2)
    | .cmp op _ a b =>
      match evalE p fuel a st with
      | .error e => .error e
      | .ok (va, st1) =>
        match evalE p fuel b st1 with
        | .error e => .error e
        | .ok (vb, st2) =>
          match va, vb with
          | .int x, .int y => .ok (.bool (cmpInt op x y), st2)
          | .bool x, .bool y =>
            match op with
            | .eq => .ok (.bool (x == y), st2)
            | .ne => .ok (.bool (x != y), st2)
            | _ => .error (.stuck "ordering on bools", st2)
          | _, _ => .error (.stuck "cmp on non-scalars", st2)
    | .land a b =>
      match evalE p fuel a st with
      | .error e => .error e
      | .ok (.bool false, st1) => .ok (.bool false, st1)
      | .ok (.bool true, st1) => evalE p fuel b st1
      | .ok (_, st1) => .error (.stuck "&& on non-bool", st1)
    | .lor a b =>
      match evalE p fuel a st with
      | .error e => .error e
      | .ok (.bool true, st1) => .ok (.bool true, st1)
      | .ok (.bool false, st1) => evalE p fuel b st1
      | .ok (_, st1) => .error (.stuck "|| on non-bool", st1)
    | .lnot a =>
      match evalE p fuel a st with
      | .error e => .error e
      | .ok (.bool b, st1) => .ok (.bool (!b), st1)
      | .ok (_, st1) => .error (.stuck "! on non-bool", st1)
    | .neg t a =>
      match evalE p fuel a st with
      | .error e => .error e
      | .ok (.int z, st1) => .ok (.int (wrapTy t (-z)), st1)
      | .ok (_, st1) => .error (.stuck "- on non-int", st1)
    | .bnot t a =>
      match evalE p fuel a st with
      | .error e => .error e
      | .ok (.int z, st1) => .ok (.int (wrapTy t (-z - 1)), st1)
      | .ok (_, st1) => .error (.stuck "~ on non-int", st1)
    | .cast src dst a =>
      match evalE p fuel a st with
      | .error e => .error e
      | .ok (v, st1) =>
        match castVal src dst v with
        | some r => .ok (r, st1)
        | none => .error (.stuck "unsupported cast", st1)
    | .call f args =>
      match evalArgs p fuel args st with
      | .error e => .error e
      | .ok (vs, st1) =>
        match p.fns[f]? with
        | none => .error (.stuck s!"unknown function {f}", st1)
        | some fn =>
          if fn.params.length ≠ vs.length then .error (.stuck "arity", st1) else
          let callee : St := { env := fn.params.zip vs, out := st1.out }
          match execBlock p fuel fn.body callee with
          | .error (flt, st2) => .error (flt, { env := st1.env, out := st2.out })
          | .ok (sig, st2) =>
            let st3 : St := { env := st1.env, out := st2.out }
            match sig with
            | .ret v => .ok (v, st3)
            | .normal => .ok (.void, st3)
            | _ => .error (.stuck "break/continue escaped a function", st3)
    | .index a i =>
      match evalE p fuel a st with
      | .error e => .error e
      | .ok (va, st1) =>
        match evalE p fuel i st1 with
        | .error e => .error e
        | .ok (vi, st2) =>
          match va, vi with
          | .arr vs, .int k =>
            if k < 0 then .error (.stuck "negative index", st2) else
            match vs[k.toNat]? with
            | some v => .ok (v, st2)
            | none => .error (.indexOutOfBounds, st2)
          | _, _ => .error (.stuck "index on non-array", st2)
    | .field a k =>
      match evalE p fuel a st with
      | .error e => .error e
      | .ok (.struct fs, st1) =>
        match fs[k]? with
        | some v => .ok (v, st1)
        | none => .error (.stuck "no such field", st1)
      | .ok (_, st1) => .error (.stuck "field of non-struct", st1)
    | .arrLit es =>
      match evalArgs p fuel es st with
      | .error e => .error e
      | .ok (vs, st1) => .ok (.arr vs, st1)
    | .structLit _ es =>
      match evalArgs p fuel es st with
      | .error e => .error e
      | .ok (vs, st1) => .ok (.struct vs, st1)
    | .nilE => .ok (.nil, st)
    | .someE a =>
      match evalE p fuel a st with
      | .error e => .error e
      | .ok (v, st1) => .ok (.some v, st1)
    | .unwrap a =>
      match evalE p fuel a st with
      | .error e => .error e
      | .ok (.some v, st1) => .ok (v, st1)
      | .ok (.nil, st1) => .error (.unwrapWrongVariant, st1)
      | .ok (_, st1) => .error (.stuck "unwrap of non-optional", st1)
    | .isSome a =>
      match evalE p fuel a st with
      | .error e => .error e
      | .ok (.some _, st1) => .ok (.bool true, st1)
      | .ok (.nil, st1) => .ok (.bool false, st1)
      | .ok (_, st1) => .error (.stuck "is_variant of non-optional", st1)
    | .variantLit k none => .ok (.variant k .void, st)
    | .variantLit k (some a) =>
      match evalE p fuel a st with
      | .error e => .error e
      | .ok (v, st1) => .ok (.variant k v, st1)
    | .isVariant k a =>
      match evalE p fuel a st with
      | .error e => .error e
      | .ok (.variant k' _, st1) => .ok (.bool (k == k'), st1)
      | .ok (_, st1) => .error (.stuck "is_variant of non-enum", st1)
    | .unwrapVariant k a =>
      match evalE p fuel a st with
      | .error e => .error e
      | .ok (.variant k' v, st1) => if k = k' then .ok (v, st1) else .error (.unwrapWrongVariant, st1)
      | .ok (_, st1) => .error (.stuck "unwrap of non-enum", st1)
    | .euLit isOk a =>
      match evalE p fuel a st with
      | .error e => .error e
      | .ok (v, st1) => .ok (.eu isOk v, st1)
    | .euIsOk a =>
      match evalE p fuel a st with
      | .error e => .error e
      | .ok (.eu b _, st1) => .ok (.bool b, st1)
      | .ok (_, st1) => .error (.stuck "is_variant of non-error-union", st1)
    | .euUnwrap isOk a =>
      match evalE p fuel a st with
      | .error e => .error e
      | .ok (.eu b v, st1) => if b = isOk then .ok (v, st1) else .error (.unwrapWrongVariant, st1)
      | .ok (_, st1) => .error (.stuck "unwrap of non-error-union", st1)
    | .tryE a =>
      match evalE p fuel a st with
      | .error e => .error e
      | .ok (.some v, st1) => .ok (v, st1)
      | .ok (.nil, st1) => .error (.propagate .nil, st1)
      | .ok (.eu true v, st1) => .ok (v, st1)
      | .ok (.eu false v, st1) => .error (.propagate (.eu false v), st1)
      | .ok (_, st1) => .error (.stuck ".try on a non-sum value", st1)
    | .ite c a b =>
      match evalE p fuel c st with
      | .error e => .error e
      | .ok (.bool true, st1) => evalE p fuel a st1
      | .ok (.bool false, st1) => evalE p fuel b st1
      | .ok (_, st1) => .error (.stuck "if on non-bool", st1)

def evalArgs (p : Program) : Nat → List Expr → St → Except (Fault × St) (List Val × St)
  | 0, _, st => .error (.outOfFuel, st)
  | _ + 1, [], st => .ok ([], st)
  | fuel + 1, e :: es, st =>
    match evalE p fuel e st with
    | .error e => .error e
    | .ok (v, st1) =>
      match evalArgs p fuel es st1 with
      | .error e => .error e
      | .ok (vs, st2) => .ok (v :: vs, st2)

/-- read a place -/
def readPlace (p : Program) : Nat → Place → St → Except (Fault × St) (Val × St)
  | 0, _, st => .error (.outOfFuel, st)
  | fuel + 1, pl, st =>
    match pl with
    | .var x =>
      match lookup x st.env with
      | some v => .ok (v, st)
      | none => .error (.stuck s!"unbound variable {x}", st)
    | .index q i =>
      match readPlace p fuel q st with
      | .error e => .error e
      | .ok (vq, st1) =>
        match evalE p fuel i st1 with
        | .error e => .error e
        | .ok (vi, st2) =>
          match vq, vi with
          | .arr vs, .int k =>
            if k < 0 then .error (.stuck "negative index", st2) else
            match vs[k.toNat]? with
            | some v => .ok (v, st2)
            | none => .error (.indexOutOfBounds, st2)
          | _, _ => .error (.stuck "index on non-array", st2)
    | .field q k =>
      match readPlace p fuel q st with
      | .error e => .error e
      | .ok (.struct fs, st1) =>
        match fs[k]? with
        | some v => .ok (v, st1)
        | none => .error (.stuck "no such field", st1)
      | .ok (_, st1) => .error (.stuck "field of non-struct", st1)

/-- write `v` at a place: the place's index expressions are evaluated (left to right, bounds
checked), then exactly that element/field is replaced — nothing else changes. -/
def writePlace (p : Program) : Nat → Place → Val → St → Except (Fault × St) (Unit × St)
  | 0, _, _, st => .error (.outOfFuel, st)
  | fuel + 1, pl, v, st =>
    match pl with
    | .var x => .ok ((), { st with env := setVar x v st.env })
    | .index q i =>
      match readPlace p fuel q st with
      | .error e => .error e
      | .ok (vq, st1) =>
        match evalE p fuel i st1 with
        | .error e => .error e
        | .ok (vi, st2) =>
          match vq, vi with
          | .arr vs, .int k =>
            if k < 0 then .error (.stuck "negative index", st2) else
            if k.toNat < vs.length then writePlace p fuel q (.arr (listSet vs k.toNat v)) st2
            else .error (.indexOutOfBounds, st2)
          | _, _ => .error (.stuck "index on non-array", st2)
    | .field q k =>
      match readPlace p fuel q st with
      | .error e => .error e
      | .ok (.struct fs, st1) =>
        if k < fs.length then writePlace p fuel q (.struct (listSet fs k v)) st1
        else .error (.stuck "no such field", st1)
      | .ok (_, st1) => .error (.stuck "field of non-struct", st1)

/-- a statement; a `.try` that met an error / nil inside it becomes a `return` of that value
(so that the defers of the blocks being left run, like for any other return) -/
def execS (p : Program) : Nat → Stmt → List Stmt → St → Except (Fault × St) (Sig × List Stmt × St)
  | 0, _, _, st => .error (.outOfFuel, st)
  | fuel + 1, s, regs, st =>
    match execSCore p fuel s regs st with
    | .error (.propagate v, st') => .ok (.ret v, regs, st')
    | r => r

/-- statements; `regs` = defers registered so far in the enclosing block activation -/
def execSCore (p : Program) : Nat → Stmt → List Stmt → St → Except (Fault × St) (Sig × List Stmt × St)
  | 0, _, _, st => .error (.outOfFuel, st)
  | fuel + 1, s, regs, st =>
    match s with
    | .letS x e =>
      match evalE p fuel e st with
      | .error e => .error e
      | .ok (v, st1) => .ok (.normal, regs, { st1 with env := setVar x v st1.env })
    | .assign pl e =>
      -- the value is computed first, then the destination
      match evalE p fuel e st with
      | .error e => .error e
      | .ok (v, st1) =>
        match writePlace p fuel pl v st1 with
        | .error e => .error e
        | .ok (_, st2) => .ok (.normal, regs, st2)
    | .opAssign op t pl e =>
      match readPlace p fuel pl st with
      | .error e => .error e
      | .ok (cur, st1) =>
        match evalE p fuel e st1 with
        | .error e => .error e
        | .ok (v, st2) =>
          match cur, v with
          | .int a, .int b =>
            match binInt op t a b with
            | none => .error (.stuck "division by zero or shift out of range", st2)
            | some r =>
              match writePlace p fuel pl (.int r) st2 with
              | .error e => .error e
              | .ok (_, st3) => .ok (.normal, regs, st3)
          | _, _ => .error (.stuck "compound assignment on non-ints", st2)
    | .print e =>
      match evalE p fuel e st with
      | .error e => .error e
      | .ok (v, st1) => .ok (.normal, regs, { st1 with out := showVal v :: st1.out })
    | .ifS c a b =>
      match evalE p fuel c st with
      | .error e => .error e
      | .ok (.bool true, st1) =>
        match execBlock p fuel a st1 with
        | .error e => .error e
        | .ok (sig, st2) => .ok (sig, regs, st2)
      | .ok (.bool false, st1) =>
        match execBlock p fuel b st1 with
        | .error e => .error e
        | .ok (sig, st2) => .ok (sig, regs, st2)
      | .ok (_, st1) => .error (.stuck "if on non-bool", st1)
    | .whileS l c body =>
      match evalE p fuel c st with
      | .error e => .error e
      | .ok (.bool false, st1) => .ok (.normal, regs, st1)
      | .ok (.bool true, st1) =>
        match execBlock p fuel body st1 with
        | .error e => .error e
        | .ok (sig, st2) =>
          match sig with
          | .normal => execS p fuel (.whileS l c body) regs st2
          | .cont l' => if l' = l then execS p fuel (.whileS l c body) regs st2 else .ok (sig, regs, st2)
          | .brk l' => if l' = l then .ok (.normal, regs, st2) else .ok (sig, regs, st2)
          | .ret _ => .ok (sig, regs, st2)
      | .ok (_, st1) => .error (.stuck "while on non-bool", st1)
    | .block label body =>
      match execBlock p fuel body st with
      | .error e => .error e
      | .ok (sig, st1) =>
        match sig, label with
        | .brk l, some l' => if l = l' then .ok (.normal, regs, st1) else .ok (sig, regs, st1)
        | _, _ => .ok (sig, regs, st1)
    | .brk l => .ok (.brk l, regs, st)
    | .cont l => .ok (.cont l, regs, st)
    | .ret none => .ok (.ret .void, regs, st)
    | .ret (some e) =>
      match evalE p fuel e st with
      | .error e => .error e
      | .ok (v, st1) => .ok (.ret v, regs, st1)
    | .deferS d => .ok (.normal, d :: regs, st)
    | .exprS e =>
      match evalE p fuel e st with
      | .error e => .error e
      | .ok (_, st1) => .ok (.normal, regs, st1)
    | .switchS scrut arg arms dflt =>
      match evalE p fuel scrut st with
      | .error e => .error e
      | .ok (v, st1) =>
        -- which variant is current, and its payload
        let sel : Option (Nat × Val) := match v with
          | .variant k pl => some (k, pl)
          | .nil => some (0, .nil)
          | .some pl => some (1, pl)
          | .eu false e => some (0, e)
          | .eu true o => some (1, o)
          | _ => none
        match sel with
        | none => .error (.stuck "switch on a non-sum value", st1)
        | some (k, pl) =>
          match arms.find? (fun a => a.1 == k), dflt with
          | some (_, body), _ =>
            -- the argument is bound to the variant's payload
            let st2 := match arg with
              | some x => { st1 with env := setVar x pl st1.env }
              | none => st1
            match execBlock p fuel body st2 with
            | .error e => .error e
            | .ok (sig, st3) => .ok (sig, regs, st3)
          | none, some body =>
            -- default arm: the argument is the whole value
            let st2 := match arg with
              | some x => { st1 with env := setVar x v st1.env }
              | none => st1
            match execBlock p fuel body st2 with
            | .error e => .error e
            | .ok (sig, st3) => .ok (sig, regs, st3)
          | none, none => .error (.stuck "switch does not cover the variant", st1)

def execStmts (p : Program) : Nat → List Stmt → List Stmt → St → Except (Fault × St) (Sig × List Stmt × St)
  | 0, _, _, st => .error (.outOfFuel, st)
  | _ + 1, [], regs, st => .ok (.normal, regs, st)
  | fuel + 1, s :: rest, regs, st =>
    match execS p fuel s regs st with
    | .error e => .error e
    | .ok (.normal, regs', st') => execStmts p fuel rest regs' st'
    | .ok (sig, regs', st') => .ok (sig, regs', st')

/-- run deferred statements, newest first (they are simple statements: prints / calls) -/
def runDefers (p : Program) : Nat → List Stmt → St → Except (Fault × St) (Unit × St)
  | 0, _, st => .error (.outOfFuel, st)
  | _ + 1, [], st => .ok ((), st)
  | fuel + 1, d :: rest, st =>
    match execS p fuel d [] st with
    | .error e => .error e
    | .ok (_, _, st') => runDefers p fuel rest st'

/-- a block activation: body, then — however it was left — its defers, newest first -/
def execBlock (p : Program) : Nat → List Stmt → St → Except (Fault × St) (Sig × St)
  | 0, _, st => .error (.outOfFuel, st)
  | fuel + 1, body, st =>
    match execStmts p fuel body [] st with
    | .error e => .error e
    | .ok (sig, regs, st') =>
      match runDefers p fuel regs st' with
      | .error e => .error e
      | .ok (_, st'') => .ok (sig, st'')
end

/-- observable result of running a program -/
structure Outcome where
  lines : List String
  /-- `exit=<n>`, `fault=index`, `fault=unwrap`, `out-of-fuel`, `stuck=<why>` -/
  status : String
  deriving Repr, DecidableEq

/-- **exit status rule**: main's integer result cast to `usize`, of which the OS keeps the
low 8 bits; 0 for a `void` main; the defined runtime faults print a message and exit 1. -/
def exitStatus : Val → Nat
  | .int z => (wrap false 64 z).toNat % 256
  | _ => 0

def run (p : Program) (fuel : Nat) : Outcome :=
  match p.fns[0]? with
  | none => ⟨[], "stuck=no main"⟩
  | some main =>
    match execBlock p fuel main.body { env := [], out := [] } with
    | .ok (sig, st) =>
      let v := match sig with
        | .ret v => v
        | _ => Val.void
      ⟨st.out.reverse, s!"exit={exitStatus v}"⟩
    | .error (.indexOutOfBounds, st) => ⟨st.out.reverse, "fault=index"⟩
    | .error (.unwrapWrongVariant, st) => ⟨st.out.reverse, "fault=unwrap"⟩
    | .error (.outOfFuel, st) => ⟨st.out.reverse, "out-of-fuel"⟩
    | .error (.stuck why, st) => ⟨st.out.reverse, s!"stuck={why}"⟩
    | .error (.propagate _, st) => ⟨st.out.reverse, "stuck=.try escaped main"⟩

end CapyV.Core
