import CapyV.Model.Lexer
/-!
# What C22 demands (declarative), and an executable checker for it

`Matches` is the textbook denotation of a regular expression (no derivatives).
`KindAgrees k w` says when text `w` is a legitimate text for a token of kind `k`.
`Tiles text toks` says that the token list is a lossless cover of the text.
`checkLex` decides `Tiles` for a *given* token list (it is run on the implementation's own
output); `Proofs/Lexer.lean` proves it sound.
-/
namespace CapyV.Lexer
open CapyV CapyV.Tokens

/-- `w ∈ L(r)` -/
inductive Matches : Regex → List Char → Prop where
  | eps : Matches .eps []
  | cls {neg rs c} : Regex.clsMatch neg rs c = true → Matches (.cls neg rs) [c]
  | cat {a b u v} : Matches a u → Matches b v → Matches (.cat a b) (u ++ v)
  | altL {a b u} : Matches a u → Matches (.alt a b) u
  | altR {a b u} : Matches b u → Matches (.alt a b) u
  | starNil {a} : Matches (.star a) []
  | starCons {a u v} : Matches a u → Matches (.star a) v → Matches (.star a) (u ++ v)
  | plus {a u v} : Matches a u → Matches (.star a) v → Matches (.plus a) (u ++ v)
  | optNone {a} : Matches (.opt a) []
  | optSome {a u} : Matches a u → Matches (.opt a) u

/-- the text is in the language of the rule -/
def PatMatches (p : Pat) (w : List Char) : Prop := Matches p.regex w

/-- Some rule of `tokenizer.txt` declared for `k` (same position in the enum) matches the
whole text, and no *more specific* rule matches it too (a keyword is not an identifier,
`true` is not an identifier); "more specific" is logos' priority. -/
def RuleAgrees (k : TokenKind) (w : List Char) : Prop :=
  ∃ d p, (d, p) ∈ rules ∧ TokenKind.ofNat? d = some k ∧ PatMatches p w ∧
    ∀ d' p', (d', p') ∈ rules → PatMatches p' w → p'.prio ≤ p.prio

/-- **Kind agrees with text.**
* quote / escape / contents / comment pieces: the fixed shapes below;
* `Error`: a non-empty text that no rule of the table matches;
* every other kind `k`: `RuleAgrees`. -/
def KindAgrees (k : TokenKind) (w : List Char) : Prop :=
  match k with
  | .SingleQuote => w = ['\'']
  | .DoubleQuote => w = ['"']
  | .Escape => ∃ c, w = ['\\', c] ∧ c ≠ '\n'
  | .StringContents => w ≠ [] ∧ '\\' ∉ w ∧ '\n' ∉ w ∧ ('"' ∉ w ∨ '\'' ∉ w)
  | .CommentLeader => w = ['/', '/']
  | .CommentContents => '\n' ∉ w
  | .Error => w ≠ [] ∧ ∀ d p, (d, p) ∈ rules → ¬ PatMatches p w
  | k => RuleAgrees k w

/-- byte offsets of the piece boundaries, starting at `off` (one more entry than pieces) -/
def offsetsFrom (off : Nat) : List (TokenKind × List Char) → List Nat
  | [] => [off]
  | p :: ps => off :: offsetsFrom (off + utf8Len p.2) ps

/-- **Lossless cover.** The text splits into consecutive pieces (lists of scalar values, so
every boundary is a character boundary), token `i` has the kind of piece `i` and starts at
the UTF-8 length of everything before piece `i`, the extra last entry of `starts` is the
UTF-8 length of the text, and every piece is a legitimate text for its kind. -/
def Tiles (text : List Char) (t : Tokens) : Prop :=
  ∃ pieces : List (TokenKind × List Char),
    text = pieces.flatMap (·.2) ∧
    t.kinds = pieces.map (·.1) ∧
    t.starts = offsetsFrom 0 pieces ∧
    ∀ p ∈ pieces, KindAgrees p.1 p.2

/-! ## executable checker -/

/-- split off the prefix of exactly `n` UTF-8 bytes (fails inside a scalar value) -/
def takeBytes : List Char → Nat → Option (List Char × List Char)
  | s, 0 => some ([], s)
  | [], _ + 1 => none
  | c :: cs, n + 1 =>
    if c.utf8Size ≤ n + 1 then
      match takeBytes cs (n + 1 - c.utf8Size) with
      | some (a, b) => some (c :: a, b)
      | none => none
    else none

def patMatch (p : Pat) (w : List Char) : Bool := Regex.rmatch p.regex w

def ruleAgreesB (k : TokenKind) (w : List Char) : Bool :=
  rules.any fun dp =>
    TokenKind.ofNat? dp.1 == some k && patMatch dp.2 w &&
      rules.all fun dp' => !patMatch dp'.2 w || decide (dp'.2.prio ≤ dp.2.prio)

def kindOk (k : TokenKind) (w : List Char) : Bool :=
  match k with
  | .SingleQuote => w == ['\'']
  | .DoubleQuote => w == ['"']
  | .Escape => match w with
    | [a, c] => a == '\\' && c != '\n'
    | _ => false
  | .StringContents => !w.isEmpty && !w.contains '\\' && !w.contains '\n' &&
      (!w.contains '"' || !w.contains '\'')
  | .CommentLeader => w == ['/', '/']
  | .CommentContents => !w.contains '\n'
  | .Error => !w.isEmpty && rules.all fun dp => !patMatch dp.2 w
  | k => ruleAgreesB k w

/-- label of the first failed clause, for triage -/
inductive CheckResult where
  | ok
  | fail (label : String) (tokenIdx : Nat)
  deriving Repr, DecidableEq

/-- walk the tokens: `cur` = byte offset reached, `ends` = the remaining entries of `starts` -/
def checkFrom : List Char → Nat → Nat → List TokenKind → List Nat → CheckResult
  | s, _, i, [], [] => if s.isEmpty then .ok else .fail "end-not-text-len" i
  | s, cur, i, k :: ks, e :: es =>
    if e < cur then .fail "starts-decrease" i
    else
      match takeBytes s (e - cur) with
      | none => .fail "boundary-not-on-char-or-past-end" i
      | some (piece, rest) =>
        if kindOk k piece then checkFrom rest e (i + 1) ks es
        else .fail ("kind-disagrees:" ++ k.toString) i
  | _, _, i, _, _ => .fail "kinds-starts-length-mismatch" i

def checkLex (text : List Char) (t : Tokens) : CheckResult :=
  match t.starts with
  | [] => .fail "kinds-starts-length-mismatch" 0
  | s0 :: ends =>
    if s0 ≠ 0 then .fail "first-start-not-0" 0 else checkFrom text 0 0 t.kinds ends

end CapyV.Lexer
