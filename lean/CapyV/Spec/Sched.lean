import CapyV.Model.Topo
/-!
# What C26 demands, stated on the history alone (no `TopoSort` state)

From the sequence of mutating calls only, maintain
* `pend` — the items registered (inserted, or named as parent or child of a dependency) and
  not completed since, in order of first registration,
* `done` — the completed (removed) items,
* `regs` — every dependency registration `(parent, child)` ever made.

An item is *ready* when it is pending and all of its registered dependencies have
completed. A scheduling round must offer exactly the ready items; a cycle is to be reported
exactly when something is pending and nothing is ready, i.e. every pending item still waits
on a pending item. `legal` is the usage protocol: nothing that has completed is ever named
again, `extend` brings only new distinct items, only pending items complete.
Executable, import-free (linked into the driver), written from the property text.
-/
namespace CapyV.SchedSpec
open CapyV.Topo (Op)

structure Abs where
  pend : List Nat
  done : List Nat
  regs : List (Nat × Nat)
  deriving Repr

def Abs.empty : Abs := ⟨[], [], []⟩

def addPend (a : Abs) (x : Nat) : Abs :=
  if x ∈ a.pend then a else { a with pend := a.pend ++ [x] }

def regOne (a : Abs) (p c : Nat) : Abs :=
  let a := addPend (addPend a c) p
  { a with regs := (p, c) :: a.regs }

def regAll (a : Abs) (p : Nat) : List Nat → Abs
  | [] => a
  | c :: cs => regAll (regOne a p c) p cs

def addAll (a : Abs) : List Nat → Abs
  | [] => a
  | x :: xs => addAll (addPend a x) xs

def step (a : Abs) : Op → Abs
  | .insert x => addPend a x
  | .dep p c => regOne a p c
  | .deps p cs => regAll a p cs
  | .extend xs => addAll a xs
  | .remove x => { a with pend := a.pend.filter (· ≠ x), done := x :: a.done }

/-- the usage protocol, decidable on the abstract state -/
def legal (a : Abs) : Op → Bool
  | .insert x => decide (x ∉ a.done)
  | .dep p c => decide (p ∉ a.done) && decide (c ∉ a.done)
  | .deps p cs => decide (p ∉ a.done) && cs.all fun c => decide (c ∉ a.done)
  | .extend xs => decide xs.Nodup && xs.all fun x => decide (x ∉ a.done) && decide (x ∉ a.pend)
  | .remove x => decide (x ∈ a.pend)

/-- spec state after a history, `none` as soon as the protocol is left -/
def after (a : Abs) : List Op → Option Abs
  | [] => some a
  | op :: ops => if legal a op then after (step a op) ops else none

/-- all registered dependencies of `x` have completed -/
def depsDone (a : Abs) (x : Nat) : Bool := a.regs.all fun r => r.1 ≠ x || decide (r.2 ∈ a.done)

def ready (a : Abs) (x : Nat) : Bool := decide (x ∈ a.pend) && depsDone a x

/-- `x` still waits on a pending item -/
def waits (a : Abs) (x : Nat) : Bool := a.regs.any fun r => r.1 = x && decide (r.2 ∈ a.pend)

def readyList (a : Abs) : List Nat := a.pend.filter (depsDone a)

/-- a cycle is to be reported: something is pending and every pending item waits on a pending item -/
def cyclic (a : Abs) : Bool := !a.pend.isEmpty && a.pend.all (waits a)

end CapyV.SchedSpec
