import CapyV.Model.Const
/-!
# C15 — the documented rule (README, "There are two requirements which determine if a variable is
*const*": 1. immutable, 2. contains a literal value, a reference to another const variable, a
`comptime` block, or a reference to a `comptime` parameter), written independently of the walk.

`IsConst p e` is the least predicate closed under the rule, so an expression whose references run
in a circle is **not** const (there is no derivation).
`Denotes p e v`: the value a const expression stands for (a `comptime` block denotes the result of
running it — that the JIT computes the right result is C04's business, not this property's).
-/
namespace CapyV.Const

/-- literals that live in the first arm but have no `const_data` (`missing` is not a literal) -/
def NoData.isLiteral : NoData → Bool
  | .missing => false
  | _ => true

inductive IsConst (p : Prog) : Nat → Prop where
  /-- integer / float literals -/
  | intLit {e n} : p.node? e = some (.atom (.intLit n)) → IsConst p e
  | floatLit {e b} : p.node? e = some (.atom (.floatLit b)) → IsConst p e
  /-- type literals (`i32`, `struct {..}`, `distinct T`, function types) -/
  | tyLit {e m} : p.node? e = some (.atom (.tyLit m)) → IsConst p e
  /-- bool / string literals, function literals, `#import` -/
  | dataLit {e k} : p.node? e = some (.atom (.noData k)) → k.isLiteral = true → IsConst p e
  | charLit {e cls m} : p.node? e = some (.other .charLit cls m) → IsConst p e
  /-- compound type literals `^T`, `[n]T`, `?T`, `enum {..}` -/
  | typeExpr {e cls m} : p.node? e = some (.other .typeExpr cls m) → IsConst p e
  /-- an array literal all of whose items are const -/
  | arrayLit {e isArr items} : p.node? e = some (.arrayLit isArr items) →
      (∀ i ∈ items, IsConst p i) → IsConst p e
  | comptimeBlock {e safe r} : p.node? e = some (.atom (.comptime safe r)) → IsConst p e
  | comptimeParam {e i} : p.node? e = some (.comptimeParam i) → IsConst p e
  /-- a reference to an immutable (`::`) local whose value is const -/
  | constLocal {e v} : p.node? e = some (.local false (some v)) → IsConst p v → IsConst p e
  /-- a reference to a (non-extern) global whose body is const -/
  | constGlobal {e fin b} : p.node? e = some (.localGlobal false fin b) → IsConst p b → IsConst p e
  /-- `file.name`: the file reference is const and so is the imported (non-extern) global -/
  | importedGlobal {e prev fin b} : p.node? e = some (.member true prev true false fin b) →
      IsConst p prev → IsConst p b → IsConst p e

inductive Denotes (p : Prog) : Nat → Val → Prop where
  | intLit {e n} : p.node? e = some (.atom (.intLit n)) → Denotes p e (.int n)
  | floatLit {e b} : p.node? e = some (.atom (.floatLit b)) → Denotes p e (.float b)
  | tyLit {e m} : p.node? e = some (.atom (.tyLit (some m))) → Denotes p e (.ty m)
  | typeExpr {e k m} : p.node? e = some (.other k .type (some m)) → Denotes p e (.ty m)
  | comptimeBlock {e safe r} : p.node? e = some (.atom (.comptime safe r)) → Denotes p e r
  | comptimeParam {e i v} : p.node? e = some (.comptimeParam i) → p.args[i]? = some v → Denotes p e v
  | constLocal {e v x} : p.node? e = some (.local false (some v)) → Denotes p v x → Denotes p e x
  | constGlobal {e fin b x} : p.node? e = some (.localGlobal false fin b) → Denotes p b x → Denotes p e x
  | importedGlobal {e prev fin b x} : p.node? e = some (.member true prev true false fin b) →
      Denotes p b x → Denotes p e x

end CapyV.Const
