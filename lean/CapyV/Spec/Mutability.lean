import CapyV.Model.Mutability
/-!
# C14 — the place semantics the property demands, written from the property text

A path expression denotes a *place*: the binding the path starts from and the list of pointer
hops taken on the way (explicit `e^`, or the implicit dereference of `p.field` / `p[i]` when `p`
is a pointer), each with the static mutability of the pointer that was followed.

* `::` local, parameter, global: the binding itself and every field / element reached from it
  without following a pointer are read-only;
* `:=` local: the binding and its fields / elements are writable;
* once a pointer has been followed, the data reached is writable iff the pointer followed
  **last** is `^mut` ("through an immutable pointer: rejected; through `^mut` pointers: accepted").
* value expressions (calls, casts, literals, `^e`, blocks, ...) denote temporaries: the property
  says nothing about assigning to a temporary itself (`unspecified`), only about what is reached
  from it through a pointer.

Nothing here looks at initialisers or at how a pointer value was produced.
-/
namespace CapyV.Mutability

inductive Root where
  | mutLocal | immLocal | param | global | temp
  deriving DecidableEq, Repr, Inhabited

structure Place where
  root : Root
  hops : List Bool      -- mutability of every pointer followed, first hop first
  deriving DecidableEq, Repr, Inhabited

/-- following the pointer value of `e` (of type `ty`): one more hop -/
def Place.hop (p : Place) (m : Bool) : Place := { p with hops := p.hops ++ [m] }

def temp : Place := ⟨.temp, []⟩

/-- the place denoted by an expression (meaningful for well-typed expressions) -/
def place : Expr → Place
  | .loc m _ _ => ⟨if m then .mutLocal else .immLocal, []⟩
  | .locNoInit m _ => ⟨if m then .mutLocal else .immLocal, []⟩
  | .param _ => ⟨.param, []⟩
  | .global _ => ⟨.global, []⟩
  | .deref e =>
    match tyOf e with
    | .ptr m _ => (place e).hop m
    | _ => place e
  | .index e =>
    -- `p[i]` with `p : ^[n]T` (or `^mut ^[n]T`, ...: one hop per pointer level); without a
    -- pointer, an element of the array stored at `place e`
    (tyOf e).levels.foldl Place.hop (place e)
  | .member prev _ =>
    match tyOf prev with
    | .file => ⟨.global, []⟩           -- `module.name`
    -- `p.field` with `p : ^S` (one hop per pointer level); without a pointer, a field of the
    -- struct stored at `place prev`
    | t => t.levels.foldl Place.hop (place prev)
  | .paren e => place e
  | .unwrap e => place e               -- the payload of the optional stored at `place e`
  -- values, not places
  | .missing => temp
  | .arrayLit _ => temp
  | .structLit _ => temp
  | .ref _ _ => temp
  | .blockTail _ => temp
  | .call _ => temp
  | .cast _ => temp
  | .other _ => temp

inductive Verdict where
  | writable | readonly | unspecified
  deriving DecidableEq, Repr, Inhabited

/-- writable ⇔ the last hop is `^mut`, or there is no hop and the root is a `:=` local -/
def Place.verdict (p : Place) : Verdict :=
  match p.hops.getLast? with
  | some true => .writable
  | some false => .readonly
  | none =>
    match p.root with
    | .mutLocal => .writable
    | .temp => .unspecified
    | _ => .readonly

def verdict (e : Expr) : Verdict := (place e).verdict

/-- the narrow reading ("nothing immutable anywhere on the way"): every hop is `^mut`, and the
root is a `:=` local when there is no hop. Writable in this sense ⇒ writable in every reading
of the property; the harness only reports a *false rejection* for such targets. -/
def Place.surelyWritable (p : Place) : Bool :=
  p.hops.all id && (match p.hops, p.root with
    | [], .mutLocal => true
    | [], _ => false
    | _ :: _, _ => true)

theorem Place.surelyWritable_writable (p : Place) (h : p.surelyWritable = true) :
    p.verdict = .writable := by
  obtain ⟨root, hops⟩ := p
  unfold Place.surelyWritable at h
  unfold Place.verdict
  rcases List.eq_nil_or_concat hops with rfl | ⟨init, last, rfl⟩
  · cases root <;> simp_all
  · simp only [Bool.and_eq_true, List.all_eq_true] at h
    have : last = true := by simpa using h.1 last (by simp)
    subst this
    simp

end CapyV.Mutability
