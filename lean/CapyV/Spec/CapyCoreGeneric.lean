import CapyV.Spec.CapyCore

/-!
`CapyCoreGeneric` — the substitution lemma for *generic functions* (functions with
compile-time integer parameters) on the reference interpreter `CapyV.Core`.

A comptime parameter is modelled as an ordinary parameter whose argument is a literal known at
compile time. The hand-substituted copy replaces every use of the parameter by that literal
and drops the parameter. `subst_lemma` says both calls compute the same result; `subst_body`
is the exact, same-fuel, body-level equation; `sim` is the simulation over all nine mutual
interpreter functions.
-/

namespace CapyV.Core.Generic
open CapyV.Core

/-! ### 1. comptime substitution -/

/-- a comptime argument: parameter id, its integer type, the literal value -/
structure CArg where
  x : Nat
  ty : Ty
  z : Int
  deriving Repr, Inhabited

abbrev Subst := List CArg

/-- first entry for that id -/
def Subst.find : Subst → Nat → Option CArg
  | [], _ => none
  | c :: r, x => if c.x = x then some c else Subst.find r x

/-- the runtime value of a comptime argument -/
def cval (c : CArg) : Val := .int (wrapTy c.ty c.z)

mutual
def substE (σ : Subst) : Expr → Expr
  | .lit t z => .lit t z
  | .blit b => .blit b
  | .var x =>
    match σ.find x with
    | some c => .lit c.ty c.z
    | none => .var x
  | .bin op t a b => .bin op t (substE σ a) (substE σ b)
  | .cmp op t a b => .cmp op t (substE σ a) (substE σ b)
  | .land a b => .land (substE σ a) (substE σ b)
  | .lor a b => .lor (substE σ a) (substE σ b)
  | .lnot a => .lnot (substE σ a)
  | .neg t a => .neg t (substE σ a)
  | .bnot t a => .bnot t (substE σ a)
  | .cast s d a => .cast s d (substE σ a)
  | .call f args => .call f (substEs σ args)
  | .index a i => .index (substE σ a) (substE σ i)
  | .field a k => .field (substE σ a) k
  | .arrLit es => .arrLit (substEs σ es)
  | .structLit id es => .structLit id (substEs σ es)
  | .nilE => .nilE
  | .someE a => .someE (substE σ a)
  | .unwrap a => .unwrap (substE σ a)
  | .isSome a => .isSome (substE σ a)
  | .ite c a b => .ite (substE σ c) (substE σ a) (substE σ b)
  | .variantLit k none => .variantLit k none
  | .variantLit k (some a) => .variantLit k (some (substE σ a))
  | .isVariant k a => .isVariant k (substE σ a)
  | .unwrapVariant k a => .unwrapVariant k (substE σ a)
  | .euLit isOk a => .euLit isOk (substE σ a)
  | .euIsOk a => .euIsOk (substE σ a)
  | .euUnwrap isOk a => .euUnwrap isOk (substE σ a)
  | .tryE a => .tryE (substE σ a)
def substEs (σ : Subst) : List Expr → List Expr
  | [] => []
  | e :: es => substE σ e :: substEs σ es
end

/-- root variable of a place -/
def rootP : Place → Nat
  | .var x => x
  | .index q _ => rootP q
  | .field q _ => rootP q

/-- the root variable is untouched, index expressions are substituted -/
def substP (σ : Subst) : Place → Place
  | .var x => .var x
  | .index q i => .index (substP σ q) (substE σ i)
  | .field q k => .field (substP σ q) k

mutual
def substS (σ : Subst) : Stmt → Stmt
  | .letS x e => .letS x (substE σ e)
  | .assign pl e => .assign (substP σ pl) (substE σ e)
  | .opAssign op t pl e => .opAssign op t (substP σ pl) (substE σ e)
  | .print e => .print (substE σ e)
  | .ifS c a b => .ifS (substE σ c) (substSs σ a) (substSs σ b)
  | .whileS l c body => .whileS l (substE σ c) (substSs σ body)
  | .block l body => .block l (substSs σ body)
  | .brk l => .brk l
  | .cont l => .cont l
  | .ret none => .ret none
  | .ret (some e) => .ret (some (substE σ e))
  | .deferS d => .deferS (substS σ d)
  | .exprS e => .exprS (substE σ e)
  | .switchS scrut arg arms none => .switchS (substE σ scrut) arg (substArms σ arms) none
  | .switchS scrut arg arms (some d) =>
    .switchS (substE σ scrut) arg (substArms σ arms) (some (substSs σ d))
def substSs (σ : Subst) : List Stmt → List Stmt
  | [] => []
  | s :: ss => substS σ s :: substSs σ ss
/-- switch arms: the keys are kept, the bodies substituted -/
def substArms (σ : Subst) : List (Nat × List Stmt) → List (Nat × List Stmt)
  | [] => []
  | (k, b) :: r => (k, substSs σ b) :: substArms σ r
end

/-- the variable a `switch` binds to the payload is not a comptime parameter -/
def okArg (σ : Subst) : Option Nat → Bool
  | none => true
  | some x => (σ.find x).isNone

mutual
/-- the body never binds or assigns a comptime parameter (they are constants in Capy) -/
def okS (σ : Subst) : Stmt → Bool
  | .letS x _ => (σ.find x).isNone
  | .assign pl _ => (σ.find (rootP pl)).isNone
  | .opAssign _ _ pl _ => (σ.find (rootP pl)).isNone
  | .print _ => true
  | .ifS _ a b => okSs σ a && okSs σ b
  | .whileS _ _ body => okSs σ body
  | .block _ body => okSs σ body
  | .brk _ => true
  | .cont _ => true
  | .ret _ => true
  | .deferS d => okS σ d
  | .exprS _ => true
  | .switchS _ arg arms none => okArg σ arg && okArms σ arms
  | .switchS _ arg arms (some d) => okArg σ arg && okArms σ arms && okSs σ d
def okSs (σ : Subst) : List Stmt → Bool
  | [] => true
  | s :: ss => okS σ s && okSs σ ss
def okArms (σ : Subst) : List (Nat × List Stmt) → Bool
  | [] => true
  | (_, b) :: r => okSs σ b && okArms σ r
end

theorem substEs_eq_map (σ : Subst) (es : List Expr) : substEs σ es = es.map (substE σ) := by
  induction es with
  | nil => simp [substEs]
  | cons e es ih => simp [substEs, ih]

theorem substSs_eq_map (σ : Subst) (ss : List Stmt) : substSs σ ss = ss.map (substS σ) := by
  induction ss with
  | nil => simp [substSs]
  | cons s ss ih => simp [substSs, ih]

/-! ### 2. environments -/

/-- the environment binds every comptime parameter to its value -/
def Agree (σ : Subst) (env : List (Nat × Val)) : Prop :=
  ∀ x c, σ.find x = some c → lookup x env = some (cval c)

/-- drop the comptime parameters from an environment -/
def erase (σ : Subst) (env : List (Nat × Val)) : List (Nat × Val) :=
  env.filter (fun yv => (σ.find yv.1).isNone)

def eraseSt (σ : Subst) (st : St) : St := { st with env := erase σ st.env }

@[simp] theorem eraseSt_env (σ : Subst) (st : St) : (eraseSt σ st).env = erase σ st.env := rfl
@[simp] theorem eraseSt_out (σ : Subst) (st : St) : (eraseSt σ st).out = st.out := rfl

theorem find_some_x {σ : Subst} {x : Nat} {c : CArg} (h : σ.find x = some c) : c.x = x := by
  induction σ with
  | nil => simp [Subst.find] at h
  | cons d r ih =>
    simp only [Subst.find] at h
    split at h
    · cases h; assumption
    · exact ih h

/-- the formulation of `Agree` indexed by the entry itself -/
theorem agree_iff (σ : Subst) (env : List (Nat × Val)) :
    Agree σ env ↔ ∀ c, σ.find c.x = some c → lookup c.x env = some (cval c) := by
  constructor
  · intro h c hc; exact h _ _ hc
  · intro h x c hc
    have := find_some_x hc
    subst this
    exact h c hc

theorem lookup_erase {σ : Subst} {x : Nat} (h : σ.find x = none) (env : List (Nat × Val)) :
    lookup x (erase σ env) = lookup x env := by
  induction env with
  | nil => rfl
  | cons yv r ih =>
    obtain ⟨y, v⟩ := yv
    simp only [erase, List.filter] at ih ⊢
    by_cases hxy : x = y
    · subst hxy; simp [h, lookup]
    · cases hy : (σ.find y).isNone <;> simp [lookup, hxy, ih]

theorem erase_setVar {σ : Subst} {x : Nat} (h : σ.find x = none) (v : Val) (env : List (Nat × Val)) :
    erase σ (setVar x v env) = setVar x v (erase σ env) := by
  induction env with
  | nil => simp [erase, setVar, h]
  | cons yv r ih =>
    obtain ⟨y, w⟩ := yv
    simp only [erase] at ih
    by_cases hxy : x = y
    · subst hxy; simp [erase, setVar, h]
    · cases hy : (σ.find y).isNone <;> simp [erase, setVar, hxy, hy, ih]

theorem lookup_setVar_ne {x y : Nat} (h : y ≠ x) (v : Val) (env : List (Nat × Val)) :
    lookup y (setVar x v env) = lookup y env := by
  induction env with
  | nil => simp [setVar, lookup, h]
  | cons zw r ih =>
    obtain ⟨z, w⟩ := zw
    by_cases hxz : x = z
    · subst hxz; simp [setVar, lookup, h]
    · by_cases hyz : y = z <;> simp [setVar, lookup, hxz, hyz, ih]

theorem agree_setVar {σ : Subst} {x : Nat} (h : σ.find x = none) (v : Val) {env : List (Nat × Val)}
    (hA : Agree σ env) : Agree σ (setVar x v env) := by
  intro y c hc
  have hne : y ≠ x := by
    intro e; subst e; rw [h] at hc; cases hc
  rw [lookup_setVar_ne hne]
  exact hA y c hc

/-! ### 3. simulation -/

/-- image of a result: erase the environment of the resulting state (`.ok` and `.error`) -/
def mapR (σ : Subst) {α : Type} : Except (Fault × St) (α × St) → Except (Fault × St) (α × St)
  | .ok (a, st) => .ok (a, eraseSt σ st)
  | .error (flt, st) => .error (flt, eraseSt σ st)

/-- image of a statement result: additionally substitute in the returned defer list -/
def mapR3 (σ : Subst) :
    Except (Fault × St) (Sig × List Stmt × St) → Except (Fault × St) (Sig × List Stmt × St)
  | .ok (sig, regs, st) => .ok (sig, substSs σ regs, eraseSt σ st)
  | .error (flt, st) => .error (flt, eraseSt σ st)

/-- the resulting state (of a successful run and of a faulting one: a `.propagate` fault is
turned back into a `return` by `execS`) still binds the comptime parameters -/
def GoodR (σ : Subst) {α : Type} : Except (Fault × St) (α × St) → Prop
  | .ok (_, st) => Agree σ st.env
  | .error (_, st) => Agree σ st.env

/-- … and the returned defer list is still well-formed -/
def GoodR3 (σ : Subst) : Except (Fault × St) (Sig × List Stmt × St) → Prop
  | .ok (_, regs, st) => Agree σ st.env ∧ okSs σ regs = true
  | .error (_, st) => Agree σ st.env

@[simp] theorem mapR_ok (σ : Subst) {α : Type} (a : α) (st : St) :
    mapR σ (.ok (a, st)) = .ok (a, eraseSt σ st) := rfl
@[simp] theorem mapR_error (σ : Subst) {α : Type} (flt : Fault) (st : St) :
    mapR σ (α := α) (.error (flt, st)) = .error (flt, eraseSt σ st) := rfl
@[simp] theorem mapR3_ok (σ : Subst) (sig : Sig) (regs : List Stmt) (st : St) :
    mapR3 σ (.ok (sig, regs, st)) = .ok (sig, substSs σ regs, eraseSt σ st) := rfl
@[simp] theorem mapR3_error (σ : Subst) (flt : Fault) (st : St) :
    mapR3 σ (.error (flt, st)) = .error (flt, eraseSt σ st) := rfl
@[simp] theorem GoodR_ok (σ : Subst) {α : Type} (a : α) (st : St) :
    GoodR σ (.ok (a, st)) = Agree σ st.env := rfl
@[simp] theorem GoodR_error (σ : Subst) {α : Type} (flt : Fault) (st : St) :
    GoodR σ (α := α) (.error (flt, st)) = Agree σ st.env := rfl
@[simp] theorem GoodR3_ok (σ : Subst) (sig : Sig) (regs : List Stmt) (st : St) :
    GoodR3 σ (.ok (sig, regs, st)) = (Agree σ st.env ∧ okSs σ regs = true) := rfl
@[simp] theorem GoodR3_error (σ : Subst) (flt : Fault) (st : St) :
    GoodR3 σ (.error (flt, st)) = Agree σ st.env := rfl

/-- one interpreter step through an IH of the shape `lhs = mapR (rhs) ∧ GoodR rhs` -/
syntax "stepR " term:max term:max " => " ident ident ident : tactic
macro_rules
  | `(tactic| stepR $ih $rhs => $v $st1 $g) => `(tactic| (
      obtain ⟨e1, $g:ident⟩ := $ih
      rw [e1]; clear e1
      revert $g:ident
      generalize $rhs = r
      rcases r with ⟨flt, ste⟩ | ⟨$v:ident, $st1:ident⟩
      · intro ge; simp only [GoodR_error, GoodR3_error] at ge; simp [ge]
      intro $g:ident
      simp only [mapR_ok, mapR_error, GoodR_ok] at $g:ident ⊢))

syntax "stepR3 " term:max term:max " => " ident ident ident ident : tactic
macro_rules
  | `(tactic| stepR3 $ih $rhs => $sig $regs $st1 $g) => `(tactic| (
      obtain ⟨e1, $g:ident⟩ := $ih
      rw [e1]; clear e1
      revert $g:ident
      generalize $rhs = r
      rcases r with ⟨flt, ste⟩ | ⟨$sig:ident, $regs:ident, $st1:ident⟩
      · intro ge; simp only [GoodR_error, GoodR3_error] at ge; simp [ge]
      intro $g:ident
      simp only [mapR3_ok, mapR3_error, GoodR3_ok] at $g:ident ⊢))

syntax "finR " term:max : tactic
macro_rules
  | `(tactic| finR $g) => `(tactic| ((try simp [$g:term]) <;> (repeat' (split <;> (try simp [$g:term])))))


/-! #### the `switch` statement, factored into named pieces -/

def substDflt (σ : Subst) : Option (List Stmt) → Option (List Stmt)
  | none => none
  | some d => some (substSs σ d)

def okDflt (σ : Subst) : Option (List Stmt) → Bool
  | none => true
  | some d => okSs σ d

theorem substS_switch (σ : Subst) (scrut : Expr) (arg : Option Nat)
    (arms : List (Nat × List Stmt)) (dflt : Option (List Stmt)) :
    substS σ (.switchS scrut arg arms dflt)
      = .switchS (substE σ scrut) arg (substArms σ arms) (substDflt σ dflt) := by
  cases dflt <;> simp [substS, substDflt]

theorem okS_switch (σ : Subst) (scrut : Expr) (arg : Option Nat)
    (arms : List (Nat × List Stmt)) (dflt : Option (List Stmt)) :
    okS σ (.switchS scrut arg arms dflt) = (okArg σ arg && okArms σ arms && okDflt σ dflt) := by
  cases dflt <;> simp [okS, okDflt]

/-- substitution keeps the keys of the arms, so it commutes with the arm lookup -/
theorem find_substArms (σ : Subst) (k : Nat) (arms : List (Nat × List Stmt)) :
    (substArms σ arms).find? (fun a => a.1 == k)
      = (arms.find? (fun a => a.1 == k)).map (fun a => (a.1, substSs σ a.2)) := by
  induction arms with
  | nil => simp [substArms]
  | cons a r ih =>
    obtain ⟨k', b⟩ := a
    simp only [substArms, List.find?_cons]
    cases hk : k' == k <;> simp [ih]

theorem okArms_find {σ : Subst} {k : Nat} {arms : List (Nat × List Stmt)} {a : Nat × List Stmt}
    (h : okArms σ arms = true) (hf : arms.find? (fun a => a.1 == k) = some a) :
    okSs σ a.2 = true := by
  induction arms with
  | nil => simp at hf
  | cons a' r ih =>
    obtain ⟨k', b⟩ := a'
    simp only [okArms, Bool.and_eq_true] at h
    simp only [List.find?_cons] at hf
    cases hk : k' == k
    · rw [hk] at hf; exact ih h.2 hf
    · rw [hk] at hf; cases hf; exact h.1

/-- which variant is current, and its payload -/
def selOf : Val → Option (Nat × Val)
  | .variant k pl => some (k, pl)
  | .nil => some (0, .nil)
  | .some pl => some (1, pl)
  | .eu false e => some (0, e)
  | .eu true o => some (1, o)
  | _ => none

/-- bind the `switch` argument (if any) -/
def bindArg (arg : Option Nat) (u : Val) (st : St) : St :=
  match arg with
  | some x => { st with env := setVar x u st.env }
  | none => st

/-- run the chosen arm -/
def runArm (p : Program) (n : Nat) (body regs : List Stmt) (st : St) :
    Except (Fault × St) (Sig × List Stmt × St) :=
  match execBlock p n body st with
  | .error e => .error e
  | .ok (sig, st3) => .ok (sig, regs, st3)

/-- arm selection and execution, once the current variant `k`/payload `pl` are known
(`w` is the whole scrutinee value, bound by the default arm) -/
def switchTail (p : Program) (n : Nat) (arg : Option Nat) (regs : List Stmt) (st1 : St) (w : Val)
    (arms : List (Nat × List Stmt)) (dflt : Option (List Stmt)) (k : Nat) (pl : Val) :
    Except (Fault × St) (Sig × List Stmt × St) :=
  match arms.find? (fun a => a.1 == k), dflt with
  | some (_, body), _ => runArm p n body regs (bindArg arg pl st1)
  | none, some body => runArm p n body regs (bindArg arg w st1)
  | none, none => .error (.stuck "switch does not cover the variant", st1)

/-- the `switchS` case of `execSCore`, in terms of the named pieces (definitional) -/
theorem execSCore_switch (p : Program) (n : Nat) (scrut : Expr) (arg : Option Nat)
    (arms : List (Nat × List Stmt)) (dflt : Option (List Stmt)) (regs : List Stmt) (st : St) :
    execSCore p (n + 1) (.switchS scrut arg arms dflt) regs st =
      match evalE p n scrut st with
      | .error e => .error e
      | .ok (v, st1) =>
        match selOf v with
        | none => .error (.stuck "switch on a non-sum value", st1)
        | some (k, pl) => switchTail p n arg regs st1 v arms dflt k pl := by
  simp only [execSCore]
  rfl

theorem bindArg_erase {σ : Subst} {arg : Option Nat} (h : okArg σ arg = true) (u : Val) (st : St) :
    bindArg arg u (eraseSt σ st) = eraseSt σ (bindArg arg u st) := by
  cases arg with
  | none => rfl
  | some x =>
    simp only [okArg, Option.isNone_iff_eq_none] at h
    simp [bindArg, eraseSt, erase_setVar h]

theorem bindArg_agree {σ : Subst} {arg : Option Nat} (h : okArg σ arg = true) (u : Val) {st : St}
    (hA : Agree σ st.env) : Agree σ (bindArg arg u st).env := by
  cases arg with
  | none => exact hA
  | some x =>
    simp only [okArg, Option.isNone_iff_eq_none] at h
    exact agree_setVar h u hA

theorem runArm_sim (p : Program) (σ : Subst) (n : Nat)
    (ihB : ∀ body st, Agree σ st.env → okSs σ body = true →
      execBlock p n (substSs σ body) (eraseSt σ st) = mapR σ (execBlock p n body st)
        ∧ GoodR σ (execBlock p n body st))
    (body regs : List Stmt) (st : St)
    (hA : Agree σ st.env) (hb : okSs σ body = true) (hregs : okSs σ regs = true) :
    runArm p n (substSs σ body) (substSs σ regs) (eraseSt σ st) = mapR3 σ (runArm p n body regs st)
      ∧ GoodR3 σ (runArm p n body regs st) := by
  simp only [runArm]
  stepR (ihB body st hA hb) (execBlock p n body st) => sig st3 g3
  simp [g3, hregs]

theorem switchTail_sim (p : Program) (σ : Subst) (n : Nat)
    (ihB : ∀ body st, Agree σ st.env → okSs σ body = true →
      execBlock p n (substSs σ body) (eraseSt σ st) = mapR σ (execBlock p n body st)
        ∧ GoodR σ (execBlock p n body st))
    (arg : Option Nat) (regs : List Stmt) (st1 : St) (w : Val)
    (arms : List (Nat × List Stmt)) (dflt : Option (List Stmt)) (k : Nat) (pl : Val)
    (g1 : Agree σ st1.env) (harg : okArg σ arg = true) (harms : okArms σ arms = true)
    (hd : okDflt σ dflt = true) (hregs : okSs σ regs = true) :
    switchTail p n arg (substSs σ regs) (eraseSt σ st1) w (substArms σ arms) (substDflt σ dflt) k pl
        = mapR3 σ (switchTail p n arg regs st1 w arms dflt k pl)
      ∧ GoodR3 σ (switchTail p n arg regs st1 w arms dflt k pl) := by
  simp only [switchTail, find_substArms]
  cases hfind : arms.find? (fun a => a.1 == k) with
  | some a =>
    obtain ⟨k', body⟩ := a
    have hb : okSs σ body = true := okArms_find harms hfind
    simp only [Option.map_some, bindArg_erase harg]
    exact runArm_sim p σ n ihB body regs _ (bindArg_agree harg pl g1) hb hregs
  | none =>
    cases dflt with
    | none => simp [substDflt, g1]
    | some d =>
      simp only [Option.map_none, substDflt, bindArg_erase harg]
      exact runArm_sim p σ n ihB d regs _ (bindArg_agree harg w g1) hd hregs

set_option linter.unusedSimpArgs false in
/-- **Simulation.** For a fixed program `p` and substitution `σ`, at every fuel and for each of
the nine mutual interpreter functions: if the environment binds the comptime parameters
(`Agree`), running the *substituted* syntax in the *erased* state gives exactly the image
(`mapR`/`mapR3`) of running the original syntax, and a successful original run ends in a state
that still binds the comptime parameters (`GoodR`/`GoodR3`; for statements also: the returned
defer list is still well-formed). -/
theorem sim (p : Program) (σ : Subst) : ∀ fuel,
    (∀ e st, Agree σ st.env →
      evalE p fuel (substE σ e) (eraseSt σ st) = mapR σ (evalE p fuel e st)
        ∧ GoodR σ (evalE p fuel e st)) ∧
    (∀ es st, Agree σ st.env →
      evalArgs p fuel (substEs σ es) (eraseSt σ st) = mapR σ (evalArgs p fuel es st)
        ∧ GoodR σ (evalArgs p fuel es st)) ∧
    (∀ pl st, Agree σ st.env → σ.find (rootP pl) = none →
      readPlace p fuel (substP σ pl) (eraseSt σ st) = mapR σ (readPlace p fuel pl st)
        ∧ GoodR σ (readPlace p fuel pl st)) ∧
    (∀ pl v st, Agree σ st.env → σ.find (rootP pl) = none →
      writePlace p fuel (substP σ pl) v (eraseSt σ st) = mapR σ (writePlace p fuel pl v st)
        ∧ GoodR σ (writePlace p fuel pl v st)) ∧
    (∀ s regs st, Agree σ st.env → okS σ s = true → okSs σ regs = true →
      execS p fuel (substS σ s) (substSs σ regs) (eraseSt σ st) = mapR3 σ (execS p fuel s regs st)
        ∧ GoodR3 σ (execS p fuel s regs st)) ∧
    (∀ ss regs st, Agree σ st.env → okSs σ ss = true → okSs σ regs = true →
      execStmts p fuel (substSs σ ss) (substSs σ regs) (eraseSt σ st)
          = mapR3 σ (execStmts p fuel ss regs st)
        ∧ GoodR3 σ (execStmts p fuel ss regs st)) ∧
    (∀ ds st, Agree σ st.env → okSs σ ds = true →
      runDefers p fuel (substSs σ ds) (eraseSt σ st) = mapR σ (runDefers p fuel ds st)
        ∧ GoodR σ (runDefers p fuel ds st)) ∧
    (∀ body st, Agree σ st.env → okSs σ body = true →
      execBlock p fuel (substSs σ body) (eraseSt σ st) = mapR σ (execBlock p fuel body st)
        ∧ GoodR σ (execBlock p fuel body st)) ∧
    (∀ s regs st, Agree σ st.env → okS σ s = true → okSs σ regs = true →
      execSCore p fuel (substS σ s) (substSs σ regs) (eraseSt σ st)
          = mapR3 σ (execSCore p fuel s regs st)
        ∧ GoodR3 σ (execSCore p fuel s regs st)) := by
  intro fuel
  induction fuel with
  | zero =>
    refine ⟨?_, ?_, ?_, ?_, ?_, ?_, ?_, ?_, ?_⟩
    · intro e st hA; simp [evalE, hA]
    · intro es st hA; simp [evalArgs, hA]
    · intro pl st hA _; simp [readPlace, hA]
    · intro pl v st hA _; simp [writePlace, hA]
    · intro s regs st hA _ _; simp [execS, hA]
    · intro ss regs st hA _ _; simp [execStmts, hA]
    · intro ds st hA _; simp [runDefers, hA]
    · intro body st hA _; simp [execBlock, hA]
    · intro s regs st hA _ _; simp [execSCore, hA]
  | succ n ih =>
    obtain ⟨ihE, ihEs, ihR, ihW, ihS, ihSs, ihD, ihB, ihSC⟩ := ih
    refine ⟨?_, ?_, ?_, ?_, ?_, ?_, ?_, ?_, ?_⟩
    · -- evalE
      intro e st hA
      cases e with
      | lit t z => simp [evalE, substE, hA]
      | blit b => simp [evalE, substE, hA]
      | var x =>
        cases hf : σ.find x with
        | some c =>
          simp only [substE, hf, evalE]
          rw [hA x c hf]
          simp [cval, hA]
        | none =>
          simp only [substE, hf, evalE, eraseSt_env]
          rw [lookup_erase hf]
          cases lookup x st.env <;> simp [hA]
      | bin op t a b =>
        simp only [evalE, substE]
        stepR (ihE a st hA) (evalE p n a st) => va st1 g1
        stepR (ihE b st1 g1) (evalE p n b st1) => vb st2 g2
        cases va <;> cases vb <;> finR g2
      | cmp op t a b =>
        simp only [evalE, substE]
        stepR (ihE a st hA) (evalE p n a st) => va st1 g1
        stepR (ihE b st1 g1) (evalE p n b st1) => vb st2 g2
        cases va <;> cases vb <;> finR g2
      | land a b =>
        simp only [evalE, substE]
        stepR (ihE a st hA) (evalE p n a st) => va st1 g1
        cases va with
        | bool bb => cases bb <;> first | exact ihE _ _ g1 | simp [g1]
        | _ => simp [g1]
      | lor a b =>
        simp only [evalE, substE]
        stepR (ihE a st hA) (evalE p n a st) => va st1 g1
        cases va with
        | bool bb => cases bb <;> first | exact ihE _ _ g1 | simp [g1]
        | _ => simp [g1]
      | lnot a =>
        simp only [evalE, substE]
        stepR (ihE a st hA) (evalE p n a st) => va st1 g1
        cases va <;> simp [g1]
      | neg t a =>
        simp only [evalE, substE]
        stepR (ihE a st hA) (evalE p n a st) => va st1 g1
        cases va <;> simp [g1]
      | bnot t a =>
        simp only [evalE, substE]
        stepR (ihE a st hA) (evalE p n a st) => va st1 g1
        cases va <;> simp [g1]
      | cast src dst a =>
        simp only [evalE, substE]
        stepR (ihE a st hA) (evalE p n a st) => va st1 g1
        cases castVal src dst va <;> simp [g1]
      | call f args =>
        simp only [evalE, substE]
        stepR (ihEs args st hA) (evalArgs p n args st) => vs st1 g1
        simp only [eraseSt_out, eraseSt_env]
        cases p.fns[f]? with
        | none => simp [g1]
        | some fn =>
          by_cases hlen : fn.params.length = vs.length
          · simp only [hlen, ne_eq, not_true_eq_false, ↓reduceIte]
            cases execBlock p n fn.body { env := fn.params.zip vs, out := st1.out } with
            | error e => obtain ⟨flt, st2⟩ := e; simp [eraseSt, g1]
            | ok r => obtain ⟨sig, st2⟩ := r; cases sig <;> simp [eraseSt, g1]
          · simp [hlen, g1]
      | index a i =>
        simp only [evalE, substE]
        stepR (ihE a st hA) (evalE p n a st) => va st1 g1
        stepR (ihE i st1 g1) (evalE p n i st1) => vi st2 g2
        cases va <;> cases vi <;> finR g2
      | field a k =>
        simp only [evalE, substE]
        stepR (ihE a st hA) (evalE p n a st) => va st1 g1
        cases va <;> finR g1
      | arrLit es =>
        simp only [evalE, substE]
        stepR (ihEs es st hA) (evalArgs p n es st) => vs st1 g1
        simp [g1]
      | structLit id es =>
        simp only [evalE, substE]
        stepR (ihEs es st hA) (evalArgs p n es st) => vs st1 g1
        simp [g1]
      | nilE => simp [evalE, substE, hA]
      | someE a =>
        simp only [evalE, substE]
        stepR (ihE a st hA) (evalE p n a st) => va st1 g1
        simp [g1]
      | unwrap a =>
        simp only [evalE, substE]
        stepR (ihE a st hA) (evalE p n a st) => va st1 g1
        cases va <;> simp [g1]
      | isSome a =>
        simp only [evalE, substE]
        stepR (ihE a st hA) (evalE p n a st) => va st1 g1
        cases va <;> simp [g1]
      | ite c a b =>
        simp only [evalE, substE]
        stepR (ihE c st hA) (evalE p n c st) => vc st1 g1
        cases vc with
        | bool bb => cases bb <;> first | exact ihE _ _ g1 | simp [g1]
        | _ => simp [g1]
      | variantLit k o =>
        cases o with
        | none => simp [evalE, substE, hA]
        | some a =>
          simp only [evalE, substE]
          stepR (ihE a st hA) (evalE p n a st) => va st1 g1
          simp [g1]
      | isVariant k a =>
        simp only [evalE, substE]
        stepR (ihE a st hA) (evalE p n a st) => va st1 g1
        cases va <;> simp [g1]
      | unwrapVariant k a =>
        simp only [evalE, substE]
        stepR (ihE a st hA) (evalE p n a st) => va st1 g1
        cases va <;> finR g1
      | euLit isOk a =>
        simp only [evalE, substE]
        stepR (ihE a st hA) (evalE p n a st) => va st1 g1
        simp [g1]
      | euIsOk a =>
        simp only [evalE, substE]
        stepR (ihE a st hA) (evalE p n a st) => va st1 g1
        cases va <;> simp [g1]
      | euUnwrap isOk a =>
        simp only [evalE, substE]
        stepR (ihE a st hA) (evalE p n a st) => va st1 g1
        cases va <;> finR g1
      | tryE a =>
        simp only [evalE, substE]
        stepR (ihE a st hA) (evalE p n a st) => va st1 g1
        cases va <;> (try (simp [g1]; done))
        rename_i b v
        cases b <;> simp [g1]
    · -- evalArgs
      intro es st hA
      cases es with
      | nil => simp [evalArgs, substEs, hA]
      | cons e es =>
        simp only [evalArgs, substEs]
        stepR (ihE e st hA) (evalE p n e st) => v st1 g1
        stepR (ihEs es st1 g1) (evalArgs p n es st1) => vs st2 g2
        simp [g2]
    · -- readPlace
      intro pl st hA hr
      cases pl with
      | var x =>
        simp only [rootP] at hr
        simp only [readPlace, substP, eraseSt_env]
        rw [lookup_erase hr]
        cases lookup x st.env <;> simp [hA]
      | index q i =>
        simp only [rootP] at hr
        simp only [readPlace, substP]
        stepR (ihR q st hA hr) (readPlace p n q st) => vq st1 g1
        stepR (ihE i st1 g1) (evalE p n i st1) => vi st2 g2
        cases vq <;> cases vi <;> finR g2
      | field q k =>
        simp only [rootP] at hr
        simp only [readPlace, substP]
        stepR (ihR q st hA hr) (readPlace p n q st) => vq st1 g1
        cases vq <;> finR g1
    · -- writePlace
      intro pl v st hA hr
      cases pl with
      | var x =>
        simp only [rootP] at hr
        simp only [writePlace, substP]
        simp [eraseSt, erase_setVar hr, agree_setVar hr v hA]
      | index q i =>
        simp only [rootP] at hr
        simp only [writePlace, substP]
        stepR (ihR q st hA hr) (readPlace p n q st) => vq st1 g1
        stepR (ihE i st1 g1) (evalE p n i st1) => vi st2 g2
        cases vq <;> cases vi <;> (try (simp [g2]; done))
        rename_i vs k
        by_cases hk : k < 0
        · simp [hk, g2]
        · by_cases hl : k.toNat < vs.length
          · simp only [hk, hl, ↓reduceIte]
            exact ihW q _ st2 g2 hr
          · simp [hk, hl, g2]
      | field q k =>
        simp only [rootP] at hr
        simp only [writePlace, substP]
        stepR (ihR q st hA hr) (readPlace p n q st) => vq st1 g1
        cases vq <;> (try (simp [g1]; done))
        rename_i fs
        by_cases hl : k < fs.length
        · simp only [hl, ↓reduceIte]
          exact ihW q _ st1 g1 hr
        · simp [hl, g1]
    · -- execS: the wrapper turning a `.propagate` fault into a `return`
      intro s regs st hA hs hregs
      simp only [execS]
      obtain ⟨e1, g⟩ := ihSC s regs st hA hs hregs
      rw [e1]; clear e1
      revert g
      generalize execSCore p n s regs st = r
      rcases r with ⟨flt, ste⟩ | ⟨sig, regs', st'⟩
      · intro g
        simp only [GoodR3_error] at g
        cases flt <;> simp [g, hregs]
      · intro g
        simp only [GoodR3_ok] at g
        simp [g]
    · -- execStmts
      intro ss regs st hA hss hregs
      cases ss with
      | nil => simp [execStmts, substSs, hA, hregs]
      | cons s rest =>
        simp only [okSs, Bool.and_eq_true] at hss
        simp only [execStmts, substSs]
        stepR3 (ihS s regs st hA hss.1 hregs) (execS p n s regs st) => sig regs' st' g
        cases sig with
        | normal => exact ihSs rest regs' st' g.1 hss.2 g.2
        | _ => simp [g]
    · -- runDefers
      intro ds st hA hds
      cases ds with
      | nil => simp [runDefers, substSs, hA]
      | cons d rest =>
        simp only [okSs, Bool.and_eq_true] at hds
        simp only [runDefers, substSs]
        have h := ihS d [] st hA hds.1 (by simp [okSs])
        simp only [substSs] at h
        stepR3 h (execS p n d [] st) => sig regs' st' g
        exact ihD rest st' g.1 hds.2
    · -- execBlock
      intro body st hA hb
      simp only [execBlock]
      have h := ihSs body [] st hA hb (by simp [okSs])
      simp only [substSs] at h
      stepR3 h (execStmts p n body [] st) => sig regs st' g
      stepR (ihD regs st' g.1 g.2) (runDefers p n regs st') => u st'' g2
      simp [g2]
    · -- execSCore
      intro s regs st hA hs hregs
      cases s with
      | letS x e =>
        simp only [okS, Option.isNone_iff_eq_none] at hs
        simp only [execSCore, substS]
        stepR (ihE e st hA) (evalE p n e st) => v st1 g1
        simp [eraseSt, erase_setVar hs, agree_setVar hs v g1, hregs]
      | assign pl e =>
        simp only [okS, Option.isNone_iff_eq_none] at hs
        simp only [execSCore, substS]
        stepR (ihE e st hA) (evalE p n e st) => v st1 g1
        stepR (ihW pl v st1 g1 hs) (writePlace p n pl v st1) => u st2 g2
        simp [g2, hregs]
      | opAssign op t pl e =>
        simp only [okS, Option.isNone_iff_eq_none] at hs
        simp only [execSCore, substS]
        stepR (ihR pl st hA hs) (readPlace p n pl st) => cur st1 g1
        stepR (ihE e st1 g1) (evalE p n e st1) => v st2 g2
        cases cur <;> cases v <;> (try (simp [g2]; done))
        rename_i a b
        cases hb : binInt op t a b with
        | none => simp [hb, g2]
        | some r =>
          simp only [hb]
          stepR (ihW pl (.int r) st2 g2 hs) (writePlace p n pl (.int r) st2) => u st3 g3
          simp [g3, hregs]
      | print e =>
        simp only [execSCore, substS]
        stepR (ihE e st hA) (evalE p n e st) => v st1 g1
        simp [eraseSt, g1, hregs]
      | ifS c a b =>
        simp only [okS, Bool.and_eq_true] at hs
        simp only [execSCore, substS]
        stepR (ihE c st hA) (evalE p n c st) => vc st1 g1
        cases vc with
        | bool bb =>
          cases bb
          · simp only []
            stepR (ihB b st1 g1 hs.2) (execBlock p n b st1) => sig st2 g2
            simp [g2, hregs]
          · simp only []
            stepR (ihB a st1 g1 hs.1) (execBlock p n a st1) => sig st2 g2
            simp [g2, hregs]
        | _ => simp [g1]
      | whileS l c body =>
        have hs' := hs
        simp only [okS] at hs
        simp only [execSCore, substS]
        stepR (ihE c st hA) (evalE p n c st) => vc st1 g1
        cases vc with
        | bool bb =>
          cases bb
          · simp [g1, hregs]
          · simp only []
            stepR (ihB body st1 g1 hs) (execBlock p n body st1) => sig st2 g2
            have hloop := ihS (.whileS l c body) regs st2 g2 hs' hregs
            simp only [substS] at hloop
            cases sig with
            | normal => exact hloop
            | cont l' =>
              by_cases hl : l' = l
              · simp only [hl, ↓reduceIte]; exact hloop
              · simp [hl, g2, hregs]
            | brk l' => by_cases hl : l' = l <;> simp [hl, g2, hregs]
            | ret v => simp [g2, hregs]
        | _ => simp [g1]
      | block label body =>
        simp only [okS] at hs
        simp only [execSCore, substS]
        stepR (ihB body st hA hs) (execBlock p n body st) => sig st1 g1
        cases sig <;> cases label <;> (try (simp [g1, hregs]; done))
        rename_i l l'
        by_cases hl : l = l' <;> simp [hl, g1, hregs]
      | brk l => simp [execSCore, substS, hA, hregs]
      | cont l => simp [execSCore, substS, hA, hregs]
      | ret o =>
        cases o with
        | none => simp [execSCore, substS, hA, hregs]
        | some e =>
          simp only [execSCore, substS]
          stepR (ihE e st hA) (evalE p n e st) => v st1 g1
          simp [g1, hregs]
      | deferS d =>
        simp only [okS] at hs
        simp [execSCore, substS, substSs, okSs, hA, hregs, hs]
      | exprS e =>
        simp only [execSCore, substS]
        stepR (ihE e st hA) (evalE p n e st) => v st1 g1
        simp [g1, hregs]
      | switchS scrut arg arms dflt =>
        simp only [okS_switch, Bool.and_eq_true] at hs
        obtain ⟨⟨harg, harms⟩, hd⟩ := hs
        simp only [substS_switch, execSCore_switch]
        stepR (ihE scrut st hA) (evalE p n scrut st) => v st1 g1
        cases hsel : selOf v with
        | none => simp [g1]
        | some kp =>
          obtain ⟨k, pl⟩ := kp
          simp only []
          exact switchTail_sim p σ n ihB arg regs st1 v arms dflt k pl g1 harg harms hd hregs

/-- the exact body-level equation, same fuel on both sides -/
theorem subst_body (p : Program) (σ : Subst) (fuel : Nat) (body : List Stmt) (st : St)
    (hA : Agree σ st.env) (hok : okSs σ body = true) :
    execBlock p fuel (substSs σ body) (eraseSt σ st) = mapR σ (execBlock p fuel body st) :=
  ((sim p σ fuel).2.2.2.2.2.2.2.1 body st hA hok).1

/-- the expression-level equation -/
theorem subst_expr (p : Program) (σ : Subst) (fuel : Nat) (e : Expr) (st : St)
    (hA : Agree σ st.env) :
    evalE p fuel (substE σ e) (eraseSt σ st) = mapR σ (evalE p fuel e st) :=
  ((sim p σ fuel).1 e st hA).1

/-- the statement-level equation -/
theorem subst_stmt (p : Program) (σ : Subst) (fuel : Nat) (s : Stmt) (regs : List Stmt) (st : St)
    (hA : Agree σ st.env) (hs : okS σ s = true) (hregs : okSs σ regs = true) :
    execS p fuel (substS σ s) (substSs σ regs) (eraseSt σ st) = mapR3 σ (execS p fuel s regs st) :=
  ((sim p σ fuel).2.2.2.2.1 s regs st hA hs hregs).1

/-! ### 4. generic functions -/

/-- a function with compile-time integer parameters -/
structure GFn where
  /-- runtime parameters -/
  rparams : List Nat
  /-- comptime parameters (id, integer type); modelled as the LAST parameters -/
  cparams : List (Nat × Ty)
  retTy : Ty
  body : List Stmt

/-- reference reading: a comptime parameter is an ordinary (trailing) parameter -/
def GFn.asFn (g : GFn) : Fn :=
  { params := g.rparams ++ g.cparams.map (·.1), retTy := g.retTy, body := g.body }

/-- zip the comptime parameters with their compile-time values -/
def mkSubst (g : GFn) (cs : List Int) : Subst :=
  (g.cparams.zip cs).map (fun pc => ⟨pc.1.1, pc.1.2, pc.2⟩)

/-- the literal standing for a comptime argument -/
def litOf (c : CArg) : Expr := .lit c.ty c.z

/-- `.lit t z` for each comptime parameter -/
def litArgs (g : GFn) (cs : List Int) : List Expr := (mkSubst g cs).map litOf

/-- the hand-substituted copy: comptime parameters dropped, their uses replaced by literals -/
def GFn.inst (g : GFn) (cs : List Int) : Fn :=
  { params := g.rparams, retTy := g.retTy, body := substSs (mkSubst g cs) g.body }

theorem mkSubst_ids (g : GFn) (cs : List Int) (h : cs.length = g.cparams.length) :
    (mkSubst g cs).map (·.x) = g.cparams.map (·.1) := by
  unfold mkSubst
  generalize g.cparams = ps at h
  induction ps generalizing cs with
  | nil => simp
  | cons q ps ih =>
    cases cs with
    | nil => simp at h
    | cons c cs =>
      simp only [List.length_cons, Nat.add_right_cancel_iff] at h
      simp only [List.zip_cons_cons, List.map_cons, List.cons.injEq, true_and]
      exact ih cs h

theorem mkSubst_length (g : GFn) (cs : List Int) (h : cs.length = g.cparams.length) :
    (mkSubst g cs).length = g.cparams.length := by
  simp [mkSubst, h]

theorem find_mem {σ : Subst} {x : Nat} {c : CArg} (h : σ.find x = some c) : c ∈ σ := by
  induction σ with
  | nil => simp [Subst.find] at h
  | cons d r ih =>
    simp only [Subst.find] at h
    split at h
    · cases h; simp
    · exact List.mem_cons_of_mem _ (ih h)

theorem find_ne_none_of_mem {σ : Subst} {c : CArg} (h : c ∈ σ) : σ.find c.x ≠ none := by
  induction σ with
  | nil => simp at h
  | cons d r ih =>
    simp only [Subst.find]
    split
    · simp
    · rename_i hne
      rcases List.mem_cons.mp h with rfl | h'
      · exact absurd rfl hne
      · exact ih h'

theorem find_none_of_not_mem {σ : Subst} {x : Nat} (h : x ∉ σ.map (·.x)) : σ.find x = none := by
  cases hf : σ.find x with
  | none => rfl
  | some c =>
    exfalso; apply h
    have := find_some_x hf
    exact List.mem_map.mpr ⟨c, find_mem hf, this⟩

theorem lookup_zip_append {x : Nat} {ps : List Nat} (h : x ∉ ps) (vs : List Val)
    (env : List (Nat × Val)) : lookup x (ps.zip vs ++ env) = lookup x env := by
  induction ps generalizing vs with
  | nil => simp
  | cons q ps ih =>
    cases vs with
    | nil => simp
    | cons v vs =>
      simp only [List.mem_cons, not_or] at h
      simp only [List.zip_cons_cons, List.cons_append, lookup, h.1, ↓reduceIte]
      exact ih h.2 vs

theorem lookup_self (σ : Subst) {x : Nat} {c : CArg} (h : σ.find x = some c) :
    lookup x (σ.map (fun c => (c.x, cval c))) = some (cval c) := by
  induction σ with
  | nil => simp [Subst.find] at h
  | cons d r ih =>
    simp only [Subst.find] at h
    simp only [List.map_cons, lookup]
    by_cases hd : d.x = x
    · simp only [hd, ↓reduceIte, Option.some.injEq] at h ⊢
      rw [h]
    · have hd' : ¬ x = d.x := fun e => hd e.symm
      simp only [hd, hd', ↓reduceIte] at h ⊢
      exact ih h

/-- the callee environment of the reference call binds the comptime parameters -/
theorem agree_callee (σ : Subst) (ps : List Nat) (vs : List Val)
    (hd : ∀ x ∈ ps, σ.find x = none) :
    Agree σ (ps.zip vs ++ σ.map (fun c => (c.x, cval c))) := by
  intro x c hc
  have hx : x ∉ ps := by
    intro hm; rw [hd x hm] at hc; cases hc
  rw [lookup_zip_append hx]
  exact lookup_self σ hc

/-- … and erasing them leaves the callee environment of the hand-substituted copy -/
theorem erase_callee (σ : Subst) (ps : List Nat) (vs : List Val)
    (hd : ∀ x ∈ ps, σ.find x = none) :
    erase σ (ps.zip vs ++ σ.map (fun c => (c.x, cval c))) = ps.zip vs := by
  unfold erase
  rw [List.filter_append]
  have h1 : (ps.zip vs).filter (fun yv => (σ.find yv.1).isNone) = ps.zip vs := by
    apply List.filter_eq_self.mpr
    intro yv hm
    have := hd yv.1 (List.of_mem_zip hm).1
    simp [this]
  have h2 : (σ.map (fun c => (c.x, cval c))).filter (fun yv => (σ.find yv.1).isNone) = [] := by
    apply List.filter_eq_nil_iff.mpr
    intro yv hm
    obtain ⟨c, hc, rfl⟩ := List.mem_map.mp hm
    have := find_ne_none_of_mem hc
    simp [this]
  rw [h1, h2, List.append_nil]

/-- literals evaluate to their values without touching the state (or run out of fuel) -/
theorem evalArgs_lits (p : Program) (σ : Subst) : ∀ fuel st,
    evalArgs p fuel (σ.map litOf) st = .ok (σ.map cval, st)
      ∨ evalArgs p fuel (σ.map litOf) st = .error (.outOfFuel, st) := by
  induction σ with
  | nil =>
    intro fuel st
    cases fuel <;> simp [evalArgs]
  | cons c r ih =>
    intro fuel st
    cases fuel with
    | zero => simp [evalArgs]
    | succ m =>
      cases m with
      | zero => simp [evalArgs, evalE]
      | succ k =>
        simp only [List.map_cons, evalArgs, litOf, evalE]
        rcases ih (k+1) st with h | h
        · left; rw [h]; rfl
        · right; rw [h]

theorem evalArgs_append_lits_ok (p : Program) (σ : Subst) : ∀ xs fuel st vs st',
    evalArgs p fuel (xs ++ σ.map litOf) st = .ok (vs, st') →
      ∃ vs₁, vs = vs₁ ++ σ.map cval ∧ evalArgs p fuel xs st = .ok (vs₁, st') := by
  intro xs
  induction xs with
  | nil =>
    intro fuel st vs st' h
    simp only [List.nil_append] at h
    cases fuel with
    | zero => simp [evalArgs] at h
    | succ m =>
      rcases evalArgs_lits p σ (m+1) st with h' | h'
      · rw [h'] at h
        simp only [Except.ok.injEq, Prod.mk.injEq] at h
        exact ⟨[], by simp [h.1], by simp [evalArgs, h.2]⟩
      · rw [h'] at h; cases h
  | cons e es ih =>
    intro fuel st vs st' h
    cases fuel with
    | zero => simp [evalArgs] at h
    | succ m =>
      simp only [List.cons_append, evalArgs] at h ⊢
      cases h1 : evalE p m e st with
      | error err => rw [h1] at h; cases h
      | ok r =>
        obtain ⟨v, st1⟩ := r
        rw [h1] at h
        simp only [] at h ⊢
        cases h2 : evalArgs p m (es ++ σ.map litOf) st1 with
        | error err => rw [h2] at h; cases h
        | ok r2 =>
          obtain ⟨vs2, st2⟩ := r2
          rw [h2] at h
          simp only [Except.ok.injEq, Prod.mk.injEq] at h
          obtain ⟨w, hw, hw2⟩ := ih m st1 vs2 st2 h2
          rw [hw2]
          exact ⟨v :: w, by simp [← h.1, hw], by simp [h.2]⟩

theorem evalArgs_append_lits_error (p : Program) (σ : Subst) : ∀ xs fuel st flt st',
    evalArgs p fuel (xs ++ σ.map litOf) st = .error (flt, st') → flt ≠ .outOfFuel →
      evalArgs p fuel xs st = .error (flt, st') := by
  intro xs
  induction xs with
  | nil =>
    intro fuel st flt st' h hne
    simp only [List.nil_append] at h
    rcases evalArgs_lits p σ fuel st with h' | h'
    · rw [h'] at h; cases h
    · rw [h'] at h; cases h; exact absurd rfl hne
  | cons e es ih =>
    intro fuel st flt st' h hne
    cases fuel with
    | zero => simp only [evalArgs] at h; cases h; exact absurd rfl hne
    | succ m =>
      simp only [List.cons_append, evalArgs] at h ⊢
      cases h1 : evalE p m e st with
      | error err => rw [h1] at h; exact h
      | ok r =>
        obtain ⟨v, st1⟩ := r
        rw [h1] at h
        simp only [] at h ⊢
        cases h2 : evalArgs p m (es ++ σ.map litOf) st1 with
        | error err =>
          obtain ⟨flt2, st2⟩ := err
          rw [h2] at h
          simp only [Except.error.injEq, Prod.mk.injEq] at h
          obtain ⟨rfl, rfl⟩ := h
          rw [ih m st1 flt2 st2 h2 hne]
        | ok r2 => rw [h2] at h; cases h

/-- **Substitution lemma.** Calling the hand-substituted copy `g.inst cs` with the runtime
arguments computes exactly what the reference generic call (the ordinary call of `g.asFn` with
the comptime literals appended) computes, whenever the latter does not run out of fuel. -/
theorem subst_lemma (p : Program) (g : GFn) (cs : List Int) (xs : List Expr) (f f' : Nat)
    (hf : p.fns[f]? = some g.asFn) (hf' : p.fns[f']? = some (g.inst cs))
    (hcs : cs.length = g.cparams.length)
    (hok : okSs (mkSubst g cs) g.body = true)
    (hdisj : ∀ x ∈ g.rparams, x ∉ g.cparams.map (·.1))
    (fuel : Nat) (st : St)
    (hfuel : ∀ st', evalE p fuel (.call f (xs ++ litArgs g cs)) st ≠ .error (.outOfFuel, st')) :
    evalE p fuel (.call f' xs) st = evalE p fuel (.call f (xs ++ litArgs g cs)) st := by
  cases fuel with
  | zero => exact absurd (by simp [evalE]) (hfuel st)
  | succ n =>
    have hσ : ∀ x ∈ g.rparams, (mkSubst g cs).find x = none := by
      intro x hx
      apply find_none_of_not_mem
      rw [mkSubst_ids g cs hcs]
      exact hdisj x hx
    simp only [evalE, litArgs] at hfuel ⊢
    cases h : evalArgs p n (xs ++ (mkSubst g cs).map litOf) st with
    | error err =>
      obtain ⟨flt, st'⟩ := err
      rw [h] at hfuel
      have hne : flt ≠ .outOfFuel := by
        intro e; subst e; exact hfuel st' rfl
      rw [evalArgs_append_lits_error p _ xs n st flt st' h hne]
    | ok r =>
      obtain ⟨vs, st1⟩ := r
      obtain ⟨vs₁, rfl, h1⟩ := evalArgs_append_lits_ok p _ xs n st vs st1 h
      rw [h1]
      simp only [hf, hf', GFn.asFn, GFn.inst, List.length_append, List.length_map,
        mkSubst_length g cs hcs]
      by_cases hl : g.rparams.length = vs₁.length
      · simp only [hl, ne_eq, not_true_eq_false, ↓reduceIte]
        rw [List.zip_append hl, ← mkSubst_ids g cs hcs, List.zip_map']
        have hA := agree_callee (mkSubst g cs) g.rparams vs₁ hσ
        have hE := erase_callee (mkSubst g cs) g.rparams vs₁ hσ
        have hB := subst_body p (mkSubst g cs) n g.body
          { env := g.rparams.zip vs₁ ++ (mkSubst g cs).map (fun c => (c.x, cval c)),
            out := st1.out } hA hok
        simp only [eraseSt, hE] at hB
        rw [hB]
        cases execBlock p n g.body
          { env := g.rparams.zip vs₁ ++ (mkSubst g cs).map (fun c => (c.x, cval c)),
            out := st1.out } with
        | error err => obtain ⟨flt, st2⟩ := err; simp [eraseSt]
        | ok r => obtain ⟨sig, st2⟩ := r; cases sig <;> simp [eraseSt]
      · simp [hl]

/-- the same with the comptime ids pairwise distinct and disjoint from the runtime parameters,
stated as `Nodup` of the reference parameter list -/
theorem subst_lemma_nodup (p : Program) (g : GFn) (cs : List Int) (xs : List Expr) (f f' : Nat)
    (hf : p.fns[f]? = some g.asFn) (hf' : p.fns[f']? = some (g.inst cs))
    (hcs : cs.length = g.cparams.length)
    (hok : okSs (mkSubst g cs) g.body = true)
    (hnd : (g.rparams ++ g.cparams.map (·.1)).Nodup)
    (fuel : Nat) (st : St)
    (hfuel : ∀ st', evalE p fuel (.call f (xs ++ litArgs g cs)) st ≠ .error (.outOfFuel, st')) :
    evalE p fuel (.call f' xs) st = evalE p fuel (.call f (xs ++ litArgs g cs)) st :=
  subst_lemma p g cs xs f f' hf hf' hcs hok
    (fun x hx hc => (List.nodup_append.mp hnd).2.2 x hx x hc rfl) fuel st hfuel

/-! ### 5. the function index is not observable -/

theorem call_index_irrelevant (p : Program) (fn : Fn) (f1 f2 : Nat)
    (h1 : p.fns[f1]? = some fn) (h2 : p.fns[f2]? = some fn)
    (xs : List Expr) (fuel : Nat) (st : St) :
    evalE p fuel (.call f1 xs) st = evalE p fuel (.call f2 xs) st := by
  cases fuel with
  | zero => simp [evalE]
  | succ n => simp only [evalE, h1, h2]

/-- two copies made from equal comptime arguments are interchangeable -/
theorem equal_args_equal_copy (p : Program) (g : GFn) (cs : List Int) (f1 f2 : Nat)
    (h1 : p.fns[f1]? = some (g.inst cs)) (h2 : p.fns[f2]? = some (g.inst cs))
    (xs : List Expr) (fuel : Nat) (st : St) :
    evalE p fuel (.call f1 xs) st = evalE p fuel (.call f2 xs) st :=
  call_index_irrelevant p (g.inst cs) f1 f2 h1 h2 xs fuel st

/-! ### 6. type parameters -/

/-- `CapyCore` is untyped: types occur only as annotations inside the syntax. A type-generic
function is therefore a family `F : Ty → GFn`, and instantiating it at `t` *is* the monomorphic
copy `F t` — this definitional remark is the whole content on an untyped semantics. -/
def instTy (F : Ty → GFn) (t : Ty) : GFn := F t

theorem instTy_call (p : Program) (F : Ty → GFn) (t : Ty) (f : Nat)
    (h : p.fns[f]? = some (instTy F t).asFn) : p.fns[f]? = some (F t).asFn := h

/-! ### 7. non-vacuity -/

namespace Ex
def i32 : Ty := .int true 32

/-- `fn g(x1, comptime x2: i32) i32 { return x1 * x2 }` -/
def g : GFn :=
  { rparams := [1], cparams := [(2, i32)], retTy := i32,
    body := [.ret (some (.bin .mul i32 (.var 1) (.var 2)))] }

/-- `main` prints the reference generic call `g(6, 7)` and the call of the copy `g_7(6)` -/
def prog : Program :=
  { fns := [ { params := [], retTy := .void,
               body := [ .print (.call 1 ([.lit i32 6] ++ litArgs g [7])),
                         .print (.call 2 [.lit i32 6]) ] },
             g.asFn, g.inst [7] ] }

example : mkSubst g [7] = [⟨2, i32, 7⟩] := rfl
example : litArgs g [7] = [.lit i32 7] := rfl
/-- `substE` really rewrites: the copy multiplies by the literal `7` -/
example : (g.inst [7]).body = [.ret (some (.bin .mul i32 (.var 1) (.lit i32 7)))] := rfl
example : (g.inst [7]).params = [1] := rfl
example : g.asFn.params = [1, 2] := rfl
-- the hypotheses of `subst_lemma` hold
example : prog.fns[1]? = some g.asFn := rfl
example : prog.fns[2]? = some (g.inst [7]) := rfl
example : ([7] : List Int).length = g.cparams.length := rfl
example : okSs (mkSubst g [7]) g.body = true := by decide
example : (g.rparams ++ g.cparams.map (·.1)).Nodup := by decide
example : ∀ x ∈ g.rparams, x ∉ g.cparams.map (·.1) := by decide
-- `okS` does reject bodies that assign a comptime parameter
example : okSs (mkSubst g [7]) [.assign (.var 2) (.lit i32 0)] = false := by decide
example : okSs (mkSubst g [7]) [.letS 2 (.lit i32 0)] = false := by decide
-- substitution goes through `switch` arms, the default arm and a variant payload;
-- a `switch` may not bind a comptime parameter
example : substS (mkSubst g [7])
      (.switchS (.variantLit 0 (some (.var 2))) (some 3) [(0, [.print (.var 2)])] (some [.print (.var 2)]))
    = .switchS (.variantLit 0 (some (.lit i32 7))) (some 3) [(0, [.print (.lit i32 7)])]
        (some [.print (.lit i32 7)]) := rfl
example : okS (mkSubst g [7]) (.switchS (.var 1) (some 3) [(0, [.print (.var 2)])] none) = true := by
  decide
example : okS (mkSubst g [7]) (.switchS (.var 1) (some 2) [] none) = false := by decide
example : okS (mkSubst g [7]) (.switchS (.var 1) none [(0, [.letS 2 (.lit i32 0)])] none) = false := by
  decide

/-- the instance of `subst_lemma` for this program -/
example (fuel : Nat) (st : St)
    (h : ∀ st', evalE prog fuel (.call 1 ([.lit i32 6] ++ litArgs g [7])) st
          ≠ .error (.outOfFuel, st')) :
    evalE prog fuel (.call 2 [.lit i32 6]) st
      = evalE prog fuel (.call 1 ([.lit i32 6] ++ litArgs g [7])) st :=
  subst_lemma prog g [7] [.lit i32 6] 1 2 rfl rfl rfl (by decide) (by decide) fuel st h

/-- both calls really compute `42`, and the fuel hypothesis is satisfiable -/
example : evalE prog 7 (.call 1 ([.lit i32 6] ++ litArgs g [7])) ⟨[], []⟩
    = .ok (.int 42, ⟨[], []⟩) := by rfl
example : evalE prog 7 (.call 2 [.lit i32 6]) ⟨[], []⟩ = .ok (.int 42, ⟨[], []⟩) := by rfl
example : run prog 12 = ⟨["42", "42"], "exit=0"⟩ := by rfl
end Ex

#print axioms sim
#print axioms subst_body
#print axioms subst_lemma
#print axioms subst_lemma_nodup
#print axioms equal_args_equal_copy

end CapyV.Core.Generic
