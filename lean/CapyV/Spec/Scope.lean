import CapyV.Model.Scope
/-
C05 — lexical scoping as the property states it, written from the property text: an
*environment* (the visible bindings, innermost first) is passed down the syntax tree; there
is no mutable state, so a binding introduced inside a block or a switch arm cannot be visible
after it.

* an identifier refers to the first binding of its name in the environment; otherwise to the
  global of the file with that name; otherwise to the built-in type of that name or `nil`;
  otherwise it is undefined;
* `x := e` binds `x` for the *rest* of its block (not in `e`, not earlier, not after the block);
* `switch x in e { v => b … }` binds `x` in each arm's body `b` only (a different binding per
  arm; not in `e`, not in the variant `v`, not after the switch);
* a lambda's parameters are visible in its body; a lambda body sees **nothing else** of its
  surroundings except globals (Capy functions do not capture); inside the header, the type of a
  parameter and the return type see the earlier parameters (as `InlineParam` when `comptime`,
  as the error `InlineParamNotComptime` otherwise) and then whatever the lambda expression
  itself sees; of two parameters with the same name the later one wins;
* `comptime e` is evaluated at compile time: of the surrounding bindings it sees only header
  parameters (which are compile-time values) — no locals, no switch arguments, no parameters.
-/
namespace CapyV.Scope

/-- the visible bindings, innermost first -/
abbrev SEnv := List (Nat × Res)

def specOuter (env : Env) (x : Nat) : Res :=
  if env.globals.contains x then .global x
  else if env.prims.contains x then .prim x
  else if x == env.nilKey then .nil
  else .undefined x

def specLookup (env : Env) (se : SEnv) (x : Nat) : Res :=
  match se.lookup x with
  | some r => r
  | none => specOuter env x

/-- bindings that are compile-time values of a lambda header -/
def Res.isHeader : Res → Bool
  | .inlineParam .. => true
  | .inlineNotComptime _ => true
  | _ => false

def headerBinding (x tag : Nat) (ct : Bool) (idx cidx : Nat) : Nat × Res :=
  (x, if ct then .inlineParam tag idx cidx else .inlineNotComptime x)

def bodyBinding (x tag : Nat) (ct : Bool) (idx cidx : Nat) : Nat × Res :=
  (x, if ct then .comptimeParam tag idx cidx else .param tag idx)

def bindArg (arg : Option Nat) (tag : Nat) (se : SEnv) : SEnv :=
  match arg with
  | some x => (x, .switchArg tag) :: se
  | none => se

mutual
def specExpr (env : Env) : Expr → SEnv → List Res
  | .lit, _ => []
  | .use x, se => [specLookup env se x]
  | .seq es, se => specExprs env es se
  | .block ss tail, se =>
    match specStmts env ss se with
    | (r, se') => r ++ specExpr env tail se'
  | .switch arg scrut arms, se => specExpr env scrut se ++ specArms env arg arms se
  | .lambda ps ret body tail, se =>
    match specParams env ps 0 0 se [] with
    | (r1, seHeader, seBody) =>
      r1 ++ specExpr env ret seHeader ++
        (match specStmts env body seBody with
         | (r3, se') => r3 ++ specExpr env tail se')
  | .comptime e, se => specExpr env e (se.filter (·.2.isHeader))
def specExprs (env : Env) : Exprs → SEnv → List Res
  | .nil, _ => []
  | .cons e rest, se => specExpr env e se ++ specExprs env rest se
/-- the uses in the statements, and the environment after them (for the rest of the block) -/
def specStmts (env : Env) : Stmts → SEnv → List Res × SEnv
  | .nil, se => ([], se)
  | .defn x tag ty val rest, se =>
    match specStmts env rest ((x, .local tag) :: se) with
    | (r, se') => (specExpr env ty se ++ specExpr env val se ++ r, se')
  | .expr e rest, se =>
    match specStmts env rest se with
    | (r, se') => (specExpr env e se ++ r, se')
def specArms (env : Env) (arg : Option Nat) : Arms → SEnv → List Res
  | .nil, _ => []
  | .cons tag variant body rest, se =>
    specExpr env variant se ++ specExpr env body (bindArg arg tag se) ++ specArms env arg rest se
/-- the uses in the parameter types, the environment of the rest of the header, the
environment of the body -/
def specParams (env : Env) : Params → Nat → Nat → SEnv → SEnv → List Res × SEnv × SEnv
  | .nil, _, _, seH, seB => ([], seH, seB)
  | .cons x tag ct ty rest, idx, cidx, seH, seB =>
    match specParams env rest (idx + 1) (if ct then cidx + 1 else cidx)
        (headerBinding x tag ct idx cidx :: seH) (bodyBinding x tag ct idx cidx :: seB) with
    | (r, seH', seB') => (specExpr env ty seH ++ r, seH', seB')
end

/-- every global's annotation and value is resolved in the empty environment -/
def specGlobals (env : Env) : List Global → List Res
  | [] => []
  | g :: rest => specExpr env g.ty [] ++ specExpr env g.val [] ++ specGlobals env rest

def spec (env : Env) (gs : List Global) : List Res := specGlobals env gs

end CapyV.Scope
