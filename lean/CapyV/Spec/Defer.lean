import CapyV.Model.Defer
/-
C03 — the structural semantics the property demands, written from the property text:
leaving a construct (by falling off its end, `break`, `continue`, `return` or `.try`
propagation) runs the defers *registered in it so far*, newest first; inner constructs
before outer ones; nothing else runs.
-/
namespace CapyV.Defer

mutual
/-- `regs`: defers registered so far in the enclosing block's current activation (newest
first). Returns the signal, the updated registrations and the state. -/
def execS (fuel : Nat) : Stmt → List Nat → St → Sig × List Nat × St
  | .print c, regs, st => (.normal, regs, st.emit c)
  | .defer c, regs, st => (.normal, c :: regs, st)
  | .block label body, regs, st =>
    match execBlockS fuel body st with
    | (.brk l, st') => if label = some l then (.normal, regs, st') else (.brk l, regs, st')
    | (sig, st') => (sig, regs, st')
  | .ifS body, regs, st =>
    match st.decide with
    | (false, st1) => (.normal, regs, st1)
    | (true, st1) =>
      match execBlockS fuel body st1 with
      | (sig, st') => (sig, regs, st')
  | .loop label body, regs, st =>
    match iter (fun st =>
      match st.decide with
      | (false, st1) => (some .normal, st1)
      | (true, st1) =>
        match execBlockS fuel body st1 with
        | (.normal, st') => (none, st')
        | (.brk l, st') => if l = label then (some .normal, st') else (some (.brk l), st')
        | (.cont l, st') => if l = label then (none, st') else (some (.cont l), st')) fuel st with
    | (sig, st') => (sig, regs, st')
  | .brk l, regs, st => (.brk l, regs, st)
  | .cont l, regs, st => (.cont l, regs, st)
  | .tryS l, regs, st =>
    match st.decide with
    | (false, st1) => (.normal, regs, st1)
    | (true, st1) => (.brk l, regs, st1)
def execStmtsS (fuel : Nat) : Stmts → List Nat → St → Sig × List Nat × St
  | .nil, regs, st => (.normal, regs, st)
  | .cons s rest, regs, st =>
    match execS fuel s regs st with
    | (.normal, regs', st') => execStmtsS fuel rest regs' st'
    | (sig, regs', st') => (sig, regs', st')
/-- a block activation: run the body with no registrations, then — however the body was
left — run what was registered, newest first -/
def execBlockS (fuel : Nat) : Stmts → St → Sig × St
  | body, st =>
    match execStmtsS fuel body [] st with
    | (sig, regs, st') => (sig, st'.emits regs)
end

/-- the function body is a block labelled `0`; `return` is `brk 0` -/
def runSpec (fuel : Nat) (body : Stmts) (oracle : List Bool) : List Nat :=
  (execS fuel (.block (some 0) body) [] { trace := [], oracle }).2.2.trace.reverse

end CapyV.Defer
