import CapyV.Model.Defer
/-
C03 — the structural semantics the property demands, written from the property text:
leaving a block activation in ANY way (falling off its end, `break`, `continue`, `return`,
`.try` propagation) runs the deferred bodies *registered in that activation so far*, newest
first, each exactly once; inner activations before outer ones; nothing else runs. Running a
deferred body is itself a block activation: it has its own registrations (a `defer` nested
in it is run when *it* is left) and its own internal jumps.

`loopC l cond body` (`l: while { cond; <decision> } { body }`): the condition is a block
activation like any other (its deferred bodies run when it is left: by a jump, or at its end
after the decision, its tail expression, has been drawn); `break l` / `continue l` in it leave /
restart the loop exactly as they do in the body and run nothing of the enclosing activations.

A registration is recorded as the action "run this body as a block activation" (`Reg`); an
activation that is left runs its registered actions, newest first (`runRegs`). A deferred
body cannot be left by a jump (HIR rejects `break`/`continue`/`return`/`.try` that leave a
`defer`, see `wellScoped`), so the signal of its activation is dropped.
-/
namespace CapyV.Defer

/-- a registered deferred body: what running it does to the state -/
abbrev Reg := St → St

/-- run the registered actions, newest (head) first, each once -/
def runRegs (regs : List Reg) (st : St) : St := regs.foldl (fun st r => r st) st

mutual
/-- `regs`: what was registered so far in the enclosing block's current activation (newest
first). Returns the signal, the updated registrations and the state. -/
def execS (fuel : Nat) : Stmt → List Reg → St → Sig × List Reg × St
  | .print c, regs, st => (.normal, regs, st.emit c)
  | .defer b, regs, st => (.normal, (fun st => (execBlockS fuel b st).2) :: regs, st)
  | .block label body, regs, st =>
    match execBlockS fuel body st with
    | (.brk l, st') => if label = some l then (.normal, regs, st') else (.brk l, regs, st')
    | (sig, st') => (sig, regs, st')
  | .ifS body, regs, st =>
    match st.decide with
    | (false, st1) => (.normal, regs, st1)
    | (true, st1) =>
      match execBlockS fuel body st1 with
      | (sig, st') => (sig, regs, st')
  | .loop label body, regs, st =>
    match iter (fun st =>
      match st.decide with
      | (false, st1) => (some .normal, st1)
      | (true, st1) =>
        match execBlockS fuel body st1 with
        | (.normal, st') => (none, st')
        | (.brk l, st') => if l = label then (some .normal, st') else (some (.brk l), st')
        | (.cont l, st') => if l = label then (none, st') else (some (.cont l), st')) fuel st with
    | (sig, st') => (sig, regs, st')
  | .loopC label cond body, regs, st =>
    match iter (fun st =>
      -- the condition is a block activation of its own whose tail expression is the decision:
      -- however it is left, what was deferred in it so far runs (newest first); when it runs to
      -- its end the decision is drawn BEFORE those deferred bodies run
      match execStmtsS fuel cond [] st with
      | (.normal, cregs, st0) =>
        match st0.decide with
        | (false, st1) => (some .normal, runRegs cregs st1)
        | (true, st1) =>
          match execBlockS fuel body (runRegs cregs st1) with
          | (.normal, st') => (none, st')
          | (.brk l, st') => if l = label then (some .normal, st') else (some (.brk l), st')
          | (.cont l, st') => if l = label then (none, st') else (some (.cont l), st')
      -- `break label` in the condition leaves the loop, `continue label` starts the next
      -- iteration (the condition again), other jumps travel on
      | (.brk l, cregs, st0) =>
        if l = label then (some .normal, runRegs cregs st0) else (some (.brk l), runRegs cregs st0)
      | (.cont l, cregs, st0) =>
        if l = label then (none, runRegs cregs st0) else (some (.cont l), runRegs cregs st0)) fuel st with
    | (sig, st') => (sig, regs, st')
  | .brk l, regs, st => (.brk l, regs, st)
  | .cont l, regs, st => (.cont l, regs, st)
  | .tryS l, regs, st =>
    match st.decide with
    | (false, st1) => (.normal, regs, st1)
    | (true, st1) => (.brk l, regs, st1)
def execStmtsS (fuel : Nat) : Stmts → List Reg → St → Sig × List Reg × St
  | .nil, regs, st => (.normal, regs, st)
  | .cons s rest, regs, st =>
    match execS fuel s regs st with
    | (.normal, regs', st') => execStmtsS fuel rest regs' st'
    | (sig, regs', st') => (sig, regs', st')
/-- a block activation: run the body with no registrations, then — however the body was
left — run what was registered, newest first -/
def execBlockS (fuel : Nat) : Stmts → St → Sig × St
  | body, st =>
    match execStmtsS fuel body [] st with
    | (sig, regs, st') => (sig, runRegs regs st')
end

/-- running a deferred body = one block activation of it -/
def runner (fuel : Nat) (b : Stmts) : Reg := fun st => (execBlockS fuel b st).2

/-- the function body is a block labelled `0`; `return` is `brk 0` -/
def runSpec (fuel : Nat) (body : Stmts) (oracle : List Bool) : List Nat :=
  (execS fuel (.block (some 0) body) [] { trace := [], oracle }).2.2.trace.reverse

end CapyV.Defer
