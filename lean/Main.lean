import CapyV.Driver.C25
import CapyV.Driver.C17
import CapyV.Driver.C03
import CapyV.Driver.C27
import CapyV.Driver.C22
import CapyV.Driver.C23
import CapyV.Driver.Core
import CapyV.Driver.CoreMem
import CapyV.Driver.C26
import CapyV.Driver.C07
import CapyV.Driver.C12
import CapyV.Driver.C24
import CapyV.Driver.C10
import CapyV.Driver.C28
import CapyV.Driver.C05
import CapyV.Driver.C08
import CapyV.Driver.C14
import CapyV.Driver.C09
import CapyV.Driver.C01
import CapyV.Driver.C02
import CapyV.Driver.C15
import CapyV.Driver.C11
import CapyV.Driver.C04
import CapyV.Driver.C18
import CapyV.Driver.C19
import CapyV.Driver.C16
open CapyV.Driver

def dispatch (line : String) : String :=
  match words line with
  | "C25" :: args => c25 args
  | "C17" :: args => c17 args
  | "C03" :: args => c03 args
  | "C27" :: args => c27 args
  | "C22" :: args => c22 args
  | "C23" :: args => c23 args
  | "CORE" :: args => coreMem args
  | "C26" :: args => c26 args
  | "C07" :: args => c07 args
  | "C12" :: args => c12 args
  | "C13" :: args => c12 args
  | "C24" :: args => c24 args
  | "C10" :: args => c10 args
  | "C28" :: args => c28 args
  | "C05" :: args => c05 args
  | "C08" :: args => c08 args
  | "C14" :: args => c14 args
  | "C09" :: args => c09 args
  | "C01" :: args => c01 args
  | "C02" :: args => c02 args
  | "C15" :: args => c15 args
  | "C11" :: args => c11 args
  | "C04" :: args => c04 args
  | "C18" :: args => c18 args
  | "C19" :: args => c19 args
  | "C16" :: args => c16 args
  | _ => "bad-op"

partial def loop (h : IO.FS.Stream) (out : IO.FS.Stream) : IO Unit := do
  let line ← h.getLine
  if line.isEmpty then return ()
  out.putStrLn (dispatch line)
  loop h out

def main : IO Unit := do
  let out ← IO.getStdout
  loop (← IO.getStdin) out
  out.flush
