"""Registration of C11 (loaded by tools/props.py)."""
from common import TB_COMMON

PROP = {
    "lean_modules": ["CapyV.Props.C11"],
    "level": "proof",
    "needs_cli": True,
    "trusted_base": TB_COMMON + [
        "CapyV.Switch.checkSwitch / resolveArms / markArm / coverArms / uncovered are a hand transcription of the three loops of infer_expr Expr::Switch (hir_ty/src/globals.rs) after FIX.patch; checkSwitchPinned / resolveArmsPinned / hasSumVariant transcribe the pinned code; the harness probes which of the two the tree under test contains and compares against that one, diagnostic by diagnostic (kinds + the Intern<Ty> they carry), on the real types read back from the analysis",
        "assignDiscriminants transcribes the two passes of Expr::EnumDecl in Nat (the code uses u64; manual values are < 256 by the u8 check, so `discrim += 1` cannot wrap); compared with the discriminants inside the real Ty::Enum on every generated enum",
        "compileSwitch / tableEntries / dispatch / binding abstract codegen's Expr::Switch: the Cranelift `Switch` is a lookup of the loaded tag byte in the (discriminant → arm block) table with the default block as fallback, `brif` on `ptr != 0` for nullable pointers; unwrap_sum_ty reads the payload at offset 0 (payload offset and tag offset are C17's layout theorems); value representation (tag byte = discriminant mod 256 written by cast_payload_into_tagged_union, nil = null pointer) is an assumption of the dispatch theorem (stores are C02's subject) and is exercised end to end",
        "arm bodies are not modelled (SwitchMismatch / result type unification are outside the property); lowering diagnostics MultipleDefaultArms / RegularArmAfterDefault are not modelled (generated switches have at most one default arm, last)",
        "Cranelift, gcc/ld, core.println for the end-to-end stream",
    ],
    "assumptions": [
        "the scrutinee's absolute type is an enum, optional or error union whose variant types are pairwise different (enum variants carry unique uids; `E!E` is rejected by ImpossibleToDifferentiateErrorUnion; `?nil` excluded) and, for enums, every variant is a Ty::EnumVariant",
        "dispatch theorem: discriminants are below 256 (false for automatic discriminants after `| 255`: known finding auto-discriminant-exceeds-u8, see dispatch_needs_u8_discriminants_counterexample)",
        "fully-qualified arms are type expressions that const_ty resolves",
    ],
}

# (category, text, design_ref, technique)
LEVEL = ("proof",
         "Lean 4 theorems about a transcription of the switch check, the discriminant assignment and the generated dispatch: accepted_iff (no diagnostic and no panic <=> every arm names a variant of the scrutinee's sum type, no variant is named twice, and all variants are named or there is a default arm — for every scrutinee incl. distinct wrappers, every arm list, shorthand and fully-qualified), discriminants_injective (no DiscriminantUsedAlready => pairwise different discriminants, manual ones as written), dispatch_selects_current_variant (for an accepted switch over a tagged union with injective discriminants < 256 the jump table sends a value of variant v to exactly the arm naming v, else to the default arm, never to the trap) and payload_binding_exact (the argument is the payload typed as that variant / the whole value in the default arm); pinned_* theorems show the unpatched code reaches unreachable!() on distinct wrappers and nil-like arms and agrees with the patched code elsewhere. The pinned tree violates the property in five ways that FIX.patch repairs (distinct wrappers, nil-like arm types, default arm on ?^T, pointer payloads) or that stay known findings (automatic discriminant 256, array-type arm). Each run compares the model with the real front end in-process on ~2 000 (thorough ~17 000) generated switches incl. all arm lists up to length 2 (3) over 7 small sum types, and builds + runs a sample of accepted switches with the real CLI, one run per variant value; every such program also uses its switch as a VALUE with every second arm leaving through `return` (fix 97f7ffe).",
         "§4 C11",
         "Lean 4 proof (loop invariants over the coverage flags; injectivity of the discriminant assignment; table lookup) + differential correspondence in-process and end to end")
