"""Registration of C12 (loaded by tools/props.py)."""
from common import TB_COMMON

PROP = {
    'lean_modules': ['CapyV.Props.C12'],
    'level': 'proof',
    "trusted_base": TB_COMMON + [   'hand transcription of Ty::{can_fit_into, can_cast_to, is_weak_replaceable_by, '
    'is_functionally_equivalent_to, has_semantics_of, max} (lean/CapyV/Model/TyRel.lean), arm by arm in the '
    'Rust order; guarded arms of max continue in maxFrom20/21/22 (the shortcut `(variant, enum)` / '
    '`(optional, x)` guard-failure → arm 20 is justified in the file and exercised by the correspondence '
    'run)',
    'FxHashMap semantics of the anonymous-struct arms modelled as lookup of the last member with that name '
    '(Members.lookupLast)',
    'bit widths are Nat in the model (u8 in the code; the only arithmetic, w*2 under w<64, cannot overflow)',
    "`accepts` = expect_match's decision for a concrete expected type (zero-sized value where `type` is "
    'expected, else can_fit_into), transcribed by hand from hir_ty/src/globals.rs; the int-literal shortcut '
    'of expect_match is not modelled',
    'ENUM_MAP is an explicit parameter; TableOk (a uid maps to an enum with that uid) is what set_enum_uid '
    'asserts'],
    'assumptions': [   'three of the five laws are false of the current code and are stated as _partial + _counterexample '
    '(known findings); the partial guards are the decidable predicates elemEquivFits / maxPlain / commOk of '
    'Model/TyRel.lean',
    'max_comm: operands are not two different marker types (Unknown / AlwaysJumps) and not two different '
    'distinct types sharing a uid'],
}

# (category, text, design_ref, technique)
LEVEL = ('proof',
 'The five laws are Lean 4 theorems about an arm-by-arm transcription of Ty::{can_fit_into, can_cast_to, '
 'is_weak_replaceable_by, is_functionally_equivalent_to, has_semantics_of, max} for ALL types (no depth '
 'bound): fit_refl and fit_imp_cast in full; weak_imp_fit, max_accepts_both and max_comm are FALSE of the '
 'current code and are proved as _partial theorems under explicit decidable guards plus _counterexample '
 'theorems at concrete witnesses (compiler panic on `x : [1]S2 = .[ s1 ]`; max(f64, distinct f32) = distinct '
 'f32; max(Unknown, AlwaysJumps)). The model is tied to the code each run by calling the real pub Ty methods '
 'in-process on all ordered pairs of ~1300 types (every primitive, weak numbers, nil/void/markers, a nominal '
 'pool, one constructor layer; ~1.7 M pairs in thorough, ~30 k in quick) plus seeded depth-2 pairs and max '
 'triples (0 disagreements required, panics are modelled outcomes), and the laws are evaluated directly on '
 "the implementation's answers; known violations are reported as KNOWN-FINDING by model-branch label.",
 '§4 C12',
 'Lean 4 proof (well-founded recursion on the pair of types, one goal per Rust match arm) + exhaustive-pairs '
 'differential correspondence on the real crate')
