"""Registration of C20 (loaded by tools/props.py)."""
from common import TB_COMMON

PROP = {
    "lean_modules": ["CapyV.Props.C20"],
    "level": "translation_validation",
    "needs_cli": True,
    "trusted_base": TB_COMMON + [
        "the abstract model CapyV.OrderIndep (items are offered, infer completes an item from the results of the globals it refers to or registers the missing ones) abstracts InferenceCtx::finish; that the real 5 500-line infer is a function of the item and of the results it reads is NOT proved — it is what the permutation / partition runs test end to end",
        "the cyclic branch of finish (peek_all_cyclic + sort_by) is not modelled (cyclic_never_completes states what the model does there)",
        "C26 (the scheduler offers exactly the ready items) links the abstract `leaves` to topo::TopoSort",
        "real capy CLI, gcc/ld, core.println",
    ],
    "assumptions": [
        "accepted generated programs of the CapyCore fragment (structs, functions, calls) with 3-12 global definitions",
    ],
}

# (category, text, design_ref, technique)
LEVEL = ("translation_validation",
         "Two streams. (A) per CapyCore program: the real CLI builds the same generated program with its global definitions in 4 textual orders and in 2 partitions over 2-3 mutually importing files; (B) dependency graphs of 3-12 global definitions (typed / alias-annotated / untyped constants, constants that are other constants, constants computed by comptime blocks calling functions and generics, aliases of aliases, structs and functions over aliases, a generic, array lengths from constants) in the generator's order, 3 permutations and 3 partitions, every cross-file reference qualified, compared with an independent evaluation of the graph (this stream found c70a153, ad641e3, d3d0ed9); acceptance, stdout and exit status must coincide across all variants (and the baseline must match the Lean reference interpreter). Behind it, Lean theorems on an abstract model of the inference loop: the results a finished run stores are the unique solution of the reference equations whatever the order in which the globals were registered (final_results_independent_of_seed_order, results_are_the_solution, finished_covers_reachable, done_keys_nodup), acyclic systems always finish (acyclic_finishes), and the cyclic case is explicitly outside the model (cyclic_never_completes). Partial: the real infer is not modelled, so the theorems do not by themselves decide the property for the code; the end-to-end runs do, per program.",
         "§4 C20",
         "end-to-end translation validation over permutations/partitions + Lean 4 proof of order-independence on an abstract model of the inference loop")
