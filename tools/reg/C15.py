"""Registration of C15 (loaded by tools/props.py)."""
from common import TB_COMMON

PROP = {
    'lean_modules': ['CapyV.Props.C15'],
    'needs_cli': True,
    'level': 'proof',
    "trusted_base": TB_COMMON + [
        'hand transcription of get_const / const_data / the ArrayDecl, EnumDecl and evaluate_comptime_args use sites and '
        'finish_body (lean/CapyV/Model/Const.lean) — the code AFTER FIX.patch (ancestor check in get_const, `loc` instead '
        'of `self.loc` in const_data); two rewrites: the processed prefix of `to_check` is dropped (FIFO), an arm value '
        'Runtime/Unknown and an early return are the same step',
        'the node table of a generated case (which expression refers to which definition, mutable / extern / finished / '
        '`previous` is a file / type class) is produced by the harness generator next to the Capy source, not extracted '
        'from the HIR; the correspondence run is what ties it to the real front end',
        'a comptime block denotes the value the JIT returns for it (C04), a comptime parameter the value bound at the call',
        'the type-annotation position itself goes through const_ty (LocalTyIsMutable, CantUseAsTy, ParamNotATy, Mismatch), '
        'which is not modelled; type-valued expressions are covered as comptime arguments of type `type`',
    ],
    'assumptions': [
        'soundness (accepted ⇒ const by the README rule) is proved under Prog.soundOk: no expression takes the '
        '`Ty::Type | Ty::File` fallback unless it is a type literal, and there is no Expr::Missing; both exclusions have a '
        'counterexample theorem, the first one is a known finding (a call returning `type` as comptime argument panics)',
        'completeness (const ⇒ accepted) additionally needs an acyclic reference graph, finished globals, no char literal; '
        'it is not part of the property (which only forbids accepting non-consts)',
        'array_len_exact / discriminant_exact / comptime_arg_exact and notconst_reported_not_evaluated hold for every '
        'program of the model, cyclic ones included',
    ],
}

# (category, text, design_ref, technique)
LEVEL = ('proof',
 'Lean 4 theorems about an executable model of get_const (worklist with parents chain, every arm in order), const_data '
 'and the four use sites, over arbitrary finite reference graphs (cyclic ones included; fuel = iterations of the Rust '
 'loop): getConst_const_imp_IsConst_partial (a Const answer implies const by the README rule, written as the inductive '
 'predicate IsConst), IsConst_imp_getConst_const_partial and getConst_const_iff_IsConst_partial on acyclic graphs with '
 'the proved fuel bound getConst_terminates_of_acyclic (cost = size of the unfolding, there is no visited set), '
 'notconst_reported_not_evaluated / runtime_reported_not_evaluated / globalSite_never_evaluates (a non-const is '
 'reported and const_data is never called on it), array_len_exact / discriminant_exact / comptime_arg_exact (an '
 'accepted value is the value the expression denotes, relation Denotes), and one counterexample theorem per guard: '
 'getConst_typeFallback_counterexample (a call of type `type` is answered Const — known finding, the compiler then '
 'panics), getConst_missing_counterexample, getConst_charLit_counterexample (const by the rule, rejected), '
 'unfixed_loop_diverges_counterexample + cyclic_global_is_runtime (`a : usize : a;` never terminated before FIX.patch). '
 'Correspondence: the real hir_ty front end (worker processes with a deadline, so a hang is an outcome) on generated '
 'multi-file programs — every kind chain {literal, `::`/`:=` local, global before/after use, imported global through '
 '1–3 files with global / local / mutable import binding, extern, imported extern, comptime block, comptime parameter, '
 'arithmetic, call, struct member, paren, block, cast, cyclic globals, bool/str/char literals, type literal / type call '
 '/ type alias chains} to reference depth 2 (thorough: 3; deepened after seeded change C15_1) × {array length, enum discriminant, comptime argument} × '
 '{in main, inside a generic instantiation} × {with / without File-typed decoy locals}, plus random chains to depth 5 — '
 'compared with the model (diagnostic kinds, accepted value, panic, hang) and with an oracle written from the README '
 'rule (accepted ⇒ const by the rule and equal to the denoted value; non-const ⇒ reported); plus a stream of programs built by the real CLI in which the walk reaches the same global twice without a cycle (constant arrays whose items share a constant, chains crossing an import alias twice, in all three positions).',
 '§4 C15',
 'Lean 4 proof (induction on the worklist fuel, on the rule and on the evaluator) + differential correspondence on the real crate')
