"""Registration of C19 (loaded by tools/props.py)."""
from common import TB_COMMON

PROP = {
    "lean_modules": ["CapyV.Props.C19"],
    "level": "proof",
    "needs_cli": True,
    "trusted_base": TB_COMMON + [
        "hook codegen::verif::x86_64_sysv_abi (calc_layouts + calc_finals + fn_ty_to_abi unchanged, FnAbi rendered with Debug; parsed by the harness)",
        "the psABI text as transcribed in Spec/SysV.lean (classification rules 1-5, Passing, Returning of Values) for the C types the fragment maps to; MEMORY/X87/SSEUP/__int128/long double/vector types are outside the fragment",
        "C struct layout = CapyV.Layout layout (C17) wherever SysV.cLayoutAgrees holds (no nested struct member with tail padding); checked end to end by the gcc differential",
        "Abi.clAssign: hand-written model of Cranelift 0.123's System V lowering of the Signature FnAbi::to_cl builds (integer-typed params rdi,rsi,rdx,rcx,r8,r9; float-typed xmm0-7; overflow and StructArgument(n) on the stack in order; results rax,rdx / xmm0,xmm1; StructReturn in rdi). It is Cranelift, not Capy; only the end-to-end gcc differential exercises it",
        "the load/store plan of PassMode::Cast in mod.rs (get_arg_list, build_fn, handle_ret) is modelled as (offset, width) lists; the values themselves (Cranelift loads/stores, memcpy loop of Indirect) are checked only end to end",
        "host gcc (-O2 and -O0), ld, printf as the oracle side of the end-to-end stream; helper functions pr_i/pr_u/pr_f/pr_d/get_ptr with at most two scalar arguments carry the observations out of Capy code",
    ],
    "assumptions": [
        "x86-64 System V target, pointer width 64",
        "types are in the fragment `frag` (ints 8..64 and pointer-sized, bool, char, f32, f64, ^T, rawptr, str, function pointers, optional pointers, non-empty arrays/structs of those, nested, distinct), well-formed (C17 wf), smaller than 2^31 bytes, and C-layout-compatible (SysV.cLayoutAgrees)",
        "FIX.patch applied (Ty::FunctionPointer in the INTEGER arm); on the pinned tree the theorems *_pinned_counterexample apply instead",
        "values: the most negative value of each signed width is not generated (its literal is C09's subject)",
    ],
}

# (category, text, design_ref, technique)
LEVEL = ("proof",
         "classify_eq_psabi: for every type of the fragment classify_arg (transcribed arm by arm from x86_64.rs) returns exactly the psABI classification written from the psABI text (flatten to scalar fields with offsets, merge per eightbyte, more than two eightbytes => MEMORY) and never panics; register_assignment_eq_psabi: for every signature over the fragment, any number of parameters, fn_ty_to_abi does not panic and the registers / stack slots Cranelift's System V lowering gives to the signature it builds equal the psABI assignment (register exhaustion => whole argument in memory without consuming registers, results in rax/rdx/xmm0/xmm1, hidden pointer in rdi) - proved by mutual structural induction over types and induction over the parameter list; cast_footprint_within_slot: every register-wide store of a Cast argument/result lands in its spill slot (false before 664a588: witness), cast_load_within_object_{partial,counterexample}: the remaining 4-byte read of a 3-byte object. The pinned tree violated the property (function pointers were NO_CLASS: miscounted registers, struct halves split between r9 and the stack, compiler panic): FIX.patch, with *_pinned_counterexample theorems. Each run ties the model to the code through hook x86_64_sysv_abi on ~10^4 (thorough ~10^5) signatures incl. an exhaustive small domain and a register-pressure stream (6-14 parameters over i64 / f64 / two-eightbyte structs, biased to one class; added after seeded change C19_1) (0 disagreements required), and validates the whole chain end to end: generated signatures (0-8 parameters, scalars and structs of 1-5 scalar/array fields, 1-64 bytes) compiled by the real CLI and linked with a gcc-compiled C file, both call directions, every leaf value compared.",
         "§4 C19",
         "Lean 4 proof (structural induction over types + induction over parameter lists) + differential correspondence via hook + end-to-end translation validation against host gcc")
