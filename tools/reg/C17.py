"""Registration of C17 (loaded by tools/props.py)."""
from common import TB_COMMON

PROP = {
    'lean_modules': ['CapyV.Props.C17'],
    'level': 'proof',
    "trusted_base": TB_COMMON + [   'hook codegen::verif::layouts (calls calc_layouts and the GetLayoutInfo accessors unchanged)',
    'layout arithmetic modelled in Nat; the code uses u32 (stride_rounds_up carries the explicit no-overflow '
    'hypothesis size+align-1 < 2^32)',
    'well-formedness guard wf/okPw: integer widths {0,8,16,32,64,128,255}, float widths {0,32,64}, pointer '
    'widths {16,32,64} — the only ones the front end / Cranelift produce',
    'host gcc (thorough tier only) as the oracle for C struct offsets'],
    'assumptions': [   'types are well-formed (widths as above)',
    'the process-wide LAYOUTS table is used with a single pointer width per process (switching widths panics '
    'in calc_layouts; reachable only by compiling for two targets in one process, which the CLI never does)'],
}

# (category, text, design_ref, technique)
LEVEL = ('proof',
 'Every clause of the property is a Lean 4 theorem about a transcription of calc_single / StructLayout::new '
 '/ padding_needed_for / stride, by structural induction over the (mutual) type syntax, for every '
 'well-formed type and pointer width: align_pow2_le8, struct_fields_ok (declaration order, aligned, '
 'disjoint, inside the size), array_size + stride_rounds_up, distinct/variant_same_layout, '
 'optional_pointer_is_pointer_sized, optional/error_union/enum tag after the largest payload. The model is '
 'tied to the code each run through hook codegen::verif::layouts on every primitive, two constructor layers '
 'over them, random depth-3 types, both pointer widths (0 disagreements required), and the rules are also '
 "checked directly on the implementation's numbers; thorough compares structs of scalars with host gcc "
 'offsetof.',
 '§4 C17',
 'Lean 4 proof (mutual structural induction over types) + differential correspondence via hook')
