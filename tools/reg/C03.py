"""Registration of C03 (loaded by tools/props.py)."""
from common import TB_COMMON

PROP = {
    "lean_modules": ["CapyV.Props.C03"],
    "level": "proof",
    "needs_cli": True,
    "trusted_base": TB_COMMON + [
        "DeferLang abstracts a Capy function body to events, `defer { body }`, (labelled) blocks, loops, ifs, break/return, continue and .try; every runtime condition is a decision drawn from an oracle, so one theorem covers every path; a deferred expression is a block of the same language (events, nested labelled blocks/loops, if, nested defers, break/continue to labels inside the body) — other deferred expressions (calls with arguments that capture variables, allocation) are abstracted to their print events",
        "the model of the code generator (compileStmt/compileStmts/compileDeferred: static defer stack of deferred bodies, each body re-compiled at every emission site under the stack current there — the popped stack at a block's exit, the stack that still holds the frame being unwound in run_defers_up_to —, exit code of a block, inline defers before a jump, loop frame) is hand-transcribed from Expr::Block / Expr::While / Stmt::Break / Stmt::Continue / Expr::Propagate / run_defers_up_to in codegen/src/compiler/functions.rs and tied to it end to end: generated programs are built by the real CLI, run, and their printed traces compared with runCompiled",
        "Cranelift control flow (jump/brif/block params), gcc/ld, core.println",
        "HIR label resolution guarantees wellScoped (continue only targets loops; break/return/.try target an enclosing construct; no jump leaves a defer: resolve_last_label/resolve_first_label reject a label found beyond ScopeKind::Defer) for accepted programs — the generator only produces such programs; cont_scoping_needed shows the hypothesis is necessary",
    ],
    "assumptions": [
        "programs are accepted by the front end (hence well-scoped)",
        "loops terminate (each iteration consumes a decision; the oracle is finite)",
    ],
}

# (category, text, design_ref, technique)
LEVEL = ("proof",
         "gen_trace_eq_spec: for every well-scoped DeferLang program (defers hold arbitrary bodies: loops, labelled blocks, if, inner break/continue, nested defers), every decision sequence and every iteration bound, the trace printed by the model of the generated code (static defer stack; a block's exit code compiles and runs its deferred bodies on fall-through; a jump compiles, inline, under the stack current at the jump, the deferred bodies registered so far in every frame down to and including its target, then jumps past the exit code; loops own an empty frame) equals the structural semantics of the property (leaving a construct by any exit runs the deferred bodies registered in that activation so far, newest first, each once, each as a block activation of its own, inner before outer, nothing else) — proved in Lean by mutual structural recursion with a 'debt' invariant, abstracted over the function that compiles a deferred body and closed by induction on the re-entry depth, plus corollaries in the property's words and theorems that the pre-fix scheme was wrong. The pinned tree violated the property (break out of a loop ran outer defers early and twice; continue skipped defers; an early break/return ran unreached defers): repaired by a `fix:` commit in /repo. A `break` / `continue` inside a block CONDITION of a `while` unwound past its loop (fix 2c2d7e7); loops whose condition is a block with defers and jumps are part of DeferLang (`Stmt.loopC`: model, structural semantics and the main theorem cover them; break_in_condition_runs_condition_defers, break_in_condition_compiled, and mid_break_in_condition_wrong / mid_continue_in_condition_wrong record what the scheme between the two fixes printed). Each run builds a corpus of past failures and 64 (thorough 600) generated programs (2 in 5 built around a frame with an earlier defer and a deferred block with a jump of its own, 1 in 5 around two nested loops where the inner one has its own jump and a jump to the outer one past defers of the outer body) x 6 decision sequences with the real CLI and compares the executables' traces with the model and with an independent Rust re-statement of the semantics.",
         "§4 C03",
         "Lean 4 proof (simulation between generated control flow and structural semantics) + end-to-end translation validation on generated programs")
