"""Registration of C06 (loaded by tools/props.py)."""
from common import TB_COMMON

PROP = {
    "lean_modules": ["CapyV.Props.C06"],
    "level": "other",
    "needs_cli": True,
    "trusted_base": TB_COMMON + [
        "there is NO model of hir_ty or of the code generator as a whole; C06 for those stages is decided only by search on the real CLI (child processes, deadline), which is sampling, not proof",
        "the obligations in Props/C06.lean are the panic-freedom / termination theorems of the stages that do have a model (lexer C22, parser sink C23, line index C25, defer code generation C03); more are proved under C26 (no underflow), C09 (literal lowering never unwraps a failure), C05 (no insert into an empty scope stack), C28 (import worklist terminates)",
        "crash labels: exact panic site for valid programs and probes; crate only for invalid inputs (the type checker has too many crash sites on erroneous programs to list them)",
    ],
    "assumptions": [
        "UTF-8 inputs <= 64 KiB, nesting <= 200, compiled alone or with the core module, entry point main, host target",
        "a time-out is confirmed by a second, solitary run before it is reported as a hang",
    ],
}

# (category, text, design_ref, technique)
LEVEL = ("other",
         "Two parts. (1) Lean theorems: the no-panic / termination obligations of every modelled stage (lexer total incl. Tokens::iter, sink never out of bounds for every well-counted trace, line_col total, defer code generation total), collected in Props/C06.lean. (2) Search, not proof: every run compiles the probe corpus of past crashes, token soups / nesting / corpus mutations, random UTF-8, generated well-typed programs and 1-3-edit mutations of them with the real CLI in child processes under a deadline; any outcome other than diagnostics or an object (panic, signal, time-out, Cranelift/verifier error, link failure) is a violation; a crash on an INVALID input is labelled by crate + kind of failure (known findings are these kinds), a crash on a valid program by its exact assertion, so a new crash site on valid programs is always reported; deep expression chains (24 / 64 / 200 levels) are part of every run. The unchanged tree violates C06 in many places (type checker on erroneous programs, diagnostic rendering, three crashes on valid programs): recorded as known findings; eight other crashes/hangs were repaired by fix: commits (parser hang, parser index panic, Tokens::iter, get_const hang, switch panics, enum-return crash, float bitwise crash).",
         "§4 C06",
         "Lean 4 proofs of the modelled stages' panic-freedom + totality search on the real CLI in child processes")
