"""Registration of C13 (loaded by tools/props.py)."""
from common import TB_COMMON

PROP = {
    'lean_modules': ['CapyV.Props.C13', 'CapyV.Props.C13Lit'],
    'level': 'proof',
    "trusted_base": TB_COMMON + [   'the same transcription as C12 (lean/CapyV/Model/TyRel.lean)',
    'value preservation of distinct <-> underlying casts is code generation (cast_into_memory / castNum, '
    'C08) and is not part of this model; only acceptance of the casts is proved',
    'placement of the (expected, provided) pair in annotations / arguments / returns / assignments all go '
    'through expect_match -> can_fit_into, binary operations through Ty::max: the check exercises the '
    'relations themselves, not generated programs'],
    'assumptions': [   'one clause is false of the current code (named struct accepted as a variant whose payload is a '
    'structurally identical other struct): _partial + _counterexample, known finding',
    'a named struct accepted where an ANONYMOUS struct type (only produced by `.{..}` literals) is expected '
    'is not counted as a violation (not a nominal type); it is characterised exactly by '
    'nominal_into_anon_struct'],
}

# (category, text, design_ref, technique)
LEVEL = ('proof',
 'Nominality lemmas over the same transcription, for ALL types: distinct/variant/named-struct fit exactly by '
 'uid (distinct_fit_iff_uid, variant_fit_iff_uid, struct_fit_iff_uid), variant into enum exactly its own '
 '(variant_fit_enum_iff), never into a primitive/array/slice/pointer/function type nor into its own '
 'underlying type (nominal_not_into_plain, distinct_not_into_underlying), optional / error union reduce to '
 'their components, any/Unknown are the blanket exceptions, casts distinct <-> underlying are accepted both '
 'ways (cast_distinct_underlying, by induction through nested distincts), and nominal_into_nominal: accepted '
 "into another nominal type only with the same uid or through that type's underlying type — FALSE for (named "
 'struct, variant whose payload is a structurally identical struct): _partial + _counterexample (`x : E.V = '
 's1` compiles). Correspondence: the C12 pair matrix restricted to nominal rows (~1 M pairs thorough), with '
 "an oracle written from the property text evaluated on the implementation's answers for can_fit_into, max "
 'and can_cast_to, including member-wise for `.{ .. }` literals accepted where a named struct is expected (Props/C13Lit.lean: literal_members_fit, literal_distinct_member — every member of an accepted literal is accepted by the member of the same name, no layout short cut).',
 '§4 C13',
 'Lean 4 proof over the shared type-relation model + differential correspondence on the real crate')
