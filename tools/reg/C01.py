"""Registration of C01 (loaded by tools/props.py)."""
from common import TB_COMMON

PROP = {
    "lean_modules": ["CapyV.Props.C01", "CapyV.Props.C01AggEq", "CapyV.Props.C01Order"],
    "level": "translation_validation",
    "needs_cli": True,
    "trusted_base": TB_COMMON + [
        "CapyV.CoreMem (Spec/CapyCoreMem.lean) IS the semantics: a fuel-bounded big-step interpreter written from the README and the property statements; left-to-right evaluation (the destination cell of an assignment is determined before its value is computed); by-value aggregates; an addressable store of frames (fresh id per activation) and cells (frame, variable, access path) for pointers and slices; a dereference into a dead frame is `stuck`, never given a meaning; faults abort; its own meta-theorems are in Props/C01.lean",
        "CapyV.Core (Spec/CapyCore.lean), the value-only interpreter that C16's substitution lemma is about, is kept unchanged; the driver (`CORE xcheck`) runs every generated program of the common fragment through both interpreters and the harness reports the comparison (`v1-interpreter:agree|differ|n/a`); there is no Lean proof that CoreMem is a conservative extension of Core",
        "no Lean model of Cranelift code generation as a whole: the mechanisms that are modelled and proved are C03, C08, C10, C17, C22-C24; C01 itself is decided per generated program",
        "the generator (harness/src/core.rs) produces programs inside the fragment; a program on which the interpreter reports `stuck`/`out-of-fuel` is not compared (counted as not-compared)",
        "real capy CLI, gcc/ld, core.println and its integer formatting (core/src/fmt.capy)",
    ],
    "assumptions": [
        "fragment: integers of width 8-64, bool, arrays, structs, optionals, enums with payloads, error unions, switch (with argument and default arm), .try, functions (by-value aggregates), while, labelled blocks, break/continue/return, defers, casts, #unwrap/#is_variant; pointers ^T/^mut T to locals, struct fields and array elements, p^ reads, writes p^ = v / p^.f = v / p^[i] = v, pointer parameters, pointers in structs and optionals; slices []T made from array places (implicit conversion), .len, indexing with the run-time bounds check, writes through a mutable slice binding over a mutable array, slice parameters, [N]T.(slice); function values (a named function stored in a local of type `(p0: T, ..) -> R` and called through it); bounded self-recursion (each activation its own frame, pointers into outer activations); char (literals, ==/!=, casts from/to integers, printed as the character); not yet: pointers to pointers, pointer payloads in enums / arrays of pointers / slices in structs, slices of temporaries, returning pointers, anonymous lambdas / capturing, function-typed parameters, varargs, i128, str, floats, globals, comptime",
        "pointer programs are generated under a lifetime discipline (a pointer-carrying value stored in a variable of block depth d only mentions variables of depth <= d; functions never return pointer-carrying types; pointer-carrying values are never written through a pointer), so no generated program dereferences a dangling pointer: C01 says nothing about those",
        "generator avoids three shapes on purpose (FINDINGS of the CapyCore extension round): `^mut (place)` with parentheses (the compiler takes the address of a copy), a call inside the place of a compound assignment (`a[f()] += e` evaluates f twice), `^mut p^.f` without auto-deref (parses as `(^mut p)^.f`)",
        "bounds of the property: nesting <= 6, <= 12 globals, <= 40 statements per function, loops <= 64 iterations, no input",
    ],
}

# (category, text, design_ref, technique)
LEVEL = ("translation_validation",
         "Per generated well-typed program: built by the real CLI, run, and stdout + exit status (including the defined runtime faults) compared with the Lean reference interpreter CapyV.CoreMem.run. A second stream compares aggregates: `==` / `!=` on arrays, slices, struct fields and through pointers over nine item types with tags and tail padding (equal pairs, pairs differing only at the last / a middle / the first item), against Lean's CapyV.AggEq.veq, proved to be equality of values (veq_iff, veq_symm, arrays_differing_somewhere in Props/C01AggEq.lean). A third stream checks evaluation order: effectful leaves inside struct literals written in a permuted field order, array literals, call arguments and binary operands, nested two levels; printed effects and stored values against CapyV.EvalOrder.run (effects_in_written_order, leaves_see_earlier_effects in Props/C01Order.lean). A fourth stream is the CopyLang stream of C02 (13 copy forms incl. mutable copies made through `if`, a block and a labelled `break`), run here too because a copy that aliases its source is also a wrong result. The Lean theorems are meta-theorems of the reference semantics (value ranges, modular arithmetic, exit-status rule, store frame lemmas for variables, elements and writes through pointers, read-after-write through a pointer, by-value copies, slice bounds check, dead frames are stuck); the compiler's mechanisms are proved under their own properties. Partial by construction: a fragment of the language, a sample of programs.",
         "§4 C01",
         "translation validation against a Lean reference interpreter on type-directed generated programs")
