"""Registration of C25 (loaded by tools/props.py)."""
from common import TB_COMMON

PROP = {
    'lean_modules': ['CapyV.Props.C25'],
    'needs_cli': True,
    'level': 'proof',
    "trusted_base": TB_COMMON + [   'std slice::partition_point contract (returns the size of the true prefix of a partitioned slice); its '
    'precondition is the theorem lineStarts_strictMono',
    "str::match_indices('\\n') yields exactly the byte indices of 0x0A",
    'modelled, not verified: Diagnostic::display / input_snippet only through the `--> at f:L:C` header '
    '(start_line+1, start_col+1)'],
    'assumptions': ["offsets are <= text length (the property's quantifier)", 'text shorter than 2^32 bytes (TextSize is u32)'],
}

# (category, text, design_ref, technique)
LEVEL = ('proof',
 'The property in full is a Lean 4 theorem (CapyV.C25.lineCol_exact, header_one_based, lineCol_total, '
 'lineStarts_strictMono) about a byte-level model of LineIndex::new/line_col and of the header of '
 'Diagnostic::display, for every text and every offset, no size bound. The model is tied to the code on '
 'every run by running the real LineIndex and the real Diagnostic::display against the compiled Lean model '
 'on all strings <= 6 (thorough: <= 8) symbols over {a,\\n,\\r,\\t,é} x every offset plus random UTF-8 up to '
 '64 KiB, and against an independent oracle written from the property statement. The path from the file on disk to the printed position is exercised too: programs with one type error at a known offset, written with LF / CRLF / mixed line ends, tabs and multi-byte characters, are compiled by the real CLI and the printed `file:line:col` must be the position of that offset in the file as written.',
 '§4 C25',
 'Lean 4 proof (induction over the text) + differential correspondence check against the real crate')
