TB_COMMON = [
    "Lean 4.33.0 kernel (re-checked by leanchecker in the thorough tier)",
    "axioms: at most propext, Classical.choice, Quot.sound (audited by #print axioms on every property theorem each run); no native_decide, no bv_decide, no own axioms, no sorry",
    "hand-written Lean model tied to /repo by the correspondence check of the Rust harness (path dependencies on /repo/crates/*, rebuilt every run)",
    "the harness (generators, canonicalisers, codecs), tools/gen.py and ./check",
]
