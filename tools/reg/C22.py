"""Registration of C22 (loaded by tools/props.py)."""
from common import TB_COMMON

PROP = {
    'lean_modules': ['CapyV.Props.C22', 'CapyV.Props.C22Doc'],
    'level': 'proof',
    "trusted_base": TB_COMMON + [   "logos' matching engine is replaced by a declarative maximal-munch model (longest match over the rule "
    "table, logos' priority formula on ties, one scalar value of Error when no rule matches); its agreement "
    'with the generated logos automaton is what the correspondence check samples (exhaustive on the stated '
    'alphabets), not a theorem',
    "tools/gen_tokens.py: re-implementation of capy_macros::define_token_enum!'s line splitting (full and "
    'stripped mode) and a parser for the regex constructs tokenizer.txt uses; `\\d` is Unicode '
    'Decimal_Number read from the regex-syntax version pinned in /repo/Cargo.lock; the generated kind table '
    'is compared with the real syntax::TokenKind (Debug names by discriminant) on every run',
    'std: str::chars / char::len_utf8 (modelled by List Char / Char.utf8Size), itertools::zip_eq (panics iff '
    'one side ends first), text_size::TextRange::new (asserts start <= end)'],
    'assumptions': [   'input is valid UTF-8 (&str) shorter than 2^32 bytes (`range.start as u32`)',
    'byte offsets are modelled as sums of UTF-8 sizes of whole scalar values (the model works over List '
    "Char); that the implementation's offsets are such sums is checked on the implementation's own output "
    '(checkLex + the Rust cover oracle)'],
}

# (category, text, design_ref, technique)
LEVEL = ('proof',
 'Lean 4 theorems (CapyV.C22.lex_total, lex_lossless, lex_covers, lex_kind_agrees, sublexers_tile, '
 'deriv_correct, longest_is_longest, no_rule_nullable, transmute_tables_agree, enum_tables_agree, '
 'tokens_observable, checkLex_sound) about a model of lexer::lex over the rule table regenerated from '
 'tokenizer.txt on every run, for every text, no size bound: lexing terminates without a fault, the tokens '
 "tile the text (start 0, contiguous, end = byte length, character boundaries) and every token's kind agrees "
 "with its text. logos' engine is modelled as declarative maximal munch and tied by correspondence: real "
 'lexer::lex through Tokens::{len,kind,range,iter} vs the compiled model on all strings <= 3 (thorough: <= '
 '4) over a 24-symbol alphabet, all strings <= 2 over ASCII + 28 non-ASCII scalar values, random Unicode and '
 "corpus mutations to 64 KiB; the implementation's own output is also checked by the verified checker "
 "checkLex. Props/C22Doc.lean ties the rule table to the documented spellings and token classes (documented_spellings, documented_classes, documented_float_shape: where a float literal ends — `1.5e_` is the float `1.5` and the identifier `e_`), re-checked against the real lexer on every run. The clause 'without panicking' is false for a complete Tokens::iter() traversal (zip_eq of n "
 'kinds with n+1 starts): iter_traversal_partial + iter_traversal_counterexample (for every text), known '
 'finding tokens_iter_zip_eq.',
 '§4 C22',
 'Lean 4 proof (Brzozowski derivatives, longest match, induction over the main loop and the sub-lexer state '
 'machine; table facts by kernel decide on the regenerated table) + differential correspondence check '
 "against the real crates + verified spec checker on the implementation's output")
