"""Registration of C18 (loaded by tools/props.py)."""
from common import TB_COMMON

PROP = {
    "lean_modules": ["CapyV.Props.C18"],
    "level": "proof",
    "needs_cli": True,
    "trusted_base": TB_COMMON + [
        "tools/gen_typeids.py extracts the discriminant constants, shifts, masks and assert bounds from BOTH codegen/src/convert.rs and core/src/meta.capy with anchored patterns (every `>>` / `&~` of meta.capy must be one of the known decoder shapes); constants_agree is re-proved against the regenerated tables each run",
        "hand model of to_type_id / simple_id / simple_id_with_align (state = (type, id) table + tys_to_compile + ten counters; lookup first; asserts and unreachable! are the outcome `none`) tied to the code through hook codegen::verif::type_ids; ids are u32 in the code and Nat in the model (no encoder operation can wrap: decode_encode proves id < 2^32)",
        "hand model of compile_memory_layouts / compile_type_info rows (one row per type of the kind in tys_to_compile order; sub-types as previously assigned ids) and of meta.capy size_of / align_of / stride_of / the flag and index extraction of get_type_info; tied end to end: the model must predict every reflected row and the whole equality matrix printed by programs built with the real CLI",
        "layout numbers are those of CapyV.Layout (C17, proved and tied there)",
        "interned types are equal iff structurally equal (internment::Intern); enum/distinct/struct uids are assigned per declaration by the front end",
        "Cranelift data objects and relocations, gcc/ld, core.print/println, core.ptr.{read,write,to_raw}",
    ],
    "assumptions": [
        "types are well-formed (widths as in C17) and the pointer width is 16, 32 or 64; fewer than 2^26 types of one kind per program (compound_id_roundtrip / ids_injective hypotheses)",
        "NaivePolymorphicFunction never reaches codegen (unreachable! in to_type_id; model outcome none)",
        "end-to-end stream runs on the 64-bit host only; pointer width 32 is covered by the hook stream",
    ],
}

# (category, text, design_ref, technique)
LEVEL = ("proof",
         "Lean 4 theorems about a transcription of simple_id_with_align / simple_id / to_type_id, the ty_info.rs tables and the meta.capy decoders, with every constant generated from both source files: constants_agree (the Capy table is the Rust table minus NO_RETURN, all shifts/masks agree), decode_encode (every simple id built inside the asserted ranges decodes to the discriminant, size, alignment and sign it was built from; outside them the encoder panics), compound_id_roundtrip (index < 2^26), to_type_id_preserves_inv (by mutual structural induction: table keys unique, tys_to_compile in lock-step, every compound id = discriminant<<26 | position among the types of its kind, every simple id = its encoding), ids_injective_mod_runtime_equiv (two registered types share an id iff they are the same type or one of the listed coincidences: pointer-sized vs same-width integers, weak vs default types, Unknown/NotYetResolved/void, file types), reflected_layout (meta.size_of / align_of of a registered type's id return exactly Layout.size / Layout.align of C17, through the id bits for simple types and through the per-kind table row for compound ones). The full injectivity statement is false of the code: usize/u64 and isize/i64 share an id on a 64-bit target (_counterexample theorems; known finding, reproduced end to end each run). Each run ties the model to the code through hook type_ids on the C17 type domain at both pointer widths and end to end: programs of 12-30 generated types built by the real CLI, every type reflected through core.meta, measured by address arithmetic on real values (field, element, member addresses; tag byte position after a store), compared pairwise as type values, boxed into any, and evaluated in comptime.",
         "§4 C18",
         "Lean 4 proof (bit-field arithmetic + invariant by mutual structural induction) + translator for constants + hook and end-to-end correspondence")
