"""Registration of C23 (loaded by tools/props.py)."""
from common import TB_COMMON

PROP = {
    "lean_modules": ["CapyV.Props.C23", "CapyV.Props.C23Loops"],
    "level": "proof",
    "trusted_base": TB_COMMON + [
        "hook parser::verif::parse_traced (returns the event list, the token index at every bump and the final token index of the real parser; the sink then runs unchanged)",
        "the 1 500-line grammar is NOT modelled: it is an arbitrary client of the kernel (skip_trivia / bump / markers). What the theorems need from it — root-shaped event list, no bump at end of input, parser stops at end of input — is checked on every real trace of every run, together with the theorem's conclusions (tree text = input, tree tokens = lexer tokens in order)",
        "termination: proved for the guarded list-loop shape (guarded_loop_terminates); that every list loop of the grammar has that shape is re-read from the grammar source on every run (tools/gen_parser_loops.py -> Generated/ParserLoops.lean, theorems no_unknown_loop / list_loops_guarded); six further loops are hand-reviewed (listed in gen_parser_loops.py); recursion depth and overall run time are monitored (child process, deadline, linear wall-time budget), not proved",
        "eventree::SyntaxBuilder (the sink model stops at the builder calls; the real tree's event stream is compared with the model's output)",
    ],
    "assumptions": [
        "tokens come from lexer::lex (lexer shape: a CommentContents token is immediately preceded by a CommentLeader) — C22",
        "inputs up to 64 KiB, nesting depth <= 200",
    ],
}

# (category, text, design_ref, technique)
LEVEL = ("proof",
         "Losslessness is a Lean 4 theorem for EVERY event trace: the sink (model of Sink::finish / skip_trivia / add_token) adds every token exactly once, in order, and never indexes past the tokens iff the trace has as many AddToken events as there are non-trivia tokens (sink_lossless, sink_panics_iff, sink_lossless_iff, sink_tokens_in_order); any client of the parser kernel that stops at end of input produces exactly such a trace (kernel_counts, kernel_bumps_nontrivia, parse_then_sink_lossless) — since the fix: commit makes bump skip trivia, this holds for every grammar. Termination: guarded_loop_terminates bounds every guarded list loop; the table of grammar loops is regenerated from the source each run (a guarded loop with a `continue` that jumps over its guard counts as unknown). Partial: termination and panic-freedom of the grammar's recursion are not theorems (grammar not modelled); they are monitored on every run over ~90 000 inputs (all sequences <= 3 over a reduced token set, token soups with comments between tokens, corpus mutations, trivia inserted between every pair of adjacent tokens of the corpus files, nesting to 200, stray separators at element positions of every list construct inside every context that passes a recovery set down, both entry points) in child processes with deadlines. The pinned tree hung on `a :: i32.(.[);` and panicked on `x . try`: repaired by a fix: commit.",
         "§4 C23",
         "Lean 4 proof (sink/kernel refinement for all event traces; loop-progress lemma; regenerated loop table) + monitored fuzzing of the real parser through hook H2")
