"""Registration of C28 (loaded by tools/props.py)."""
from common import TB_COMMON

PROP = {
    "lean_modules": ["CapyV.Props.C28"],
    "level": "proof",
    "needs_cli": True,
    "trusted_base": TB_COMMON + [
        "paths are modelled as lists of std::path::Component; `parse` (Path::components on Unix), `join` (PathBuf::join, modulo a non-leading `.` which components() never yields and clean() ignores), `clean` (path_clean 1.0.1, transcribed loop), `isSubDirOf` (SubDir::is_sub_dir_of) are hand-transcribed and compared with the real functions on every path string of <= 5 (thorough 6) pieces over {'', '.', '..', 'a', 'b.capy'} and on random pairs, every run",
        "the file system is a parameter of the theorems (any function path -> file | dir | nothing); is_file / is_dir are lookups at the component list (no symbolic links: the walk semantics `walk` used to state `real containment` is the operating system's resolution only in trees without symlinks; the code itself is purely lexical)",
        "lowerImport / lowerMod transcribe the real-file-system branch of Ctx::lower_import after the argument string has been read (DirectiveMismatchedArgCount / DirectiveNonStringArg / string-escape diagnostics are not modelled); tied to hir::lower(.., fake_file_system = false) in-process and to the CLI on generated trees laid out on disk",
        "the worklist transcribes the loop of compile_file (source_files keys, current_imports); FxHashSet iteration order is a parameter `ord` of the theorems (any function preserving membership); interned FileName equality is modelled as equality of component lists (rendering of cleaned absolute paths is injective for names without '/')",
        "file.name: world_index / world_bodies are keyed by FileName and filled once per SourceFile with that file's own index/bodies (add_file); member access on Expr::Import(f) looks the key up — modelled as an association list; the type checker's resolution of `alias.name` is exercised end to end (program output), not transcribed",
        "gcc/ld, printf, the operating system's file system",
    ],
    "assumptions": [
        "working directory and module directory are absolute paths (env::current_dir(); compile_file cleans `cwd.join(--mod-dir)`)",
        "no symbolic links in the tree (the property's quantifier: plain directory trees)",
        "the files reachable through imports form a finite set (closed list U); the fuel of the loop model exceeds |U|",
    ],
}

# (category, text, design_ref, technique)
LEVEL = ("proof",
         "Lean 4 theorems about a component-level model of lower_import and of compile_file's import loop, for every file system (a function parameter), every argument string and every import graph: import_accept_iff / import_reject_kinds (accepted iff the argument ends in .capy, the cleaned cwd/importer/../arg is a regular file and has the module directory or the working directory as component-wise prefix; which diagnostic otherwise), import_resolves_relative_to_importing_dir (the target is the walk of the argument from the importing file's directory), clean_has_no_dotdot / clean_is_the_walk / subdir_after_clean_is_real (the prefix test on a cleaned absolute path is real containment; unsound without clean: subdir_without_clean_unsound), mod_accept_iff / mod_accept_iff_property (alphanumeric m and <mod-dir>/m/src/mod.capy a file) / mod_empty_name (the check is vacuous for \"\"), worklist_parses_each_reachable_once + worklist_terminates + each_file_compiled_exactly_once (result = reachable set, Nodup, entry first, for every hash iteration order, with cycles and self-imports; |U|+1 rounds suffice), parsed_files_clean_inside + cli_panics_iff_entry_outside (get_components' unreachable!() is reached iff the entry file itself is outside both directories), file_name_refers_to_own_definition + alias_refers_to_target_definition. Each run compares the model with (A) the real Path/path_clean/SubDir functions exhaustively on short paths, (B) hir::lower with the real file system in-process and (C) the real CLI (--verbose-hir headers, resolved targets, diagnostics, output of the built executable printing <alias chain>.name for every accepted edge) on a corpus plus 160 (thorough 1200) generated trees, and with an oracle written from the property text.",
         "§4 C28",
         "Lean 4 proof (file system and import graph as parameters; loop invariant for the worklist) + differential correspondence against std/path_clean/hir in-process and against the real CLI on generated directory trees")
