"""Registration of C09 (loaded by tools/props.py)."""
from common import TB_COMMON

PROP = {
    'lean_modules': ['CapyV.Props.C09'],
    'level': 'proof',
    'needs_cli': True,
    "trusted_base": TB_COMMON + [
        'tools/gen_literals.py: anchored extraction of the escape `match`es (hir/src/body.rs), the get_max_int_size '
        'table (hir/src/common/ty.rs), the two IntLiteral widening arms of reinfer_expr (hir_ty/src/globals.rs), the '
        'bit-width-0 arm of finalize_int (codegen/src/convert.rs) and the Int/Hex/Bin/Float regexes of tokenizer.txt',
        'std contracts: u64::from_str_radix / str::parse::<u64|u32> (sign handling + checked digit loop, transcribed), '
        'u64::checked_pow (Some(10^e) iff < 2^64), char::to_digit, u8::try_from(char)',
        'float literals are NOT modelled in Lean (Float is opaque): only the run-time bit pattern is compared with '
        "Rust's own str::parse::<f32|f64> (trusted as correctly rounded)",
        'core.println of non-negative integers of every width up to 64 bit, the casts u64.(x >> 64) / u64.(x) used to '
        'observe 128-bit values, ^uN.(rawptr.(^x))^ used to observe float bits',
        'the lexer splits string/char tokens into quote / escape / contents as lex_string does (tied by the '
        'in-process stream F, not modelled separately)',
    ],
    'assumptions': [
        'literal values in [0, 2^64) (the lowering stores a u64; larger spellings are rejected with OutOfRangeIntLiteral, proved)',
        '64-bit target: isize/usize are 64 bit (hir_ty has no pointer-width parameter)',
        'char literals: a code point below 256 is a valid `char` (u8) value, as `u8::try_from(char)` accepts it',
    ],
}

# (category, text, design_ref, technique)
LEVEL = ('proof',
 'Integer, string and char literal denotation and the acceptance/defaulting rules are Lean 4 theorems about a '
 'transcription of lower_int_literal (over the token text, with the checked u64 arithmetic of std), '
 'lower_string_literal / lower_char_literal, the IntTooBigForType check, the IntLiteral arm of reinfer_expr, the '
 'global i32 defaulting and finalize_int: lowerInt_value (whatever is lowered is the spelled value), '
 'lowerInt_overflow_iff / lowerInt_accepts_iff (full since the `0eN` fix; lowerIntOld_overflow_counterexample keeps the pinned behaviour), escape_table_exact, invalid_escape_rejected, '
 'lowerString_value, lowerChar_value/_rejects, accepts_iff_fits (all 12 integer types), accepted_keeps_value, '
 'default_keeps_value, default_accepts — full strength after FIX.patch (i128 limit, isize check, {uint} widening '
 'threshold); the tables are regenerated from the Rust source each run so the theorems are re-checked against the '
 'current code. Tied to the code by in-process lowering / type checking of every boundary spelling at every type in '
 '17 annotated contexts (incl. global / local comptime blocks) and 14 unannotated ones (incl. nine value-preserving wrappers: parentheses, comptime block, block, if, switch arm, array element, labelled break, parenthesised operand / assignment; fixes 11785ef, d3d0ed9), every escape, and end-to-end printed values; float literals (not modelled in Lean) only by run-time '
 "bit pattern vs Rust's str::parse. Known finding: f32 literals are rounded twice (via f64).",
 '§4 C09',
 'Lean 4 proof (induction over the digit list / component list, case analysis over the type table) + translator '
 'for the tables + differential correspondence in-process and end-to-end')
