"""Registration of C07 (loaded by tools/props.py)."""
from common import TB_COMMON

PROP = {
    "lean_modules": ["CapyV.Props.C07"],
    "level": "other",
    "needs_cli": True,
    "trusted_base": TB_COMMON + [
        "the gate model CapyV.Gate.gate is a transcription of the decision sequence at the end of compile_file (capy/src/main.rs); the stages' results are inputs of the model",
        "that the front end flags exactly the rule-breaking programs and that code generation of accepted programs succeeds is not a theorem: it is observed on generated valid programs and one-mutation variants through the real CLI (`--verbose-types local` turns on unsafe tracking and prints the marker)",
    ],
    "assumptions": [
        "inputs define exactly one `main` of valid entry-point shape",
        "mutations: bool into int, int into bool, assignment to an immutable binding, undefined name, runtime array size, ill-typed operand",
    ],
}

# (category, text, design_ref, technique)
LEVEL = ("other",
         "The decision logic is proved outright in Lean (object_iff_no_error given a working back end and consistent unsafe tracking; errors_build_nothing; clean_program_is_built; the two hypotheses are shown necessary by cranelift_error_exit0_counterexample and unsafe_without_error_panics). Whether the real stages satisfy the hypotheses is checked, not proved: each run builds generated well-typed programs and five mutants of each (one rule-breaking snippet out of a catalog of 41 type / mutability / const / scope / syntax errors, walked round-robin so that every snippet occurs in every run, placed in main — top level, `if true`, `while false`, block, defer, comptime block, uncalled lambda —, in a helper function, in an unused global function, in an uncalled function of an imported file, or in a function of an imported file that the entry file evaluates at compile time) with the real CLI and checks errors <-> no object, no-error -> nothing flagged and executable built, error -> flagged and nothing generated, and agreement with the gate model.",
         "§4 C07",
         "Lean 4 proof of the gate's decision logic + pipeline correspondence on near-valid generated programs")
