"""Registration of C04 (loaded by tools/props.py)."""
from common import TB_COMMON

PROP = {
    "lean_modules": ["CapyV.Props.C04", "CapyV.Props.C04Widen"],
    "level": "proof",
    "needs_cli": True,
    "trusted_base": TB_COMMON + [
        "the machine that runs a block is abstracted to what eval_comptime_blocks can see after the call (return registers, float register, the return buffer, the C string at the returned address); `blockValue` reads the block's value off that state by the calling convention of the block function (Abi::Simplified: scalars in the return register, aggregates in the `size`-byte buffer whose address is passed) — that the JIT-compiled code of the block computes what the same source computes at run time is C01's subject and is exercised here end to end only",
        "capture / embedCode / intoBytes / finalTy / containsPointer are hand-transcribed from eval_comptime_blocks, hir::Expr::Comptime in functions.rs, ComptimeBytes/IntBytes, convert.rs calc_single and Ty::contains_pointer; tied each run by: the checker's verdict on generated types (in-process), the ComptimeResult variant / width / byte count of generated blocks from the real JIT (in-process), and the values printed by built programs (end to end)",
        "sizes are those of lean/CapyV/Model/Layout.lean (C17, proved and tied separately)",
        "Cranelift (JIT and object back end), the host's `f32 as f64 as f32` (FloatExact: identity on non-NaN values), Rust's `fn() -> T` transmute ABI for scalar T, gcc/ld, core.println",
        "type ids: the id tables are abstract (`type_roundtrip` assumes ids identify types consistently across compilers, C18)",
    ],
    "assumptions": [
        "the compiler runs on a little-endian host and builds for a little-endian target of the same pointer width (to_ne_bytes in the capture, target-order loads in the program)",
        "f32 results are not NaN (a NaN payload may change in f32 -> f64 -> f32); the end-to-end comparison treats all NaNs as equal",
        "block bodies are deterministic and stay in the fragment the generator produces (no I/O in value blocks, no allocation escaping the block)",
    ],
}

# (category, text, design_ref, technique)
LEVEL = ("proof",
         "comptime_yields_runtime_value: for every accepted result type and every state the block's code leaves the machine in, the value the built program observes (inside a function body via iconst/f32const/f64const/data object, and through a global's data object) is the value the block computed — assembled from embed_capture_int (8-64 bits, either byte order), embed_capture_int128, embed_capture_float (f32 through f64, exact off NaN), embed_capture_bytes (aggregates: exactly `size` bytes, C17), embed_capture_str, embed_capture_type + type_roundtrip, embed_capture_void; global_wider_int (Props/C04Widen.lean: a global annotated with a wider number type than its constant value reads the sign/zero extension of the value whatever lies next to it in memory; old_global_wider_reads_neighbour is the pre-ad641e3 counterexample), checked end to end by the `widen` stream (every narrower-to-wider integer pair and f32-to-f64, global comptime / constant alias / local comptime / run-time local); accepted_imp_pointer_free / pointer_free_imp_accepted: the checker accepts exactly `str` and the types holding no address at any depth; accepted_pointer_final_is_aggregate: the buffer capture is only reached by aggregates. The pinned tree violated the property (str and every aggregate holding a pointer were accepted and dangled; i128 blocks panicked the compiler): repaired by FIX.patch (Ty::contains_pointer in the ComptimePointer check, str results captured as their characters, LLVM ABI extensions for the JIT); accepted_old_imp_pointer_free_counterexample records the old rule. Each run checks the real checker on 220 (thorough 1200) generated types, the real JIT's ComptimeResult on every generated block, and builds programs with the real CLI in which every block body (all integer widths incl. 128, floats by bit pattern, bool, char, str, type, arrays, structs, enums, optionals, error unions, distincts) is evaluated at run time and in four comptime positions and must print the same leaves, plus a side-effect program (compile-time output once, never at run time).",
         "§4 C04",
         "Lean 4 proof (byte-level capture/embed round trip + soundness and completeness of the acceptance rule) + in-process and end-to-end correspondence on generated blocks")
