"""Registration of C10 (loaded by tools/props.py)."""
from common import TB_COMMON

PROP = {
    "lean_modules": ["CapyV.Props.C10"],
    "level": "proof",
    "needs_cli": True,
    "trusted_base": TB_COMMON + [
        "CapyV.Checks models the instruction PLAN of Expr::Index and #unwrap (zero-extension of the usize-checked index, icmp ult against the constant / loaded length, branch to puts+exit(1)+trap, element address base + index*stride; tag byte load at discriminant_offset, compare, same abort; null test for ?^T) hand-transcribed from codegen/src/compiler/functions.rs; it is tied to the code end to end (template programs built by the real CLI, abort / pass and the lines printed before and after the access compared with the model)",
        "Cranelift instruction semantics (icmp, brif, load/store), libc puts/exit flushing stdout, element size <= stride (C17 stride_rounds_up)",
        "the literal-index rule is transcribed from hir_ty (only a bare IntLiteral index is checked at compile time) and compared in-process",
    ],
    "assumptions": [
        "index expressions are type-checked against usize (unsigned, width <= 64): enforced by hir_ty's expect_match",
        "arrays of zero-sized elements compile to nothing (no check, no access)",
    ],
}

# (category, text, design_ref, technique)
LEVEL = ("proof",
         "Lean 4 theorems on the model of the emitted check sequence, for every index width <= 64, length, stride and base: index_oob_aborts_before_access (value >= len: abort with NO access to the array), index_in_range_exact (value < len: exactly [base+value*stride, +size) inside the array), slice_oob_aborts_before_access / slice_in_range_exact (only the header is read before the abort), unwrap_wrong_variant_aborts / unwrap_right_variant_yields_payload / unwrap_nullable, literal_oob_rejected. Tie to the code on every run: 370 (thorough 900) template programs — arrays of 4 element types and 3 lengths as locals with guards, struct fields between guard fields, slices, ^ and ^mut pointers, read and write at every run-time index 0..len+4, nested arrays, compound assignment `a[i] op= b[j]` / `a[i] op= a[j]` with either index out of range, narrow (u8 / i8 / u16) index variables, #unwrap of every (current, requested) variant pair of an enum / optional / nullable pointer / error union — built by the real CLI and run; abort-or-pass and the printed lines (nothing after the faulting access, guards intact) are compared with the model and with the property.",
         "§4 C10",
         "Lean 4 proof on the emitted check plan + end-to-end translation validation on template programs")
