"""Registration of C14 (loaded by tools/props.py)."""
from common import TB_COMMON

PROP = {
    'lean_modules': ['CapyV.Props.C14', 'CapyV.Props.C14Fit'],
    'level': 'proof',
    "trusted_base": TB_COMMON + [
        'the type table: `tys[expr]` of the real front end is what the model calls typeOf (pointer-ness and pointer '
        'mutability of each sub-expression); compared on every generated target through the help kinds and verdicts, '
        'not proved',
        'types abstracted to int / ^ / ^mut / array / optional / struct / file / other: raw pointers, slices and '
        '`distinct` wrappers are outside the model (as_pointer sees through distinct; raw pointers cannot be dereferenced)',
        'diagnostic text ranges are not modelled (only the help kind is)',
        'alias visibility of accepted writes is checked only end to end by sampling (code generation is not modelled here)',
    ],
    'assumptions': [
        'the target expression is well-typed (typeOf e = some t): ill-typed targets get other diagnostics first',
        'the place semantics: writable <=> the last pointer followed is ^mut, or no pointer is followed and the root is '
        'a := local; assigning to a temporary itself is unspecified',
    ],
}

# (category, text, design_ref, technique)
LEVEL = ('proof',
 'get_mutability (after FIX.patch; the pinned body is kept as get_mutability_by_form) is transcribed arm by arm over '
 'PathLang (locals with their initialiser expression and type, parameters, globals, module members, ^ / ^mut, deref, '
 'index and field (following every pointer level, as the typer does: fix 93c6805), paren, #unwrap, block tails, calls, casts, literals) and proved sound and complete against a place '
 'semantics written from the property text, for every well-typed target of any depth and for both call sites '
 '(CapyV.C14.sound, complete, assign_rejected_iff, mutref_rejected_iff, deref_decided_by_type). The same model with '
 'fixed=false is the pinned function; its violations are theorems too (sound_counterexample_declared_type, _call, '
 '_copied_pointer, _array_of_pointers, _field_of_pointers, complete_counterexample_param_array, '
 '_opaque_initialiser). Each run ties model and code: the real hir_ty is run in-process on every chain of length <= 4 '
 'of {deref, index, field, paren, #unwrap} over every root kind and every type with <= 2 type constructors plus seeded samples of deeper ones (thorough: every type with <= 4 constructors), '
 'plus seeded random targets using the remaining constructors, with plain / compound assignment and '
 '^mut / ^; verdict and help kind must equal the model (which version of the function is in the tree is detected by a '
 'probe), and the verdict must satisfy the place semantics (an accepted read-only target or a rejected target that is writable in every reading is reported with its program). The conversion side: Props/C14Fit.lean proves about the transcription of can_fit_into (Model/TyRel.lean) that an implicit conversion between pointer towers never makes a level writable and never changes a level below the outermost pointer (fit_no_gain, fit_invariant_below_top, no_const_cast_hole; mfit_invariant_below_top and no_const_cast_hole_slice for towers that mix pointer and slice levels); every pair of towers of height <= 3 (with slice levels) is converted by an annotated definition, an argument, an assignment and a return through the real front end and the verdict compared with the model and with the soundness rule.',
 '§4 C14',
 'Lean 4 proof (structural induction over the path language) + differential correspondence via the in-process front end')
