"""Registration of C02 (loaded by tools/props.py)."""
from common import TB_COMMON

PROP = {
    "lean_modules": ["CapyV.Props.C02"],
    "level": "proof",
    "needs_cli": True,
    "trusted_base": TB_COMMON + [
        "CapyV.Stores.footprint models WHICH BYTES an assignment writes (same-type scalar/aggregate, variant -> enum, payload -> optional / error union, nil) as of fix: 664a588; it is tied to the code by reading the store instructions and memcpy calls of the Cranelift IR the real CLI prints for one writer function per (field, source kind) and comparing the covered byte set",
        "the CLIF text parser of harness/src/c02.rs (stores relative to the first parameter; spills into the writer's own stack slots are not stores into the object)",
        "layouts are C17's (hook codegen::verif::layouts, model CapyV.Layout, proved in Props/C17)",
        "not modelled: stores of struct/array LITERAL construction (store_struct_fields / store_array_items), default initialisation (memset) and the ABI spill slots — these are exercised only behaviourally (guards printed by the built program; struct arguments/returns of sizes 1..64)",
        "value semantics (aggregates are copied) is the reference interpreter's store model, decided per program under C01",
    ],
    "assumptions": ["pointer width 64", "destination and source types as generated (sum types, odd-sized aggregates, scalars)"],
}

# (category, text, design_ref, technique)
LEVEL = ("proof",
         "Lean 4 theorems on the store-footprint model, for every type: same_within, variant_within, optional_payload_within, optional_nil_within, error_union_within (every store of `dst = value` lies inside [0, size dst)), shift_within (hence inside the assigned field), and old_enum_tag_overwide / old_aggregate_copy_overwide documenting the two defects of the pinned tree (8-byte tag store into a 5-byte enum; stride-sized aggregate copies), repaired by fix: 664a588. Every run compiles generated guard-separated struct layouts with the real CLI, reads each writer's stores from the printed Cranelift IR (compared with the model, must lie inside the field), runs the program (field holds the written value, every guard intact after every write) and passes structs of sizes 1..64 by value between guards. Partial: literal construction, memset and ABI spills are covered behaviourally only.",
         "§4 C02",
         "Lean 4 proof on store footprints + IR-level and behavioural translation validation on generated layouts")
