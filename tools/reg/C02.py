"""Registration of C02 (loaded by tools/props.py)."""
from common import TB_COMMON

PROP = {
    "lean_modules": ["CapyV.Props.C02", "CapyV.Props.C02Copy"],
    "level": "proof",
    "needs_cli": True,
    "trusted_base": TB_COMMON + [
        "CapyV.Stores.footprint models WHICH BYTES an assignment writes (same-type scalar/aggregate, variant -> enum, payload -> optional / error union, nil) as of fix: 664a588; it is tied to the code by reading the store instructions and memcpy calls of the Cranelift IR the real CLI prints for one writer function per (field, source kind) and comparing the covered byte set",
        "the CLIF text parser of harness/src/c02.rs (stores relative to the first parameter; spills into the writer's own stack slots are not stores into the object)",
        "layouts are C17's (hook codegen::verif::layouts, model CapyV.Layout, proved in Props/C17)",
        "not modelled: stores of struct/array LITERAL construction (store_struct_fields / store_array_items), default initialisation (memset) and the ABI spill slots — these are exercised only behaviourally (guards printed by the built program; struct arguments/returns of sizes 1..64)",
        "value semantics (aggregates are copied): CapyV.Copy (Model/CopyLang.lean) says every syntactic form of an aggregate copy means `copy the cells`; theorems runFrom_frame / copy_independent / source_unaffected_by_copy_writes / set_cells in Props/C02Copy.lean; tied to the code behaviourally: generated copy programs (harness/src/c02_copy.rs) are built by the real CLI and their printed cells compared with the model and with an independent by-value evaluation",
    ],
    "assumptions": ["pointer width 64", "destination and source types as generated (sum types, odd-sized aggregates, scalars)"],
}

# (category, text, design_ref, technique)
LEVEL = ("proof",
         "Lean 4 theorems on the store-footprint model, for every type: same_within, variant_within, optional_payload_within, optional_nil_within, error_union_within (every store of `dst = value` lies inside [0, size dst)), shift_within (hence inside the assigned field), and old_enum_tag_overwide / old_aggregate_copy_overwide documenting the two defects of the pinned tree (8-byte tag store into a 5-byte enum; stride-sized aggregate copies), repaired by fix: 664a588. Every run compiles generated guard-separated struct layouts with the real CLI, reads each writer's stores from the printed Cranelift IR (compared with the model, must lie inside the field), runs the program (field holds the written value, every guard intact after every write) and passes structs of sizes 1..64 by value between guards. Second half of the statement (copies are independent): theorems runFrom_frame, copy_independent, source_unaffected_by_copy_writes, form_irrelevant, set_cells on the CopyLang model; lit_reads_before_writing (an aggregate literal assigned to a variable is built from the OLD values, also of that variable: fix b6e8aaf); every run builds generated copy programs (13 syntactic copy forms incl. two register-returned aggregates alive in one expression and mutable copies made through `if` / a block / a labelled `break`, whose copies are written afterwards x sources that are variables, fields, elements; writes direct, through pointers, in callees; aggregate assignments; literal assignments reading their destination) and compares every printed cell with the model; plus aggregates of 3 / 5 / 6 / 7 / 9 / 11 bytes copied whole into a member of a literal written out of declaration order or of a reordering cast, between guard bytes stored earlier; plus compound assignments of a wider value into a guarded narrow field (rejected, or neighbours intact: fix a70e82e). Partial: literal construction, memset and ABI spills are covered behaviourally only.",
         "§4 C02",
         "Lean 4 proof on store footprints + IR-level and behavioural translation validation on generated layouts")
