"""Registration of C16 (loaded by tools/props.py)."""
from common import TB_COMMON

PROP = {
    "lean_modules": ["CapyV.Props.C16"],
    "level": "translation_validation",
    "needs_cli": True,
    "trusted_base": TB_COMMON + [
        "CapyV.Core (Spec/CapyCore.lean) is the reference semantics; Spec/CapyCoreGeneric.lean adds comptime parameters to it: the meaning of a generic call is the ordinary call with the comptime arguments bound like parameters (modelled as the LAST parameters, literals being pure), the hand-substituted copy is GFn.inst (substSs). Integer comptime parameters only; a type parameter selects among monomorphic copies because CapyCore is untyped",
        "Model/Generics.lean is hand-transcribed from Expr::Call stage 1/2, evaluate_comptime_args (one arena slot per named comptime parameter, asserted consecutive) and call_associated_generics in hir_ty/src/globals.rs and from ComptimeArgs/ConcreteLoc in hir/src/common/locations.rs; tied to the code by stream C (the instances found in the real WorldTys: ranges, count, symbols through hook H1 mangle_concrete). The allocation ORDER is taken from the implementation (it is decided by the inference scheduler, property C20/C26), the model predicts the blocks",
        "no Lean model of how hir_ty infers and codegen compiles an instantiated body: that an instance behaves like the substituted copy is decided per generated program pair (real CLI, both programs built and run, outputs compared exactly)",
        "the harness's own substitution (monomorphise / render_m in harness/src/c16.rs) is the 'hand' of hand-substituted; it is structurally the same operation as Lean's substSs but related to it only through outputs (stream A: Lean runs both the generic program and the harness's copies and must agree)",
        "C27's Model/Mangle.lean and its theorems mangle_injective_same_file / mangle_kind_separated (cited, not redone)",
        "real capy CLI, gcc/ld, core.println and core.meta.{size_of,align_of,stride_of}",
    ],
    "assumptions": [
        "comptime arguments are types (builtin, struct, distinct, array, aliases, comptime-computed globals) and NON-NEGATIVE integer literals / references to constants: Capy does not accept `-1`, `i32.(7)` or `true` as a constant argument (a negated literal is not const; a bool comptime argument panics the compiler: side finding outside the quantifier)",
        "bounds of the property: 1-3 comptime parameters, 1-4 instantiations per generic (stream B instantiates up to 4 argument sets x 2 calls), nested depth <= 3",
        "subst_lemma: the body never assigns or rebinds a comptime parameter (okSs; guaranteed by Capy: parameters are immutable), comptime ids differ from the run-time parameter ids, and the generic call does not run out of fuel",
        "distinct_calls_distinct_instances: both callees have at least one NAMED comptime parameter (empty blocks of consecutive calls share their start: machine-checked example)",
    ],
}

# (category, text, design_ref, technique)
LEVEL = ("translation_validation",
         "Per generated program pair: the program with generic (comptime-parameter) functions and the same program in which the harness replaced every generic call by a call of a hand-substituted monomorphic copy (recursively through nested generic calls) are both built by the real CLI and run; stdout and exit status must be identical, and inside the generic program calls with equal arguments must print identical segments (non-interference: instances with different types / sizes / struct layouts are interleaved). Stream A (CapyCore programs, integer comptime parameters, nested pass-through) is also run by the Lean reference interpreter on both programs. Proved in Lean, for all programs/states/histories: subst_lemma (generic call = call of the substituted copy on the reference semantics, by a simulation over all eight mutual interpreter functions), subst_body, equal_args_equal_copy; on the instance-identity model: distinct_calls_distinct_instances (fresh pairwise-disjoint arena ranges), distinct_instances_distinct_symbols (cites C27), instance_reads_own_args (non-interference), equal_args_equal_behaviour. The identity model is checked against the instances the real hir_ty creates (stream C). Known findings of the pinned tree (compiler panics on accepted-looking generic programs) are reported by label.",
         "§4 C16",
         "translation validation (generic program vs harness-substituted program, real CLI) + Lean 4 proofs of the substitution lemma on the reference semantics and of instance identity")
