"""Registration of C08 (loaded by tools/props.py)."""
from common import TB_COMMON

PROP = {
    "lean_modules": ["CapyV.Props.C08"],
    "level": "proof",
    "needs_cli": True,
    "trusted_base": TB_COMMON + [
        "Cranelift integer instructions (iadd, isub, imul, ineg, sdiv/udiv, srem/urem, band/bor/bxor/bnot, ishl/ushr/sshr with the amount taken modulo the width, icmp, uextend/sextend/ireduce) modelled as core BitVec functions; x86 div/idiv faults modelled as an explicit `trap` outcome; the model is hand-transcribed from compile_num_binary / Expr::Unary / cast_num and tied to the code end to end (every generated point is built by the real CLI, run, and its printed bit pattern compared with the model's answer, at run time and inside comptime)",
        "floats are not computed in Lean (Float is opaque): a float is abstracted to the integer it truncates to (FVal); fcvt_to_{s,u}int_sat = clamp (NaN -> 0), fcvt_from_{s,u}int = the integer value of the operand it is given; rounding to the nearest representable float is the CPU's cvtsi2ss/sd (and Cranelift's u64 sequence) and is checked end to end against the host's `as` conversion (IEEE round-to-nearest-even); float arithmetic, fpromote/fdemote and float comparisons are not modelled at all — they are checked only against the host's IEEE arithmetic (oracle-only stream)",
        "NumTy (width, float, signed) is tied to calc_finals/finalize_int through hook codegen::verif::final_ty on every primitive, weak and distinct-wrapped type (single pointer width, 64)",
        "the operands reach the operation through pointer reinterpretation of u32 arrays and results are read back the same way (no cast is involved in printing), printed by core.println on unsigned integers of at most 64 bits; core's decimal printing of u8..u64 is trusted (a defect there shows as a mismatch, not as a silent pass)",
        "gcc/ld, the JIT (comptime) and object back ends of Cranelift 0.123 on x86-64",
    ],
    "assumptions": [
        "x86-64 host (pointer width 64; isize/usize are 64-bit)",
        "divisions have a non-zero divisor and are not MIN / -1; shift amounts are below the width (the property's own exclusions; what the generated code does otherwise is stated by div_by_zero_traps and `shamt`)",
        "float -> integer: nothing is claimed when the truncated value does not fit the target type, for NaN or for infinities (the model and cast_float_int_nan say what happens)",
    ],
}

# (category, text, design_ref, technique)
LEVEL = ("proof",
         "Width- and signedness-generic Lean 4 theorems about a transcription of compile_num_binary / Expr::Unary / cast_num over BitVec w: add/sub/mul/neg/shl wrap modulo 2^w (the result is the w-bit pattern of the exact integer result), / and % truncate toward zero for non-zero divisors without MIN/-1 (and fault otherwise), & | ~ are bitwise, >> is the floor of value/2^s read with the type's signedness, all six comparisons compare the values read with the type's signedness; integer->integer casts yield the target-width pattern of the SOURCE's value (sign-/zero-extension by the source's signedness, truncation) — full theorem after a `fix:` commit (the pinned code extended by `from.signed && to.signed`: u32.(i8 -1) = 255); integer->float hands the conversion instruction the source's full value for every source of at most 64 bits (pinned: reduced to the target's width first, f32.(i64 2^40) = 0.0) and float->integer yields the truncated value whenever it fits, for every target of at most 64 bits (pinned: saturated at the source float's width, i64.(f32 3e9) = 2147483647) — `_partial` + `_counterexample` theorems for 128-bit integers, where Cranelift has no conversion instruction on x86-64 (known findings, as are the missing 128-bit division and the run-time crash of & | ~ on floats held in memory, the latter fixed by the same commit). Each run builds ~65 (thorough ~400) generated programs with the real CLI covering every (type, operator) and every (source, target) pair on boundary x boundary and random operands (variables, literal right operands and the compound form `x op= lit`, and right operands of every narrower integer type that fits the left one, binary and compound: the operation is the left type's), evaluates every point at run time and inside comptime, and compares the printed bit patterns with the model and with an independent i128/u128/host-IEEE oracle; codegen::verif::final_ty ties the type table to calc_finals.",
         "§4 C08",
         "Lean 4 proof (width-generic BitVec/Int lemmas, no bit-blasting) + end-to-end translation validation on generated programs")
