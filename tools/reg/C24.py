"""Registration of C24 (loaded by tools/props.py)."""
from common import TB_COMMON

PROP = {
    'lean_modules': ['CapyV.Props.C24'],
    'level': 'proof',
    "trusted_base": TB_COMMON + [   'tools/gen_bp.py: anchored regex extraction of the binding-power chain, PREFIX_TOKENS, '
    'PREFIX_DISALLOW_DOT, QUICK_ASSIGN_OPERATORS, the postfix match arms and the flag arguments of the '
    'parse_post_operators / parse_expr_for_prefix call sites from expr.rs / stmt.rs (fails closed)',
    'modelled, not verified: Parser primitives (at/at_set/at_ahead skip trivia; bump), marker/event/sink '
    'tree building (ParenExpr is transparent in the model tree), the lexer (the harness feeds the real '
    "lexer's tokens to the model parser)",
    "abstracted: parse_lambda's parenthesis detection (for a parenthesis whose top level holds no "
    '`:`/`,`/`...` and is non-empty it always hands over to parse_paren), recovery sets and the '
    '`{`-struct-literal recovery arms (no `{` in the alphabet), every parse_lhs arm whose first token is '
    'outside the core alphabet; error outcomes are collapsed to `none`'],
    'assumptions': [   'expressions over the core alphabet: identifiers, integer literals, the 18 binary operators, prefix - + '
    '! ~ ^ ^mut, postfix call / index / field / .try / .(cast) / deref, parentheses (no string/char/float '
    'literals, struct/array literals, lambdas, blocks, if/while/switch as operands)',
    'precedence between prefix and postfix operators is not fixed by the property text; the theorems state '
    'what the code does (deref after a prefix operator applies to the prefixed expression; `.(` after `^` '
    'applies to the reference)',
    "'all generated well-typed programs' part of the quantifier: not covered (no whole-program printer "
    'exists yet); covered: all trees (proof), trees to depth 5 (correspondence)'],
}

# (category, text, design_ref, technique)
LEVEL = ('proof',
 'Round trip and table shape are Lean 4 theorems about an arm-by-arm model of parse_expr_bp / parse_lhs / '
 'parse_expr_for_prefix / parse_post_operators (CapyV.C24.parse_print, parse_print_redundant: parse (print '
 't) = some t for EVERY tree, any amount of redundant parentheses, no depth bound; bp_table_shape: the '
 'binding powers regenerated from expr.rs on every run are the documented five levels in order, l < r '
 'everywhere; binary_pair, prefix_binds_tighter, postfix_binds_tighter, postfix_before_prefix, '
 'deref_after_prefix; parse_print_source: the same with any whitespace/comments between the tokens). The '
 'model is tied to the code on every run: the real lexer + parse_repl_line + parse_source_file + ast '
 'accessors on the printed source of all trees to depth 2 over all operators, all binary trees with <= 3 '
 'operators, depth 3 over a reduced alphabet, random trees to depth 5 and token soups, compared with the '
 'compiled Lean model and with an independent printer / precedence-climbing reference written from the '
 "property's table.",
 '§4 C24',
 'Lean 4 proof (structural recursion over the tree, generalised over minimum binding power and continuation) '
 '+ translator for the tables + differential correspondence check against the real lexer/parser/ast crates')
