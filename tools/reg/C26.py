"""Registration of C26 (loaded by tools/props.py)."""
from common import TB_COMMON

PROP = {
    'lean_modules': ['CapyV.Props.C26'],
    'level': 'proof',
    "trusted_base": TB_COMMON + [   'indexmap::IndexMap / IndexSet behave as insertion-ordered maps/sets with unique keys (entry, insert '
    'overwrites in place, extend = repeated insert, shift_remove keeps the order of the rest); `num_children '
    '+= 1` never reaches usize::MAX',
    "the finish round loop is modelled (CapyV.Sched.finish) with `infer` as a parameter; that hir_ty's real "
    'call sequences follow the protocol is checked by replaying hook-H3 logs, only when the hook is merged '
    'into /repo (otherwise stream skipped, see evidence notes)',
    "TopoSort's derived Debug output is used to read the private state (num_children, parents) for the state "
    'comparison'],
    'assumptions': [   'usage protocol (CapyV.SchedSpec.legal / scriptFresh): an item that has completed is never named again '
    '(as item, parent or child), `extend` brings only new distinct items, only pending items complete; '
    'inside finish: each round processes exactly the offered items, each completes or registers dependencies '
    'on not-yet-completed items',
    'outside the protocol the code does underflow / lose work (theorems underflow_outside_protocol, '
    'lost_item_outside_protocol): not reachable from hir_ty as far as the trace replay shows'],
}

# (category, text, design_ref, technique)
LEVEL = ('proof',
 'The property in full is a set of Lean 4 theorems (CapyV.C26.no_underflow, peekAll_exact, inCycle_iff, '
 'cycle_only_when_all_wait, offered_only_if_pending, removed_not_offered, empties_when_all_complete, '
 'finish_offers_exact, checker_round_is_legal; witnesses underflow_outside_protocol, '
 'lost_item_outside_protocol) about an arm-by-arm model of every public method of topo::TopoSort and of the '
 'round loop of InferenceCtx::finish, for every protocol-following history: any number of items and rounds, '
 'cycle-breaking rounds included. Proof: counting invariant over the history (num_children p = number of '
 'pending children that registered p). The model is tied to the code on every run: the real TopoSort<u8> '
 'against the compiled Lean model on the whole graph of protocol histories over 3 (thorough: 4) items '
 '(return values and full private state of every call), random finish runs up to 12 items / 40 rounds, all '
 'arbitrary call sequences of length <= 3 (4) over 3 items and random ones (including the underflow panic), '
 'an independent oracle (pending set + waits-on relation from the history), the Rust oracle against the Lean '
 'specification, and - once hook H3 is merged - the call sequences hir_ty really issues on generated '
 'programs.',
 '§4 C26',
 'Lean 4 proof (history invariant, induction over histories and rounds) + differential correspondence check '
 'against the real crate')
