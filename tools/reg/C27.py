"""Registration of C27 (loaded by tools/props.py)."""
from common import TB_COMMON

PROP = {
    'lean_modules': ['CapyV.Props.C27'],
    'level': 'proof',
    "trusted_base": TB_COMMON + [   'std path handling abstracted into the descriptor (which base directory a path is under, its normal '
    'components): Path::components, is_sub_dir_of/strip_prefix are lexical and exercised by the '
    'correspondence run, not modelled',
    'usize/u32 to_string = CapyV.Mangle.natDigits (checked by the correspondence run on every length/index '
    'that occurs and on boundary values)',
    'entity identity: a lambda directly bound to a global is that global (GLOBAL_LAMBDAS; same file by the '
    'invariant asserted in NaiveLambdaLoc::to_string); a generic instance is identified by '
    'ComptimeArgs::raw_start, lambdas/comptime blocks by their arena index (expr fields do not enter the '
    'name)'],
    'assumptions': [   'mangle_injective_partial only: the decidable guard WF (directories dot-free; file = <dot-free '
    'stem>.capy; no component of the form f<digit>.. / module name m<digit>..; the `src` skip fires exactly '
    'for module files; global and data names do not start with a digit). Outside WF the property is '
    'violated: known findings digit-escape, dot-dash, capy-strip, src-skip',
    'path components are names (non-empty, not `.` or `..`); entities live in files ending in .capy '
    '(enforced by the compiler driver and by #import)'],
}

# (category, text, design_ref, technique)
LEVEL = ('proof',
 'Lean 4 theorems about a byte-level model of codegen/src/mangle.rs + FileName::get_components, for all '
 'paths, names and indices (no size bound). In full: no entity symbol is `main` or any `_CI<len><name>E` '
 'internal symbol (mangle_ne_main, mangle_not_internal); entities of different kinds (global/lambda, generic '
 'or not, code/comptime/comptime data) never share a symbol (mangle_kind_separated, from unique readability '
 'of the encoding, encodeParts_unique); within one file there are no collisions at all '
 '(mangle_injective_same_file). Distinctness across files is FALSE of the current code: proved only under '
 'the decidable guard WF (mangle_injective_partial) with machine-checked counterexamples for each collision '
 'class (digit-escape `1/` vs `f1/`, dot-dash `p.q/` vs `p-q/`, capy-strip `x.capy/` vs `x/`, src-skip '
 '`a/src/x.capy` vs `b/src/x.capy` and module `m/src/x.capy` vs `m/x.capy`). Every run executes the real '
 'mangler through hook H1 on all paths <= 3 components over a pool of adversarial names x both roots, an '
 'entity grid, all indices < 1000 and random descriptors with near-miss mutants, compares every string with '
 "the compiled Lean model, checks pairwise distinctness on the implementation's own output, and classifies "
 'each collision into a known class or reports it as new.',
 '§4 C27',
 'Lean 4 proof (unique readability of a length-prefixed encoding; injectivity under a decidable guard) + '
 'counterexample theorems + differential correspondence and pairwise-distinctness oracle on the real crate')
