#!/bin/sh
# tools/mutest.sh <patch-file> <Cxx> [more check args]
# tools/mutest.sh -c '<shell command run in the worktree>' <Cxx> [more check args]
# Runs ./check Cxx against a scratch worktree of /repo with <patch-file> applied, without
# touching /repo: a mirror of /verif under /tmp/mt_verif has its harness path dependencies
# rewritten to the worktree. The mirror and its build output persist between calls for
# speed; `tools/mutest.sh --clean` removes everything.
set -e
WT=/tmp/mt_repo
MV=/tmp/mt_verif
if [ "$1" = "--clean" ]; then
  git -C /repo worktree remove --force $WT 2>/dev/null || true
  rm -rf $MV $WT
  exit 0
fi
if [ "$1" = "-c" ]; then MUTCMD="$2"; shift; shift; else PATCH=$(readlink -f "$1"); shift; fi
if [ ! -d $WT ]; then git -C /repo worktree add --detach $WT HEAD >/dev/null 2>&1; fi
git -C $WT reset -q --hard && git -C $WT clean -fdq -e target
git -C $WT checkout -q --detach $(git -C /repo rev-parse HEAD)
if [ -n "$MUTCMD" ]; then (cd $WT && sh -c "$MUTCMD"); else git -C $WT apply "$PATCH"; fi
git -C $WT diff --stat | tail -1
[ -f $WT/Cargo.lock ] || cp /repo/Cargo.lock $WT/Cargo.lock
mkdir -p $MV
rsync -a --delete --exclude .git --exclude .build --exclude 'lean/.lake' --exclude replays --exclude evidence /verif/ $MV/
sed -i "s#/repo/crates#$WT/crates#g" $MV/harness/Cargo.toml
sed -i "s#/repo/#$WT/#g; s#\"/repo\"#\"$WT\"#g" $MV/tools/gen.py
cd $MV
set +e
CAPY_REPO=$WT ./check "$@"
rc=$?
echo "mutest rc=$rc"
exit $rc
