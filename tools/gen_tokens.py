"""Translator module: /repo/tokenizer.txt -> lean/CapyV/Generated/Tokens.lean

Re-implements, line by line, what `capy_macros::define_token_enum!` does with the file
(`full` mode for `lexer::LexerTokenKind`, `stripped` mode for `syntax::TokenKind`) and
parses the regex rules (exactly the constructs the file uses) into terms of
`CapyV.Regex`. Anything it does not understand raises (gen.py then exits 1 and the
property is reported as not shown).

Also reads the `\\d` table (Unicode `Decimal_Number`) from the `regex-syntax` version pinned
in /repo/Cargo.lock, because logos compiles `#[regex]` patterns in Unicode mode.
"""
import glob
import os
import re


class GenError(Exception):
    pass


# ---------------------------------------------------------------------------------------
# the macro's line splitting (capy_macros/src/lib.rs, `for line in file.lines()...`)

def split_parts(line):
    parts, latest = [], ""
    for ch in line:
        if ch.isspace() and len(parts) < 2:
            if latest:
                parts.append(latest)
                latest = ""
        else:
            latest += ch
    if latest:
        parts.append(latest)
    return parts


def unescape_rn(s):
    # `.replace("\\r", "\r").replace("\\n", "\n")` in this order
    return s.replace("\\r", "\r").replace("\\n", "\n")


def parse_table(text):
    """returns (full, stripped): full = [(name, pat)] with pat None | ('lit', s) | ('rx', src);
    stripped = [name]"""
    full, stripped = [], []
    at_end = False
    for line in text.split("\n"):
        line = line.rstrip("\r")
        if line == "" or line.startswith("//"):
            continue
        parts = split_parts(line)
        if len(parts) not in (1, 3):
            raise GenError(f"`{line}` not one or three parts")
        name = parts[0]
        if not re.fullmatch(r"[A-Za-z_][A-Za-z0-9_]*", name):
            raise GenError(f"token name `{name}` is not an identifier")
        if name.startswith("__"):
            at_end = True
        elif at_end:
            raise GenError("Tokens that start with `__` must be at the very end of the file")
        # ---- full mode
        if len(parts) == 3 and parts[1] == "=":
            value = parts[2]
            if value.startswith("/"):
                v = value.split("|=>", 1)[0].strip()
                if not (len(v) >= 2 and v.startswith("/") and v.endswith("/")):
                    raise GenError(f"regex of `{name}` is not /.../: {v!r}")
                full.append((name, ("rx", unescape_rn(v[1:-1]))))
            elif value.startswith("'"):
                if not (len(value) >= 2 and value.endswith("'")):
                    raise GenError(f"literal of `{name}` is not '...': {value!r}")
                lit = unescape_rn(value[1:-1])
                if lit == "":
                    raise GenError(f"empty literal for `{name}`")
                full.append((name, ("lit", lit)))
            elif value == "!":
                full.append((name, None))
            else:
                raise GenError(f"expected regex, token, or `!`, but found {value}")
        elif len(parts) == 3 and parts[1] == "|=>":
            full.append((name, None))
        elif len(parts) == 1:
            full.append((name, None))
        else:
            raise GenError(f"`{line}`: second part is neither `=` nor `|=>`")
        # ---- stripped mode
        if name.startswith("__"):
            continue
        stripped.append(name[1:] if name.startswith("_") else name)
    return full, stripped


# ---------------------------------------------------------------------------------------
# regex syntax (subset of regex-syntax's, Unicode mode, no flags)

class RegexParser:
    """alt := cat ('|' cat)* ; cat := rep* ; rep := atom ('*'|'+'|'?')? ;
    atom := '(' alt ')' | '[' class ']' | '.' | '\\' esc | literal"""

    META = set("()[]{}|*+?.^$\\")

    def __init__(self, src, digit_ranges):
        self.s = src
        self.i = 0
        self.digits = digit_ranges

    def fail(self, msg):
        raise GenError(f"regex {self.s!r} at {self.i}: {msg}")

    def peek(self):
        return self.s[self.i] if self.i < len(self.s) else None

    def parse(self):
        r = self.alt()
        if self.i != len(self.s):
            self.fail(f"unexpected {self.peek()!r}")
        return r

    def alt(self):
        items = [self.cat()]
        while self.peek() == "|":
            self.i += 1
            items.append(self.cat())
        r = items[-1]
        for x in reversed(items[:-1]):
            r = ("alt", x, r)
        return r

    def cat(self):
        items = []
        while self.peek() is not None and self.peek() not in "|)":
            items.append(self.rep())
        if not items:
            self.fail("empty alternative / empty group is not supported")
        r = items[-1]
        for x in reversed(items[:-1]):
            r = ("cat", x, r)
        return r

    def rep(self):
        a = self.atom()
        c = self.peek()
        if c in ("*", "+", "?"):
            self.i += 1
            if self.peek() in ("*", "+", "?", "{"):
                self.fail("stacked / lazy / counted repetition is not supported")
            return {"*": ("star", a), "+": ("plus", a), "?": ("opt", a)}[c]
        if c == "{":
            self.fail("counted repetition is not supported")
        return a

    def atom(self):
        c = self.peek()
        if c == "(":
            self.i += 1
            if self.peek() == "?":
                self.fail("group flags / non-capturing groups are not supported")
            r = self.alt()
            if self.peek() != ")":
                self.fail("expected `)`")
            self.i += 1
            return r
        if c == "[":
            self.i += 1
            return self.klass()
        if c == ".":
            self.i += 1
            return ("cls", True, [(10, 10)])       # any scalar value except \n
        if c == "\\":
            self.i += 1
            kind, val = self.escape()
            if kind == "digits":
                return ("cls", False, ["D"])
            return ("cls", False, [(val, val)])
        if c in self.META:
            self.fail(f"unsupported metacharacter {c!r}")
        self.i += 1
        return ("cls", False, [(ord(c), ord(c))])

    def escape(self):
        """after a backslash: returns ('char', codepoint) or ('digits', None)"""
        c = self.peek()
        if c is None:
            self.fail("dangling backslash")
        self.i += 1
        if c == "d":
            return ("digits", None)
        if c == "t":
            return ("char", 9)
        if c == "n":
            return ("char", 10)
        if c == "r":
            return ("char", 13)
        if c == "x":
            h = self.s[self.i:self.i + 2]
            if not re.fullmatch(r"[0-9a-fA-F]{2}", h):
                self.fail("expected two hex digits after \\x")
            self.i += 2
            return ("char", int(h, 16))               # Unicode mode: a code point
        if c in "\\.+*?()|[]{}^$#&-~/\"'":
            return ("char", ord(c))
        self.fail(f"unsupported escape \\{c}")

    def klass(self):
        neg = False
        if self.peek() == "^":
            neg = True
            self.i += 1
        ranges = []
        first = True
        while True:
            c = self.peek()
            if c is None:
                self.fail("unterminated class")
            if c == "]" and not first:
                self.i += 1
                break
            first = False
            if c == "[":
                self.fail("nested / POSIX classes are not supported")
            if c in "&~" and self.s[self.i:self.i + 2] in ("&&", "~~", "--"):
                self.fail("class set operations are not supported")
            lo = self.class_atom()
            if lo == "digits":
                ranges.append("D")
                continue
            if self.peek() == "-" and self.i + 1 < len(self.s) and self.s[self.i + 1] != "]":
                self.i += 1
                hi = self.class_atom()
                if hi == "digits":
                    self.fail("class range ending in \\d")
                if hi < lo:
                    self.fail("inverted class range")
                ranges.append((lo, hi))
            else:
                ranges.append((lo, lo))
        if not ranges:
            self.fail("empty class")
        return ("cls", neg, ranges)

    def class_atom(self):
        c = self.peek()
        if c == "\\":
            self.i += 1
            kind, val = self.escape()
            return "digits" if kind == "digits" else val
        self.i += 1
        return ord(c)


def surrogate_free(ranges):
    for lo, hi in ranges:
        if lo > hi or hi > 0x10FFFF or (lo <= 0xDFFF and hi >= 0xD800):
            raise GenError(f"bad code point range {lo:#x}-{hi:#x}")


def lean_regex(r):
    t = r[0]
    if t == "cls":
        surrogate_free([x for x in r[2] if x != "D"])
        segs, cur = [], []
        for x in r[2]:
            if x == "D":
                if cur:
                    segs.append("[" + ", ".join(f"({lo}, {hi})" for lo, hi in cur) + "]")
                    cur = []
                segs.append("decimalNumber")
            else:
                cur.append(x)
        if cur:
            segs.append("[" + ", ".join(f"({lo}, {hi})" for lo, hi in cur) + "]")
        rs = segs[0] if len(segs) == 1 else "(" + " ++ ".join(segs) + ")"
        return f".cls {'true' if r[1] else 'false'} {rs}"
    if t in ("alt", "cat"):
        return f".{t} ({lean_regex(r[1])}) ({lean_regex(r[2])})"
    if t in ("star", "plus", "opt"):
        return f".{t} ({lean_regex(r[1])})"
    raise GenError(f"internal: {r!r}")


def lean_string(s):
    out = []
    for ch in s:
        o = ord(ch)
        if ch == "\\":
            out.append("\\\\")
        elif ch == '"':
            out.append('\\"')
        elif ch == "\n":
            out.append("\\n")
        elif ch == "\r":
            out.append("\\r")
        elif ch == "\t":
            out.append("\\t")
        elif 32 <= o < 127:
            out.append(ch)
        else:
            out.append("\\u{%x}" % o)
    return '"' + "".join(out) + '"'


def lean_chars(s):
    out = []
    for ch in s:
        o = ord(ch)
        if ch == "\\":
            out.append("'\\\\'")
        elif ch == "'":
            out.append("'\\''")
        elif 32 < o < 127:
            out.append(f"'{ch}'")
        else:
            out.append(f"Char.ofNat {o}")
    return "[" + ", ".join(out) + "]"


# ---------------------------------------------------------------------------------------
# \d in Unicode mode: table of the pinned regex-syntax

def digit_ranges(repo):
    lock = open(os.path.join(repo, "Cargo.lock")).read()
    vers = re.findall(r'name = "regex-syntax"\nversion = "([^"]+)"', lock)
    m = re.search(r'name = "logos-codegen"\nversion = "[^"]+"\n(?:.*\n)*?dependencies = \[\n((?:\s+"[^"]+",\n)+)', lock)
    if not m:
        raise GenError("Cargo.lock: logos-codegen entry not found")
    deps = re.findall(r'"([^"]+)"', m.group(1))
    dep = [d for d in deps if d.startswith("regex-syntax")]
    if len(dep) != 1:
        raise GenError(f"Cargo.lock: logos-codegen's regex-syntax dependency not found: {deps}")
    parts = dep[0].split(" ")
    if len(parts) >= 2:
        ver = parts[1]
    elif len(vers) == 1:
        ver = vers[0]
    else:
        raise GenError(f"Cargo.lock: ambiguous regex-syntax version {vers}")
    homes = [os.environ.get("CARGO_HOME", ""), os.path.expanduser("~/.cargo"), "/root/.cargo"]
    cands = []
    for h in homes:
        if h:
            cands += glob.glob(os.path.join(h, "registry", "src", "*", f"regex-syntax-{ver}",
                                            "src", "unicode_tables", "perl_decimal.rs"))
    if not cands:
        raise GenError(f"regex-syntax-{ver} sources (unicode_tables/perl_decimal.rs) not found in the cargo registry")
    src = open(cands[0], encoding="utf-8").read()
    m = re.search(r"pub const DECIMAL_NUMBER: &'static \[\(char, char\)\] = &\[\n(.*?)\n\];", src, re.S)
    if not m:
        raise GenError("perl_decimal.rs: DECIMAL_NUMBER table not found")
    out = []
    for line in m.group(1).split("\n"):
        line = line.strip()
        if not line:
            continue
        mm = re.fullmatch(r"\('(\\u\{[0-9a-fA-F]+\}|.)', '(\\u\{[0-9a-fA-F]+\}|.)'\),", line)
        if not mm:
            raise GenError(f"perl_decimal.rs: unparsable row {line!r}")

        def cp(x):
            return int(x[3:-1], 16) if x.startswith("\\u{") else ord(x)
        out.append((cp(mm.group(1)), cp(mm.group(2))))
    if (48, 57) not in out or len(out) < 30:
        raise GenError("perl_decimal.rs: table implausible")
    uver = re.search(r"Unicode version: ([0-9]+(?:\.[0-9]+)*)", src)
    return out, ver, (uver.group(1) if uver else "?")


# ---------------------------------------------------------------------------------------

def check_lexer_rs(repo, full_names):
    """the hand-written part we rely on by name: the three __Internal arms, the sub-lexer
    kinds, the enum generated from the same file in both crates"""
    lx = open(os.path.join(repo, "crates", "lexer", "src", "lib.rs")).read()
    sx = open(os.path.join(repo, "crates", "syntax", "src", "lib.rs")).read()
    need = [
        (lx, r'define_token_enum!\s*\{\s*LexerTokenKind,\s*full,\s*"\.\./\.\./tokenizer\.txt"\s*\}'),
        (sx, r'define_token_enum!\s*\{\s*TokenKind,\s*stripped,\s*"\.\./\.\./tokenizer\.txt"\s*\}'),
        (lx, r"Ok\(LexerTokenKind::__InternalChar\) => lex_char\(lexer\.slice\(\), start, handler\)"),
        (lx, r"Ok\(LexerTokenKind::__InternalString\) => lex_string\(lexer\.slice\(\), start, handler\)"),
        (lx, r"Ok\(LexerTokenKind::__InternalComment\) => lex_comment\(start, range\.len\(\), handler\)"),
        (lx, r"mem::transmute::<LexerTokenKind, TokenKind>\(kind\)"),
        (lx, r"Err\(_\) => handler\(TokenKind::Error, start\)"),
    ]
    for src, pat in need:
        if not re.search(pat, src):
            raise GenError(f"anchored pattern no longer matches: {pat}")
    internal = [n for n in full_names if n.startswith("__")]
    if sorted(internal) != ["__InternalChar", "__InternalComment", "__InternalString"]:
        raise GenError(f"unexpected set of __Internal rules: {internal}")


def generate(repo, emit):
    text = open(os.path.join(repo, "tokenizer.txt"), encoding="utf-8").read()
    full, stripped = parse_table(text)
    full_names = [n for n, _ in full]
    if len(set(full_names)) != len(full_names) or len(set(stripped)) != len(stripped):
        raise GenError("duplicate token names")
    check_lexer_rs(repo, full_names)
    for need in ["SingleQuote", "DoubleQuote", "Escape", "StringContents", "CommentLeader",
                 "CommentContents", "Error"]:
        if need not in stripped:
            raise GenError(f"TokenKind::{need} (used by lexer/src/lib.rs) is not in tokenizer.txt")
    digits, rs_ver, uni_ver = digit_ranges(repo)

    L = []
    L.append("/- GENERATED by tools/gen_tokens.py from /repo/tokenizer.txt — do not edit.")
    L.append("   Regenerated by every ./check run; rewritten only when the content changes.")
    L.append(f"   `\\d` = Unicode Decimal_Number of regex-syntax {rs_ver} (Unicode {uni_ver}). -/")
    L.append("import CapyV.Model.Regex")
    L.append("namespace CapyV.Tokens")
    L.append("open CapyV")
    L.append("")
    L.append("/-- `syntax::TokenKind` (`stripped` mode of `define_token_enum!`), in declaration order. -/")
    L.append("inductive TokenKind where")
    for n in stripped:
        L.append(f"  | {n}")
    L.append("  deriving DecidableEq, Repr, Inhabited")
    L.append("")
    L.append("def TokenKind.all : List TokenKind :=")
    L.append("  [" + ", ".join("." + n for n in stripped) + "]")
    L.append("")
    L.append("def TokenKind.toString : TokenKind → String")
    for n in stripped:
        L.append(f"  | .{n} => \"{n}\"")
    L.append("")
    L.append("instance : ToString TokenKind := ⟨TokenKind.toString⟩")
    L.append("")
    L.append("def TokenKind.ofString? (s : String) : Option TokenKind :=")
    L.append("  TokenKind.all.find? (fun k => k.toString == s)")
    L.append("")
    L.append("/-- discriminant (`kind as u8`) -/")
    L.append("def TokenKind.toNat : TokenKind → Nat")
    for i, n in enumerate(stripped):
        L.append(f"  | .{n} => {i}")
    L.append("")
    L.append("def TokenKind.ofNat? (i : Nat) : Option TokenKind := TokenKind.all[i]?")
    L.append("")
    L.append("/-- the literal text of the kinds declared as `Name = '...'` -/")
    L.append("def TokenKind.literal? : TokenKind → Option String")
    for n, pat in full:
        if pat and pat[0] == "lit":
            L.append(f"  | .{n[1:] if n.startswith('_') else n} => some {lean_string(pat[1])}")
    L.append("  | _ => none")
    L.append("")
    L.append("/-- variant names of `lexer::LexerTokenKind` (`full` mode), in declaration order;")
    L.append("a lexer kind is its index in this list (its discriminant). -/")
    L.append("def lexerKindNames : List String :=")
    L.append("  [" + ", ".join(f"\"{n}\"" for n in full_names) + "]")
    L.append("")
    L.append("/-- variant names of `syntax::TokenKind` as the macro's `stripped` mode derives them -/")
    L.append("def tokenKindNames : List String :=")
    L.append("  [" + ", ".join(f"\"{n}\"" for n in stripped) + "]")
    L.append("")
    L.append("/-- Unicode `Decimal_Number` (what `\\d` means to logos on `&str` input) -/")
    L.append("def decimalNumber : List (Nat × Nat) :=")
    L.append("  [" + ", ".join(f"({lo}, {hi})" for lo, hi in digits) + "]")
    L.append("")
    L.append("/-- the `#[token]` / `#[regex]` rules: (lexer discriminant, pattern) in declaration order -/")
    L.append("def rules : List (Nat × Pat) := [")
    rows = []
    for i, (n, pat) in enumerate(full):
        if pat is None:
            continue
        if pat[0] == "lit":
            rows.append(f"  ({i}, .lit {lean_chars(pat[1])})  -- {n}")
        else:
            ast = RegexParser(pat[1], digits).parse()
            rows.append(f"  ({i}, .rx ({lean_regex(ast)}))  -- {n}")
    # the trailing comment must come after the comma
    fixed = []
    for k, row in enumerate(rows):
        code, _, com = row.partition("  -- ")
        fixed.append(code + ("," if k + 1 < len(rows) else "") + "  -- " + com)
    L.extend(fixed)
    L.append("]")
    L.append("")
    for n in ["__InternalString", "__InternalChar", "__InternalComment"]:
        L.append(f"def disc{n[2:]} : Nat := {full_names.index(n)}")
    L.append("")
    L.append("end CapyV.Tokens")
    surrogate_free(digits)
    emit("Tokens.lean", "\n".join(L) + "\n")
