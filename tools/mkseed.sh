#!/bin/sh
# tools/mkseed.sh Cxx N  -> creates worktree /tmp/seedwt_Cxx_N and prints the adversary prompt
set -e
PID=$1; N=$2
WT=/tmp/seedwt_${PID}_$N; OUT=/tmp/seed_${PID}_$N
git -C /repo worktree add --detach $WT HEAD >/dev/null 2>&1 || true
[ -f $WT/Cargo.lock ] || cp /repo/Cargo.lock $WT/Cargo.lock
# warm the build: registry dependencies (Cranelift, ...) are reused, workspace crates rebuild
[ -d $WT/target ] || { mkdir -p $WT/target && cp -a /repo/target/debug $WT/target/debug 2>/dev/null || true; }
mkdir -p $OUT
python3 - "$PID" "$WT" "$OUT" <<'PY'
import json,sys
pid,wt,out=sys.argv[1:4]
for l in open('/verif/properties.jsonl'):
    p=json.loads(l)
    if p['id']==pid: break
ptext=f"{p['title']}\n{p['statement']}\nScope: {p['quantifier']['text']}"
t=open('/verif/tools/seed_prompt.txt').read()
print(t.replace('{WT}',wt).replace('{OUT}',out).replace('{PTEXT}',ptext))
PY
