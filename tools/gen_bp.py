"""Translator module for C24: regenerates lean/CapyV/Generated/BindingPowers.lean from
/repo/crates/parser/src/grammar/{expr.rs,stmt.rs}.

Only table-shaped facts are extracted, each with an anchored pattern; any mismatch raises
(tools/gen.py then exits 1 and ./check reports the property as no longer shown).

Extracted:
  * binary operator token -> (left_bp, right_bp)      (the if/else-if chain of parse_expr_bp)
  * the stop test `left_bp < minimum_bp` and the recursion on `right_bp`
  * PREFIX_TOKENS, PREFIX_DISALLOW_DOT                 (expr.rs consts)
  * QUICK_ASSIGN_OPERATORS                             (stmt.rs const)
  * the postfix starters of parse_post_operators (match arms, with their
    `if !disallow_derefs` guard) and the forms after `.` (with their
    `disallow_dot_instantiation` guard)
  * the flag arguments of the three call sites of parse_post_operators /
    parse_expr_for_prefix (expression loop, prefix operand, `^` operand)
  * parser.rs: `bump`, `at`, `at_set`, `kind`, `at_eof` skip trivia before acting
"""
import os
import re


class Mismatch(Exception):
    pass


def need(cond, what):
    if not cond:
        raise Mismatch("anchored pattern no longer matches: " + what)


def fn_body(src, header_re, what):
    """text of the brace-balanced block following the first match of header_re"""
    m = re.search(header_re, src)
    need(m, what)
    i = src.index("{", m.end() - 1)
    depth, j = 0, i
    while j < len(src):
        c = src[j]
        if c == "{":
            depth += 1
        elif c == "}":
            depth -= 1
            if depth == 0:
                return src[i + 1:j]
        j += 1
    raise Mismatch("unbalanced braces after " + what)


def strip_comments(s):
    return re.sub(r"//[^\n]*", "", s)


def kinds_of(text):
    return re.findall(r"TokenKind::(\w+)", text)


def token_set_const(src, name, what):
    m = re.search(r"const\s+" + name + r"\s*:\s*TokenSet\s*=\s*TokenSet::new\(\[(.*?)\]\)\s*;", src, re.S)
    need(m, what)
    inner = strip_comments(m.group(1))
    ks = kinds_of(inner)
    rest = re.sub(r"TokenKind::\w+|[\s,]", "", inner)
    need(rest == "", what + " (unexpected content %r)" % rest[:40])
    return ks


def parse_binary_table(body):
    m = re.search(r"let \(left_bp, right_bp\) = (.*?)\belse\s*\{\s*break;\s*\}\s*;", body, re.S)
    need(m, "parse_expr_bp: `let (left_bp, right_bp) = if ... else { break; };`")
    chain = strip_comments(m.group(1))
    arm = re.compile(
        r"\s*(?:else\s+)?if\s+p\.(?:at\(TokenKind::(\w+)\)|at_set\(TokenSet::new\(\[([^\]]*)\]\)\))"
        r"\s*\{\s*\((\d+)\s*,\s*(\d+)\)\s*\}", re.S)
    pos, rows = 0, []
    while True:
        mm = arm.match(chain, pos)
        if not mm:
            break
        single, many, l, r = mm.groups()
        ks = [single] if single else kinds_of(many)
        if many is not None:
            need(re.sub(r"TokenKind::\w+|[\s,]", "", many) == "", "binary table: token set contents")
        need(ks, "binary table: empty arm")
        for k in ks:
            rows.append((k, int(l), int(r)))
        pos = mm.end()
    need(chain[pos:].strip() == "", "binary table: unparsed remainder %r" % chain[pos:].strip()[:60])
    need(rows, "binary table: no arms")
    need(len({k for k, _, _ in rows}) == len(rows), "binary table: a token occurs in two arms")
    return rows


def generate(REPO, emit):
    expr = open(os.path.join(REPO, "crates/parser/src/grammar/expr.rs")).read()
    stmt = open(os.path.join(REPO, "crates/parser/src/grammar/stmt.rs")).read()

    # ---- parse_expr / parse_expr_bp ------------------------------------------------------
    pe = fn_body(expr, r"pub\(super\) fn parse_expr\(\s*p: &mut Parser,\s*expected_syntax_name: &'static str,\s*\) -> Option<CompletedMarker> \{",
                 "fn parse_expr")
    need(re.search(r"parse_expr_bp\(p,\s*0,\s*TokenSet::NONE,\s*expected_syntax_name\)", pe),
         "parse_expr starts parse_expr_bp at minimum_bp 0")
    bp = fn_body(expr, r"fn parse_expr_bp\(\s*p: &mut Parser,\s*minimum_bp: u8,", "fn parse_expr_bp")
    rows = parse_binary_table(bp)
    need(re.search(r"let mut lhs = parse_lhs\(p, recovery_set, expected_syntax_name\)\?;\s*loop \{\s*"
                   r"lhs = parse_post_operators\(p, recovery_set, lhs, (true|false), (true|false)\);", bp),
         "parse_expr_bp: lhs, then loop starting with parse_post_operators(.., flags)")
    m = re.search(r"lhs = parse_post_operators\(p, recovery_set, lhs, (true|false), (true|false)\);", bp)
    loop_flags = (m.group(1), m.group(2))
    need(re.search(r"if p\.at_set\(stmt::QUICK_ASSIGN_OPERATORS\)\s*&& p\.at_ahead\(1, TokenSet::new\(\[TokenKind::Equals\]\)\)\s*\{[^}]*break;\s*\}", bp, re.S),
         "parse_expr_bp: quick-assign look-ahead break")
    need(re.search(r"if left_bp < minimum_bp \{\s*break;\s*\}", bp), "parse_expr_bp: `if left_bp < minimum_bp { break; }`")
    need(re.search(r"p\.bump\(\);[^\n]*\n\s*let m = lhs\.precede\(p\);\s*parse_expr_bp\(p, right_bp, recovery_set, \"operand\"\);\s*"
                   r"lhs = m\.complete\(p, NodeKind::BinaryExpr\);", bp),
         "parse_expr_bp: bump operator, recurse on right_bp, complete BinaryExpr")
    # order of the three steps inside the loop
    i_post = bp.index("lhs = parse_post_operators")
    i_qa = bp.index("QUICK_ASSIGN_OPERATORS")
    i_tab = bp.index("let (left_bp, right_bp)")
    i_stop = bp.index("if left_bp < minimum_bp")
    need(i_post < i_qa < i_tab < i_stop, "parse_expr_bp: order post-operators / quick-assign / table / stop test")

    # ---- prefix sets ---------------------------------------------------------------------
    prefix = token_set_const(expr, "PREFIX_TOKENS", "const PREFIX_TOKENS")
    prefix_nodot = token_set_const(expr, "PREFIX_DISALLOW_DOT", "const PREFIX_DISALLOW_DOT")
    quick = token_set_const(stmt, "QUICK_ASSIGN_OPERATORS", "stmt.rs const QUICK_ASSIGN_OPERATORS")

    pp = fn_body(expr, r"fn parse_prefix_expr\(p: &mut Parser, recovery_set: TokenSet\) -> CompletedMarker \{", "fn parse_prefix_expr")
    need(re.search(r"let should_allow_dot_instantiation = p\.at_set\(PREFIX_DISALLOW_DOT\);", pp)
         and re.search(r"p\.bump\(\);\s*parse_expr_for_prefix\(p, recovery_set, \"operand\", should_allow_dot_instantiation\);\s*"
                       r"m\.complete\(p, NodeKind::UnaryExpr\)", pp),
         "parse_prefix_expr: bump, parse_expr_for_prefix(.., at_set(PREFIX_DISALLOW_DOT)), UnaryExpr")
    pf = fn_body(expr, r"fn parse_expr_for_prefix\(", "fn parse_expr_for_prefix")
    m = re.search(r"let cm = parse_lhs\(p, recovery_set, expected_syntax_name\)\?;\s*Some\(parse_post_operators\(\s*p,\s*recovery_set,\s*cm,\s*"
                  r"(true|false),\s*disallow_dot_instantiation,\s*\)\)", pf)
    need(m, "parse_expr_for_prefix: parse_lhs then parse_post_operators(p, rs, cm, <bool>, disallow_dot_instantiation)")
    prefix_no_deref = m.group(1)
    pr = fn_body(expr, r"fn parse_ref\(p: &mut Parser, recovery_set: TokenSet\) -> CompletedMarker \{", "fn parse_ref")
    m = re.search(r"assert!\(p\.at\(TokenKind::Caret\)\);\s*let m = p\.start\(\);\s*p\.bump\(\);\s*"
                  r"if p\.at\(TokenKind::Mut\) \{\s*p\.bump\(\);\s*\}\s*(?://[^\n]*\n\s*)*"
                  r"parse_expr_for_prefix\(p, recovery_set, \"operand\", (true|false)\);\s*m\.complete\(p, NodeKind::RefExpr\)", pr)
    need(m, "parse_ref: `^`, optional `mut`, parse_expr_for_prefix(.., <bool>), RefExpr")
    ref_nodot = m.group(1)

    # ---- parse_lhs: which arm handles the tokens of the expression core ---------------------
    lhs = fn_body(expr, r"fn parse_lhs\(", "fn parse_lhs")
    heads = re.findall(r"(?:let cm = |\} else )if (p\.at(?:_set)?\([^{]*?)\s*\{\s*\n\s*(\w+)\(", lhs)
    arms = []
    for cond, fn in heads:
        ks = kinds_of(cond)
        sets = re.findall(r"at_set\((\w+)\)", cond)
        arms.append((ks, sets, fn))

    def arm_index(kind=None, setname=None):
        for i, (ks, sets, fn) in enumerate(arms):
            if (kind and ks and ks[0] == kind) or (setname and setname in sets):
                return i, fn
        raise Mismatch("parse_lhs: no arm for %s" % (kind or setname))
    i_int, f_int = arm_index(kind="Int")
    i_id, f_id = arm_index(kind="Ident")
    i_car, f_car = arm_index(kind="Caret")
    i_mut, f_mut = arm_index(kind="Mut")
    i_pre, f_pre = arm_index(setname="PREFIX_TOKENS")
    i_par, f_par = arm_index(kind="LParen")
    need((f_int, f_id, f_car, f_mut, f_pre, f_par) ==
         ("parse_int_literal", "parse_var_ref", "parse_ref", "parse_mut", "parse_prefix_expr", "parse_lambda"),
         "parse_lhs: handlers of Int/Ident/Caret/Mut/PREFIX_TOKENS/LParen")
    need(i_int < i_id < i_car < i_mut < i_pre < i_par, "parse_lhs: arm order Int, Ident, Caret, Mut, prefix, LParen")
    # no single-token arm before the prefix arm may shadow a prefix token
    for ks, sets, fn in arms[:i_pre]:
        for k in ks:
            need(k not in prefix, "parse_lhs: prefix token %s is shadowed by an earlier arm" % k)
    pa = fn_body(expr, r"fn parse_paren\(p: &mut Parser, recovery_set: TokenSet\) -> CompletedMarker \{", "fn parse_paren")
    need(re.search(r"parse_expr_with_recovery_set\(p, \"expression\", recovery_set\);\s*p\.expect_with_no_skip\(TokenKind::RParen\);\s*"
                   r"m\.complete\(p, NodeKind::ParenExpr\)", pa), "parse_paren: expr, `)`, ParenExpr")

    # ---- postfix starters ----------------------------------------------------------------
    po = fn_body(expr, r"fn parse_post_operators\(", "fn parse_post_operators")
    m = re.search(r"loop \{\s*match p\.kind\(\) \{", po)
    need(m, "parse_post_operators: `loop { match p.kind() {`")
    starters = re.findall(r"\n {12}Some\(TokenKind::(\w+)\)( if !disallow_derefs)? => \{", po[m.end() - 1:])
    need(starters, "parse_post_operators: match arms")
    need(re.search(r"\n {12}_ => break,", po), "parse_post_operators: `_ => break`")
    need(len(re.findall(r"\n {12}\S[^\n]*=>", po[m.end() - 1:])) == len(starters) + 1,
         "parse_post_operators: an arm the translator does not understand")
    dot = fn_body(po, r"Some\(TokenKind::Dot\) => \{", "parse_post_operators: Dot arm")
    dot_forms = []
    for mm in re.finditer(r"if p\.at_ahead\(1, TokenSet::new\(\[TokenKind::(\w+)\]\)\) \{\s*(if disallow_dot_instantiation \{\s*break;\s*\})?", dot):
        dot_forms.append((mm.group(1), bool(mm.group(2))))
    need(dot_forms, "parse_post_operators: forms after `.`")
    need(re.search(r"\} else \{\s*let path = cm\.precede\(p\);\s*p\.bump\(\);\s*if p\.at\(TokenKind::Ident\) \{\s*p\.bump\(\);", dot),
         "parse_post_operators: final `.ident` (Path) arm")
    need(re.search(r"Some\(TokenKind::LBrack\) => \{\s*if p\.at_ahead\(2, TokenSet::new\(\[TokenKind::Comma\]\)\) \{", po),
         "parse_post_operators: `[` arm looks 2 ahead for a comma (array literal)")

    # ---- parser primitive: `bump` skips trivia first (fix 91f8795) ---------------------------
    prs = open(os.path.join(REPO, "crates/parser/src/parser.rs")).read()
    bump = fn_body(prs, r"pub\(crate\) fn bump\(&mut self\) \{", "parser.rs fn bump")
    bump_nc = strip_comments(bump)
    need(re.search(r"^\s*self\.skip_trivia\(\);", bump_nc)
         and bump_nc.index("self.skip_trivia();") < bump_nc.index("Event::AddToken")
         and re.search(r"self\.events\.push\(Some\(Event::AddToken\)\);\s*self\.token_idx \+= 1;", bump_nc),
         "parser.rs bump: skip_trivia() first, then AddToken, then token_idx += 1")
    for fname in ("at", "at_set", "kind", "at_eof"):
        b = fn_body(prs, r"pub\(crate\) fn " + fname + r"\(&mut self[^)]*\)[^{]*\{", "parser.rs fn " + fname)
        need("self.skip_trivia();" in b, "parser.rs %s: skips trivia before looking" % fname)

    # ---- emit ----------------------------------------------------------------------------
    structural = ["Ident", "Int", "LParen", "RParen", "LBrack", "RBrack", "Comma", "Dot", "Try",
                  "Caret", "Mut", "Bang", "Equals"]
    kinds = []
    for k in ([r[0] for r in rows] + prefix + prefix_nodot + quick + [s for s, _ in starters]
              + [d for d, _ in dot_forms] + structural):
        if k not in kinds:
            kinds.append(k)

    def setfn(name, ks, doc):
        out = [f"/-- {doc} -/", f"def {name} : Kind → Bool"]
        seen = []
        for k in ks:
            if k not in seen:
                seen.append(k)
                out.append(f"  | .{k} => true")
        if len(seen) < len(kinds):
            out.append("  | _ => false")
        return "\n".join(out)

    L = []
    L.append("/- GENERATED by tools/gen_bp.py from /repo/crates/parser/src/grammar/expr.rs and stmt.rs.")
    L.append("   Do not edit: rewritten by every ./check run. -/")
    L.append("namespace CapyV.Generated.BP")
    L.append("")
    L.append("/-- the `TokenKind`s mentioned by the extracted tables (plus the structural tokens of the")
    L.append("expression core) -/")
    L.append("inductive Kind where")
    for k in kinds:
        L.append(f"  | {k}")
    L.append("  deriving DecidableEq, Repr, Inhabited")
    L.append("")
    L.append("def Kind.name : Kind → String")
    for k in kinds:
        L.append(f"  | .{k} => \"{k}\"")
    L.append("")
    L.append("def allKinds : List Kind := [" + ", ".join("." + k for k in kinds) + "]")
    L.append("")
    L.append("/-- `let (left_bp, right_bp) = if p.at(..) {..} else if ..` of `parse_expr_bp`; `none` is the")
    L.append("final `else { break; }` -/")
    L.append("def binaryBp : Kind → Option (Nat × Nat)")
    for k, l, r in rows:
        L.append(f"  | .{k} => some ({l}, {r})")
    if len(rows) < len(kinds):
        L.append("  | _ => none")
    L.append("")
    L.append("/-- the same table as a list, in source order -/")
    L.append("def binaryTable : List (Kind × Nat × Nat) := [" + ", ".join(f"(.{k}, {l}, {r})" for k, l, r in rows) + "]")
    L.append("")
    L.append(setfn("isPrefix", prefix, "`PREFIX_TOKENS`"))
    L.append("")
    L.append("def prefixTokens : List Kind := [" + ", ".join("." + k for k in prefix) + "]")
    L.append("")
    L.append(setfn("prefixDisallowDot", prefix_nodot, "`PREFIX_DISALLOW_DOT` (flag handed to `parse_expr_for_prefix` by `parse_prefix_expr`)"))
    L.append("")
    L.append(setfn("quickAssign", quick, "`stmt::QUICK_ASSIGN_OPERATORS`"))
    L.append("")
    L.append("/-- match arms of `parse_post_operators` in source order; `true` = guarded by `if !disallow_derefs` -/")
    L.append("def postfixStarters : List (Kind × Bool) := [" + ", ".join(f"(.{k}, {'true' if g else 'false'})" for k, g in starters) + "]")
    L.append("")
    L.append("/-- forms after `.` in source order; `true` = guarded by `if disallow_dot_instantiation { break; }`;")
    L.append("anything else after `.` is the field-access (`Path`) arm -/")
    L.append("def dotForms : List (Kind × Bool) := [" + ", ".join(f"(.{k}, {'true' if g else 'false'})" for k, g in dot_forms) + "]")
    L.append("")
    L.append("/-- `parse_post_operators(p, recovery_set, lhs, <disallow_derefs>, <disallow_dot_instantiation>)` in the loop of `parse_expr_bp` -/")
    L.append(f"def loopDisallowDerefs : Bool := {loop_flags[0]}")
    L.append(f"def loopDisallowDot : Bool := {loop_flags[1]}")
    L.append("/-- `disallow_derefs` argument inside `parse_expr_for_prefix` -/")
    L.append(f"def prefixDisallowDerefs : Bool := {prefix_no_deref}")
    L.append("/-- `disallow_dot_instantiation` argument of `parse_ref` -/")
    L.append(f"def refDisallowDot : Bool := {ref_nodot}")
    L.append("/-- `Parser::bump` (and `at`, `at_set`, `kind`, `at_eof`) call `skip_trivia()` before acting -/")
    L.append("def bumpSkipsTrivia : Bool := true")
    L.append("/-- `parse_expr` starts `parse_expr_bp` at this minimum binding power -/")
    L.append("def startBp : Nat := 0")
    L.append("")
    L.append("end CapyV.Generated.BP")
    emit("BindingPowers.lean", "\n".join(L) + "\n")
