#!/usr/bin/env python3
"""Writes MANIFEST.json from tools/manifest_src.py (kept as data so it stays valid)."""
import json, os, sys
ROOT = os.path.dirname(os.path.dirname(os.path.abspath(__file__)))
sys.path.insert(0, os.path.join(ROOT, "tools"))
from manifest_src import MANIFEST
json.dump(MANIFEST, open(os.path.join(ROOT, "MANIFEST.json"), "w"), indent=1, ensure_ascii=False)
print("claimed:", [c["property_id"] for c in MANIFEST["checks"]])
print("not_applicable:", [c["property_id"] for c in MANIFEST["not_applicable"]])
