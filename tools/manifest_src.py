"""Source of MANIFEST.json (python3 tools/mkmanifest.py regenerates it)."""
from props import PROPS

LEVEL_TEXT = {
    "C25": ("proof",
            "The property in full is a Lean 4 theorem (CapyV.C25.lineCol_exact, header_one_based, lineCol_total, lineStarts_strictMono) about a byte-level model of LineIndex::new/line_col and of the header of Diagnostic::display, for every text and every offset, no size bound. The model is tied to the code on every run by running the real LineIndex and the real Diagnostic::display against the compiled Lean model on all strings <= 6 (thorough: <= 8) symbols over {a,\\n,\\r,\\t,é} x every offset plus random UTF-8 up to 64 KiB, and against an independent oracle written from the property statement.",
            "§4 C25",
            "Lean 4 proof (induction over the text) + differential correspondence check against the real crate"),
}

LEVEL_TEXT["C17"] = ("proof",
    "Every clause of the property is a Lean 4 theorem about a transcription of calc_single / StructLayout::new / padding_needed_for / stride, by structural induction over the (mutual) type syntax, for every well-formed type and pointer width: align_pow2_le8, struct_fields_ok (declaration order, aligned, disjoint, inside the size), array_size + stride_rounds_up, distinct/variant_same_layout, optional_pointer_is_pointer_sized, optional/error_union/enum tag after the largest payload. The model is tied to the code each run through hook codegen::verif::layouts on every primitive, two constructor layers over them, random depth-3 types, both pointer widths (0 disagreements required), and the rules are also checked directly on the implementation's numbers; thorough compares structs of scalars with host gcc offsetof.",
    "§4 C17",
    "Lean 4 proof (mutual structural induction over types) + differential correspondence via hook")

NOT_YET = "check not built yet in this round (work in progress; see DESIGN.md §8 for the order)"

NOT_APPLICABLE = {
    "C21": "reproducibility of two runs of one process is about hidden process state (hash iteration order, addresses); every Lean model is a function, so `same input => same output` is rfl for any model and no executable model can differ between two runs — nothing for a theorem or a correspondence check to say (DESIGN.md §5)",
}

ALL = ["C%02d" % i for i in range(1, 29)]


def checks():
    out = []
    for pid in ALL:
        if pid not in PROPS or pid not in LEVEL_TEXT:
            continue
        cat, text, ref, tech = LEVEL_TEXT[pid]
        out.append({
            "property_id": pid,
            "quick_cmd": f"./check {pid} --tier quick",
            "thorough_cmd": f"./check {pid} --tier thorough",
            "evidence_file": f"evidence/{pid}.json",
            "replay_cmd_template": f"./check {pid} --replay {{path}}",
            "engine": "capyv-lean",
            "level_claimed": {"category": cat, "text": text, "design_ref": ref},
            "level_note": "; ".join(PROPS[pid]["trusted_base"]),
            "technique": tech,
        })
    return out


def not_applicable():
    out = []
    for pid in ALL:
        if pid in PROPS and pid in LEVEL_TEXT:
            continue
        out.append({"property_id": pid, "reason": NOT_APPLICABLE.get(pid, NOT_YET)})
    return out


MANIFEST = {
    "version": 1,
    "setup_cmd": "./setup.sh",
    "hooks": {
        "guard": "capy_verif",
        "enable": "RUSTFLAGS='--cfg capy_verif' (set in harness/.cargo/config.toml; the harness crate has path dependencies on /repo/crates/* and is rebuilt by every check)",
        "baseline_off_cmd": "cd /repo && cargo test --workspace --no-fail-fast --offline",
        "source_commits": [],
        "add_only": True,
    },
    "engines": [
        {"name": "capyv-lean", "path": "lean/",
         "serves_properties": [c for c in ALL if c in PROPS and c in LEVEL_TEXT],
         "kind_free_text": "Lean 4 project: executable models (CapyV/Model), property theorems (CapyV/Props), line-protocol driver `capyv`; Rust harness `harness/` (cvh) runs the real crates in-process against it; tools/gen.py regenerates table-shaped model parts from /repo"},
    ],
    "checks": checks(),
    "not_applicable": not_applicable(),
    "notes": "Every check: rebuilds the harness against /repo's working tree, regenerates tables, builds the property's Lean theorems, audits axioms, runs correspondence + independent oracle, triages against known_findings.json. exit 2 = infrastructure failure (no verdict).",
}
